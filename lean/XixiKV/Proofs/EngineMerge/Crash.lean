import XixiKV.Proofs.EngineMerge.AdoptOpen
namespace XixiKV.Engine.MergeP
open XixiKV XixiKV.Engine XixiKV.Frame XixiKV.Record XixiKV.Index XixiKV.Adopt XixiKV.Engine.Restart

/-! ## `Open` on a crash image of an adoption -/

theorem stepP_meta (p : PairSt) (st : Step) : (stepP p st).1.locked = p.1.locked ∧ (stepP p st).1.marker = p.1.marker := by
  unfold stepP
  cases p.2 with
  | none => exact ⟨rfl, rfl⟩
  | some md =>
    simp only []
    cases st with
    | rename i => simp only []; cases getFile md.data i <;> exact ⟨rfl, rfl⟩
    | remove i => exact ⟨rfl, rfl⟩
    | moveHint => simp only []; cases md.hint <;> exact ⟨rfl, rfl⟩
    | removeMarker => exact ⟨rfl, rfl⟩
    | removeDir => exact ⟨rfl, rfl⟩

theorem stepsP_meta (l : List Step) : ∀ (p : PairSt),
    (l.foldl stepP p).1.locked = p.1.locked ∧ (l.foldl stepP p).1.marker = p.1.marker := by
  induction l with
  | nil => intro p; exact ⟨rfl, rfl⟩
  | cons st l ih =>
    intro p
    simp only [List.foldl_cons]
    obtain ⟨h1, h2⟩ := ih (stepP p st)
    obtain ⟨h3, h4⟩ := stepP_meta p st
    exact ⟨h1.trans h3, h2.trans h4⟩

/-- a crash image of an adoption still has the data directory, with the same lock bit -/
theorem applyPrefix_dir (w : World) (dir : String) (d : DirSt) (hd : w.get dir = some d) (k : Nat) :
    ∃ dk, (applyPrefix w dir k).get dir = some dk ∧ dk.locked = d.locked ∧ dk.marker = d.marker := by
  rw [applyPrefix_eq w dir (by rw [hd]; rfl), get_put_dir]
  refine ⟨_, rfl, ?_⟩
  have := stepsP_meta ((stepsP (viewP w dir)).take k) (viewP w dir)
  have hv : (viewP w dir).1 = d := by unfold viewP; rw [hd]; rfl
  rw [hv] at this
  exact this

/-- hint-path `Open` when adoption (of whatever is left to adopt) produces the merged directory -/
theorem open_hint_adopted (s0 : St) (dir : String) (cfg : Cfg) (d D' : DirSt) (W' : World) (n a : Nat)
    (gm hiG : GDir) (mdata hdata : List (Nat × FileSt))
    (hdb : s0.db = none) (hcfg : cfg.Valid) (hd : s0.world.get dir = some d) (hl : d.locked = false)
    (hadopt : adopt s0.world dir = (W', n)) (hD' : W'.get dir = some D') (hDd : D'.data = mdata ++ hdata)
    (hhint : D'.hint = some (hintBytes gm))
    (hM : Merged gm) (hF : HintFits gm) (hids : gm.map (·.1) = List.range gm.length)
    (hc0 : 0 < gm.length) (hc : gm.length ≤ n)
    (hmt : Matches mdata gm) (hmh : Matches hdata hiG) (hrh : ∀ x ∈ hiG, ∀ r ∈ x.2, RecOK r)
    (hge : ∀ x ∈ hiG, n ≤ x.1) (haschi : AscIds hiG) (hne : hiG ≠ []) (hlast : (hiG.getLast?).map (·.1) = some a) :
    ∃ maxFid, openDB s0 dir cfg
        = (⟨W'.set dir { D' with locked := true },
            some (hintDB cfg dir a (gm ++ hiG) (sizeSum (logOf (hi gm maxFid))))⟩, .ok) ∧
      Inv ⟨W'.set dir { D' with locked := true }, some (hintDB cfg dir a (gm ++ hiG) (sizeSum (logOf (hi gm maxFid))))⟩
        (hintDB cfg dir a (gm ++ hiG) (sizeSum (logOf (hi gm maxFid)))) (gm ++ hiG) := by
  have hgmasc : AscIds gm := by
    have : (gm.map (·.1)).Pairwise (· < ·) := by rw [hids]; exact List.pairwise_lt_range
    exact List.pairwise_map.mp this
  obtain ⟨maxFid, hlh, hmax1, hmax2⟩ := loadHint_eq_replay gm hM hF
  have hmaxlt : maxFid < gm.length := by
    rcases hmax2 with h0 | ⟨x, hx, hfx⟩
    · rw [h0]; exact hc0
    · obtain ⟨y, hy, hz⟩ := mem_logOf.mp hx
      have hf := posAll_fid C y.1 _ _ x.2 (List.of_mem_zip hz).2
      have : y.1 ∈ gm.map (·.1) := List.mem_map.mpr ⟨y, hy, rfl⟩
      rw [hids] at this
      have := List.mem_range.mp this
      omega
  have hmin : min maxFid n = maxFid := by omega
  have hload := loadIndex_after_hint gm hiG mdata hdata maxFid hM hgmasc hmt hmh hrh
    (fun x hx => by have := hge x hx; omega)
  have hmdne : mdata ≠ [] := by
    intro e
    rw [e, Restart.Matches_nil_left] at hmt
    rw [hmt] at hc0; simp at hc0
  have hopen := openDB_hint s0 dir cfg d D' W' n maxFid (replayLog (logOf gm))
    (bump (replayLog (logOf (gm ++ hiG))) (sizeSum (logOf (hi gm maxFid)))) (mdata ++ hdata)
    hdb (by omega) hd hl hadopt (by omega) hD' (by rw [hhint]; exact hlh)
    (by rw [hDd]; simp [hmdne]) (by rw [hmin, hDd]; exact hload)
  have hmtAll : Matches (mdata ++ hdata) (gm ++ hiG) := Matches_append hmt hmh
  have hactAll : ((gm ++ hiG).getLast?).map (·.1) = some a := by
    rw [getLast_append_ne _ _ hne]; exact hlast
  have hdbeq : mkDB cfg dir (bump (replayLog (logOf (gm ++ hiG))) (sizeSum (logOf (hi gm maxFid)))) (mdata ++ hdata)
      = hintDB cfg dir a (gm ++ hiG) (sizeSum (logOf (hi gm maxFid))) := by
    unfold mkDB hintDB
    rw [activeId_of_getLast (by rw [Matches_getLast hmtAll]; exact hactAll)]
    rfl
  rw [hdbeq] at hopen
  have hD'eq : ({ D' with data := mdata ++ hdata, locked := true } : DirSt) = { D' with locked := true } := by
    rw [← hDd]
  rw [hD'eq] at hopen
  refine ⟨maxFid, hopen, ?_⟩
  have hascAll : AscIds (gm ++ hiG) := by
    unfold AscIds
    rw [List.pairwise_append]
    refine ⟨hgmasc, haschi, ?_⟩
    intro x hx y hy
    have h1 : x.1 ∈ gm.map (·.1) := List.mem_map.mpr ⟨x, hx, rfl⟩
    rw [hids] at h1
    have h1 := List.mem_range.mp h1
    have := hge y hy
    omega
  refine ⟨⟨_, get_set_self _ _ _, rfl, by show Matches D'.data _; rw [hDd]; exact hmtAll⟩, hascAll, hactAll, ?_, rfl,
    replay_sorted _, ?_, rfl⟩
  · intro x hx
    rcases List.mem_append.mp hx with hx | hx
    · exact hM.recs x hx
    · exact hrh x hx
  · have := replay_counters (logOf (gm ++ hiG))
    show (replayLog (logOf (gm ++ hiG))).total + _
      = (replayLog (logOf (gm ++ hiG))).reclaim + _ + liveBytes (replayLog (logOf (gm ++ hiG))).index
    omega

/-! ## the process dies while `Merge` is running -/

/-- process-death image of a world: the advisory lock of `dir` dies with the process; all bytes
    written so far stay (no OS failure — torn tails are the subject of C03) -/
def dead (w : World) (dir : String) : World :=
  match w.get dir with
  | some d => w.set dir { d with locked := false }
  | none => w

/-- the state of `Merge` after `j` complete files of its visiting order and `i` records of the
    next file (`g` = ghost directory before the merge; beyond the ends the state is the final one
    of the loop) -/
def mergeMid (s : St) (db : DB) (g : GDir) (order : List Nat) (j i : Nat) : St × MergeSt :=
  let d1 := dirOf (mergeStart s db) (rotate s db).2
  let vis := visOf order d1 (db.activeId + 1) (g ++ [(db.activeId + 1, [])])
  let stJ := ((vis.take j).map (·.1)).foldl (mergeFile (rotDB db) (rotDB db).activeId) (mergeStart s db, mergeM0 (rotDB db))
  match vis[j]? with
  | none => stJ
  | some x =>
    (((x.2.zip (possOf x.1 x.2)).take i).map (fun y => (encodeRecord y.1, y.2))).foldl
      (fun (acc : St × MergeSt) (y : ByteArray × Pos) => mergeRec acc.1 (rotDB db) acc.2 (rotDB db).activeId x.1 y.1 y.2) stJ

/-- every intermediate state of the rewrite loop: live handle and data directory untouched since
    the rotation, merge directory without marker -/
theorem mergeMid_spec {s : St} {db : DB} {g : GDir} (hinv : Inv s db g) (order : List Nat) (ho : order.Nodup) (j i : Nat) :
    ∃ d1, (mergeStart s db).world.get db.dir = some d1 ∧ d1.locked = true ∧
      Matches d1.data (g ++ [(db.activeId + 1, [])]) ∧
      MBase (mergeStart s db).world (rotDB db) (mergeMid s db g order j i).1 (mergeMid s db g order j i).2 := by
  obtain ⟨hf1, hdb1, _⟩ := rotate_spec hinv.files
  have hdb1' : (rotate s db).2 = rotDB db := hdb1
  obtain ⟨d1, hd1, hl1, hm1⟩ := hf1.dir
  rw [rotate_dir] at hd1
  have hne := mname_ne db.dir
  have hW : (mergeStart s db).world.get db.dir = some d1 := by
    unfold mergeStart
    simp only []
    rw [get_set_ne _ _ _ _ hne.symm, get_remove_ne _ _ _ hne.symm]; exact hd1
  refine ⟨d1, hW, hl1, hm1, ?_⟩
  have hB0 : MBase (mergeStart s db).world (rotDB db) (mergeStart s db) (mergeM0 (rotDB db)) := by
    refine ⟨by unfold mergeStart; rw [hdb1'], fun _ _ => rfl, rfl, ?_, ?_⟩
    · unfold metaOf mergeStart
      simp only []
      rw [show (rotDB db).dir = db.dir from rfl, get_set_self]
      rfl
    · unfold mergeStart
      simp only []
      rw [show (rotDB db).dir = db.dir from rfl, get_set_self]
      exact ⟨_, rfl⟩
  have hF0 : (mergeM0 (rotDB db)).failed = none →
      ∃ gmc, MFull (rotDB db) (mergeStart s db) (mergeM0 (rotDB db)) [] gmc := by
    intro _
    refine ⟨[(0, [])], ⟨⟨?_, by simp [AscIds], rfl, ?_⟩, rfl, ?_, rfl, ?_⟩⟩
    · refine ⟨{ DirSt.empty with data := [(0, ⟨ByteArray.empty, 0⟩)] }, ?_, ?_⟩
      · show (mergeStart s db).world.get (mergeDirName db.dir) = some { DirSt.empty with data := [(0, ⟨ByteArray.empty, 0⟩)] }
        unfold mergeStart
        simp only []
        rw [get_set_self]
      · show (0 : Nat) = 0 ∧ ByteArray.empty = bytesOf [] ∧ True
        exact ⟨rfl, rfl, trivial⟩
    · intro x hx r hr
      simp only [List.mem_singleton] at hx
      rw [hx] at hr; simp at hr
    · simp [logOf]
    · show 0 < db.activeId + 1
      omega
  have hdir : dirOf (mergeStart s db) (rotate s db).2 = d1 := by
    unfold dirOf
    rw [rotate_dir, hW]; rfl
  obtain ⟨_, hmem⟩ := visOf_perm order d1 (db.activeId + 1) (g ++ [(db.activeId + 1, [])]) ho hm1 hf1.asc
  unfold mergeMid
  simp only [hdir]
  obtain ⟨hB, hF⟩ := mergeFile_fold (W := (mergeStart s db).world) (db1 := rotDB db) (d1 := d1) (L := []) hW hm1 hf1.asc hf1.recs
    ((visOf order d1 (db.activeId + 1) (g ++ [(db.activeId + 1, [])])).take j) hB0 hF0
    (fun x hx => hmem x (List.mem_of_mem_take hx))
  cases hx : (visOf order d1 (db.activeId + 1) (g ++ [(db.activeId + 1, [])]))[j]? with
  | none => exact hB
  | some x =>
    simp only []
    have hxm : x ∈ g ++ [(db.activeId + 1, [])] := hmem x (List.mem_of_getElem? hx)
    have hxs : ∀ y ∈ (x.2.zip (possOf x.1 x.2)).take i, RecOK y.1 ∧ y.2.fid = x.1 := by
      intro y hy
      have hy' := List.mem_of_mem_take hy
      exact ⟨hf1.recs x hxm y.1 (List.of_mem_zip hy').1, posAll_fid C x.1 _ _ y.2 (List.of_mem_zip hy').2⟩
    exact (mergeRec_fold (W := (mergeStart s db).world) (db1 := rotDB db) x.1 ((x.2.zip (possOf x.1 x.2)).take i)
      hB (fun h => (hF h).2) hxs).1

/-- `Open` on the process-death image of any state in which the data directory matches the rotated
    ghost directory and the merge directory has no marker -/
theorem open_dead_MBase {s : St} {db : DB} {g : GDir} (hinv : Inv s db g) {W : World} {sm : St} {m : MergeSt}
    {d1 : DirSt} (hW : W.get db.dir = some d1) (hm1 : Matches d1.data (g ++ [(db.activeId + 1, [])]))
    (hB : MBase W (rotDB db) sm m) (cfg' : Cfg) (hcfg : cfg'.Valid) :
    ∃ s' db', openDB ⟨dead sm.world db.dir, none⟩ db.dir cfg' = (s', .ok) ∧ s'.db = some db' ∧
      db'.dir = db.dir ∧ db'.index = db.index ∧
      Inv s' db' (g ++ [(db.activeId + 1, [])]) ∧ (∀ k, absGet s' db' k = absGet s db k) ∧
      s'.world.get db.dir = some { d1 with locked := true } := by
  obtain ⟨hf1, _, _⟩ := rotate_spec hinv.files
  have hne := mname_ne db.dir
  have hsd : sm.world.get db.dir = some d1 := by
    rw [hB.frame db.dir hne.symm]; exact hW
  have hdead : dead sm.world db.dir = sm.world.set db.dir { d1 with locked := false } := by
    unfold dead; rw [hsd]
  obtain ⟨md, hmd⟩ := hB.mex
  have hmk : md.marker = none := by
    have := hB.mmeta
    unfold metaOf at this
    rw [hmd] at this
    simp only [Option.getD_some, Prod.mk.injEq] at this
    exact this.2.1
  have hplan : plan (dead sm.world db.dir) db.dir = none := by
    rw [hdead, plan_set _ _ _ _ (Or.inl hne.symm)]
    exact plan_none_of_no_marker hmd hmk
  have hopen := openDB_ghost ⟨dead sm.world db.dir, none⟩ db.dir cfg' { d1 with locked := false }
    (g ++ [(db.activeId + 1, [])]) (db.activeId + 1) rfl hcfg (by rw [hdead]; exact get_set_self _ _ _) rfl hplan hm1
    hf1.recs hf1.active
  have hinv' := Inv_scanDB ((dead sm.world db.dir).set db.dir { ({ d1 with locked := false } : DirSt) with locked := true })
    db.dir cfg' _ (g ++ [(db.activeId + 1, [])]) (db.activeId + 1) (get_set_self _ _ _) rfl hm1 hf1.asc hf1.recs hf1.active
    ⟨_, some (scanDB cfg' db.dir (db.activeId + 1) (g ++ [(db.activeId + 1, [])]))⟩ rfl
  refine ⟨_, _, hopen, rfl, rfl, ?_, hinv', ?_, get_set_self _ _ _⟩
  · show (replayLog (logOf (g ++ [(db.activeId + 1, [])]))).index = db.index
    rw [logOf_new_file]; exact hinv.index.symm
  · intro k
    exact absGet_stable hinv hinv'.files (by rw [logOf_new_file]; exact fun x hx => hx)
      (by show Index.get (replayLog (logOf (g ++ [(db.activeId + 1, [])]))).index k = _
          rw [logOf_new_file, hinv.index])

/-- past the last file, the intermediate state is the final state of the loop -/
theorem mergeMid_end (s : St) (db : DB) (g : GDir) (order : List Nat) (j i : Nat)
    (hj : (mergeIds order (dirOf (mergeStart s db) (rotate s db).2) (db.activeId + 1)).length ≤ j) :
    mergeMid s db g order j i = mergeLoop s db order := by
  unfold mergeMid mergeLoop
  simp only []
  have hlen : (visOf order (dirOf (mergeStart s db) (rotate s db).2) (db.activeId + 1) (g ++ [(db.activeId + 1, [])])).length ≤ j := by
    have := congrArg List.length (visOf_ids order (dirOf (mergeStart s db) (rotate s db).2) (db.activeId + 1) (g ++ [(db.activeId + 1, [])]))
    rw [List.length_map] at this
    omega
  rw [List.getElem?_eq_none hlen, List.take_of_length_le hlen, visOf_ids]
  rfl

end XixiKV.Engine.MergeP
