import XixiKV.Proofs.EngineMerge.Replay
namespace XixiKV.Engine.MergeP
open XixiKV XixiKV.Engine XixiKV.Frame XixiKV.Record XixiKV.Index XixiKV.Adopt XixiKV.Engine.Restart

/-! ## the merged directory denotes the same mapping -/

/-- key by key, the index over the old log and the index over the new log either both have no
    entry or point at logged records with the same value -/
def ValRel (A1 A2 : List (Record × Pos)) (I1 I2 : Index) : Prop :=
  ∀ k, (Index.get I1 k = none ∧ Index.get I2 k = none) ∨
    ∃ p1 p2 r1 r2, Index.get I1 k = some p1 ∧ Index.get I2 k = some p2 ∧ (r1, p1) ∈ A1 ∧ (r2, p2) ∈ A2 ∧
      r1.value = r2.value

def updIx (I : Index) (x : Record × Pos) : Index :=
  if x.1.typ = 1 then Index.erase I x.1.key else Index.put I x.1.key x.2

theorem SortedKeys_updIx {I : Index} (h : SortedKeys I) (x : Record × Pos) : SortedKeys (updIx I x) := by
  unfold updIx
  split
  · exact SortedKeys_erase _ h
  · exact SortedKeys_put _ _ h

theorem ValRel.step {A1 A2 : List (Record × Pos)} {I1 I2 : Index} (h : ValRel A1 A2 I1 I2)
    (hs1 : SortedKeys I1) (hs2 : SortedKeys I2) (x : Record × Pos) :
    ValRel (A1 ++ [x]) (A2 ++ [x]) (updIx I1 x) (updIx I2 x) := by
  intro k
  unfold updIx
  by_cases ht : x.1.typ = 1
  · rw [if_pos ht, if_pos ht, Index.get_erase hs1, Index.get_erase hs2]
    by_cases e : k = x.1.key
    · rw [if_pos e, if_pos e]; exact Or.inl ⟨rfl, rfl⟩
    · rw [if_neg e, if_neg e]
      rcases h k with h | ⟨p1, p2, r1, r2, h1, h2, h3, h4, h5⟩
      · exact Or.inl h
      · exact Or.inr ⟨p1, p2, r1, r2, h1, h2, by simp [h3], by simp [h4], h5⟩
  · rw [if_neg ht, if_neg ht, Index.get_put, Index.get_put]
    by_cases e : k = x.1.key
    · rw [if_pos e, if_pos e]
      exact Or.inr ⟨x.2, x.2, x.1, x.1, rfl, rfl, by simp, by simp, rfl⟩
    · rw [if_neg e, if_neg e]
      rcases h k with h | ⟨p1, p2, r1, r2, h1, h2, h3, h4, h5⟩
      · exact Or.inl h
      · exact Or.inr ⟨p1, p2, r1, r2, h1, h2, by simp [h3], by simp [h4], h5⟩

theorem ValRel.steps (W : List (Record × Pos)) : ∀ {A1 A2 : List (Record × Pos)} {I1 I2 : Index},
    ValRel A1 A2 I1 I2 → SortedKeys I1 → SortedKeys I2 →
    ValRel (A1 ++ W) (A2 ++ W) (W.foldl updIx I1) (W.foldl updIx I2) := by
  induction W with
  | nil => intro A1 A2 I1 I2 h _ _; simpa using h
  | cons x t ih =>
    intro A1 A2 I1 I2 h hs1 hs2
    have := ih (h.step hs1 hs2 x) (SortedKeys_updIx hs1 x) (SortedKeys_updIx hs2 x)
    simpa [List.append_assoc] using this

theorem replayFrom_plain_index (W : List (Record × Pos)) : ∀ (R : Replay), (∀ x ∈ W, x.1.batch = 0) →
    (replayFrom R W).index = W.foldl updIx R.index := by
  induction W with
  | nil => intro R _; rfl
  | cons x t ih =>
    intro R h
    rw [replayFrom_cons, ih _ (fun y hy => h y (by simp [hy])), List.foldl_cons,
      replayRec_plain_index _ _ _ (h x (by simp))]
    rfl

theorem logOf_plain {g : GDir} (h : ∀ x ∈ g, ∀ r ∈ x.2, r.batch = 0) : ∀ e ∈ logOf g, e.1.batch = 0 := by
  intro e he
  obtain ⟨x, hx, hr⟩ := mem_logOf_record (r := e.1) (p := e.2) he
  exact h x hx _ hr

/-- **the semantic core of C06**: replaying `merged files ++ files ≥ n` relates, key by key, to
    replaying `files < n ++ files ≥ n` -/
theorem ValRel_merged {w : World} {dir : String} {g : GDir} {n : Nat} {gm vis : GDir}
    (h : MergeOutW w dir g n gm vis) (hasc : AscIds g) (hrecs : ∀ x ∈ g, ∀ r ∈ x.2, RecOK r) :
    ValRel (logOf g) (logOf (gm ++ hi g n)) (replayLog (logOf g)).index (replayLog (logOf (gm ++ hi g n))).index := by
  obtain ⟨hM, hcov1, hcov2⟩ := h.merged hasc hrecs
  obtain ⟨hg1, hg2⟩ := hM.get
  -- base: files < n against the merged files
  have hbase : ValRel (logOf (lo g n)) (logOf gm) (scanIndex g n) (replayLog (logOf gm)).index := by
    intro k
    cases hk : Index.get (scanIndex g n) k with
    | none =>
      left
      exact ⟨rfl, hg2 k (hcov2 k hk)⟩
    | some p =>
      right
      obtain ⟨r, p2, hr, hkey, hm⟩ := hcov1 k p hk
      refine ⟨p, p2, r, plainOf r, rfl, ?_, hr, hm, rfl⟩
      have := hg1 _ hm
      rw [show (plainOf r).key = r.key from rfl, hkey] at this
      exact this
  have hplain := logOf_plain h.hiPlain
  have hsplit : logOf g = logOf (lo g n) ++ logOf (hi g n) := by
    rw [← Restart.logOf_append, lo_append_hi hasc]
  have hrel := hbase.steps (logOf (hi g n)) (replay_sorted _) (replay_sorted _)
  have e1 : (replayLog (logOf g)).index = (logOf (hi g n)).foldl updIx (scanIndex g n) := by
    rw [hsplit, replayLog_eq, replayFrom_append, replayFrom_plain_index _ _ hplain]
    rfl
  have e2 : (replayLog (logOf (gm ++ hi g n))).index = (logOf (hi g n)).foldl updIx (replayLog (logOf gm)).index := by
    rw [Restart.logOf_append, replayLog_eq, replayFrom_append, replayFrom_plain_index _ _ hplain]
    rfl
  rw [e1, e2, Restart.logOf_append, hsplit]
  exact hrel

/-- two handles whose indexes are `ValRel`-related over their ghost logs denote the same mapping -/
theorem absGet_of_ValRel {s1 s2 : St} {db1 db2 : DB} {g1 g2 : GDir} (h1 : Inv s1 db1 g1) (h2 : Inv s2 db2 g2)
    (hrel : ValRel (logOf g1) (logOf g2) (replayLog (logOf g1)).index (replayLog (logOf g2)).index)
    (k : ByteArray) : absGet s2 db2 k = absGet s1 db1 k := by
  unfold absGet
  rw [h1.index, h2.index]
  rcases hrel k with ⟨e1, e2⟩ | ⟨p1, p2, r1, r2, e1, e2, m1, m2, hv⟩
  · rw [e1, e2]
  · rw [e1, e2]
    simp only [valueAt_log h1.files m1, valueAt_log h2.files m2, hv]

end XixiKV.Engine.MergeP
