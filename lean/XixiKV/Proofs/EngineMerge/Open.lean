import XixiKV.Proofs.EngineMerge.Adopt
namespace XixiKV.Engine.MergeP
open XixiKV XixiKV.Engine XixiKV.Frame XixiKV.Record XixiKV.Index XixiKV.Adopt XixiKV.Engine.Restart

/-! ## `openDB` when there is nothing to adopt -/

theorem adopt_of_plan_none {w : World} {dir : String} (h : plan w dir = none) : adopt w dir = (w, 0) := by
  unfold plan at h
  unfold adopt
  simp only []
  cases hm : w.get (mergeDirName dir) with
  | none => rfl
  | some md =>
    rw [hm] at h
    simp only [] at h ⊢
    cases hk : md.marker with
    | none => rfl
    | some m =>
      rw [hk] at h
      simp only [] at h ⊢
      by_cases c : (readMarker m).1 = 0 ∨ (readMarker m).2 > (readMarker m).1
      · rw [if_pos c]
      · rw [if_neg c] at h; cases h

theorem plan_none_of_no_dir {w : World} {dir : String} (h : w.get (mergeDirName dir) = none) : plan w dir = none := by
  unfold plan; rw [h]

theorem plan_none_of_no_marker {w : World} {dir : String} {md : DirSt} (h : w.get (mergeDirName dir) = some md)
    (hm : md.marker = none) : plan w dir = none := by
  unfold plan; rw [h]; simp only [hm]

/-- `openDB_scan` with "no merge directory" weakened to "nothing to adopt" -/
theorem openDB_scan' (s : St) (dir : String) (cfg : Cfg) (d : DirSt) (r : Replay)
    (data' : List (Nat × FileSt))
    (hdb : s.db = none) (hcfg : cfg.Valid) (hd : s.world.get dir = some d)
    (hl : d.locked = false) (hm : plan s.world dir = none) (hne : d.data ≠ [])
    (hload : loadIndex Replay.init 0 d.data = some (r, data')) :
    openDB s dir cfg
      = ({ world := s.world.set dir { d with data := data', locked := true },
           db := some (mkDB cfg dir r data') }, .ok) := by
  unfold openDB
  simp only [hdb, if_neg hcfg.not_rejected, hd, Option.isNone_some, Bool.false_eq_true, if_false, Option.getD_some, hl]
  have hadopt : adopt s.world dir = (s.world, 0) := adopt_of_plan_none hm
  simp only [hadopt, hd, Option.getD_some, Nat.lt_irrefl, if_false, ite_self]
  have hne' : d.data.isEmpty = false := by
    cases hdd : d.data with
    | nil => exact absurd hdd hne
    | cons _ _ => rfl
  simp only [hne', Bool.not_false, if_true]
  have hload' : loadIndex { index := [], reclaim := 0, total := 0, pending := [] } 0 d.data = some (r, data') := hload
  simp only [hload']
  rfl

/-- the handle a scan-path `Open` builds for a closed directory matching the ghost directory `g` -/
def scanDB (cfg : Cfg) (dir : String) (a : Nat) (g : GDir) : DB :=
  { cfg := cfg, dir := dir, activeId := a, index := (replayLog (logOf g)).index,
    reclaim := (replayLog (logOf g)).reclaim, total := (replayLog (logOf g)).total, bytesWrite := 0, batch := none }

/-- scan-path `Open` of an unlocked directory whose files are the ghost files `g` -/
theorem openDB_ghost (s : St) (dir : String) (cfg : Cfg) (d : DirSt) (g : GDir) (a : Nat)
    (hdb : s.db = none) (hcfg : cfg.Valid) (hd : s.world.get dir = some d)
    (hl : d.locked = false) (hm : plan s.world dir = none) (hmt : Matches d.data g)
    (hrecs : ∀ x ∈ g, ∀ r ∈ x.2, RecOK r) (hact : (g.getLast?).map (·.1) = some a) :
    openDB s dir cfg = ({ world := s.world.set dir { d with locked := true }, db := some (scanDB cfg dir a g) }, .ok) := by
  have hgne : g ≠ [] := getLast?_ne_none_of_map hact
  rw [openDB_scan' s dir cfg d (replayLog (logOf g)) d.data hdb (by omega) hd hl hm (Matches_ne_nil hmt hgne)
    (loadIndex_ghost_init _ g hmt hrecs)]
  have hact' : (mkDB cfg dir (replayLog (logOf g)) d.data).activeId = a := by
    unfold mkDB
    exact activeId_of_getLast (by rw [Matches_getLast hmt]; exact hact)
  unfold scanDB
  rw [← hact']
  rfl

/-- … and the freshly opened handle satisfies the invariant -/
theorem Inv_scanDB (w : World) (dir : String) (cfg : Cfg) (d : DirSt) (g : GDir) (a : Nat)
    (hd : w.get dir = some d) (hl : d.locked = true) (hmt : Matches d.data g)
    (hasc : AscIds g) (hrecs : ∀ x ∈ g, ∀ r ∈ x.2, RecOK r) (hact : (g.getLast?).map (·.1) = some a)
    (s : St) (hs : s.world = w) : Inv s (scanDB cfg dir a g) g where
  dir := ⟨d, by rw [hs]; exact hd, hl, hmt⟩
  asc := hasc
  active := hact
  recs := hrecs
  index := rfl
  sorted := replay_sorted _
  counters := replay_counters _
  nobatch := rfl

end XixiKV.Engine.MergeP
