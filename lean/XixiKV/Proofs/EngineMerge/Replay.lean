import XixiKV.Proofs.EngineMerge.Stable
namespace XixiKV.Engine.MergeP
open XixiKV XixiKV.Engine XixiKV.Frame XixiKV.Record XixiKV.Index XixiKV.Adopt XixiKV.Engine.Restart

/-! ## counting some bytes twice: `bump` commutes with the replay -/

/-- `S` bytes counted once more in `total` and once in `reclaim` -/
def bump (R : Replay) (S : Nat) : Replay := { R with total := R.total + S, reclaim := R.reclaim + S }

theorem bump_zero (R : Replay) : bump R 0 = R := rfl

theorem bump_bump (R : Replay) (a b : Nat) : bump (bump R a) b = bump R (a + b) := by
  unfold bump; simp only [Nat.add_assoc]

theorem Replay_ext {a b : Replay} (h1 : a.index = b.index) (h2 : a.reclaim = b.reclaim) (h3 : a.total = b.total)
    (h4 : a.pending = b.pending) : a = b := by
  cases a; cases b; simp only at h1 h2 h3 h4; subst h1 h2 h3 h4; rfl

theorem apply_bump (R : Replay) (S : Nat) (k : ByteArray) (t : Nat) (p : Pos) :
    (bump R S).apply k t p = bump (R.apply k t p) S := by
  apply Replay_ext
  · rw [Restart.apply_index]; show _ = (R.apply k t p).index; rw [Restart.apply_index]; rfl
  · rw [Restart.apply_reclaim]; show _ = (R.apply k t p).reclaim + S; rw [Restart.apply_reclaim]
    show R.reclaim + S + _ + Restart.oldSize R.index k = _
    omega
  · rw [Restart.apply_total]; show _ = (R.apply k t p).total + S; rw [Restart.apply_total]
    show R.total + S + _ = _
    omega
  · rw [Restart.apply_pending]; show _ = (R.apply k t p).pending; rw [Restart.apply_pending]; rfl

theorem applyAll_bump (l : List (Record × Pos)) : ∀ (R : Replay) (S : Nat),
    Restart.applyAll (bump R S) l = bump (Restart.applyAll R l) S := by
  induction l with
  | nil => intro R S; rfl
  | cons x t ih =>
    intro R S
    simp only [Restart.applyAll, List.foldl_cons] at ih ⊢
    rw [apply_bump, ih]

theorem replayRec_bump (R : Replay) (S : Nat) (r : Record) (p : Pos) :
    replayRec (bump R S) r p = bump (replayRec R r p) S := by
  by_cases h0 : r.batch = 0
  · unfold replayRec; rw [if_pos h0, if_pos h0, apply_bump]
  · by_cases h2 : r.typ = 2
    · rw [replayRec_fin' _ _ _ h0 h2, replayRec_fin' _ _ _ h0 h2]
      have : countFin (bump R S) p.size = bump (countFin R p.size) S := by
        unfold countFin bump; simp only [Nat.add_right_comm]
      rw [show (bump R S).pending = R.pending from rfl, this, applyAll_bump]
      rfl
    · rw [replayRec_tagged _ _ _ h0 h2, replayRec_tagged _ _ _ h0 h2]
      rfl

theorem replayFrom_bump (l : List (Record × Pos)) : ∀ (R : Replay) (S : Nat),
    replayFrom (bump R S) l = bump (replayFrom R l) S := by
  induction l with
  | nil => intro R S; rfl
  | cons x t ih =>
    intro R S
    rw [replayFrom_cons, replayFrom_cons, replayRec_bump, ih]

/-! ## scanning again a file whose records the index already points at -/

theorem put_of_get_some {ix : Index} (hs : SortedKeys ix) {k : Key} {p : Pos} (h : Index.get ix k = some p) :
    Index.put ix k p = ix := by
  induction ix with
  | nil => simp [Index.get] at h
  | cons y rest ih =>
    obtain ⟨k', p'⟩ := y
    have hs' : Index.Sorted ((k', p') :: rest) := hs
    simp only [Index.get] at h
    simp only [Index.put]
    by_cases e : k' = k
    · rw [if_pos e] at h ⊢
      cases h; rw [e]
    · rw [if_neg e] at h ⊢
      have hmem := Index.get_eq_some_mem h
      have hlt : keyLt k' k = true := hs'.head (k, p) hmem
      rw [if_neg (by rw [Index.keyLt_asymm hlt]; simp)]
      rw [ih hs'.tail h]

/-- sum of the sizes of the records of a log -/
def sizeSum (l : List (Record × Pos)) : Nat := (l.map (fun x => x.2.size)).sum

theorem replayFrom_again : ∀ (l : List (Record × Pos)) (R : Replay), SortedKeys R.index →
    (∀ x ∈ l, x.1.batch = 0 ∧ x.1.typ ≠ 1 ∧ Index.get R.index x.1.key = some x.2) →
    replayFrom R l = bump R (sizeSum l) := by
  intro l
  induction l with
  | nil => intro R _ _; rfl
  | cons x t ih =>
    intro R hs h
    obtain ⟨hb, ht, hg⟩ := h x (by simp)
    have h1 : replayRec R x.1 x.2 = bump R x.2.size := by
      unfold replayRec
      rw [if_pos hb]
      apply Replay_ext
      · rw [Restart.apply_index, if_neg ht, put_of_get_some hs hg]; rfl
      · rw [Restart.apply_reclaim, if_neg ht]
        unfold Restart.oldSize
        rw [hg]; show R.reclaim + 0 + x.2.size = R.reclaim + x.2.size; omega
      · rw [Restart.apply_total]; rfl
      · rw [Restart.apply_pending]; rfl
    rw [replayFrom_cons, h1, replayFrom_bump, ih R hs (fun y hy => h y (by simp [hy])), bump_bump]
    unfold sizeSum
    simp only [List.map_cons, List.sum_cons]
    congr 1
    omega

/-- after replaying distinct plain records, every one of them is what the index holds for its key -/
theorem get_hintFold : ∀ (l : List (Record × Pos)) (acc : Replay × Nat),
    l.Pairwise (fun a b => a.1.key ≠ b.1.key) →
    (∀ x ∈ l, Index.get (hintFold acc l).1.index x.1.key = some x.2) ∧
    (∀ k, (∀ x ∈ l, x.1.key ≠ k) → Index.get (hintFold acc l).1.index k = Index.get acc.1.index k) := by
  intro l
  induction l with
  | nil => intro acc _; exact ⟨fun x hx => by simp at hx, fun k _ => rfl⟩
  | cons y t ih =>
    intro acc hd
    rw [List.pairwise_cons] at hd
    simp only [hintFold, List.foldl_cons] at ih ⊢
    obtain ⟨h1, h2⟩ := ih ({ acc.1 with index := Index.put acc.1.index y.1.key y.2, total := acc.1.total + y.2.size }, max acc.2 y.2.fid) hd.2
    refine ⟨?_, ?_⟩
    · intro x hx
      rcases List.mem_cons.mp hx with e | e
      · rw [e, h2 y.1.key (fun z hz => (hd.1 z hz).symm)]
        simp only [Index.get_put, if_pos]
      · exact h1 x e
    · intro k hk
      rw [h2 k (fun z hz => hk z (by simp [hz]))]
      simp only [Index.get_put]
      rw [if_neg (fun e => hk y (by simp) e.symm)]

theorem Merged.get {gm : GDir} (hM : Merged gm) :
    (∀ x ∈ logOf gm, Index.get (replayLog (logOf gm)).index x.1.key = some x.2) ∧
    (∀ k, (∀ x ∈ logOf gm, x.1.key ≠ k) → Index.get (replayLog (logOf gm)).index k = none) := by
  rw [replayLog_eq, replayFrom_fresh (logOf gm) Replay.init 0 hM.plain hM.distinct (fun _ _ => rfl)]
  obtain ⟨h1, h2⟩ := get_hintFold (logOf gm) (Replay.init, 0) hM.distinct
  exact ⟨h1, fun k hk => by rw [h2 k hk]; rfl⟩

/-! ## `loadIndex` with a positive `nonMergeFileId` -/

theorem loadIndex_skip (m : Nat) : ∀ (A rest : List (Nat × FileSt)) (r : Replay), (∀ x ∈ A, x.1 < m) →
    loadIndex r m (A ++ rest)
      = match loadIndex r m rest with
        | some (r', fs) => some (r', A ++ fs)
        | none => none := by
  intro A
  induction A with
  | nil => intro rest r _; simp only [List.nil_append]; cases loadIndex r m rest <;> rfl
  | cons x A ih =>
    intro rest r h
    obtain ⟨id, f⟩ := x
    have hid : id < m := h (id, f) (by simp)
    simp only [List.cons_append, loadIndex, if_pos hid]
    rw [ih rest r (fun y hy => h y (by simp [hy]))]
    cases loadIndex r m rest <;> rfl

theorem loadIndex_scan_ge (m : Nat) : ∀ (dataI : List (Nat × FileSt)) (gI : GDir) (r : Replay)
    (rest : List (Nat × FileSt)), Matches dataI gI → (∀ x ∈ gI, ∀ r ∈ x.2, RecOK r) → (∀ x ∈ gI, m ≤ x.1) →
    loadIndex r m (dataI ++ rest)
      = match loadIndex (replayFrom r (logOf gI)) m rest with
        | some (r', fs) => some (r', dataI ++ fs)
        | none => none := by
  intro dataI
  induction dataI with
  | nil =>
    intro gI r rest hm _ _
    rw [Restart.Matches_nil_left] at hm; subst hm
    simp only [List.nil_append, logOf, List.flatMap_nil, replayFrom_nil]
    cases loadIndex r m rest <;> rfl
  | cons x data ih =>
    intro gI r rest hm hok hge
    rw [Matches_cons] at hm
    obtain ⟨y, g', rfl, hid, hb, hm'⟩ := hm
    obtain ⟨id, f⟩ := x
    obtain ⟨fb, fs⟩ := f
    simp only at hid hb
    subst hb
    have hoky : ∀ r ∈ y.2, RecOK r := hok y (by simp)
    have hok' : ∀ x ∈ g', ∀ r ∈ x.2, RecOK r := fun x hx => hok x (by simp [hx])
    have hidm : ¬ id < m := by have := hge y (by simp); omega
    simp only [List.cons_append, loadIndex, if_neg hidm]
    rw [loadFile_ghost r id y.2 fs _ hoky]
    simp only []
    rw [ih g' _ rest hm' hok' (fun z hz => hge z (by simp [hz])), logOf_cons, replayFrom_append, hid]
    unfold replayFrom
    cases loadIndex (List.foldl (fun r x => replayRec r x.1 x.2)
      (List.foldl (fun r x => replayRec r x.1 x.2) r (y.2.zip (possOf y.1 y.2))) (logOf g')) m rest <;> rfl

theorem Matches_split : ∀ {data : List (Nat × FileSt)} {ga gb : GDir}, Matches data (ga ++ gb) →
    ∃ da db, data = da ++ db ∧ Matches da ga ∧ Matches db gb := by
  intro data ga
  induction ga generalizing data with
  | nil => intro gb h; exact ⟨[], data, rfl, trivial, h⟩
  | cons y ga ih =>
    intro gb h
    cases data with
    | nil => simp [Matches] at h
    | cons x data =>
      obtain ⟨h1, h2, h3⟩ := (show x.1 = y.1 ∧ x.2.bytes = bytesOf y.2 ∧ Matches data (ga ++ gb) from h)
      obtain ⟨da, db, e, ha, hb⟩ := ih h3
      exact ⟨x :: da, db, by rw [e]; rfl, ⟨h1, h2, ha⟩, hb⟩

theorem Matches_filter (p : Nat → Bool) : ∀ {data : List (Nat × FileSt)} {g : GDir}, Matches data g →
    Matches (data.filter (fun x => p x.1)) (g.filter (fun x => p x.1)) := by
  intro data
  induction data with
  | nil => intro g h; rw [Restart.Matches_nil_left] at h; subst h; trivial
  | cons x data ih =>
    intro g h
    rw [Matches_cons] at h
    obtain ⟨y, g', rfl, h1, h2, h3⟩ := h
    by_cases hp : p x.1 = true
    · rw [List.filter_cons_of_pos (by simpa using hp), List.filter_cons_of_pos (by rw [← h1]; simpa using hp)]
      exact ⟨h1, h2, ih h3⟩
    · rw [List.filter_cons_of_neg (by simpa using hp), List.filter_cons_of_neg (by rw [← h1]; simpa using hp)]
      exact ih h3

end XixiKV.Engine.MergeP
