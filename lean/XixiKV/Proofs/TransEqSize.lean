import XixiKV.Proofs.TransEqBase
/-! # translated Go function(s) = model: Size (split out of `TransEq.lean` so that a function that leaves the
    translator's subset, or whose proof breaks, affects only the properties that restate it) -/
namespace XixiKV.TransEq
open XixiKV XixiKV.Generated.Trans XixiKV.Frame
/-! ## (a) `GetLogRecordDiskSize` -/

/-- **`datafile.GetLogRecordDiskSize` = `Record.diskSizeEstimate`** for key / value sizes below 2^61
    (the Go `int` arithmetic does not wrap there) -/
theorem trans_GetLogRecordDiskSize_eq (keySize valueSize : Nat) (hk : keySize < 2^61) (hv : valueSize < 2^61) :
    datafile.GetLogRecordDiskSize (keySize : Int) (valueSize : Int)
      = (Record.diskSizeEstimate keySize valueSize : Int) := by
  simp (disch := omega) only [datafile.GetLogRecordDiskSize, Record.diskSizeEstimate, datafile.MaxLogRecordHeaderSize,
    datafile.chunkHeaderSize, datafile.blockSize, Frame.H, Frame.BS, i64_of_range, tdiv_of_nonneg]
  omega

example : datafile.GetLogRecordDiskSize ((10 : Nat) : Int) ((100000 : Nat) : Int)
    = (Record.diskSizeEstimate 10 100000 : Int) :=
  trans_GetLogRecordDiskSize_eq 10 100000 (by decide) (by decide)
example : datafile.GetLogRecordDiskSize 10 100000 = 100077 := by decide

end XixiKV.TransEq
