import XixiKV.Proofs.CrashHistory
/-!
# Crash recovery at the level of acknowledged MUTATIONS — part 2: call histories

* `Hist`, `hstep`, `hrun`, `unitsOf`: the list of mutation units of a call history
  (`List AOp`, any interleaving of plain and batch calls), computed along the run of the model;
* `IdsOK`: the batch-id side condition of a history (non-zero, not the id of an abandoned batch);
* `HInv`: the link between the ghost log of the state reached and that list —
  `unitsOfLog (logOf g) = units`, the records parked under the id of the open batch are exactly
  its flushed pieces, records are parked only under that id and under abandoned ids, and every
  batch id in the files has been handed out (`used`);
* `HInv_astep`: every call keeps the link.
-/
namespace XixiKV.C03H
open XixiKV XixiKV.Frame XixiKV.Record XixiKV.Index XixiKV.Engine XixiKV.Engine.Restart
open XixiKV.Engine.BatchP XixiKV.Engine.PolicyP.Dur XixiKV.Engine.PolicyP.Size

/-! ## the mutation units of a call history -/

/-- ghost bookkeeping along a history: the units acknowledged so far; the staged records of the
    OPEN batch that `flushStagedAndUpdateFile` has already written to the files; and the ids of
    abandoned batches (dropped or replaced after some of their records were written — orphaned
    records that no sealing record of THEIR batch will ever follow) -/
structure Hist where
  units : List MUnit
  flushed : List Staged
  dirty : List Nat

/-- the batch object attached to the handle -/
def batchOf (s : St) : Option BatchSt :=
  match s.db with
  | some db => db.batch
  | none => none

/-- its staging area -/
def stagedOf (s : St) : List Staged :=
  match batchOf s with
  | some b => b.staged
  | none => []

/-- the call moved the handle to a new active file (for a staging call: exactly when
    `flushStagedAndUpdateFile` ran, which writes everything staged so far) -/
def rotated (s s' : St) : Bool :=
  match s.db, s'.db with
  | some a, some b => a.activeId != b.activeId
  | _, _ => false

/-- the abandoned ids after the current batch object is given up: if some of its records are in
    the files its id joins them -/
def dirtyDrop (s : St) (h : Hist) : List Nat :=
  match h.flushed, batchOf s with
  | _ :: _, some b => b.id :: h.dirty
  | _, _ => h.dirty

/-- the bookkeeping step for one call issued in state `s`:
    * `Put` with a non-empty key on an open handle: one unit;
    * `Delete` with a non-empty key that is in the index (a tombstone is written): one unit;
    * `NewBatch` / dropping the batch: nothing of the (new) batch is in the files; the old batch
      is abandoned;
    * `Batch.Put` / `Batch.Delete`: if the call flushed, the records staged before it are now in
      the files;
    * `Commit` of an uncommitted batch with a non-empty staging area: ONE unit — the flushed
      pieces followed by what is staged now. -/
def hstep (s : St) (h : Hist) : AOp → Hist
  | .put k v =>
    match s.db with
    | some _ => if k.size = 0 then h else { h with units := h.units ++ [MUnit.put k v] }
    | none => h
  | .del k =>
    match s.db with
    | some db =>
      if k.size = 0 then h else
      match Index.get db.index k with
      | some _ => { h with units := h.units ++ [MUnit.del k] }
      | none => h
    | none => h
  | .bnew _ _ => { h with flushed := [], dirty := dirtyDrop s h }
  | .bdrop => { h with flushed := [], dirty := dirtyDrop s h }
  | .bput k v => if rotated s (bput s k v).1 then { h with flushed := h.flushed ++ stagedOf s } else h
  | .bdel k => if rotated s (bdel s k).1 then { h with flushed := h.flushed ++ stagedOf s } else h
  | .bcommit =>
    match batchOf s with
    | some b =>
      if b.committed = false ∧ b.staged ≠ []
      then { h with units := h.units ++ [MUnit.batch b.id (h.flushed ++ b.staged)], flushed := [] } else h
    | none => h
  | _ => h

/-- bookkeeping along a whole history -/
def hrun (s : St) (h : Hist) : List AOp → Hist
  | [] => h
  | op :: ops => hrun (astep s op).1 (hstep s h op) ops

/-- **the mutation units of the call history `ops` issued from state `s`**, in the order of their
    acknowledgement -/
def unitsOf (s : St) (ops : List AOp) : List MUnit := (hrun s ⟨[], [], []⟩ ops).units

/-- **batch-id side condition of one call**: the id given to `NewBatch` is non-zero and is not the
    id of an abandoned batch with orphaned records in the files (an id may be REUSED after its
    batch was committed, or abandoned before anything of it was written) -/
def bnewOK (s : St) (h : Hist) : AOp → Prop
  | .bnew _ id => id ≠ 0 ∧ id ∉ dirtyDrop s h
  | _ => True

/-- … of a whole history -/
def IdsOK (s : St) (h : Hist) : List AOp → Prop
  | [] => True
  | op :: ops => bnewOK s h op ∧ IdsOK (astep s op).1 (hstep s h op) ops

instance (s : St) (h : Hist) (op : AOp) : Decidable (bnewOK s h op) := by
  cases op <;> unfold bnewOK <;> infer_instance

instance IdsOK.dec (s : St) (h : Hist) : (ops : List AOp) → Decidable (IdsOK s h ops)
  | [] => isTrue trivial
  | op :: ops =>
    have := IdsOK.dec (astep s op).1 (hstep s h op) ops
    by unfold IdsOK; infer_instance

/-- the batch ids a history creates -/
def bnewId : AOp → List Nat
  | .bnew _ id => [id]
  | _ => []

def bnewIds (ops : List AOp) : List Nat := ops.flatMap bnewId

theorem bnewIds_cons (op : AOp) (ops : List AOp) : bnewIds (op :: ops) = bnewId op ++ bnewIds ops := by
  simp only [bnewIds, List.flatMap_cons]

theorem hrun_append (a b : List AOp) : ∀ (s : St) (h : Hist),
    hrun s h (a ++ b) = hrun (arun s a) (hrun s h a) b := by
  induction a with
  | nil => intro s h; rfl
  | cons op t ih => intro s h; exact ih _ _

theorem arun_append (a b : List AOp) : ∀ (s : St), arun s (a ++ b) = arun (arun s a) b := by
  induction a with
  | nil => intro s; rfl
  | cons op t ih => intro s; exact ih _

theorem dirtyDrop_sub (s : St) (h : Hist) : ∀ i ∈ dirtyDrop s h,
    i ∈ h.dirty ∨ ∃ b, batchOf s = some b ∧ b.id = i := by
  intro i hi
  cases hfl : h.flushed with
  | nil => simp only [dirtyDrop, hfl] at hi; exact Or.inl hi
  | cons a t =>
    cases hb : batchOf s with
    | none => simp only [dirtyDrop, hfl, hb] at hi; exact Or.inl hi
    | some b =>
      simp only [dirtyDrop, hfl, hb] at hi
      rcases List.mem_cons.mp hi with e | e
      · exact Or.inr ⟨b, rfl, e.symm⟩
      · exact Or.inl e

theorem dirty_sub_dirtyDrop (s : St) (h : Hist) : ∀ i ∈ h.dirty, i ∈ dirtyDrop s h := by
  intro i hi
  unfold dirtyDrop
  split
  · exact List.mem_cons_of_mem _ hi
  · exact hi

theorem dirtyDrop_cur {s : St} {h : Hist} {b : BatchSt} (hf : h.flushed ≠ []) (hb : batchOf s = some b) :
    b.id ∈ dirtyDrop s h := by
  unfold dirtyDrop
  cases hfl : h.flushed with
  | nil => exact absurd hfl hf
  | cons a t => simp only [hb]; exact List.mem_cons_self

/-! ## the link between the ghost log and the bookkeeping -/

/-- the state `s` (handle `db`, ghost directory `g`) has the history bookkeeping `h`; `used` are
    the batch ids handed out so far (or present in the files when the history started) -/
structure HInv (s : St) (db : DB) (g : GDir) (h : Hist) (used : List Nat) : Prop where
  open_ : s.db = some db
  files : Files s db g
  /-- the log denotes exactly the acknowledged units -/
  units : unitsOfLog (logOf g) = h.units
  /-- the open batch: its id is non-zero and not abandoned; what the replay has parked under its
      id = its flushed pieces; something was flushed only if something is staged (so `Commit`
      will seal it) -/
  cur : ∀ b, db.batch = some b → b.committed = false →
    b.id ≠ 0 ∧ b.id ∉ h.dirty ∧
    (pendingGet (replayLog (logOf g)).pending b.id).map (fun x => unRec x.1) = h.flushed ∧
    (h.flushed ≠ [] → b.staged ≠ [])
  /-- records are parked only under abandoned ids and under the id of the open batch -/
  parked : ∀ i, pendingGet (replayLog (logOf g)).pending i ≠ [] →
    i ∈ h.dirty ∨ ∃ b, db.batch = some b ∧ b.committed = false ∧ b.id = i
  /-- every batch id in the files has been handed out … -/
  tags : ∀ x ∈ logOf g, x.1.batch ≠ 0 → x.1.batch ∈ used
  /-- … and so has the id of the batch object -/
  curUsed : ∀ b, db.batch = some b → b.id ∈ used

/-- where the id of the batch object after a call comes from -/
def IdFrom (db : DB) (op : AOp) (db' : DB) : Prop :=
  ∀ b', db'.batch = some b' → (∃ b, db.batch = some b ∧ b'.id = b.id) ∨ b'.id ∈ bnewId op

theorem IdFrom.of_eq {db db' : DB} {op : AOp} (h : db'.batch = db.batch) : IdFrom db op db' := by
  intro b' hb'
  exact Or.inl ⟨b', by rw [← h]; exact hb', rfl⟩

/-- the files (hence the log) and the batch object are unchanged -/
theorem HInv.same_log {s s' : St} {db db' : DB} {g : GDir} {h : Hist} {used : List Nat} (hi : HInv s db g h used)
    (hs' : s'.db = some db') (hf : Files s' db' g) (hbat : db'.batch = db.batch) : HInv s' db' g h used :=
  ⟨hs', hf, hi.units, by rw [hbat]; exact hi.cur, by rw [hbat]; exact hi.parked, hi.tags,
    by rw [hbat]; exact hi.curUsed⟩

/-- one plain record was appended -/
theorem HInv.plain {s s' : St} {db db' : DB} {g g' : GDir} {h : Hist} {used : List Nat} (hi : HInv s db g h used)
    (r : Record) (p : Pos) (hb0 : r.batch = 0)
    (hs' : s'.db = some db') (hf : Files s' db' g') (hlog : logOf g' = logOf g ++ [(r, p)])
    (hbat : db'.batch = db.batch) :
    HInv s' db' g'
      { h with units := h.units ++ [if r.typ = 1 then MUnit.del r.key else MUnit.put r.key r.value] } used := by
  obtain ⟨e1, e2⟩ := ext_plain (logOf g) r p hb0
  refine ⟨hs', hf, by rw [hlog, e1, hi.units], ?_, ?_, ?_, by rw [hbat]; exact hi.curUsed⟩
  · rw [hbat, hlog, e2]; exact hi.cur
  · rw [hbat, hlog, e2]; exact hi.parked
  · intro x hx hne
    rw [hlog] at hx
    rcases List.mem_append.mp hx with hx | hx
    · exact hi.tags x hx hne
    · simp only [List.mem_singleton] at hx
      rw [hx] at hne
      exact absurd hb0 hne

/-- the batch object was replaced by one with the same id and flag, with a non-empty staging area -/
theorem HInv.set_batch {s s' : St} {db db' : DB} {g : GDir} {h : Hist} {used : List Nat} (hi : HInv s db g h used)
    {b b' : BatchSt} (hb : db.batch = some b) (hs' : s'.db = some db') (hf : Files s' db' g)
    (hb' : db'.batch = some b') (hid : b'.id = b.id) (hc : b'.committed = b.committed)
    (hne : b'.staged ≠ []) : HInv s' db' g h used := by
  refine ⟨hs', hf, hi.units, ?_, ?_, hi.tags, ?_⟩
  rotate_left 2
  · intro b2 hb2
    rw [hb'] at hb2; cases hb2
    rw [hid]; exact hi.curUsed b hb
  · intro b2 hb2 hc2
    rw [hb'] at hb2; cases hb2
    obtain ⟨c1, c2, c3, _⟩ := hi.cur b hb (by rw [← hc]; exact hc2)
    exact ⟨by rw [hid]; exact c1, by rw [hid]; exact c2, by rw [hid]; exact c3, fun _ => hne⟩
  · intro i hne'
    rcases hi.parked i hne' with e | ⟨b0, hb0, hc0, hid0⟩
    · exact Or.inl e
    · rw [hb] at hb0; cases hb0
      exact Or.inr ⟨b', hb', by rw [hc]; exact hc0, by rw [hid]; exact hid0⟩

theorem map_unRec_asLog (id : Nat) (st : List Staged) : ∀ (ps : List Pos), ps.length = st.length →
    (asLog id (st.zip ps)).map (fun x => unRec x.1) = st := by
  induction st with
  | nil => intro ps _; rfl
  | cons a t ih =>
    intro ps hl
    cases ps with
    | nil => simp at hl
    | cons p ps =>
      simp only [List.zip_cons_cons, asLog, List.map_cons] at ih ⊢
      rw [ih ps (by simpa using hl)]
      rfl

/-- the staged records of the open batch `b` were written (tagged) to the log; the batch object
    becomes `b'` (same id, uncommitted, non-empty staging area) -/
theorem HInv.flushed {s s' : St} {db db' : DB} {g g' : GDir} {h : Hist} {used : List Nat} (hi : HInv s db g h used)
    {b b' : BatchSt} (hb : db.batch = some b) (hcm : b.committed = false)
    (hok : ∀ r ∈ b.staged, StagedOK r) (ps : List Pos) (hps : ps.length = b.staged.length)
    (hs' : s'.db = some db') (hf : Files s' db' g')
    (hlog : logOf g' = logOf g ++ asLog b.id (b.staged.zip ps))
    (hb' : db'.batch = some b') (hid : b'.id = b.id) (hcm' : b'.committed = false) (hne : b'.staged ≠ []) :
    HInv s' db' g' { h with flushed := h.flushed ++ b.staged } used := by
  obtain ⟨c1, c2, c3, _⟩ := hi.cur b hb hcm
  obtain ⟨e1, e2⟩ := ext_tagged (logOf g) (asLog b.id (b.staged.zip ps)) b.id c1 (asLog_tagged hok)
  refine ⟨hs', hf, by rw [hlog, e1, hi.units], ?_, ?_, ?_, ?_⟩
  rotate_left 2
  · intro x hx hne
    rw [hlog] at hx
    rcases List.mem_append.mp hx with hx | hx
    · exact hi.tags x hx hne
    · rw [(asLog_tagged hok x hx).1]; exact hi.curUsed b hb
  · intro b2 hb2
    rw [hb'] at hb2; cases hb2
    rw [hid]; exact hi.curUsed b hb
  · intro b2 hb2 _
    rw [hb'] at hb2; cases hb2
    refine ⟨by rw [hid]; exact c1, by rw [hid]; exact c2, ?_, fun _ => hne⟩
    rw [hlog, e2, hid, pendingGet_parkAll, List.map_append, c3, map_unRec_asLog _ _ _ hps]
  · intro i hne'
    by_cases e : i = b.id
    · exact Or.inr ⟨b', hb', hcm', by rw [hid, e]⟩
    · rw [hlog, e2, pendingGet_parkAll_ne _ _ e] at hne'
      rcases hi.parked i hne' with e' | ⟨b0, hb0, _, hid0⟩
      · exact Or.inl e'
      · rw [hb] at hb0; cases hb0
        exact absurd hid0.symm e

/-! ## `rotated` -/

theorem rotated_eq {s s' : St} {db db' : DB} (hs : s.db = some db) (hs' : s'.db = some db') :
    rotated s s' = (db.activeId != db'.activeId) := by
  unfold rotated
  simp only [hs, hs']

theorem rotated_self {s : St} : rotated s s = false := by
  unfold rotated
  cases s.db with
  | none => rfl
  | some db => simp

theorem flushStaged_activeId_ge (s : St) (db : DB) (b : BatchSt) :
    db.activeId ≤ (flushStaged s db b).2.1.activeId := by
  rw [flushStaged_pre, flushTail_eq]
  simp only []
  rw [(applyAllStaged_rest _ _).2.2.1]
  unfold fpreDB
  split
  · show db.activeId ≤ db.activeId + 1
    omega
  · exact Nat.le_refl _

theorem flushAndRotate_activeId_gt (s : St) (db : DB) (b : BatchSt) :
    db.activeId < (flushAndRotate s db b).2.1.activeId := by
  rw [flushAndRotate_eq]
  show db.activeId < (flushStaged s db b).2.1.activeId + 1
  have := flushStaged_activeId_ge s db b
  omega

theorem stagedOf_eq {s : St} {db : DB} {b : BatchSt} (hs : s.db = some db) (hb : db.batch = some b) :
    stagedOf s = b.staged := by
  simp only [stagedOf, batchOf, hs, hb]

theorem batchOf_eq {s : St} {db : DB} (hs : s.db = some db) : batchOf s = db.batch := by
  simp only [batchOf, hs]

/-! ## staging calls -/

/-- every outcome of a staging call keeps the link, with the bookkeeping step that `hstep`
    performs for `Batch.Put` / `Batch.Delete` -/
theorem HInv.stageOut {s s' : St} {db : DB} {g : GDir} {h : Hist} {used : List Nat} (hi : HInv s db g h used)
    {b : BatchSt} {must : Prop} (hb : db.batch = some b) (hcm : b.committed = false)
    (hbs : BSize db.cfg.fileSize b) (op : AOp) (o : StageOut s db b must s') :
    ∃ db' g', HInv s' db' g'
      (if rotated s s' then { h with flushed := h.flushed ++ stagedOf s } else h) used ∧ IdFrom db op db' := by
  cases o with
  | same e _ =>
    subst e
    rw [rotated_self]
    exact ⟨db, g, hi, IdFrom.of_eq rfl⟩
  | staged b' e hne _ hc hid =>
    subst e
    rw [rotated_eq hi.open_ rfl]
    simp only [bne_self_eq_false, Bool.false_eq_true, if_false]
    refine ⟨_, g, hi.set_batch hb rfl (hi.files.congr rfl rfl rfl) rfl hid hc hne, ?_⟩
    intro b2 hb2
    simp only [Option.some.injEq] at hb2
    subst hb2
    exact Or.inl ⟨b, hb, hid⟩
  | flushed b' e hne _ hc hid =>
    subst e
    have hgt := flushAndRotate_activeId_gt s db b
    rw [rotated_eq hi.open_ rfl]
    have hrot : (db.activeId != (flushAndRotate s db b).2.1.activeId) = true := by
      simp only [bne_iff_ne, ne_eq]; omega
    simp only [hrot, if_true]
    rw [stagedOf_eq hi.open_ hb]
    have hid64 : b.id < 2 ^ 64 := by
      have := hbs.idlt
      have : (2:Nat) ^ 63 ≤ 2 ^ 64 := by decide
      omega
    have hok : ∀ r ∈ b.staged, StagedOK r := fun r hr => (hbs.ok r hr).1
    obtain ⟨g', ps, h1, h2, h3, _, h5, h6⟩ := flushAndRotate_spec hi.files b hok hid64
    have hid' : b'.id = b.id := by rw [hid, h6]
    have hcm' : b'.committed = false := by rw [hc, h6]; exact hcm
    refine ⟨_, g', hi.flushed hb hcm hok ps h1 rfl (h2.congr rfl rfl rfl) h3 rfl hid' hcm' hne, ?_⟩
    intro b2 hb2
    simp only [Option.some.injEq] at hb2
    subst hb2
    exact Or.inl ⟨b, hb, hid'⟩

/-! ## the single calls -/

theorem appendLog_fields {s : St} {db : DB} {g : GDir} (hf : Files s db g) (r : Record) (hr : RecOK r) :
    ∃ g', Files (appendLog s db r).1 (appendLog s db r).2.1 g' ∧
      logOf g' = logOf g ++ [(r, (appendLog s db r).2.2)] ∧
      (appendLog s db r).2.1.dir = db.dir ∧ (appendLog s db r).2.1.batch = db.batch ∧
      (appendLog s db r).2.1.cfg = db.cfg := by
  obtain ⟨g', bw, a, h1, h2, _, h4⟩ := appendLog_spec hf r hr
  exact ⟨g', h1, h2, by rw [h4], by rw [h4], by rw [h4]⟩

theorem HInv_put {s : St} {db : DB} {g : GDir} {h : Hist} {used : List Nat} (hi : HInv s db g h used)
    (k v : ByteArray) (hsz : k.size + v.size ≤ 2 ^ 27) :
    ∃ db' g', HInv (put s k v).1 db' g' (hstep s h (.put k v)) used ∧ db'.batch = db.batch := by
  by_cases hk : k.size = 0
  · rw [put_keyempty s k v hk hi.open_]
    simp only [hstep, hi.open_, if_pos hk]
    exact ⟨db, g, hi, rfl⟩
  · have hr : RecOK { typ := 0, key := k, value := v, batch := 0 } :=
      ⟨by show 0 < 3; omega, by show 0 < k.size; omega, lt31_of_le27 (by show k.size ≤ 2 ^ 27; omega),
       lt31_of_le27 (by show v.size ≤ 2 ^ 27; omega), by show 0 < 2 ^ 64; decide⟩
    obtain ⟨g', h1, h2, h3, h4, h5⟩ := appendLog_fields hi.files _ hr
    rw [put_eq hi.open_ k v hk]
    simp only [hstep, hi.open_, if_neg hk]
    refine ⟨putDB (appendLog s db { typ := 0, key := k, value := v, batch := 0 }) k, g', ?_, h4⟩
    have := hi.plain { typ := 0, key := k, value := v, batch := 0 } _ rfl
      (s' := { (appendLog s db { typ := 0, key := k, value := v, batch := 0 }).1 with
                db := some (putDB (appendLog s db { typ := 0, key := k, value := v, batch := 0 }) k) })
      rfl (h1.congr rfl rfl rfl) h2 h4
    simpa using this

theorem HInv_delete {s : St} {db : DB} {g : GDir} {h : Hist} {used : List Nat} (hi : HInv s db g h used)
    (k : ByteArray) (hsz : k.size ≤ 2 ^ 27) :
    ∃ db' g', HInv (delete s k).1 db' g' (hstep s h (.del k)) used ∧ db'.batch = db.batch := by
  by_cases hk : k.size = 0
  · rw [delete_keyempty s k hk hi.open_]
    simp only [hstep, hi.open_, if_pos hk]
    exact ⟨db, g, hi, rfl⟩
  · cases hg : Index.get db.index k with
    | none =>
      rw [delete_eq_none hi.open_ k hk hg]
      simp only [hstep, hi.open_, if_neg hk, hg]
      exact ⟨db, g, hi, rfl⟩
    | some old =>
      have hr : RecOK { typ := 1, key := k, value := ByteArray.empty, batch := 0 } :=
        ⟨by show 1 < 3; omega, by show 0 < k.size; omega, lt31_of_le27 hsz,
         by show 0 < 2 ^ 31; decide, by show 0 < 2 ^ 64; decide⟩
      obtain ⟨g', h1, h2, h3, h4, h5⟩ := appendLog_fields hi.files _ hr
      rw [delete_eq_some hi.open_ k hk hg]
      simp only [hstep, hi.open_, if_neg hk, hg]
      refine ⟨delDB (appendLog s db { typ := 1, key := k, value := ByteArray.empty, batch := 0 }) k old, g', ?_, h4⟩
      have := hi.plain { typ := 1, key := k, value := ByteArray.empty, batch := 0 } _ rfl
        (s' := { (appendLog s db { typ := 1, key := k, value := ByteArray.empty, batch := 0 }).1 with
                  db := some (delDB (appendLog s db { typ := 1, key := k, value := ByteArray.empty, batch := 0 }) k old) })
        rfl (h1.congr rfl rfl rfl) h2 h4
      simpa using this

theorem HInv_sync {s : St} {db : DB} {g : GDir} {h : Hist} {used : List Nat} (hi : HInv s db g h used) :
    HInv (syncDB s).1 db g h used := by
  unfold syncDB withDB
  rw [hi.open_]
  exact hi.same_log hi.open_ (Files_sync hi.files) rfl

theorem map_ne_nil_of {α β : Type} {f : α → β} {l : List α} (h : l ≠ []) : l.map f ≠ [] := by
  cases l with
  | nil => exact absurd rfl h
  | cons a t => simp

/-- giving up the current batch object: everything parked is parked under an abandoned id -/
theorem HInv.abandon {s : St} {db : DB} {g : GDir} {h : Hist} {used : List Nat} (hi : HInv s db g h used) :
    ∀ i, pendingGet (replayLog (logOf g)).pending i ≠ [] → i ∈ dirtyDrop s h := by
  intro i hne
  rcases hi.parked i hne with e | ⟨b, hb, hc, hid⟩
  · exact dirty_sub_dirtyDrop s h i e
  · obtain ⟨_, _, c3, _⟩ := hi.cur b hb hc
    have hfl : h.flushed ≠ [] := by
      rw [← c3]; rw [← hid] at hne; exact map_ne_nil_of hne
    rw [← hid]
    exact dirtyDrop_cur hfl (by rw [batchOf_eq hi.open_]; exact hb)

theorem HInv_bnew {s : St} {db : DB} {g : GDir} {h : Hist} {used : List Nat} (sync : Bool) (id : Nat)
    (hi : HInv s db g h used) (hid : id ≠ 0 ∧ id ∉ dirtyDrop s h) :
    HInv (bnew s sync id).1 { db with batch := some (newBatch sync id) } g
      { h with flushed := [], dirty := dirtyDrop s h } (id :: used) := by
  rw [bnew_eq hi.open_]
  have hab := hi.abandon
  refine ⟨rfl, hi.files.congr rfl rfl rfl, hi.units, ?_, ?_,
    fun x hx hne => List.mem_cons_of_mem _ (hi.tags x hx hne), ?_⟩
  rotate_left 2
  · intro b hb
    simp only [Option.some.injEq] at hb
    subst hb
    exact List.mem_cons_self
  · intro b hb _
    simp only [Option.some.injEq] at hb
    subst hb
    refine ⟨hid.1, hid.2, ?_, fun hne => absurd rfl hne⟩
    show (pendingGet (replayLog (logOf g)).pending id).map _ = []
    have : pendingGet (replayLog (logOf g)).pending id = [] := by
      apply Classical.byContradiction
      intro hne
      exact hid.2 (hab id hne)
    rw [this]; rfl
  · intro i hne
    exact Or.inl (hab i hne)

theorem HInv_bdrop {s : St} {db : DB} {g : GDir} {h : Hist} {used : List Nat} (hi : HInv s db g h used) :
    HInv (bdrop s).1 { db with batch := none } g { h with flushed := [], dirty := dirtyDrop s h } used := by
  rw [bdrop_eq hi.open_]
  refine ⟨rfl, hi.files.congr rfl rfl rfl, hi.units, ?_, ?_, hi.tags, fun b hb => by simp at hb⟩
  · intro b hb _; simp at hb
  · intro i hne
    exact Or.inl (hi.abandon i hne)

theorem HInv_bput {s : St} {db : DB} {g : GDir} {h : Hist} {used : List Nat} (hi : HInv s db g h used)
    (hbs : ∀ b, db.batch = some b → BSize db.cfg.fileSize b) (k v : ByteArray) :
    ∃ db' g', HInv (bput s k v).1 db' g' (hstep s h (.bput k v)) used ∧ IdFrom db (.bput k v) db' := by
  show ∃ db' g', HInv (bput s k v).1 db' g'
    (if rotated s (bput s k v).1 then { h with flushed := h.flushed ++ stagedOf s } else h) used ∧ _
  cases hb : db.batch with
  | none =>
    rw [bput_nobatch hi.open_ hb, rotated_self]
    exact ⟨db, g, hi, IdFrom.of_eq rfl⟩
  | some b =>
    by_cases hk : k.size = 0
    · rw [bput_keyempty hi.open_ hb k v hk, rotated_self]
      exact ⟨db, g, hi, IdFrom.of_eq rfl⟩
    by_cases hc : b.committed = true
    · rw [bput_committed hi.open_ hb k v hk hc, rotated_self]
      exact ⟨db, g, hi, IdFrom.of_eq rfl⟩
    exact hi.stageOut hb (by simpa using hc) (hbs b hb) _ (bput_out hi.open_ hb k v)

theorem HInv_bdel {s : St} {db : DB} {g : GDir} {h : Hist} {used : List Nat} (hi : HInv s db g h used)
    (hbs : ∀ b, db.batch = some b → BSize db.cfg.fileSize b) (k : ByteArray) :
    ∃ db' g', HInv (bdel s k).1 db' g' (hstep s h (.bdel k)) used ∧ IdFrom db (.bdel k) db' := by
  show ∃ db' g', HInv (bdel s k).1 db' g'
    (if rotated s (bdel s k).1 then { h with flushed := h.flushed ++ stagedOf s } else h) used ∧ _
  cases hb : db.batch with
  | none =>
    rw [bdel_nobatch hi.open_ hb, rotated_self]
    exact ⟨db, g, hi, IdFrom.of_eq rfl⟩
  | some b =>
    by_cases hk : k.size = 0
    · rw [bdel_keyempty hi.open_ hb k hk, rotated_self]
      exact ⟨db, g, hi, IdFrom.of_eq rfl⟩
    by_cases hc : b.committed = true
    · rw [bdel_committed hi.open_ hb k hk hc, rotated_self]
      exact ⟨db, g, hi, IdFrom.of_eq rfl⟩
    exact hi.stageOut hb (by simpa using hc) (hbs b hb) _ (bdel_out hi.open_ hb k)

/-- **Commit of a non-empty staging area**: the flushed pieces, the staged records and the sealing
    record are in the log; the replay releases them as ONE unit -/
theorem HInv_bcommit_nonempty {s : St} {db : DB} {g : GDir} {h : Hist} {used : List Nat} (hi : HInv s db g h used)
    {b : BatchSt} (hb : db.batch = some b) (hc : b.committed = false) (he : b.staged ≠ [])
    (hbs : BSize db.cfg.fileSize b) :
    ∃ db' g', HInv (bcommit s).1 db' g'
      { h with units := h.units ++ [MUnit.batch b.id (h.flushed ++ b.staged)], flushed := [] } used ∧
      IdFrom db .bcommit db' := by
  obtain ⟨c1, _, c3, _⟩ := hi.cur b hb hc
  have hid64 : b.id < 2 ^ 64 := by
    have := hbs.idlt
    have : (2:Nat) ^ 63 ≤ 2 ^ 64 := by decide
    omega
  have hok : ∀ r ∈ b.staged, StagedOK r := fun r hr => (hbs.ok r hr).1
  rw [bcommit_nonempty hi.open_ hb hc he]
  obtain ⟨g1, ps, h1, h2, h3, _, _, h6⟩ := flushStaged_spec hi.files { b with committed := true } hok hid64
  generalize flushStaged s db { b with committed := true } = F at *
  obtain ⟨s1, db1, b1⟩ := F
  simp only [] at h1 h2 h3 h6 ⊢
  subst h6
  obtain ⟨g2, hf2, hlog2, _⟩ := seal_spec h2 { b with staged := [], cached := 0, committed := true } hbs.idlt
  simp only [] at hf2 hlog2
  obtain ⟨e1, e2⟩ := ext_tagged (logOf g) (asLog b.id (b.staged.zip ps)) b.id c1 (asLog_tagged hok)
  obtain ⟨d1, d2⟩ := ext_fin (logOf g1) (finRec b.id) (sealPos s1 db1 b.id) c1 rfl
  have hfb : (finRec b.id).batch = b.id := rfl
  rw [hfb] at d1 d2
  refine ⟨_, g2, ⟨rfl, hf2.congr rfl rfl rfl, ?_, ?_, ?_, ?_, ?_⟩, ?_⟩
  rotate_left 3
  · intro x hx hne
    rw [hlog2, h3] at hx
    rcases List.mem_append.mp hx with hx | hx
    · rcases List.mem_append.mp hx with hx | hx
      · exact hi.tags x hx hne
      · rw [(asLog_tagged hok x hx).1]; exact hi.curUsed b hb
    · simp only [List.mem_singleton] at hx
      rw [hx]; exact hi.curUsed b hb
  · intro b2 hb2
    simp only [Option.some.injEq] at hb2
    subst hb2
    exact hi.curUsed b hb
  · intro b2 hb2
    simp only [Option.some.injEq] at hb2
    subst hb2
    exact Or.inl ⟨b, hb, rfl⟩
  · show unitsOfLog (logOf g2) = h.units ++ [MUnit.batch b.id (h.flushed ++ b.staged)]
    rw [hlog2, d1, h3, e1, e2, pendingGet_parkAll, List.map_append, c3, map_unRec_asLog _ _ _ h1, hi.units]
  · intro b2 hb2 hc2
    simp only [Option.some.injEq] at hb2
    subst hb2
    simp at hc2
  · intro i hne
    left
    rw [hlog2, d2] at hne
    by_cases e : i = b.id
    · rw [e, pendingGet_filter_self] at hne; exact absurd rfl hne
    · rw [pendingGet_filter_ne _ _ _ e, h3, e2, pendingGet_parkAll_ne _ _ e] at hne
      rcases hi.parked i hne with e' | ⟨b0, hb0, _, hid0⟩
      · exact e'
      · rw [hb] at hb0; cases hb0
        exact absurd hid0.symm e

theorem HInv_bcommit {s : St} {db : DB} {g : GDir} {h : Hist} {used : List Nat} (hi : HInv s db g h used)
    (hbs : ∀ b, db.batch = some b → BSize db.cfg.fileSize b) :
    ∃ db' g', HInv (bcommit s).1 db' g' (hstep s h .bcommit) used ∧ IdFrom db .bcommit db' := by
  cases hb : db.batch with
  | none =>
    rw [bcommit_nobatch hi.open_ hb]
    simp only [hstep, batchOf_eq hi.open_, hb]
    exact ⟨db, g, hi, IdFrom.of_eq rfl⟩
  | some b =>
    by_cases hc : b.committed = true
    · rw [bcommit_committed hi.open_ hb hc]
      simp only [hstep, batchOf_eq hi.open_, hb, hc, Bool.true_eq_false, false_and, if_false]
      exact ⟨db, g, hi, IdFrom.of_eq rfl⟩
    have hc' : b.committed = false := by simpa using hc
    by_cases he : b.staged = []
    · rw [bcommit_empty hi.open_ hb hc' he]
      simp only [hstep, batchOf_eq hi.open_, hb, he, ne_eq, not_true_eq_false, and_false, if_false]
      refine ⟨_, g, ⟨rfl, hi.files.congr rfl rfl rfl, hi.units, ?_, ?_, hi.tags, ?_⟩, ?_⟩
      rotate_left 2
      · intro b2 hb2
        simp only [Option.some.injEq] at hb2
        subst hb2
        exact hi.curUsed b hb
      · intro b2 hb2
        simp only [Option.some.injEq] at hb2
        subst hb2
        exact Or.inl ⟨b, hb, rfl⟩
      · intro b2 hb2 hc2
        simp only [Option.some.injEq] at hb2
        subst hb2
        simp at hc2
      · intro i hne
        left
        rcases hi.parked i hne with e' | ⟨b0, hb0, _, hid0⟩
        · exact e'
        · rw [hb] at hb0; cases hb0
          obtain ⟨_, _, c3, c4⟩ := hi.cur b hb hc'
          have hfl : h.flushed ≠ [] := by
            rw [← c3]; rw [← hid0] at hne; exact map_ne_nil_of hne
          exact absurd he (c4 hfl)
    · have := HInv_bcommit_nonempty hi hb hc' he (hbs b hb)
      simp only [hstep, batchOf_eq hi.open_, hb, hc', he, ne_eq, not_false_eq_true, and_self, if_true]
      exact this

/-! ## one call, any call -/

/-- **every call keeps the link** between the ghost log and the history bookkeeping -/
theorem HInv_astep {s : St} {db : DB} {g : GDir} {h : Hist} {used : List Nat} (op : AOp)
    (hi : HInv s db g h used) (hbs : ∀ b, db.batch = some b → BSize db.cfg.fileSize b)
    (hop : AOpOK op) (hid : bnewOK s h op) :
    ∃ db' g', HInv (astep s op).1 db' g' (hstep s h op) (bnewId op ++ used) ∧ IdFrom db op db' := by
  cases op with
  | put k v =>
    obtain ⟨db', g', h1, h2⟩ := HInv_put hi k v hop
    exact ⟨db', g', h1, IdFrom.of_eq h2⟩
  | del k =>
    obtain ⟨db', g', h1, h2⟩ := HInv_delete hi k hop
    exact ⟨db', g', h1, IdFrom.of_eq h2⟩
  | get k =>
    show ∃ db' g', HInv (get s k).1 db' g' h used ∧ _
    rw [PolicyP.Dur.get_state]
    exact ⟨db, g, hi, IdFrom.of_eq rfl⟩
  | sync => exact ⟨db, g, HInv_sync hi, IdFrom.of_eq rfl⟩
  | bnew sy id =>
    refine ⟨_, g, HInv_bnew sy id hi hid, ?_⟩
    intro b' hb'
    simp only [Option.some.injEq] at hb'
    subst hb'
    exact Or.inr (by simp [bnewId, newBatch])
  | bput k v => exact HInv_bput hi hbs k v
  | bdel k => exact HInv_bdel hi hbs k
  | bget k =>
    show ∃ db' g', HInv (bget s k).1 db' g' h used ∧ _
    rw [bget_state]
    exact ⟨db, g, hi, IdFrom.of_eq rfl⟩
  | bcommit => exact HInv_bcommit hi hbs
  | bdrop =>
    refine ⟨_, g, HInv_bdrop hi, ?_⟩
    intro b' hb'
    simp at hb'

end XixiKV.C03H
