import XixiKV.Proofs.CrashHistory
/-!
# Crash recovery at the level of acknowledged MUTATIONS — part 2: call histories

* `Hist`, `hstep`, `hrun`, `unitsOf`: the list of mutation units of a call history
  (`List AOp`, any interleaving of plain and batch calls), computed along the run of the model;
* `HInv`: the link between the ghost log of the state reached and that list —
  `unitsOfLog (logOf g) = units`, the records parked under the id of the open batch are exactly
  its flushed pieces, and the ids of the batches still to be created have nothing parked;
* `HInv_astep`: every call keeps the link.
-/
namespace XixiKV.C03H
open XixiKV XixiKV.Frame XixiKV.Record XixiKV.Index XixiKV.Engine XixiKV.Engine.Restart
open XixiKV.Engine.BatchP XixiKV.Engine.PolicyP.Dur XixiKV.Engine.PolicyP.Size

/-! ## the mutation units of a call history -/

/-- ghost bookkeeping along a history: the units acknowledged so far and the staged records of the
    OPEN batch that `flushStagedAndUpdateFile` has already written to the files -/
structure Hist where
  units : List MUnit
  flushed : List Staged

/-- the batch object attached to the handle -/
def batchOf (s : St) : Option BatchSt :=
  match s.db with
  | some db => db.batch
  | none => none

/-- its staging area -/
def stagedOf (s : St) : List Staged :=
  match batchOf s with
  | some b => b.staged
  | none => []

/-- the call moved the handle to a new active file (for a staging call: exactly when
    `flushStagedAndUpdateFile` ran, which writes everything staged so far) -/
def rotated (s s' : St) : Bool :=
  match s.db, s'.db with
  | some a, some b => a.activeId != b.activeId
  | _, _ => false

/-- the bookkeeping step for one call issued in state `s`:
    * `Put` with a non-empty key on an open handle: one unit;
    * `Delete` with a non-empty key that is in the index (a tombstone is written): one unit;
    * `NewBatch` / dropping the batch: nothing of the (new) batch is in the files;
    * `Batch.Put` / `Batch.Delete`: if the call flushed, the records staged before it are now in
      the files;
    * `Commit` of an uncommitted batch with a non-empty staging area: ONE unit — the flushed
      pieces followed by what is staged now. -/
def hstep (s : St) (h : Hist) : AOp → Hist
  | .put k v =>
    match s.db with
    | some _ => if k.size = 0 then h else { h with units := h.units ++ [MUnit.put k v] }
    | none => h
  | .del k =>
    match s.db with
    | some db =>
      if k.size = 0 then h else
      match Index.get db.index k with
      | some _ => { h with units := h.units ++ [MUnit.del k] }
      | none => h
    | none => h
  | .bnew _ _ => { h with flushed := [] }
  | .bdrop => { h with flushed := [] }
  | .bput k v => if rotated s (bput s k v).1 then { h with flushed := h.flushed ++ stagedOf s } else h
  | .bdel k => if rotated s (bdel s k).1 then { h with flushed := h.flushed ++ stagedOf s } else h
  | .bcommit =>
    match batchOf s with
    | some b =>
      if b.committed = false ∧ b.staged ≠ []
      then { units := h.units ++ [MUnit.batch b.id (h.flushed ++ b.staged)], flushed := [] } else h
    | none => h
  | _ => h

/-- bookkeeping along a whole history -/
def hrun (s : St) (h : Hist) : List AOp → Hist
  | [] => h
  | op :: ops => hrun (astep s op).1 (hstep s h op) ops

/-- **the mutation units of the call history `ops` issued from state `s`**, in the order of their
    acknowledgement -/
def unitsOf (s : St) (ops : List AOp) : List MUnit := (hrun s ⟨[], []⟩ ops).units

/-- the batch ids a history creates -/
def bnewId : AOp → List Nat
  | .bnew _ id => [id]
  | _ => []

def bnewIds (ops : List AOp) : List Nat := ops.flatMap bnewId

theorem hrun_append (a b : List AOp) : ∀ (s : St) (h : Hist),
    hrun s h (a ++ b) = hrun (arun s a) (hrun s h a) b := by
  induction a with
  | nil => intro s h; rfl
  | cons op t ih => intro s h; exact ih _ _

theorem arun_append (a b : List AOp) : ∀ (s : St), arun s (a ++ b) = arun (arun s a) b := by
  induction a with
  | nil => intro s; rfl
  | cons op t ih => intro s; exact ih _

/-! ## the link between the ghost log and the bookkeeping -/

/-- the state `s` (handle `db`, ghost directory `g`) has the history bookkeeping `h`; `ids` are
    batch ids that will be used later -/
structure HInv (s : St) (db : DB) (g : GDir) (h : Hist) (ids : List Nat) : Prop where
  open_ : s.db = some db
  files : Files s db g
  /-- the log denotes exactly the acknowledged units -/
  units : unitsOfLog (logOf g) = h.units
  /-- what the replay has parked under the id of the open batch = its flushed pieces;
      something was flushed only if something is staged (so `Commit` will seal it) -/
  cur : ∀ b, db.batch = some b → b.committed = false →
    b.id ≠ 0 ∧ (pendingGet (replayLog (logOf g)).pending b.id).map (fun x => unRec x.1) = h.flushed ∧
    (h.flushed ≠ [] → b.staged ≠ [])
  /-- future batch ids: non-zero, nothing parked under them, different from the open batch's -/
  fresh : ∀ i ∈ ids, i ≠ 0 ∧ pendingGet (replayLog (logOf g)).pending i = [] ∧
    ∀ b, db.batch = some b → b.id ≠ i

theorem HInv.mono {s : St} {db : DB} {g : GDir} {h : Hist} {ids ids' : List Nat} (hi : HInv s db g h ids)
    (hsub : ∀ i ∈ ids', i ∈ ids) : HInv s db g h ids' :=
  ⟨hi.open_, hi.files, hi.units, hi.cur, fun i hi' => hi.fresh i (hsub i hi')⟩

/-- the files (hence the log) and the batch object are unchanged -/
theorem HInv.same_log {s s' : St} {db db' : DB} {g : GDir} {h : Hist} {ids : List Nat} (hi : HInv s db g h ids)
    (hs' : s'.db = some db') (hf : Files s' db' g) (hbat : db'.batch = db.batch) : HInv s' db' g h ids :=
  ⟨hs', hf, hi.units, by rw [hbat]; exact hi.cur, by rw [hbat]; exact hi.fresh⟩

/-- one plain record was appended -/
theorem HInv.plain {s s' : St} {db db' : DB} {g g' : GDir} {h : Hist} {ids : List Nat} (hi : HInv s db g h ids)
    (r : Record) (p : Pos) (hb0 : r.batch = 0)
    (hs' : s'.db = some db') (hf : Files s' db' g') (hlog : logOf g' = logOf g ++ [(r, p)])
    (hbat : db'.batch = db.batch) :
    HInv s' db' g' { h with units := h.units ++ [if r.typ = 1 then MUnit.del r.key else MUnit.put r.key r.value] }
      ids := by
  obtain ⟨e1, e2⟩ := ext_plain (logOf g) r p hb0
  refine ⟨hs', hf, by rw [hlog, e1, hi.units], ?_, ?_⟩
  · rw [hbat, hlog, e2]; exact hi.cur
  · rw [hbat, hlog, e2]; exact hi.fresh

/-- the batch object was replaced by one with the same id and flag, still non-empty if it was -/
theorem HInv.set_batch {s s' : St} {db db' : DB} {g : GDir} {h : Hist} {ids : List Nat} (hi : HInv s db g h ids)
    {b b' : BatchSt} (hb : db.batch = some b) (hs' : s'.db = some db') (hf : Files s' db' g)
    (hb' : db'.batch = some b') (hid : b'.id = b.id) (hc : b'.committed = b.committed)
    (hne : b'.staged ≠ []) : HInv s' db' g h ids := by
  refine ⟨hs', hf, hi.units, ?_, ?_⟩
  · intro b2 hb2 hc2
    rw [hb'] at hb2; cases hb2
    obtain ⟨c1, c2, _⟩ := hi.cur b hb (by rw [← hc]; exact hc2)
    exact ⟨by rw [hid]; exact c1, by rw [hid]; exact c2, fun _ => hne⟩
  · intro i hi'
    obtain ⟨f1, f2, f3⟩ := hi.fresh i hi'
    refine ⟨f1, f2, ?_⟩
    intro b2 hb2
    rw [hb'] at hb2; cases hb2
    rw [hid]; exact f3 b hb

theorem map_unRec_asLog (id : Nat) (st : List Staged) : ∀ (ps : List Pos), ps.length = st.length →
    (asLog id (st.zip ps)).map (fun x => unRec x.1) = st := by
  induction st with
  | nil => intro ps _; rfl
  | cons a t ih =>
    intro ps hl
    cases ps with
    | nil => simp at hl
    | cons p ps =>
      simp only [List.zip_cons_cons, asLog, List.map_cons] at ih ⊢
      rw [ih ps (by simpa using hl)]
      rfl

/-- the staged records of the open batch `b` were written (tagged) to the log; the batch object
    becomes `b'` (same id, uncommitted, non-empty staging area) -/
theorem HInv.flushed {s s' : St} {db db' : DB} {g g' : GDir} {h : Hist} {ids : List Nat} (hi : HInv s db g h ids)
    {b b' : BatchSt} (hb : db.batch = some b) (hcm : b.committed = false)
    (hok : ∀ r ∈ b.staged, StagedOK r) (ps : List Pos) (hps : ps.length = b.staged.length)
    (hs' : s'.db = some db') (hf : Files s' db' g')
    (hlog : logOf g' = logOf g ++ asLog b.id (b.staged.zip ps))
    (hb' : db'.batch = some b') (hid : b'.id = b.id) (hne : b'.staged ≠ []) :
    HInv s' db' g' { h with flushed := h.flushed ++ b.staged } ids := by
  obtain ⟨c1, c2, _⟩ := hi.cur b hb hcm
  obtain ⟨e1, e2⟩ := ext_tagged (logOf g) (asLog b.id (b.staged.zip ps)) b.id c1 (asLog_tagged hok)
  refine ⟨hs', hf, by rw [hlog, e1, hi.units], ?_, ?_⟩
  · intro b2 hb2 _
    rw [hb'] at hb2; cases hb2
    refine ⟨by rw [hid]; exact c1, ?_, fun _ => hne⟩
    rw [hlog, e2, hid, pendingGet_parkAll, List.map_append, c2, map_unRec_asLog _ _ _ hps]
  · intro i hi'
    obtain ⟨f1, f2, f3⟩ := hi.fresh i hi'
    refine ⟨f1, ?_, ?_⟩
    · rw [hlog, e2, pendingGet_parkAll_ne _ _ (fun e => f3 b hb e.symm), f2]
    · intro b2 hb2
      rw [hb'] at hb2; cases hb2
      rw [hid]; exact f3 b hb

/-! ## `rotated` -/

theorem rotated_eq {s s' : St} {db db' : DB} (hs : s.db = some db) (hs' : s'.db = some db') :
    rotated s s' = (db.activeId != db'.activeId) := by
  unfold rotated
  simp only [hs, hs']

theorem rotated_self {s : St} : rotated s s = false := by
  unfold rotated
  cases s.db with
  | none => rfl
  | some db => simp

theorem flushStaged_activeId_ge (s : St) (db : DB) (b : BatchSt) :
    db.activeId ≤ (flushStaged s db b).2.1.activeId := by
  rw [flushStaged_pre, flushTail_eq]
  simp only []
  rw [(applyAllStaged_rest _ _).2.2.1]
  unfold fpreDB
  split
  · show db.activeId ≤ db.activeId + 1
    omega
  · exact Nat.le_refl _

theorem flushAndRotate_activeId_gt (s : St) (db : DB) (b : BatchSt) :
    db.activeId < (flushAndRotate s db b).2.1.activeId := by
  rw [flushAndRotate_eq]
  show db.activeId < (flushStaged s db b).2.1.activeId + 1
  have := flushStaged_activeId_ge s db b
  omega

theorem stagedOf_eq {s : St} {db : DB} {b : BatchSt} (hs : s.db = some db) (hb : db.batch = some b) :
    stagedOf s = b.staged := by
  simp only [stagedOf, batchOf, hs, hb]

theorem batchOf_eq {s : St} {db : DB} (hs : s.db = some db) : batchOf s = db.batch := by
  simp only [batchOf, hs]

/-! ## staging calls -/

/-- every outcome of a staging call keeps the link, with the bookkeeping step that `hstep`
    performs for `Batch.Put` / `Batch.Delete` -/
theorem HInv.stageOut {s s' : St} {db : DB} {g : GDir} {h : Hist} {ids : List Nat} (hi : HInv s db g h ids)
    {b : BatchSt} {must : Prop} (hb : db.batch = some b) (hcm : b.committed = false)
    (hbs : BSize db.cfg.fileSize b) (o : StageOut s db b must s') :
    ∃ db' g', HInv s' db' g'
      (if rotated s s' then { h with flushed := h.flushed ++ stagedOf s } else h) ids := by
  cases o with
  | same e _ =>
    subst e
    rw [rotated_self]
    exact ⟨db, g, hi⟩
  | staged b' e hne _ hc hid =>
    subst e
    rw [rotated_eq hi.open_ rfl]
    simp only [bne_self_eq_false, Bool.false_eq_true, if_false]
    exact ⟨_, g, hi.set_batch hb rfl (hi.files.congr rfl rfl rfl) rfl hid hc hne⟩
  | flushed b' e hne _ hc hid =>
    subst e
    have hgt := flushAndRotate_activeId_gt s db b
    rw [rotated_eq hi.open_ rfl]
    have hrot : (db.activeId != (flushAndRotate s db b).2.1.activeId) = true := by
      simp only [bne_iff_ne, ne_eq]; omega
    simp only [hrot, if_true]
    rw [stagedOf_eq hi.open_ hb]
    have hid64 : b.id < 2 ^ 64 := by
      have := hbs.idlt
      have : (2:Nat) ^ 63 ≤ 2 ^ 64 := by decide
      omega
    have hok : ∀ r ∈ b.staged, StagedOK r := fun r hr => (hbs.ok r hr).1
    obtain ⟨g', ps, h1, h2, h3, _, h5, h6⟩ := flushAndRotate_spec hi.files b hok hid64
    have hid' : b'.id = b.id := by rw [hid, h6]
    exact ⟨_, g', hi.flushed hb hcm hok ps h1 rfl (h2.congr rfl rfl rfl) h3 rfl hid' hne⟩

/-! ## the single calls -/

theorem appendLog_fields {s : St} {db : DB} {g : GDir} (hf : Files s db g) (r : Record) (hr : RecOK r) :
    ∃ g', Files (appendLog s db r).1 (appendLog s db r).2.1 g' ∧
      logOf g' = logOf g ++ [(r, (appendLog s db r).2.2)] ∧
      (appendLog s db r).2.1.dir = db.dir ∧ (appendLog s db r).2.1.batch = db.batch ∧
      (appendLog s db r).2.1.cfg = db.cfg := by
  obtain ⟨g', bw, a, h1, h2, _, h4⟩ := appendLog_spec hf r hr
  exact ⟨g', h1, h2, by rw [h4], by rw [h4], by rw [h4]⟩

theorem HInv_put {s : St} {db : DB} {g : GDir} {h : Hist} {ids : List Nat} (hi : HInv s db g h ids)
    (k v : ByteArray) (hsz : k.size + v.size ≤ 2 ^ 27) :
    ∃ db' g', HInv (put s k v).1 db' g' (hstep s h (.put k v)) ids ∧ db'.cfg = db.cfg := by
  by_cases hk : k.size = 0
  · rw [put_keyempty s k v hk hi.open_]
    simp only [hstep, hi.open_, if_pos hk]
    exact ⟨db, g, hi, rfl⟩
  · have hr : RecOK { typ := 0, key := k, value := v, batch := 0 } :=
      ⟨by show 0 < 3; omega, by show 0 < k.size; omega, lt31_of_le27 (by show k.size ≤ 2 ^ 27; omega),
       lt31_of_le27 (by show v.size ≤ 2 ^ 27; omega), by show 0 < 2 ^ 64; decide⟩
    obtain ⟨g', h1, h2, h3, h4, h5⟩ := appendLog_fields hi.files _ hr
    rw [put_eq hi.open_ k v hk]
    simp only [hstep, hi.open_, if_neg hk]
    refine ⟨putDB (appendLog s db { typ := 0, key := k, value := v, batch := 0 }) k, g', ?_, h5⟩
    have := hi.plain { typ := 0, key := k, value := v, batch := 0 } _ rfl
      (s' := { (appendLog s db { typ := 0, key := k, value := v, batch := 0 }).1 with
                db := some (putDB (appendLog s db { typ := 0, key := k, value := v, batch := 0 }) k) })
      rfl (h1.congr rfl rfl rfl) h2 h4
    simpa using this

theorem HInv_delete {s : St} {db : DB} {g : GDir} {h : Hist} {ids : List Nat} (hi : HInv s db g h ids)
    (k : ByteArray) (hsz : k.size ≤ 2 ^ 27) :
    ∃ db' g', HInv (delete s k).1 db' g' (hstep s h (.del k)) ids ∧ db'.cfg = db.cfg := by
  by_cases hk : k.size = 0
  · rw [delete_keyempty s k hk hi.open_]
    simp only [hstep, hi.open_, if_pos hk]
    exact ⟨db, g, hi, rfl⟩
  · cases hg : Index.get db.index k with
    | none =>
      rw [delete_eq_none hi.open_ k hk hg]
      simp only [hstep, hi.open_, if_neg hk, hg]
      exact ⟨db, g, hi, rfl⟩
    | some old =>
      have hr : RecOK { typ := 1, key := k, value := ByteArray.empty, batch := 0 } :=
        ⟨by show 1 < 3; omega, by show 0 < k.size; omega, lt31_of_le27 hsz,
         by show 0 < 2 ^ 31; decide, by show 0 < 2 ^ 64; decide⟩
      obtain ⟨g', h1, h2, h3, h4, h5⟩ := appendLog_fields hi.files _ hr
      rw [delete_eq_some hi.open_ k hk hg]
      simp only [hstep, hi.open_, if_neg hk, hg]
      refine ⟨delDB (appendLog s db { typ := 1, key := k, value := ByteArray.empty, batch := 0 }) k old, g', ?_, h5⟩
      have := hi.plain { typ := 1, key := k, value := ByteArray.empty, batch := 0 } _ rfl
        (s' := { (appendLog s db { typ := 1, key := k, value := ByteArray.empty, batch := 0 }).1 with
                  db := some (delDB (appendLog s db { typ := 1, key := k, value := ByteArray.empty, batch := 0 }) k old) })
        rfl (h1.congr rfl rfl rfl) h2 h4
      simpa using this

theorem HInv_sync {s : St} {db : DB} {g : GDir} {h : Hist} {ids : List Nat} (hi : HInv s db g h ids) :
    HInv (syncDB s).1 db g h ids := by
  unfold syncDB withDB
  rw [hi.open_]
  exact hi.same_log hi.open_ (Files_sync hi.files) rfl

theorem HInv_bnew {s : St} {db : DB} {g : GDir} {h : Hist} {ids : List Nat} (sync : Bool) (id : Nat)
    (hi : HInv s db g h (id :: ids)) (hnd : (id :: ids).Nodup) :
    HInv (bnew s sync id).1 { db with batch := some (newBatch sync id) } g { h with flushed := [] } ids := by
  rw [bnew_eq hi.open_]
  obtain ⟨f1, f2, _⟩ := hi.fresh id (by simp)
  refine ⟨rfl, hi.files.congr rfl rfl rfl, hi.units, ?_, ?_⟩
  · intro b hb _
    simp only [Option.some.injEq] at hb
    subst hb
    refine ⟨f1, ?_, fun hne => absurd rfl hne⟩
    show (pendingGet (replayLog (logOf g)).pending id).map _ = []
    rw [f2]; rfl
  · intro i hi'
    obtain ⟨g1, g2, _⟩ := hi.fresh i (by simp [hi'])
    refine ⟨g1, g2, ?_⟩
    intro b hb
    simp only [Option.some.injEq] at hb
    subst hb
    show id ≠ i
    intro e
    subst e
    exact (List.nodup_cons.mp hnd).1 hi'

theorem HInv_bdrop {s : St} {db : DB} {g : GDir} {h : Hist} {ids : List Nat} (hi : HInv s db g h ids) :
    HInv (bdrop s).1 { db with batch := none } g { h with flushed := [] } ids := by
  rw [bdrop_eq hi.open_]
  refine ⟨rfl, hi.files.congr rfl rfl rfl, hi.units, ?_, ?_⟩
  · intro b hb _; simp at hb
  · intro i hi'
    obtain ⟨g1, g2, _⟩ := hi.fresh i hi'
    exact ⟨g1, g2, fun b hb => by simp at hb⟩

theorem HInv_bput {s : St} {db : DB} {g : GDir} {h : Hist} {ids : List Nat} (hi : HInv s db g h ids)
    (hbs : ∀ b, db.batch = some b → BSize db.cfg.fileSize b) (k v : ByteArray) :
    ∃ db' g', HInv (bput s k v).1 db' g' (hstep s h (.bput k v)) ids := by
  show ∃ db' g', HInv (bput s k v).1 db' g'
    (if rotated s (bput s k v).1 then { h with flushed := h.flushed ++ stagedOf s } else h) ids
  cases hb : db.batch with
  | none =>
    rw [bput_nobatch hi.open_ hb, rotated_self]
    exact ⟨db, g, hi⟩
  | some b =>
    by_cases hk : k.size = 0
    · rw [bput_keyempty hi.open_ hb k v hk, rotated_self]
      exact ⟨db, g, hi⟩
    by_cases hc : b.committed = true
    · rw [bput_committed hi.open_ hb k v hk hc, rotated_self]
      exact ⟨db, g, hi⟩
    exact hi.stageOut hb (by simpa using hc) (hbs b hb) (bput_out hi.open_ hb k v)

theorem HInv_bdel {s : St} {db : DB} {g : GDir} {h : Hist} {ids : List Nat} (hi : HInv s db g h ids)
    (hbs : ∀ b, db.batch = some b → BSize db.cfg.fileSize b) (k : ByteArray) :
    ∃ db' g', HInv (bdel s k).1 db' g' (hstep s h (.bdel k)) ids := by
  show ∃ db' g', HInv (bdel s k).1 db' g'
    (if rotated s (bdel s k).1 then { h with flushed := h.flushed ++ stagedOf s } else h) ids
  cases hb : db.batch with
  | none =>
    rw [bdel_nobatch hi.open_ hb, rotated_self]
    exact ⟨db, g, hi⟩
  | some b =>
    by_cases hk : k.size = 0
    · rw [bdel_keyempty hi.open_ hb k hk, rotated_self]
      exact ⟨db, g, hi⟩
    by_cases hc : b.committed = true
    · rw [bdel_committed hi.open_ hb k hk hc, rotated_self]
      exact ⟨db, g, hi⟩
    exact hi.stageOut hb (by simpa using hc) (hbs b hb) (bdel_out hi.open_ hb k)

/-- **Commit of a non-empty staging area**: the flushed pieces, the staged records and the sealing
    record are in the log; the replay releases them as ONE unit -/
theorem HInv_bcommit_nonempty {s : St} {db : DB} {g : GDir} {h : Hist} {ids : List Nat} (hi : HInv s db g h ids)
    {b : BatchSt} (hb : db.batch = some b) (hc : b.committed = false) (he : b.staged ≠ [])
    (hbs : BSize db.cfg.fileSize b) :
    ∃ db' g', HInv (bcommit s).1 db' g'
      { units := h.units ++ [MUnit.batch b.id (h.flushed ++ b.staged)], flushed := [] } ids := by
  obtain ⟨c1, c2, _⟩ := hi.cur b hb hc
  have hid64 : b.id < 2 ^ 64 := by
    have := hbs.idlt
    have : (2:Nat) ^ 63 ≤ 2 ^ 64 := by decide
    omega
  have hok : ∀ r ∈ b.staged, StagedOK r := fun r hr => (hbs.ok r hr).1
  rw [bcommit_nonempty hi.open_ hb hc he]
  obtain ⟨g1, ps, h1, h2, h3, _, _, h6⟩ := flushStaged_spec hi.files { b with committed := true } hok hid64
  generalize flushStaged s db { b with committed := true } = F at *
  obtain ⟨s1, db1, b1⟩ := F
  simp only [] at h1 h2 h3 h6 ⊢
  subst h6
  obtain ⟨g2, hf2, hlog2, _⟩ := seal_spec h2 { b with staged := [], cached := 0, committed := true } hbs.idlt
  simp only [] at hf2 hlog2
  obtain ⟨e1, e2⟩ := ext_tagged (logOf g) (asLog b.id (b.staged.zip ps)) b.id c1 (asLog_tagged hok)
  obtain ⟨d1, d2⟩ := ext_fin (logOf g1) (finRec b.id) (sealPos s1 db1 b.id) c1 rfl
  have hfb : (finRec b.id).batch = b.id := rfl
  rw [hfb] at d1 d2
  refine ⟨_, g2, rfl, hf2.congr rfl rfl rfl, ?_, ?_, ?_⟩
  · show unitsOfLog (logOf g2) = h.units ++ [MUnit.batch b.id (h.flushed ++ b.staged)]
    rw [hlog2, d1, h3, e1, e2, pendingGet_parkAll, List.map_append, c2, map_unRec_asLog _ _ _ h1, hi.units]
  · intro b2 hb2 hc2
    simp only [Option.some.injEq] at hb2
    subst hb2
    simp at hc2
  · intro i hi'
    obtain ⟨f1, f2, f3⟩ := hi.fresh i hi'
    have hne : i ≠ b.id := fun e => f3 b hb e.symm
    refine ⟨f1, ?_, ?_⟩
    · rw [hlog2, d2, pendingGet_filter_ne _ _ _ hne, h3, e2, pendingGet_parkAll_ne _ _ hne, f2]
    · intro b2 hb2
      simp only [Option.some.injEq] at hb2
      subst hb2
      exact f3 b hb

theorem HInv_bcommit {s : St} {db : DB} {g : GDir} {h : Hist} {ids : List Nat} (hi : HInv s db g h ids)
    (hbs : ∀ b, db.batch = some b → BSize db.cfg.fileSize b) :
    ∃ db' g', HInv (bcommit s).1 db' g' (hstep s h .bcommit) ids := by
  cases hb : db.batch with
  | none =>
    rw [bcommit_nobatch hi.open_ hb]
    simp only [hstep, batchOf_eq hi.open_, hb]
    exact ⟨db, g, hi⟩
  | some b =>
    by_cases hc : b.committed = true
    · rw [bcommit_committed hi.open_ hb hc]
      simp only [hstep, batchOf_eq hi.open_, hb, hc, Bool.true_eq_false, false_and, if_false]
      exact ⟨db, g, hi⟩
    have hc' : b.committed = false := by simpa using hc
    by_cases he : b.staged = []
    · rw [bcommit_empty hi.open_ hb hc' he]
      simp only [hstep, batchOf_eq hi.open_, hb, he, ne_eq, not_true_eq_false, and_false, if_false]
      refine ⟨_, g, rfl, hi.files.congr rfl rfl rfl, hi.units, ?_, ?_⟩
      · intro b2 hb2 hc2
        simp only [Option.some.injEq] at hb2
        subst hb2
        simp at hc2
      · intro i hi'
        obtain ⟨f1, f2, f3⟩ := hi.fresh i hi'
        refine ⟨f1, f2, ?_⟩
        intro b2 hb2
        simp only [Option.some.injEq] at hb2
        subst hb2
        exact f3 b hb
    · have := HInv_bcommit_nonempty hi hb hc' he (hbs b hb)
      simp only [hstep, batchOf_eq hi.open_, hb, hc', he, ne_eq, not_false_eq_true, and_self, if_true]
      exact this

/-! ## one call, any call -/

/-- **every call keeps the link** between the ghost log and the history bookkeeping -/
theorem HInv_astep {s : St} {db : DB} {g : GDir} {h : Hist} {ids : List Nat} (op : AOp)
    (hi : HInv s db g h (bnewId op ++ ids)) (hnd : (bnewId op ++ ids).Nodup)
    (hbs : ∀ b, db.batch = some b → BSize db.cfg.fileSize b) (hop : AOpOK op) :
    ∃ db' g', HInv (astep s op).1 db' g' (hstep s h op) ids := by
  cases op with
  | put k v =>
    obtain ⟨db', g', h1, _⟩ := HInv_put (hi.mono (ids' := ids) (fun i hi' => by simp [bnewId, hi'])) k v hop
    exact ⟨db', g', h1⟩
  | del k =>
    obtain ⟨db', g', h1, _⟩ := HInv_delete (hi.mono (ids' := ids) (fun i hi' => by simp [bnewId, hi'])) k hop
    exact ⟨db', g', h1⟩
  | get k =>
    show ∃ db' g', HInv (get s k).1 db' g' h ids
    rw [PolicyP.Dur.get_state]
    exact ⟨db, g, hi.mono (fun i hi' => by simp [bnewId, hi'])⟩
  | sync => exact ⟨db, g, HInv_sync (hi.mono (ids' := ids) (fun i hi' => by simp [bnewId, hi']))⟩
  | bnew sy id => exact ⟨_, g, HInv_bnew sy id hi hnd⟩
  | bput k v => exact HInv_bput (hi.mono (ids' := ids) (fun i hi' => by simp [bnewId, hi'])) hbs k v
  | bdel k => exact HInv_bdel (hi.mono (ids' := ids) (fun i hi' => by simp [bnewId, hi'])) hbs k
  | bget k =>
    show ∃ db' g', HInv (bget s k).1 db' g' h ids
    rw [bget_state]
    exact ⟨db, g, hi.mono (fun i hi' => by simp [bnewId, hi'])⟩
  | bcommit => exact HInv_bcommit (hi.mono (ids' := ids) (fun i hi' => by simp [bnewId, hi'])) hbs
  | bdrop => exact ⟨_, g, HInv_bdrop (hi.mono (ids' := ids) (fun i hi' => by simp [bnewId, hi']))⟩

end XixiKV.C03H
