import XixiKV.Proofs.TransEq2Codec
import XixiKV.Proofs.Datatype
/-!
# The mechanically translated codecs of the redis-style layer (`datatype/meta.go`) equal the model's

Round 3b of the translator (`harness/cmd/trans`, `dt.go`; definitions in `XixiKV/Generated/Trans.lean`,
regenerated from the Go sources on every run).

| Go function (`datatype/meta.go`)            | generated definition (`datatype.`)   | model (`Datatype.`) | theorem |
|---------------------------------------------|--------------------------------------|---------------------|---------|
| `(*metadata).encode`                        | `metadata_encode`                    | `encodeMeta`        | `trans_metadata_encode_eq` |
| `decodeMetadata`                            | `decodeMetadata`                     | `decodeMeta`        | `trans_decodeMetadata_eq` (`_enc`, `trans_decodeMetadata_encode`) |
| `(*hashInternalKey).encode`                 | `hashInternalKey_encode`             | `hashKey`           | `trans_hashInternalKey_encode_eq` |
| `(*setInternalKey).encode`                  | `setInternalKey_encode`              | `setKey`            | `trans_setInternalKey_encode_eq` |
| `(*listInternalKey).encode`                 | `listInternalKey_encode`             | `listKey`           | `trans_listInternalKey_encode_eq` |
| `(*zsetInternalKey).encodeWithMember`       | `zsetInternalKey_encodeWithMember`   | `zmemKey`           | `trans_zsetInternalKey_encodeWithMember_eq` |
| `(*zsetInternalKey).encodeWithScore`        | `zsetInternalKey_encodeWithScore`    | `zscoreKey`         | `trans_zsetInternalKey_encodeWithScore_eq` |
| `(*DataTypeService).Set` (`types.go`), the arguments of its `db.Put` | `Set_put`   | `encodeStr` (in `set`) | `trans_Set_put_eq` |
| `(*DataTypeService).Get` (`types.go`), behind its `db.Get`           | `Get`       | `get`                  | `trans_Get_eq` |

Ranges.  The receiver's fields are separate arguments of the generated definitions, in the declaration order of the struct.  `expire` / `version`
are Go `int64`s; the model keeps them as `Nat`, so they are compared on `0 ≤ · < 2^63`; `size < 2^32`,
`head`, `tail`, `index < 2^64` are the field types; byte-string lengths are `< 2^60` (Go: `len` is an `int`,
and the buffer length `len(key)+len(field)+8(+4)` must not wrap — far beyond any real slice), the member
length of `setKey` / `zscoreKey` is not restricted further (`uint32(len(member))` truncates, and so does the
model's `le32`).  The score of `encodeWithScore` is the byte string `utils.Float64ToBytes(zk.score)`, an
abstract parameter of the generated definition (floats are outside the translated subset): the theorem holds
for every byte string.

`Set` is translated in the translator's mode `putArgs`: the generated `Set_put` yields the `(key, value)` the Go
function hands to `db.Put` when `value != nil` (the `nil` test is dropped by the table entry `nilNoop`; the model
has an `Option` there); `time.Now().Add(ttl).UnixNano()` is an abstract parameter `Int → Int`, compared with the
model for every function that maps the given `ttl` to `now + ttl < 2^63`.  `Get` is translated as a whole, with
what `db.Get(key)` returns as an abstract parameter (table entry `dbGet`: the error branch — key empty / not
found — is dropped) and `time.Now().UnixNano()` as an abstract parameter; it is compared with the model's `get`
on every stored record on which the model does not say `Reply.panic` (empty record: `encValue[0]`; overflowing
expiry varint: negative `index`), including records of other types (`ErrWrongTypeOperation`), expired ones
(`nil`) and negative expiries.

`decodeMetadata` is compared on exactly the inputs on which the model decodes (`decodeMeta buf = some m`):
this includes records that end early (Go and the model read zeros; no `n ≠ 0` requirement as in `TransEq2`,
the model reads the whole rest of the buffer like Go).  By its definition `decodeMeta buf = none` iff the record
is empty (Go: index panic at `buf[0]`; the translation, which does not represent panics, reads the type 0), or
one of the three / five varints the Go code reads overflows 64 bits or — for the three `Varint`s — has an odd
zig-zag code, i.e. is a negative `int64` (Go: carries on with garbage numbers, or panics at `buf[index:]` when
an overflow has made `index` negative — the model's `metaDecodePanics`; the translation computes the same
`index` but `buf.extract index.toNat …` clamps it to 0).  On those inputs the generated definition still
follows Go where Go does not panic, but there is no model value to compare with.  What is proved about them:
the second components `n` of the translated `binary.Uvarint` / `binary.Varint` — from which the Go code and
the translation compute `index` — are the model's `uvarintLen` — from which `metaDecodePanics` computes its
`idx` — on every input, also in the overflow cases `-10` / `-11` (`Uvarint_len`, `Varint_len`).
-/
namespace XixiKV.TransEq
open XixiKV XixiKV.Generated.Trans XixiKV.Varint XixiKV.Record

/-! ## the fixed-width little-endian stores of the prelude are the model's `le64` / `le32` -/

theorem ofNat8_mod (x : Nat) : UInt8.ofNat (x % 256) = UInt8.ofNat x := UInt8.ofNat_mod_size

/-- `binary.LittleEndian.PutUint64` (byte `i` is `byte(v >> 8i)`) writes the model's `le64 v` -/
theorem le64bytes_eq (v : Nat) : le64bytes v = Datatype.le64 v := by
  unfold le64bytes Datatype.le64 ofList
  simp only [Datatype.leBytes, Nat.toUInt8, Nat.shiftRight_eq_div_pow, Nat.div_div_eq_div_mul, Nat.reducePow,
    Nat.reduceMul, ofNat8_mod]

/-- `binary.LittleEndian.PutUint32` writes the model's `le32 v` -/
theorem le32bytes_eq (v : Nat) : le32bytes v = Datatype.le32 v := by
  unfold le32bytes Datatype.le32 ofList
  simp only [Datatype.leBytes, Nat.toUInt8, Nat.shiftRight_eq_div_pow, Nat.div_div_eq_div_mul, Nat.reducePow,
    Nat.reduceMul, ofNat8_mod]

theorem size_le64bytes (v : Nat) : (le64bytes v).size = 8 := rfl
theorem size_le32bytes (v : Nat) : (le32bytes v).size = 4 := rfl

example : le64bytes 0x0102030405060708 = ⟨#[8, 7, 6, 5, 4, 3, 2, 1]⟩ := by decide
example : le32bytes 0x01020304 = ⟨#[4, 3, 2, 1]⟩ := by decide

/-- the low `n` bytes only depend on `v mod 256^n` (`uint32(len(member))` truncates; so does `le32`) -/
theorem leBytes_mod : ∀ (n v : Nat), Datatype.leBytes n (v % 256 ^ n) = Datatype.leBytes n v
  | 0, _ => rfl
  | n + 1, v => by
    have h1 : v % 256 ^ (n + 1) % 256 = v % 256 :=
      Nat.mod_mod_of_dvd v ⟨256 ^ n, by rw [Nat.pow_succ, Nat.mul_comm]⟩
    have h2 : v % 256 ^ (n + 1) / 256 = v / 256 % 256 ^ n := by
      rw [Nat.pow_succ, Nat.mul_comm, Nat.mod_mul_right_div_self]
    simp only [Datatype.leBytes, h1, h2, leBytes_mod n (v / 256)]

theorem le32_mod (v : Nat) : Datatype.le32 (v % 2 ^ 32) = Datatype.le32 v := by
  unfold Datatype.le32
  have := leBytes_mod 4 v
  rw [show (256 : Nat) ^ 4 = 2 ^ 32 from by decide] at this
  rw [this]

/-! ## writes into a window of a buffer -/

/-- a write into the window `b[lo:hi]` right behind the prefix `p` (at an index `lo` that equals `p.size`), the
    window being long enough for `s` (or open-ended: `hi = len(b)`), extends the prefix -/
theorem pre_writeAt {b p s : ByteArray} {lo hi n : Nat} (hpre : Pre b p n) (hlo : lo = p.size)
    (hfit : p.size + s.size ≤ n) (hhi : hi = b.size ∨ p.size + s.size ≤ hi) :
    Pre (writeAt b lo hi s) (p ++ s) n := by
  unfold writeAt
  have h0 := hpre.1
  rw [extract_all s _ (by omega)]
  exact pre_putAt hpre hlo hfit

/-- a buffer that is all prefix -/
theorem pre_all {b p : ByteArray} {n : Nat} (hpre : Pre b p n) (hn : p.size = n) : b = p := by
  obtain ⟨h0, _, h2⟩ := hpre
  rw [← h2, extract_all b _ (by omega)]

/-- `X = ε ++ s₁ ++ … ++ sₖ` for a buffer `X` built by `k` writes (`writeAt` / `putAt`) into a fresh buffer `B`:
    one `Pre` step per write, whatever their number; leaves the index / fit side conditions (`n = B.size`) -/
macro "pre_steps" B:term : tactic => `(tactic| (
  refine pre_all (n := ByteArray.size $B) ?_ ?_
  repeat' (with_reducible first
    | refine pre_writeAt ?_ ?_ ?_ ?_
    | refine pre_putAt ?_ ?_ ?_
    | exact pre_empty _)))

/-- the side conditions of `pre_steps`: `lo = p.size`, `p.size + s.size ≤ n`, and for a window `b[lo:hi]` either
    `hi` is `b.size` itself (an open-ended slice `b[lo:]`) or `p.size + s.size ≤ hi` -/
macro "pre_side" : tactic => `(tactic| first
  | (apply Or.inr
     simp only [ByteArray.size_append, ByteArray.size_empty, size_le64bytes, size_le32bytes]
     omega)
  | (apply Or.inl
     with_reducible rfl)
  | (simp only [ByteArray.size_append, ByteArray.size_empty, size_le64bytes, size_le32bytes]
     omega))

/-! ## the five internal-key encoders -/

/-- `(*hashInternalKey).encode` = `hashKey` -/
theorem trans_hashInternalKey_encode_eq (key field : ByteArray) (version : Nat)
    (hk : key.size < 2^60) (hf : field.size < 2^60) (hv : version < 2^63) :
    datatype.hashInternalKey_encode key (version : Int) field = Datatype.hashKey key version field := by
  have hP : Datatype.hashKey key version field
      = ((ByteArray.empty ++ key) ++ le64bytes ((version : Int) % 2^64).toNat) ++ field := by
    rw [le64bytes_eq, Datatype.hashKey, Datatype.ikey, ByteArray.empty_append]
    congr 3; omega
  rw [hP]
  simp (disch := omega) only [datatype.hashInternalKey_encode, i64_of_range]
  generalize hB : mkBytes _ = B
  have hBs := congrArg ByteArray.size hB
  rw [size_mkBytes] at hBs
  pre_steps B
  all_goals pre_side

/-- `(*zsetInternalKey).encodeWithMember` = `zmemKey` -/
theorem trans_zsetInternalKey_encodeWithMember_eq (key member : ByteArray) (version : Nat)
    (hk : key.size < 2^60) (hm : member.size < 2^60) (hv : version < 2^63) :
    datatype.zsetInternalKey_encodeWithMember key (version : Int) member = Datatype.zmemKey key version member := by
  have hP : Datatype.zmemKey key version member
      = ((ByteArray.empty ++ key) ++ le64bytes ((version : Int) % 2^64).toNat) ++ member := by
    rw [le64bytes_eq, Datatype.zmemKey, Datatype.ikey, ByteArray.empty_append]
    congr 3; omega
  rw [hP]
  simp (disch := omega) only [datatype.zsetInternalKey_encodeWithMember, i64_of_range]
  generalize hB : mkBytes _ = B
  have hBs := congrArg ByteArray.size hB
  rw [size_mkBytes] at hBs
  pre_steps B
  all_goals pre_side

/-- `(*listInternalKey).encode` = `listKey` -/
theorem trans_listInternalKey_encode_eq (key : ByteArray) (version index : Nat)
    (hk : key.size < 2^60) (hv : version < 2^63) :
    datatype.listInternalKey_encode key (version : Int) index = Datatype.listKey key version index := by
  have hP : Datatype.listKey key version index
      = ((ByteArray.empty ++ key) ++ le64bytes ((version : Int) % 2^64).toNat) ++ le64bytes index := by
    rw [le64bytes_eq, le64bytes_eq, Datatype.listKey, Datatype.ikey, ByteArray.empty_append]
    congr 3; omega
  rw [hP]
  simp (disch := omega) only [datatype.listInternalKey_encode, i64_of_range]
  generalize hB : mkBytes _ = B
  have hBs := congrArg ByteArray.size hB
  rw [size_mkBytes] at hBs
  pre_steps B
  all_goals pre_side

/-- `(*setInternalKey).encode` = `setKey` -/
theorem trans_setInternalKey_encode_eq (key member : ByteArray) (version : Nat)
    (hk : key.size < 2^60) (hm : member.size < 2^60) (hv : version < 2^63) :
    datatype.setInternalKey_encode key (version : Int) member = Datatype.setKey key version member := by
  have hP : Datatype.setKey key version member
      = (((ByteArray.empty ++ key) ++ le64bytes ((version : Int) % 2^64).toNat) ++ member)
          ++ le32bytes ((member.size : Int) % 2^32).toNat := by
    have e1 : ((member.size : Int) % 2^32).toNat = member.size % 2^32 := by omega
    have e2 : ((version : Int) % 2^64).toNat = version := by omega
    rw [le64bytes_eq, le32bytes_eq, e1, e2, le32_mod, Datatype.setKey, Datatype.ikey, ByteArray.empty_append]
    simp only [ByteArray.append_assoc]
  rw [hP]
  simp (disch := omega) only [datatype.setInternalKey_encode, i64_of_range]
  generalize hB : mkBytes _ = B
  have hBs := congrArg ByteArray.size hB
  rw [size_mkBytes] at hBs
  pre_steps B
  all_goals pre_side

/-- `(*zsetInternalKey).encodeWithScore` = `zscoreKey`, for every byte string `score` in the place of
    `utils.Float64ToBytes(zk.score)` -/
theorem trans_zsetInternalKey_encodeWithScore_eq (score key member : ByteArray) (version : Nat)
    (hs : score.size < 2^60) (hk : key.size < 2^60) (hm : member.size < 2^60) (hv : version < 2^63) :
    datatype.zsetInternalKey_encodeWithScore score key (version : Int) member
      = Datatype.zscoreKey key version score member := by
  have hP : Datatype.zscoreKey key version score member
      = ((((ByteArray.empty ++ key) ++ le64bytes ((version : Int) % 2^64).toNat) ++ score) ++ member)
          ++ le32bytes ((member.size : Int) % 2^32).toNat := by
    have e1 : ((member.size : Int) % 2^32).toNat = member.size % 2^32 := by omega
    have e2 : ((version : Int) % 2^64).toNat = version := by omega
    rw [le64bytes_eq, le32bytes_eq, e1, e2, le32_mod, Datatype.zscoreKey, Datatype.ikey, ByteArray.empty_append]
    simp only [ByteArray.append_assoc]
  rw [hP]
  simp (disch := omega) only [datatype.zsetInternalKey_encodeWithScore, i64_of_range]
  generalize hB : mkBytes _ = B
  have hBs := congrArg ByteArray.size hB
  rw [size_mkBytes] at hBs
  pre_steps B
  all_goals pre_side

/-! ## `(*metadata).encode` -/

theorem toNat_eq_List_iff (t : UInt8) : t.toNat = datatype.List_ ↔ t = Datatype.tList :=
  ⟨fun h => UInt8.toNat_inj.1 h, fun h => by rw [h]; rfl⟩

set_option linter.unusedSimpArgs false in
/-- `(*metadata).encode` = `encodeMeta` (the 26- resp. 46-byte buffer always suffices).
    (`eq_comm (a := List_)`: the test may be written `List == md.dataType`.) -/
theorem trans_metadata_encode_eq (m : Datatype.Meta) (he : m.expire < 2^63) (hv : m.version < 2^63)
    (hs : m.size < 2^32) (hh : m.head < 2^64) (ht : m.tail < 2^64) :
    datatype.metadata_encode m.dataType.toNat (m.expire : Int) (m.version : Int) m.size m.head m.tail
      = Datatype.encodeMeta m := by
  have hsz1 : (binary_PutVarint (m.expire : Int)).size = (putVarintNat m.expire).length := by
    rw [PutVarint_eq, size_ofList]
  have hsz2 : (binary_PutVarint (m.version : Int)).size = (putVarintNat m.version).length := by
    rw [PutVarint_eq, size_ofList]
  have hsz3 : (binary_PutVarint (m.size : Int)).size = (putVarintNat m.size).length := by
    rw [PutVarint_eq, size_ofList]
  have hsz4 : (binary_PutUvarint m.head).size = (putUvarint m.head).length := by rw [PutUvarint_eq, size_ofList]
  have hsz5 : (binary_PutUvarint m.tail).size = (putUvarint m.tail).length := by rw [PutUvarint_eq, size_ofList]
  have l1 : (putVarintNat m.expire).length ≤ 10 := putUvarint_length_le _ (by omega)
  have l2 : (putVarintNat m.version).length ≤ 10 := putUvarint_length_le _ (by omega)
  have l3 : (putVarintNat m.size).length ≤ 5 := by
    apply putUvarint_length_le_of_lt 4 (2 * m.size)
    have : (2:Nat) ^ (7 * (4 + 1)) = 8 * 2 ^ 32 := by decide
    omega
  have l4 := putUvarint_length_le m.head hh
  have l5 := putUvarint_length_le m.tail ht
  have hT : (ByteArray.mk #[UInt8.ofNat m.dataType.toNat]).size = 1 := rfl
  by_cases hl : m.dataType = Datatype.tList
  · have hc : m.dataType.toNat = datatype.List_ := (toNat_eq_List_iff _).2 hl
    have hP : Datatype.encodeMeta m = (((((ByteArray.empty ++ ByteArray.mk #[UInt8.ofNat m.dataType.toNat])
        ++ binary_PutVarint (m.expire : Int)) ++ binary_PutVarint (m.version : Int)) ++ binary_PutVarint (m.size : Int))
        ++ binary_PutUvarint m.head) ++ binary_PutUvarint m.tail := by
      rw [PutVarint_eq, PutVarint_eq, PutVarint_eq, PutUvarint_eq, PutUvarint_eq, Datatype.encodeMeta, if_pos hl,
        ofList_cons, ofList_append, ofList_append, ofList_append, ofList_append, UInt8.ofNat_toNat]
      simp only [ByteArray.empty_append, ByteArray.append_assoc]
    rw [hP]
    simp (disch := omega) only [datatype.metadata_encode, hsz1, hsz2, hsz3, hsz4, hsz5, i64_of_range,
      eq_comm (a := datatype.List_), if_pos hc, datatype.maxMetadataSize, datatype.extraListMetaSize]
    generalize hB : mkBytes _ = B
    have hBs := congrArg ByteArray.size hB
    rw [size_mkBytes] at hBs
    refine pre_extract (n := B.size) ?_ ?_
    · repeat' (with_reducible first | refine pre_putAt ?_ ?_ ?_ | exact pre_empty _)
      all_goals simp only [ByteArray.size_append, ByteArray.size_empty, hT, hsz1, hsz2, hsz3, hsz4, hsz5]
      all_goals omega
    · simp only [ByteArray.size_append, ByteArray.size_empty, hT, hsz1, hsz2, hsz3, hsz4, hsz5]
      omega
  · have hc : ¬ m.dataType.toNat = datatype.List_ := fun h => hl ((toNat_eq_List_iff _).1 h)
    have hP : Datatype.encodeMeta m = (((ByteArray.empty ++ ByteArray.mk #[UInt8.ofNat m.dataType.toNat])
        ++ binary_PutVarint (m.expire : Int)) ++ binary_PutVarint (m.version : Int)) ++ binary_PutVarint (m.size : Int) := by
      rw [PutVarint_eq, PutVarint_eq, PutVarint_eq, Datatype.encodeMeta, if_neg hl, List.append_nil,
        ofList_cons, ofList_append, ofList_append, UInt8.ofNat_toNat]
      simp only [ByteArray.empty_append, ByteArray.append_assoc]
    rw [hP]
    simp (disch := omega) only [datatype.metadata_encode, hsz1, hsz2, hsz3, i64_of_range,
      eq_comm (a := datatype.List_), if_neg hc, datatype.maxMetadataSize]
    generalize hB : mkBytes _ = B
    have hBs := congrArg ByteArray.size hB
    rw [size_mkBytes] at hBs
    refine pre_extract (n := B.size) ?_ ?_
    · repeat' (with_reducible first | refine pre_putAt ?_ ?_ ?_ | exact pre_empty _)
      all_goals simp only [ByteArray.size_append, ByteArray.size_empty, hT, hsz1, hsz2, hsz3]
      all_goals omega
    · simp only [ByteArray.size_append, ByteArray.size_empty, hT, hsz1, hsz2, hsz3]
      omega

/-! ## `decodeMetadata` -/

/-- `binary.Uvarint(data[k:])` where the model decodes the rest of the buffer from `k` on (also when the buffer ends
    inside the varint: `n = 0`) -/
theorem Uvarint_drop {data : ByteArray} {k v n : Nat} (h : uvarint (data.data.toList.drop k) = some (v, n))
    (i : Int) (hi : i = (k : Int)) : binary_Uvarint (data.extract i.toNat data.size) = (v, (n : Int)) := by
  subst hi
  rw [Int.toNat_natCast]
  unfold binary_Uvarint
  rw [toList_extract_to_end, h]

theorem Varint_drop {data : ByteArray} {k v n : Nat} (h : varintNat (data.data.toList.drop k) = some (v, n))
    (i : Int) (hi : i = (k : Int)) : binary_Varint (data.extract i.toNat data.size) = ((v : Int), (n : Int)) := by
  unfold varintNat at h
  split at h
  · rename_i ux m hu
    split at h
    · rename_i heven
      simp only [Option.some.injEq, Prod.mk.injEq] at h
      obtain ⟨h1, h2⟩ := h
      subst h1 h2
      unfold binary_Varint
      rw [Uvarint_drop hu i hi]
      simp only [if_pos heven]
    · cases h
  · cases h

theorem varintNat_bound {l : List UInt8} {v n : Nat} (h : varintNat l = some (v, n)) : n ≤ 10 := by
  unfold varintNat at h
  split at h
  · rename_i ux m hu
    split at h
    · simp only [Option.some.injEq, Prod.mk.injEq] at h
      obtain ⟨_, h2⟩ := h
      subst h2
      exact uvarintGo_bound _ _ _ _ _ _ hu (by omega)
    · cases h
  · cases h

theorem get!_zero_of_toList {b : ByteArray} {t : UInt8} {r : List UInt8} (h : b.data.toList = t :: r) : b.get! 0 = t := by
  obtain ⟨⟨l⟩⟩ := b
  simp only at h
  subst h
  rfl

/-- what `decodeMeta buf = some m` says about the bytes: the type byte and three (five for a list) varints, each
    read from the rest of the buffer behind the previous one -/
theorem decodeMeta_some {buf : ByteArray} {m : Datatype.Meta} (h : Datatype.decodeMeta buf = some m) :
    ∃ r n1 n2 n3 sz, buf.data.toList = m.dataType :: r ∧
      varintNat (buf.data.toList.drop 1) = some (m.expire, n1) ∧
      varintNat (buf.data.toList.drop (1 + n1)) = some (m.version, n2) ∧
      varintNat (buf.data.toList.drop (1 + n1 + n2)) = some (sz, n3) ∧ m.size = sz % 2 ^ 32 ∧
      ((m.dataType = Datatype.tList ∧ ∃ n4 n5,
          uvarint (buf.data.toList.drop (1 + n1 + n2 + n3)) = some (m.head, n4) ∧
          uvarint (buf.data.toList.drop (1 + n1 + n2 + n3 + n4)) = some (m.tail, n5)) ∨
       (m.dataType ≠ Datatype.tList ∧ m.head = 0 ∧ m.tail = 0)) := by
  unfold Datatype.decodeMeta at h
  split at h
  · cases h
  · rename_i dt r1 hb
    have d1 : ∀ k, (dt :: r1).drop (1 + k) = r1.drop k := fun k => by rw [Nat.add_comm]; rfl
    split at h
    · cases h
    · rename_i ex n1 h1
      split at h
      · cases h
      · rename_i ve n2 h2
        split at h
        · cases h
        · rename_i sz n3 h3
          split at h
          · rename_i hl
            split at h
            · cases h
            · rename_i hd n4 h4
              split at h
              · cases h
              · rename_i tl n5 h5
                cases h
                refine ⟨r1, n1, n2, n3, sz, hb, ?_, ?_, ?_, rfl, Or.inl ⟨hl, n4, n5, ?_, ?_⟩⟩
                all_goals rw [hb]
                · exact h1
                · rw [d1]; exact h2
                · rw [Nat.add_assoc, d1, ← List.drop_drop]; exact h3
                · rw [Nat.add_assoc, Nat.add_assoc, d1, ← Nat.add_assoc, ← List.drop_drop, ← List.drop_drop]; exact h4
                · rw [Nat.add_assoc, Nat.add_assoc, Nat.add_assoc, d1, ← Nat.add_assoc, ← Nat.add_assoc, ← List.drop_drop,
                    ← List.drop_drop, ← List.drop_drop]; exact h5
          · rename_i hl
            cases h
            refine ⟨r1, n1, n2, n3, sz, hb, ?_, ?_, ?_, rfl, Or.inr ⟨hl, rfl, rfl⟩⟩
            all_goals rw [hb]
            · exact h1
            · rw [d1]; exact h2
            · rw [Nat.add_assoc, d1, ← List.drop_drop]; exact h3

/-- the Go struct of a model `Meta` -/
def goMeta (m : Datatype.Meta) : datatype.metadata :=
  { dataType := m.dataType.toNat, expire := m.expire, version := m.version, size := m.size, head := m.head, tail := m.tail }

set_option linter.unusedSimpArgs false in
theorem trans_decodeMetadata_eq (buf : ByteArray) (m : Datatype.Meta)
    (h : Datatype.decodeMeta buf = some m) : datatype.decodeMetadata buf = goMeta m := by
  obtain ⟨r, n1, n2, n3, sz, hb, h1, h2, h3, hsz, hrest⟩ := decodeMeta_some h
  have b1 := varintNat_bound h1
  have b2 := varintNat_bound h2
  have b3 := varintNat_bound h3
  have v1 := Varint_drop h1
  have v2 := Varint_drop h2
  have v3 := Varint_drop h3
  have hg := get!_zero_of_toList hb
  unfold goMeta
  rcases hrest with ⟨hl, n4, n5, h4, h5⟩ | ⟨hl, hh, ht⟩
  · have b4 := uvarintGo_bound _ _ _ _ _ _ h4 (by omega)
    have v4 := Uvarint_drop h4
    have v5 := Uvarint_drop h5
    have hc : m.dataType.toNat = datatype.List_ := (toNat_eq_List_iff _).2 hl
    simp (disch := omega) only [datatype.decodeMetadata, hg, v1, v2, v3, v4, v5, i64_of_range,
      eq_comm (a := datatype.List_), if_pos hc]
    rw [datatype.metadata.mk.injEq]
    refine ⟨?_, ?_, ?_, ?_, ?_, ?_⟩
    all_goals first | (with_reducible rfl) | omega
  · have hc : ¬ m.dataType.toNat = datatype.List_ := fun h => hl ((toNat_eq_List_iff _).1 h)
    simp (disch := omega) only [datatype.decodeMetadata, hg, v1, v2, v3, i64_of_range,
      eq_comm (a := datatype.List_), if_neg hc]
    rw [datatype.metadata.mk.injEq]
    refine ⟨?_, ?_, ?_, ?_, ?_, ?_⟩
    all_goals first | (with_reducible rfl) | omega

/-- consequence (with `decodeMeta_encodeMeta`): the translated Go decoder reads back every metadata record the
    model encoder writes -/
theorem trans_decodeMetadata_enc (m : Datatype.Meta) (h : m.Valid) :
    datatype.decodeMetadata (Datatype.encodeMeta m) = goMeta m :=
  trans_decodeMetadata_eq _ m (Datatype.decodeMeta_encodeMeta m h)

/-- encode with the translated Go encoder, decode with the translated Go decoder -/
theorem trans_decodeMetadata_encode (m : Datatype.Meta) (h : m.Valid) :
    datatype.decodeMetadata
      (datatype.metadata_encode m.dataType.toNat (m.expire : Int) (m.version : Int) m.size m.head m.tail) = goMeta m := by
  rw [trans_metadata_encode_eq m h.expire h.version h.size h.head h.tail, trans_decodeMetadata_enc m h]

/-! ## the byte counts / error codes of the translated varint readers are the model's `uvarintLen` -/

/-- where Go's `Uvarint` loop reports an overflow: after nine continuation bytes, at the tenth byte -/
theorem uvarintGo_none : ∀ (l : List UInt8) (i s x : Nat), uvarintGo l i s x = none → i ≤ 9 →
    ∃ pre t rest, l = pre ++ t :: rest ∧ pre.length = 9 - i ∧ (∀ b ∈ pre, 128 ≤ b.toNat)
  | [], i, s, x, h, _ => by simp [uvarintGo] at h
  | b :: bs, i, s, x, h, hi => by
    simp only [uvarintGo] at h
    rw [if_neg (by omega)] at h
    by_cases hb : b.toNat < 128
    · rw [if_pos hb] at h
      split at h
      · exact ⟨[], b, bs, rfl, by simp; omega, by simp⟩
      · cases h
    · rw [if_neg hb] at h
      by_cases h9 : i = 9
      · exact ⟨[], b, bs, rfl, by simp; omega, by simp⟩
      · obtain ⟨pre, t, rest, e, hl, hall⟩ := uvarintGo_none bs (i+1) _ _ h (by omega)
        refine ⟨b :: pre, t, rest, by rw [e]; rfl, by simp; omega, ?_⟩
        intro c hc
        simp only [List.mem_cons] at hc
        rcases hc with rfl | hc
        · omega
        · exact hall c hc

theorem get!_of_toList {b : ByteArray} {pre : List UInt8} {t : UInt8} {rest : List UInt8}
    (h : b.data.toList = pre ++ t :: rest) : b.get! pre.length = t := by
  obtain ⟨⟨l⟩⟩ := b
  simp only at h
  subst h
  simp [ByteArray.get!]

/-- the number of bytes read (or Go's error code `0`, `-10`, `-11`) that the translated `binary.Uvarint` /
    `binary.Varint` return is the model's `uvarintLen`, from which `metaDecodePanics` is computed -/
theorem Uvarint_len (b : ByteArray) : (binary_Uvarint b).2 = Datatype.uvarintLen b.data.toList := by
  unfold binary_Uvarint Datatype.uvarintLen
  cases hn : uvarint b.data.toList with
  | some p => rfl
  | none =>
    obtain ⟨pre, t, rest, e, hl, hall⟩ := uvarintGo_none _ _ _ _ hn (by omega)
    have hg : b.get! 9 = t := by
      have := get!_of_toList e
      rwa [hl] at this
    have ht : (b.data.toList.take 10) = pre ++ [t] := by
      rw [e, List.take_append, List.take_of_length_le (by omega), hl]
      rfl
    have hp : pre.all (fun b => decide (128 ≤ b.toNat)) = true := by
      rw [List.all_eq_true]; intro c hc; exact decide_eq_true (hall c hc)
    show (if (b.get! 9).toNat < 128 then (-10 : Int) else -11) = _
    rw [hg, ht, List.all_append, hp]
    by_cases h128 : t.toNat < 128
    · rw [if_pos h128, if_neg (by simp; omega)]
    · rw [if_neg h128, if_pos (by simp; omega)]

theorem Varint_len (b : ByteArray) : (binary_Varint b).2 = Datatype.uvarintLen b.data.toList := Uvarint_len b

/-! ## concrete instances -/

example : datatype.hashInternalKey_encode ⟨#[0x6b, 0x31]⟩ 5 ⟨#[0x66]⟩ = Datatype.hashKey ⟨#[0x6b, 0x31]⟩ 5 ⟨#[0x66]⟩ :=
  trans_hashInternalKey_encode_eq ⟨#[0x6b, 0x31]⟩ ⟨#[0x66]⟩ 5 (by decide) (by decide) (by decide)
example : Datatype.hashKey ⟨#[0x6b, 0x31]⟩ 5 ⟨#[0x66]⟩ = ⟨#[0x6b, 0x31, 5, 0, 0, 0, 0, 0, 0, 0, 0x66]⟩ := by decide
example : datatype.setInternalKey_encode ⟨#[0x6b]⟩ 258 ⟨#[0x61, 0x62]⟩
    = ⟨#[0x6b, 2, 1, 0, 0, 0, 0, 0, 0, 0x61, 0x62, 2, 0, 0, 0]⟩ :=
  (trans_setInternalKey_encode_eq ⟨#[0x6b]⟩ ⟨#[0x61, 0x62]⟩ 258 (by decide) (by decide) (by decide)).trans (by decide)
example : datatype.listInternalKey_encode ⟨#[0x6b]⟩ 1 Datatype.initialListMark
    = ⟨#[0x6b, 1, 0, 0, 0, 0, 0, 0, 0, 0xff, 0xff, 0xff, 0xff, 0xff, 0xff, 0xff, 0x7f]⟩ :=
  (trans_listInternalKey_encode_eq ⟨#[0x6b]⟩ 1 _ (by decide) (by decide)).trans (by decide)
example : datatype.zsetInternalKey_encodeWithMember ⟨#[0x6b]⟩ 7 ⟨#[0x61]⟩ = ⟨#[0x6b, 7, 0, 0, 0, 0, 0, 0, 0, 0x61]⟩ :=
  (trans_zsetInternalKey_encodeWithMember_eq ⟨#[0x6b]⟩ ⟨#[0x61]⟩ 7 (by decide) (by decide) (by decide)).trans (by decide)
/-- score text "1.5" -/
example : datatype.zsetInternalKey_encodeWithScore ⟨#[0x31, 0x2e, 0x35]⟩ ⟨#[0x6b]⟩ 7 ⟨#[0x61]⟩
    = ⟨#[0x6b, 7, 0, 0, 0, 0, 0, 0, 0, 0x31, 0x2e, 0x35, 0x61, 1, 0, 0, 0]⟩ :=
  (trans_zsetInternalKey_encodeWithScore_eq ⟨#[0x31, 0x2e, 0x35]⟩ ⟨#[0x6b]⟩ ⟨#[0x61]⟩ 7 (by decide) (by decide)
    (by decide) (by decide)).trans (by decide)

/-- a list's metadata (type 3, no expiry, version 300, two elements, window `[2^63-2, 2^63)`) -/
private def mList : Datatype.Meta :=
  { dataType := 3, expire := 0, version := 300, size := 2, head := Datatype.initialListMark - 1, tail := Datatype.initialListMark + 1 }
/-- a hash's metadata -/
private def mHash : Datatype.Meta := { dataType := 1, expire := 0, version := 300, size := 70000, head := 0, tail := 0 }

example : datatype.metadata_encode 3 0 300 2 (Datatype.initialListMark - 1) (Datatype.initialListMark + 1)
    = Datatype.encodeMeta mList :=
  trans_metadata_encode_eq mList (by decide) (by decide) (by decide) (by decide) (by decide)
example : datatype.metadata_encode 1 0 300 70000 0 0 = Datatype.encodeMeta mHash :=
  trans_metadata_encode_eq mHash (by decide) (by decide) (by decide) (by decide) (by decide)
example : mList.Valid := ⟨by decide, by decide, by decide, by decide, by decide, by decide⟩
example : datatype.decodeMetadata (Datatype.encodeMeta mList)
    = { dataType := 3, expire := 0, version := 300, size := 2, head := 2^63 - 2, tail := 2^63 } :=
  trans_decodeMetadata_enc mList ⟨by decide, by decide, by decide, by decide, by decide, by decide⟩
example : datatype.decodeMetadata (Datatype.encodeMeta mHash)
    = { dataType := 1, expire := 0, version := 300, size := 70000, head := 0, tail := 0 } :=
  trans_decodeMetadata_enc mHash ⟨by decide, by decide, by decide, by decide, by decide, by decide⟩
/-- a record that ends early (type byte and expiry only): Go and the model read zeros -/
example : datatype.decodeMetadata ⟨#[1, 0]⟩ = { dataType := 1, expire := 0, version := 0, size := 0, head := 0, tail := 0 } :=
  trans_decodeMetadata_eq ⟨#[1, 0]⟩ { dataType := 1, expire := 0, version := 0, size := 0, head := 0, tail := 0 } (by decide)
/-- the error codes of the translated `binary.Uvarint`: ten continuation bytes and an eleventh ↦ `-11`; a tenth byte
    `> 1` ↦ `-10`; the buffer ends inside the varint ↦ `0` -/
example : (binary_Uvarint ⟨#[0x80, 0x80, 0x80, 0x80, 0x80, 0x80, 0x80, 0x80, 0x80, 0x80, 0x01]⟩).2 = -11 := by decide
example : (binary_Uvarint ⟨#[0x80, 0x80, 0x80, 0x80, 0x80, 0x80, 0x80, 0x80, 0x80, 0x02]⟩).2 = -10 := by decide
example : (binary_Uvarint ⟨#[0x80, 0x80]⟩).2 = 0 := by decide

/-! ## the string record: `Set` (what it hands to `db.Put`) and `Get` (how it reads what `db.Get` returns) -/

/-- the string record `Set` builds, for the expiry `x` (an `int64 ≥ 0`) it has computed -/
theorem encodeStr_eq (expire : Nat) (v : ByteArray) (hE : expire < 2^63) (x : Int) (hx : x = (expire : Int)) :
    Datatype.encodeStr expire v
      = (ByteArray.empty ++ ((ByteArray.empty ++ ByteArray.mk #[UInt8.ofNat datatype.String_]) ++ binary_PutVarint x)) ++ v
    ∧ (binary_PutVarint x).size ≤ 10 := by
  subst hx
  constructor
  · rw [PutVarint_eq, Datatype.encodeStr, ofList_cons, ByteArray.empty_append, ByteArray.empty_append]
    rfl
  · rw [PutVarint_eq, size_ofList]
    exact putUvarint_length_le _ (by omega)

/-- name a fresh buffer `mkBytes N` (the first one in the goal) `B`, keeping only its size -/
macro "gen_buf" B:ident h:ident : tactic => `(tactic| (
  generalize hB_ : mkBytes _ = $B
  have $h := (congrArg ByteArray.size hB_).symm.trans (size_mkBytes _)
  clear hB_))

theorem size_mk1 (x : UInt8) : (ByteArray.mk #[x]).size = 1 := rfl

/-- what is left of `Set_put` once the expiry is known: the 11-byte scratch buffer holds the type byte and the varint `E`,
    the record is a fresh buffer into which that header and the value are copied -/
macro "set_put_tail" hEs:ident : tactic => `(tactic| (
  generalize binary_PutVarint _ = E at $hEs:ident ⊢
  rw [Prod.mk.injEq]
  refine ⟨rfl, ?_⟩
  generalize hX : ByteArray.extract _ 0 _ = X
  have hX' : X = (ByteArray.empty ++ ByteArray.mk #[UInt8.ofNat datatype.String_]) ++ E := by
    rw [← hX]
    gen_buf B0 hB0
    refine pre_extract (n := B0.size) ?_ ?_
    · repeat' (with_reducible first | refine pre_putAt ?_ ?_ ?_ | exact pre_empty _)
      all_goals simp only [ByteArray.size_append, ByteArray.size_empty, size_mk1]
      all_goals omega
    · simp only [ByteArray.size_append, ByteArray.size_empty, size_mk1]
      omega
  subst hX'
  gen_buf B hB
  pre_steps B
  all_goals first
    | (apply Or.inr; simp only [ByteArray.size_append, ByteArray.size_empty, size_mk1]; omega)
    | (apply Or.inl; with_reducible rfl)
    | (simp only [ByteArray.size_append, ByteArray.size_empty, size_mk1]; try omega)))

/-- `Set` (for `value != nil`) calls `db.Put(key, encodeStr expire value)` with `expire = now + ttl` resp. `0` -/
theorem trans_Set_put_eq (clock : Int → Int) (key v : ByteArray) (now ttl : Nat)
    (hv : v.size < 2^60) (hnow : now + ttl < 2^63) (hclock : ttl ≠ 0 → clock (ttl : Int) = ((now + ttl : Nat) : Int)) :
    datatype.Set_put clock key v (ttl : Int) = (key, Datatype.encodeStr (if ttl ≠ 0 then now + ttl else 0) v) := by
  by_cases h0 : ttl = 0
  · have hc : ¬ ((ttl : Int) ≠ 0) := by omega
    obtain ⟨hP, hEs⟩ := encodeStr_eq 0 v (by decide) 0 rfl
    rw [if_neg (by omega), hP]
    simp (disch := omega) only [datatype.Set_put, i64_of_range, if_neg hc]
    set_put_tail hEs
  · have hc : (ttl : Int) ≠ 0 := by omega
    obtain ⟨hP, hEs⟩ := encodeStr_eq (now + ttl) v hnow (clock ttl) (hclock h0)
    rw [if_pos h0, hP]
    simp (disch := omega) only [datatype.Set_put, i64_of_range, if_pos hc]
    set_put_tail hEs

/-! ## `Get` -/

/-- the Go results `([]byte, error)` of `Get` for the model's replies (`nil` and empty slices are both the empty
    `ByteArray`, so `Reply.nil` and `Reply.bytes ByteArray.empty` coincide on the Go side of this translation) -/
def ofGetReply : Datatype.Reply → ByteArray × Option String
  | .bytes b => (b, none)
  | .wrongType => (ByteArray.empty, some "ErrWrongTypeOperation")
  | _ => (ByteArray.empty, none)

theorem trans_Get_eq (db : ByteArray → ByteArray) (kv : Datatype.KV) (key enc : ByteArray) (now : Nat)
    (hkey : key.size ≠ 0) (hget : kv.get key = some enc) (hdb : db key = enc) (hnow : now < 2^63)
    (hnp : (Datatype.get kv now key).2 ≠ .panic) :
    datatype.Get db (now : Int) key = ofGetReply (Datatype.get kv now key).2 := by
  unfold Datatype.get at hnp ⊢
  rw [if_neg hkey] at hnp ⊢
  simp only [hget] at hnp ⊢
  cases hl : enc.data.toList with
  | nil => simp only [hl] at hnp; exact absurd rfl hnp
  | cons t r =>
    simp only [hl] at hnp ⊢
    have hg := get!_zero_of_toList hl
    by_cases ht : t = Datatype.tString
    · have htn : t.toNat = 0 := by rw [ht]; rfl
      rw [if_neg (by simpa using ht)] at hnp ⊢
      cases hu : uvarint r with
      | none => simp only [hu] at hnp; exact absurd rfl hnp
      | some p =>
        obtain ⟨ux, n⟩ := p
        simp only [hu] at hnp ⊢
        have hu' : uvarint (enc.data.toList.drop 1) = some (ux, n) := by rw [hl]; exact hu
        have bn := uvarintGo_bound _ _ _ _ _ _ hu (by omega)
        have v1 := Uvarint_drop hu'
        -- the Go code's tests are decided by case analysis (however they are written), the zig-zag by parity
        by_cases hpar : ux % 2 = 0
        · simp (disch := omega) only [datatype.Get, hdb, hg, binary_Varint, v1, i64_of_range, if_pos hpar,
            datatype.String_, htn]
          repeat' split
          all_goals first
            | (exfalso; omega)
            | rfl
            | (show (_, _) = (_, _); congr 2; omega)
        · simp (disch := omega) only [datatype.Get, hdb, hg, binary_Varint, v1, i64_of_range, if_neg hpar,
            datatype.String_, htn]
          repeat' split
          all_goals first
            | (exfalso; omega)
            | rfl
            | (show (_, _) = (_, _); congr 2; omega)
    · have htn : t.toNat ≠ 0 := fun h => ht (UInt8.toNat_inj.1 h)
      rw [if_pos (by simpa using ht)]
      simp (disch := omega) only [datatype.Get, hdb, hg, datatype.String_]
      repeat' split
      all_goals first
        | (exfalso; omega)
        | rfl

/-- `Set k [1,2,3]` with a ttl of 5 ns at time 1000: the record is type 0, varint 2·1005, the value -/
example : datatype.Set_put (fun d => 1000 + d) ⟨#[0x6b]⟩ ⟨#[1, 2, 3]⟩ 5 = (⟨#[0x6b]⟩, Datatype.encodeStr 1005 ⟨#[1, 2, 3]⟩) :=
  (trans_Set_put_eq (fun d => 1000 + d) ⟨#[0x6b]⟩ ⟨#[1, 2, 3]⟩ 1000 5 (by decide) (by decide) (fun _ => rfl)).trans rfl
#guard Datatype.encodeStr 1005 ⟨#[1, 2, 3]⟩ = ⟨#[0, 0xda, 0x0f, 1, 2, 3]⟩
#guard datatype.Set_put (fun d => 1000 + d) ⟨#[0x6b]⟩ ⟨#[1, 2, 3]⟩ 5 = (⟨#[0x6b]⟩, ⟨#[0, 0xda, 0x0f, 1, 2, 3]⟩)
/-- without ttl -/
example : datatype.Set_put (fun d => 1000 + d) ⟨#[0x6b]⟩ ⟨#[1, 2, 3]⟩ 0 = (⟨#[0x6b]⟩, Datatype.encodeStr 0 ⟨#[1, 2, 3]⟩) :=
  (trans_Set_put_eq (fun d => 1000 + d) ⟨#[0x6b]⟩ ⟨#[1, 2, 3]⟩ 1000 0 (by decide) (by decide) (fun h => absurd rfl h)).trans rfl
#guard datatype.Set_put (fun d => 1000 + d) ⟨#[0x6b]⟩ ⟨#[1, 2, 3]⟩ 0 = (⟨#[0x6b]⟩, ⟨#[0, 0, 1, 2, 3]⟩)
/-- `Get` of that record before and after its expiry, and of a hash's metadata record -/
example : datatype.Get (fun _ => ⟨#[0, 0xda, 0x0f, 1, 2, 3]⟩) 1004 ⟨#[0x6b]⟩ = (⟨#[1, 2, 3]⟩, none) :=
  (trans_Get_eq (fun _ => ⟨#[0, 0xda, 0x0f, 1, 2, 3]⟩) [(⟨#[0x6b]⟩, ⟨#[0, 0xda, 0x0f, 1, 2, 3]⟩)] ⟨#[0x6b]⟩ _ 1004
    (by decide) rfl rfl (by decide) (by decide)).trans (by decide)
example : datatype.Get (fun _ => ⟨#[0, 0xda, 0x0f, 1, 2, 3]⟩) 1005 ⟨#[0x6b]⟩ = (ByteArray.empty, none) :=
  (trans_Get_eq (fun _ => ⟨#[0, 0xda, 0x0f, 1, 2, 3]⟩) [(⟨#[0x6b]⟩, ⟨#[0, 0xda, 0x0f, 1, 2, 3]⟩)] ⟨#[0x6b]⟩ _ 1005
    (by decide) rfl rfl (by decide) (by decide)).trans (by decide)
example : datatype.Get (fun _ => Datatype.encodeMeta mHash) 1005 ⟨#[0x6b]⟩ = (ByteArray.empty, some "ErrWrongTypeOperation") :=
  (trans_Get_eq (fun _ => Datatype.encodeMeta mHash) [(⟨#[0x6b]⟩, Datatype.encodeMeta mHash)] ⟨#[0x6b]⟩ _ 1005
    (by decide) rfl rfl (by decide) (by decide)).trans (by decide)

end XixiKV.TransEq
