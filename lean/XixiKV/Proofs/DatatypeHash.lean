import XixiKV.Proofs.DatatypeCmds
/-! # Hash commands -/
namespace XixiKV.Datatype
open XixiKV XixiKV.Varint XixiKV.Record Spec

theorem hashKey_eq_iff {k : ByteArray} {ver : Nat} (hv : ver < 2 ^ 64) (f f' : ByteArray) :
    hashKey k ver f' = hashKey k ver f ↔ f' = f :=
  ⟨fun h => (ikey_inj hv hv h).2, fun h => h ▸ rfl⟩

/-- what `findMetadata` and the element records say when `k` holds the hash `fs` under version
    `ver` (an absent key: the empty hash under the fresh version `now`) -/
structure HashView (kv : KV) (now : Nat) (k : ByteArray) (fs : List (ByteArray × ByteArray)) (ver : Nat) : Prop where
  ver_le : ver ≤ now
  find : findMetadata kv now k tHash = .ok (hashMeta ver fs.length)
  len : fs.length < 2 ^ 32
  inv : HashInv kv k ver fs
  stored : fs ≠ [] → kv.get k = some (encodeMeta (hashMeta ver fs.length))

section
variable {U M : List ByteArray} {t : Nat} {kv : KV} {sp : State}

/-- nothing live under `k` (no record, or an expired string): `findMetadata` makes a fresh metadata -/
theorem find_absent (hR : R U M t kv sp) {k : ByteArray} (hk : k ∈ U) (hne : k.size ≠ 0) {now : Nat}
    (hl : sp.live now k = none) (dt : UInt8) (hdt : tString ≠ dt) :
    findMetadata kv now k dt = .ok (freshMeta dt now) := by
  have hobj := hR.obj k hk
  rcases live_none hl with hf | ⟨v, e, hf, hx⟩
  · rw [hf] at hobj
    exact findMetadata_none dt hne hobj
  · rw [hf] at hobj
    have hst : Stored M t kv k (.str v e) := hobj
    rw [findMetadata_str hne hst.1 hst.2 hdt, hx]
    rfl

theorem hashView_none (hR : R U M t kv sp) {k : ByteArray} (hk : k ∈ U) (hne : k.size ≠ 0) {now : Nat}
    (ht : t ≤ now) (hnow : now < 2 ^ 62) (hl : sp.live now k = none) : HashView kv now k [] now := by
  have h64 : (2:Nat) ^ 62 < 2 ^ 64 := by decide
  refine ⟨Nat.le_refl _, ?_, by simp, ⟨List.nodup_nil, ?_⟩, fun h => absurd rfl h⟩
  · rw [find_absent hR hk hne hl tHash (by decide)]
    simp [freshMeta, hashMeta, dt_ne]
  · intro f
    exact hR.fresh k hk now ht (by omega) f

theorem hashView_some (hR : R U M t kv sp) {k : ByteArray} (hk : k ∈ U) (hne : k.size ≠ 0) {now : Nat}
    (ht : t ≤ now) (hnow : now < 2 ^ 62) {fs : List (ByteArray × ByteArray)} (hf : sp.find k = some (.hash fs)) :
    ∃ ver, HashView kv now k fs ver := by
  have h63 : (2:Nat) ^ 62 < 2 ^ 63 := by decide
  have hobj := hR.obj k hk
  rw [hf] at hobj
  obtain ⟨ver, h1, h2, h3, h4⟩ := (show Stored M t kv k (.hash fs) from hobj)
  refine ⟨ver, by omega, ?_, h2, h4, fun _ => h3⟩
  rw [findMetadata_meta tHash hne (hashMeta_valid (by omega) h2) rfl h3]
  simp [hashMeta]

/-- a live record of another type under `k`: both sides say `wrongType` and nothing changes -/
theorem wrong_find (hR : R U M t kv sp) {k : ByteArray} (hk : k ∈ U) (hne : k.size ≠ 0) {now : Nat}
    (ht : t ≤ now) (hnow : now < 2 ^ 62) {o : Obj} (hf : sp.find k = some o) (dt : UInt8) (hdt : dtOf o ≠ dt)
    (hlive : ∀ v e, o = .str v e → expired e now = false) :
    findMetadata kv now k dt = .error .wrongType := by
  have hobj := hR.obj k hk
  rw [hf] at hobj
  exact findMetadata_wrong dt hne (by omega) hobj hdt hlive

end

theorem hset_core {kv : KV} {now : Nat} {k : ByteArray} {fs : List (ByteArray × ByteArray)} {ver : Nat}
    (hv : HashView kv now k fs ver) (hnow : now < 2 ^ 62) (hfit : fs.length + 1 < 2 ^ 32) (f v : ByteArray) :
    (hset kv now k f v).2 = .flag (lookup fs f).isNone ∧
    (hset kv now k f v).1.get k = some (encodeMeta (hashMeta ver (insert fs f v).length)) ∧
    HashInv (hset kv now k f v).1 k ver (insert fs f v) ∧
    (∀ x, x ≠ k → (∀ s, x ≠ ikey k ver s) → (hset kv now k f v).1.get x = kv.get x) := by
  have h64 : (2:Nat) ^ 62 < 2 ^ 64 := by decide
  have hver : ver < 2 ^ 64 := by have := hv.ver_le; omega
  have hex : (kv.get (hashKey k ver f)).isSome = (lookup fs f).isSome := by rw [hv.inv.2]
  have hkne : ∀ f', k ≠ hashKey k ver f' := fun f' e => ikey_ne_self k ver f' e.symm
  cases hl : lookup fs f with
  | none =>
    have hnm : f ∉ fs.map (·.1) := (lookup_eq_none_iff fs f).mp hl
    have hrun : hset kv now k f v
        = ((kv.put k (encodeMeta (hashMeta ver (fs.length + 1)))).put (hashKey k ver f) v, .flag true) := by
      simp only [hset, hv.find, hashMeta, hex, hl, Option.isSome_none, Bool.false_eq_true, ↓reduceIte,
        List.singleton_append, KV.batch_cons, KV.batch_nil, KV.apply_put, Bool.not_false,
        Nat.mod_eq_of_lt hfit]
    rw [hrun]
    refine ⟨rfl, ?_, ⟨nodupKeys_insert hv.inv.1 f v, ?_⟩, ?_⟩
    · rw [KV.get_put, if_neg (hkne f), KV.get_put, if_pos rfl, length_insert_of_not_mem fs f v hnm]
    · intro f'
      rw [KV.get_put, KV.get_put, lookup_insert]
      simp only [hashKey_eq_iff hver]
      by_cases hff : f' = f
      · simp [hff]
      · rw [if_neg hff, if_neg hff, if_neg (fun e => hkne f' e.symm), hv.inv.2]
    · intro x hx hxs
      rw [KV.get_put, if_neg (show x ≠ hashKey k ver f from hxs f), KV.get_put, if_neg hx]
  | some v0 =>
    have hm : f ∈ fs.map (·.1) := (lookup_isSome_iff fs f).mp (by rw [hl]; rfl)
    have hne : fs ≠ [] := by intro e; rw [e] at hm; simp at hm
    have hrun : hset kv now k f v = (kv.put (hashKey k ver f) v, .flag false) := by
      simp only [hset, hv.find, hashMeta, hex, hl, Option.isSome_some, ↓reduceIte,
        List.nil_append, KV.batch_cons, KV.batch_nil, KV.apply_put, Bool.not_true]
    rw [hrun]
    refine ⟨rfl, ?_, ⟨nodupKeys_insert hv.inv.1 f v, ?_⟩, ?_⟩
    · rw [KV.get_put, if_neg (hkne f), length_insert_of_mem hv.inv.1 f v hm, hv.stored hne]
    · intro f'
      rw [KV.get_put, lookup_insert]
      simp only [hashKey_eq_iff hver]
      by_cases hff : f' = f
      · simp [hff]
      · rw [if_neg hff, if_neg hff, hv.inv.2]
    · intro x hx hxs
      rw [KV.get_put, if_neg (show x ≠ hashKey k ver f from hxs f)]

theorem hget_core {kv : KV} {now : Nat} {k : ByteArray} {fs : List (ByteArray × ByteArray)} {ver : Nat}
    (hv : HashView kv now k fs ver) (f : ByteArray) :
    hget kv now k f = (kv, if fs.isEmpty then .nil else
      match lookup fs f with
      | none => .notFound
      | some v => .ofStored v) := by
  cases fs with
  | nil => simp only [hget, hv.find, hashMeta, List.length_nil, ↓reduceIte, List.isEmpty_nil]
  | cons p r =>
    have : ¬ (p :: r).length = 0 := by simp
    simp only [hget, hv.find, hashMeta, this, ↓reduceIte, hv.inv.2, List.isEmpty_cons, Bool.false_eq_true]
    cases lookup (p :: r) f <;> rfl

theorem hdel_core_miss {kv : KV} {now : Nat} {k : ByteArray} {fs : List (ByteArray × ByteArray)} {ver : Nat}
    (hv : HashView kv now k fs ver) (f : ByteArray) (hl : lookup fs f = none) :
    hdel kv now k f = (kv, .flag false) := by
  by_cases h0 : fs.length = 0
  · simp only [hdel, hv.find, hashMeta, h0, ↓reduceIte]
  · simp only [hdel, hv.find, hashMeta, h0, ↓reduceIte, hv.inv.2, hl, Option.isSome_none, Bool.false_eq_true]

theorem hdel_core_hit {kv : KV} {now : Nat} {k : ByteArray} {fs : List (ByteArray × ByteArray)} {ver : Nat}
    (hv : HashView kv now k fs ver) (hnow : now < 2 ^ 62) (f : ByteArray) (hl : (lookup fs f).isSome = true) :
    (hdel kv now k f).2 = .flag true ∧
    (hdel kv now k f).1.get k = some (encodeMeta (hashMeta ver (remove fs f).length)) ∧
    HashInv (hdel kv now k f).1 k ver (remove fs f) ∧
    (∀ x, x ≠ k → (∀ s, x ≠ ikey k ver s) → (hdel kv now k f).1.get x = kv.get x) := by
  have h64 : (2:Nat) ^ 62 < 2 ^ 64 := by decide
  have hver : ver < 2 ^ 64 := by have := hv.ver_le; omega
  have hkne : ∀ f', k ≠ hashKey k ver f' := fun f' e => ikey_ne_self k ver f' e.symm
  have hm : f ∈ fs.map (·.1) := (lookup_isSome_iff fs f).mp hl
  have hlen := length_remove_of_mem hv.inv.1 hm
  have h0 : ¬ fs.length = 0 := by omega
  have hrun : hdel kv now k f
      = ((kv.put k (encodeMeta (hashMeta ver (fs.length - 1)))).delete (hashKey k ver f), .flag true) := by
    simp only [hdel, hv.find, hashMeta, h0, ↓reduceIte, hv.inv.2, hl,
      KV.batch_cons, KV.batch_nil, KV.apply_put, KV.apply_del]
  rw [hrun]
  refine ⟨rfl, ?_, ⟨nodupKeys_remove hv.inv.1 f, ?_⟩, ?_⟩
  · rw [KV.get_delete, if_neg (hkne f), KV.get_put, if_pos rfl]
    congr 3; omega
  · intro f'
    rw [KV.get_delete, KV.get_put, lookup_remove]
    simp only [hashKey_eq_iff hver]
    by_cases hff : f' = f
    · simp [hff]
    · rw [if_neg hff, if_neg hff, if_neg (fun e => hkne f' e.symm), hv.inv.2]
  · intro x hx hxs
    rw [KV.get_delete, if_neg (show x ≠ hashKey k ver f from hxs f), KV.get_put, if_neg hx]

section
variable {U M : List ByteArray} {t : Nat} {kv : KV} {sp : State}

theorem hash_close (hU : PrefixFree U) (hR : R U M t kv sp) {k : ByteArray} (hk : k ∈ U) {now : Nat}
    (ht : t ≤ now) (hnow : now < 2 ^ 62) {ver : Nat} (hver : ver ≤ now)
    {kv' : KV} {fs' : List (ByteArray × ByteArray)} (hlen : fs'.length < 2 ^ 32)
    (hget : kv'.get k = some (encodeMeta (hashMeta ver fs'.length))) (hinv : HashInv kv' k ver fs')
    (hframe : ∀ x, x ≠ k → (∀ s, x ≠ ikey k ver s) → kv'.get x = kv.get x) :
    R U M (now + 1) kv' (sp.store k (.hash fs')) := by
  apply R_step hU hR hk ht hnow hver hframe
  · intro x hx; rw [find_store, if_neg hx]
  · rw [find_store, if_pos rfl]
    exact ⟨ver, by omega, hlen, hget, hinv⟩

theorem refines_hset (hU : PrefixFree U) (hR : R U M t kv sp) {k : ByteArray} (hk : k ∈ U) (hne : k.size ≠ 0)
    (f v : ByteArray) {now : Nat} (ht : t ≤ now) (hnow : now < 2 ^ 62)
    (hok : StepOK sp (.hset k f v) now = true) : Refines U M kv sp (.hset k f v) now := by
  unfold Refines
  rw [step_of_ne (.hset k f v) _ _ hne]
  simp only [run, Spec.stepNE]
  cases hl : sp.live now k with
  | none =>
    have hv := hashView_none hR hk hne ht hnow hl
    obtain ⟨h1, h2, h3, h4⟩ := hset_core hv hnow (by simp) f v
    exact ⟨h1, hash_close hU hR hk ht hnow hv.ver_le (by simp) h2 h3 h4⟩
  | some o =>
    obtain ⟨hf, hnx⟩ := live_some hl
    cases o with
    | hash fs =>
      obtain ⟨ver, hv⟩ := hashView_some hR hk hne ht hnow hf
      have hfit : fs.length + 1 < 2 ^ 32 := stepOK_card hok hf
      obtain ⟨h1, h2, h3, h4⟩ := hset_core hv hnow hfit f v
      refine ⟨h1, hash_close hU hR hk ht hnow hv.ver_le ?_ h2 h3 h4⟩
      have : (insert fs f v).length ≤ fs.length + 1 := by
        simp only [Spec.insert, Spec.remove, List.length_cons]
        have := List.length_filter_le (fun p : ByteArray × ByteArray => decide (p.1 ≠ f)) fs
        omega
      omega
    | str _ _ | set _ | list _ | zset _ =>
      simp only [hset, wrong_find hR hk hne ht hnow hf tHash (by simp [dtOf, dt_ne])
        hnx]
      fin (R_same hR ht)

theorem refines_hget (hR : R U M t kv sp) {k : ByteArray} (hk : k ∈ U) (hne : k.size ≠ 0)
    (f : ByteArray) {now : Nat} (ht : t ≤ now) (hnow : now < 2 ^ 62)
    : Refines U M kv sp (.hget k f) now := by
  unfold Refines
  rw [step_of_ne (.hget k f) _ _ hne]
  simp only [run, Spec.stepNE]
  cases hl : sp.live now k with
  | none =>
    rw [hget_core (hashView_none hR hk hne ht hnow hl) f]
    fin (R_same hR ht)
  | some o =>
    obtain ⟨hf, hnx⟩ := live_some hl
    cases o with
    | hash fs =>
      obtain ⟨ver, hv⟩ := hashView_some hR hk hne ht hnow hf
      rw [hget_core hv f]
      cases fs with
      | nil => simp only [List.isEmpty_nil, ↓reduceIte]; fin (R_same hR ht)
      | cons p r =>
        simp only [List.isEmpty_cons, Bool.false_eq_true, ↓reduceIte]
        cases lookup (p :: r) f <;> simp only <;> fin (R_same hR ht)
    | str _ _ | set _ | list _ | zset _ =>
      simp only [hget, wrong_find hR hk hne ht hnow hf tHash (by simp [dtOf, dt_ne])
        hnx]
      fin (R_same hR ht)

theorem refines_hdel (hU : PrefixFree U) (hR : R U M t kv sp) {k : ByteArray} (hk : k ∈ U) (hne : k.size ≠ 0)
    (f : ByteArray) {now : Nat} (ht : t ≤ now) (hnow : now < 2 ^ 62)
    : Refines U M kv sp (.hdel k f) now := by
  unfold Refines
  rw [step_of_ne (.hdel k f) _ _ hne]
  simp only [run, Spec.stepNE]
  cases hl : sp.live now k with
  | none =>
    rw [hdel_core_miss (hashView_none hR hk hne ht hnow hl) f rfl]
    fin (R_same hR ht)
  | some o =>
    obtain ⟨hf, hnx⟩ := live_some hl
    cases o with
    | hash fs =>
      obtain ⟨ver, hv⟩ := hashView_some hR hk hne ht hnow hf
      simp only
      cases hl : lookup fs f with
      | none =>
        rw [hdel_core_miss hv f hl]
        simp only [Option.isSome_none, Bool.false_eq_true, ↓reduceIte]
        fin (R_same hR ht)
      | some v0 =>
        obtain ⟨h1, h2, h3, h4⟩ := hdel_core_hit hv hnow f (by rw [hl]; rfl)
        simp only [Option.isSome_some, ↓reduceIte]
        refine ⟨h1, hash_close hU hR hk ht hnow hv.ver_le ?_ h2 h3 h4⟩
        have := List.length_filter_le (fun p : ByteArray × ByteArray => decide (p.1 ≠ f)) fs
        have := hv.len
        simp only [Spec.remove]; omega
    | str _ _ | set _ | list _ | zset _ =>
      simp only [hdel, wrong_find hR hk hne ht hnow hf tHash (by simp [dtOf, dt_ne])
        hnx]
      fin (R_same hR ht)

end

end XixiKV.Datatype
