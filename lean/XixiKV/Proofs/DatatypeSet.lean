import XixiKV.Proofs.DatatypeHash
/-! # Set commands -/
namespace XixiKV.Datatype
open XixiKV XixiKV.Varint XixiKV.Record Spec

theorem setKey_eq_iff {k : ByteArray} {ver : Nat} (hv : ver < 2 ^ 64) (m m' : ByteArray) :
    setKey k ver m' = setKey k ver m ↔ m' = m :=
  ⟨fun h => setKey_inj hv h, fun h => h ▸ rfl⟩

theorem has_cons_self (ms : List ByteArray) (m : ByteArray) : has (m :: ms) m = true := by
  rw [has_iff]; exact List.mem_cons_self

theorem has_cons_ne (ms : List ByteArray) {m m' : ByteArray} (h : m' ≠ m) : has (m :: ms) m' = has ms m' := by
  rw [Bool.eq_iff_iff, has_iff, has_iff, List.mem_cons]
  constructor
  · rintro (e | e)
    · exact absurd e h
    · exact e
  · exact Or.inr

theorem has_filter_self (ms : List ByteArray) (m : ByteArray) :
    has (ms.filter (fun x => decide (x ≠ m))) m = false := by
  rw [Bool.eq_false_iff]
  intro h
  rw [has_iff, List.mem_filter] at h
  simp at h

theorem has_filter_ne (ms : List ByteArray) {m m' : ByteArray} (h : m' ≠ m) :
    has (ms.filter (fun x => decide (x ≠ m))) m' = has ms m' := by
  rw [Bool.eq_iff_iff, has_iff, has_iff, List.mem_filter]
  simp [h]

theorem has_nil (m : ByteArray) : has [] m = false := rfl

structure SetView (kv : KV) (now : Nat) (k : ByteArray) (ms : List ByteArray) (ver : Nat) : Prop where
  ver_le : ver ≤ now
  find : findMetadata kv now k tSet = .ok (setMeta ver ms.length)
  len : ms.length < 2 ^ 32
  inv : SetInv kv k ver ms

section
variable {U M : List ByteArray} {t : Nat} {kv : KV} {sp : State}

theorem setView_none (hR : R U M t kv sp) {k : ByteArray} (hk : k ∈ U) (hne : k.size ≠ 0) {now : Nat}
    (ht : t ≤ now) (hnow : now < 2 ^ 62) (hl : sp.live now k = none) : SetView kv now k [] now := by
  have h64 : (2:Nat) ^ 62 < 2 ^ 64 := by decide
  refine ⟨Nat.le_refl _, ?_, by simp, ⟨List.nodup_nil, ?_⟩⟩
  · rw [find_absent hR hk hne hl tSet (by decide)]
    simp [freshMeta, setMeta, dt_ne]
  · intro m
    rw [setKey, hR.fresh k hk now ht (by omega)]
    rfl

theorem setView_some (hR : R U M t kv sp) {k : ByteArray} (hk : k ∈ U) (hne : k.size ≠ 0) {now : Nat}
    (ht : t ≤ now) (hnow : now < 2 ^ 62) {ms : List ByteArray} (hf : sp.find k = some (.set ms)) :
    ∃ ver, SetView kv now k ms ver := by
  have h63 : (2:Nat) ^ 62 < 2 ^ 63 := by decide
  have hobj := hR.obj k hk
  rw [hf] at hobj
  obtain ⟨ver, h1, h2, h3, h4⟩ := (show Stored M t kv k (.set ms) from hobj)
  refine ⟨ver, by omega, ?_, h2, h4⟩
  rw [findMetadata_meta tSet hne (setMeta_valid (by omega) h2) rfl h3]
  simp [setMeta]

end

theorem sadd_core_old {kv : KV} {now : Nat} {k : ByteArray} {ms : List ByteArray} {ver : Nat}
    (hv : SetView kv now k ms ver) (m : ByteArray) (hm : has ms m = true) :
    sadd kv now k m = (kv, .flag false) := by
  simp only [sadd, hv.find, setMeta, hv.inv.2, hm, ↓reduceIte]

theorem sadd_core_new {kv : KV} {now : Nat} {k : ByteArray} {ms : List ByteArray} {ver : Nat}
    (hv : SetView kv now k ms ver) (hnow : now < 2 ^ 62) (hfit : ms.length + 1 < 2 ^ 32) (m : ByteArray)
    (hm : has ms m = false) :
    (sadd kv now k m).2 = .flag true ∧
    (sadd kv now k m).1.get k = some (encodeMeta (setMeta ver (m :: ms).length)) ∧
    SetInv (sadd kv now k m).1 k ver (m :: ms) ∧
    (∀ x, x ≠ k → (∀ s, x ≠ ikey k ver s) → (sadd kv now k m).1.get x = kv.get x) := by
  have h64 : (2:Nat) ^ 62 < 2 ^ 64 := by decide
  have hver : ver < 2 ^ 64 := by have := hv.ver_le; omega
  have hkne : ∀ m', k ≠ setKey k ver m' := fun m' e => ikey_ne_self k ver _ e.symm
  have hrun : sadd kv now k m
      = ((kv.put k (encodeMeta (setMeta ver (ms.length + 1)))).put (setKey k ver m) ByteArray.empty, .flag true) := by
    simp only [sadd, hv.find, setMeta, hv.inv.2, hm, Bool.false_eq_true, ↓reduceIte,
      KV.batch_cons, KV.batch_nil, KV.apply_put, Nat.mod_eq_of_lt hfit]
  have hnm : m ∉ ms := fun h => by rw [← has_iff, hm] at h; exact Bool.false_ne_true h
  rw [hrun]
  refine ⟨rfl, ?_, ⟨List.nodup_cons.mpr ⟨hnm, hv.inv.1⟩, ?_⟩, ?_⟩
  · rw [KV.get_put, if_neg (hkne m), KV.get_put, if_pos rfl]; rfl
  · intro m'
    rw [KV.get_put, KV.get_put]
    simp only [setKey_eq_iff hver]
    by_cases hmm : m' = m
    · subst hmm; simp [has_cons_self]
    · rw [if_neg hmm, if_neg (fun e => hkne m' e.symm), hv.inv.2, has_cons_ne ms hmm]
  · intro x hx hxs
    rw [KV.get_put, if_neg (show x ≠ setKey k ver m from hxs _), KV.get_put, if_neg hx]

theorem sismember_core {kv : KV} {now : Nat} {k : ByteArray} {ms : List ByteArray} {ver : Nat}
    (hv : SetView kv now k ms ver) (m : ByteArray) :
    sismember kv now k m = (kv, .flag (has ms m)) := by
  cases ms with
  | nil => simp only [sismember, hv.find, setMeta, List.length_nil, ↓reduceIte, has_nil]
  | cons p r =>
    have : ¬ (p :: r).length = 0 := by simp
    simp only [sismember, hv.find, setMeta, this, ↓reduceIte, hv.inv.2]

theorem srem_core_miss {kv : KV} {now : Nat} {k : ByteArray} {ms : List ByteArray} {ver : Nat}
    (hv : SetView kv now k ms ver) (m : ByteArray) (hm : has ms m = false) :
    srem kv now k m = (kv, .flag false) := by
  by_cases h0 : ms.length = 0
  · simp only [srem, hv.find, setMeta, h0, ↓reduceIte]
  · simp only [srem, hv.find, setMeta, h0, ↓reduceIte, hv.inv.2, hm, Bool.false_eq_true]

theorem srem_core_hit {kv : KV} {now : Nat} {k : ByteArray} {ms : List ByteArray} {ver : Nat}
    (hv : SetView kv now k ms ver) (hnow : now < 2 ^ 62) (m : ByteArray) (hm : has ms m = true) :
    (srem kv now k m).2 = .flag true ∧
    (srem kv now k m).1.get k = some (encodeMeta (setMeta ver (ms.filter (fun x => decide (x ≠ m))).length)) ∧
    SetInv (srem kv now k m).1 k ver (ms.filter (fun x => decide (x ≠ m))) ∧
    (∀ x, x ≠ k → (∀ s, x ≠ ikey k ver s) → (srem kv now k m).1.get x = kv.get x) := by
  have h64 : (2:Nat) ^ 62 < 2 ^ 64 := by decide
  have hver : ver < 2 ^ 64 := by have := hv.ver_le; omega
  have hkne : ∀ m', k ≠ setKey k ver m' := fun m' e => ikey_ne_self k ver _ e.symm
  have hmem : m ∈ ms := (has_iff ms m).mp hm
  have hlen := length_filter_ne hv.inv.1 hmem
  have h0 : ¬ ms.length = 0 := by omega
  have hrun : srem kv now k m
      = ((kv.put k (encodeMeta (setMeta ver (ms.length - 1)))).delete (setKey k ver m), .flag true) := by
    simp only [srem, hv.find, setMeta, h0, ↓reduceIte, hv.inv.2, hm,
      KV.batch_cons, KV.batch_nil, KV.apply_put, KV.apply_del]
  rw [hrun]
  refine ⟨rfl, ?_, ⟨hv.inv.1.filter _, ?_⟩, ?_⟩
  · rw [KV.get_delete, if_neg (hkne m), KV.get_put, if_pos rfl]
    congr 3; omega
  · intro m'
    rw [KV.get_delete, KV.get_put]
    simp only [setKey_eq_iff hver]
    by_cases hmm : m' = m
    · subst hmm; rw [if_pos rfl, has_filter_self]; rfl
    · rw [if_neg hmm, if_neg (fun e => hkne m' e.symm), hv.inv.2, has_filter_ne ms hmm]
  · intro x hx hxs
    rw [KV.get_delete, if_neg (show x ≠ setKey k ver m from hxs _), KV.get_put, if_neg hx]

section
variable {U M : List ByteArray} {t : Nat} {kv : KV} {sp : State}

theorem set_close (hU : PrefixFree U) (hR : R U M t kv sp) {k : ByteArray} (hk : k ∈ U) {now : Nat}
    (ht : t ≤ now) (hnow : now < 2 ^ 62) {ver : Nat} (hver : ver ≤ now)
    {kv' : KV} {ms' : List ByteArray} (hlen : ms'.length < 2 ^ 32)
    (hget : kv'.get k = some (encodeMeta (setMeta ver ms'.length))) (hinv : SetInv kv' k ver ms')
    (hframe : ∀ x, x ≠ k → (∀ s, x ≠ ikey k ver s) → kv'.get x = kv.get x) :
    R U M (now + 1) kv' (sp.store k (.set ms')) := by
  apply R_step hU hR hk ht hnow hver hframe
  · intro x hx; rw [find_store, if_neg hx]
  · rw [find_store, if_pos rfl]
    exact ⟨ver, by omega, hlen, hget, hinv⟩

theorem refines_sadd (hU : PrefixFree U) (hR : R U M t kv sp) {k : ByteArray} (hk : k ∈ U) (hne : k.size ≠ 0)
    (m : ByteArray) {now : Nat} (ht : t ≤ now) (hnow : now < 2 ^ 62)
    (hok : StepOK sp (.sadd k m) now = true) : Refines U M kv sp (.sadd k m) now := by
  unfold Refines
  rw [step_of_ne (.sadd k m) _ _ hne]
  simp only [run, Spec.stepNE]
  cases hl : sp.live now k with
  | none =>
    have hv := setView_none hR hk hne ht hnow hl
    obtain ⟨h1, h2, h3, h4⟩ := sadd_core_new hv hnow (by simp) m rfl
    exact ⟨h1, set_close hU hR hk ht hnow hv.ver_le (by simp) h2 h3 h4⟩
  | some o =>
    obtain ⟨hf, hnx⟩ := live_some hl
    cases o with
    | set ms =>
      obtain ⟨ver, hv⟩ := setView_some hR hk hne ht hnow hf
      have hfit : ms.length + 1 < 2 ^ 32 := stepOK_card hok hf
      simp only
      cases hm : has ms m with
      | true =>
        rw [sadd_core_old hv m hm]
        simp only [↓reduceIte]
        fin (R_same hR ht)
      | false =>
        obtain ⟨h1, h2, h3, h4⟩ := sadd_core_new hv hnow hfit m hm
        simp only [Bool.false_eq_true, ↓reduceIte]
        exact ⟨h1, set_close hU hR hk ht hnow hv.ver_le (by simpa using hfit) h2 h3 h4⟩
    | str _ _ | hash _ | list _ | zset _ =>
      simp only [sadd, wrong_find hR hk hne ht hnow hf tSet (by simp [dtOf, dt_ne])
        hnx]
      fin (R_same hR ht)

theorem refines_sismember (hR : R U M t kv sp) {k : ByteArray} (hk : k ∈ U) (hne : k.size ≠ 0)
    (m : ByteArray) {now : Nat} (ht : t ≤ now) (hnow : now < 2 ^ 62)
    : Refines U M kv sp (.sismember k m) now := by
  unfold Refines
  rw [step_of_ne (.sismember k m) _ _ hne]
  simp only [run, Spec.stepNE]
  cases hl : sp.live now k with
  | none =>
    rw [sismember_core (setView_none hR hk hne ht hnow hl) m]
    fin (R_same hR ht)
  | some o =>
    obtain ⟨hf, hnx⟩ := live_some hl
    cases o with
    | set ms =>
      obtain ⟨ver, hv⟩ := setView_some hR hk hne ht hnow hf
      rw [sismember_core hv m]
      fin (R_same hR ht)
    | str _ _ | hash _ | list _ | zset _ =>
      simp only [sismember, wrong_find hR hk hne ht hnow hf tSet (by simp [dtOf, dt_ne])
        hnx]
      fin (R_same hR ht)

theorem refines_srem (hU : PrefixFree U) (hR : R U M t kv sp) {k : ByteArray} (hk : k ∈ U) (hne : k.size ≠ 0)
    (m : ByteArray) {now : Nat} (ht : t ≤ now) (hnow : now < 2 ^ 62)
    : Refines U M kv sp (.srem k m) now := by
  unfold Refines
  rw [step_of_ne (.srem k m) _ _ hne]
  simp only [run, Spec.stepNE]
  cases hl : sp.live now k with
  | none =>
    rw [srem_core_miss (setView_none hR hk hne ht hnow hl) m rfl]
    fin (R_same hR ht)
  | some o =>
    obtain ⟨hf, hnx⟩ := live_some hl
    cases o with
    | set ms =>
      obtain ⟨ver, hv⟩ := setView_some hR hk hne ht hnow hf
      simp only
      cases hm : has ms m with
      | false =>
        rw [srem_core_miss hv m hm]
        simp only [Bool.false_eq_true, ↓reduceIte]
        fin (R_same hR ht)
      | true =>
        obtain ⟨h1, h2, h3, h4⟩ := srem_core_hit hv hnow m hm
        simp only [↓reduceIte]
        refine ⟨h1, set_close hU hR hk ht hnow hv.ver_le ?_ h2 h3 h4⟩
        have := List.length_filter_le (fun x : ByteArray => decide (x ≠ m)) ms
        have := hv.len
        omega
    | str _ _ | hash _ | list _ | zset _ =>
      simp only [srem, wrong_find hR hk hne ht hnow hf tSet (by simp [dtOf, dt_ne])
        hnx]
      fin (R_same hR ht)

end

end XixiKV.Datatype
