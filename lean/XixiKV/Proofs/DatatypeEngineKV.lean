import XixiKV.Model.DatatypeOn
import XixiKV.Proofs.Datatype
/-!
# The generic commands of `Model/DatatypeOn.lean`, instantiated with the abstract store `KV`, ARE the
# commands of `Model/Datatype.lean`

`run_kvStore : On.run kvStore c kv now = Datatype.run c kv now` — unconditionally.
-/
namespace XixiKV.Datatype.On
open XixiKV
open XixiKV.Engine (Res)

theorem kvRes_empty (kv : KV) {k : ByteArray} (h : k.size = 0) : kvRes kv k = .err "keyempty" := by
  simp only [kvRes, h, ↓reduceIte]

theorem kvRes_ne (kv : KV) {k : ByteArray} (h : k.size ≠ 0) : kvRes kv k = optRes (kv.get k) := by
  simp only [kvRes, h, ↓reduceIte]

theorem kvStore_get (kv : KV) : kvStore.get kv = kvRes kv := rfl
theorem kvStore_put (kv : KV) (k v : ByteArray) :
    kvStore.put kv k v = if k.size = 0 then (kv, .err "keyempty") else (kv.put k v, .ok) := rfl
theorem kvStore_delete (kv : KV) (k : ByteArray) :
    kvStore.delete kv k = if k.size = 0 then (kv, .err "keyempty") else (kv.delete k, .ok) := rfl
theorem kvStore_batch (kv : KV) (ops : List KV.Op) :
    kvStore.batch kv ops = (kv.batch (ops.filter KVOp.keyed), .ok) := rfl

theorem kvRes_some (kv : KV) {k v : ByteArray} (h : k.size ≠ 0) (hg : kv.get k = some v) : kvRes kv k = .val v := by
  rw [kvRes_ne kv h, hg]; rfl

theorem kvRes_none (kv : KV) {k : ByteArray} (h : k.size ≠ 0) (hg : kv.get k = none) : kvRes kv k = .notFound := by
  rw [kvRes_ne kv h, hg]; rfl

theorem isNotFound_kvRes (kv : KV) {k : ByteArray} (h : k.size ≠ 0) :
    isNotFound (kvRes kv k) = !(kv.get k).isSome := by
  rw [kvRes_ne kv h]
  cases kv.get k <;> rfl

theorem errReply_keyempty : errReply (.err "keyempty") = .keyEmpty := by decide

theorem ikey_size_ne (k : ByteArray) (v : Nat) (s : ByteArray) : (ikey k v s).size ≠ 0 := by
  rw [ikey_size]; omega

theorem hashKey_size_ne (k : ByteArray) (v : Nat) (f : ByteArray) : (hashKey k v f).size ≠ 0 := ikey_size_ne _ _ _
theorem setKey_size_ne (k : ByteArray) (v : Nat) (m : ByteArray) : (setKey k v m).size ≠ 0 := ikey_size_ne _ _ _
theorem listKey_size_ne (k : ByteArray) (v i : Nat) : (listKey k v i).size ≠ 0 := ikey_size_ne _ _ _
theorem zmemKey_size_ne (k : ByteArray) (v : Nat) (m : ByteArray) : (zmemKey k v m).size ≠ 0 := ikey_size_ne _ _ _
theorem zscoreKey_size_ne (k : ByteArray) (v : Nat) (sc : Score) (m : ByteArray) : (zscoreKey k v sc m).size ≠ 0 :=
  ikey_size_ne _ _ _

/-- internal keys are never empty -/
macro "ksz" : tactic => `(tactic| first
  | exact hashKey_size_ne _ _ _ | exact setKey_size_ne _ _ _ | exact listKey_size_ne _ _ _
  | exact zmemKey_size_ne _ _ _ | exact zscoreKey_size_ne _ _ _ _ | exact ikey_size_ne _ _ _)

theorem findMetadata_eq (kv : KV) (now : Nat) (key : ByteArray) (dt : UInt8) :
    Datatype.findMetadata kv now key dt =
      if key.size = 0 then .error .keyEmpty else
      match kv.get key with
      | none => .ok (freshMeta dt now)
      | some buf => metaOfRecord buf now dt := by
  unfold Datatype.findMetadata metaOfRecord
  rfl

theorem findMetadata_kv (kv : KV) (now : Nat) (key : ByteArray) (dt : UInt8) :
    findMetadata kvStore kv now key dt = Datatype.findMetadata kv now key dt := by
  rw [findMetadata_eq]
  unfold findMetadata
  rw [kvStore_get]
  by_cases h : key.size = 0
  · rw [kvRes_empty kv h, if_pos h]
    show Except.error (errReply (.err "keyempty")) = _
    rw [errReply_keyempty]
  · rw [kvRes_ne kv h, if_neg h]
    cases kv.get key <;> rfl

theorem findMetadata_ok_key {kv : KV} {now : Nat} {key : ByteArray} {dt : UInt8} {m : Meta}
    (h : Datatype.findMetadata kv now key dt = .ok m) : key.size ≠ 0 := by
  intro h0
  rw [findMetadata_eq, if_pos h0] at h
  cases h

theorem commit_kv (kv : KV) (ops : List KV.Op) (r : Reply) (h : ∀ op ∈ ops, KVOp.keyed op = true) :
    commit kvStore kv ops r = (kv.batch ops, r) := by
  unfold commit
  rw [kvStore_batch, List.filter_eq_self.mpr h]

theorem putReply_kv (kv : KV) (k v : ByteArray) (r : Reply) (h : k.size ≠ 0) :
    putReply kvStore kv k v r = (kv.put k v, r) := by
  unfold putReply
  rw [kvStore_put, if_neg h]

theorem putReply_kv_empty (kv : KV) (k v : ByteArray) (r : Reply) (h : k.size = 0) :
    putReply kvStore kv k v r = (kv, .keyEmpty) := by
  unfold putReply
  rw [kvStore_put, if_pos h]
  show (kv, errReply (.err "keyempty")) = _
  rw [errReply_keyempty]

theorem keyed_put {k : ByteArray} (v : ByteArray) (h : k.size ≠ 0) : KVOp.keyed (.put k v) = true := by
  simp [KVOp.keyed, h]

theorem keyed_del {k : ByteArray} (h : k.size ≠ 0) : KVOp.keyed (.del k) = true := by
  simp [KVOp.keyed, h]

theorem set_kv (kv : KV) (now : Nat) (key : ByteArray) (value : Option ByteArray) (ttl : Nat) :
    set kvStore kv now key value ttl = Datatype.set kv now key value ttl := by
  unfold set Datatype.set
  cases value with
  | none => rfl
  | some v =>
    by_cases h : key.size = 0
    · simp only [h, ↓reduceIte]
      exact putReply_kv_empty kv key _ _ h
    · simp only [h, ↓reduceIte]
      exact putReply_kv kv key _ _ h

theorem get_some_eq (kv : KV) (enc : ByteArray) (now : Nat) :
    (match enc.data.toList with
      | [] => (kv, Reply.panic)
      | t :: r =>
        if t ≠ tString then (kv, Reply.wrongType) else
        match Varint.uvarint r with
        | none => (kv, Reply.panic)
        | some (ux, n) =>
          if ux % 2 = 0 ∧ ux / 2 > 0 ∧ ux / 2 ≤ now then (kv, Reply.nil)
          else (kv, Reply.bytes (enc.extract (1 + n) enc.size))) = (kv, strReply enc now) := by
  unfold strReply
  generalize enc.data.toList = l
  cases l with
  | nil => rfl
  | cons t r =>
    simp only
    split
    · rfl
    · cases Varint.uvarint r with
      | none => rfl
      | some p =>
        obtain ⟨ux, n⟩ := p
        simp only
        split <;> rfl

theorem get_kv (kv : KV) (now : Nat) (key : ByteArray) : get kvStore kv now key = Datatype.get kv now key := by
  unfold get Datatype.get
  rw [kvStore_get]
  by_cases h : key.size = 0
  · rw [kvRes_empty kv h, if_pos h]
    show (kv, errReply (.err "keyempty")) = _
    rw [errReply_keyempty]
  · rw [kvRes_ne kv h, if_neg h]
    cases kv.get key with
    | none => rfl
    | some enc => exact (get_some_eq kv enc now).symm

theorem del_kv (kv : KV) (key : ByteArray) : del kvStore kv key = Datatype.del kv key := by
  unfold del Datatype.del
  rw [kvStore_delete]
  by_cases h : key.size = 0
  · rw [if_pos h, if_pos h]
    show (kv, errReply (.err "keyempty")) = _
    rw [errReply_keyempty]
  · rw [if_neg h, if_neg h]

theorem type_some_eq (kv : KV) (enc : ByteArray) (now : Nat) :
    (match enc.data.toList with
      | [] => (kv, Reply.otherErr)
      | t :: r => if recExpired r now then (kv, Reply.notFound) else (kv, Reply.size t.toNat))
      = (kv, typeReply enc now) := by
  unfold typeReply
  generalize enc.data.toList = l
  cases l with
  | nil => rfl
  | cons t r =>
    simp only
    split <;> rfl

theorem type_kv (kv : KV) (now : Nat) (key : ByteArray) : type kvStore kv now key = Datatype.type kv now key := by
  unfold type Datatype.type
  rw [kvStore_get]
  by_cases h : key.size = 0
  · rw [kvRes_empty kv h, if_pos h]
    show (kv, errReply (.err "keyempty")) = _
    rw [errReply_keyempty]
  · rw [kvRes_ne kv h, if_neg h]
    cases kv.get key with
    | none => rfl
    | some enc => exact (type_some_eq kv enc now).symm

theorem hset_kv (kv : KV) (now : Nat) (key field value : ByteArray) :
    hset kvStore kv now key field value = Datatype.hset kv now key field value := by
  unfold hset Datatype.hset
  rw [findMetadata_kv]
  cases hm : Datatype.findMetadata kv now key tHash with
  | error e => rfl
  | ok m =>
    have hk := findMetadata_ok_key hm
    simp only
    show commit kvStore kv _ _ = _
    rw [kvStore_get, isNotFound_kvRes kv (by ksz), Bool.not_not]
    rw [commit_kv]
    intro op hop
    cases hs : (kv.get (hashKey key m.version field)).isSome <;> simp only [hs] at hop
    · simp only [Bool.false_eq_true, ↓reduceIte, List.cons_append, List.nil_append, List.mem_cons,
        List.not_mem_nil, or_false] at hop
      rcases hop with rfl | rfl
      · exact keyed_put _ hk
      · exact keyed_put _ (by ksz)
    · simp only [↓reduceIte, List.nil_append, List.mem_cons, List.not_mem_nil, or_false] at hop
      subst hop
      exact keyed_put _ (by ksz)

theorem hget_kv (kv : KV) (now : Nat) (key field : ByteArray) :
    hget kvStore kv now key field = Datatype.hget kv now key field := by
  unfold hget Datatype.hget
  rw [findMetadata_kv]
  cases hm : Datatype.findMetadata kv now key tHash with
  | error e => rfl
  | ok m =>
    simp only
    split
    · rfl
    · rw [kvStore_get, kvRes_ne kv (by ksz)]
      cases kv.get (hashKey key m.version field) <;> rfl

theorem hdel_kv (kv : KV) (now : Nat) (key field : ByteArray) :
    hdel kvStore kv now key field = Datatype.hdel kv now key field := by
  unfold hdel Datatype.hdel
  rw [findMetadata_kv]
  cases hm : Datatype.findMetadata kv now key tHash with
  | error e => rfl
  | ok m =>
    have hk := findMetadata_ok_key hm
    simp only
    split
    · rfl
    · rw [kvStore_get, isNotFound_kvRes kv (by ksz), Bool.not_not]
      split
      · rw [commit_kv]
        intro op hop
        simp only [List.mem_cons, List.not_mem_nil, or_false] at hop
        rcases hop with rfl | rfl
        · exact keyed_put _ hk
        · exact keyed_del (by ksz)
      · rfl

theorem sadd_kv (kv : KV) (now : Nat) (key member : ByteArray) :
    sadd kvStore kv now key member = Datatype.sadd kv now key member := by
  unfold sadd Datatype.sadd
  rw [findMetadata_kv]
  cases hm : Datatype.findMetadata kv now key tSet with
  | error e => rfl
  | ok m =>
    have hk := findMetadata_ok_key hm
    simp only
    rw [kvStore_get, isNotFound_kvRes kv (by ksz)]
    cases hs : (kv.get (setKey key m.version member)).isSome
    · simp only [Bool.not_false, ↓reduceIte, Bool.false_eq_true]
      rw [commit_kv]
      intro op hop
      simp only [List.mem_cons, List.not_mem_nil, or_false] at hop
      rcases hop with rfl | rfl
      · exact keyed_put _ hk
      · exact keyed_put _ (by ksz)
    · simp only [Bool.not_true, Bool.false_eq_true, ↓reduceIte]

theorem sismember_kv (kv : KV) (now : Nat) (key member : ByteArray) :
    sismember kvStore kv now key member = Datatype.sismember kv now key member := by
  unfold sismember Datatype.sismember
  rw [findMetadata_kv]
  cases hm : Datatype.findMetadata kv now key tSet with
  | error e => rfl
  | ok m =>
    simp only
    split
    · rfl
    · rw [kvStore_get, kvRes_ne kv (by ksz)]
      cases kv.get (setKey key m.version member) <;> rfl

theorem srem_kv (kv : KV) (now : Nat) (key member : ByteArray) :
    srem kvStore kv now key member = Datatype.srem kv now key member := by
  unfold srem Datatype.srem
  rw [findMetadata_kv]
  cases hm : Datatype.findMetadata kv now key tSet with
  | error e => rfl
  | ok m =>
    have hk := findMetadata_ok_key hm
    simp only
    split
    · rfl
    · rw [kvStore_get, isNotFound_kvRes kv (by ksz)]
      cases hs : (kv.get (setKey key m.version member)).isSome
      · simp only [Bool.not_false, ↓reduceIte, Bool.false_eq_true]
      · simp only [Bool.not_true, Bool.false_eq_true, ↓reduceIte]
        rw [commit_kv]
        intro op hop
        simp only [List.mem_cons, List.not_mem_nil, or_false] at hop
        rcases hop with rfl | rfl
        · exact keyed_put _ hk
        · exact keyed_del (by ksz)

theorem push_kv (kv : KV) (now : Nat) (key elem : ByteArray) (isLeft : Bool) :
    push kvStore kv now key elem isLeft = Datatype.push kv now key elem isLeft := by
  unfold push Datatype.push
  rw [findMetadata_kv]
  cases hm : Datatype.findMetadata kv now key tList with
  | error e => rfl
  | ok m =>
    have hk := findMetadata_ok_key hm
    simp only
    rw [commit_kv]
    intro op hop
    simp only [List.mem_cons, List.not_mem_nil, or_false] at hop
    rcases hop with rfl | rfl
    · exact keyed_put _ hk
    · exact keyed_put _ (by ksz)

theorem pop_kv (kv : KV) (now : Nat) (key : ByteArray) (isLeft : Bool) :
    pop kvStore kv now key isLeft = Datatype.pop kv now key isLeft := by
  unfold pop Datatype.pop
  rw [findMetadata_kv]
  cases hm : Datatype.findMetadata kv now key tList with
  | error e => rfl
  | ok m =>
    have hk := findMetadata_ok_key hm
    simp only
    split
    · rfl
    · rw [kvStore_get, kvRes_ne kv (by ksz)]
      cases kv.get (listKey key m.version (if isLeft = true then m.head else (m.tail + (2 ^ 64 - 1)) % 2 ^ 64)) with
      | none => rfl
      | some e => exact putReply_kv kv key _ _ hk

theorem zadd_kv (kv : KV) (now : Nat) (key : ByteArray) (score : Score) (member : ByteArray) :
    zadd kvStore kv now key score member = Datatype.zadd kv now key score member := by
  unfold zadd Datatype.zadd
  rw [findMetadata_kv]
  cases hm : Datatype.findMetadata kv now key tZSet with
  | error e => rfl
  | ok m =>
    have hk := findMetadata_ok_key hm
    simp only
    rw [kvStore_get, kvRes_ne kv (by ksz)]
    cases kv.get (zmemKey key m.version member) with
    | none =>
      simp only [optRes]
      rw [commit_kv]
      intro op hop
      simp only [List.mem_cons, List.not_mem_nil, or_false] at hop
      rcases hop with rfl | rfl | rfl
      · exact keyed_put _ hk
      · exact keyed_put _ (by ksz)
      · exact keyed_put _ (by ksz)
    | some value =>
      simp only [optRes]
      split
      · rfl
      · rw [commit_kv]
        intro op hop
        simp only [List.mem_cons, List.not_mem_nil, or_false] at hop
        rcases hop with rfl | rfl | rfl
        · exact keyed_del (by ksz)
        · exact keyed_put _ (by ksz)
        · exact keyed_put _ (by ksz)

theorem zscore_kv (kv : KV) (now : Nat) (key member : ByteArray) :
    zscore kvStore kv now key member = Datatype.zscore kv now key member := by
  unfold zscore Datatype.zscore
  rw [findMetadata_kv]
  cases hm : Datatype.findMetadata kv now key tZSet with
  | error e => rfl
  | ok m =>
    simp only
    split
    · rfl
    · rw [kvStore_get, kvRes_ne kv (by ksz)]
      cases kv.get (zmemKey key m.version member) <;> rfl

/-- **instantiated with the abstract store, the generic commands are those of `Model/Datatype.lean`** -/
theorem run_kvStore (c : Cmd) (kv : KV) (now : Nat) : run kvStore c kv now = Datatype.run c kv now := by
  cases c with
  | set k v ttl => exact set_kv kv now k v ttl
  | get k => exact get_kv kv now k
  | del k => exact del_kv kv k
  | type k => exact type_kv kv now k
  | hset k f v => exact hset_kv kv now k f v
  | hget k f => exact hget_kv kv now k f
  | hdel k f => exact hdel_kv kv now k f
  | sadd k m => exact sadd_kv kv now k m
  | sismember k m => exact sismember_kv kv now k m
  | srem k m => exact srem_kv kv now k m
  | lpush k e => exact push_kv kv now k e true
  | rpush k e => exact push_kv kv now k e false
  | lpop k => exact pop_kv kv now k true
  | rpop k => exact pop_kv kv now k false
  | zadd k s m => exact zadd_kv kv now k s m
  | zscore k m => exact zscore_kv kv now k m

end XixiKV.Datatype.On
