import XixiKV.Model.Index
/-!
# Laws of the sorted association-list index

Order facts about the byte-lexicographic comparison `keyLt` (strict total order on `ByteArray`)
and the finite-map laws of `Index.get / put / erase` (`get_put`, `get_erase`), preservation of
sortedness, and the length / membership laws used for `Stat.KeyNum` and `ListKeys`.
-/
namespace XixiKV.Index
open XixiKV.Frame

/-! ## the order -/

theorem ltList_irrefl (a : List UInt8) : ltList a a = false := by
  induction a with
  | nil => rfl
  | cons x xs ih =>
    simp only [ltList]
    rw [if_neg (UInt8.lt_irrefl x), if_neg (UInt8.lt_irrefl x)]
    exact ih

theorem ltList_trans : ∀ (a b c : List UInt8), ltList a b = true → ltList b c = true → ltList a c = true := by
  intro a
  induction a with
  | nil =>
    intro b c h1 h2
    cases b with
    | nil => simp [ltList] at h1
    | cons y ys =>
      cases c with
      | nil => simp [ltList] at h2
      | cons z zs => simp [ltList]
  | cons x xs ih =>
    intro b c h1 h2
    cases b with
    | nil => simp [ltList] at h1
    | cons y ys =>
      cases c with
      | nil => simp [ltList] at h2
      | cons z zs =>
        simp only [ltList] at h1 h2 ⊢
        by_cases hxy : x < y
        · by_cases hyz : y < z
          · rw [if_pos (UInt8.lt_trans hxy hyz)]
          · rw [if_neg hyz] at h2
            by_cases hzy : z < y
            · rw [if_pos hzy] at h2; exact absurd h2 (by simp)
            · have : y = z := UInt8.le_antisymm (UInt8.not_lt.mp hzy) (UInt8.not_lt.mp hyz)
              subst this
              rw [if_pos hxy]
        · rw [if_neg hxy] at h1
          by_cases hyx : y < x
          · rw [if_pos hyx] at h1; exact absurd h1 (by simp)
          · rw [if_neg hyx] at h1
            have : x = y := UInt8.le_antisymm (UInt8.not_lt.mp hyx) (UInt8.not_lt.mp hxy)
            subst this
            by_cases hxz : x < z
            · rw [if_pos hxz]
            · rw [if_neg hxz] at h2 ⊢
              by_cases hzx : z < x
              · rw [if_pos hzx] at h2; exact absurd h2 (by simp)
              · rw [if_neg hzx] at h2 ⊢
                exact ih ys zs h1 h2

theorem ltList_total : ∀ (a b : List UInt8), ltList a b = false → ltList b a = false → a = b := by
  intro a
  induction a with
  | nil =>
    intro b h1 _
    cases b with
    | nil => rfl
    | cons y ys => simp [ltList] at h1
  | cons x xs ih =>
    intro b h1 h2
    cases b with
    | nil => simp [ltList] at h2
    | cons y ys =>
      simp only [ltList] at h1 h2
      by_cases hxy : x < y
      · rw [if_pos hxy] at h1; exact absurd h1 (by simp)
      · rw [if_neg hxy] at h1 h2
        by_cases hyx : y < x
        · rw [if_pos hyx] at h2; exact absurd h2 (by simp)
        · rw [if_neg hyx] at h1 h2
          have : x = y := UInt8.le_antisymm (UInt8.not_lt.mp hyx) (UInt8.not_lt.mp hxy)
          subst this
          rw [ih ys h1 h2]

theorem keyLt_irrefl (a : Key) : keyLt a a = false := ltList_irrefl _

theorem keyLt_trans {a b c : Key} (h1 : keyLt a b = true) (h2 : keyLt b c = true) : keyLt a c = true :=
  ltList_trans _ _ _ h1 h2

theorem keyLt_asymm {a b : Key} (h : keyLt a b = true) : keyLt b a = false := by
  cases hb : keyLt b a with
  | false => rfl
  | true =>
    have := keyLt_trans h hb
    rw [keyLt_irrefl] at this
    exact absurd this (by simp)

theorem keyLt_ne {a b : Key} (h : keyLt a b = true) : a ≠ b := by
  intro e; subst e; rw [keyLt_irrefl] at h; exact absurd h (by simp)

/-- trichotomy: keys that are not ordered either way are equal -/
theorem keyLt_total {a b : Key} (h1 : keyLt a b = false) (h2 : keyLt b a = false) : a = b := by
  have := ltList_total _ _ h1 h2
  apply ByteArray.ext
  exact Array.toList_inj.mp this

theorem keyLt_of_not {a b : Key} (hne : a ≠ b) (h : keyLt b a = false) : keyLt a b = true := by
  cases hab : keyLt a b with
  | true => rfl
  | false => exact absurd (keyLt_total hab h) hne

/-! ## sortedness -/

/-- keys strictly ascending (hence distinct) -/
def Sorted (ix : Index) : Prop := List.Pairwise (fun (a b : Key × Pos) => keyLt a.1 b.1 = true) ix

theorem Sorted.tail {x : Key × Pos} {ix : Index} (h : Sorted (x :: ix)) : Sorted ix :=
  (List.pairwise_cons.mp h).2

theorem Sorted.head {x : Key × Pos} {ix : Index} (h : Sorted (x :: ix)) :
    ∀ y ∈ ix, keyLt x.1 y.1 = true := (List.pairwise_cons.mp h).1

/-! ## get / put / erase -/

theorem get_eq_some_mem {ix : Index} {k : Key} {p : Pos} (h : get ix k = some p) : (k, p) ∈ ix := by
  induction ix with
  | nil => simp [get] at h
  | cons x rest ih =>
    obtain ⟨k', p'⟩ := x
    simp only [get] at h
    by_cases e : k' = k
    · rw [if_pos e] at h
      cases h; subst e; simp
    · rw [if_neg e] at h
      exact List.mem_cons_of_mem _ (ih h)

theorem get_eq_none_of_head_lt {ix : Index} {k : Key} (h : ∀ y ∈ ix, keyLt k y.1 = true) : get ix k = none := by
  induction ix with
  | nil => rfl
  | cons x rest ih =>
    obtain ⟨k', p'⟩ := x
    simp only [get]
    have h1 := h (k', p') (by simp)
    rw [if_neg (fun e => keyLt_ne h1 e.symm)]
    exact ih (fun y hy => h y (List.mem_cons_of_mem _ hy))

theorem mem_get_of_sorted {ix : Index} (hs : Sorted ix) {k : Key} {p : Pos} (h : (k, p) ∈ ix) :
    get ix k = some p := by
  induction ix with
  | nil => simp at h
  | cons x rest ih =>
    obtain ⟨k', p'⟩ := x
    simp only [get]
    rcases List.mem_cons.mp h with e | hm
    · cases e; rw [if_pos rfl]
    · have := hs.head (k, p) hm
      rw [if_neg (keyLt_ne this)]
      exact ih hs.tail hm

theorem get_isSome_iff_mem_keys {ix : Index} {k : Key} : (get ix k).isSome ↔ k ∈ keys ix := by
  induction ix with
  | nil => simp [get, keys]
  | cons x rest ih =>
    obtain ⟨k', p'⟩ := x
    simp only [get, keys, List.map_cons, List.mem_cons]
    by_cases e : k' = k
    · rw [if_pos e]; simp [e]
    · rw [if_neg e]
      simp only [keys] at ih
      rw [ih]
      constructor
      · intro h; exact Or.inr h
      · intro h; rcases h with h | h
        · exact absurd h.symm e
        · exact h

/-- finite-map law for `put` (holds for any list) -/
theorem get_put (ix : Index) (k : Key) (p : Pos) (k' : Key) :
    get (put ix k p) k' = if k' = k then some p else get ix k' := by
  induction ix with
  | nil =>
    simp only [put, get]
    by_cases e : k = k'
    · rw [if_pos e, if_pos e.symm]
    · rw [if_neg e, if_neg (fun h => e h.symm)]
  | cons x rest ih =>
    obtain ⟨k1, p1⟩ := x
    simp only [put]
    by_cases e1 : k1 = k
    · rw [if_pos e1]
      simp only [get]
      subst e1
      by_cases e : k1 = k'
      · rw [if_pos e, if_pos e.symm]
      · rw [if_neg e, if_neg (fun h => e h.symm), if_neg e]
    · rw [if_neg e1]
      by_cases hlt : keyLt k k1 = true
      · rw [if_pos hlt]
        by_cases e : k = k'
        · subst e; simp [get]
        · rw [if_neg (fun h => e h.symm)]
          simp only [get]
          rw [if_neg e]
      · rw [if_neg hlt]
        simp only [get]
        by_cases e : k1 = k'
        · rw [if_pos e, if_pos e]
          rw [if_neg (fun h => e1 (e.trans h))]
        · rw [if_neg e, if_neg e]
          exact ih

theorem mem_put {ix : Index} {k : Key} {p : Pos} {x : Key × Pos} (h : x ∈ put ix k p) : x = (k, p) ∨ x ∈ ix := by
  induction ix with
  | nil => simp only [put, List.mem_singleton] at h; exact Or.inl h
  | cons y rest ih =>
    obtain ⟨k1, p1⟩ := y
    simp only [put] at h
    by_cases e1 : k1 = k
    · rw [if_pos e1] at h
      rcases List.mem_cons.mp h with h | h
      · exact Or.inl h
      · exact Or.inr (List.mem_cons_of_mem _ h)
    · rw [if_neg e1] at h
      by_cases hlt : keyLt k k1 = true
      · rw [if_pos hlt] at h
        rcases List.mem_cons.mp h with h | h
        · exact Or.inl h
        · exact Or.inr h
      · rw [if_neg hlt] at h
        rcases List.mem_cons.mp h with h | h
        · exact Or.inr (by rw [h]; simp)
        · rcases ih h with h | h
          · exact Or.inl h
          · exact Or.inr (List.mem_cons_of_mem _ h)

theorem mem_erase {ix : Index} {k : Key} {x : Key × Pos} (h : x ∈ erase ix k) : x ∈ ix := by
  induction ix with
  | nil => simp [erase] at h
  | cons y rest ih =>
    obtain ⟨k1, p1⟩ := y
    simp only [erase] at h
    by_cases e1 : k1 = k
    · rw [if_pos e1] at h; exact List.mem_cons_of_mem _ h
    · rw [if_neg e1] at h
      rcases List.mem_cons.mp h with h | h
      · rw [h]; simp
      · exact List.mem_cons_of_mem _ (ih h)

theorem sorted_put {ix : Index} (hs : Sorted ix) (k : Key) (p : Pos) : Sorted (put ix k p) := by
  induction ix with
  | nil => simp [put, Sorted]
  | cons y rest ih =>
    obtain ⟨k1, p1⟩ := y
    simp only [put]
    by_cases e1 : k1 = k
    · rw [if_pos e1]
      subst e1
      exact List.pairwise_cons.mpr ⟨fun y hy => hs.head y hy, hs.tail⟩
    · rw [if_neg e1]
      by_cases hlt : keyLt k k1 = true
      · rw [if_pos hlt]
        refine List.pairwise_cons.mpr ⟨?_, hs⟩
        intro y hy
        rcases List.mem_cons.mp hy with h | h
        · rw [h]; exact hlt
        · exact keyLt_trans hlt (hs.head y h)
      · rw [if_neg hlt]
        refine List.pairwise_cons.mpr ⟨?_, ih hs.tail⟩
        intro y hy
        rcases mem_put hy with h | h
        · rw [h]
          exact keyLt_of_not e1 (by simpa using hlt)
        · exact hs.head y h

theorem sorted_erase {ix : Index} (hs : Sorted ix) (k : Key) : Sorted (erase ix k) := by
  induction ix with
  | nil => simp [erase, Sorted]
  | cons y rest ih =>
    obtain ⟨k1, p1⟩ := y
    simp only [erase]
    by_cases e1 : k1 = k
    · rw [if_pos e1]; exact hs.tail
    · rw [if_neg e1]
      exact List.pairwise_cons.mpr ⟨fun y hy => hs.head y (mem_erase hy), ih hs.tail⟩

/-- finite-map law for `erase` (needs distinct keys) -/
theorem get_erase {ix : Index} (hs : Sorted ix) (k k' : Key) :
    get (erase ix k) k' = if k' = k then none else get ix k' := by
  induction ix with
  | nil => simp [erase, get]
  | cons y rest ih =>
    obtain ⟨k1, p1⟩ := y
    simp only [erase]
    by_cases e1 : k1 = k
    · rw [if_pos e1]
      subst e1
      simp only [get]
      by_cases e : k' = k1
      · rw [if_pos e]; subst e
        exact get_eq_none_of_head_lt (fun y hy => hs.head y hy)
      · rw [if_neg e, if_neg (fun h => e h.symm)]
    · rw [if_neg e1]
      simp only [get]
      by_cases e : k1 = k'
      · rw [if_pos e, if_pos e, if_neg (fun h => e1 (e.trans h))]
      · rw [if_neg e, if_neg e]
        exact ih hs.tail

theorem length_put {ix : Index} (hs : Sorted ix) (k : Key) (p : Pos) :
    (put ix k p).length = if (get ix k).isSome then ix.length else ix.length + 1 := by
  induction ix with
  | nil => simp [put, get]
  | cons y rest ih =>
    obtain ⟨k1, p1⟩ := y
    simp only [put, get]
    by_cases e1 : k1 = k
    · simp only [if_pos e1]; simp
    · simp only [if_neg e1]
      by_cases hlt : keyLt k k1 = true
      · rw [if_pos hlt]
        have hnone : get rest k = none :=
          get_eq_none_of_head_lt (fun y hy => keyLt_trans hlt (hs.head y hy))
        rw [hnone]; simp
      · rw [if_neg hlt]
        simp only [List.length_cons, ih hs.tail]
        split <;> rfl

theorem length_erase (ix : Index) (k : Key) :
    (erase ix k).length = if (get ix k).isSome then ix.length - 1 else ix.length := by
  induction ix with
  | nil => simp [erase, get]
  | cons y rest ih =>
    obtain ⟨k1, p1⟩ := y
    simp only [erase, get]
    by_cases e1 : k1 = k
    · simp only [if_pos e1]; simp
    · simp only [if_neg e1]
      simp only [List.length_cons, ih]
      split
      · rename_i h
        have : 0 < rest.length := by
          cases rest with
          | nil => simp [get] at h
          | cons _ _ => simp
        omega
      · rfl

/-- erasing an absent key changes nothing -/
theorem erase_of_get_none {ix : Index} {k : Key} (h : get ix k = none) : erase ix k = ix := by
  induction ix with
  | nil => rfl
  | cons y rest ih =>
    obtain ⟨k1, p1⟩ := y
    simp only [get] at h
    simp only [erase]
    by_cases e1 : k1 = k
    · rw [if_pos e1] at h; exact absurd h (by simp)
    · rw [if_neg e1] at h ⊢
      rw [ih h]

theorem sorted_keys {ix : Index} (hs : Sorted ix) :
    List.Pairwise (fun a b => keyLt a b = true) (keys ix) := by
  induction ix with
  | nil => simp [keys]
  | cons y rest ih =>
    simp only [keys, List.map_cons]
    refine List.pairwise_cons.mpr ⟨?_, ih hs.tail⟩
    intro a ha
    obtain ⟨z, hz, rfl⟩ := List.mem_map.mp ha
    exact hs.head z hz

theorem nodup_of_pairwise_keyLt {l : List Key} (h : List.Pairwise (fun a b => keyLt a b = true) l) : l.Nodup :=
  List.Pairwise.imp (fun hab => keyLt_ne hab) h

end XixiKV.Index
