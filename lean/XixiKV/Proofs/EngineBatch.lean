import XixiKV.Proofs.EngineLive
import XixiKV.Proofs.EngineRestart
import XixiKV.Properties.C03
/-!
# Batches: staging, intermediate flushes, commit  (helper lemmas for C05 and the live part of C04)

The batch operations of `Model/Batch.lean` (`bnew / bput / bget / bdel / bcommit / bdrop`) are
described by an in-batch invariant `BInv s db g b base issued` that holds in every state between
`bnew` and `bcommit`:

* the files match a ghost directory `g` (`Files`), whose log is the log at `bnew` time followed by
  the records flushed so far, all tagged with the batch id and none of them a sealing record;
* the LIVE index is the index at `bnew` with the flushed records applied in order (`applyIx`) — the
  replay index is different in the middle of a batch (replay parks tagged records);
* the counters obey `total = reclaim + liveBytes index` throughout;
* `b.staged` holds at most one record per key, all of them well sized;
* the abstract view "staged record if there is one, else what the live index resolves to" equals
  the issued puts / deletes folded over `base` (last write per key wins).
-/
namespace XixiKV.Engine.BatchP
open XixiKV XixiKV.Frame XixiKV.Record XixiKV.Index XixiKV.Engine

/-! ## staged records as log records -/

/-- the log record written for a staged record of batch `id` -/
def toRec (id : Nat) (r : Staged) : Record := { typ := r.typ, key := r.key, value := r.value, batch := id }

/-- size side conditions on a staged record -/
def StagedOK (r : Staged) : Prop :=
  r.typ < 2 ∧ 0 < r.key.size ∧ r.key.size < 2 ^ 31 ∧ r.value.size < 2 ^ 31

theorem StagedOK.recOK {r : Staged} (h : StagedOK r) {id : Nat} (hid : id < 2 ^ 64) : RecOK (toRec id r) := by
  obtain ⟨h1, h2, h3, h4⟩ := h
  exact ⟨by show r.typ < 3; omega, h2, h3, h4, hid⟩

/-! ## `applyStaged` field by field -/

theorem applyStaged_index (db : DB) (r : Staged) (p : Pos) :
    (applyStaged db r p).index = if r.typ = 1 then Index.erase db.index r.key else Index.put db.index r.key p := by
  unfold applyStaged
  simp only []
  split <;> split <;> rfl

theorem applyStaged_total (db : DB) (r : Staged) (p : Pos) : (applyStaged db r p).total = db.total + p.size := by
  unfold applyStaged
  simp only []
  split <;> split <;> rfl

theorem applyStaged_reclaim (db : DB) (r : Staged) (p : Pos) :
    (applyStaged db r p).reclaim
      = db.reclaim + (if r.typ = 1 then p.size else 0) + Engine.oldSize (Index.get db.index r.key) := by
  unfold applyStaged Engine.oldSize
  simp only []
  split <;> split <;> simp_all

theorem applyStaged_rest (db : DB) (r : Staged) (p : Pos) :
    (applyStaged db r p).cfg = db.cfg ∧ (applyStaged db r p).dir = db.dir ∧
    (applyStaged db r p).activeId = db.activeId ∧ (applyStaged db r p).bytesWrite = db.bytesWrite ∧
    (applyStaged db r p).batch = db.batch := by
  unfold applyStaged
  simp only []
  split <;> split <;> exact ⟨rfl, rfl, rfl, rfl, rfl⟩

/-- the fold at the end of `flushStaged` -/
def applyAllStaged (db : DB) (xs : List (Staged × Pos)) : DB :=
  xs.foldl (fun db (x : Staged × Pos) => applyStaged db x.1 x.2) db

theorem applyAllStaged_nil (db : DB) : applyAllStaged db [] = db := rfl

theorem applyAllStaged_cons (db : DB) (x : Staged × Pos) (xs : List (Staged × Pos)) :
    applyAllStaged db (x :: xs) = applyAllStaged (applyStaged db x.1 x.2) xs := rfl

theorem applyAllStaged_rest (xs : List (Staged × Pos)) : ∀ (db : DB),
    (applyAllStaged db xs).cfg = db.cfg ∧ (applyAllStaged db xs).dir = db.dir ∧
    (applyAllStaged db xs).activeId = db.activeId ∧ (applyAllStaged db xs).bytesWrite = db.bytesWrite ∧
    (applyAllStaged db xs).batch = db.batch := by
  induction xs with
  | nil => intro db; exact ⟨rfl, rfl, rfl, rfl, rfl⟩
  | cons x t ih =>
    intro db
    rw [applyAllStaged_cons]
    obtain ⟨a1, a2, a3, a4, a5⟩ := ih (applyStaged db x.1 x.2)
    obtain ⟨b1, b2, b3, b4, b5⟩ := applyStaged_rest db x.1 x.2
    exact ⟨a1.trans b1, a2.trans b2, a3.trans b3, a4.trans b4, a5.trans b5⟩

/-- the log entries that correspond to the staged records and the positions they were written at -/
def asLog (id : Nat) (xs : List (Staged × Pos)) : List (Record × Pos) := xs.map (fun x => (toRec id x.1, x.2))

theorem applyAllStaged_index (id : Nat) (xs : List (Staged × Pos)) : ∀ (db : DB),
    (applyAllStaged db xs).index = Restart.applyIx db.index (asLog id xs) := by
  induction xs with
  | nil => intro db; rfl
  | cons x t ih =>
    intro db
    rw [applyAllStaged_cons, ih, applyStaged_index]
    rfl

/-- sorted index and the C17 relation -/
structure CInv (db : DB) : Prop where
  sorted : SortedKeys db.index
  counters : db.total = db.reclaim + liveBytes db.index

theorem CInv.applyStaged {db : DB} (h : CInv db) (r : Staged) (p : Pos) : CInv (applyStaged db r p) := by
  obtain ⟨hs, hc⟩ := h
  constructor
  · rw [applyStaged_index]; split
    · exact Index.sorted_erase hs _
    · exact Index.sorted_put hs _ _
  · rw [applyStaged_index, applyStaged_total, applyStaged_reclaim]
    split
    · have := liveBytes_erase db.index r.key; omega
    · have := liveBytes_put hs r.key p; omega

theorem CInv.applyAllStaged {db : DB} (h : CInv db) (xs : List (Staged × Pos)) : CInv (applyAllStaged db xs) := by
  induction xs generalizing db with
  | nil => exact h
  | cons x t ih => exact ih (h.applyStaged _ _)

/-! ## the index after a run of records with pairwise distinct keys -/

theorem applyIx_nil (ix : Index) : Restart.applyIx ix [] = ix := rfl

theorem applyIx_cons (ix : Index) (x : Record × Pos) (l : List (Record × Pos)) :
    Restart.applyIx ix (x :: l)
      = Restart.applyIx (if x.1.typ = 1 then Index.erase ix x.1.key else Index.put ix x.1.key x.2) l := rfl

theorem applyIx_append (ix : Index) (l₁ l₂ : List (Record × Pos)) :
    Restart.applyIx ix (l₁ ++ l₂) = Restart.applyIx (Restart.applyIx ix l₁) l₂ := by
  simp only [Restart.applyIx, List.foldl_append]

theorem applyIx_sorted (l : List (Record × Pos)) : ∀ {ix : Index}, SortedKeys ix → SortedKeys (Restart.applyIx ix l) := by
  induction l with
  | nil => intro ix h; exact h
  | cons x t ih =>
    intro ix h
    rw [applyIx_cons]
    apply ih
    split
    · exact Index.sorted_erase h _
    · exact Index.sorted_put h _ _

/-- every entry of the index after a run is an old entry or the position of a record of the run -/
theorem applyIx_from (l : List (Record × Pos)) : ∀ (ix : Index) (k : Key) (p : Pos),
    (k, p) ∈ Restart.applyIx ix l → (k, p) ∈ ix ∨ ∃ r, (r, p) ∈ l ∧ r.key = k := by
  induction l with
  | nil => intro ix k p h; exact Or.inl h
  | cons x t ih =>
    intro ix k p h
    rw [applyIx_cons] at h
    rcases ih _ k p h with h1 | ⟨r, hr, hk⟩
    · split at h1
      · exact Or.inl (Index.mem_erase h1)
      · rcases Index.mem_put h1 with e | h2
        · cases e; exact Or.inr ⟨x.1, by simp, rfl⟩
        · exact Or.inl h2
    · exact Or.inr ⟨r, List.mem_cons_of_mem _ hr, hk⟩

/-- **last write wins, for distinct keys**: after a run of records with pairwise distinct keys the
    index holds, for a key of the run, what that key's (only) record says, and is unchanged on all
    other keys — whatever the order of the run -/
theorem get_applyIx (l : List (Record × Pos)) (hd : l.Pairwise (fun a b => a.1.key ≠ b.1.key)) :
    ∀ {ix : Index}, SortedKeys ix → ∀ k : Key,
      Index.get (Restart.applyIx ix l) k =
        match l.find? (fun x => x.1.key = k) with
        | none => Index.get ix k
        | some x => if x.1.typ = 1 then none else some x.2 := by
  induction l with
  | nil => intro ix _ k; rfl
  | cons x t ih =>
    intro ix hs k
    obtain ⟨hx, ht⟩ := List.pairwise_cons.mp hd
    have hs' : SortedKeys (if x.1.typ = 1 then Index.erase ix x.1.key else Index.put ix x.1.key x.2) := by
      split
      · exact Index.sorted_erase hs _
      · exact Index.sorted_put hs _ _
    rw [applyIx_cons, ih ht hs' k]
    by_cases e : x.1.key = k
    · have hnone : t.find? (fun y => y.1.key = k) = none := by
        rw [List.find?_eq_none]
        intro y hy
        have := hx y hy
        simp only [decide_eq_true_eq]
        intro e2; exact this (e.trans e2.symm)
      rw [hnone, List.find?_cons_of_pos (by simpa using e)]
      simp only []
      split
      · rw [Index.get_erase hs, if_pos e.symm]
      · rw [Index.get_put, if_pos e.symm]
    · rw [List.find?_cons_of_neg (by simpa using e)]
      cases t.find? (fun y => y.1.key = k) with
      | some y => rfl
      | none =>
        simp only []
        split
        · rw [Index.get_erase hs, if_neg (fun h => e h.symm)]
        · rw [Index.get_put, if_neg (fun h => e h.symm)]

/-! ## a run of records appended to the active ghost file -/

theorem bytesOf_append_list (gf rs : GFile) : bytesOf (gf ++ rs) = appendAll C (bytesOf gf) (payloads rs) := by
  simp only [bytesOf, payloads, List.map_append, appendAll_append]

theorem possOf_append_list (fid : Nat) (gf rs : GFile) :
    possOf fid (gf ++ rs) = possOf fid gf ++ posAll C fid (bytesOf gf) (payloads rs) := by
  simp only [possOf, payloads, List.map_append, posAll_append]
  rfl

/-- a run of records appended to the last file is a run of entries at the end of the log -/
theorem logOf_append_recs (g0 : GDir) (id : Nat) (gf rs : GFile) :
    logOf (g0 ++ [(id, gf ++ rs)])
      = logOf (g0 ++ [(id, gf)]) ++ rs.zip (posAll C id (bytesOf gf) (payloads rs)) := by
  rw [Engine.logOf_append, Engine.logOf_append, logOf_single, logOf_single, possOf_append_list,
    List.zip_append (length_possOf id gf).symm, List.append_assoc]

theorem asLog_zip (id : Nat) (st : List Staged) : ∀ ps : List Pos,
    asLog id (st.zip ps) = (st.map (toRec id)).zip ps := by
  induction st with
  | nil => intro ps; rfl
  | cons a t ih =>
    intro ps
    cases ps with
    | nil => rfl
    | cons p ps =>
      simp only [List.zip_cons_cons, List.map_cons, asLog] at ih ⊢
      rw [ih]

theorem asLog_append (id : Nat) (a b : List (Staged × Pos)) : asLog id (a ++ b) = asLog id a ++ asLog id b := by
  simp only [asLog, List.map_append]

/-! ## `flushStaged` on the ghost directory -/

/-- `flushStaged` after the rotation decision -/
def flushTail (s : St) (db : DB) (b : BatchSt) : St × DB × BatchSt :=
  let af := activeFile s db
  let payloads := b.staged.map (fun r => encodeRecord { typ := r.typ, key := r.key, value := r.value, batch := b.id })
  let poss := posAll C db.activeId af.bytes payloads
  let bytes := appendAll C af.bytes payloads
  let s := putFile s db db.activeId { bytes := bytes, synced := if b.sync then bytes.size else af.synced }
  let db := (b.staged.zip poss).foldl (fun db (x : Staged × Pos) => applyStaged db x.1 x.2) db
  (s, db, { b with staged := [], cached := 0 })

theorem flushStaged_eq (s : St) (db : DB) (b : BatchSt) :
    flushStaged s db b =
      if !b.staged.isEmpty ∧ (activeFile s db).bytes.size > 0 ∧
          (activeFile s db).bytes.size + b.cached + maxFinRecord > db.cfg.fileSize
      then flushTail (rotate s db).1 (rotate s db).2 b else flushTail s db b := by
  unfold flushStaged flushTail
  simp only []
  split <;> rfl

theorem flushTail_spec {s : St} {db : DB} {g : GDir} (h : Files s db g) (b : BatchSt)
    (hok : ∀ r ∈ b.staged, StagedOK r) (hid : b.id < 2 ^ 64) :
    ∃ g' ps, ps.length = b.staged.length ∧
      Files (flushTail s db b).1 (flushTail s db b).2.1 g' ∧
      logOf g' = logOf g ++ asLog b.id (b.staged.zip ps) ∧
      (flushTail s db b).1.db = s.db ∧
      (flushTail s db b).2.1 = applyAllStaged db (b.staged.zip ps) ∧
      (flushTail s db b).2.2 = { b with staged := [], cached := 0 } := by
  obtain ⟨g0, gf, hg, hlt⟩ := h.last
  have hb : (activeFile s db).bytes = bytesOf gf := activeFile_bytes h.dir h.asc (by rw [hg]; simp)
  have hpl : b.staged.map (fun r => encodeRecord { typ := r.typ, key := r.key, value := r.value, batch := b.id })
      = payloads (b.staged.map (toRec b.id)) := by
    simp only [payloads, List.map_map]
    rfl
  have hs1 : (flushTail s db b).1 = putFile s db db.activeId
      ⟨appendAll C (activeFile s db).bytes (payloads (b.staged.map (toRec b.id))),
        if b.sync then (appendAll C (activeFile s db).bytes (payloads (b.staged.map (toRec b.id)))).size
        else (activeFile s db).synced⟩ := by
    unfold flushTail
    simp only [hpl]
  have hd1 : (flushTail s db b).2.1 = applyAllStaged db (b.staged.zip
      (posAll C db.activeId (bytesOf gf) (payloads (b.staged.map (toRec b.id))))) := by
    unfold flushTail
    simp only [hpl, hb]
    rfl
  refine ⟨g0 ++ [(db.activeId, gf ++ b.staged.map (toRec b.id))],
    posAll C db.activeId (bytesOf gf) (payloads (b.staged.map (toRec b.id))), ?_, ?_, ?_, rfl, hd1, rfl⟩
  · rw [length_posAll]; simp only [payloads, List.length_map]
  · have hbytes : appendAll C (activeFile s db).bytes (payloads (b.staged.map (toRec b.id)))
        = bytesOf (gf ++ b.staged.map (toRec b.id)) := by
      rw [bytesOf_append_list, hb]
    have h1 := DirOK_putFile h.dir db.activeId
      ⟨appendAll C (activeFile s db).bytes (payloads (b.staged.map (toRec b.id))),
        if b.sync then (appendAll C (activeFile s db).bytes (payloads (b.staged.map (toRec b.id)))).size
        else (activeFile s db).synced⟩ (gf ++ b.staged.map (toRec b.id)) hbytes
    rw [hg, gset_last g0 db.activeId gf _ hlt] at h1
    obtain ⟨_, hdir, hact, _, _⟩ := applyAllStaged_rest (b.staged.zip
      (posAll C db.activeId (bytesOf gf) (payloads (b.staged.map (toRec b.id))))) db
    refine ⟨?_, ?_, ?_, ?_⟩
    · rw [hs1, hd1, hdir]
      exact h1
    · have := h.asc
      rw [hg] at this
      obtain ⟨a1, _, a3⟩ := List.pairwise_append.mp this
      exact List.pairwise_append.mpr ⟨a1, by simp, fun a ha b hb' => by
        simp only [List.mem_singleton] at hb'; rw [hb']; exact hlt a ha⟩
    · rw [hd1, hact]
      simp
    · intro x hx r' hr'
      rcases List.mem_append.mp hx with hx | hx
      · exact h.recs x (by rw [hg]; simp [hx]) r' hr'
      · simp only [List.mem_singleton] at hx
        rw [hx] at hr'
        rcases List.mem_append.mp hr' with hr' | hr'
        · exact h.recs (db.activeId, gf) (by rw [hg]; simp) r' hr'
        · obtain ⟨st, hst, rfl⟩ := List.mem_map.mp hr'
          exact (hok st hst).recOK hid
  · rw [logOf_append_recs, ← hg, asLog_zip]

/-- two handles that differ in `bytesWrite` and `activeId` only -/
structure SameData (db db' : DB) : Prop where
  cfg : db'.cfg = db.cfg
  dir : db'.dir = db.dir
  batch : db'.batch = db.batch
  index : db'.index = db.index
  total : db'.total = db.total
  reclaim : db'.reclaim = db.reclaim

theorem SameData.refl (db : DB) : SameData db db := ⟨rfl, rfl, rfl, rfl, rfl, rfl⟩

theorem SameData.cinv {db db' : DB} (h : SameData db db') (c : CInv db) : CInv db' :=
  ⟨by rw [h.index]; exact c.sorted, by rw [h.index, h.total, h.reclaim]; exact c.counters⟩

/-- what a flush does to the handle: the flushed records are applied to the index in order, the
    counters keep the C17 relation, configuration / directory / batch are untouched -/
structure Flushed (db db' : DB) (new : List (Record × Pos)) : Prop where
  cfg : db'.cfg = db.cfg
  dir : db'.dir = db.dir
  batch : db'.batch = db.batch
  index : db'.index = Restart.applyIx db.index new
  cinv : CInv db → CInv db'

theorem Flushed.apply {db0 db : DB} (h : SameData db0 db) (id : Nat) (xs : List (Staged × Pos)) :
    Flushed db0 (applyAllStaged db xs) (asLog id xs) := by
  obtain ⟨a1, a2, _, _, a5⟩ := applyAllStaged_rest xs db
  exact ⟨a1.trans h.cfg, a2.trans h.dir, a5.trans h.batch, by rw [applyAllStaged_index id, h.index],
    fun c => (h.cinv c).applyAllStaged xs⟩

theorem Flushed.same {db0 db db' : DB} {new : List (Record × Pos)} (h : Flushed db0 db new) (h' : SameData db db') :
    Flushed db0 db' new :=
  ⟨h'.cfg.trans h.cfg, h'.dir.trans h.dir, h'.batch.trans h.batch, h'.index.trans h.index,
    fun c => h'.cinv (h.cinv c)⟩

/-- **`flushStaged`** (with or without the preceding rotation): the ghost log gains the staged
    records, tagged with the batch id, at the positions `ps`; the handle applies them in order -/
theorem flushStaged_spec {s : St} {db : DB} {g : GDir} (h : Files s db g) (b : BatchSt)
    (hok : ∀ r ∈ b.staged, StagedOK r) (hid : b.id < 2 ^ 64) :
    ∃ g' ps, ps.length = b.staged.length ∧
      Files (flushStaged s db b).1 (flushStaged s db b).2.1 g' ∧
      logOf g' = logOf g ++ asLog b.id (b.staged.zip ps) ∧
      (flushStaged s db b).1.db = s.db ∧
      Flushed db (flushStaged s db b).2.1 (asLog b.id (b.staged.zip ps)) ∧
      (flushStaged s db b).2.2 = { b with staged := [], cached := 0 } := by
  rw [flushStaged_eq]
  split
  · obtain ⟨hf, hdb, hs⟩ := rotate_spec h
    obtain ⟨g', ps, h1, h2, h3, h4, h5, h6⟩ := flushTail_spec hf b hok hid
    refine ⟨g', ps, h1, h2, ?_, ?_, ?_, h6⟩
    · rw [h3, logOf_new_file]
    · rw [h4, hs]
    · rw [h5]
      apply Flushed.apply
      rw [hdb]
      exact ⟨rfl, rfl, rfl, rfl, rfl, rfl⟩
  · obtain ⟨g', ps, h1, h2, h3, h4, h5, h6⟩ := flushTail_spec h b hok hid
    refine ⟨g', ps, h1, h2, h3, h4, ?_, h6⟩
    rw [h5]
    exact Flushed.apply (SameData.refl db) _ _

theorem flushAndRotate_eq (s : St) (db : DB) (b : BatchSt) :
    flushAndRotate s db b =
      ((rotate (flushStaged s db b).1 (flushStaged s db b).2.1).1,
       (rotate (flushStaged s db b).1 (flushStaged s db b).2.1).2, (flushStaged s db b).2.2) := rfl

/-- **`flushStagedAndUpdateFile`** -/
theorem flushAndRotate_spec {s : St} {db : DB} {g : GDir} (h : Files s db g) (b : BatchSt)
    (hok : ∀ r ∈ b.staged, StagedOK r) (hid : b.id < 2 ^ 64) :
    ∃ g' ps, ps.length = b.staged.length ∧
      Files (flushAndRotate s db b).1 (flushAndRotate s db b).2.1 g' ∧
      logOf g' = logOf g ++ asLog b.id (b.staged.zip ps) ∧
      (flushAndRotate s db b).1.db = s.db ∧
      Flushed db (flushAndRotate s db b).2.1 (asLog b.id (b.staged.zip ps)) ∧
      (flushAndRotate s db b).2.2 = { b with staged := [], cached := 0 } := by
  obtain ⟨g', ps, h1, h2, h3, h4, h5, h6⟩ := flushStaged_spec h b hok hid
  obtain ⟨hf, hdb, hs⟩ := rotate_spec h2
  rw [flushAndRotate_eq]
  refine ⟨_, ps, h1, hf, ?_, ?_, ?_, h6⟩
  · rw [logOf_new_file, h3]
  · exact hs.trans h4
  · apply h5.same
    show SameData _ (rotate (flushStaged s db b).1 (flushStaged s db b).2.1).2
    rw [hdb]
    exact ⟨rfl, rfl, rfl, rfl, rfl, rfl⟩

/-! ## staged records versus the log entries they become -/

theorem asLog_mem {id : Nat} {st : List Staged} {ps : List Pos} {x : Record × Pos}
    (h : x ∈ asLog id (st.zip ps)) : ∃ r, r ∈ st ∧ x = (toRec id r, x.2) := by
  obtain ⟨y, hy, rfl⟩ := List.mem_map.mp h
  exact ⟨y.1, (List.of_mem_zip hy).1, rfl⟩

theorem asLog_tagged {id : Nat} {st : List Staged} {ps : List Pos} (hok : ∀ r ∈ st, StagedOK r) :
    ∀ x ∈ asLog id (st.zip ps), x.1.batch = id ∧ x.1.typ ≠ 2 := by
  intro x hx
  obtain ⟨r, hr, e⟩ := asLog_mem hx
  rw [e]
  refine ⟨rfl, ?_⟩
  have := (hok r hr).1
  show r.typ ≠ 2
  omega

theorem asLog_distinct (id : Nat) (st : List Staged) (hd : st.Pairwise (fun a c => a.key ≠ c.key)) :
    ∀ ps : List Pos, (asLog id (st.zip ps)).Pairwise (fun a c => a.1.key ≠ c.1.key) := by
  induction st with
  | nil => intro ps; exact List.Pairwise.nil
  | cons a t ih =>
    intro ps
    obtain ⟨ha, ht⟩ := List.pairwise_cons.mp hd
    cases ps with
    | nil => exact List.Pairwise.nil
    | cons p ps =>
      show List.Pairwise _ ((toRec id a, p) :: asLog id (t.zip ps))
      refine List.pairwise_cons.mpr ⟨?_, ih ht ps⟩
      intro y hy
      obtain ⟨r, hr, e⟩ := asLog_mem hy
      rw [e]
      exact ha r hr

theorem find_asLog_none (id : Nat) (st : List Staged) (k : ByteArray) (h : findStaged st k = none) :
    ∀ ps : List Pos, (asLog id (st.zip ps)).find? (fun x => x.1.key = k) = none := by
  intro ps
  rw [List.find?_eq_none]
  intro x hx
  obtain ⟨r, hr, e⟩ := asLog_mem hx
  have := List.find?_eq_none.mp h r hr
  rw [e]
  exact this

theorem find_asLog_some (id : Nat) (st : List Staged) (k : ByteArray) (r : Staged) :
    ∀ ps : List Pos, ps.length = st.length → findStaged st k = some r →
      ∃ p, (asLog id (st.zip ps)).find? (fun x => x.1.key = k) = some (toRec id r, p) := by
  induction st with
  | nil => intro ps _ h; simp [findStaged] at h
  | cons a t ih =>
    intro ps hl h
    cases ps with
    | nil => simp at hl
    | cons p ps =>
      simp only [List.length_cons, Nat.add_right_cancel_iff] at hl
      show ∃ q, List.find? _ ((toRec id a, p) :: asLog id (t.zip ps)) = _
      unfold findStaged at h
      by_cases e : a.key = k
      · rw [List.find?_cons_of_pos (by simpa using e)] at h
        cases h
        exact ⟨p, List.find?_cons_of_pos (decide_eq_true (show (toRec id r).key = k from e))⟩
      · rw [List.find?_cons_of_neg (by simpa using e)] at h
        obtain ⟨q, hq⟩ := ih ps hl h
        refine ⟨q, ?_⟩
        rw [List.find?_cons_of_neg (by rw [decide_eq_true_eq]; exact (show ¬ (toRec id a).key = k from e))]
        exact hq

theorem findStaged_key {st : List Staged} {k : ByteArray} {r : Staged} (h : findStaged st k = some r) :
    r.key = k ∧ r ∈ st := by
  unfold findStaged at h
  exact ⟨by simpa using List.find?_some h, List.mem_of_find?_eq_some h⟩

theorem findStaged_none {st : List Staged} {k : ByteArray} (h : findStaged st k = none) :
    ∀ r ∈ st, r.key ≠ k := by
  intro r hr
  have := List.find?_eq_none.mp h r hr
  simpa using this

/-! ## the abstract view of an open batch -/

abbrev BSpec := ByteArray → Option ByteArray

/-- one issued batch mutation on the abstract map: `(k, some v)` is a put, `(k, none)` a delete -/
def applyIssued (m : BSpec) (x : ByteArray × Option ByteArray) : BSpec :=
  fun k' => if k' = x.1 then x.2 else m k'

/-- the issued mutations applied one by one, in issue order -/
def foldIssued (base : BSpec) (issued : List (ByteArray × Option ByteArray)) : BSpec :=
  issued.foldl applyIssued base

theorem foldIssued_snoc (base : BSpec) (issued : List (ByteArray × Option ByteArray))
    (x : ByteArray × Option ByteArray) (k' : ByteArray) :
    foldIssued base (issued ++ [x]) k' = if k' = x.1 then x.2 else foldIssued base issued k' := by
  simp only [foldIssued, List.foldl_append, List.foldl_cons, List.foldl_nil, applyIssued]

/-- what `Get` answers when the map holds `o` -/
def resOf (o : Option ByteArray) : Res :=
  match o with
  | some v => .val v
  | none => .notFound

/-- what the batch sees for `k`: its staged record if there is one, else the live database -/
def bview (s : St) (db : DB) (b : BatchSt) (k : ByteArray) : Option ByteArray :=
  match findStaged b.staged k with
  | some r => if r.typ = 1 then none else some r.value
  | none => absGet s db k

theorem absGet_congr_world {s s' : St} {db db' : DB} (hw : s'.world = s.world) (hd : db'.dir = db.dir)
    (hi : db'.index = db.index) (k : ByteArray) : absGet s' db' k = absGet s db k := by
  unfold absGet valueAt dirOf
  rw [hw, hd, hi]

/-- every index entry is the position of a logged record with that key -/
def Prov (db : DB) (g : GDir) : Prop := ∀ k p, (k, p) ∈ db.index → ∃ r, (r, p) ∈ logOf g ∧ r.key = k

theorem absGet_resolves {s : St} {db : DB} {g : GDir} (hf : Files s db g) (hp : Prov db g) {k : Key} {p : Pos}
    (hg : Index.get db.index k = some p) :
    ∃ r, (r, p) ∈ logOf g ∧ r.key = k ∧ valueAt s db p = .val r.value ∧ absGet s db k = some r.value := by
  obtain ⟨r, hr, hk⟩ := hp k p (Index.get_eq_some_mem hg)
  have hv := valueAt_log hf hr
  exact ⟨r, hr, hk, hv, by simp only [absGet, hg, hv]⟩

/-- reads of old positions are stable when the log only grows -/
theorem absGet_stable' {s s' : St} {db db' : DB} {g g' : GDir} (hf : Files s db g) (hp : Prov db g)
    (hf' : Files s' db' g') (hsub : ∀ x ∈ logOf g, x ∈ logOf g') {k : Key}
    (hget : Index.get db'.index k = Index.get db.index k) : absGet s' db' k = absGet s db k := by
  cases hg : Index.get db.index k with
  | none => simp only [absGet, hget, hg]
  | some p =>
    obtain ⟨r, hr, _, hv, ha⟩ := absGet_resolves hf hp hg
    rw [ha]
    simp only [absGet, hget, hg, valueAt_log hf' (hsub _ hr)]

/-! ## the in-batch invariant -/

/-- the part of the in-batch invariant that does not mention the handle's `batch` field:
    `l0` is the log when the batch was opened, `flushed` the entries written by intermediate
    flushes since then -/
structure BCore (s : St) (db : DB) (g : GDir) (b : BatchSt) (base : BSpec)
    (issued : List (ByteArray × Option ByteArray)) (l0 flushed : List (Record × Pos)) : Prop where
  live : b.committed = false
  idpos : 0 < b.id
  idlt : b.id < 2 ^ 63
  files : Files s db g
  /-- the log = the log at `bnew` ++ the flushed records … -/
  log : logOf g = l0 ++ flushed
  /-- … all tagged with the batch id, none of them a sealing record -/
  tagged : ∀ x ∈ flushed, x.1.batch = b.id ∧ x.1.typ ≠ 2
  /-- the batch id is not the id of an orphaned unfinished batch -/
  fresh : pendingGet (replayLog l0).pending b.id = []
  /-- the LIVE index: index at `bnew` with the flushed records applied in order -/
  index : db.index = Restart.applyIx (replayLog l0).index flushed
  cinv : CInv db
  stagedOK : ∀ r ∈ b.staged, StagedOK r
  /-- at most one staged record per key -/
  distinct : b.staged.Pairwise (fun a c => a.key ≠ c.key)
  /-- flushed-then-staged = the issued operations folded over `base` -/
  view : ∀ k, bview s db b k = foldIssued base issued k

theorem BCore.prov {s : St} {db : DB} {g : GDir} {b : BatchSt} {base : BSpec}
    {issued : List (ByteArray × Option ByteArray)} {l0 flushed : List (Record × Pos)}
    (h : BCore s db g b base issued l0 flushed) : Prov db g := by
  intro k p hm
  rw [h.index] at hm
  rw [h.log]
  rcases applyIx_from flushed _ k p hm with h1 | ⟨r, hr, hk⟩
  · obtain ⟨r, hr, hk⟩ := (fromLog_replayLog l0).1 k p h1
    exact ⟨r, by simp [hr], hk⟩
  · exact ⟨r, by simp [hr], hk⟩

theorem BCore.congr {s s' : St} {db db' : DB} {g : GDir} {b : BatchSt} {base : BSpec}
    {issued : List (ByteArray × Option ByteArray)} {l0 flushed : List (Record × Pos)}
    (h : BCore s db g b base issued l0 flushed) (hw : s'.world = s.world) (hd : db'.dir = db.dir)
    (ha : db'.activeId = db.activeId) (hi : db'.index = db.index) (ht : db'.total = db.total)
    (hr : db'.reclaim = db.reclaim) : BCore s' db' g b base issued l0 flushed where
  live := h.live
  idpos := h.idpos
  idlt := h.idlt
  files := h.files.congr hw hd ha
  log := h.log
  tagged := h.tagged
  fresh := h.fresh
  index := hi.trans h.index
  cinv := ⟨by rw [hi]; exact h.cinv.sorted, by rw [hi, ht, hr]; exact h.cinv.counters⟩
  stagedOK := h.stagedOK
  distinct := h.distinct
  view := by
    intro k
    rw [← h.view k]
    unfold bview
    rw [absGet_congr_world hw hd hi]

/-- **a flush preserves the view**: the staged records move to the log and into the index; because
    there is at most one staged record per key, every key resolves to what its staged record said,
    and all other keys resolve as before (old positions stay readable: the log only grows) -/
theorem BCore.flush {s s' : St} {db db' : DB} {g g' : GDir} {b : BatchSt} {base : BSpec}
    {issued : List (ByteArray × Option ByteArray)} {l0 flushed : List (Record × Pos)}
    (h : BCore s db g b base issued l0 flushed) (ps : List Pos) (hlen : ps.length = b.staged.length)
    (hf' : Files s' db' g') (hlog : logOf g' = logOf g ++ asLog b.id (b.staged.zip ps))
    (hfl : Flushed db db' (asLog b.id (b.staged.zip ps))) :
    BCore s' db' g' { b with staged := [], cached := 0 } base issued l0
      (flushed ++ asLog b.id (b.staged.zip ps)) where
  live := h.live
  idpos := h.idpos
  idlt := h.idlt
  files := hf'
  log := by rw [hlog, h.log, List.append_assoc]
  tagged := by
    intro x hx
    rcases List.mem_append.mp hx with hx | hx
    · exact h.tagged x hx
    · exact asLog_tagged h.stagedOK x hx
  fresh := h.fresh
  index := by rw [hfl.index, h.index, applyIx_append]
  cinv := hfl.cinv h.cinv
  stagedOK := by intro r hr; simp at hr
  distinct := List.Pairwise.nil
  view := by
    intro k
    rw [← h.view k]
    have hget := get_applyIx _ (asLog_distinct b.id b.staged h.distinct ps) h.cinv.sorted k
    rw [← hfl.index] at hget
    have hsub : ∀ x ∈ logOf g, x ∈ logOf g' := by intro x hx; rw [hlog]; simp [hx]
    show absGet s' db' k = bview s db b k
    unfold bview
    cases hfs : findStaged b.staged k with
    | none =>
      rw [find_asLog_none b.id b.staged k hfs ps] at hget
      exact absGet_stable' h.files h.prov hf' hsub hget
    | some r =>
      obtain ⟨p, hp⟩ := find_asLog_some b.id b.staged k r ps hlen hfs
      rw [hp] at hget
      simp only [] at hget ⊢
      have hm : (toRec b.id r, p) ∈ logOf g' := by
        rw [hlog]
        exact List.mem_append_right _ (List.mem_of_find?_eq_some hp)
      by_cases ht : r.typ = 1
      · have ht' : (toRec b.id r).typ = 1 := ht
        rw [if_pos ht'] at hget
        rw [if_pos ht]
        simp only [absGet, hget]
      · have ht' : ¬ (toRec b.id r).typ = 1 := ht
        rw [if_neg ht'] at hget
        rw [if_neg ht]
        simp only [absGet, hget, valueAt_log hf' hm]
        rfl

/-- what a staged record means for its key -/
def stagedVal (r : Staged) : Option ByteArray := if r.typ = 1 then none else some r.value

/-- staging a record for a key that has no staged record yet -/
theorem BCore.stage_new {s : St} {db : DB} {g : GDir} {b : BatchSt} {base : BSpec}
    {issued : List (ByteArray × Option ByteArray)} {l0 flushed : List (Record × Pos)}
    (h : BCore s db g b base issued l0 flushed) (r : Staged) (hr : StagedOK r)
    (hnone : findStaged b.staged r.key = none) (c : Nat) :
    BCore s db g { b with cached := c, staged := b.staged ++ [r] } base
      (issued ++ [(r.key, stagedVal r)]) l0 flushed where
  live := h.live
  idpos := h.idpos
  idlt := h.idlt
  files := h.files
  log := h.log
  tagged := h.tagged
  fresh := h.fresh
  index := h.index
  cinv := h.cinv
  stagedOK := by
    intro x hx
    rcases List.mem_append.mp hx with hx | hx
    · exact h.stagedOK x hx
    · simp only [List.mem_singleton] at hx; rw [hx]; exact hr
  distinct := by
    refine List.pairwise_append.mpr ⟨h.distinct, List.pairwise_singleton _ _, ?_⟩
    intro a ha c hc
    simp only [List.mem_singleton] at hc
    rw [hc]
    exact findStaged_none hnone a ha
  view := by
    intro k
    rw [foldIssued_snoc, ← h.view k]
    unfold bview findStaged
    simp only [List.find?_append]
    by_cases e : k = r.key
    · rw [if_pos e, e]
      unfold findStaged at hnone
      rw [hnone]
      simp only [Option.none_or, List.find?_cons_of_pos, decide_true]
      rfl
    · rw [if_neg e]
      have : [r].find? (fun x => decide (x.key = k)) = none := by
        rw [List.find?_cons_of_neg (by simpa using fun h => e h.symm)]
        rfl
      rw [this, Option.or_none]

/-- rewriting the staged record of `k` in place -/
theorem BCore.stage_rewrite {s : St} {db : DB} {g : GDir} {b : BatchSt} {base : BSpec}
    {issued : List (ByteArray × Option ByteArray)} {l0 flushed : List (Record × Pos)}
    (h : BCore s db g b base issued l0 flushed) (k v : ByteArray) (t : Nat) (ht : t < 2)
    (hv : v.size < 2 ^ 31) {r0 : Staged} (hsome : findStaged b.staged k = some r0) (c : Nat) :
    BCore s db g { b with cached := c,
                          staged := b.staged.map (fun x => if x.key = k then { x with typ := t, value := v } else x) }
      base (issued ++ [(k, if t = 1 then none else some v)]) l0 flushed where
  live := h.live
  idpos := h.idpos
  idlt := h.idlt
  files := h.files
  log := h.log
  tagged := h.tagged
  fresh := h.fresh
  index := h.index
  cinv := h.cinv
  stagedOK := by
    intro x hx
    obtain ⟨y, hy, rfl⟩ := List.mem_map.mp hx
    obtain ⟨h1, h2, h3, h4⟩ := h.stagedOK y hy
    split
    · exact ⟨ht, h2, h3, hv⟩
    · exact ⟨h1, h2, h3, h4⟩
  distinct := by
    refine List.pairwise_map.mpr (h.distinct.imp ?_)
    intro a c hac
    have hk : ∀ x : Staged, (if x.key = k then ({ x with typ := t, value := v } : Staged) else x).key = x.key := by
      intro x; split <;> rfl
    rw [hk a, hk c]
    exact hac
  view := by
    intro k'
    rw [foldIssued_snoc, ← h.view k']
    have hk : ∀ x : Staged, (if x.key = k then ({ x with typ := t, value := v } : Staged) else x).key = x.key := by
      intro x; split <;> rfl
    have hfind : findStaged (b.staged.map (fun x => if x.key = k then { x with typ := t, value := v } else x)) k'
        = (findStaged b.staged k').map (fun x => if x.key = k then { x with typ := t, value := v } else x) := by
      unfold findStaged
      rw [List.find?_map]
      congr 2
      funext x
      simp only [Function.comp, hk x]
    unfold bview
    simp only [hfind]
    by_cases e : k' = k
    · rw [if_pos e, e, hsome]
      simp only [Option.map_some, if_pos (findStaged_key hsome).1]
    · rw [if_neg e]
      cases hf : findStaged b.staged k' with
      | none => rfl
      | some r1 =>
        have : ¬ r1.key = k := by rw [(findStaged_key hf).1]; exact e
        simp only [Option.map_some, if_neg this]

/-- a delete of a key that is neither staged nor in the live index stages nothing; the view already
    says "absent" -/
theorem BCore.noop_del {s : St} {db : DB} {g : GDir} {b : BatchSt} {base : BSpec}
    {issued : List (ByteArray × Option ByteArray)} {l0 flushed : List (Record × Pos)}
    (h : BCore s db g b base issued l0 flushed) (k : ByteArray)
    (hnone : findStaged b.staged k = none) (hget : Index.get db.index k = none) :
    BCore s db g b base (issued ++ [(k, none)]) l0 flushed :=
  { h with
    view := by
      intro k'
      rw [foldIssued_snoc, ← h.view k']
      by_cases e : k' = k
      · rw [if_pos e, e]
        unfold bview
        rw [hnone]
        exact absGet_of_get_none hget
      · rw [if_neg e] }

/-- **the in-batch invariant** with its ghost parameters explicit -/
structure BInvX (s : St) (db : DB) (g : GDir) (b : BatchSt) (base : BSpec)
    (issued : List (ByteArray × Option ByteArray)) (l0 flushed : List (Record × Pos)) : Prop where
  core : BCore s db g b base issued l0 flushed
  open_ : s.db = some db
  batch : db.batch = some b
  /-- every flush is followed by staging a record, so an empty staging area means nothing has been
      flushed (this is why `Commit` may return early on an empty staging area) -/
  nonempty : flushed ≠ [] → b.staged ≠ []

/-- **the in-batch invariant**: holds in every state between `bnew` and `bcommit`; `base` is the
    mapping of the database when the batch was opened, `issued` the batch's puts `(k, some v)` and
    deletes `(k, none)` so far, in issue order -/
def BInv (s : St) (db : DB) (g : GDir) (b : BatchSt) (base : BSpec)
    (issued : List (ByteArray × Option ByteArray)) : Prop :=
  ∃ l0 flushed, BInvX s db g b base issued l0 flushed

/-- in the middle of a batch the REPLAY of the current log does not see the flushed records (they
    are parked until the sealing record arrives): a restart from these files would expose exactly
    the index and counters of the log at `NewBatch` time — while the live index already contains
    the flushed records (`BCore.index`) -/
theorem BInvX.replay_hidden {s : St} {db : DB} {g : GDir} {b : BatchSt} {base : BSpec}
    {issued : List (ByteArray × Option ByteArray)} {l0 flushed : List (Record × Pos)}
    (h : BInvX s db g b base issued l0 flushed) :
    (replayLog (logOf g)).index = (replayLog l0).index ∧
    (replayLog (logOf g)).total = (replayLog l0).total ∧
    (replayLog (logOf g)).reclaim = (replayLog l0).reclaim := by
  rw [h.core.log]
  exact (C03.C04_atomic_replay l0 flushed b.id (by have := h.core.idpos; omega) h.core.tagged).1

/-! ## `bnew` -/

/-- the batch `NewBatch` creates -/
def newBatch (sync : Bool) (id : Nat) : BatchSt := { staged := [], sync := sync, id := id, cached := 0, committed := false }

theorem bnew_eq {s : St} {db : DB} (hs : s.db = some db) (sync : Bool) (id : Nat) :
    bnew s sync id = ({ s with db := some { db with batch := some (newBatch sync id) } }, .ok) := by
  unfold bnew withDB
  rw [hs]
  rfl

/-- `bnew_spec` with the ghost parameters explicit: `l0` = the log at `NewBatch` time, nothing flushed -/
theorem bnew_specX {s : St} {db : DB} {g : GDir} (hi : Inv s db g) (hs : s.db = some db) (sync : Bool) (id : Nat)
    (h0 : 0 < id) (hlt : id < 2 ^ 63) (hfresh : pendingGet (replayLog (logOf g)).pending id = []) :
    BInvX (bnew s sync id).1 { db with batch := some (newBatch sync id) } g (newBatch sync id) (absGet s db) []
      (logOf g) [] := by
  rw [bnew_eq hs]
  refine ⟨?_, rfl, rfl, fun h => absurd rfl h⟩
  exact {
    live := rfl
    idpos := h0
    idlt := hlt
    files := hi.files.congr rfl rfl rfl
    log := (List.append_nil _).symm
    tagged := by intro x hx; simp at hx
    fresh := hfresh
    index := hi.index
    cinv := ⟨hi.sorted, hi.counters⟩
    stagedOK := by intro r hr; simp [newBatch] at hr
    distinct := List.Pairwise.nil
    view := fun k => rfl }

/-- **NewBatch**: from a state that satisfies the engine invariant, with a fresh batch id, the
    in-batch invariant holds with `base` = the current mapping and nothing issued -/
theorem bnew_spec {s : St} {db : DB} {g : GDir} (hi : Inv s db g) (hs : s.db = some db) (sync : Bool) (id : Nat)
    (h0 : 0 < id) (hlt : id < 2 ^ 63) (hfresh : pendingGet (replayLog (logOf g)).pending id = []) :
    (bnew s sync id).2 = .ok ∧
    (bnew s sync id).1 = { s with db := some { db with batch := some (newBatch sync id) } } ∧
    BInv (bnew s sync id).1 { db with batch := some (newBatch sync id) } g (newBatch sync id) (absGet s db) [] :=
  ⟨by rw [bnew_eq hs], by rw [bnew_eq hs], logOf g, [], bnew_specX hi hs sync id h0 hlt hfresh⟩

/-! ## staging steps -/

theorem withBatch_eq {s : St} {db : DB} {b : BatchSt} (hs : s.db = some db) (hb : db.batch = some b)
    (f : DB → BatchSt → St × Res) : withBatch s f = f db b := by
  unfold withBatch
  simp only [hs, hb]

theorem BCore.install {s1 : St} {db1 : DB} {g1 : GDir} {b2 : BatchSt} {base : BSpec}
    {issued : List (ByteArray × Option ByteArray)} {l0 fl : List (Record × Pos)}
    (h : BCore s1 db1 g1 b2 base issued l0 fl) (hne : fl ≠ [] → b2.staged ≠ []) :
    BInvX { s1 with db := some { db1 with batch := some b2 } } { db1 with batch := some b2 } g1 b2
      base issued l0 fl :=
  ⟨h.congr rfl rfl rfl rfl rfl rfl, rfl, rfl, hne⟩

theorem BCore.flushRot {s : St} {db : DB} {g : GDir} {b : BatchSt} {base : BSpec}
    {issued : List (ByteArray × Option ByteArray)} {l0 flushed : List (Record × Pos)}
    (h : BCore s db g b base issued l0 flushed) :
    ∃ g1 new, BCore (flushAndRotate s db b).1 (flushAndRotate s db b).2.1 g1 (flushAndRotate s db b).2.2
        base issued l0 (flushed ++ new) ∧
      (flushAndRotate s db b).2.2 = { b with staged := [], cached := 0 } := by
  have hid : b.id < 2 ^ 64 := by have := h.idlt; omega
  obtain ⟨g', ps, h1, h2, h3, _, h5, h6⟩ := flushAndRotate_spec h.files b h.stagedOK hid
  refine ⟨g', asLog b.id (b.staged.zip ps), ?_, h6⟩
  rw [h6]
  exact h.flush ps h1 h2 h3 h5

/-- flush (if `cond`) then stage a new record `r` -/
theorem BCore.stage_after {s : St} {db : DB} {g : GDir} {b : BatchSt} {base : BSpec}
    {issued : List (ByteArray × Option ByteArray)} {l0 flushed : List (Record × Pos)}
    (h : BCore s db g b base issued l0 flushed) (cond : Prop) [Decidable cond] (r : Staged) (hr : StagedOK r)
    (hnone : ¬ cond → findStaged b.staged r.key = none) (c : Nat → Nat) :
    ∃ g1 new, BInvX
      { (if cond then flushAndRotate s db b else (s, db, b)).1 with
        db := some { (if cond then flushAndRotate s db b else (s, db, b)).2.1 with
          batch := some { (if cond then flushAndRotate s db b else (s, db, b)).2.2 with
            cached := c (if cond then flushAndRotate s db b else (s, db, b)).2.2.cached,
            staged := (if cond then flushAndRotate s db b else (s, db, b)).2.2.staged ++ [r] } } }
      { (if cond then flushAndRotate s db b else (s, db, b)).2.1 with
          batch := some { (if cond then flushAndRotate s db b else (s, db, b)).2.2 with
            cached := c (if cond then flushAndRotate s db b else (s, db, b)).2.2.cached,
            staged := (if cond then flushAndRotate s db b else (s, db, b)).2.2.staged ++ [r] } }
      g1
      { (if cond then flushAndRotate s db b else (s, db, b)).2.2 with
            cached := c (if cond then flushAndRotate s db b else (s, db, b)).2.2.cached,
            staged := (if cond then flushAndRotate s db b else (s, db, b)).2.2.staged ++ [r] }
      base (issued ++ [(r.key, stagedVal r)]) l0 (flushed ++ new) ∧
      (if cond then flushAndRotate s db b else (s, db, b)).2.2.id = b.id ∧
      (if cond then flushAndRotate s db b else (s, db, b)).2.2.sync = b.sync := by
  by_cases hc : cond
  · simp only [if_pos hc]
    obtain ⟨g1, new, h1, h2⟩ := h.flushRot
    have hn : findStaged (flushAndRotate s db b).2.2.staged r.key = none := by rw [h2]; rfl
    exact ⟨g1, new, (h1.stage_new r hr hn _).install (fun _ => by simp), by rw [h2], by rw [h2]⟩
  · simp only [if_neg hc]
    have H := (h.stage_new r hr (hnone hc) (c b.cached)).install (fun _ => by simp)
    rw [← List.append_nil flushed] at H
    exact ⟨g, [], H, by first | rfl | trivial, by first | rfl | trivial⟩

/-! ## `bput` -/

theorem bput_keyempty {s : St} {db : DB} {b : BatchSt} (hs : s.db = some db) (hb : db.batch = some b)
    (k v : ByteArray) (hk : k.size = 0) : bput s k v = (s, .err "keyempty") := by
  unfold bput
  rw [withBatch_eq hs hb]
  simp only [if_pos hk]

theorem bput_committed {s : St} {db : DB} {b : BatchSt} (hs : s.db = some db) (hb : db.batch = some b)
    (k v : ByteArray) (hk : k.size ≠ 0) (hc : b.committed = true) : bput s k v = (s, .err "committed") := by
  unfold bput
  rw [withBatch_eq hs hb]
  simp only [if_neg hk, hc, if_true]

/-- **Batch.Put**, ghost parameters explicit: the log at `NewBatch` time `l0` stays, the flushed
    part only grows (by `new` — empty unless this call triggered an intermediate flush), the batch
    keeps its id and sync option -/
theorem bput_specX {s : St} {db : DB} {g : GDir} {b : BatchSt} {base : BSpec}
    {issued : List (ByteArray × Option ByteArray)} {l0 fl : List (Record × Pos)}
    (hx : BInvX s db g b base issued l0 fl) (k v : ByteArray)
    (hk0 : 0 < k.size) (hk : k.size < 2 ^ 31) (hv : v.size < 2 ^ 31) :
    (bput s k v).2 = .ok ∧
    ∃ db' g' b' new, BInvX (bput s k v).1 db' g' b' base (issued ++ [(k, some v)]) l0 (fl ++ new) ∧
      b'.id = b.id ∧ b'.sync = b.sync := by
  have hr : StagedOK { typ := 0, key := k, value := v } := ⟨Nat.zero_lt_two, hk0, hk, hv⟩
  have hnc : ¬ b.committed = true := by rw [hx.core.live]; simp
  unfold bput
  rw [withBatch_eq hx.open_ hx.batch]
  simp only [if_neg (show ¬ k.size = 0 by omega), if_neg hnc]
  cases hfs : findStaged b.staged k with
  | none =>
    simp only []
    obtain ⟨g1, new, H, hid, hsy⟩ := hx.core.stage_after
      (b.cached + diskSizeEstimate k.size v.size + maxFinRecord > db.cfg.fileSize)
      { typ := 0, key := k, value := v } hr (fun _ => hfs) (fun c => c + diskSizeEstimate k.size v.size)
    exact ⟨trivial, _, g1, _, new, H, hid, hsy⟩
  | some r =>
    simp only []
    split
    · obtain ⟨g1, new, H, hid, hsy⟩ := hx.core.stage_after True
        { typ := 0, key := k, value := v } hr (fun h => absurd trivial h) (fun c => c + diskSizeEstimate k.size v.size)
      simp only [if_true] at H hid hsy
      exact ⟨rfl, _, g1, _, new, H, hid, hsy⟩
    · have H := (hx.core.stage_rewrite k v 0 (by decide) hv hfs
        (b.cached + diskSizeEstimate k.size v.size - diskSizeEstimate r.key.size r.value.size)).install
        (fun _ => by
          have := (findStaged_key hfs).2
          intro e
          rw [List.map_eq_nil_iff] at e
          rw [e] at this
          simp at this)
      rw [← List.append_nil fl] at H
      exact ⟨rfl, _, g, _, [], H, rfl, rfl⟩

/-- **Batch.Put**: answers `.ok`; the invariant is preserved with the put appended to the issued
    operations — whether the record is staged as a new record, rewrites an already staged record in
    place, or first triggers an intermediate flush with file rotation -/
theorem bput_spec {s : St} {db : DB} {g : GDir} {b : BatchSt} {base : BSpec}
    {issued : List (ByteArray × Option ByteArray)} (h : BInv s db g b base issued) (k v : ByteArray)
    (hk0 : 0 < k.size) (hk : k.size < 2 ^ 31) (hv : v.size < 2 ^ 31) :
    (bput s k v).2 = .ok ∧
    ∃ db' g' b', BInv (bput s k v).1 db' g' b' base (issued ++ [(k, some v)]) := by
  obtain ⟨l0, fl, hx⟩ := h
  obtain ⟨h1, db', g', b', new, h2, _⟩ := bput_specX hx k v hk0 hk hv
  exact ⟨h1, db', g', b', l0, fl ++ new, h2⟩

/-! ## `bdel` -/

theorem bdel_keyempty {s : St} {db : DB} {b : BatchSt} (hs : s.db = some db) (hb : db.batch = some b)
    (k : ByteArray) (hk : k.size = 0) : bdel s k = (s, .err "keyempty") := by
  unfold bdel
  rw [withBatch_eq hs hb]
  simp only [if_pos hk]

theorem bdel_committed {s : St} {db : DB} {b : BatchSt} (hs : s.db = some db) (hb : db.batch = some b)
    (k : ByteArray) (hk : k.size ≠ 0) (hc : b.committed = true) : bdel s k = (s, .err "committed") := by
  unfold bdel
  rw [withBatch_eq hs hb]
  simp only [if_neg hk, hc, if_true]

/-- **Batch.Delete**, ghost parameters explicit -/
theorem bdel_specX {s : St} {db : DB} {g : GDir} {b : BatchSt} {base : BSpec}
    {issued : List (ByteArray × Option ByteArray)} {l0 fl : List (Record × Pos)}
    (hx : BInvX s db g b base issued l0 fl) (k : ByteArray)
    (hk0 : 0 < k.size) (hk : k.size < 2 ^ 31) :
    (bdel s k).2 = .ok ∧
    ∃ db' g' b' new, BInvX (bdel s k).1 db' g' b' base (issued ++ [(k, none)]) l0 (fl ++ new) ∧
      b'.id = b.id ∧ b'.sync = b.sync := by
  have he : ByteArray.empty.size < 2 ^ 31 := by show 0 < 2 ^ 31; decide
  have hr : StagedOK { typ := 1, key := k, value := ByteArray.empty } := ⟨Nat.one_lt_two, hk0, hk, he⟩
  have hnc : ¬ b.committed = true := by rw [hx.core.live]; simp
  unfold bdel
  rw [withBatch_eq hx.open_ hx.batch]
  simp only [if_neg (show ¬ k.size = 0 by omega), if_neg hnc]
  cases hfs : findStaged b.staged k with
  | some r =>
    simp only []
    have H := (hx.core.stage_rewrite k ByteArray.empty 1 Nat.one_lt_two he hfs (b.cached + r.value.size)).install
      (fun _ => by
        have := (findStaged_key hfs).2
        intro e
        rw [List.map_eq_nil_iff] at e
        rw [e] at this
        simp at this)
    rw [← List.append_nil fl] at H
    exact ⟨trivial, _, g, _, [], H, rfl, rfl⟩
  | none =>
    simp only []
    cases hget : Index.get db.index k with
    | none =>
      simp only []
      have H : BInvX s db g b base (issued ++ [(k, none)]) l0 (fl ++ []) := by
        rw [List.append_nil]
        exact ⟨hx.core.noop_del k hfs hget, hx.open_, hx.batch, hx.nonempty⟩
      exact ⟨trivial, db, g, b, [], H, rfl, rfl⟩
    | some old =>
      simp only []
      obtain ⟨g1, new, H, hid, hsy⟩ := hx.core.stage_after
        (b.cached + diskSizeEstimate k.size 0 + maxFinRecord > db.cfg.fileSize)
        { typ := 1, key := k, value := ByteArray.empty } hr (fun _ => hfs) (fun c => c + diskSizeEstimate k.size 0)
      exact ⟨trivial, _, g1, _, new, H, hid, hsy⟩

/-- **Batch.Delete**: answers `.ok`; the invariant is preserved with the delete appended to the
    issued operations — a staged record is turned into a tombstone in place, a key that is only in
    the live index gets a new staged tombstone (possibly after an intermediate flush), and a key
    that is nowhere stages nothing -/
theorem bdel_spec {s : St} {db : DB} {g : GDir} {b : BatchSt} {base : BSpec}
    {issued : List (ByteArray × Option ByteArray)} (h : BInv s db g b base issued) (k : ByteArray)
    (hk0 : 0 < k.size) (hk : k.size < 2 ^ 31) :
    (bdel s k).2 = .ok ∧
    ∃ db' g' b', BInv (bdel s k).1 db' g' b' base (issued ++ [(k, none)]) := by
  obtain ⟨l0, fl, hx⟩ := h
  obtain ⟨h1, db', g', b', new, h2, _⟩ := bdel_specX hx k hk0 hk
  exact ⟨h1, db', g', b', l0, fl ++ new, h2⟩

/-! ## `bget` -/

theorem bget_keyempty {s : St} {db : DB} {b : BatchSt} (hs : s.db = some db) (hb : db.batch = some b)
    (k : ByteArray) (hk : k.size = 0) : bget s k = (s, .err "keyempty") := by
  unfold bget
  rw [withBatch_eq hs hb]
  simp only [if_pos hk]

theorem bget_committed {s : St} {db : DB} {b : BatchSt} (hs : s.db = some db) (hb : db.batch = some b)
    (k : ByteArray) (hk : k.size ≠ 0) (hc : b.committed = true) : bget s k = (s, .err "committed") := by
  unfold bget
  rw [withBatch_eq hs hb]
  simp only [if_neg hk, hc, if_true]

/-- **Batch.Get** changes nothing and answers from the layered view: the batch's own latest put of
    the key, not-found if the batch deleted it, otherwise the value the database held when the batch
    was opened — read through the live index from whichever file holds it (active or rotated, also
    after intermediate flushes) -/
theorem bget_spec {s : St} {db : DB} {g : GDir} {b : BatchSt} {base : BSpec}
    {issued : List (ByteArray × Option ByteArray)} (h : BInv s db g b base issued) (k : ByteArray)
    (hk0 : 0 < k.size) : bget s k = (s, resOf (foldIssued base issued k)) := by
  obtain ⟨l0, fl, hx⟩ := h
  have hnc : ¬ b.committed = true := by rw [hx.core.live]; simp
  have hv := hx.core.view k
  unfold bget
  rw [withBatch_eq hx.open_ hx.batch]
  simp only [if_neg (show ¬ k.size = 0 by omega), if_neg hnc]
  unfold bview at hv
  cases hfs : findStaged b.staged k with
  | some r =>
    rw [hfs] at hv
    simp only [] at hv ⊢
    rw [← hv]
    split <;> rfl
  | none =>
    rw [hfs] at hv
    simp only [] at hv ⊢
    rw [← hv]
    cases hget : Index.get db.index k with
    | none => simp only [absGet_of_get_none hget]; rfl
    | some p =>
      obtain ⟨r, _, _, hval, habs⟩ := absGet_resolves hx.core.files hx.core.prov hget
      simp only [habs, hval]
      rfl

/-! ## the sealing record -/

theorem digitChar_utf8Size (d : Nat) (h : d < 10) : (Nat.digitChar d).utf8Size = 1 := by
  have : d = 0 ∨ d = 1 ∨ d = 2 ∨ d = 3 ∨ d = 4 ∨ d = 5 ∨ d = 6 ∨ d = 7 ∨ d = 8 ∨ d = 9 := by omega
  rcases this with rfl | rfl | rfl | rfl | rfl | rfl | rfl | rfl | rfl | rfl <;> rfl

theorem repr_utf8ByteSize (k : Nat) : ∀ n, n < 10 ^ (k + 1) →
    0 < (Nat.repr n).utf8ByteSize ∧ (Nat.repr n).utf8ByteSize ≤ k + 1 := by
  induction k with
  | zero =>
    intro n h
    rw [Nat.repr_of_lt (by omega), String.utf8ByteSize_singleton, digitChar_utf8Size n (by omega)]
    omega
  | succ k ih =>
    intro n h
    by_cases h10 : n < 10
    · rw [Nat.repr_of_lt h10, String.utf8ByteSize_singleton, digitChar_utf8Size n h10]
      omega
    · rw [Nat.repr_of_ge (by omega), String.utf8ByteSize_append, String.utf8ByteSize_singleton,
        digitChar_utf8Size _ (Nat.mod_lt _ (by omega))]
      have := ih (n / 10) (by rw [Nat.pow_succ] at h; omega)
      omega

/-- the decimal batch id is a non-empty key of at most 19 bytes -/
theorem idBytes_size (n : Nat) (h : n < 2 ^ 63) : 0 < (idBytes n).size ∧ (idBytes n).size < 2 ^ 31 := by
  have h1 : n < 10 ^ (18 + 1) := by
    have : (2:Nat) ^ 63 < 10 ^ (18 + 1) := by decide
    omega
  have := repr_utf8ByteSize 18 n h1
  show 0 < (Nat.repr n).utf8ByteSize ∧ (Nat.repr n).utf8ByteSize < 2 ^ 31
  have : (19:Nat) < 2 ^ 31 := by decide
  omega

/-- the `LogRecordBatchFinished` record of batch `id` -/
def finRec (id : Nat) : Record := { typ := 2, key := idBytes id, value := ByteArray.empty, batch := id }

theorem finRec_ok (id : Nat) (h : id < 2 ^ 63) : RecOK (finRec id) := by
  obtain ⟨h1, h2⟩ := idBytes_size id h
  refine ⟨by show 2 < 3; omega, h1, h2, by show 0 < 2 ^ 31; decide, ?_⟩
  show id < 2 ^ 64
  omega

/-- the position of the sealing record -/
def sealPos (s : St) (db : DB) (id : Nat) : Pos :=
  posOf C db.activeId (activeFile s db).bytes.size (encodeRecord (finRec id))

/-- the files after the sealing record has been written (no rotation check) -/
def sealFile (s : St) (db : DB) (b : BatchSt) : St :=
  putFile s db db.activeId
    { bytes := appendRec C (activeFile s db).bytes (encodeRecord (finRec b.id)),
      synced := if b.sync then (appendRec C (activeFile s db).bytes (encodeRecord (finRec b.id))).size
                else (activeFile s db).synced }

theorem seal_spec {s : St} {db : DB} {g : GDir} (h : Files s db g) (b : BatchSt) (hid : b.id < 2 ^ 63) :
    ∃ g', Files (sealFile s db b) db g' ∧ logOf g' = logOf g ++ [(finRec b.id, sealPos s db b.id)] ∧
      (sealFile s db b).db = s.db := by
  obtain ⟨g0, gf, hg, hlt⟩ := h.last
  have hb : (activeFile s db).bytes = bytesOf gf := activeFile_bytes h.dir h.asc (by rw [hg]; simp)
  refine ⟨g0 ++ [(db.activeId, gf ++ [finRec b.id])], ⟨?_, ?_, ?_, ?_⟩, ?_, rfl⟩
  · have hbytes : appendRec C (activeFile s db).bytes (encodeRecord (finRec b.id)) = bytesOf (gf ++ [finRec b.id]) := by
      rw [bytesOf_append, hb]
    have h1 := DirOK_putFile h.dir db.activeId
      ⟨appendRec C (activeFile s db).bytes (encodeRecord (finRec b.id)),
        if b.sync then (appendRec C (activeFile s db).bytes (encodeRecord (finRec b.id))).size
        else (activeFile s db).synced⟩ (gf ++ [finRec b.id]) hbytes
    rw [hg, gset_last g0 db.activeId gf _ hlt] at h1
    exact h1
  · have := h.asc
    rw [hg] at this
    obtain ⟨a1, _, a3⟩ := List.pairwise_append.mp this
    exact List.pairwise_append.mpr ⟨a1, by simp, fun a ha b hb' => by
      simp only [List.mem_singleton] at hb'; rw [hb']; exact hlt a ha⟩
  · simp
  · intro x hx r' hr'
    rcases List.mem_append.mp hx with hx | hx
    · exact h.recs x (by rw [hg]; simp [hx]) r' hr'
    · simp only [List.mem_singleton] at hx
      rw [hx] at hr'
      rcases List.mem_append.mp hr' with hr' | hr'
      · exact h.recs (db.activeId, gf) (by rw [hg]; simp) r' hr'
      · simp only [List.mem_singleton] at hr'; rw [hr']; exact finRec_ok b.id hid
  · rw [logOf_append_rec, ← hg]
    simp only [sealPos, hb]

/-! ## `bcommit`, `bdrop` -/

/-- a committed batch that has not been dropped yet: the engine invariant holds for the handle
    without its (dead) batch object -/
structure Sealed (s : St) (db : DB) (g : GDir) : Prop where
  open_ : s.db = some db
  batch : ∃ bc, db.batch = some bc ∧ bc.committed = true
  inv : Inv s { db with batch := none } g

theorem bcommit_committed {s : St} {db : DB} {b : BatchSt} (hs : s.db = some db) (hb : db.batch = some b)
    (hc : b.committed = true) : bcommit s = (s, .err "committed") := by
  unfold bcommit
  rw [withBatch_eq hs hb]
  simp only [hc, if_true]

/-- `Commit` of an empty staging area: only the `committed` flag changes -/
theorem bcommit_empty {s : St} {db : DB} {b : BatchSt} (hs : s.db = some db) (hb : db.batch = some b)
    (hc : b.committed = false) (he : b.staged = []) :
    bcommit s = ({ s with db := some { db with batch := some { b with committed := true } } }, .ok) := by
  unfold bcommit
  rw [withBatch_eq hs hb]
  simp only [hc, he, List.isEmpty_nil, if_true, Bool.false_eq_true, if_false]

/-- `Commit` of a non-empty staging area: flush, then the sealing record -/
theorem bcommit_nonempty {s : St} {db : DB} {b : BatchSt} (hs : s.db = some db) (hb : db.batch = some b)
    (hc : b.committed = false) (he : b.staged ≠ []) :
    bcommit s =
      ({ sealFile (flushStaged s db { b with committed := true }).1 (flushStaged s db { b with committed := true }).2.1
            (flushStaged s db { b with committed := true }).2.2 with
          db := some { (flushStaged s db { b with committed := true }).2.1 with
            total := (flushStaged s db { b with committed := true }).2.1.total
              + (sealPos (flushStaged s db { b with committed := true }).1
                  (flushStaged s db { b with committed := true }).2.1
                  (flushStaged s db { b with committed := true }).2.2.id).size,
            reclaim := (flushStaged s db { b with committed := true }).2.1.reclaim
              + (sealPos (flushStaged s db { b with committed := true }).1
                  (flushStaged s db { b with committed := true }).2.1
                  (flushStaged s db { b with committed := true }).2.2.id).size,
            batch := some (flushStaged s db { b with committed := true }).2.2 } }, .ok) := by
  have hne : b.staged.isEmpty = false := by
    cases hst : b.staged with
    | nil => exact absurd hst he
    | cons _ _ => rfl
  unfold bcommit
  rw [withBatch_eq hs hb]
  simp only [hc, hne, Bool.false_eq_true, if_false]
  rfl

/-- **Commit**: answers `.ok`; afterwards the engine invariant holds again (for the handle without
    its dead batch object — `Sealed`), the index is again the replay index of the log (the sealing
    record makes the replay apply the whole batch: `C04_atomic_replay`), the counters satisfy the
    C17 relation (the sealing record is charged to `total` and `reclaim`), and the mapping is the
    issued operations applied one by one, in issue order, to the mapping at `NewBatch` time.
    An empty staging area (then nothing was ever flushed) leaves the files untouched. -/
theorem bcommit_specX {s : St} {db : DB} {g : GDir} {b : BatchSt} {base : BSpec}
    {issued : List (ByteArray × Option ByteArray)} {l0 fl : List (Record × Pos)}
    (hx : BInvX s db g b base issued l0 fl) :
    (bcommit s).2 = .ok ∧
    ∃ db' g', Sealed (bcommit s).1 db' g' ∧
      (∀ k, absGet (bcommit s).1 db' k = foldIssued base issued k) ∧
      (b.staged = [] → (bcommit s).1.world = s.world ∧ g' = g ∧
        db' = { db with batch := some { b with committed := true } } ∧ fl = []) ∧
      (b.staged ≠ [] → ∃ new p, logOf g' = l0 ++ (fl ++ new) ++ [(finRec b.id, p)] ∧
        ∀ x ∈ fl ++ new, x.1.batch = b.id ∧ x.1.typ ≠ 2) := by
  have hc := hx.core
  by_cases he : b.staged = []
  · rw [bcommit_empty hx.open_ hx.batch hc.live he]
    have hfl : fl = [] := Classical.byContradiction fun hne => hx.nonempty hne he
    refine ⟨rfl, _, g, ⟨rfl, ⟨_, rfl, rfl⟩, ?_⟩, ?_, fun _ => ⟨rfl, rfl, rfl, hfl⟩, fun h => absurd he h⟩
    · have hf : Files { s with db := some { db with batch := some { b with committed := true } } }
          { db with batch := none } g := hc.files.congr rfl rfl rfl
      refine ⟨hf.dir, hf.asc, hf.active, hf.recs, ?_, hc.cinv.sorted, hc.cinv.counters, rfl⟩
      show db.index = _
      rw [hc.index, hc.log, hfl, List.append_nil]
      rfl
    · intro k
      rw [← hc.view k]
      unfold bview
      rw [he]
      rfl
  · rw [bcommit_nonempty hx.open_ hx.batch hc.live he]
    have hid : b.id < 2 ^ 64 := by have := hc.idlt; omega
    obtain ⟨g1, ps, h1, h2, h3, _, h5, h6⟩ :=
      flushStaged_spec hc.files { b with committed := true } hc.stagedOK hid
    have hcore := hc.flush ps h1 h2 h3 h5
    generalize flushStaged s db { b with committed := true } = F at *
    obtain ⟨s1, db1, b1⟩ := F
    simp only [] at h2 h3 h5 h6 hcore ⊢
    subst h6
    obtain ⟨g2, hf2, hlog2, _⟩ := seal_spec h2 { b with staged := [], cached := 0, committed := true } hc.idlt
    simp only [] at hf2 hlog2
    refine ⟨trivial, _, g2, ⟨rfl, ⟨_, rfl, rfl⟩, ?_⟩, ?_, fun h => absurd h he,
      fun _ => ⟨asLog b.id (b.staged.zip ps), sealPos s1 db1 b.id, by rw [hlog2, hcore.log], hcore.tagged⟩⟩
    · have hf := hf2.congr (s' := ⟨(sealFile s1 db1 { b with staged := [], cached := 0, committed := true }).world, none⟩)
        (db' := { db1 with batch := none }) rfl rfl rfl
      refine ⟨hf.dir, hf.asc, hf.active, hf.recs, ?_, hcore.cinv.sorted, ?_, rfl⟩
      · show db1.index = _
        rw [hcore.index, hlog2, hcore.log]
        exact ((C03.C04_atomic_replay l0 _ b.id (by have := hc.idpos; omega) hcore.tagged).2 hc.fresh
          (finRec b.id) (sealPos s1 db1 b.id) rfl rfl).2.symm
      · have := hcore.cinv.counters
        show db1.total + _ = db1.reclaim + _ + liveBytes db1.index
        omega
    · intro k
      have hv := hcore.view k
      rw [← hv]
      show absGet _ _ k = absGet s1 db1 k
      refine absGet_stable' hcore.files hcore.prov (g' := g2) ?_ (by intro x hx; rw [hlog2]; simp [hx]) rfl
      exact hf2.congr rfl rfl rfl

theorem bcommit_spec {s : St} {db : DB} {g : GDir} {b : BatchSt} {base : BSpec}
    {issued : List (ByteArray × Option ByteArray)} (h : BInv s db g b base issued) :
    (bcommit s).2 = .ok ∧
    ∃ db' g', Sealed (bcommit s).1 db' g' ∧
      (∀ k, absGet (bcommit s).1 db' k = foldIssued base issued k) ∧
      (b.staged = [] → (bcommit s).1.world = s.world ∧ g' = g ∧
        db' = { db with batch := some { b with committed := true } }) := by
  obtain ⟨l0, fl, hx⟩ := h
  obtain ⟨h1, db', g', h2, h3, h4, _⟩ := bcommit_specX hx
  exact ⟨h1, db', g', h2, h3, fun he => ⟨(h4 he).1, (h4 he).2.1, (h4 he).2.2.1⟩⟩

/-- **a committed batch rejects further use**: every operation answers `.err "committed"` and
    leaves the state unchanged -/
theorem Sealed.rejects {s : St} {db : DB} {g : GDir} (h : Sealed s db g) :
    (∀ k v : ByteArray, k.size ≠ 0 → bput s k v = (s, .err "committed")) ∧
    (∀ k : ByteArray, k.size ≠ 0 → bget s k = (s, .err "committed")) ∧
    (∀ k : ByteArray, k.size ≠ 0 → bdel s k = (s, .err "committed")) ∧
    bcommit s = (s, .err "committed") := by
  obtain ⟨bc, hb, hc⟩ := h.batch
  exact ⟨fun k v hk => bput_committed h.open_ hb k v hk hc, fun k hk => bget_committed h.open_ hb k hk hc,
    fun k hk => bdel_committed h.open_ hb k hk hc, bcommit_committed h.open_ hb hc⟩

/-- empty keys are rejected first, also by a committed batch -/
theorem Sealed.keyempty {s : St} {db : DB} {g : GDir} (h : Sealed s db g) :
    (∀ k v : ByteArray, k.size = 0 → bput s k v = (s, .err "keyempty")) ∧
    (∀ k : ByteArray, k.size = 0 → bget s k = (s, .err "keyempty")) ∧
    (∀ k : ByteArray, k.size = 0 → bdel s k = (s, .err "keyempty")) := by
  obtain ⟨bc, hb, _⟩ := h.batch
  exact ⟨fun k v hk => bput_keyempty h.open_ hb k v hk, fun k hk => bget_keyempty h.open_ hb k hk,
    fun k hk => bdel_keyempty h.open_ hb k hk⟩

theorem bdrop_eq {s : St} {db : DB} (hs : s.db = some db) :
    bdrop s = ({ s with db := some { db with batch := none } }, .ok) := by
  unfold bdrop withDB
  rw [hs]

/-- dropping the committed batch object gives back the ordinary engine invariant, for the same
    ghost directory and the same mapping -/
theorem bdrop_spec {s : St} {db : DB} {g : GDir} (h : Sealed s db g) :
    bdrop s = ({ s with db := some { db with batch := none } }, .ok) ∧
    Inv (bdrop s).1 { db with batch := none } g ∧
    (∀ k, absGet (bdrop s).1 { db with batch := none } k = absGet s db k) := by
  rw [bdrop_eq h.open_]
  refine ⟨rfl, ?_, fun k => rfl⟩
  have hi := h.inv
  exact ⟨hi.dir, hi.asc, hi.active, hi.recs, hi.index, hi.sorted, hi.counters, hi.nobatch⟩

/-! ## frame: batch operations touch the handle's own directory only -/

/-- the worlds of `s` and `s'` agree on every directory other than `dir` -/
def Fr (dir : String) (s s' : St) : Prop := ∀ d, d ≠ dir → s'.world.get d = s.world.get d

theorem Fr.refl (dir : String) (s : St) : Fr dir s s := fun _ _ => rfl

theorem Fr.trans {dir : String} {s s' s'' : St} (h : Fr dir s s') (h' : Fr dir s' s'') : Fr dir s s'' :=
  fun d hd => (h' d hd).trans (h d hd)

theorem Fr_putFile (s : St) (db : DB) (id : Nat) (f : FileSt) : Fr db.dir s (putFile s db id f) := by
  intro d hd
  exact World.get_set_other _ _ _ _ hd

theorem Fr_rotate (s : St) (db : DB) : Fr db.dir s (rotate s db).1 ∧ (rotate s db).2.dir = db.dir := by
  refine ⟨?_, rfl⟩
  unfold rotate
  exact (Fr_putFile s db _ _).trans
    (Fr_putFile _ { db with bytesWrite := 0, activeId := db.activeId + 1 } _ _)

theorem Fr_flushTail (s : St) (db : DB) (b : BatchSt) :
    Fr db.dir s (flushTail s db b).1 ∧ (flushTail s db b).2.1.dir = db.dir := by
  refine ⟨?_, ?_⟩
  · unfold flushTail
    exact Fr_putFile s db _ _
  · exact (applyAllStaged_rest _ db).2.1

theorem Fr_flushStaged (s : St) (db : DB) (b : BatchSt) :
    Fr db.dir s (flushStaged s db b).1 ∧ (flushStaged s db b).2.1.dir = db.dir := by
  rw [flushStaged_eq]
  split
  · obtain ⟨h1, h2⟩ := Fr_rotate s db
    obtain ⟨h3, h4⟩ := Fr_flushTail (rotate s db).1 (rotate s db).2 b
    rw [h2] at h3
    exact ⟨h1.trans h3, h4.trans h2⟩
  · exact Fr_flushTail s db b

theorem Fr_flushAndRotate (s : St) (db : DB) (b : BatchSt) :
    Fr db.dir s (flushAndRotate s db b).1 ∧ (flushAndRotate s db b).2.1.dir = db.dir := by
  rw [flushAndRotate_eq]
  obtain ⟨h1, h2⟩ := Fr_flushStaged s db b
  obtain ⟨h3, h4⟩ := Fr_rotate (flushStaged s db b).1 (flushStaged s db b).2.1
  rw [h2] at h3
  exact ⟨h1.trans h3, h4.trans h2⟩

/-- the handle keeps its directory and every other directory is untouched -/
def Framed (s s' : St) (db : DB) : Prop := Fr db.dir s s' ∧ ∃ db', s'.db = some db' ∧ db'.dir = db.dir

theorem Framed.trans {s s' s'' : St} {db db' : DB} (h : Framed s s' db) (hs' : s'.db = some db')
    (h' : Framed s' s'' db') : Framed s s'' db := by
  obtain ⟨f1, d1, e1, e2⟩ := h
  obtain ⟨f2, d2, e3, e4⟩ := h'
  rw [hs'] at e1
  cases e1
  rw [e2] at f2
  exact ⟨f1.trans f2, d2, e3, e4.trans e2⟩

theorem bnew_frame {s : St} {db : DB} (hs : s.db = some db) (sync : Bool) (id : Nat) :
    Framed s (bnew s sync id).1 db := by
  rw [bnew_eq hs]
  exact ⟨Fr.refl _ _, _, rfl, rfl⟩

theorem bdrop_frame {s : St} {db : DB} (hs : s.db = some db) : Framed s (bdrop s).1 db := by
  rw [bdrop_eq hs]
  exact ⟨Fr.refl _ _, _, rfl, rfl⟩

theorem bget_state (s : St) (k : ByteArray) : (bget s k).1 = s := by
  unfold bget withBatch
  cases s.db with
  | none => rfl
  | some db =>
    simp only []
    cases db.batch with
    | none => rfl
    | some b =>
      simp only []
      split
      · rfl
      · split
        · rfl
        · split
          · split <;> rfl
          · split <;> rfl

theorem bget_frame {s : St} {db : DB} (hs : s.db = some db) (k : ByteArray) : Framed s (bget s k).1 db := by
  rw [bget_state]
  exact ⟨Fr.refl _ _, db, hs, rfl⟩

theorem bput_frame {s : St} {db : DB} (hs : s.db = some db) (k v : ByteArray) : Framed s (bput s k v).1 db := by
  have hself : Framed s s db := ⟨Fr.refl _ _, db, hs, rfl⟩
  unfold bput withBatch
  rw [hs]
  simp only []
  cases db.batch with
  | none => exact hself
  | some b =>
    simp only []
    by_cases hk : k.size = 0
    · simp only [if_pos hk]; exact hself
    · simp only [if_neg hk]
      by_cases hc : b.committed = true
      · simp only [if_pos hc]; exact hself
      · simp only [if_neg hc]
        cases findStaged b.staged k with
        | none =>
          simp only []
          by_cases hcond : b.cached + diskSizeEstimate k.size v.size + maxFinRecord > db.cfg.fileSize
          · simp only [if_pos hcond]
            exact ⟨(Fr_flushAndRotate s db b).1, _, rfl, (Fr_flushAndRotate s db b).2⟩
          · simp only [if_neg hcond]
            exact ⟨Fr.refl _ _, _, rfl, rfl⟩
        | some r =>
          simp only []
          split
          · exact ⟨(Fr_flushAndRotate s db b).1, _, rfl, (Fr_flushAndRotate s db b).2⟩
          · exact ⟨Fr.refl _ _, _, rfl, rfl⟩

theorem bdel_frame {s : St} {db : DB} (hs : s.db = some db) (k : ByteArray) : Framed s (bdel s k).1 db := by
  have hself : Framed s s db := ⟨Fr.refl _ _, db, hs, rfl⟩
  unfold bdel withBatch
  rw [hs]
  simp only []
  cases db.batch with
  | none => exact hself
  | some b =>
    simp only []
    by_cases hk : k.size = 0
    · simp only [if_pos hk]; exact hself
    · simp only [if_neg hk]
      by_cases hc : b.committed = true
      · simp only [if_pos hc]; exact hself
      · simp only [if_neg hc]
        cases findStaged b.staged k with
        | some r =>
          simp only []
          exact ⟨Fr.refl _ _, _, rfl, rfl⟩
        | none =>
          simp only []
          cases Index.get db.index k with
          | none => exact hself
          | some old =>
            simp only []
            by_cases hcond : b.cached + diskSizeEstimate k.size 0 + maxFinRecord > db.cfg.fileSize
            · simp only [if_pos hcond]
              exact ⟨(Fr_flushAndRotate s db b).1, _, rfl, (Fr_flushAndRotate s db b).2⟩
            · simp only [if_neg hcond]
              exact ⟨Fr.refl _ _, _, rfl, rfl⟩

theorem bcommit_frame {s : St} {db : DB} (hs : s.db = some db) : Framed s (bcommit s).1 db := by
  have hself : Framed s s db := ⟨Fr.refl _ _, db, hs, rfl⟩
  cases hb : db.batch with
  | none =>
    unfold bcommit withBatch
    rw [hs]
    simp only [hb]
    exact hself
  | some b =>
    by_cases hc : b.committed = true
    · rw [bcommit_committed hs hb hc]; exact hself
    · have hc' : b.committed = false := by simpa using hc
      by_cases he : b.staged = []
      · rw [bcommit_empty hs hb hc' he]
        exact ⟨Fr.refl _ _, _, rfl, rfl⟩
      · rw [bcommit_nonempty hs hb hc' he]
        obtain ⟨h1, h2⟩ := Fr_flushStaged s db { b with committed := true }
        refine ⟨?_, _, rfl, h2⟩
        refine h1.trans ?_
        have := Fr_putFile (flushStaged s db { b with committed := true }).1
          (flushStaged s db { b with committed := true }).2.1
          (flushStaged s db { b with committed := true }).2.1.activeId
          { bytes := appendRec C (activeFile (flushStaged s db { b with committed := true }).1
                (flushStaged s db { b with committed := true }).2.1).bytes
              (encodeRecord (finRec (flushStaged s db { b with committed := true }).2.2.id)),
            synced := if (flushStaged s db { b with committed := true }).2.2.sync
              then (appendRec C (activeFile (flushStaged s db { b with committed := true }).1
                (flushStaged s db { b with committed := true }).2.1).bytes
                (encodeRecord (finRec (flushStaged s db { b with committed := true }).2.2.id))).size
              else (activeFile (flushStaged s db { b with committed := true }).1
                (flushStaged s db { b with committed := true }).2.1).synced }
        rw [h2] at this
        exact this

/-! ## a sufficient condition for batch-id freshness -/

theorem replayFrom_fresh (id : Nat) (l : List (Record × Pos)) : ∀ (r : Replay),
    pendingGet r.pending id = [] → (∀ x ∈ l, x.1.batch ≠ id) →
    pendingGet (Restart.replayFrom r l).pending id = [] := by
  induction l with
  | nil => intro r h _; exact h
  | cons x t ih =>
    intro r h hne
    rw [Restart.replayFrom_cons]
    apply ih _ _ (fun y hy => hne y (List.mem_cons_of_mem _ hy))
    have hx : x.1.batch ≠ id := hne x (by simp)
    by_cases h0 : x.1.batch = 0
    · unfold replayRec
      rw [if_pos h0, Engine.apply_pending]
      exact h
    · by_cases h2 : x.1.typ = 2
      · rw [Restart.replayRec_fin _ _ _ h0 h2]
        show pendingGet (r.pending.filter (·.1 ≠ x.1.batch)) id = []
        rw [Restart.pendingGet_filter_ne _ _ _ (fun e => hx e.symm)]
        exact h
      · rw [Restart.replayRec_tagged _ _ _ h0 h2]
        show pendingGet (pendingAdd r.pending x.1.batch (x.1, x.2)) id = []
        rw [Restart.pendingGet_add_ne _ _ _ _ (fun e => hx e.symm)]
        exact h

/-- **a batch id that does not occur in the log is fresh** (Go draws the id from a snowflake
    generator: ids are unique per process and time-ordered) -/
theorem fresh_of_unused (id : Nat) (l : List (Record × Pos)) (h : ∀ x ∈ l, x.1.batch ≠ id) :
    pendingGet (replayLog l).pending id = [] := by
  rw [Restart.replayLog_eq]
  exact replayFrom_fresh id l Replay.init rfl h

end XixiKV.Engine.BatchP
