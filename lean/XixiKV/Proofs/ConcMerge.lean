import XixiKV.Model.ConcMerge
import XixiKV.Proofs.Conc
/-!
# A concurrent Merge preserves every key's value   (helpers + statements for C06 / C08)

The statements at the end of the file are restated as property theorems in `Properties/C06.lean` and
`Properties/C08.lean`.
-/
namespace XixiKV.ConcMerge
open XixiKV.Conc

/-! ## helpers: pigeonhole for the executable permutation check -/

theorem perm_of_nodup_subset_length : ∀ (S T : List Nat), S.Nodup → S ⊆ T → T.length = S.length →
    T.Perm S := by
  intro S
  induction S with
  | nil =>
    intro T _ _ hl
    have : T = [] := List.eq_nil_of_length_eq_zero (by simpa using hl)
    subst this; exact .nil
  | cons a S ih =>
    intro T hnd hsub hl
    rw [List.nodup_cons] at hnd
    have ha : a ∈ T := hsub List.mem_cons_self
    have hsub' : S ⊆ T.erase a := by
      intro x hx
      have hxa : x ≠ a := fun h => hnd.1 (h ▸ hx)
      exact (List.mem_erase_of_ne hxa).2 (hsub (List.mem_cons_of_mem _ hx))
    have hlen : (T.erase a).length = S.length := by
      rw [List.length_erase, if_pos ha]
      simp only [List.length_cons] at hl
      omega
    exact (List.perm_cons_erase ha).trans ((ih _ hnd.2 hsub' hlen).cons a)

theorem isPermOfRange_sound {td : List Nat} {n : Nat} (h : isPermOfRange td n = true) :
    td.Perm (List.range n) := by
  unfold isPermOfRange at h
  simp only [Bool.and_eq_true, beq_iff_eq, List.all_eq_true, List.contains_iff_mem] at h
  obtain ⟨hl, hall⟩ := h
  exact perm_of_nodup_subset_length _ _ List.nodup_range (fun x hx => hall x hx)
    (by rw [hl, List.length_range])

theorem nextM_sound {sh : Shape} {b : Bool} {a a' : GM} {l : LabelM}
    (h : nextM sh b a l = some a') : StepM sh b a a' := by
  obtain ⟨g, m⟩ := a
  cases l with
  | cl t l =>
    simp only [nextM] at h
    cases hn : next sh g t l with
    | none => rw [hn] at h; cases h
    | some g1 =>
      rw [hn] at h
      simp only [Option.map_some, Option.some.injEq] at h
      subst h
      exact StepM.base _ _ _ (next_sound hn)
  | mstart todo =>
    simp only [nextM] at h
    split at h
    · rename_i hc
      cases h
      obtain ⟨h1, h2, h3⟩ := hc
      refine StepM.mstart _ _ _ h1 ?_ (isPermOfRange_sound h3)
      intro hb
      rcases h2 with h2 | h2
      · rw [hb] at h2; cases h2
      · exact h2
    · cases h
  | mvisit =>
    cases m with
    | idle => cases h
    | done n out => cases h
    | scanning n todo out =>
      cases todo with
      | nil => cases h
      | cons i todo => cases h; exact StepM.mvisit _ _ _ _ _
  | mfinish =>
    cases m with
    | idle => cases h
    | done n out => cases h
    | scanning n todo out =>
      cases todo with
      | nil => cases h; exact StepM.mfinish _ _ _
      | cons i todo => cases h
  | mabort =>
    cases m with
    | idle => cases h
    | done n out => cases h
    | scanning n todo out => cases h; exact StepM.mabort _ _ _ _

/-- the merge goroutine does not disturb the clients: every state reachable with a concurrent merge
projects to a state reachable without one (so everything proved about `Conc.Reachable` — mutual
exclusion, linearizability, restart agreement — holds with a Merge running) -/
theorem reachableM_base {sh : Shape} {b : Bool} {a : GM} (h : ReachableM sh b a) : Reachable sh a.g := by
  induction h with
  | init => exact Reachable.init
  | step _ hs ih =>
    cases hs with
    | base g g' m hst => exact Reachable.step ih hst
    | mstart g m todo _ _ _ => exact ih
    | mvisit g n i todo out => exact ih
    | mfinish g n out => exact ih
    | mabort g n todo out => exact ih

/-- soundness of the executable form -/
theorem execM_reachable {sh : Shape} {b : Bool} {s : List LabelM} {a a' : GM}
    (hr : ReachableM sh b a) (h : execM sh b s a = some a') : ReachableM sh b a' := by
  induction s generalizing a with
  | nil => simp only [execM, Option.some.injEq] at h; subst h; exact hr
  | cons l rest ih =>
    simp only [execM] at h
    cases hn : nextM sh b a l with
    | none => rw [hn] at h; cases h
    | some a1 =>
      rw [hn] at h
      exact ih (ReachableM.step hr (nextM_sound hn)) h

/-! ## helpers: what a restart recovers is the last record of each key -/

theorem rev_ind {P : List Rec → Prop} (h0 : P []) (h1 : ∀ L r, P L → P (L ++ [r])) : ∀ L, P L := by
  intro L
  have key : ∀ M : List Rec, P M.reverse := by
    intro M
    induction M with
    | nil => exact h0
    | cons a M ih => rw [List.reverse_cons]; exact h1 _ _ ih
  have := key L.reverse
  rwa [List.reverse_reverse] at this

def recVal : Rec → Option Val
  | .put _ v => some v
  | .del _ => none

def lastStep (k : Key) (acc : Option Val) (r : Rec) : Option Val :=
  if recKey r = k then recVal r else acc

/-- the value of the last record of key `k` (nothing if there is none or it is a tombstone) -/
def lastVal (L : List Rec) (k : Key) : Option Val := L.foldl (lastStep k) none

theorem lastVal_snoc (L : List Rec) (r : Rec) (k : Key) :
    lastVal (L ++ [r]) k = if recKey r = k then recVal r else lastVal L k := by
  simp [lastVal, List.foldl_append, lastStep]

theorem foldl_lastStep_noKey {k : Key} : ∀ (B : List Rec) (x : Option Val),
    (∀ r ∈ B, recKey r ≠ k) → B.foldl (lastStep k) x = x := by
  intro B
  induction B with
  | nil => intro x _; rfl
  | cons r B ih =>
    intro x h
    simp only [List.foldl_cons]
    rw [ih _ (fun r' hr' => h r' (List.mem_cons_of_mem _ hr'))]
    simp [lastStep, h r List.mem_cons_self]

theorem foldl_lastStep_hasKey {k : Key} : ∀ (B : List Rec) (x y : Option Val),
    (∃ r ∈ B, recKey r = k) → B.foldl (lastStep k) x = B.foldl (lastStep k) y := by
  intro B
  induction B with
  | nil => intro x y h; obtain ⟨r, hr, _⟩ := h; cases hr
  | cons r B ih =>
    intro x y h
    simp only [List.foldl_cons]
    by_cases e : recKey r = k
    · simp [lastStep, e]
    · obtain ⟨r', hr', hk'⟩ := h
      rcases List.mem_cons.1 hr' with rfl | hr''
      · exact absurd hk' e
      · exact ih _ _ ⟨r', hr'', hk'⟩

theorem lastVal_append_noKey {A B : List Rec} {k : Key} (h : ∀ r ∈ B, recKey r ≠ k) :
    lastVal (A ++ B) k = lastVal A k := by
  simp only [lastVal, List.foldl_append]; exact foldl_lastStep_noKey _ _ h

theorem lastVal_append_hasKey {A A' B : List Rec} {k : Key} (h : ∃ r ∈ B, recKey r = k) :
    lastVal (A ++ B) k = lastVal (A' ++ B) k := by
  simp only [lastVal, List.foldl_append]; exact foldl_lastStep_hasKey _ _ _ h

theorem replay_lt : ∀ (L : List Rec) (k : Key) (q : Nat), replay L k = some q → q < L.length := by
  intro L
  induction L using rev_ind with
  | h0 => intro k q h; cases h
  | h1 L r ih =>
    intro k q h
    rw [replay_append] at h
    simp only [List.length_append, List.length_cons, List.length_nil]
    cases r with
    | put k' v =>
      simp only [applyRec, updK] at h
      split at h
      · cases h; omega
      · have := ih k q h; omega
    | del k' =>
      simp only [applyRec, updK] at h
      split at h
      · cases h
      · have := ih k q h; omega

theorem recovered_eq_lastVal : ∀ (L : List Rec) (k : Key), recovered L k = lastVal L k := by
  intro L
  induction L using rev_ind with
  | h0 => intro k; rfl
  | h1 L r ih =>
    intro k
    have hold : valAt (L ++ [r]) (replay L k) = lastVal L k := by
      rw [valAt_append_lt _ _ _ (fun q hq => replay_lt L k q hq)]; exact ih k
    show valAt (L ++ [r]) (replay (L ++ [r]) k) = lastVal (L ++ [r]) k
    rw [replay_append, lastVal_snoc]
    cases r with
    | put k' v =>
      by_cases e : k = k'
      · subst e
        simp [applyRec, recKey, recVal, valAt]
      · have e' : ¬ recKey (Rec.put k' v) = k := fun h => e h.symm
        rw [if_neg e']
        simp only [applyRec, updK_ne _ _ e]
        exact hold
    | del k' =>
      by_cases e : k = k'
      · subst e
        simp [applyRec, recKey, recVal, valAt]
      · have e' : ¬ recKey (Rec.del k') = k := fun h => e h.symm
        rw [if_neg e']
        simp only [applyRec, updK_ne _ _ e]
        exact hold

/-- the output of the scan: only puts, at most one per key, each copied from an old position; and
each is either still the live record of its key or superseded by a record written after the merge
started ("the directory holds only the merged live records plus post-merge writes") -/
def OutOK (g : G) (n : Nat) (out : List Rec) : Prop :=
  (out.map recKey).Nodup ∧
  ∀ r ∈ out, ∃ k v i, r = .put k v ∧ i < n ∧ g.log[i]? = some (.put k v) ∧
    (g.idx k = some i ∨ ∃ j r', n ≤ j ∧ g.log[j]? = some r' ∧ recKey r' = k)

/-! ## the invariant of a running / finished scan -/

/-- a thread between its append and its index update appended after the boundary was fixed
(the boundary is fixed with `db.mu` free, and only the holder of `db.mu` is in such a state) -/
def ThreadOK (n : Nat) (log : List Rec) : PC → Prop
  | .putAppended _ _ q _ => n ≤ q
  | .delAppended k _ => ∃ j, n ≤ j ∧ log[j]? = some (.del k)
  | _ => True

/-- no record of key `k` was written after the boundary -/
def NoNew (g : G) (n : Nat) (k : Key) : Prop := ∀ j r, n ≤ j → g.log[j]? = some r → recKey r ≠ k

/-- invariant of a scan with boundary `n`, positions `todo` still to visit and output `out`
(a finished scan is the case `todo = []`) -/
structure MCore (g : G) (n : Nat) (todo : List Nat) (out : List Rec) : Prop where
  le : n ≤ g.log.length
  thr : ∀ t, ThreadOK n g.log (g.pc t)
  nodup : todo.Nodup
  bound : ∀ i ∈ todo, i < n
  outOK : OutOK g n out
  /-- a key whose index entry is an old, not yet visited position has no record in `out` -/
  fresh : ∀ k p, g.idx k = some p → p < n → p ∈ todo → ∀ r ∈ out, recKey r ≠ k
  /-- a key without post-boundary records whose index entry (if any) was visited: the last record
  of the key in `out` carries the live value -/
  last : ∀ k, NoNew g n k → (∀ p, g.idx k = some p → p ∉ todo) → lastVal out k = absMap g k

theorem getElem?_append_of_some {α} {l : List α} {i : Nat} {a : α} (x : α) (h : l[i]? = some a) :
    (l ++ [x])[i]? = some a := by
  rw [getElem?_append_lt _ _ _ (lt_of_getElem?_eq_some h)]; exact h

theorem threadOK_of_unlocked {n : Nat} {log : List Rec} {c : PC} (h1 : inCS c = false)
    (h2 : badPC c = false) : ThreadOK n log c := by
  cases c <;> (try (rename_i b; cases b)) <;> simp_all [ThreadOK, inCS, badPC]

theorem threadOK_append {n : Nat} {log : List Rec} (r : Rec) {c : PC} (h : ThreadOK n log c) :
    ThreadOK n (log ++ [r]) c := by
  cases c with
  | delAppended k held =>
    obtain ⟨j, hj, hl⟩ := h
    exact ⟨j, hj, getElem?_append_of_some _ hl⟩
  | _ => exact h

theorem mcore_start {g : G} {todo : List Nat} (hI : Inv g) (hw : g.writer = none)
    (hp : todo.Perm (List.range g.log.length)) : MCore g g.log.length todo [] := by
  refine ⟨Nat.le_refl _, ?_, (hp.nodup_iff).2 List.nodup_range, ?_, ⟨by simp, by simp⟩, ?_, ?_⟩
  · intro t
    apply threadOK_of_unlocked
    · cases h : inCS (g.pc t) with
      | false => rfl
      | true => have := (hI.lock t).1 h; rw [hw] at this; cases this
    · exact hI.shape t
  · intro i hi; exact List.mem_range.1 ((hp.mem_iff).1 hi)
  · intro k p _ _ _ r hr; cases hr
  · intro k _ hvis
    show none = valAt g.log (g.idx k)
    cases hk : g.idx k with
    | none => rfl
    | some p =>
      obtain ⟨v, hv⟩ := hI.idxOK k p hk
      exact absurd ((hp.mem_iff).2 (List.mem_range.2 (lt_of_getElem?_eq_some hv))) (hvis p hk)

/-- visiting a position the index does not point at -/
theorem mcore_skip {g : G} {n i : Nat} {todo : List Nat} {out : List Rec}
    (hM : MCore g n (i :: todo) out) (hno : ∀ k, g.idx k ≠ some i) : MCore g n todo out := by
  refine ⟨hM.le, hM.thr, (List.nodup_cons.1 hM.nodup).2,
    fun j hj => hM.bound j (List.mem_cons_of_mem _ hj), hM.outOK, ?_, ?_⟩
  · intro k p hk hp hmem
    exact hM.fresh k p hk hp (List.mem_cons_of_mem _ hmem)
  · intro k hnn hvis
    apply hM.last k hnn
    intro p hk hmem
    rcases List.mem_cons.1 hmem with rfl | h'
    · exact hno k hk
    · exact hvis p hk h'

/-- visiting the position the index points at: the record is rewritten -/
theorem mcore_copy {g : G} {n i : Nat} {todo : List Nat} {out : List Rec} {k : Key} {v : Val}
    (hI : Inv g) (hM : MCore g n (i :: todo) out) (hl : g.log[i]? = some (.put k v))
    (hidx : g.idx k = some i) : MCore g n todo (out ++ [.put k v]) := by
  have hnd := List.nodup_cons.1 hM.nodup
  have hin : i < n := hM.bound i List.mem_cons_self
  have hfresh : ∀ r ∈ out, recKey r ≠ k := hM.fresh k i hidx hin List.mem_cons_self
  refine ⟨hM.le, hM.thr, hnd.2, fun j hj => hM.bound j (List.mem_cons_of_mem _ hj), ⟨?_, ?_⟩, ?_, ?_⟩
  · rw [List.map_append, List.nodup_append]
    refine ⟨hM.outOK.1, by simp, ?_⟩
    intro a ha b hb
    obtain ⟨r, hr, rfl⟩ := List.mem_map.1 ha
    simp only [List.map_cons, List.map_nil, List.mem_singleton, recKey] at hb
    subst hb
    exact hfresh r hr
  · intro r hr
    rcases List.mem_append.1 hr with hr | hr
    · exact hM.outOK.2 r hr
    · simp only [List.mem_singleton] at hr
      subst hr
      exact ⟨k, v, i, rfl, hin, hl, Or.inl hidx⟩
  · intro k0 p hk hp hmem r hr
    rcases List.mem_append.1 hr with hr | hr
    · exact hM.fresh k0 p hk hp (List.mem_cons_of_mem _ hmem) r hr
    · simp only [List.mem_singleton] at hr
      subst hr
      intro e
      simp only [recKey] at e
      subst e
      rw [hidx] at hk
      cases hk
      exact hnd.1 hmem
  · intro k0 hnn hvis
    rw [lastVal_snoc]
    by_cases e : k = k0
    · subst e
      simp [recKey, recVal, absMap, hidx, valAt, hl]
    · have e' : ¬ recKey (Rec.put k v) = k0 := e
      rw [if_neg e']
      apply hM.last k0 hnn
      intro p hk hmem
      rcases List.mem_cons.1 hmem with rfl | h'
      · obtain ⟨v', hv'⟩ := hI.idxOK k0 p hk
        rw [hl] at hv'
        cases hv'
        exact e rfl
      · exact hvis p hk h'

theorem mcore_visit {g : G} {n i : Nat} {todo : List Nat} {out : List Rec}
    (hI : Inv g) (hM : MCore g n (i :: todo) out) : MCore g n todo (visit g i out) := by
  unfold visit
  split
  · rename_i k v hl
    split
    · rename_i hidx; exact mcore_copy hI hM hl hidx
    · rename_i hidx
      apply mcore_skip hM
      intro k' hk'
      obtain ⟨v', hv'⟩ := hI.idxOK k' i hk'
      rw [hl] at hv'
      cases hv'
      exact hidx hk'
  · rename_i hne
    apply mcore_skip hM
    intro k' hk'
    obtain ⟨v', hv'⟩ := hI.idxOK k' i hk'
    exact hne k' v' hv'

/-- client steps that leave the log and the index alone -/
theorem mcore_same {g g' : G} {n : Nat} {todo : List Nat} {out : List Rec}
    (hlog : g'.log = g.log) (hidx : g'.idx = g.idx) (hthr : ∀ t, ThreadOK n g'.log (g'.pc t))
    (hM : MCore g n todo out) : MCore g' n todo out := by
  refine ⟨by rw [hlog]; exact hM.le, hthr, hM.nodup, hM.bound, ?_, ?_, ?_⟩
  · unfold OutOK; rw [hlog, hidx]; exact hM.outOK
  · rw [hidx]; exact hM.fresh
  · intro k hnn hvis
    have : absMap g' k = absMap g k := by simp only [absMap, hlog, hidx]
    rw [this]
    apply hM.last k
    · intro j r hj hr; exact hnn j r hj (by rw [hlog]; exact hr)
    · rw [← hidx]; exact hvis

/-- appends -/
theorem mcore_append {g g' : G} {n : Nat} {todo : List Nat} {out : List Rec} (r : Rec)
    (hI : Inv g) (hlog : g'.log = g.log ++ [r]) (hidx : g'.idx = g.idx)
    (hthr : ∀ t, ThreadOK n g'.log (g'.pc t)) (hM : MCore g n todo out) : MCore g' n todo out := by
  refine ⟨?_, hthr, hM.nodup, hM.bound, ⟨hM.outOK.1, ?_⟩, ?_, ?_⟩
  · rw [hlog, List.length_append]; have := hM.le; omega
  · intro r0 hr0
    obtain ⟨k, v, i, h1, h2, h3, h4⟩ := hM.outOK.2 r0 hr0
    refine ⟨k, v, i, h1, h2, by rw [hlog]; exact getElem?_append_of_some _ h3, ?_⟩
    rcases h4 with h4 | ⟨j, r', hj, hr', hk'⟩
    · exact Or.inl (by rw [hidx]; exact h4)
    · exact Or.inr ⟨j, r', hj, by rw [hlog]; exact getElem?_append_of_some _ hr', hk'⟩
  · rw [hidx]; exact hM.fresh
  · intro k hnn hvis
    have : absMap g' k = absMap g k := by
      simp only [absMap, hlog, hidx]
      apply valAt_append_lt
      intro q hq
      obtain ⟨v, hv⟩ := hI.idxOK k q hq
      exact lt_of_getElem?_eq_some hv
    rw [this]
    apply hM.last k
    · intro j r' hj hr'; exact hnn j r' hj (by rw [hlog]; exact getElem?_append_of_some _ hr')
    · rw [← hidx]; exact hvis

/-- index updates: they concern a key that has a record after the boundary, and install a position
after the boundary (or nothing) -/
theorem mcore_index {g g' : G} {n : Nat} {todo : List Nat} {out : List Rec} (k0 : Key)
    (x : Option Nat) (hlog : g'.log = g.log) (hidx : g'.idx = updK g.idx k0 x)
    (hx : ∀ p, x = some p → n ≤ p)
    (hnew : ∃ j r, n ≤ j ∧ g.log[j]? = some r ∧ recKey r = k0)
    (hthr : ∀ t, ThreadOK n g'.log (g'.pc t)) (hM : MCore g n todo out) : MCore g' n todo out := by
  refine ⟨by rw [hlog]; exact hM.le, hthr, hM.nodup, hM.bound, ⟨hM.outOK.1, ?_⟩, ?_, ?_⟩
  · intro r0 hr0
    obtain ⟨k, v, i, h1, h2, h3, h4⟩ := hM.outOK.2 r0 hr0
    refine ⟨k, v, i, h1, h2, by rw [hlog]; exact h3, ?_⟩
    rw [hlog]
    by_cases e : k = k0
    · subst e; exact Or.inr hnew
    · rcases h4 with h4 | h4
      · exact Or.inl (by rw [hidx, updK_ne _ _ e]; exact h4)
      · exact Or.inr h4
  · intro k p hk hp hmem
    by_cases e : k = k0
    · subst e
      rw [hidx, updK_same] at hk
      have := hx p hk
      omega
    · rw [hidx, updK_ne _ _ e] at hk
      exact hM.fresh k p hk hp hmem
  · intro k hnn hvis
    by_cases e : k = k0
    · subst e
      obtain ⟨j, r, hj, hr, hk⟩ := hnew
      exact absurd hk (hnn j r hj (by rw [hlog]; exact hr))
    · have : absMap g' k = absMap g k := by simp only [absMap, hlog, hidx, updK_ne _ _ e]
      rw [this]
      apply hM.last k
      · intro j r hj hr; exact hnn j r hj (by rw [hlog]; exact hr)
      · intro p hk; exact hvis p (by rw [hidx, updK_ne _ _ e]; exact hk)

/-- the scan invariant is preserved by every client step -/
theorem mcore_step {g g' : G} {n : Nat} {todo : List Nat} {out : List Rec} (hI : Inv g)
    (hs : Step Shape.allTrue g g') (hM : MCore g n todo out) : MCore g' n todo out := by
  cases hs with
  | loc t c c' evs hpc hl =>
    refine mcore_same (g := g) rfl rfl (forall_upd (Q := ThreadOK n g.log) hM.thr ?_) hM
    cases hl <;> exact trivial
  | acq t c c' hpc ha hw =>
    refine mcore_same (g := g) rfl rfl (forall_upd (Q := ThreadOK n g.log) hM.thr ?_) hM
    cases ha <;> exact trivial
  | rel t c c' hpc hr =>
    refine mcore_same (g := g) rfl rfl (forall_upd (Q := ThreadOK n g.log) hM.thr ?_) hM
    cases hr with
    | putEarly k v p hsh => cases hsh
    | put k v => exact trivial
    | delMiss k => exact trivial
    | delEarly k hsh => cases hsh
    | del k r => exact trivial
  | putAppend t k v hpc =>
    refine mcore_append (g := g) (.put k v) hI rfl rfl ?_ hM
    exact forall_upd (Q := ThreadOK n (g.log ++ [.put k v]))
      (fun t' => threadOK_append _ (hM.thr t')) (c' := .putAppended k v g.log.length true) hM.le
  | putIndex t k v p h hpc hsh =>
    have ht := hM.thr t
    rw [hpc] at ht
    have hlf := hI.logF t
    rw [hpc] at hlf
    refine mcore_index (g := g) k (some p) rfl rfl ?_ ⟨p, .put k v, ht, hlf, rfl⟩
      (forall_upd (Q := ThreadOK n g.log) hM.thr trivial) hM
    intro p' hp'; cases hp'; exact ht
  | delAppend t k hpc =>
    refine mcore_append (g := g) (.del k) hI rfl rfl ?_ hM
    refine forall_upd (Q := ThreadOK n (g.log ++ [.del k]))
      (fun t' => threadOK_append _ (hM.thr t')) ?_
    exact ⟨g.log.length, hM.le, List.getElem?_concat_length⟩
  | delIndex t k h hpc hsh =>
    have ht := hM.thr t
    rw [hpc] at ht
    obtain ⟨j, hj, hlj⟩ := ht
    exact mcore_index (g := g) k none rfl rfl (fun p' hp' => by cases hp') ⟨j, .del k, hj, hlj, rfl⟩
      (forall_upd (Q := ThreadOK n g.log) hM.thr trivial) hM

def MInv (a : GM) : Prop :=
  match a.m with
  | .idle => True
  | .scanning n todo out => MCore a.g n todo out
  | .done n out => MCore a.g n [] out

theorem reachableM_minv {a : GM} (h : ReachableM Shape.allTrue true a) : MInv a := by
  induction h with
  | init => trivial
  | step hr hs ih =>
    have hI := reachable_inv (reachableM_base hr)
    cases hs with
    | base g g' m hst =>
      cases m with
      | idle => trivial
      | scanning n todo out => exact mcore_step hI hst ih
      | done n out => exact mcore_step hI hst ih
    | mstart g m todo hc hw hp => exact mcore_start hI (hw rfl) hp
    | mvisit g n i todo out => exact mcore_visit hI ih
    | mfinish g n out => exact ih
    | mabort g n todo out => trivial

theorem merge_out_ok {a : GM} (h : ReachableM Shape.allTrue true a) :
    match a.m with
    | .idle => True
    | .scanning n _ out => n ≤ a.g.log.length ∧ OutOK a.g n out
    | .done n out => n ≤ a.g.log.length ∧ OutOK a.g n out := by
  have hM := reachableM_minv h
  unfold MInv at hM
  split at hM
  · trivial
  · exact ⟨hM.le, hM.outOK⟩
  · exact ⟨hM.le, hM.outOK⟩

/-- with `db.mu` free the index is the replay of the log -/
theorem idx_eq_replay_of_unlocked {g : G} (hI : Inv g) (hw : g.writer = none) :
    g.idx = replay g.log := by
  apply hI.consistent
  intro t
  cases h : midUpdate (g.pc t) with
  | false => rfl
  | true =>
    have := (hI.lock t).1 (midUpdate_inCS h)
    rw [hw] at this; cases this

theorem absMap_eq_lastVal {g : G} (hI : Inv g) (hw : g.writer = none) (k : Key) :
    absMap g k = lastVal g.log k := by
  rw [← recovered_eq_lastVal]
  show valAt g.log (g.idx k) = valAt g.log (replay g.log k)
  rw [idx_eq_replay_of_unlocked hI hw]

/-- **main theorem**: well-locked shape, boundary fixed under the lock.  In every reachable state in
which a merge has finished and `db.mu` is free (client threads may be anywhere else in their
operations, any number of operations may have run during and after the scan), a restart that adopts
the merged files recovers exactly the live mapping. -/
theorem merge_preserves {a : GM} {n : Nat} {out : List Rec}
    (h : ReachableM Shape.allTrue true a) (hm : a.m = .done n out) (hw : a.g.writer = none) :
    recovered (adopted a.g n out) = absMap a.g := by
  have hI := reachable_inv (reachableM_base h)
  have hM := reachableM_minv h
  unfold MInv at hM
  rw [hm] at hM
  simp only at hM
  funext k
  rw [recovered_eq_lastVal]
  unfold adopted
  by_cases hk : ∃ r ∈ a.g.log.drop n, recKey r = k
  · rw [absMap_eq_lastVal hI hw k, lastVal_append_hasKey (A' := a.g.log.take n) hk,
      List.take_append_drop]
  · have hno : ∀ r ∈ a.g.log.drop n, recKey r ≠ k := fun r hr e => hk ⟨r, hr, e⟩
    rw [lastVal_append_noKey hno]
    apply hM.last k
    · intro j r hj hr
      apply hno r
      rw [List.mem_iff_getElem?]
      refine ⟨j - n, ?_⟩
      rw [List.getElem?_drop]
      have : n + (j - n) = j := by omega
      rw [this]; exact hr
    · intro p _ hp; cases hp

/-- while the scan is still running (or was abandoned) nothing is adopted: a restart replays the
plain log and recovers the live mapping — this is `C08_restart_agrees_unlocked` through
`reachableM_base`, restated for the mapping -/
theorem unfinished_merge_harmless {a : GM} (h : ReachableM Shape.allTrue true a)
    (hw : a.g.writer = none) : recovered a.g.log = absMap a.g := by
  have hI := reachable_inv (reachableM_base h)
  funext k
  rw [recovered_eq_lastVal, absMap_eq_lastVal hI hw k]

/-! ## helpers for running the two schedules -/

/-- the client threads named in a schedule -/
def tidsM (s : List LabelM) : List Tid :=
  s.filterMap fun x => match x with | .cl t _ => some t | _ => none

theorem nextM_pc_other {sh : Shape} {b : Bool} {a a' : GM} {l : LabelM} {t' : Tid}
    (h : nextM sh b a l = some a') (hno : t' ∉ tidsM [l]) : a'.g.pc t' = a.g.pc t' := by
  obtain ⟨g, m⟩ := a
  cases l with
  | cl t l =>
    simp only [nextM] at h
    cases hn : next sh g t l with
    | none => rw [hn] at h; cases h
    | some g1 =>
      rw [hn] at h
      simp only [Option.map_some, Option.some.injEq] at h
      subst h
      have hne : t' ≠ t := by simpa [tidsM] using hno
      exact next_pc_other hn hne
  | mstart todo =>
    simp only [nextM] at h
    split at h
    · cases h; rfl
    · cases h
  | mvisit =>
    cases m with
    | idle => cases h
    | done n out => cases h
    | scanning n todo out =>
      cases todo with
      | nil => cases h
      | cons i todo => cases h; rfl
  | mfinish =>
    cases m with
    | idle => cases h
    | done n out => cases h
    | scanning n todo out =>
      cases todo with
      | nil => cases h; rfl
      | cons i todo => cases h
  | mabort =>
    cases m with
    | idle => cases h
    | done n out => cases h
    | scanning n todo out => cases h; rfl

theorem execM_pc_untouched {sh : Shape} {b : Bool} {s : List LabelM} {a a' : GM} {t' : Tid}
    (h : execM sh b s a = some a') (hno : t' ∉ tidsM s) : a'.g.pc t' = a.g.pc t' := by
  induction s generalizing a with
  | nil => simp only [execM, Option.some.injEq] at h; subst h; rfl
  | cons l rest ih =>
    simp only [execM] at h
    cases hn : nextM sh b a l with
    | none => rw [hn] at h; cases h
    | some a1 =>
      rw [hn] at h
      have hc : tidsM (l :: rest) = tidsM [l] ++ tidsM rest := by
        show List.filterMap _ ([l] ++ rest) = _
        rw [List.filterMap_append]; rfl
      rw [hc, List.mem_append] at hno
      have h1 : t' ∉ tidsM [l] := fun hm => hno (Or.inl hm)
      have h2 : t' ∉ tidsM rest := fun hm => hno (Or.inr hm)
      rw [ih h h2, nextM_pc_other hn h1]

theorem map_fact {α : Type} {o : Option GM} {a : GM} (f : GM → α) {v : α} (ha : o = some a)
    (h : o.map f = some v) : f a = v := by
  subst ha; simpa using h

/-- necessity of fixing the boundary under `db.mu`: without it a finished merge can lose an
acknowledged write (schedule: a Put appends, the merge starts and scans, the Put updates the index) -/
def lostWriteSchedule : List LabelM :=
  [.cl 0 (.call (.put 1 10)), .cl 0 .acq, .cl 0 .append, .mstart none, .mvisit, .mfinish,
   .cl 0 .index, .cl 0 .rel, .cl 0 .ret]

theorem merge_needs_lock :
    ∃ a n out, ReachableM Shape.allTrue false a ∧ a.m = .done n out ∧ a.g.writer = none ∧
      (∀ t, a.g.pc t = .idle) ∧ absMap a.g 1 = some 10 ∧ recovered (adopted a.g n out) 1 = none := by
  have h : (execM Shape.allTrue false lostWriteSchedule initM).isSome = true := by decide
  obtain ⟨a, ha⟩ := Option.isSome_iff_exists.1 h
  refine ⟨a, 1, [], execM_reachable ReachableM.init ha, ?_, ?_, ?_, ?_, ?_⟩
  · exact map_fact (·.m) ha (by decide)
  · exact map_fact (·.g.writer) ha (by decide)
  · intro t
    by_cases e : t = 0
    · subst e; exact map_fact (fun a => a.g.pc 0) ha (by decide)
    · rw [execM_pc_untouched ha (by simpa [tidsM, lostWriteSchedule] using e)]; rfl
  · exact map_fact (fun a => absMap a.g 1) ha (by decide)
  · exact map_fact (fun a => recovered (adopted a.g 1 []) 1) ha (by decide)

/-- non-vacuity of `merge_preserves`: a Put and a Delete race with the scan; the rewritten record of
key 1 is stale, the tombstone written after the start wins -/
def raceSchedule : List LabelM :=
  [.cl 0 (.call (.put 1 10)), .cl 0 .acq, .cl 0 .append, .cl 0 .index, .cl 0 .rel, .cl 0 .ret,
   .cl 0 (.call (.put 2 20)), .cl 0 .acq, .cl 0 .append, .cl 0 .index, .cl 0 .rel, .cl 0 .ret,
   .mstart (some [1, 0]), .mvisit,
   .cl 1 (.call (.del 1)), .cl 1 .acq, .cl 1 .check, .cl 0 (.call (.put 2 21)),
   .mvisit, .cl 1 .append, .cl 1 .index, .cl 1 .rel, .cl 0 .acq, .cl 0 .append, .cl 0 .index, .cl 0 .rel,
   .mfinish, .cl 0 .ret, .cl 1 .ret]

theorem raceSchedule_runs :
    ∃ a, execM Shape.allTrue true raceSchedule initM = some a ∧
      a.m = .done 2 [.put 2 20, .put 1 10] ∧ a.g.writer = none ∧
      absMap a.g 1 = none ∧ absMap a.g 2 = some 21 ∧
      recovered (adopted a.g 2 [.put 2 20, .put 1 10]) 1 = none ∧
      recovered (adopted a.g 2 [.put 2 20, .put 1 10]) 2 = some 21 := by
  have h : (execM Shape.allTrue true raceSchedule initM).isSome = true := by decide
  obtain ⟨a, ha⟩ := Option.isSome_iff_exists.1 h
  refine ⟨a, ha, ?_, ?_, ?_, ?_, ?_, ?_⟩
  · exact map_fact (·.m) ha (by decide)
  · exact map_fact (·.g.writer) ha (by decide)
  · exact map_fact (fun a => absMap a.g 1) ha (by decide)
  · exact map_fact (fun a => absMap a.g 2) ha (by decide)
  · exact map_fact (fun a => recovered (adopted a.g 2 [.put 2 20, .put 1 10]) 1) ha (by decide)
  · exact map_fact (fun a => recovered (adopted a.g 2 [.put 2 20, .put 1 10]) 2) ha (by decide)

end XixiKV.ConcMerge
