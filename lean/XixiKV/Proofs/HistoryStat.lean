import XixiKV.Properties.C01History
import XixiKV.Properties.C11
/-!
# Whole histories, point by point — helper lemmas for `Properties/C17History.lean`

`C01_refines_history` speaks about the END of a history.  C17 / C13 are state properties that are to
hold at EVERY point.  This file provides

* `points` — an invariant `J` that every call preserves (given the history invariant `HInv` and the
  side conditions of the call) holds, together with `HInv`, after every prefix `h.take n`; `J` may
  depend on a ghost accumulator that is folded along the history (e.g. the largest `DataFileSize`
  configured so far);
* `steps` — a relation between the state before a call and the call (e.g. "what this restart does
  to the counters") that follows from `HInv` and the side conditions holds at every position;
* `StatAt` — what `Stat` reports in a state without a live batch, against the abstract map;
  `StatAt_of_Inv` / `HInvQ.statAt`;
* the two restarts with the counters explicit: `restart_scan_counters` (nothing adoptable: the
  replay's counters) and `restart_adopt_counters` (finished merge: the replay's counters plus the
  excess `S` of `C06_adopt`, now for `MergeOutB`, i.e. with batches between the merge and its
  adoption), combined in `RestartCounters`.
-/
namespace XixiKV.C17H
open XixiKV XixiKV.Frame XixiKV.Record XixiKV.Index XixiKV.Engine XixiKV.Engine.BatchP XixiKV.Engine.HistP
open XixiKV.Engine.Restart XixiKV.Engine.MergeP XixiKV.Adopt
open XixiKV.C01H
open XixiKV.C01 (Spec specEmpty absOf)

/-! ## prefixes of a history -/

theorem hrun_take_cons (dir : String) (s : St) (op : HOp) (ops : List HOp) (n : Nat) :
    (hrun dir s ((op :: ops).take (n + 1))).1 = (hrun dir (hstep dir s op).1 (ops.take n)).1 := rfl

theorem specRun_take_cons (σ : SpecSt) (op : HOp) (ops : List HOp) (n : Nat) :
    (specRun σ ((op :: ops).take (n + 1))).1 = (specRun (specStep σ op).1 (ops.take n)).1 := rfl

theorem wf_head {σ : SpecSt} {op : HOp} {ops : List HOp} (hwf : WF (isLive σ.slot) (op :: ops) = true) :
    (isLive σ.slot = true → batchCall op = true) ∧ WF (isLive (specStep σ op).1.slot) ops = true := by
  simp only [WF, Bool.and_eq_true, Bool.or_eq_true, Bool.not_eq_true'] at hwf
  have hall : isLive σ.slot = true → batchCall op = true := by
    intro hl
    rcases hwf.1 with h1 | h1
    · rw [hl] at h1; cases h1
    · exact h1
  exact ⟨hall, by rw [isLive_step σ op hall]; exact hwf.2⟩

/-- **an invariant at every point of a history.**  `γ` is a ghost accumulator folded along the
    history by `gstep`, `Q` an additional side condition on the calls. -/
theorem points {γ : Type} (dir : String) (Q : HOp → Prop) (gstep : γ → HOp → γ) (J : γ → St → SpecSt → Prop)
    (hJ : ∀ (c : γ) (s : St) (σ : SpecSt) (op : HOp), HInv dir s σ → J c s σ → HOpOK dir op → Q op →
      (isLive σ.slot = true → batchCall op = true) → StepOK dir s op →
      J (gstep c op) (hstep dir s op).1 (specStep σ op).1) :
    ∀ (h : List HOp) (s : St) (σ : SpecSt) (c : γ), HInv dir s σ → J c s σ →
      (∀ op ∈ h, HOpOK dir op ∧ Q op) → WF (isLive σ.slot) h = true → RunOK dir s h → ∀ n,
      HInv dir (hrun dir s (h.take n)).1 (specRun σ (h.take n)).1 ∧
      J ((h.take n).foldl gstep c) (hrun dir s (h.take n)).1 (specRun σ (h.take n)).1 := by
  intro h
  induction h with
  | nil => intro s σ c hi hj _ _ _ n; rw [List.take_nil]; exact ⟨hi, hj⟩
  | cons op ops ih =>
    intro s σ c hi hj hok hwf hro n
    cases n with
    | zero => exact ⟨hi, hj⟩
    | succ n =>
      obtain ⟨hall, hwf'⟩ := wf_head hwf
      obtain ⟨hop, hq⟩ := hok op (by simp)
      obtain ⟨_, hi'⟩ := hstep_ok op hi hop hall hro.1
      have hj' := hJ c s σ op hi hj hop hq hall hro.1
      have := ih (hstep dir s op).1 (specStep σ op).1 (gstep c op) hi' hj'
        (fun o ho => hok o (by simp [ho])) hwf' hro.2 n
      rw [hrun_take_cons, specRun_take_cons, List.take_succ_cons, List.foldl_cons]
      exact this

/-- **a relation between a state and the call made in it, at every position of a history** -/
theorem steps (dir : String) (Q : HOp → Prop) (R : St → SpecSt → HOp → Prop)
    (hR : ∀ (s : St) (σ : SpecSt) (op : HOp), HInv dir s σ → HOpOK dir op → Q op →
      (isLive σ.slot = true → batchCall op = true) → StepOK dir s op → R s σ op) :
    ∀ (h : List HOp) (s : St) (σ : SpecSt), HInv dir s σ →
      (∀ op ∈ h, HOpOK dir op ∧ Q op) → WF (isLive σ.slot) h = true → RunOK dir s h → ∀ n (hn : n < h.length),
      R (hrun dir s (h.take n)).1 (specRun σ (h.take n)).1 h[n] := by
  intro h
  induction h with
  | nil => intro s σ _ _ _ _ n hn; simp at hn
  | cons op ops ih =>
    intro s σ hi hok hwf hro n hn
    obtain ⟨hall, hwf'⟩ := wf_head hwf
    obtain ⟨hop, hq⟩ := hok op (by simp)
    cases n with
    | zero => exact hR s σ op hi hop hq hall hro.1
    | succ n =>
      obtain ⟨_, hi'⟩ := hstep_ok op hi hop hall hro.1
      have := ih (hstep dir s op).1 (specStep σ op).1 hi' (fun o ho => hok o (by simp [ho])) hwf' hro.2 n
        (by simpa using hn)
      rw [hrun_take_cons, specRun_take_cons]
      simpa using this

/-- the state reached after `n + 1` calls is one call after the state reached after `n` calls -/
theorem hrun_take_succ (dir : String) : ∀ (h : List HOp) (s : St) (n : Nat) (hn : n < h.length),
    (hrun dir s (h.take (n + 1))).1 = (hstep dir (hrun dir s (h.take n)).1 h[n]).1 := by
  intro h
  induction h with
  | nil => intro s n hn; simp at hn
  | cons op ops ih =>
    intro s n hn
    cases n with
    | zero => rfl
    | succ n =>
      rw [hrun_take_cons, hrun_take_cons]
      have := ih (hstep dir s op).1 n (by simpa using hn)
      simpa using this

theorem specRun_take_succ : ∀ (h : List HOp) (σ : SpecSt) (n : Nat) (hn : n < h.length),
    (specRun σ (h.take (n + 1))).1 = (specStep (specRun σ (h.take n)).1 h[n]).1 := by
  intro h
  induction h with
  | nil => intro σ n hn; simp at hn
  | cons op ops ih =>
    intro σ n hn
    cases n with
    | zero => rfl
    | succ n =>
      rw [specRun_take_cons, specRun_take_cons]
      have := ih (specStep σ op).1 n (by simpa using hn)
      simpa using this

theorem hrun_take_all (dir : String) (h : List HOp) (s : St) : hrun dir s (h.take h.length) = hrun dir s h := by
  rw [List.take_length]

/-! ## what `Stat` reports, against the abstract map -/

/-- the size the writer reports for a logged record: its encoding plus one 7-byte header per chunk
    (`C11_size`); block padding is not part of it -/
theorem zip_posAll_size (fid : Nat) : ∀ (gf : GFile) (f : ByteArray) (r : Record) (p : Pos),
    (r, p) ∈ gf.zip (posAll C fid f (payloads gf)) → ∃ n, 0 < n ∧ p.size = n * 7 + (encodeRecord r).size := by
  intro gf
  induction gf with
  | nil => intro f r p h; simp at h
  | cons x gf ih =>
    intro f r p h
    have e : posAll C fid f (payloads (x :: gf))
        = posOf C fid f.size (encodeRecord x) :: posAll C fid (appendRec C f (encodeRecord x)) (payloads gf) := rfl
    rw [e, List.zip_cons_cons] at h
    rcases List.mem_cons.mp h with h | h
    · simp only [Prod.mk.injEq] at h
      obtain ⟨rfl, rfl⟩ := h
      obtain ⟨n, hn, hsz, _⟩ := C11.C11_size f (encodeRecord r) fid RecOK.payload_pos
      exact ⟨n, hn, hsz⟩
    · exact ih _ r p h

theorem zip_possOf_size (fid : Nat) (gf : GFile) (r : Record) (p : Pos) (h : (r, p) ∈ gf.zip (possOf fid gf)) :
    ∃ n, 0 < n ∧ p.size = n * 7 + (encodeRecord r).size :=
  zip_posAll_size fid gf ByteArray.empty r p h

theorem log_pos_size {g : GDir} {r : Record} {p : Pos} (h : (r, p) ∈ logOf g) :
    ∃ n, 0 < n ∧ p.size = n * 7 + (encodeRecord r).size := by
  obtain ⟨x, _, hz⟩ := mem_logOf.mp h
  exact zip_possOf_size x.1 x.2 r p hz

/-- **what `Stat` reports in a state without a live batch**, for the abstract map `m`; `db` the
    handle, `g` the ghost directory (the records appended to each data file), `d` the data directory.

    * `keys` / `keyset`: `KeyNum` is the number of keys on which `m` is defined — the length of every
      duplicate-free enumeration of them; the index holds exactly these keys, each once;
    * `le`, `diff`: `0 ≤ Reclaimable ≤ DiskSize` and `DiskSize − Reclaimable = liveBytes index`
      = Σ `Pos.size` over the index entries (`liveBytes` by definition);
    * `occupied`: every index entry `(k, p)` points at a logged record `r` with key `k` whose value is
      `m k`, readable at `p`, and `p.size` is the encoding of `r` plus 7 bytes per chunk — the bytes
      the record occupies in its file (padding excluded);
    * `nfiles`: `DataFileNum` is the number of data files of the directory (= of ghost files). -/
structure StatAt (dir : String) (s : St) (m : Spec) (db : DB) (g : GDir) (d : DirSt) : Prop where
  open_ : s.db = some db
  dir_ : db.dir = dir
  world : s.world.get dir = some d
  files : Files s db g
  index : db.index = (replayLog (logOf g)).index
  keys : ∀ l : List ByteArray, l.Nodup → (∀ k, k ∈ l ↔ m k ≠ none) → (stat s db).keys = l.length
  keyset : (∀ k, k ∈ db.index.map (·.1) ↔ m k ≠ none) ∧ (db.index.map (·.1)).Nodup
  le : (stat s db).reclaim ≤ (stat s db).disk
  diff : (stat s db).disk - (stat s db).reclaim = liveBytes db.index
  sum : liveBytes db.index = (db.index.map (fun x => x.2.size)).sum
  occupied : ∀ k p, (k, p) ∈ db.index → ∃ r, (r, p) ∈ logOf g ∧ r.key = k ∧ m k = some r.value ∧
    valueAt s db p = .val r.value ∧ ∃ n, 0 < n ∧ p.size = n * 7 + (encodeRecord r).size
  nfiles : (stat s db).files = d.data.length ∧ d.data.length = g.length

theorem Matches_length : ∀ {data : List (Nat × FileSt)} {g : GDir}, Matches data g → data.length = g.length := by
  intro data
  induction data with
  | nil => intro g h; rw [Restart.Matches_nil_left] at h; subst h; rfl
  | cons y data ih =>
    intro g h
    rw [Restart.Matches_cons] at h
    obtain ⟨z, g', rfl, _, _, h3⟩ := h
    simp only [List.length_cons, ih h3]

theorem StatAt_of_Inv {s : St} {db : DB} {g : GDir} {m : Spec} (hs : s.db = some db) (hi : Inv s db g)
    (habs : ∀ k, absGet s db k = m k) : ∃ d, StatAt db.dir s m db g d := by
  obtain ⟨d, hd, hl, hm⟩ := hi.dir
  obtain ⟨hk1, _, hk3⟩ := C01.C01_listkeys hi
  refine ⟨d, hs, rfl, hd, hi.files, hi.index, ?_, ⟨?_, hk3⟩, (C01.C17_counters hi).2, ?_, rfl, ?_, ?_, Matches_length hm⟩
  · intro l hnd hl'
    exact C01.C17_keynum hi l hnd (fun k => by rw [hl' k, habs k])
  · intro k
    have := hk1 k
    rw [habs k] at this
    exact this
  · have := (C01.C17_counters hi).1
    omega
  · intro k p hkp
    have hget := Index.mem_get_of_sorted hi.sorted hkp
    obtain ⟨r, hr, hkey, hval⟩ := absGet_total hi hget
    refine ⟨r, hr, hkey, ?_, hval, log_pos_size hr⟩
    rw [← habs k]
    simp only [absGet, hget, hval]
  · simp only [stat, dirOf, hd, Option.getD_some]

/-- in every state of the history invariant without a live batch (empty slot or dead batch object) -/
theorem HInvQ.statAt {dir : String} {s : St} {m : Spec} {dead : Bool} (h : HInvQ dir s m dead) :
    ∃ db g d, StatAt dir s m db g d := by
  obtain ⟨db, hs, _⟩ := h.2
  obtain ⟨db0, g, hs0, hd0, hi, habs, _, _⟩ := h.1
  rw [setB_db hs] at hs0
  cases hs0
  obtain ⟨d, hst⟩ := StatAt_of_Inv (setB_db hs none) hi habs
  have hdir : db.dir = dir := hd0
  refine ⟨db, g, d, hs, hdir, ?_, hst.files.congr rfl rfl rfl, hst.index, hst.keys, hst.keyset, hst.le, hst.diff,
    hst.sum, hst.occupied, hst.nfiles⟩
  have := hst.world
  rw [show (setBDB none db).dir = dir from hd0] at this
  exact this

/-! ## the two restarts, counters explicit -/

/-- `open_after_mergeB` (`Proofs/HistoryReplay.lean`; same proof) that also exports what `maxFid` —
    the largest file id the hint file mentions, the file `Open` scans a second time — is -/
theorem open_after_mergeX (s0 : St) (dir : String) (cfg : Cfg) (d : DirSt) (g : GDir) (n a : Nat) (gm vis : GDir)
    (hdb : s0.db = none) (hcfg : cfg.Valid) (hd : s0.world.get dir = some d) (hl : d.locked = false)
    (hmt : Matches d.data g) (hasc : AscIds g) (hrecs : ∀ x ∈ g, ∀ r ∈ x.2, RecOK r)
    (hact : (g.getLast?).map (·.1) = some a)
    (hmo : MergeOutB s0.world dir g n gm vis) (hF : HintFits gm) :
    ∃ md maxFid W', s0.world.get (mergeDirName dir) = some md ∧
      openDB s0 dir cfg = (⟨W', some (hintDB cfg dir a (gm ++ hi g n) (sizeSum (logOf (hi gm maxFid))))⟩, .ok) ∧
      W'.get dir = some ⟨md.data ++ d.data.filter (fun x => n ≤ x.1), some (hintBytes gm), d.marker, true⟩ ∧
      W'.get (mergeDirName dir) = none ∧
      (∀ nm, nm ≠ dir → nm ≠ mergeDirName dir → W'.get nm = s0.world.get nm) ∧
      Matches (md.data ++ d.data.filter (fun x => n ≤ x.1)) (gm ++ hi g n) ∧
      Inv ⟨W', some (hintDB cfg dir a (gm ++ hi g n) (sizeSum (logOf (hi gm maxFid))))⟩
        (hintDB cfg dir a (gm ++ hi g n) (sizeSum (logOf (hi gm maxFid)))) (gm ++ hi g n) ∧
      Merged gm ∧ (maxFid = 0 ∨ ∃ x ∈ logOf gm, x.2.fid = maxFid) ∧ (∀ x ∈ logOf gm, x.2.fid ≤ maxFid) := by
  obtain ⟨md, hmd, hmm, hhint, hmk⟩ := hmo.mdir
  obtain ⟨hM, _, _⟩ := hmo.merged hasc hrecs
  have hne := mname_ne dir
  have hgmasc : AscIds gm := by
    have : (gm.map (·.1)).Pairwise (· < ·) := by rw [hmo.ids]; exact List.pairwise_lt_range
    exact List.pairwise_map.mp this
  have hDasc : AscF d.data := Matches_AscF hmt hasc
  have hMasc : AscF md.data := Matches_AscF hmm hgmasc
  have hmids : md.data.map (·.1) = List.range gm.length := by rw [Matches_ids hmm]; exact hmo.ids
  have hadopt := adopt_merged s0.world dir d md n gm.length hd hmd hDasc hMasc hmids hmk hmo.count.1 hmo.count.2 hmo.small
  have hth : tgtHint d md = some (hintBytes gm) := by unfold tgtHint; rw [hhint]
  rw [hth] at hadopt
  obtain ⟨maxFid, hlh, hmax1, hmax2⟩ := loadHint_eq_replay gm hM hF
  -- maxFid is the id of a merged file, hence below the count
  have hmaxlt : maxFid < gm.length := by
    rcases hmax2 with h0 | ⟨x, hx, hfx⟩
    · rw [h0]; exact hmo.count.1
    · obtain ⟨y, hy, hz⟩ := mem_logOf.mp hx
      have hf := posAll_fid C y.1 _ _ x.2 (List.of_mem_zip hz).2
      have : y.1 ∈ gm.map (·.1) := List.mem_map.mpr ⟨y, hy, rfl⟩
      rw [hmo.ids] at this
      have := List.mem_range.mp this
      omega
  have hmin : min maxFid n = maxFid := by have := hmo.count.2; omega
  have hhiM : Matches (d.data.filter (fun x => n ≤ x.1)) (hi g n) :=
    Matches_filter (fun i => decide (n ≤ i)) hmt
  have hhirecs : ∀ x ∈ hi g n, ∀ r ∈ x.2, RecOK r := fun x hx => hrecs x ((hi_sublist g n).subset hx)
  have hhige : ∀ x ∈ hi g n, maxFid ≤ x.1 := by
    intro x hx
    have := (List.mem_filter.mp hx).2
    simp only [decide_eq_true_eq] at this
    have := hmo.count.2
    omega
  have hload := loadIndex_after_hint gm (hi g n) md.data (d.data.filter (fun x => n ≤ x.1)) maxFid hM hgmasc hmm hhiM
    hhirecs hhige
  have hmdne : md.data ≠ [] := by
    intro e
    have h1 := congrArg List.length hmids
    rw [e, List.length_map, List.length_range] at h1
    have h2 := hmo.count.1
    simp only [List.length_nil] at h1; omega
  have hopen := openDB_hint s0 dir cfg d
    ⟨md.data ++ d.data.filter (fun x => n ≤ x.1), some (hintBytes gm), d.marker, d.locked⟩
    ((s0.world.set dir ⟨md.data ++ d.data.filter (fun x => n ≤ x.1), some (hintBytes gm), d.marker, d.locked⟩).remove
      (mergeDirName dir)) n maxFid (replayLog (logOf gm))
    (bump (replayLog (logOf (gm ++ hi g n))) (sizeSum (logOf (hi gm maxFid))))
    (md.data ++ d.data.filter (fun x => n ≤ x.1))
    hdb (by omega) hd hl hadopt (by have := hmo.count; omega)
    (by rw [get_remove_ne _ _ _ hne.symm, get_set_self]) hlh
    (by simp [hmdne]) (by rw [hmin]; exact hload)
  have hmtAll : Matches (md.data ++ d.data.filter (fun x => n ≤ x.1)) (gm ++ hi g n) := Matches_append hmm hhiM
  obtain ⟨hhine, hhilast⟩ := hi_getLast hasc hact hmo.hiNe
  have hactAll : ((gm ++ hi g n).getLast?).map (·.1) = some a := by
    rw [getLast_append_ne _ _ hhine]; exact hhilast
  have hdbeq : mkDB cfg dir (bump (replayLog (logOf (gm ++ hi g n))) (sizeSum (logOf (hi gm maxFid))))
      (md.data ++ d.data.filter (fun x => n ≤ x.1))
      = hintDB cfg dir a (gm ++ hi g n) (sizeSum (logOf (hi gm maxFid))) := by
    unfold mkDB hintDB
    rw [activeId_of_getLast (by rw [Matches_getLast hmtAll]; exact hactAll)]
    rfl
  rw [hdbeq] at hopen
  have hrecsAll : ∀ x ∈ gm ++ hi g n, ∀ r ∈ x.2, RecOK r := by
    intro x hx
    rcases List.mem_append.mp hx with hx | hx
    · exact hM.recs x hx
    · exact hhirecs x hx
  refine ⟨md, maxFid, _, hmd, hopen, ?_, ?_, ?_, hmtAll, ?_, hM, hmax2, hmax1⟩
  · rw [get_set_self, hl]
  · rw [get_set_ne _ _ _ _ hne, get_remove_self]
  · intro nm h1 h2
    rw [get_set_ne _ _ _ _ h1, get_remove_ne _ _ _ h2, get_set_ne _ _ _ _ h1]
  · refine ⟨⟨_, get_set_self _ _ _, rfl, hmtAll⟩, AscIds_merged_hi hasc hmo.ids hmo.count.2, hactAll, hrecsAll, rfl,
      replay_sorted _, ?_, rfl⟩
    have := replay_counters (logOf (gm ++ hi g n))
    show (replayLog (logOf (gm ++ hi g n))).total + _
      = (replayLog (logOf (gm ++ hi g n))).reclaim + _ + liveBytes (replayLog (logOf (gm ++ hi g n))).index
    omega


/-- nothing adoptable (no merge directory, or one without a marker): the new handle is `scanDB` —
    index AND counters are the replay's -/
theorem restart_scanX {s : St} {db : DB} {g : GDir} (cfg' : Cfg) (hdb : s.db = some db) (hinv : Inv s db g)
    (hplan : plan s.world db.dir = none) (hcfg : cfg'.Valid) :
    ∃ d, s.world.get db.dir = some d ∧ (close s).2 = .ok ∧
      openDB (close s).1 db.dir cfg'
        = (⟨s.world.set db.dir ⟨syncAll d.data, d.hint, d.marker, true⟩, some (scanDB cfg' db.dir db.activeId g)⟩, .ok) := by
  obtain ⟨d, hd, hlock, hm⟩ := hinv.dir
  have hclose := close_eq s db d hdb hd
  have hms : Matches (syncAll d.data) g := Matches_syncAll hm
  have hplan' : plan (s.world.set db.dir { d with data := syncAll d.data, locked := false }) db.dir = none := by
    unfold plan at hplan ⊢
    rw [MergeP.get_set_ne _ _ _ _ (mname_ne _)]
    exact hplan
  have hopen := openDB_ghost
    { world := s.world.set db.dir { d with data := syncAll d.data, locked := false }, db := none }
    db.dir cfg' { d with data := syncAll d.data, locked := false } g db.activeId
    rfl hcfg (MergeP.get_set_self _ _ _) rfl hplan' hms hinv.recs hinv.active
  rw [hclose]
  simp only [] at hopen ⊢
  rw [set_set] at hopen
  exact ⟨d, hd, trivial, hopen⟩

/-- a finished merge (`MergeOutB`): the new handle is `hintDB … S` — the index is the replay's, both
    counters exceed the replay's by `S` = the sizes of the records of the last hinted file `maxFid` -/
theorem restart_adoptX {s : St} {db : DB} {g : GDir} {n : Nat} {gm vis : GDir} (cfg' : Cfg)
    (hdb : s.db = some db) (hinv : Inv s db g) (hmo : MergeOutB s.world db.dir g n gm vis)
    (hF : HintFits gm) (hcfg : cfg'.Valid) :
    ∃ d md maxFid W', s.world.get db.dir = some d ∧ s.world.get (mergeDirName db.dir) = some md ∧
      Matches md.data gm ∧ md.marker ≠ none ∧ (close s).2 = .ok ∧
      openDB (close s).1 db.dir cfg'
        = (⟨W', some (hintDB cfg' db.dir db.activeId (gm ++ hi g n) (sizeSum (logOf (hi gm maxFid))))⟩, .ok) ∧
      W'.get db.dir = some ⟨md.data ++ (syncAll d.data).filter (fun x => n ≤ x.1), some (hintBytes gm), d.marker, true⟩ ∧
      W'.get (mergeDirName db.dir) = none ∧
      Inv ⟨W', some (hintDB cfg' db.dir db.activeId (gm ++ hi g n) (sizeSum (logOf (hi gm maxFid))))⟩
        (hintDB cfg' db.dir db.activeId (gm ++ hi g n) (sizeSum (logOf (hi gm maxFid)))) (gm ++ hi g n) ∧
      Merged gm ∧ (maxFid = 0 ∨ ∃ x ∈ logOf gm, x.2.fid = maxFid) ∧ (∀ x ∈ logOf gm, x.2.fid ≤ maxFid) := by
  obtain ⟨d, hd, hlock, hm⟩ := hinv.dir
  have hclose := close_eq s db d hdb hd
  have hne := mname_ne db.dir
  rw [hclose]
  have hmo' : MergeOutB (s.world.set db.dir { d with data := syncAll d.data, locked := false }) db.dir g n gm vis :=
    ⟨by rw [MergeP.get_set_ne _ _ _ _ hne]; exact hmo.mdir, hmo.ids, hmo.count, hmo.small, hmo.perm, hmo.live,
      hmo.loSealed, hmo.hiNe⟩
  obtain ⟨md, maxFid, W', hmd, hopen, hWd, hWm, hWo, hmt, hinv', hM, hmax2, hmax1⟩ := open_after_mergeX
    ⟨s.world.set db.dir { d with data := syncAll d.data, locked := false }, none⟩ db.dir cfg'
    { d with data := syncAll d.data, locked := false } g n db.activeId gm vis rfl hcfg
    (MergeP.get_set_self _ _ _) rfl (Matches_syncAll hm) hinv.asc hinv.recs hinv.active hmo' hF
  rw [MergeP.get_set_ne _ _ _ _ hne] at hmd
  obtain ⟨md0, hmd0, hmm0, _, hmk0⟩ := hmo.mdir
  rw [hmd] at hmd0
  cases hmd0
  exact ⟨d, md, maxFid, W', hd, hmd, hmm0, by rw [hmk0]; simp, rfl, hopen, hWd, hWm, hinv', hM, hmax2, hmax1⟩

/-- **what a restart** (`Close`, then `Open` of `dir`; `s` the state before, `s'` the state after)
    **does to the counters** of the new handle `db'`, whose ghost directory is `g'`:

    * nothing adoptable (`NoMarker`: no merge directory, or one without a marker — e.g. after a `Merge`
      that reported the id conflict): `total` and `reclaim` are EXACTLY the replay's;
    * a finished merge is adopted (the merge directory `md` holds a marker; its files are the ghost
      files `gm`; `g' = gm ++` the files from the marker on): `Open` reads the hint file and then
      scans from file `maxFid` = the largest file id the hint file mentions (0 if it is empty), so the
      records of merged file `maxFid` are counted a second time — `total` and `reclaim` BOTH exceed
      the replay's by `S = sizeSum (logOf (hi gm maxFid))`.  Their difference is exact in both cases
      (`Inv.counters`). -/
def RestartCounters (dir : String) (s s' : St) : Prop :=
  ∃ db' g', s'.db = some db' ∧ Inv s' db' g' ∧
    ((NoMarker s.world dir ∧
        db'.total = (replayLog (logOf g')).total ∧ db'.reclaim = (replayLog (logOf g')).reclaim) ∨
     (∃ md gm maxFid ghi, s.world.get (mergeDirName dir) = some md ∧ md.marker ≠ none ∧ Matches md.data gm ∧
        Merged gm ∧ g' = gm ++ ghi ∧
        (maxFid = 0 ∨ ∃ x ∈ logOf gm, x.2.fid = maxFid) ∧ (∀ x ∈ logOf gm, x.2.fid ≤ maxFid) ∧
        db'.total = (replayLog (logOf g')).total + sizeSum (logOf (hi gm maxFid)) ∧
        db'.reclaim = (replayLog (logOf g')).reclaim + sizeSum (logOf (hi gm maxFid))))

theorem restartQ_counters {dir : String} {s : St} {m : BSpec} {dead : Bool} (hq : HInvQ dir s m dead)
    (cfg' : Cfg) (hcfg : cfg'.Valid)
    (hsz : ∀ md, s.world.get (mergeDirName dir) = some md → md.marker ≠ none →
      ∀ x ∈ md.data, x.2.bytes.size < 2 ^ 32) :
    RestartCounters dir s (openDB (close s).1 dir cfg').1 := by
  obtain ⟨db, hs, _⟩ := hq.2
  obtain ⟨db0, g, hs0, hd0, hi0, _, hms0, _⟩ := hq.1
  rw [setB_db hs] at hs0
  cases hs0
  have hdir : db.dir = dir := hd0
  subst hdir
  have hcl : close (setB none s) = close s := close_setB none s
  rcases hms0 with hnm | ⟨n, gm, vis, hmo⟩
  · obtain ⟨d, hdd, _, hopen⟩ := restart_scanX cfg' (setB_db hs none) hi0 hnm.plan hcfg
    rw [hcl] at hopen
    have hopen' : openDB (close s).1 db.dir cfg'
        = (⟨s.world.set db.dir ⟨syncAll d.data, d.hint, d.marker, true⟩, some (scanDB cfg' db.dir db.activeId g)⟩, .ok) := hopen
    rw [hopen']
    obtain ⟨d', hd', _, hm⟩ := hi0.dir
    have hdd' : s.world.get db.dir = some d := hdd
    have hd2 : s.world.get db.dir = some d' := hd'
    rw [hdd'] at hd2
    cases hd2
    have hinv' := Inv_scanDB (s.world.set db.dir ⟨syncAll d.data, d.hint, d.marker, true⟩) db.dir cfg'
      ⟨syncAll d.data, d.hint, d.marker, true⟩ g db.activeId (MergeP.get_set_self _ _ _) rfl (Matches_syncAll hm)
      hi0.asc hi0.recs hi0.active ⟨_, some (scanDB cfg' db.dir db.activeId g)⟩ rfl
    exact ⟨_, g, rfl, hinv', Or.inl ⟨hnm, rfl, rfl⟩⟩
  · have hF := HintFits_of_sizes hmo hsz
    obtain ⟨d, md, maxFid, W', hdd, hmdd, hmm, hmk, _, hopen, _, _, hinv', hM, hmax2, hmax1⟩ :=
      restart_adoptX cfg' (setB_db hs none) hi0 hmo hF hcfg
    rw [hcl] at hopen
    have hopen' : openDB (close s).1 db.dir cfg'
        = (⟨W', some (hintDB cfg' db.dir db.activeId (gm ++ hi g n) (sizeSum (logOf (hi gm maxFid))))⟩, .ok) := hopen
    rw [hopen']
    exact ⟨_, gm ++ hi g n, rfl, hinv', Or.inr ⟨md, gm, maxFid, hi g n, hmdd, hmk, hmm, hM, rfl, hmax2, hmax1, rfl, rfl⟩⟩

/-! ## when is there something to adopt -/

/-- a successful `Merge` leaves a merge directory WITH a marker, a failed one a merge directory
    WITHOUT -/
theorem mergeQ_marker {dir : String} {s : St} {m : BSpec} {dead : Bool} (hq : HInvQ dir s m dead)
    (order : List Nat) (ho : order.Nodup) (hsmall : ∀ db, s.db = some db → db.activeId + 1 < 2 ^ 32) :
    ((merge s order).2 = .ok →
      ∃ md, (merge s order).1.world.get (mergeDirName dir) = some md ∧ md.marker ≠ none) ∧
    ((∃ e, (merge s order).2 = .err e) → NoMarker (merge s order).1.world dir) := by
  obtain ⟨db, hs, _⟩ := hq.2
  obtain ⟨db0, g, hs0, hd0, hi0, _⟩ := hq.1
  rw [setB_db hs] at hs0
  cases hs0
  have hdir : (setBDB none db).dir = dir := hd0
  obtain ⟨_, _, _, _, h5, _, h7⟩ := merge_spec (setB_db hs none) hi0 order ho (hsmall db hs)
  have e : merge s order = (setB db.batch (merge (setB none s) order).1, (merge (setB none s) order).2) := by
    conv => lhs; rw [← setB_restore hs]
    exact merge_setB _ _ _
  rw [e, hdir] at *
  refine ⟨fun hok => ?_, fun ⟨er, her⟩ => ?_⟩
  · obtain ⟨gm, vis, hmo⟩ := h7 hok
    obtain ⟨md, hmd, _, _, hmk⟩ := hmo.mdir
    exact ⟨md, hmd, by rw [hmk]; simp⟩
  · obtain ⟨md, hmd, hmk⟩ := h5 er her
    intro md' hmd'
    have : (merge (setB none s) order).1.world.get (mergeDirName dir) = some md' := hmd'
    rw [hmd] at this
    cases this
    exact hmk

/-- after a restart nothing is adoptable -/
theorem restartQ_nomarker {dir : String} {s : St} {m : BSpec} {dead : Bool} (hq : HInvQ dir s m dead)
    (cfg' : Cfg) (hcfg : cfg'.Valid)
    (hsz : ∀ md, s.world.get (mergeDirName dir) = some md → md.marker ≠ none →
      ∀ x ∈ md.data, x.2.bytes.size < 2 ^ 32) :
    NoMarker (openDB (close s).1 dir cfg').1.world dir := by
  · obtain ⟨db, hs, _⟩ := hq.2
    obtain ⟨db0, g, hs0, hd0, hi0, _, hms0, _⟩ := hq.1
    rw [setB_db hs] at hs0
    cases hs0
    have hdir : db.dir = dir := hd0
    subst hdir
    have hcl : close (setB none s) = close s := close_setB none s
    rcases hms0 with hnm | ⟨n0, gm0, vis0, hmo0⟩
    · obtain ⟨d, _, _, hopen⟩ := restart_scanX cfg' (setB_db hs none) hi0 hnm.plan hcfg
      rw [hcl] at hopen
      have hopen' : openDB (close s).1 db.dir cfg'
          = (⟨s.world.set db.dir ⟨syncAll d.data, d.hint, d.marker, true⟩, some (scanDB cfg' db.dir db.activeId g)⟩, .ok) := hopen
      rw [hopen']
      exact hnm.congr (MergeP.get_set_ne _ _ _ _ (mname_ne db.dir))
    · have hF := HintFits_of_sizes hmo0 hsz
      obtain ⟨d, md, maxFid, W', _, _, _, _, _, hopen, _, hWm, _⟩ :=
        restart_adoptX cfg' (setB_db hs none) hi0 hmo0 hF hcfg
      rw [hcl] at hopen
      have hopen' : openDB (close s).1 db.dir cfg'
          = (⟨W', some (hintDB cfg' db.dir db.activeId (gm0 ++ hi g n0) (sizeSum (logOf (hi gm0 maxFid))))⟩, .ok) := hopen
      rw [hopen']
      intro md' hmd'
      have : W'.get (mergeDirName db.dir) = none := hWm
      rw [this] at hmd'; cases hmd'

end XixiKV.C17H
