import XixiKV.Proofs.TransEq2Codec
/-! # round 4: the translated validity checks `validLogRecord` / `validHintRecord` = the model's `isSome`

`validLogRecord(data)` and `validHintRecord(buf)` (repair 20d0fcc, `/repo/datafile/log_record.go`) are what
`NextLogRecord`, `ReadRecordValue` and `NextHintRecord` test before they call the decoders.  The model mirrors
them as `(decodeRecord data).isSome` / `(decodeValue data).isSome` / `(decodeHint buf).isSome`.  Here: the
translated Go functions are EQUAL to these, for every byte string (both directions).  The direction
"Go accepts ⇒ the model decodes" needs the converse of `Uvarint_at` / `Varint_at`: Go decodes on the whole rest
of the buffer, the model on a window of 10 bytes. -/
namespace XixiKV.TransEq
open XixiKV XixiKV.Generated.Trans XixiKV.Frame XixiKV.Varint XixiKV.Record

-- the `simp only` sets below list more lemmas than the present form of the Go functions needs (`if_pos`, `ite_self`,
-- `or_true`, …): behaviour-preserving rewrites of the Go source go through unchanged (NOTES.md, robustness demo, round 4)
set_option linter.unusedSimpArgs false

/-! ## converse varint lemmas -/

/-- a varint that decodes (`n ≠ 0`) on the whole list decodes in the same way on its first `k` bytes,
    `k` at least the number of bytes a varint can still have -/
theorem uvarintGo_take_conv : ∀ (l : List UInt8) (k i s x v n : Nat),
    uvarintGo l i s x = some (v, n) → n ≠ 0 → i ≤ 10 → 10 ≤ k + i → uvarintGo (l.take k) i s x = some (v, n)
  | [], k, i, s, x, v, n, h, _, _, _ => by simpa using h
  | b :: bs, 0, i, s, x, v, n, h, hn, hi, hk => by
    have hi10 : i = 10 := by omega
    simp only [uvarintGo, if_pos hi10] at h
    cases h
  | b :: bs, k+1, i, s, x, v, n, h, hn, hi, hk => by
    simp only [List.take_succ_cons, uvarintGo] at h ⊢
    split
    · rename_i h10; rw [if_pos h10] at h; exact h
    · rename_i h10; rw [if_neg h10] at h
      split
      · rename_i hb; rw [if_pos hb] at h; exact h
      · rename_i hb; rw [if_neg hb] at h
        exact uvarintGo_take_conv bs k _ _ _ v n h hn (by omega) (by omega)

/-- converse of `Uvarint_at`: `binary.Uvarint(data[k:])` returns `n > 0` ⇒ the model decodes the same varint
    in the 10-byte window at `k` -/
theorem Uvarint_at_conv {data : ByteArray} {k : Nat} {v : Nat} {n : Int}
    (h : binary_Uvarint (data.extract k data.size) = (v, n)) (hn : 0 < n) :
    uvarint (window data k 10) = some (v, n.toNat) := by
  unfold binary_Uvarint at h
  rw [toList_extract_to_end] at h
  rw [window_eq]
  split at h
  · rename_i x m hu
    simp only [Prod.mk.injEq] at h
    obtain ⟨h1, h2⟩ := h
    subst h1 h2
    rw [Int.toNat_natCast]
    unfold uvarint at hu ⊢
    exact uvarintGo_take_conv _ 10 0 0 0 x m hu (by omega) (by omega) (by omega)
  · simp only [Prod.mk.injEq] at h
    obtain ⟨_, h2⟩ := h
    split at h2 <;> omega

/-- converse of `Varint_at`: `binary.Varint(data[k:])` returns `n > 0` and a non-negative value ⇒ the model
    decodes the same value in the 10-byte window at `k` -/
theorem Varint_at_conv {data : ByteArray} {k : Nat} {v n : Int}
    (h : binary_Varint (data.extract k data.size) = (v, n)) (hn : 0 < n) (hv : 0 ≤ v) :
    varintNat (window data k 10) = some (v.toNat, n.toNat) := by
  unfold binary_Varint at h
  simp only [Prod.mk.injEq] at h
  obtain ⟨h1, h2⟩ := h
  have hu := Uvarint_at_conv (data := data) (k := k)
    (v := (binary_Uvarint (data.extract k data.size)).1) (n := n) (by rw [← h2]) hn
  unfold varintNat
  rw [hu]
  split at h1
  · rename_i heven
    simp only [if_pos heven]
    subst h1
    rw [Int.toNat_natCast]
  · omega

/-! ## one call of `binary.Uvarint` / `binary.Varint` against the model: it decodes in both or in neither -/

/-- the model's varint decoding at `k` fails: overflow, or the buffer ends inside the varint -/
def NoVar (o : Option (Nat × Nat)) : Prop := o = none ∨ ∃ v, o = some (v, 0)

theorem noVar_of {o : Option (Nat × Nat)} (h : ∀ v n, o = some (v, n) → n = 0) : NoVar o := by
  match o, h with
  | none, _ => exact .inl rfl
  | some (v, n), h => exact .inr ⟨v, by rw [h v n rfl]⟩

/-- `binary.Uvarint(data[k:])`: either both sides decode `(v, n)` with `0 < n ≤ 10`, or neither does -/
theorem Uvarint_cases (data : ByteArray) (k : Nat) :
    (∃ v n, n ≠ 0 ∧ n ≤ 10 ∧ uvarint (window data k 10) = some (v, n) ∧
        ∀ i : Int, i = (k : Int) → binary_Uvarint (data.extract i.toNat data.size) = (v, (n : Int))) ∨
    (NoVar (uvarint (window data k 10)) ∧ ∃ (v : Nat) (n : Int), n ≤ 0 ∧
        ∀ i : Int, i = (k : Int) → binary_Uvarint (data.extract i.toNat data.size) = (v, n)) := by
  by_cases hgo : 0 < (binary_Uvarint (data.extract k data.size)).2
  · left
    have hm := Uvarint_at_conv (data := data) (k := k) (v := (binary_Uvarint (data.extract k data.size)).1)
      (n := (binary_Uvarint (data.extract k data.size)).2) rfl hgo
    refine ⟨_, _, by omega, uvarintGo_bound _ _ _ _ _ _ hm (by omega), hm, ?_⟩
    intro i hi
    exact Uvarint_at hm (by omega) i hi
  · right
    refine ⟨noVar_of ?_, ?_⟩
    · intro v n hm
      false_or_by_contra
      rename_i hn
      have := Uvarint_at hm hn (k : Int) rfl
      rw [Int.toNat_natCast] at this
      rw [this] at hgo
      simp only at hgo
      omega
    · refine ⟨(binary_Uvarint (data.extract k data.size)).1, (binary_Uvarint (data.extract k data.size)).2, Int.not_lt.1 hgo, ?_⟩
      intro i hi
      subst hi
      rw [Int.toNat_natCast]

/-- `binary.Varint(data[k:])` used as a length: either both sides decode `(v, n)` with `0 < n ≤ 10`, or the model
    does not decode and Go returns `n ≤ 0` or a negative value -/
theorem Varint_cases (data : ByteArray) (k : Nat) :
    (∃ v n, n ≠ 0 ∧ n ≤ 10 ∧ varintNat (window data k 10) = some (v, n) ∧
        ∀ i : Int, i = (k : Int) → binary_Varint (data.extract i.toNat data.size) = ((v : Int), (n : Int))) ∨
    (NoVar (varintNat (window data k 10)) ∧ ∃ v n : Int, (n ≤ 0 ∨ v < 0) ∧
        ∀ i : Int, i = (k : Int) → binary_Varint (data.extract i.toNat data.size) = (v, n)) := by
  by_cases hgo : 0 < (binary_Varint (data.extract k data.size)).2 ∧ 0 ≤ (binary_Varint (data.extract k data.size)).1
  · left
    have hm := Varint_at_conv (data := data) (k := k) (v := (binary_Varint (data.extract k data.size)).1)
      (n := (binary_Varint (data.extract k data.size)).2) rfl hgo.1 hgo.2
    have hb : (binary_Varint (data.extract k data.size)).2.toNat ≤ 10 := by
      unfold varintNat at hm
      split at hm
      · rename_i ux m hu
        split at hm
        · simp only [Option.some.injEq, Prod.mk.injEq] at hm
          have := uvarintGo_bound _ _ _ _ _ _ hu (by omega)
          omega
        · cases hm
      · cases hm
    refine ⟨_, _, by omega, hb, hm, ?_⟩
    intro i hi
    exact Varint_at hm (by omega) i hi
  · right
    refine ⟨noVar_of ?_, ?_⟩
    · intro v n hm
      false_or_by_contra
      rename_i hn
      have := Varint_at hm hn (k : Int) rfl
      rw [Int.toNat_natCast] at this
      rw [this] at hgo
      simp only at hgo
      omega
    · refine ⟨(binary_Varint (data.extract k data.size)).1, (binary_Varint (data.extract k data.size)).2, by omega, ?_⟩
      intro i hi
      subst hi
      rw [Int.toNat_natCast]

/-! ## `validLogRecord` -/

/-- what the model's length test looks at -/
def headerFits (data : ByteArray) : Bool :=
  match decodeHeader data with
  | none => false
  | some h => decide (h.hlen + h.ksize + h.vsize = data.size)

theorem trans_validLogRecord_header (data : ByteArray) (hsz : data.size < 2^63) :
    datafile.validLogRecord data = headerFits data := by
  unfold headerFits
  by_cases h0 : data.size = 0
  · have h0' : (data.size : Int) = 0 := by omega
    rw [show datafile.validLogRecord data = false by
      simp (disch := omega) only [datafile.validLogRecord, h0', if_pos, ↓reduceIte]]
    simp only [decodeHeader, h0, ↓reduceIte]
  have h0' : ¬ ((data.size : Int) = 0) := by omega
  -- the three varints: each decodes on both sides or on neither; a failing one ends both computations
  rcases Varint_cases data 1 with ⟨ks, n1, hn1, hb1, m1, g1⟩ | ⟨m1, w1, k1, hk1, g1⟩
  · rcases Varint_cases data (1 + n1) with ⟨vs, n2, hn2, hb2, m2, g2⟩ | ⟨m2, w2, k2, hk2, g2⟩
    · rcases Uvarint_cases data (1 + n1 + n2) with ⟨b, n3, hn3, hb3, m3, g3⟩ | ⟨m3, w3, k3, hk3, g3⟩
      · by_cases hk : ks ≤ data.size <;> by_cases hv : vs ≤ data.size
        all_goals simp (disch := omega) only [datafile.validLogRecord, decodeHeader, h0, h0', m1, g1, m2, g2, m3, g3, hn1, hn2, hn3,
          i64_of_range, if_pos, if_neg, ↓reduceIte, ite_self]
        -- what is left: the final comparison (64-bit wrap-around included) against the model's test on naturals
        all_goals try split
        all_goals try simp only [i64, Bool.false_eq, Bool.true_eq, decide_eq_false_iff_not, decide_eq_true_eq, Decidable.not_not] at *
        all_goals first
          | omega
          | (refine decide_eq_decide.2 ?_; omega)
      · rcases m3 with m3 | ⟨v, m3⟩
        all_goals simp (disch := omega) only [datafile.validLogRecord, decodeHeader, h0, h0', m1, g1, m2, g2, m3, g3, hn1, hn2,
          i64_of_range, if_pos, if_neg, ↓reduceIte, ite_self]
    · rcases m2 with m2 | ⟨v, m2⟩ <;> rcases hk2 with hk2 | hk2
      all_goals simp (disch := omega) only [datafile.validLogRecord, decodeHeader, h0, h0', m1, g1, m2, g2, hn1,
          i64_of_range, if_pos, if_neg, ↓reduceIte, ite_self]
  · rcases m1 with m1 | ⟨v, m1⟩ <;> rcases hk1 with hk1 | hk1
    all_goals simp (disch := omega) only [datafile.validLogRecord, decodeHeader, h0, h0', m1, g1,
      i64_of_range, if_pos, if_neg, ↓reduceIte, ite_self]

theorem headerFits_eq_decodeRecord (data : ByteArray) : headerFits data = (decodeRecord data).isSome := by
  unfold headerFits decodeRecord
  cases decodeHeader data with
  | none => rfl
  | some h => by_cases hfit : h.hlen + h.ksize + h.vsize = data.size <;> simp [hfit]

theorem headerFits_eq_decodeValue (data : ByteArray) : headerFits data = (decodeValue data).isSome := by
  unfold headerFits decodeValue
  cases decodeHeader data with
  | none => rfl
  | some h => by_cases hfit : h.hlen + h.ksize + h.vsize = data.size <;> simp [hfit]

/-- `validLogRecord` as it stands in /repo accepts exactly the byte strings the model's `decodeRecord` decodes
    (`len(data)` is a Go `int`) -/
theorem trans_validLogRecord_eq (data : ByteArray) (hsz : data.size < 2^63) :
    datafile.validLogRecord data = (decodeRecord data).isSome := by
  rw [trans_validLogRecord_header data hsz, headerFits_eq_decodeRecord]

/-- … and exactly those `decodeValue` decodes (`ReadRecordValue` runs the same check) -/
theorem trans_validLogRecord_value (data : ByteArray) (hsz : data.size < 2^63) :
    datafile.validLogRecord data = (decodeValue data).isSome := by
  rw [trans_validLogRecord_header data hsz, headerFits_eq_decodeValue]

/-- every record the model encoder writes is accepted … -/
theorem trans_validLogRecord_enc (r : Record) (ht : r.typ < 256) (hk : r.key.size < 2 ^ 31)
    (hv : r.value.size < 2 ^ 31) (hb : r.batch < 2 ^ 64) : datafile.validLogRecord (encodeRecord r) = true := by
  have := encodeRecord_header_le r hk hv hb
  rw [trans_validLogRecord_eq _ (by omega), decodeRecord_encodeRecord r ht hk hv hb]; rfl

/-! the check on concrete byte strings: an encoded record is accepted; the same bytes with one byte missing or one
    byte too many, a header that ends inside a varint, a negative key size (zig-zag 0x01 = -1) and an overflowing
    varint (ten continuation bytes) are refused -/
example : datafile.validLogRecord (encodeRecord ⟨1, ⟨#[0x6b, 0x31]⟩, ⟨#[0x76]⟩, 300⟩) = true :=
  trans_validLogRecord_enc ⟨1, ⟨#[0x6b, 0x31]⟩, ⟨#[0x76]⟩, 300⟩ (by decide) (by decide) (by decide) (by decide)
example : datafile.validLogRecord ⟨#[1, 4, 2, 0xac, 0x02, 0x6b, 0x31, 0x76]⟩ = true := by decide
example : datafile.validLogRecord ⟨#[1, 4, 2, 0xac, 0x02, 0x6b, 0x31]⟩ = false := by decide
example : datafile.validLogRecord ⟨#[1, 4, 2, 0xac, 0x02, 0x6b, 0x31, 0x76, 0]⟩ = false := by decide
example : datafile.validLogRecord ⟨#[1, 4, 2, 0xac]⟩ = false := by decide
example : datafile.validLogRecord ⟨#[1, 1, 0, 0]⟩ = false := by decide
example : datafile.validLogRecord ⟨#[1, 0x80, 0x80, 0x80, 0x80, 0x80, 0x80, 0x80, 0x80, 0x80, 0x80, 0, 0, 0]⟩ = false := by decide
example : datafile.validLogRecord ByteArray.empty = false := by decide

/-! ## `validHintRecord` (a counted loop `for i := 0; i < 4; i++`: translated with the computed fuel 5) -/

/-- `validHintRecord` as it stands in /repo accepts exactly the byte strings the model's `decodeHint` decodes;
    the fuel of the counted loop suffices (`some`).  No range hypothesis: the index stays below 41. -/
theorem trans_validHintRecord_eq (buf : ByteArray) :
    datafile.validHintRecord buf = some (decodeHint buf).isSome := by
  rcases Uvarint_cases buf 0 with ⟨v1, n1, hn1, hb1, m1, g1⟩ | ⟨m1, w1, k1, hk1, g1⟩
  · rcases Uvarint_cases buf n1 with ⟨v2, n2, hn2, hb2, m2, g2⟩ | ⟨m2, w2, k2, hk2, g2⟩
    · rcases Uvarint_cases buf (n1 + n2) with ⟨v3, n3, hn3, hb3, m3, g3⟩ | ⟨m3, w3, k3, hk3, g3⟩
      · rcases Uvarint_cases buf (n1 + n2 + n3) with ⟨v4, n4, hn4, hb4, m4, g4⟩ | ⟨m4, w4, k4, hk4, g4⟩
        · simp (disch := omega) only [datafile.validHintRecord, datafile.validHintRecord.loop0, datafile.validHintRecord.body0,
            Ctl.step, Ctl.after, decodeHint, m1, g1, m2, g2, m3, g3, m4, g4, hn1, hn2, hn3, hn4,
            i64_of_range, if_pos, if_neg, ↓reduceIte, Option.isSome]
        · rcases m4 with m4 | ⟨v, m4⟩
          all_goals simp (disch := omega) only [datafile.validHintRecord, datafile.validHintRecord.loop0,
            datafile.validHintRecord.body0, Ctl.step, Ctl.after, decodeHint, m1, g1, m2, g2, m3, g3, m4, g4, hn1, hn2, hn3,
            i64_of_range, if_pos, if_neg, ↓reduceIte, Option.isSome]
      · rcases m3 with m3 | ⟨v, m3⟩
        all_goals simp (disch := omega) only [datafile.validHintRecord, datafile.validHintRecord.loop0,
          datafile.validHintRecord.body0, Ctl.step, Ctl.after, decodeHint, m1, g1, m2, g2, m3, g3, hn1, hn2,
          i64_of_range, if_pos, if_neg, ↓reduceIte, Option.isSome]
    · rcases m2 with m2 | ⟨v, m2⟩
      all_goals simp (disch := omega) only [datafile.validHintRecord, datafile.validHintRecord.loop0,
        datafile.validHintRecord.body0, Ctl.step, Ctl.after, decodeHint, m1, g1, m2, g2, hn1,
        i64_of_range, if_pos, if_neg, ↓reduceIte, Option.isSome]
  · rcases m1 with m1 | ⟨v, m1⟩
    all_goals simp (disch := omega) only [datafile.validHintRecord, datafile.validHintRecord.loop0,
      datafile.validHintRecord.body0, Ctl.step, Ctl.after, decodeHint, m1, g1,
      i64_of_range, if_pos, if_neg, ↓reduceIte, Option.isSome]

/-- every hint record the model encoder writes is accepted … -/
theorem trans_validHintRecord_enc (key : ByteArray) (p : Pos) (h1 : p.fid < 2 ^ 32) (h2 : p.block < 2 ^ 32)
    (h3 : p.off < 2 ^ 32) (h4 : p.size < 2 ^ 32) : datafile.validHintRecord (encodeHint key p) = some true := by
  rw [trans_validHintRecord_eq, decodeHint_encodeHint key p h1 h2 h3 h4]; rfl

/-! … an encoded hint record, the bare four varints (empty key), and refused inputs: three varints only, a fourth
    varint that ends inside, an overflowing varint -/
example : datafile.validHintRecord (encodeHint ⟨#[0x6b]⟩ ⟨3, 70000, 5, 300⟩) = some true :=
  trans_validHintRecord_enc ⟨#[0x6b]⟩ ⟨3, 70000, 5, 300⟩ (by decide) (by decide) (by decide) (by decide)
example : datafile.validHintRecord ⟨#[3, 0xf0, 0xa2, 0x04, 5, 0xac, 0x02]⟩ = some true := by decide +kernel
example : datafile.validHintRecord ⟨#[3, 0xf0, 0xa2, 0x04, 5]⟩ = some false := by decide +kernel
example : datafile.validHintRecord ⟨#[3, 0xf0, 0xa2, 0x04, 5, 0xac]⟩ = some false := by decide +kernel
example : datafile.validHintRecord ⟨#[3, 4, 0x80, 0x80, 0x80, 0x80, 0x80, 0x80, 0x80, 0x80, 0x80, 0x02, 1]⟩ = some false := by decide +kernel
example : datafile.validHintRecord ByteArray.empty = some false := by decide

end XixiKV.TransEq
