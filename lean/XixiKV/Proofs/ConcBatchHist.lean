import XixiKV.Proofs.ConcBatchLin
/-!
# Consequences of `Linearizable` for the histories of `Model/ConcBatch.lean`: completed operations
-/
namespace XixiKV.ConcBatch
open XixiKV.Conc (Tid Key Val upd updK Res)

/-- `e` is a call / linearization / return event of thread `t` (a flush marker is not) -/
def ownEv (t : Tid) : Ev → Bool
  | .inv t' _ => t' == t
  | .lin t' _ _ => t' == t
  | .ret t' _ => t' == t
  | .flush _ _ _ => false

theorem phaseStep_notOwn {t : Tid} {e : Ev} (ph : Option Phase) (h : ownEv t e = false) :
    phaseStep t ph e = ph := by
  cases e <;> simp_all [phaseStep, ownEv]

theorem phaseStep_none (t : Tid) (e : Ev) : phaseStep t none e = none := by
  cases e <;> simp [phaseStep]

theorem phase_suffix {t : Tid} (h2 h1 : List Ev) (h : phase (h2 ++ h1) t ≠ none) :
    phase h1 t ≠ none := by
  induction h2 with
  | nil => exact h
  | cons e es ih =>
    apply ih
    intro hn
    apply h
    simp only [List.cons_append, phase, hn, phaseStep_none]

theorem specRun_suffix (h2 h1 : List Ev) (h : (specRun (h2 ++ h1)).isSome = true) :
    (specRun h1).isSome = true := by
  induction h2 with
  | nil => exact h
  | cons e es ih =>
    apply ih
    cases e with
    | inv t op => exact h
    | ret t r => exact h
    | flush t a b => exact h
    | lin t op r =>
      simp only [List.cons_append, specRun] at h
      cases hs : specRun (es ++ h1) with
      | none => rw [hs] at h; cases h
      | some m => rfl

/-- what an own event does to the phase -/
theorem phaseStep_own_cases {t : Tid} {e : Ev} {ph : Option Phase} {ph' : Phase}
    (ho : ownEv t e = true) (hp : phaseStep t ph e = some ph') :
    (∃ op, e = .inv t op ∧ ph = some .idle ∧ ph' = .invoked op) ∨
    (∃ op r, e = .lin t op r ∧ ph = some (.invoked op) ∧ ph' = .linearized op r) ∨
    (∃ op r, e = .ret t r ∧ ph = some (.linearized op r) ∧ ph' = .idle) := by
  cases e with
  | flush t' a b => simp [ownEv] at ho
  | inv t' op =>
    simp only [ownEv, beq_iff_eq] at ho; subst ho
    simp only [phaseStep, if_true] at hp
    cases ph with
    | none => cases hp
    | some p =>
      cases p with
      | idle => cases hp; exact .inl ⟨op, rfl, rfl, rfl⟩
      | invoked _ => cases hp
      | linearized _ _ => cases hp
  | lin t' op r =>
    simp only [ownEv, beq_iff_eq] at ho; subst ho
    simp only [phaseStep, if_true] at hp
    cases ph with
    | none => cases hp
    | some p =>
      cases p with
      | idle => cases hp
      | invoked op' =>
        by_cases e : op = op'
        · subst e; simp only [if_true] at hp; cases hp
          exact .inr (.inl ⟨op, r, rfl, rfl, rfl⟩)
        · simp only [if_neg e] at hp; cases hp
      | linearized _ _ => cases hp
  | ret t' r =>
    simp only [ownEv, beq_iff_eq] at ho; subst ho
    simp only [phaseStep, if_true] at hp
    cases ph with
    | none => cases hp
    | some p =>
      cases p with
      | idle => cases hp
      | invoked _ => cases hp
      | linearized op r' =>
        by_cases e : r = r'
        · subst e; simp only [if_true] at hp; cases hp
          exact .inr (.inr ⟨op, r, rfl, rfl, rfl⟩)
        · simp only [if_neg e] at hp; cases hp

/-- a thread in phase `invoked op` has an invocation of `op` as its newest own event -/
theorem phase_invoked {t : Tid} {op : Op} : ∀ {h : List Ev}, phase h t = some (.invoked op) →
    ∃ hm h0, h = hm ++ .inv t op :: h0 ∧ (∀ e ∈ hm, ownEv t e = false) ∧
      phase h0 t = some .idle := by
  intro h
  induction h with
  | nil => intro hp; cases hp
  | cons e es ih =>
    intro hp
    simp only [phase] at hp
    cases ho : ownEv t e with
    | true =>
      rcases phaseStep_own_cases ho hp with ⟨op', rfl, h1, h2⟩ | ⟨op', r, rfl, _, h2⟩ | ⟨op', r, rfl, _, h2⟩
      · cases h2; exact ⟨[], es, rfl, by simp, h1⟩
      · cases h2
      · cases h2
    | false =>
      rw [phaseStep_notOwn _ ho] at hp
      obtain ⟨hm, h0, rfl, hno, hid⟩ := ih hp
      refine ⟨e :: hm, h0, rfl, ?_, hid⟩
      intro e' he'
      rcases List.mem_cons.1 he' with rfl | h'
      · exact ho
      · exact hno e' h'

/-- a thread in phase `linearized op r` has `lin op r` as its newest own event, after `inv op` -/
theorem phase_linearized {t : Tid} {op : Op} {r : Res} :
    ∀ {h : List Ev}, phase h t = some (.linearized op r) →
    ∃ hl hm, h = hl ++ .lin t op r :: hm ∧ (∀ e ∈ hl, ownEv t e = false) ∧
      phase hm t = some (.invoked op) := by
  intro h
  induction h with
  | nil => intro hp; cases hp
  | cons e es ih =>
    intro hp
    simp only [phase] at hp
    cases ho : ownEv t e with
    | true =>
      rcases phaseStep_own_cases ho hp with ⟨op', rfl, _, h2⟩ | ⟨op', r', rfl, h1, h2⟩ | ⟨op', r', rfl, _, h2⟩
      · cases h2
      · cases h2; exact ⟨[], es, rfl, by simp, h1⟩
      · cases h2
    | false =>
      rw [phaseStep_notOwn _ ho] at hp
      obtain ⟨hl, hm, rfl, hno, hid⟩ := ih hp
      refine ⟨e :: hl, hm, rfl, ?_, hid⟩
      intro e' he'
      rcases List.mem_cons.1 he' with rfl | h'
      · exact ho
      · exact hno e' h'

/-- a return event is accepted only in phase `linearized _ r` with the same result -/
theorem phase_ret {t : Tid} {r : Res} {h : List Ev} (hp : phase (.ret t r :: h) t ≠ none) :
    ∃ op, phase h t = some (.linearized op r) := by
  simp only [phase] at hp
  cases hs : phaseStep t (phase h t) (.ret t r) with
  | none => exact absurd hs hp
  | some ph' =>
    rcases phaseStep_own_cases (by simp [ownEv]) hs with ⟨_, h0, _⟩ | ⟨_, _, h0, _⟩ | ⟨op, r', h0, h1, _⟩
    · cases h0
    · cases h0
    · cases h0; exact ⟨op, h1⟩

/-- every return event has its linearization event and its invocation before it, with the same
result, and the result is the one the specification gives at that point -/
theorem completed_ops {hist : List Ev} (hlin : Linearizable hist) {t : Tid} {r : Res}
    {h2 h1 : List Ev} (hh : hist = h2 ++ .ret t r :: h1) :
    ∃ op hl hm h0 m,
      h1 = hl ++ .lin t op r :: (hm ++ .inv t op :: h0) ∧
      (∀ e ∈ hl, ownEv t e = false) ∧ (∀ e ∈ hm, ownEv t e = false) ∧
      specRun (hm ++ .inv t op :: h0) = some m ∧ (specStep m op).2 = r := by
  obtain ⟨hph, hsp⟩ := hlin
  rw [hh] at hph hsp
  obtain ⟨op, hlin⟩ := phase_ret (phase_suffix h2 _ (hph t))
  obtain ⟨hl, hm', rfl, hnol, hinv⟩ := phase_linearized hlin
  obtain ⟨hm, h0, rfl, hnom, _⟩ := phase_invoked hinv
  have hs : (specRun (Ev.lin t op r :: (hm ++ Ev.inv t op :: h0))).isSome = true := by
    have := specRun_suffix (h2 ++ Ev.ret t r :: hl) (Ev.lin t op r :: (hm ++ Ev.inv t op :: h0))
      (by simpa using hsp)
    exact this
  simp only [specRun] at hs
  cases hm0 : specRun (hm ++ Ev.inv t op :: h0) with
  | none => rw [hm0] at hs; cases hs
  | some m =>
    rw [hm0] at hs
    refine ⟨op, hl, hm, h0, m, rfl, hnol, hnom, hm0, ?_⟩
    by_cases e : (specStep m op).2 = r
    · exact e
    · simp [Option.bind, e] at hs

end XixiKV.ConcBatch
