/-! Small `ByteArray` lemmas used everywhere. -/
namespace XixiKV

theorem extract_ge_size (a : ByteArray) (i j : Nat) (h : a.size ≤ i) : a.extract i j = ByteArray.empty := by
  rw [ByteArray.extract_eq_empty_iff]; omega

theorem extract_all (a : ByteArray) (j : Nat) (h : a.size ≤ j) : a.extract 0 j = a := by
  apply ByteArray.ext
  simp [ByteArray.data_extract]
  omega

theorem extract_mid (pre mid post : ByteArray) (j : Nat) (hj : pre.size + mid.size ≤ j) :
    (pre ++ mid ++ post).extract pre.size j = mid ++ post.extract 0 (j - pre.size - mid.size) := by
  rw [ByteArray.append_assoc, ByteArray.extract_append, ByteArray.extract_append]
  rw [extract_ge_size pre _ _ (Nat.le_refl _)]
  simp only [Nat.sub_self, ByteArray.empty_append]
  rw [extract_all mid _ (by omega)]
  simp

/-- extracting a middle piece that is exactly `mid` -/
theorem extract_exact (pre mid post : ByteArray) (i j : Nat) (hi : i = pre.size) (hj : j = pre.size + mid.size) :
    (pre ++ mid ++ post).extract i j = mid := by
  subst hi hj
  rw [extract_mid pre mid post _ (Nat.le_refl _)]
  simp

end XixiKV
