import XixiKV.Proofs.HistoryStatSize
/-!
# The durability invariant through `Merge`, adoption, restarts and `Backup` — helper lemmas for
# `C13_history`

`DInv s db` (`Proofs/EnginePolicy.lean`): the data directory ends with the active file, every other
file is completely flushed, no flush mark exceeds its file.  `Dur s` = an open handle with `DInv`.
Plain and batch calls keep it (`Dur_put … Dur_bdrop`).  Here:

* `Merge` rotates (`db.sync()`: the old active file is flushed) and otherwise leaves the data
  directory alone (`merge_world`); it flushes every rewritten file before it writes the marker, so a
  merge directory WITH a marker holds completely flushed files only (`MSynced`);
* `Close` flushes every file, `Open` starts with everything flushed — also when it adopts a finished
  merge: the adopted files are flushed because of `MSynced` (`restart_dur`);
* `Backup` into another directory touches neither.
-/
namespace XixiKV.C17H
open XixiKV XixiKV.Frame XixiKV.Record XixiKV.Index XixiKV.Engine XixiKV.Engine.BatchP XixiKV.Engine.HistP
open XixiKV.Engine.Restart XixiKV.Engine.MergeP XixiKV.Adopt
open XixiKV.Engine.PolicyP.Dur
open XixiKV.Engine.PolicyP.Size (AOp astep)
open XixiKV.C01H

/-- every file of a FINISHED merge directory (marker present) is completely flushed -/
def MSynced (w : World) (dir : String) : Prop :=
  ∀ md, w.get (mergeDirName dir) = some md → md.marker ≠ none → ∀ x ∈ md.data, x.2.synced = x.2.bytes.size

theorem MSynced.congr {w w' : World} {dir : String} (h : MSynced w dir)
    (hw : w'.get (mergeDirName dir) = w.get (mergeDirName dir)) : MSynced w' dir := by
  intro md hmd
  rw [hw] at hmd
  exact h md hmd

/-- **the invariant of `C13_history`** -/
def DurJ (dir : String) (s : St) : Prop := Dur s ∧ MSynced s.world dir

theorem DInv_of_dirOf {s s' : St} {db db' : DB} (h : DInv s db) (hd : dirOf s' db' = dirOf s db)
    (ha : db'.activeId = db.activeId) : DInv s' db' := by
  obtain ⟨h1, h2, h3⟩ := h
  exact ⟨by rw [hd, ha]; exact h1, by rw [hd]; exact h2, by rw [hd]; exact h3⟩

theorem Dur_astep {s : St} (h : Dur s) (op : AOp) : Dur (astep s op).1 := by
  cases op with
  | put k v => exact Dur_put h k v
  | del k => exact Dur_delete h k
  | get k => exact Dur_get h k
  | sync => exact Dur_syncDB h
  | bnew sy id => exact Dur_bnew h sy id
  | bput k v => exact Dur_bput h k v
  | bdel k => exact Dur_bdel h k
  | bget k => exact Dur_bget h k
  | bcommit => exact Dur_bcommit h
  | bdrop => exact Dur_bdrop h

/-! ## `Merge` -/

/-- what `Merge` does to the world, both outcomes: the handle is the rotated one, the data directory
    is what the rotation left, and a merge directory with a marker holds flushed files only -/
theorem merge_world {s : St} {db : DB} {g : GDir} (hs : s.db = some db) (hinv : Inv s db g) (order : List Nat)
    (ho : order.Nodup) :
    (merge s order).1.db = some (rotDB db) ∧
    (merge s order).1.world.get db.dir = (rotate s db).1.world.get db.dir ∧
    (∀ md, (merge s order).1.world.get (mergeDirName db.dir) = some md → md.marker ≠ none →
      ∀ x ∈ md.data, x.2.synced = x.2.bytes.size) := by
  obtain ⟨hdb1, d1, hW, hl1, hm1, hB, hF⟩ := mergeLoop_spec hinv order ho
  have hne := mname_ne db.dir
  have hrd : (rotDB db).dir = db.dir := rfl
  have hrot : (mergeStart s db).world.get db.dir = (rotate s db).1.world.get db.dir := by
    unfold mergeStart
    simp only []
    rw [get_set_ne _ _ _ _ hne.symm, get_remove_ne _ _ _ hne.symm]
  have hdirL : (mergeLoop s db order).1.world.get db.dir = (rotate s db).1.world.get db.dir := by
    rw [hB.frame db.dir hne.symm]; exact hrot
  rw [merge_eq hs, hdb1]
  unfold mergeFinish
  cases hfail : (mergeLoop s db order).2.failed with
  | some e =>
    simp only []
    refine ⟨hB.db, hdirL, ?_⟩
    intro md hmd hmk
    have hmeta := hB.mmeta
    unfold metaOf at hmeta
    rw [hrd, hmd] at hmeta
    simp only [Option.getD_some, Prod.mk.injEq] at hmeta
    exact absurd hmeta.2.1 hmk
  | none =>
    simp only []
    refine ⟨hB.db, ?_, ?_⟩
    · rw [hrd, get_set_ne _ _ _ _ hne.symm]; exact hdirL
    · intro md hmd _ x hx
      rw [hrd, get_set_self] at hmd
      simp only [Option.some.injEq] at hmd
      subst hmd
      exact (mem_syncAll hx).2

theorem merge_dur {dir : String} {s : St} {m : BSpec} {dead : Bool} (hq : HInvQ dir s m dead) (hj : DurJ dir s)
    (order : List Nat) (ho : order.Nodup) : DurJ dir (merge s order).1 := by
  obtain ⟨⟨db, hs, hd⟩, _⟩ := hj
  obtain ⟨db0, g, hs0, hd0, hi0, _⟩ := hq.1
  rw [setB_db hs] at hs0
  cases hs0
  obtain ⟨m1, m2, m3⟩ := merge_world (setB_db hs none) hi0 order ho
  have e : merge s order = (setB db.batch (merge (setB none s) order).1, (merge (setB none s) order).2) := by
    conv => lhs; rw [← setB_restore hs]
    exact merge_setB _ _ _
  have hd' : DInv (setB none s) (setBDB none db) := hd.congr rfl rfl rfl
  obtain ⟨r1, _, _⟩ := DInv_rotate hd'
  have hdbR : (rotate (setB none s) (setBDB none db)).2 = rotDB (setBDB none db) := rfl
  rw [e]
  refine ⟨⟨setBDB db.batch (rotDB (setBDB none db)), setB_db m1 _, ?_⟩, ?_⟩
  · refine DInv_of_dirOf r1 ?_ (by rw [hdbR]; rfl)
    show ((merge (setB none s) order).1.world.get db.dir).getD DirSt.empty
      = ((rotate (setB none s) (setBDB none db)).1.world.get (rotate (setB none s) (setBDB none db)).2.dir).getD DirSt.empty
    rw [hdbR]
    have : (merge (setB none s) order).1.world.get db.dir
        = (rotate (setB none s) (setBDB none db)).1.world.get db.dir := m2
    rw [this]
    rfl
  · intro md hmd
    have hdir : (setBDB none db).dir = dir := hd0
    rw [hdir] at m3
    exact m3 md hmd

/-! ## restart -/

/-- **`Close`, then `Open`** (scan path or adoption of a finished merge): afterwards EVERY data file
    is completely flushed, the counter `bytesWrite` is 0, the configuration is the new one -/
theorem restart_dur {dir : String} {s : St} {m : BSpec} {dead : Bool} (hq : HInvQ dir s m dead) (hj : DurJ dir s)
    (cfg' : Cfg) (hcfg : cfg'.Valid)
    (hsz : ∀ md, s.world.get (mergeDirName dir) = some md → md.marker ≠ none →
      ∀ x ∈ md.data, x.2.bytes.size < 2 ^ 32) :
    DurJ dir (openDB (close s).1 dir cfg').1 ∧
    ∃ db', (openDB (close s).1 dir cfg').1.db = some db' ∧ DInv (openDB (close s).1 dir cfg').1 db' ∧
      AllSynced (openDB (close s).1 dir cfg').1 db' ∧ db'.cfg = cfg' ∧ db'.bytesWrite = 0 := by
  obtain ⟨⟨db, hs, hd⟩, hms⟩ := hj
  obtain ⟨db0, g, hs0, hd0, hi0, _, hms0, _⟩ := hq.1
  rw [setB_db hs] at hs0
  cases hs0
  have hdir : db.dir = dir := hd0
  subst hdir
  have hcl : close (setB none s) = close s := close_setB none s
  rcases hms0 with hnm | ⟨n, gm, vis, hmo⟩
  · obtain ⟨d, hdd, _, hopen⟩ := restart_scanX cfg' (setB_db hs none) hi0 hnm.plan hcfg
    rw [hcl] at hopen
    have hopen' : openDB (close s).1 db.dir cfg'
        = (⟨s.world.set db.dir ⟨syncAll d.data, d.hint, d.marker, true⟩, some (scanDB cfg' db.dir db.activeId g)⟩, .ok) := hopen
    rw [hopen']
    have hdd' : s.world.get db.dir = some d := hdd
    have hdata : (dirOf ⟨s.world.set db.dir ⟨syncAll d.data, d.hint, d.marker, true⟩, some (scanDB cfg' db.dir db.activeId g)⟩
        (scanDB cfg' db.dir db.activeId g)).data = syncAll (dirOf s db).data := by
      show ((World.get (s.world.set db.dir ⟨syncAll d.data, d.hint, d.marker, true⟩) db.dir).getD DirSt.empty).data
        = syncAll ((s.world.get db.dir).getD DirSt.empty).data
      rw [MergeP.get_set_self, hdd']
      rfl
    obtain ⟨h1, h2⟩ := DInv_of_syncAll (db' := scanDB cfg' db.dir db.activeId g) hd hdata rfl
    refine ⟨⟨⟨_, rfl, h1⟩, ?_⟩, _, rfl, h1, h2, rfl, rfl⟩
    exact hms.congr (MergeP.get_set_ne _ _ _ _ (mname_ne db.dir))
  · have hF := HintFits_of_sizes hmo hsz
    obtain ⟨d, md, maxFid, W', hdd, hmdd, hmm, hmk, _, hopen, hWd, hWm, hinv', hM, _, _⟩ :=
      restart_adoptX cfg' (setB_db hs none) hi0 hmo hF hcfg
    rw [hcl] at hopen
    have hopen' : openDB (close s).1 db.dir cfg'
        = (⟨W', some (hintDB cfg' db.dir db.activeId (gm ++ hi g n) (sizeSum (logOf (hi gm maxFid))))⟩, .ok) := hopen
    rw [hopen']
    have hdd' : s.world.get db.dir = some d := hdd
    have hWd' : W'.get db.dir
        = some ⟨md.data ++ (syncAll d.data).filter (fun x => n ≤ x.1), some (hintBytes gm), d.marker, true⟩ := hWd
    have hle : n ≤ db.activeId := hmo.le_active (db := setBDB none db) hi0.files
    -- the old directory ends with the active file
    obtain ⟨pre, f, hshape, hlt⟩ := hd.shape
    have hdo : (dirOf s db).data = d.data := by simp only [dirOf, hdd', Option.getD_some]
    rw [hdo] at hshape
    have hfil : (syncAll d.data).filter (fun x => n ≤ x.1)
        = (syncAll pre).filter (fun x => n ≤ x.1) ++ [(db.activeId, ⟨f.bytes, f.bytes.size⟩)] := by
      rw [hshape]
      simp only [syncAll, List.map_append, List.map_cons, List.map_nil, List.filter_append]
      rw [List.filter_cons_of_pos (by simpa using hle)]
      rfl
    have hnew : (dirOf ⟨W', some (hintDB cfg' db.dir db.activeId (gm ++ hi g n) (sizeSum (logOf (hi gm maxFid))))⟩
        (hintDB cfg' db.dir db.activeId (gm ++ hi g n) (sizeSum (logOf (hi gm maxFid))))).data
        = (md.data ++ (syncAll pre).filter (fun x => n ≤ x.1)) ++ [(db.activeId, ⟨f.bytes, f.bytes.size⟩)] := by
      show ((W'.get db.dir).getD DirSt.empty).data = _
      rw [hWd', Option.getD_some, hfil, List.append_assoc]
    have hall : AllSynced ⟨W', some (hintDB cfg' db.dir db.activeId (gm ++ hi g n) (sizeSum (logOf (hi gm maxFid))))⟩
        (hintDB cfg' db.dir db.activeId (gm ++ hi g n) (sizeSum (logOf (hi gm maxFid)))) := by
      intro x hx
      rw [hnew] at hx
      rcases List.mem_append.mp hx with hx | hx
      · rcases List.mem_append.mp hx with hx | hx
        · exact hms md hmdd hmk x hx
        · exact (mem_syncAll (List.mem_filter.mp hx).1).2
      · simp only [List.mem_singleton] at hx; rw [hx]
    have hdinv : DInv ⟨W', some (hintDB cfg' db.dir db.activeId (gm ++ hi g n) (sizeSum (logOf (hi gm maxFid))))⟩
        (hintDB cfg' db.dir db.activeId (gm ++ hi g n) (sizeSum (logOf (hi gm maxFid)))) := by
      refine ⟨⟨_, _, hnew, ?_⟩, ?_, ?_⟩
      · intro x hx
        show x.1 < db.activeId
        rcases List.mem_append.mp hx with hx | hx
        · have h1 : x.1 ∈ md.data.map (·.1) := List.mem_map.mpr ⟨x, hx, rfl⟩
          rw [Matches_ids hmm, hmo.ids] at h1
          have h2 := List.mem_range.mp h1
          have h3 := hmo.count.2
          omega
        · obtain ⟨⟨y, hy, e1⟩, _⟩ := mem_syncAll (List.mem_filter.mp hx).1
          rw [e1]; exact hlt y hy
      · intro x hx; exact hall x (List.dropLast_subset _ hx)
      · intro x hx; rw [hall x hx]; exact Nat.le_refl _
    refine ⟨⟨⟨_, rfl, hdinv⟩, ?_⟩, _, rfl, hdinv, hall, rfl, rfl⟩
    intro md' hmd'
    have : W'.get (mergeDirName db.dir) = none := hWm
    rw [this] at hmd'; cases hmd'

/-! ## `Backup` -/

theorem backup_dur {dir : String} {s : St} {db0 : DB} (hs0 : s.db = some db0) (hd0 : db0.dir = dir)
    (hj : DurJ dir s) (dest : String) (h1 : dest ≠ dir) (h2 : dest ≠ mergeDirName dir) :
    DurJ dir (backup s dest).1 := by
  obtain ⟨⟨db, hs, hd⟩, hms⟩ := hj
  rw [hs0] at hs; cases hs
  obtain ⟨W, e, hwd, hwm⟩ := backup_eq hs0 dest
  rw [e]
  have hw : W.get db0.dir = s.world.get db0.dir := hwd (by rw [hd0]; exact h1)
  have hw2 : W.get (mergeDirName dir) = s.world.get (mergeDirName dir) := by
    have := hwm (by rw [hd0]; exact h1) (by rw [hd0]; exact h2)
    rw [hd0] at this; exact this
  refine ⟨⟨db0, hs0, DInv_of_dirOf hd ?_ rfl⟩, hms.congr hw2⟩
  show (W.get db0.dir).getD DirSt.empty = (s.world.get db0.dir).getD DirSt.empty
  rw [hw]

/-! ## one call -/

theorem DurJ_step (dir : String) (s : St) (σ : SpecSt) (op : HOp) (hi : HInv dir s σ) (hj : DurJ dir s)
    (hop : HOpOK dir op) (hwf : isLive σ.slot = true → batchCall op = true)
    (hst : StepOK dir s op) : DurJ dir (hstep dir s op).1 := by
  obtain ⟨db0, hs0, hd0⟩ := HInv_open hi
  cases op with
  | a op => exact ⟨Dur_astep hj.1 op, hj.2.congr (astep_mdir hs0 hd0 op)⟩
  | merge order =>
    obtain ⟨dead, hq⟩ := quiet_of_wf hi hwf rfl
    exact merge_dur hq hj order hop
  | restart cfg' =>
    obtain ⟨dead, hq⟩ := quiet_of_wf hi hwf rfl
    exact (restart_dur hq hj cfg' hop hst).1
  | backup dest => exact backup_dur hs0 hd0 hj dest hop.1 hop.2

theorem DurJ_fresh (dir : String) (cfg : Cfg) (h : cfg.Valid) : DurJ dir (openDB St.init dir cfg).1 := by
  have hfr : Dur (openDB St.init dir cfg).1 := by
    rw [openDB_fresh_eq dir cfg h]
    exact ⟨freshDB dir cfg, rfl, DInv_fresh dir cfg⟩
  refine ⟨hfr, ?_⟩
  intro md hmd
  rw [openDB_fresh dir cfg h] at hmd
  simp [World.get, if_neg (Engine.mergeDirName_ne dir)] at hmd

end XixiKV.C17H
