import XixiKV.Proofs.HistoryReplay
import XixiKV.Proofs.HistoryGrow
import XixiKV.Proofs.HistorySlot
/-!
# Histories, part 4: the invariant carried along a history and one lemma per API call

The invariant has three components, all relative to the ghost directory `g` of the open handle:

* the semantic one — `Inv` (no batch / dead batch in the slot) or `BInvX` (live batch), with the
  denoted mapping equal to the specification's;
* the state of the merge directory — nothing adoptable (`plan = none`: no merge directory, or one
  without a valid marker) or `MergeOutB` for `g`;
* freshness — no record of `g` carries one of the batch ids the rest of the history will use.

`HInv0`: empty batch slot.  `HInvQ`: empty slot or dead (committed, not yet dropped) batch —
stated for the normal form `setB none s`.  `HInvL`: live batch.
-/
namespace XixiKV.Engine.HistP
open XixiKV XixiKV.Frame XixiKV.Record XixiKV.Index XixiKV.Engine XixiKV.Engine.Restart XixiKV.Engine.MergeP
open XixiKV.Engine.BatchP XixiKV.Adopt

/-! ## freshness of the batch ids still to come -/

def FreshG (g : GDir) (ids : List Nat) : Prop := ∀ id ∈ ids, 0 < id ∧ ∀ x ∈ g, ∀ r ∈ x.2, r.batch ≠ id

theorem FreshG.grown {g g' : GDir} {ids : List Nat} {P : Record → Prop} {a : Nat} (h : FreshG g ids)
    (hg : Grown P a g g') (hP : ∀ r, P r → ∀ id ∈ ids, 0 < id → r.batch ≠ id) : FreshG g' ids := by
  intro id hid
  obtain ⟨h0, h1⟩ := h id hid
  refine ⟨h0, ?_⟩
  intro x hx r hr
  rcases hg.recs x hx r hr with ⟨y, hy, hry⟩ | hp
  · exact h1 y hy r hry
  · exact hP r hp id hid h0

theorem FreshG.tail {g : GDir} {id : Nat} {ids : List Nat} (h : FreshG g (id :: ids)) : FreshG g ids :=
  fun i hi => h i (List.mem_cons_of_mem _ hi)

/-! ## the merge directory -/

def MS0 (w : World) (dir : String) (g : GDir) : Prop :=
  plan w dir = none ∨ ∃ n gm vis, MergeOutB w dir g n gm vis

theorem plan_congr {w w' : World} {dir : String} (h : w'.get (mergeDirName dir) = w.get (mergeDirName dir)) :
    plan w' dir = plan w dir := by
  unfold plan; rw [h]

theorem MergeOutB.le_active {w : World} {dir : String} {s : St} {db : DB} {g : GDir} {n : Nat} {gm vis : GDir}
    (h : MergeOutB w dir g n gm vis) (hf : Files s db g) : n ≤ db.activeId := by
  obtain ⟨x, hx, hn⟩ := h.hiNe
  obtain ⟨g0, gf, hg, hlt⟩ := hf.last
  rw [hg] at hx
  rcases List.mem_append.mp hx with hx | hx
  · have := hlt x hx; omega
  · simp only [List.mem_singleton] at hx; rw [hx] at hn; exact hn

theorem FreshLo_congr {g g' : GDir} {n : Nat} (h : lo g' n = lo g n) (id : Nat) : FreshLo g' n id ↔ FreshLo g n id := by
  unfold FreshLo; rw [h]

/-- **`MergeOutB` survives every growth of the ghost directory above the marker** by records that are
    plain or carry a batch id that does not occur below the marker -/
theorem MergeOutB.grown {w w' : World} {dir : String} {g g' : GDir} {n a : Nat} {gm vis : GDir} {P : Record → Prop}
    (h : MergeOutB w dir g n gm vis) (hg : Grown P a g g') (hn : n ≤ a)
    (hP : ∀ r, P r → r.batch = 0 ∨ FreshLo g n r.batch)
    (hw : w'.get (mergeDirName dir) = w.get (mergeDirName dir)) : MergeOutB w' dir g' n gm vis := by
  obtain ⟨hlo, hhi, hne⟩ := hg n hn
  refine ⟨by rw [hw]; exact h.mdir, h.ids, h.count, h.small, by rw [hlo]; exact h.perm, ?_, ?_, hne⟩
  · unfold scanIndex
    rw [hlo]; exact h.live
  · intro x hx r hr
    rcases hhi x hx r hr with ⟨y, hy, hry⟩ | hp
    · rcases h.hiFresh y hy r hry with h0 | hf
      · exact Or.inl h0
      · exact Or.inr ((FreshLo_congr hlo _).mpr hf)
    · rcases hP r hp with h0 | hf
      · exact Or.inl h0
      · exact Or.inr ((FreshLo_congr hlo _).mpr hf)

theorem MS0.step {w w' : World} {dir : String} {g g' : GDir} {s0 s' : St} {db db' : DB}
    (h : MS0 w dir g) (hf : Files s0 db g) (hg : GStep IsPlain db g s' db' g')
    (hw : w'.get (mergeDirName dir) = w.get (mergeDirName dir)) : MS0 w' dir g' := by
  rcases h with h | ⟨n, gm, vis, h⟩
  · exact Or.inl (by rw [plan_congr hw]; exact h)
  · exact Or.inr ⟨n, gm, vis, h.grown hg.grown (h.le_active hf) (fun r hr => Or.inl hr) hw⟩

/-! ## the invariant with an empty batch slot -/

def HInv0 (dir : String) (s : St) (m : BSpec) (ids : List Nat) : Prop :=
  ∃ db g, s.db = some db ∧ db.dir = dir ∧ Inv s db g ∧ (∀ k, absGet s db k = m k) ∧ MS0 s.world dir g ∧ FreshG g ids

theorem HInv0.norm {dir : String} {s : St} {m : BSpec} {ids : List Nat} (h : HInv0 dir s m ids) : setB none s = s := by
  obtain ⟨db, g, hs, _, hi, _⟩ := h
  obtain ⟨w, d⟩ := s
  simp only at hs
  subst hs
  have := hi.nobatch
  simp only [setB, Option.map_some]
  rw [setBDB_of_eq this]

theorem HInv0.tail {dir : String} {s : St} {m : BSpec} {id : Nat} {ids : List Nat} (h : HInv0 dir s m (id :: ids)) :
    HInv0 dir s m ids := by
  obtain ⟨db, g, h1, h2, h3, h4, h5, h6⟩ := h
  exact ⟨db, g, h1, h2, h3, h4, h5, h6.tail⟩

theorem plain_fresh {ids : List Nat} (r : Record) (hr : IsPlain r) (id : Nat) (_ : id ∈ ids) (h0 : 0 < id) : r.batch ≠ id := by
  rw [show r.batch = 0 from hr]; omega

/-- the initial state: `Open` of a fresh directory -/
theorem HInv0_fresh (dir : String) (cfg : Cfg) (h : cfg.Valid) (ids : List Nat) (hpos : ∀ id ∈ ids, 0 < id) :
    (openDB St.init dir cfg).2 = .ok ∧ HInv0 dir (openDB St.init dir cfg).1 (fun _ => none) ids := by
  rw [openDB_fresh dir cfg h]
  refine ⟨rfl, _, _, rfl, rfl, Inv_fresh dir cfg, ?_, Or.inl ?_, ?_⟩
  · intro k; simp only [absGet, Index.get]
  · apply plan_none_of_no_dir
    simp only [World.get, if_neg (mergeDirName_ne dir)]
  · intro id hid
    refine ⟨hpos id hid, ?_⟩
    intro x hx r hr
    simp only [List.mem_singleton] at hx
    rw [hx] at hr; simp at hr

theorem put0 {dir : String} {s : St} {m : BSpec} {ids : List Nat} (h : HInv0 dir s m ids) (k v : ByteArray)
    (hk : k.size < 2 ^ 31) (hv : v.size < 2 ^ 31) :
    (put s k v).2 = (if k.size = 0 then .err "keyempty" else .ok) ∧
    HInv0 dir (put s k v).1 (if k.size = 0 then m else C01.specPut m k v) ids := by
  obtain ⟨db, g, hs, hd, hi, habs, hms, hfr⟩ := h
  by_cases h0 : k.size = 0
  · rw [if_pos h0, if_pos h0, put_keyempty s k v h0 hs]
    exact ⟨rfl, db, g, hs, hd, hi, habs, hms, hfr⟩
  · rw [if_neg h0, if_neg h0]
    obtain ⟨db', g', hs', hi', hres, habs', _, _⟩ := put_spec hi hs k v (by omega) hk hv
    obtain ⟨db'', g'', hs'', hgs⟩ := put_gstep hs hi.files k v hk hv
    rw [hs'] at hs''; cases hs''
    have hgg : g'' = g' := PolicyP.Files_unique hgs.files hi'.files
    subst hgg
    obtain ⟨hfr1, dbf, hsf, hdf⟩ := PolicyP.put_frame hs k v
    rw [hs'] at hsf; cases hsf
    have hw := hfr1 (mergeDirName dir) (by rw [hd]; exact Restart.mergeDirName_ne dir)
    refine ⟨hres, db', g'', hs', hdf.trans hd, hi', ?_, hms.step hi.files hgs hw,
      hfr.grown hgs.grown (fun r hr id hid h0 => plain_fresh r hr id hid h0)⟩
    intro k'
    rw [habs' k', habs k']; rfl

theorem del0 {dir : String} {s : St} {m : BSpec} {ids : List Nat} (h : HInv0 dir s m ids) (k : ByteArray)
    (hk : k.size < 2 ^ 31) :
    (delete s k).2 = (if k.size = 0 then .err "keyempty" else .ok) ∧
    HInv0 dir (delete s k).1 (if k.size = 0 then m else C01.specDel m k) ids := by
  obtain ⟨db, g, hs, hd, hi, habs, hms, hfr⟩ := h
  by_cases h0 : k.size = 0
  · rw [if_pos h0, if_pos h0, delete_keyempty s k h0 hs]
    exact ⟨rfl, db, g, hs, hd, hi, habs, hms, hfr⟩
  · rw [if_neg h0, if_neg h0]
    obtain ⟨db', g', hs', hi', hres, habs', _, _⟩ := delete_spec hi hs k (by omega) hk
    obtain ⟨db'', g'', hs'', hgs⟩ := delete_gstep hs hi.files k hk
    rw [hs'] at hs''; cases hs''
    have hgg : g'' = g' := PolicyP.Files_unique hgs.files hi'.files
    subst hgg
    obtain ⟨hfr1, dbf, hsf, hdf⟩ := PolicyP.delete_frame hs k
    rw [hs'] at hsf; cases hsf
    have hw := hfr1 (mergeDirName dir) (by rw [hd]; exact Restart.mergeDirName_ne dir)
    refine ⟨hres, db', g'', hs', hdf.trans hd, hi', ?_, hms.step hi.files hgs hw,
      hfr.grown hgs.grown (fun r hr id hid h0 => plain_fresh r hr id hid h0)⟩
    intro k'
    rw [habs' k', habs k']; rfl

theorem get0 {dir : String} {s : St} {m : BSpec} {ids : List Nat} (h : HInv0 dir s m ids) (k : ByteArray) :
    (get s k).2 = (if k.size = 0 then .err "keyempty" else C01.getRes (m k)) ∧ (get s k).1 = s := by
  obtain ⟨db, g, hs, hd, hi, habs, hms, hfr⟩ := h
  by_cases h0 : k.size = 0
  · rw [if_pos h0, get_keyempty s k h0 hs]; exact ⟨rfl, rfl⟩
  · rw [if_neg h0]
    obtain ⟨hst, hres⟩ := get_spec hi hs k (by omega)
    rw [hres, habs k]
    exact ⟨rfl, hst⟩

theorem sync0 {dir : String} {s : St} {m : BSpec} {ids : List Nat} (h : HInv0 dir s m ids) :
    (syncDB s).2 = .ok ∧ HInv0 dir (syncDB s).1 m ids := by
  obtain ⟨db, g, hs, hd, hi, habs, hms, hfr⟩ := h
  obtain ⟨hs', hi', hres, habs'⟩ := sync_spec hi hs
  obtain ⟨_, hgs⟩ := sync_gstep hs hi.files
  obtain ⟨hfr1, _⟩ := PolicyP.syncDB_frame hs
  have hw := hfr1 (mergeDirName dir) (by rw [hd]; exact Restart.mergeDirName_ne dir)
  exact ⟨hres, db, g, hs', hd, hi', fun k => by rw [habs' k, habs k], hms.step hi.files hgs hw, hfr⟩

/-! ## `Merge` -/

theorem FreshG_snoc_empty {g : GDir} {ids : List Nat} (h : FreshG g ids) (a : Nat) : FreshG (g ++ [(a, [])]) ids := by
  intro id hid
  obtain ⟨h0, h1⟩ := h id hid
  refine ⟨h0, ?_⟩
  intro x hx r hr
  rcases List.mem_append.mp hx with hx | hx
  · exact h1 x hx r hr
  · simp only [List.mem_singleton] at hx; rw [hx] at hr; simp at hr

/-- **`Merge` from any state of the invariant**, whatever the merge directory held before (`Merge`
    removes it first): the mapping is unchanged; on success the merge directory is `MergeOutB` for the
    rotated ghost directory, on error it has no marker -/
theorem merge0 {dir : String} {s : St} {m : BSpec} {ids : List Nat} (h : HInv0 dir s m ids) (order : List Nat)
    (ho : order.Nodup) (hsmall : ∀ db, s.db = some db → db.activeId + 1 < 2 ^ 32) :
    ((merge s order).2 = .ok ∨ ∃ e, (merge s order).2 = .err e) ∧ HInv0 dir (merge s order).1 m ids := by
  obtain ⟨db, g, hs, hd, hi, habs, _, hfr⟩ := h
  obtain ⟨h1, h2, h3, _, h5, h6, h7⟩ := merge_spec hs hi order ho (hsmall db hs)
  refine ⟨h6, rotDB db, _, h1, hd, h2, fun k => by rw [h3 k, habs k], ?_, FreshG_snoc_empty hfr _⟩
  rcases h6 with hok | ⟨e, he⟩
  · obtain ⟨gm, vis, hmo⟩ := h7 hok
    rw [hd] at hmo
    exact Or.inr ⟨_, gm, vis, MergeOutW.toB hmo⟩
  · obtain ⟨md, hmd, hmk⟩ := h5 e he
    rw [hd] at hmd
    exact Or.inl (plan_none_of_no_marker hmd hmk)

/-! ## restart: `Close`, then `Open` of the same directory -/

/-- nothing adoptable: the scan path (`C07_no_marker_open` with the new handle's directory explicit) -/
theorem restart_scan {s : St} {db : DB} {g : GDir} (cfg' : Cfg) (hdb : s.db = some db) (hinv : Inv s db g)
    (hplan : plan s.world db.dir = none) (hcfg : cfg'.Valid) :
    (close s).2 = .ok ∧ ∃ s' db', openDB (close s).1 db.dir cfg' = (s', .ok) ∧ s'.db = some db' ∧ db'.dir = db.dir ∧
      (∀ k, absGet s' db' k = absGet s db k) ∧ Inv s' db' g ∧
      s'.world.get (mergeDirName db.dir) = s.world.get (mergeDirName db.dir) := by
  obtain ⟨d, hd, hlock, hm⟩ := hinv.dir
  have hclose := close_eq s db d hdb hd
  have hms : Matches (syncAll d.data) g := Matches_syncAll hm
  have hplan' : plan (s.world.set db.dir { d with data := syncAll d.data, locked := false }) db.dir = none := by
    unfold plan at hplan ⊢
    rw [MergeP.get_set_ne _ _ _ _ (mname_ne _)]
    exact hplan
  have hopen := openDB_ghost
    { world := s.world.set db.dir { d with data := syncAll d.data, locked := false }, db := none }
    db.dir cfg' { d with data := syncAll d.data, locked := false } g db.activeId
    rfl hcfg (MergeP.get_set_self _ _ _) rfl hplan' hms hinv.recs hinv.active
  rw [hclose]
  simp only [] at hopen ⊢
  rw [set_set] at hopen
  refine ⟨trivial, _, _, hopen, rfl, rfl, ?_, ?_, ?_⟩
  · intro k
    apply absGet_congr
    · exact hinv.index.symm
    · intro id
      simp only [dirOf, scanDB, MergeP.get_set_self, hd, Option.getD_some]
      exact getFile_syncAll d.data id
  · exact Inv_scanDB _ db.dir cfg' _ g db.activeId (MergeP.get_set_self _ _ _) rfl hms hinv.asc hinv.recs
      hinv.active _ rfl
  · exact MergeP.get_set_ne _ _ _ _ (mname_ne _)

/-- a finished merge (`MergeOutB`): the adopting restart (`C06_adopt` for `MergeOutB`) -/
theorem restart_adopt {s : St} {db : DB} {g : GDir} {n : Nat} {gm vis : GDir} (cfg' : Cfg)
    (hdb : s.db = some db) (hinv : Inv s db g) (hmo : MergeOutB s.world db.dir g n gm vis)
    (hF : HintFits gm) (hcfg : cfg'.Valid) :
    (close s).2 = .ok ∧ ∃ s' db', openDB (close s).1 db.dir cfg' = (s', .ok) ∧ s'.db = some db' ∧ db'.dir = db.dir ∧
      (∀ k, absGet s' db' k = absGet s db k) ∧ Inv s' db' (gm ++ hi g n) ∧
      s'.world.get (mergeDirName db.dir) = none ∧ Merged gm := by
  obtain ⟨d, hd, hlock, hm⟩ := hinv.dir
  have hclose := close_eq s db d hdb hd
  have hne := mname_ne db.dir
  rw [hclose]
  refine ⟨rfl, ?_⟩
  have hmo' : MergeOutB (s.world.set db.dir { d with data := syncAll d.data, locked := false }) db.dir g n gm vis :=
    ⟨by rw [MergeP.get_set_ne _ _ _ _ hne]; exact hmo.mdir, hmo.ids, hmo.count, hmo.small, hmo.perm, hmo.live,
      hmo.hiFresh, hmo.hiNe⟩
  obtain ⟨md, maxFid, W', hmd, hopen, hWd, hWm, hWo, hmt, hinv', hM⟩ := open_after_mergeB
    ⟨s.world.set db.dir { d with data := syncAll d.data, locked := false }, none⟩ db.dir cfg'
    { d with data := syncAll d.data, locked := false } g n db.activeId gm vis rfl hcfg
    (MergeP.get_set_self _ _ _) rfl (Matches_syncAll hm) hinv.asc hinv.recs hinv.active hmo' hF
  refine ⟨_, _, hopen, rfl, rfl, ?_, hinv', hWm, hM⟩
  intro k
  exact absGet_of_ValRel hinv hinv' (ValRel_mergedB hmo hinv.asc hinv.recs) k

theorem Matches_mem_right : ∀ {data : List (Nat × FileSt)} {g : GDir}, Matches data g → ∀ x ∈ g,
    ∃ y ∈ data, y.2.bytes = bytesOf x.2 := by
  intro data
  induction data with
  | nil => intro g h x hx; rw [Restart.Matches_nil_left] at h; subst h; simp at hx
  | cons y data ih =>
    intro g h x hx
    rw [Restart.Matches_cons] at h
    obtain ⟨z, g', rfl, _, e2, h3⟩ := h
    rcases List.mem_cons.mp hx with e | hx
    · exact ⟨y, by simp, by rw [e]; exact e2⟩
    · obtain ⟨y', hy', e'⟩ := ih h3 x hx
      exact ⟨y', by simp [hy'], e'⟩

/-- `HintFits` from a bound on the BYTES of the merge directory: every rewritten file is shorter than
    4 GiB (the ids are below the marker id, which is a `uint32` by `MergeOutB.small`) -/
theorem HintFits_of_sizes {w : World} {dir : String} {g : GDir} {n : Nat} {gm vis : GDir}
    (h : MergeOutB w dir g n gm vis)
    (hsz : ∀ md, w.get (mergeDirName dir) = some md → ∀ x ∈ md.data, x.2.bytes.size < 2 ^ 32) : HintFits gm := by
  obtain ⟨md, hmd, hmm, _, _⟩ := h.mdir
  apply HintFits_of_small
  intro x hx
  constructor
  · have : x.1 ∈ gm.map (·.1) := List.mem_map.mpr ⟨x, hx, rfl⟩
    rw [h.ids] at this
    have h1 := List.mem_range.mp this
    have h2 := h.count.2
    have h3 := h.small
    omega
  · obtain ⟨y, hy, e⟩ := Matches_mem_right hmm x hx
    rw [← e]
    exact hsz md hmd y hy

theorem FreshG_adopted {g gm : GDir} {n : Nat} {ids : List Nat} (h : FreshG g ids) (hM : Merged gm) :
    FreshG (gm ++ hi g n) ids := by
  intro id hid
  obtain ⟨h0, h1⟩ := h id hid
  refine ⟨h0, ?_⟩
  intro x hx r hr
  rcases List.mem_append.mp hx with hx | hx
  · obtain ⟨p, hp⟩ := mem_records_logOf hx hr
    rw [(hM.plain _ hp).1]; omega
  · exact h1 x ((hi_sublist g n).subset hx) r hr

/-- **restart from any state of the invariant**, under any valid configuration: both calls succeed,
    the mapping is unchanged, afterwards nothing is adoptable any more -/
theorem restart0 {dir : String} {s : St} {m : BSpec} {ids : List Nat} (h : HInv0 dir s m ids) (cfg' : Cfg)
    (hcfg : cfg'.Valid)
    (hsz : ∀ md, s.world.get (mergeDirName dir) = some md → ∀ x ∈ md.data, x.2.bytes.size < 2 ^ 32) :
    (close s).2 = .ok ∧ (openDB (close s).1 dir cfg').2 = .ok ∧ HInv0 dir (openDB (close s).1 dir cfg').1 m ids := by
  obtain ⟨db, g, hs, hd, hi, habs, hms, hfr⟩ := h
  subst hd
  rcases hms with hplan | ⟨n, gm, vis, hmo⟩
  · obtain ⟨hc, s', db', hopen, hs', hd', habs', hi', hw⟩ := restart_scan cfg' hs hi hplan hcfg
    rw [hopen]
    exact ⟨hc, rfl, db', g, hs', hd', hi', fun k => by rw [habs' k, habs k],
      Or.inl (by rw [plan_congr hw]; exact hplan), hfr⟩
  · have hF := HintFits_of_sizes hmo hsz
    obtain ⟨hc, s', db', hopen, hs', hd', habs', hi', hw, hM⟩ := restart_adopt cfg' hs hi hmo hF hcfg
    rw [hopen]
    exact ⟨hc, rfl, db', _, hs', hd', hi', fun k => by rw [habs' k, habs k],
      Or.inl (plan_none_of_no_dir hw), FreshG_adopted hfr hM⟩

/-! ## the invariant with a live batch -/

def HInvL (dir : String) (s : St) (m : BSpec) (issued : List (ByteArray × Option ByteArray)) (ids : List Nat) : Prop :=
  ∃ db g b l0 fl, BInvX s db g b m issued l0 fl ∧ db.dir = dir ∧
    (plan s.world dir = none ∨ ∃ n gm vis, MergeOutB s.world dir g n gm vis ∧ FreshLo g n b.id) ∧
    FreshG g ids ∧ b.id ∉ ids

theorem batch_fresh {id : Nat} {ids : List Nat} (hb : id ∉ ids) (r : Record) (hr : IsBatch id r) (i : Nat)
    (hi : i ∈ ids) (_ : 0 < i) : r.batch ≠ i := by
  rw [show r.batch = id from hr]
  intro e; subst e; exact hb hi

theorem live_carry {dir : String} {s s' : St} {db db' : DB} {g g' : GDir} {bid : Nat} {ids : List Nat}
    (hf : Files s db g)
    (hms : plan s.world dir = none ∨ ∃ n gm vis, MergeOutB s.world dir g n gm vis ∧ FreshLo g n bid)
    (hfr : FreshG g ids) (hb : bid ∉ ids) (hgs : GStep (IsBatch bid) db g s' db' g')
    (hw : s'.world.get (mergeDirName dir) = s.world.get (mergeDirName dir)) :
    (plan s'.world dir = none ∨ ∃ n gm vis, MergeOutB s'.world dir g' n gm vis ∧ FreshLo g' n bid) ∧
    FreshG g' ids := by
  refine ⟨?_, hfr.grown hgs.grown (fun r hr i hi h0 => batch_fresh hb r hr i hi h0)⟩
  rcases hms with h | ⟨n, gm, vis, h, hfl⟩
  · exact Or.inl (by rw [plan_congr hw]; exact h)
  · have hn := h.le_active hf
    refine Or.inr ⟨n, gm, vis, h.grown hgs.grown hn (fun r hr => Or.inr ?_) hw, ?_⟩
    · rw [show r.batch = bid from hr]; exact hfl
    · exact (FreshLo_congr (hgs.grown n hn).1 _).mpr hfl

/-- `NewBatch` with a fresh id -/
theorem bnew0 {dir : String} {s : St} {m : BSpec} {id : Nat} {ids : List Nat} (h : HInv0 dir s m (id :: ids))
    (sync : Bool) (hlt : id < 2 ^ 63) (hni : id ∉ ids) :
    (bnew s sync id).2 = .ok ∧ HInvL dir (bnew s sync id).1 m [] ids := by
  obtain ⟨db, g, hs, hd, hi, habs, hms, hfr⟩ := h
  obtain ⟨h0, hun⟩ := hfr id (by simp)
  have hfresh : pendingGet (replayLog (logOf g)).pending id = [] := by
    apply fresh_of_unused
    intro x hx
    obtain ⟨y, hy, hr⟩ := mem_logOf_record (r := x.1) (p := x.2) hx
    exact hun y hy _ hr
  have hx := bnew_specX hi hs sync id h0 hlt hfresh
  have hbase : absGet s db = m := funext habs
  rw [hbase] at hx
  refine ⟨by rw [bnew_eq hs], _, g, _, _, _, hx, hd, ?_, hfr.tail, hni⟩
  have hw : (bnew s sync id).1.world = s.world := by rw [bnew_eq hs]
  rw [hw]
  rcases hms with h | ⟨n, gm, vis, h⟩
  · exact Or.inl h
  · exact Or.inr ⟨n, gm, vis, h, fun y hy r hr => hun y ((lo_sublist g n).subset hy) r hr⟩

theorem bputL {dir : String} {s : St} {m : BSpec} {issued : List (ByteArray × Option ByteArray)} {ids : List Nat}
    (h : HInvL dir s m issued ids) (k v : ByteArray) (hk : k.size < 2 ^ 31) (hv : v.size < 2 ^ 31) :
    (bput s k v).2 = (if k.size = 0 then .err "keyempty" else .ok) ∧
    HInvL dir (bput s k v).1 m (if k.size = 0 then issued else issued ++ [(k, some v)]) ids := by
  obtain ⟨db, g, b, l0, fl, hx, hd, hms, hfr, hb⟩ := h
  by_cases h0 : k.size = 0
  · rw [if_pos h0, if_pos h0, bput_keyempty hx.open_ hx.batch k v h0]
    exact ⟨rfl, db, g, b, l0, fl, hx, hd, hms, hfr, hb⟩
  · rw [if_neg h0, if_neg h0]
    obtain ⟨hres, db', g', b', new, hx', hid, _⟩ := bput_specX hx k v (by omega) hk hv
    obtain ⟨db'', g'', hs'', hgs⟩ := bput_gstep hx.open_ hx.batch hx.core.files hx.core.stagedOK
      (by have := hx.core.idlt; omega) k v
    rw [hx'.open_] at hs''; cases hs''
    have hgg : g'' = g' := PolicyP.Files_unique hgs.files hx'.core.files
    subst hgg
    obtain ⟨hfr1, dbf, hsf, hdf⟩ := bput_frame hx.open_ k v
    rw [hx'.open_] at hsf; cases hsf
    have hw := hfr1 (mergeDirName dir) (by rw [hd]; exact Restart.mergeDirName_ne dir)
    obtain ⟨c1, c2⟩ := live_carry hx.core.files hms hfr hb hgs hw
    exact ⟨hres, db', g'', b', l0, fl ++ new, hx', hdf.trans hd, by rw [hid]; exact c1, c2, by rw [hid]; exact hb⟩

theorem bdelL {dir : String} {s : St} {m : BSpec} {issued : List (ByteArray × Option ByteArray)} {ids : List Nat}
    (h : HInvL dir s m issued ids) (k : ByteArray) (hk : k.size < 2 ^ 31) :
    (bdel s k).2 = (if k.size = 0 then .err "keyempty" else .ok) ∧
    HInvL dir (bdel s k).1 m (if k.size = 0 then issued else issued ++ [(k, none)]) ids := by
  obtain ⟨db, g, b, l0, fl, hx, hd, hms, hfr, hb⟩ := h
  by_cases h0 : k.size = 0
  · rw [if_pos h0, if_pos h0, bdel_keyempty hx.open_ hx.batch k h0]
    exact ⟨rfl, db, g, b, l0, fl, hx, hd, hms, hfr, hb⟩
  · rw [if_neg h0, if_neg h0]
    obtain ⟨hres, db', g', b', new, hx', hid, _⟩ := bdel_specX hx k (by omega) hk
    obtain ⟨db'', g'', hs'', hgs⟩ := bdel_gstep hx.open_ hx.batch hx.core.files hx.core.stagedOK
      (by have := hx.core.idlt; omega) k
    rw [hx'.open_] at hs''; cases hs''
    have hgg : g'' = g' := PolicyP.Files_unique hgs.files hx'.core.files
    subst hgg
    obtain ⟨hfr1, dbf, hsf, hdf⟩ := bdel_frame hx.open_ k
    rw [hx'.open_] at hsf; cases hsf
    have hw := hfr1 (mergeDirName dir) (by rw [hd]; exact Restart.mergeDirName_ne dir)
    obtain ⟨c1, c2⟩ := live_carry hx.core.files hms hfr hb hgs hw
    exact ⟨hres, db', g'', b', l0, fl ++ new, hx', hdf.trans hd, by rw [hid]; exact c1, c2, by rw [hid]; exact hb⟩

theorem bgetL {dir : String} {s : St} {m : BSpec} {issued : List (ByteArray × Option ByteArray)} {ids : List Nat}
    (h : HInvL dir s m issued ids) (k : ByteArray) :
    (bget s k).2 = (if k.size = 0 then .err "keyempty" else resOf (foldIssued m issued k)) ∧ (bget s k).1 = s := by
  obtain ⟨db, g, b, l0, fl, hx, _⟩ := h
  by_cases h0 : k.size = 0
  · rw [if_pos h0, bget_keyempty hx.open_ hx.batch k h0]; exact ⟨rfl, rfl⟩
  · rw [if_neg h0, bget_spec ⟨l0, fl, hx⟩ k (by omega)]; exact ⟨rfl, rfl⟩

/-! ## empty slot or dead batch: everything through the normal form -/

/-- the slot holds nothing (`dead = false`) or a committed batch (`dead = true`) -/
def SlotShape (s : St) (dead : Bool) : Prop :=
  ∃ db, s.db = some db ∧ if dead then ∃ bc, db.batch = some bc ∧ bc.committed = true else db.batch = none

def HInvQ (dir : String) (s : St) (m : BSpec) (dead : Bool) (ids : List Nat) : Prop :=
  HInv0 dir (setB none s) m ids ∧ SlotShape s dead

theorem HInv0.toQ {dir : String} {s : St} {m : BSpec} {ids : List Nat} (h : HInv0 dir s m ids) :
    HInvQ dir s m false ids := by
  refine ⟨by rw [h.norm]; exact h, ?_⟩
  obtain ⟨db, g, hs, _, hi, _⟩ := h
  exact ⟨db, hs, hi.nobatch⟩

theorem HInvQ.tail {dir : String} {s : St} {m : BSpec} {dead : Bool} {id : Nat} {ids : List Nat}
    (h : HInvQ dir s m dead (id :: ids)) : HInvQ dir s m dead ids := ⟨h.1.tail, h.2⟩

/-- an operation that commutes with `setB` preserves `HInvQ` as soon as it preserves `HInv0` -/
theorem HInvQ.lift {f : St → St × Res} (hf : ∀ ob s, f (setB ob s) = (setB ob (f s).1, (f s).2))
    {dir : String} {s : St} {m m' : BSpec} {dead : Bool} {ids : List Nat} (h : HInvQ dir s m dead ids)
    (H : HInv0 dir (f (setB none s)).1 m' ids) :
    (f s).2 = (f (setB none s)).2 ∧ HInvQ dir (f s).1 m' dead ids := by
  obtain ⟨db, hs, hshape⟩ := h.2
  have hrest := setB_restore hs
  have e : f s = (setB db.batch (f (setB none s)).1, (f (setB none s)).2) := by
    conv => lhs; rw [← hrest]
    exact hf _ _
  rw [e]
  refine ⟨rfl, ?_, ?_⟩
  · show HInv0 dir (setB none (setB db.batch (f (setB none s)).1)) m' ids
    rw [setB_setB, H.norm]; exact H
  · obtain ⟨db0, g, hs0, _⟩ := H
    refine ⟨setBDB db.batch db0, setB_db hs0 _, ?_⟩
    exact hshape

theorem putQ {dir : String} {s : St} {m : BSpec} {dead : Bool} {ids : List Nat} (h : HInvQ dir s m dead ids)
    (k v : ByteArray) (hk : k.size < 2 ^ 31) (hv : v.size < 2 ^ 31) :
    (put s k v).2 = (if k.size = 0 then .err "keyempty" else .ok) ∧
    HInvQ dir (put s k v).1 (if k.size = 0 then m else C01.specPut m k v) dead ids := by
  obtain ⟨h1, h2⟩ := put0 h.1 k v hk hv
  obtain ⟨e, h3⟩ := HInvQ.lift (f := fun s => put s k v) (fun ob s => put_setB ob s k v) h h2
  exact ⟨e.trans h1, h3⟩

theorem delQ {dir : String} {s : St} {m : BSpec} {dead : Bool} {ids : List Nat} (h : HInvQ dir s m dead ids)
    (k : ByteArray) (hk : k.size < 2 ^ 31) :
    (delete s k).2 = (if k.size = 0 then .err "keyempty" else .ok) ∧
    HInvQ dir (delete s k).1 (if k.size = 0 then m else C01.specDel m k) dead ids := by
  obtain ⟨h1, h2⟩ := del0 h.1 k hk
  obtain ⟨e, h3⟩ := HInvQ.lift (f := fun s => delete s k) (fun ob s => delete_setB ob s k) h h2
  exact ⟨e.trans h1, h3⟩

theorem getQ {dir : String} {s : St} {m : BSpec} {dead : Bool} {ids : List Nat} (h : HInvQ dir s m dead ids)
    (k : ByteArray) :
    (get s k).2 = (if k.size = 0 then .err "keyempty" else C01.getRes (m k)) ∧ (get s k).1 = s := by
  obtain ⟨h1, _⟩ := get0 h.1 k
  have := get_setB none s k
  refine ⟨?_, PolicyP.get_state s k⟩
  rw [← h1, this]

theorem syncQ {dir : String} {s : St} {m : BSpec} {dead : Bool} {ids : List Nat} (h : HInvQ dir s m dead ids) :
    (syncDB s).2 = .ok ∧ HInvQ dir (syncDB s).1 m dead ids := by
  obtain ⟨h1, h2⟩ := sync0 h.1
  obtain ⟨e, h3⟩ := HInvQ.lift (f := fun s => syncDB s) (fun ob s => syncDB_setB ob s) h h2
  exact ⟨e.trans h1, h3⟩

theorem mergeQ {dir : String} {s : St} {m : BSpec} {dead : Bool} {ids : List Nat} (h : HInvQ dir s m dead ids)
    (order : List Nat) (ho : order.Nodup) (hsmall : ∀ db, s.db = some db → db.activeId + 1 < 2 ^ 32) :
    ((merge s order).2 = .ok ∨ ∃ e, (merge s order).2 = .err e) ∧ HInvQ dir (merge s order).1 m dead ids := by
  have hsmall' : ∀ db, (setB none s).db = some db → db.activeId + 1 < 2 ^ 32 := by
    intro db0 h0
    obtain ⟨db, hs, _⟩ := h.2
    rw [setB_db hs] at h0
    cases h0
    exact hsmall db hs
  obtain ⟨h1, h2⟩ := merge0 h.1 order ho hsmall'
  obtain ⟨e, h3⟩ := HInvQ.lift (f := fun s => merge s order) (fun ob s => merge_setB ob s order) h h2
  rw [e]
  exact ⟨h1, h3⟩

theorem restartQ {dir : String} {s : St} {m : BSpec} {dead : Bool} {ids : List Nat} (h : HInvQ dir s m dead ids)
    (cfg' : Cfg) (hcfg : cfg'.Valid)
    (hsz : ∀ md, s.world.get (mergeDirName dir) = some md → ∀ x ∈ md.data, x.2.bytes.size < 2 ^ 32) :
    (close s).2 = .ok ∧ (openDB (close s).1 dir cfg').2 = .ok ∧
    HInvQ dir (openDB (close s).1 dir cfg').1 m false ids := by
  have := restart0 h.1 cfg' hcfg hsz
  rw [close_setB] at this
  exact ⟨this.1, this.2.1, this.2.2.toQ⟩

theorem bnew_setB (ob : Option BatchSt) (s : St) (sync : Bool) (id : Nat) : bnew (setB ob s) sync id = bnew s sync id := by
  obtain ⟨w, d⟩ := s
  cases d <;> rfl

theorem bnewQ {dir : String} {s : St} {m : BSpec} {dead : Bool} {id : Nat} {ids : List Nat}
    (h : HInvQ dir s m dead (id :: ids)) (sync : Bool) (hlt : id < 2 ^ 63) (hni : id ∉ ids) :
    (bnew s sync id).2 = .ok ∧ HInvL dir (bnew s sync id).1 m [] ids := by
  have := bnew0 h.1 sync hlt hni
  rw [bnew_setB] at this
  exact this

theorem bdropQ {dir : String} {s : St} {m : BSpec} {dead : Bool} {ids : List Nat} (h : HInvQ dir s m dead ids) :
    (bdrop s).2 = .ok ∧ HInvQ dir (bdrop s).1 m false ids := by
  obtain ⟨db, hs, _⟩ := h.2
  rw [bdrop_eq hs]
  refine ⟨rfl, ?_⟩
  have e : ({ s with db := some { db with batch := none } } : St) = setB none s := by
    simp only [setB, hs, Option.map_some]; rfl
  rw [e]
  exact h.1.toQ

/-- every call through a batch object the slot does not hold (`no-batch`) or through a dead batch
    (`keyempty` first, then `committed`) is rejected and changes nothing -/
def rejectRes (dead : Bool) (keyed : Bool) (k : ByteArray) : Res :=
  if dead then (if keyed ∧ k.size = 0 then .err "keyempty" else .err "committed") else .err "no-batch"

theorem withBatch_none {s : St} {db : DB} (hs : s.db = some db) (hb : db.batch = none) (f : DB → BatchSt → St × Res) :
    withBatch s f = (s, .err "no-batch") := by
  unfold withBatch
  simp only [hs, hb]

theorem bputQ {dir : String} {s : St} {m : BSpec} {dead : Bool} {ids : List Nat} (h : HInvQ dir s m dead ids)
    (k v : ByteArray) : bput s k v = (s, rejectRes dead true k) := by
  obtain ⟨db, hs, hshape⟩ := h.2
  cases dead with
  | false => exact withBatch_none hs hshape _
  | true =>
    obtain ⟨bc, hb, hc⟩ := hshape
    unfold rejectRes
    by_cases h0 : k.size = 0
    · rw [bput_keyempty hs hb k v h0]; simp [h0]
    · rw [bput_committed hs hb k v h0 hc]; simp [h0]

theorem bdelQ {dir : String} {s : St} {m : BSpec} {dead : Bool} {ids : List Nat} (h : HInvQ dir s m dead ids)
    (k : ByteArray) : bdel s k = (s, rejectRes dead true k) := by
  obtain ⟨db, hs, hshape⟩ := h.2
  cases dead with
  | false => exact withBatch_none hs hshape _
  | true =>
    obtain ⟨bc, hb, hc⟩ := hshape
    unfold rejectRes
    by_cases h0 : k.size = 0
    · rw [bdel_keyempty hs hb k h0]; simp [h0]
    · rw [bdel_committed hs hb k h0 hc]; simp [h0]

theorem bgetQ {dir : String} {s : St} {m : BSpec} {dead : Bool} {ids : List Nat} (h : HInvQ dir s m dead ids)
    (k : ByteArray) : bget s k = (s, rejectRes dead true k) := by
  obtain ⟨db, hs, hshape⟩ := h.2
  cases dead with
  | false => exact withBatch_none hs hshape _
  | true =>
    obtain ⟨bc, hb, hc⟩ := hshape
    unfold rejectRes
    by_cases h0 : k.size = 0
    · rw [bget_keyempty hs hb k h0]; simp [h0]
    · rw [bget_committed hs hb k h0 hc]; simp [h0]

theorem bcommitQ {dir : String} {s : St} {m : BSpec} {dead : Bool} {ids : List Nat} (h : HInvQ dir s m dead ids) :
    bcommit s = (s, rejectRes dead false ByteArray.empty) := by
  obtain ⟨db, hs, hshape⟩ := h.2
  cases dead with
  | false => exact withBatch_none hs hshape _
  | true =>
    obtain ⟨bc, hb, hc⟩ := hshape
    rw [bcommit_committed hs hb hc]
    simp [rejectRes]

/-- **`Commit` of the live batch**: answers `.ok`; the mapping becomes the issued operations applied
    one by one; the batch is dead; the merge directory component survives (a batch committed after a
    merge, before its adoption) -/
theorem bcommitL {dir : String} {s : St} {m : BSpec} {issued : List (ByteArray × Option ByteArray)} {ids : List Nat}
    (h : HInvL dir s m issued ids) :
    (bcommit s).2 = .ok ∧ HInvQ dir (bcommit s).1 (foldIssued m issued) true ids := by
  obtain ⟨db, g, b, l0, fl, hx, hd, hms, hfr, hb⟩ := h
  obtain ⟨hres, db', g', hseal, habs, _, _⟩ := bcommit_specX hx
  obtain ⟨db'', g'', hs'', hgs⟩ := bcommit_gstep hx.open_ hx.batch hx.core.files hx.core.stagedOK hx.core.idlt
  rw [hseal.open_] at hs''; cases hs''
  have hgg : g'' = g' := PolicyP.Files_unique hgs.files (hseal.inv.files.congr rfl rfl rfl)
  subst hgg
  obtain ⟨hfr1, dbf, hsf, hdf⟩ := bcommit_frame hx.open_
  rw [hseal.open_] at hsf; cases hsf
  have hw := hfr1 (mergeDirName dir) (by rw [hd]; exact Restart.mergeDirName_ne dir)
  obtain ⟨c1, c2⟩ := live_carry hx.core.files hms hfr hb hgs hw
  refine ⟨hres, ⟨setBDB none db', g'', setB_db hseal.open_ none, hdf.trans hd, Inv_world hseal.inv rfl, ?_, ?_, c2⟩,
    ⟨db', hseal.open_, hseal.batch⟩⟩
  · intro k
    rw [absGet_setB, habs k]
  · show MS0 (bcommit s).1.world dir g''
    rcases c1 with c | ⟨n, gm, vis, c, _⟩
    · exact Or.inl c
    · exact Or.inr ⟨n, gm, vis, c⟩

end XixiKV.Engine.HistP
