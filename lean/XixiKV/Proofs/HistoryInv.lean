import XixiKV.Proofs.HistoryReplay
import XixiKV.Proofs.HistoryGrow
import XixiKV.Proofs.HistorySlot
/-!
# Histories, part 4: the invariant carried along a history and one lemma per API call

The invariant has three components, all relative to the ghost directory `g` of the open handle:

* the semantic one — `Inv` (no batch / dead batch in the slot) or `BInvX` (live batch), with the
  denoted mapping equal to the specification's;
* the state of the merge directory — `NoMarker` (no merge directory, or one without a marker: what a
  `Merge` that reported an error leaves) or `MergeOutB` for `g`;
* sealedness — the replay of `g`'s log leaves nothing parked (`NoPend`): every batch in the log has
  its sealing record.  This makes batch-id freshness a THEOREM for crash-free histories: `NewBatch`
  needs `pendingGet … id = []`, and that holds for EVERY id — also for one that was used before
  (`NewBatch` builds a new snowflake node per batch: two batches created within the same
  millisecond carry the same id).

`HInv0`: empty batch slot.  `HInvQ`: empty slot or dead (committed, not yet dropped) batch —
stated for the normal form `setB none s`.  `HInvL`: live batch.
-/
namespace XixiKV.Engine.HistP
open XixiKV XixiKV.Frame XixiKV.Record XixiKV.Index XixiKV.Engine XixiKV.Engine.Restart XixiKV.Engine.MergeP
open XixiKV.Engine.BatchP XixiKV.Adopt

/-! ## sealed logs -/

theorem NoPend_plain {l new : List (Record × Pos)} (h : NoPend l) (hp : ∀ x ∈ new, x.1.batch = 0) :
    NoPend (l ++ new) := by
  intro id
  rw [replayLog_eq, replayFrom_append, replayFrom_plain_pending _ _ hp]
  exact h id

/-- a sealed log stays sealed when a whole batch — its tagged records, then its sealing record — is
    appended -/
theorem NoPend_commit {l0 tagged : List (Record × Pos)} {b : Nat} (h : NoPend l0) (hb : b ≠ 0)
    (ht : ∀ x ∈ tagged, x.1.batch = b ∧ x.1.typ ≠ 2) (fin : Record) (p : Pos) (hfb : fin.batch = b)
    (hft : fin.typ = 2) : NoPend (l0 ++ tagged ++ [(fin, p)]) := by
  intro id
  rw [replayLog_eq, replayFrom_append, replayFrom_append, replayFrom_tagged b hb tagged _ ht, replayFrom_cons,
    replayFrom_nil]
  have hseal := replayRec_seal (replayFrom Replay.init l0) b hb tagged (h b) fin p hfb hft
  unfold setPending at hseal
  simp only [] at hseal ⊢
  rw [hseal]
  show pendingGet ((applyAll (countFin (replayFrom Replay.init l0) p.size) tagged).pending.filter (·.1 ≠ b)) id = []
  rw [applyAll_pending]
  show pendingGet ((replayFrom Replay.init l0).pending.filter (·.1 ≠ b)) id = []
  by_cases e : id = b
  · rw [e, pendingGet_filter_self]
  · rw [pendingGet_filter_ne _ _ _ e]; exact h id

theorem NoPend_gstep {g g' : GDir} {s' : St} {db db' : DB} (h : NoPend (logOf g)) (hg : GStep IsPlain db g s' db' g') :
    NoPend (logOf g') := by
  obtain ⟨new, e, hp⟩ := hg.log
  rw [e]
  exact NoPend_plain h hp

/-! ## the merge directory -/

/-- no merge directory, or one without a marker (what a `Merge` that reported an error leaves) -/
def NoMarker (w : World) (dir : String) : Prop := ∀ md, w.get (mergeDirName dir) = some md → md.marker = none

def MS0 (w : World) (dir : String) (g : GDir) : Prop :=
  NoMarker w dir ∨ ∃ n gm vis, MergeOutB w dir g n gm vis

theorem NoMarker.plan {w : World} {dir : String} (h : NoMarker w dir) : plan w dir = none := by
  cases hm : w.get (mergeDirName dir) with
  | none => exact plan_none_of_no_dir hm
  | some md => exact plan_none_of_no_marker hm (h md hm)

theorem NoMarker.congr {w w' : World} {dir : String} (h : NoMarker w dir)
    (hw : w'.get (mergeDirName dir) = w.get (mergeDirName dir)) : NoMarker w' dir := by
  intro md hmd
  rw [hw] at hmd
  exact h md hmd

theorem MergeOutB.le_active {w : World} {dir : String} {s : St} {db : DB} {g : GDir} {n : Nat} {gm vis : GDir}
    (h : MergeOutB w dir g n gm vis) (hf : Files s db g) : n ≤ db.activeId := by
  obtain ⟨x, hx, hn⟩ := h.hiNe
  obtain ⟨g0, gf, hg, hlt⟩ := hf.last
  rw [hg] at hx
  rcases List.mem_append.mp hx with hx | hx
  · have := hlt x hx; omega
  · simp only [List.mem_singleton] at hx; rw [hx] at hn; exact hn

/-- **`MergeOutB` survives every growth of the ghost directory above the marker** — plain records,
    batch records with any ids, sealing records, new files -/
theorem MergeOutB.grown {w w' : World} {dir : String} {g g' : GDir} {n a : Nat} {gm vis : GDir} {P : Record → Prop}
    (h : MergeOutB w dir g n gm vis) (hg : Grown P a g g') (hn : n ≤ a)
    (hw : w'.get (mergeDirName dir) = w.get (mergeDirName dir)) : MergeOutB w' dir g' n gm vis := by
  obtain ⟨hlo, _, hne⟩ := hg n hn
  refine ⟨by rw [hw]; exact h.mdir, h.ids, h.count, h.small, by rw [hlo]; exact h.perm, ?_, by rw [hlo]; exact h.loSealed,
    hne⟩
  unfold scanIndex
  rw [hlo]; exact h.live

theorem MS0.step {w w' : World} {dir : String} {g g' : GDir} {s0 s' : St} {db db' : DB} {P : Record → Prop}
    (h : MS0 w dir g) (hf : Files s0 db g) (hg : GStep P db g s' db' g')
    (hw : w'.get (mergeDirName dir) = w.get (mergeDirName dir)) : MS0 w' dir g' := by
  rcases h with h | ⟨n, gm, vis, h⟩
  · exact Or.inl (h.congr hw)
  · exact Or.inr ⟨n, gm, vis, h.grown hg.grown (h.le_active hf) hw⟩

/-! ## the invariant with an empty batch slot -/

def HInv0 (dir : String) (s : St) (m : BSpec) : Prop :=
  ∃ db g, s.db = some db ∧ db.dir = dir ∧ Inv s db g ∧ (∀ k, absGet s db k = m k) ∧ MS0 s.world dir g ∧
    NoPend (logOf g)

theorem HInv0.norm {dir : String} {s : St} {m : BSpec} (h : HInv0 dir s m) : setB none s = s := by
  obtain ⟨db, g, hs, _, hi, _⟩ := h
  obtain ⟨w, d⟩ := s
  simp only at hs
  subst hs
  have := hi.nobatch
  simp only [setB, Option.map_some]
  rw [setBDB_of_eq this]

/-- the initial state: `Open` of a fresh directory -/
theorem HInv0_fresh (dir : String) (cfg : Cfg) (h : cfg.Valid) :
    (openDB St.init dir cfg).2 = .ok ∧ HInv0 dir (openDB St.init dir cfg).1 (fun _ => none) := by
  rw [openDB_fresh dir cfg h]
  refine ⟨rfl, _, _, rfl, rfl, Inv_fresh dir cfg, ?_, Or.inl ?_, ?_⟩
  · intro k; simp only [absGet, Index.get]
  · intro md hmd
    simp [World.get, if_neg (mergeDirName_ne dir)] at hmd
  · intro id; rfl

theorem put0 {dir : String} {s : St} {m : BSpec} (h : HInv0 dir s m) (k v : ByteArray)
    (hk : k.size < 2 ^ 31) (hv : v.size < 2 ^ 31) :
    (put s k v).2 = (if k.size = 0 then .err "keyempty" else .ok) ∧
    HInv0 dir (put s k v).1 (if k.size = 0 then m else C01.specPut m k v) := by
  obtain ⟨db, g, hs, hd, hi, habs, hms, hfr⟩ := h
  by_cases h0 : k.size = 0
  · rw [if_pos h0, if_pos h0, put_keyempty s k v h0 hs]
    exact ⟨rfl, db, g, hs, hd, hi, habs, hms, hfr⟩
  · rw [if_neg h0, if_neg h0]
    obtain ⟨db', g', hs', hi', hres, habs', _, _⟩ := put_spec hi hs k v (by omega) hk hv
    obtain ⟨db'', g'', hs'', hgs⟩ := put_gstep hs hi.files k v hk hv
    rw [hs'] at hs''; cases hs''
    have hgg : g'' = g' := PolicyP.Files_unique hgs.files hi'.files
    subst hgg
    obtain ⟨hfr1, dbf, hsf, hdf⟩ := PolicyP.put_frame hs k v
    rw [hs'] at hsf; cases hsf
    have hw := hfr1 (mergeDirName dir) (by rw [hd]; exact Restart.mergeDirName_ne dir)
    refine ⟨hres, db', g'', hs', hdf.trans hd, hi', ?_, hms.step hi.files hgs hw, NoPend_gstep hfr hgs⟩
    intro k'
    rw [habs' k', habs k']; rfl

theorem del0 {dir : String} {s : St} {m : BSpec} (h : HInv0 dir s m) (k : ByteArray)
    (hk : k.size < 2 ^ 31) :
    (delete s k).2 = (if k.size = 0 then .err "keyempty" else .ok) ∧
    HInv0 dir (delete s k).1 (if k.size = 0 then m else C01.specDel m k) := by
  obtain ⟨db, g, hs, hd, hi, habs, hms, hfr⟩ := h
  by_cases h0 : k.size = 0
  · rw [if_pos h0, if_pos h0, delete_keyempty s k h0 hs]
    exact ⟨rfl, db, g, hs, hd, hi, habs, hms, hfr⟩
  · rw [if_neg h0, if_neg h0]
    obtain ⟨db', g', hs', hi', hres, habs', _, _⟩ := delete_spec hi hs k (by omega) hk
    obtain ⟨db'', g'', hs'', hgs⟩ := delete_gstep hs hi.files k hk
    rw [hs'] at hs''; cases hs''
    have hgg : g'' = g' := PolicyP.Files_unique hgs.files hi'.files
    subst hgg
    obtain ⟨hfr1, dbf, hsf, hdf⟩ := PolicyP.delete_frame hs k
    rw [hs'] at hsf; cases hsf
    have hw := hfr1 (mergeDirName dir) (by rw [hd]; exact Restart.mergeDirName_ne dir)
    refine ⟨hres, db', g'', hs', hdf.trans hd, hi', ?_, hms.step hi.files hgs hw, NoPend_gstep hfr hgs⟩
    intro k'
    rw [habs' k', habs k']; rfl

theorem get0 {dir : String} {s : St} {m : BSpec} (h : HInv0 dir s m) (k : ByteArray) :
    (get s k).2 = (if k.size = 0 then .err "keyempty" else C01.getRes (m k)) ∧ (get s k).1 = s := by
  obtain ⟨db, g, hs, hd, hi, habs, hms, hfr⟩ := h
  by_cases h0 : k.size = 0
  · rw [if_pos h0, get_keyempty s k h0 hs]; exact ⟨rfl, rfl⟩
  · rw [if_neg h0]
    obtain ⟨hst, hres⟩ := get_spec hi hs k (by omega)
    rw [hres, habs k]
    exact ⟨rfl, hst⟩

theorem sync0 {dir : String} {s : St} {m : BSpec} (h : HInv0 dir s m) :
    (syncDB s).2 = .ok ∧ HInv0 dir (syncDB s).1 m := by
  obtain ⟨db, g, hs, hd, hi, habs, hms, hfr⟩ := h
  obtain ⟨hs', hi', hres, habs'⟩ := sync_spec hi hs
  obtain ⟨_, hgs⟩ := sync_gstep hs hi.files
  obtain ⟨hfr1, _⟩ := PolicyP.syncDB_frame hs
  have hw := hfr1 (mergeDirName dir) (by rw [hd]; exact Restart.mergeDirName_ne dir)
  exact ⟨hres, db, g, hs', hd, hi', fun k => by rw [habs' k, habs k], hms.step hi.files hgs hw, hfr⟩

/-! ## `Backup` into another directory -/

theorem mergeDirName_inj {a b : String} (h : mergeDirName a = mergeDirName b) : a = b := by
  unfold mergeDirName at h
  have := congrArg String.toList h
  simp only [String.toList_append] at this
  exact String.toList_inj.mp (List.append_cancel_right this)

/-- `Backup` writes `dest` and removes `mergeDirName dest` (unless that is the data directory): the
    data directory and its merge directory are where they were when `dest` is neither of them -/
theorem backup_eq {s : St} {db : DB} (hs : s.db = some db) (dest : String) :
    ∃ W, backup s dest = ({ s with world := W }, .ok) ∧
      (dest ≠ db.dir → W.get db.dir = s.world.get db.dir) ∧
      (dest ≠ db.dir → dest ≠ mergeDirName db.dir →
        W.get (mergeDirName db.dir) = s.world.get (mergeDirName db.dir)) := by
  unfold backup withDB
  rw [hs]
  refine ⟨_, rfl, fun h1 => ?_, fun h1 h2 => ?_⟩
  · simp only []
    rw [MergeP.get_set_ne _ _ _ _ (fun e => h1 e.symm)]
    split
    · rfl
    · rename_i hm
      exact MergeP.get_remove_ne _ _ _ (fun e => hm e.symm)
  · simp only []
    rw [MergeP.get_set_ne _ _ _ _ (fun e => h2 e.symm)]
    split
    · rfl
    · exact MergeP.get_remove_ne _ _ _ (fun e => h1 (mergeDirName_inj e).symm)

theorem Inv_frame {s s' : St} {db : DB} {g : GDir} (h : Inv s db g) (hw : s'.world.get db.dir = s.world.get db.dir) :
    Inv s' db g :=
  ⟨by rw [hw]; exact h.dir, h.asc, h.active, h.recs, h.index, h.sorted, h.counters, h.nobatch⟩

theorem absGet_frame {s s' : St} (db : DB) (hw : s'.world.get db.dir = s.world.get db.dir) (k : ByteArray) :
    absGet s' db k = absGet s db k := by
  unfold absGet valueAt dirOf
  rw [hw]

/-- `Backup` copies the data files into `dest` and removes a merge directory next to `dest`
    (`removeStaleMergeDir`, repair 88d026d); with `dest` neither the data directory nor its merge
    directory nothing the invariant speaks about is touched: the removed `mergeDirName dest` is not
    `mergeDirName dir` (`mergeDirName_inj`, `dest ≠ dir`), and if it is `dir` itself the guard of
    `Backup` keeps it — NO new side condition -/
theorem backup0 {dir : String} {s : St} {m : BSpec} (h : HInv0 dir s m) (dest : String)
    (h1 : dest ≠ dir) (h2 : dest ≠ mergeDirName dir) :
    (backup s dest).2 = .ok ∧ HInv0 dir (backup s dest).1 m := by
  obtain ⟨db, g, hs, hd, hi, habs, hms, hfr⟩ := h
  obtain ⟨W, e, hwd, hwm⟩ := backup_eq hs dest
  rw [e]
  have hw1 : W.get db.dir = s.world.get db.dir := hwd (by rw [hd]; exact h1)
  have hw2 : W.get (mergeDirName dir) = s.world.get (mergeDirName dir) := by
    have := hwm (by rw [hd]; exact h1) (by rw [hd]; exact h2)
    rw [hd] at this; exact this
  refine ⟨rfl, db, g, hs, hd, Inv_frame hi hw1, fun k => by rw [absGet_frame db hw1, habs k], ?_, hfr⟩
  rcases hms with hnm | ⟨n, gm, vis, hmo⟩
  · exact Or.inl (hnm.congr hw2)
  · exact Or.inr ⟨n, gm, vis, ⟨by rw [hw2]; exact hmo.mdir, hmo.ids, hmo.count, hmo.small, hmo.perm, hmo.live,
      hmo.loSealed, hmo.hiNe⟩⟩

/-! ## `Merge` -/

/-- **`Merge` from any state of the invariant**, whatever the merge directory held before (`Merge`
    removes it first): the mapping is unchanged; on success the merge directory is `MergeOutB` for the
    rotated ghost directory, on error it has no marker -/
theorem merge0 {dir : String} {s : St} {m : BSpec} (h : HInv0 dir s m) (order : List Nat)
    (ho : order.Nodup) (hsmall : ∀ db, s.db = some db → db.activeId + 1 < 2 ^ 32) :
    ((merge s order).2 = .ok ∨ ∃ e, (merge s order).2 = .err e) ∧ HInv0 dir (merge s order).1 m := by
  obtain ⟨db, g, hs, hd, hi, habs, _, hfr⟩ := h
  obtain ⟨h1, h2, h3, _, h5, h6, h7⟩ := merge_spec hs hi order ho (hsmall db hs)
  have hnp : NoPend (logOf (g ++ [(db.activeId + 1, [])])) := by rw [logOf_new_file]; exact hfr
  refine ⟨h6, rotDB db, _, h1, hd, h2, fun k => by rw [h3 k, habs k], ?_, hnp⟩
  rcases h6 with hok | ⟨e, he⟩
  · obtain ⟨gm, vis, hmo⟩ := h7 hok
    rw [hd] at hmo
    exact Or.inr ⟨_, gm, vis, MergeOutW.toB hmo h2.asc hnp⟩
  · obtain ⟨md, hmd, hmk⟩ := h5 e he
    rw [hd] at hmd
    refine Or.inl (fun md' hmd' => ?_)
    rw [hmd] at hmd'
    cases hmd'
    exact hmk

/-! ## restart: `Close`, then `Open` of the same directory -/

/-- nothing adoptable: the scan path (`C07_no_marker_open` with the new handle's directory explicit) -/
theorem restart_scan {s : St} {db : DB} {g : GDir} (cfg' : Cfg) (hdb : s.db = some db) (hinv : Inv s db g)
    (hplan : plan s.world db.dir = none) (hcfg : cfg'.Valid) :
    (close s).2 = .ok ∧ ∃ s' db', openDB (close s).1 db.dir cfg' = (s', .ok) ∧ s'.db = some db' ∧ db'.dir = db.dir ∧
      (∀ k, absGet s' db' k = absGet s db k) ∧ Inv s' db' g ∧
      s'.world.get (mergeDirName db.dir) = s.world.get (mergeDirName db.dir) ∧ db'.activeId = db.activeId := by
  obtain ⟨d, hd, hlock, hm⟩ := hinv.dir
  have hclose := close_eq s db d hdb hd
  have hms : Matches (syncAll d.data) g := Matches_syncAll hm
  have hplan' : plan (s.world.set db.dir { d with data := syncAll d.data, locked := false }) db.dir = none := by
    unfold plan at hplan ⊢
    rw [MergeP.get_set_ne _ _ _ _ (mname_ne _)]
    exact hplan
  have hopen := openDB_ghost
    { world := s.world.set db.dir { d with data := syncAll d.data, locked := false }, db := none }
    db.dir cfg' { d with data := syncAll d.data, locked := false } g db.activeId
    rfl hcfg (MergeP.get_set_self _ _ _) rfl hplan' hms hinv.recs hinv.active
  rw [hclose]
  simp only [] at hopen ⊢
  rw [set_set] at hopen
  refine ⟨trivial, _, _, hopen, rfl, rfl, ?_, ?_, ?_⟩
  · intro k
    apply absGet_congr
    · exact hinv.index.symm
    · intro id
      simp only [dirOf, scanDB, MergeP.get_set_self, hd, Option.getD_some]
      exact getFile_syncAll d.data id
  · exact Inv_scanDB _ db.dir cfg' _ g db.activeId (MergeP.get_set_self _ _ _) rfl hms hinv.asc hinv.recs
      hinv.active _ rfl
  · exact ⟨MergeP.get_set_ne _ _ _ _ (mname_ne _), rfl⟩

/-- a finished merge (`MergeOutB`): the adopting restart (`C06_adopt` for `MergeOutB`) -/
theorem restart_adopt {s : St} {db : DB} {g : GDir} {n : Nat} {gm vis : GDir} (cfg' : Cfg)
    (hdb : s.db = some db) (hinv : Inv s db g) (hmo : MergeOutB s.world db.dir g n gm vis)
    (hF : HintFits gm) (hcfg : cfg'.Valid) :
    (close s).2 = .ok ∧ ∃ s' db', openDB (close s).1 db.dir cfg' = (s', .ok) ∧ s'.db = some db' ∧ db'.dir = db.dir ∧
      (∀ k, absGet s' db' k = absGet s db k) ∧ Inv s' db' (gm ++ hi g n) ∧
      s'.world.get (mergeDirName db.dir) = none ∧
      (NoPend (logOf g) → NoPend (logOf (gm ++ hi g n))) ∧ db'.activeId = db.activeId := by
  obtain ⟨d, hd, hlock, hm⟩ := hinv.dir
  have hclose := close_eq s db d hdb hd
  have hne := mname_ne db.dir
  rw [hclose]
  refine ⟨rfl, ?_⟩
  have hmo' : MergeOutB (s.world.set db.dir { d with data := syncAll d.data, locked := false }) db.dir g n gm vis :=
    ⟨by rw [MergeP.get_set_ne _ _ _ _ hne]; exact hmo.mdir, hmo.ids, hmo.count, hmo.small, hmo.perm, hmo.live,
      hmo.loSealed, hmo.hiNe⟩
  obtain ⟨md, maxFid, W', hmd, hopen, hWd, hWm, hWo, hmt, hinv', hM⟩ := open_after_mergeB
    ⟨s.world.set db.dir { d with data := syncAll d.data, locked := false }, none⟩ db.dir cfg'
    { d with data := syncAll d.data, locked := false } g n db.activeId gm vis rfl hcfg
    (MergeP.get_set_self _ _ _) rfl (Matches_syncAll hm) hinv.asc hinv.recs hinv.active hmo' hF
  obtain ⟨hval, hpend⟩ := ValRel_mergedB hmo hinv.asc hinv.recs
  refine ⟨_, _, hopen, rfl, rfl, ?_, hinv', hWm, fun hnp id => by rw [← hpend id]; exact hnp id, rfl⟩
  intro k
  exact absGet_of_ValRel hinv hinv' hval k

theorem Matches_mem_right : ∀ {data : List (Nat × FileSt)} {g : GDir}, Matches data g → ∀ x ∈ g,
    ∃ y ∈ data, y.2.bytes = bytesOf x.2 := by
  intro data
  induction data with
  | nil => intro g h x hx; rw [Restart.Matches_nil_left] at h; subst h; simp at hx
  | cons y data ih =>
    intro g h x hx
    rw [Restart.Matches_cons] at h
    obtain ⟨z, g', rfl, _, e2, h3⟩ := h
    rcases List.mem_cons.mp hx with e | hx
    · exact ⟨y, by simp, by rw [e]; exact e2⟩
    · obtain ⟨y', hy', e'⟩ := ih h3 x hx
      exact ⟨y', by simp [hy'], e'⟩

/-- `HintFits` from a bound on the BYTES of the merge directory: every rewritten file is shorter than
    4 GiB (the ids are below the marker id, which is a `uint32` by `MergeOutB.small`) -/
theorem HintFits_of_sizes {w : World} {dir : String} {g : GDir} {n : Nat} {gm vis : GDir}
    (h : MergeOutB w dir g n gm vis)
    (hsz : ∀ md, w.get (mergeDirName dir) = some md → md.marker ≠ none → ∀ x ∈ md.data, x.2.bytes.size < 2 ^ 32) :
    HintFits gm := by
  obtain ⟨md, hmd, hmm, _, hmk⟩ := h.mdir
  apply HintFits_of_small
  intro x hx
  constructor
  · have : x.1 ∈ gm.map (·.1) := List.mem_map.mpr ⟨x, hx, rfl⟩
    rw [h.ids] at this
    have h1 := List.mem_range.mp this
    have h2 := h.count.2
    have h3 := h.small
    omega
  · obtain ⟨y, hy, e⟩ := Matches_mem_right hmm x hx
    rw [← e]
    exact hsz md hmd (by rw [hmk]; simp) y hy

/-- **restart from any state of the invariant**, under any valid configuration: both calls succeed,
    the mapping is unchanged, afterwards nothing is adoptable any more -/
theorem restart0 {dir : String} {s : St} {m : BSpec} (h : HInv0 dir s m) (cfg' : Cfg)
    (hcfg : cfg'.Valid)
    (hsz : ∀ md, s.world.get (mergeDirName dir) = some md → md.marker ≠ none →
      ∀ x ∈ md.data, x.2.bytes.size < 2 ^ 32) :
    (close s).2 = .ok ∧ (openDB (close s).1 dir cfg').2 = .ok ∧ HInv0 dir (openDB (close s).1 dir cfg').1 m := by
  obtain ⟨db, g, hs, hd, hi, habs, hms, hfr⟩ := h
  subst hd
  rcases hms with hnm | ⟨n, gm, vis, hmo⟩
  · obtain ⟨hc, s', db', hopen, hs', hd', habs', hi', hw, _⟩ := restart_scan cfg' hs hi hnm.plan hcfg
    rw [hopen]
    exact ⟨hc, rfl, db', g, hs', hd', hi', fun k => by rw [habs' k, habs k], Or.inl (hnm.congr hw), hfr⟩
  · have hF := HintFits_of_sizes hmo hsz
    obtain ⟨hc, s', db', hopen, hs', hd', habs', hi', hw, hnp, _⟩ := restart_adopt cfg' hs hi hmo hF hcfg
    rw [hopen]
    exact ⟨hc, rfl, db', _, hs', hd', hi', fun k => by rw [habs' k, habs k],
      Or.inl (fun md hmd => by rw [hw] at hmd; cases hmd), hnp hfr⟩

/-! ## the invariant with a live batch -/

/-- `l0` (the log at `NewBatch` time) is sealed; the merge directory component refers to the CURRENT
    ghost directory (it survives the batch's intermediate flushes) -/
def HInvL (dir : String) (s : St) (m : BSpec) (issued : List (ByteArray × Option ByteArray)) : Prop :=
  ∃ db g b l0 fl, BInvX s db g b m issued l0 fl ∧ db.dir = dir ∧ MS0 s.world dir g ∧ NoPend l0

/-- `NewBatch`: EVERY positive id below 2^63 is fresh, because nothing is parked -/
theorem bnew0 {dir : String} {s : St} {m : BSpec} (h : HInv0 dir s m) (sync : Bool) (id : Nat)
    (h0 : 0 < id) (hlt : id < 2 ^ 63) :
    (bnew s sync id).2 = .ok ∧ HInvL dir (bnew s sync id).1 m [] := by
  obtain ⟨db, g, hs, hd, hi, habs, hms, hfr⟩ := h
  have hx := bnew_specX hi hs sync id h0 hlt (hfr id)
  have hbase : absGet s db = m := funext habs
  rw [hbase] at hx
  refine ⟨by rw [bnew_eq hs], _, g, _, _, _, hx, hd, ?_, hfr⟩
  have hw : (bnew s sync id).1.world = s.world := by rw [bnew_eq hs]
  rw [hw]
  exact hms

theorem bputL {dir : String} {s : St} {m : BSpec} {issued : List (ByteArray × Option ByteArray)}
    (h : HInvL dir s m issued) (k v : ByteArray) (hk : k.size < 2 ^ 31) (hv : v.size < 2 ^ 31) :
    (bput s k v).2 = (if k.size = 0 then .err "keyempty" else .ok) ∧
    HInvL dir (bput s k v).1 m (if k.size = 0 then issued else issued ++ [(k, some v)]) := by
  obtain ⟨db, g, b, l0, fl, hx, hd, hms, hfr⟩ := h
  by_cases h0 : k.size = 0
  · rw [if_pos h0, if_pos h0, bput_keyempty hx.open_ hx.batch k v h0]
    exact ⟨rfl, db, g, b, l0, fl, hx, hd, hms, hfr⟩
  · rw [if_neg h0, if_neg h0]
    obtain ⟨hres, db', g', b', new, hx', hid, _⟩ := bput_specX hx k v (by omega) hk hv
    obtain ⟨db'', g'', hs'', hgs⟩ := bput_gstep hx.open_ hx.batch hx.core.files hx.core.stagedOK
      (by have := hx.core.idlt; omega) k v
    rw [hx'.open_] at hs''; cases hs''
    have hgg : g'' = g' := PolicyP.Files_unique hgs.files hx'.core.files
    subst hgg
    obtain ⟨hfr1, dbf, hsf, hdf⟩ := bput_frame hx.open_ k v
    rw [hx'.open_] at hsf; cases hsf
    have hw := hfr1 (mergeDirName dir) (by rw [hd]; exact Restart.mergeDirName_ne dir)
    exact ⟨hres, db', g'', b', l0, fl ++ new, hx', hdf.trans hd, hms.step hx.core.files hgs hw, hfr⟩

theorem bdelL {dir : String} {s : St} {m : BSpec} {issued : List (ByteArray × Option ByteArray)}
    (h : HInvL dir s m issued) (k : ByteArray) (hk : k.size < 2 ^ 31) :
    (bdel s k).2 = (if k.size = 0 then .err "keyempty" else .ok) ∧
    HInvL dir (bdel s k).1 m (if k.size = 0 then issued else issued ++ [(k, none)]) := by
  obtain ⟨db, g, b, l0, fl, hx, hd, hms, hfr⟩ := h
  by_cases h0 : k.size = 0
  · rw [if_pos h0, if_pos h0, bdel_keyempty hx.open_ hx.batch k h0]
    exact ⟨rfl, db, g, b, l0, fl, hx, hd, hms, hfr⟩
  · rw [if_neg h0, if_neg h0]
    obtain ⟨hres, db', g', b', new, hx', hid, _⟩ := bdel_specX hx k (by omega) hk
    obtain ⟨db'', g'', hs'', hgs⟩ := bdel_gstep hx.open_ hx.batch hx.core.files hx.core.stagedOK
      (by have := hx.core.idlt; omega) k
    rw [hx'.open_] at hs''; cases hs''
    have hgg : g'' = g' := PolicyP.Files_unique hgs.files hx'.core.files
    subst hgg
    obtain ⟨hfr1, dbf, hsf, hdf⟩ := bdel_frame hx.open_ k
    rw [hx'.open_] at hsf; cases hsf
    have hw := hfr1 (mergeDirName dir) (by rw [hd]; exact Restart.mergeDirName_ne dir)
    exact ⟨hres, db', g'', b', l0, fl ++ new, hx', hdf.trans hd, hms.step hx.core.files hgs hw, hfr⟩

theorem bgetL {dir : String} {s : St} {m : BSpec} {issued : List (ByteArray × Option ByteArray)}
    (h : HInvL dir s m issued) (k : ByteArray) :
    (bget s k).2 = (if k.size = 0 then .err "keyempty" else resOf (foldIssued m issued k)) ∧ (bget s k).1 = s := by
  obtain ⟨db, g, b, l0, fl, hx, _⟩ := h
  by_cases h0 : k.size = 0
  · rw [if_pos h0, bget_keyempty hx.open_ hx.batch k h0]; exact ⟨rfl, rfl⟩
  · rw [if_neg h0, bget_spec ⟨l0, fl, hx⟩ k (by omega)]; exact ⟨rfl, rfl⟩

/-! ## empty slot or dead batch: everything through the normal form -/

/-- the slot holds nothing (`dead = false`) or a committed batch (`dead = true`) -/
def SlotShape (s : St) (dead : Bool) : Prop :=
  ∃ db, s.db = some db ∧ if dead then ∃ bc, db.batch = some bc ∧ bc.committed = true else db.batch = none

def HInvQ (dir : String) (s : St) (m : BSpec) (dead : Bool) : Prop :=
  HInv0 dir (setB none s) m ∧ SlotShape s dead

theorem HInv0.toQ {dir : String} {s : St} {m : BSpec} (h : HInv0 dir s m) : HInvQ dir s m false := by
  refine ⟨by rw [h.norm]; exact h, ?_⟩
  obtain ⟨db, g, hs, _, hi, _⟩ := h
  exact ⟨db, hs, hi.nobatch⟩

/-- an operation that commutes with `setB` preserves `HInvQ` as soon as it preserves `HInv0` -/
theorem HInvQ.lift {f : St → St × Res} (hf : ∀ ob s, f (setB ob s) = (setB ob (f s).1, (f s).2))
    {dir : String} {s : St} {m m' : BSpec} {dead : Bool} (h : HInvQ dir s m dead)
    (H : HInv0 dir (f (setB none s)).1 m') :
    (f s).2 = (f (setB none s)).2 ∧ HInvQ dir (f s).1 m' dead := by
  obtain ⟨db, hs, hshape⟩ := h.2
  have hrest := setB_restore hs
  have e : f s = (setB db.batch (f (setB none s)).1, (f (setB none s)).2) := by
    conv => lhs; rw [← hrest]
    exact hf _ _
  rw [e]
  refine ⟨rfl, ?_, ?_⟩
  · show HInv0 dir (setB none (setB db.batch (f (setB none s)).1)) m'
    rw [setB_setB, H.norm]; exact H
  · obtain ⟨db0, g, hs0, _⟩ := H
    refine ⟨setBDB db.batch db0, setB_db hs0 _, ?_⟩
    exact hshape

theorem putQ {dir : String} {s : St} {m : BSpec} {dead : Bool} (h : HInvQ dir s m dead)
    (k v : ByteArray) (hk : k.size < 2 ^ 31) (hv : v.size < 2 ^ 31) :
    (put s k v).2 = (if k.size = 0 then .err "keyempty" else .ok) ∧
    HInvQ dir (put s k v).1 (if k.size = 0 then m else C01.specPut m k v) dead := by
  obtain ⟨h1, h2⟩ := put0 h.1 k v hk hv
  obtain ⟨e, h3⟩ := HInvQ.lift (f := fun s => put s k v) (fun ob s => put_setB ob s k v) h h2
  exact ⟨e.trans h1, h3⟩

theorem delQ {dir : String} {s : St} {m : BSpec} {dead : Bool} (h : HInvQ dir s m dead)
    (k : ByteArray) (hk : k.size < 2 ^ 31) :
    (delete s k).2 = (if k.size = 0 then .err "keyempty" else .ok) ∧
    HInvQ dir (delete s k).1 (if k.size = 0 then m else C01.specDel m k) dead := by
  obtain ⟨h1, h2⟩ := del0 h.1 k hk
  obtain ⟨e, h3⟩ := HInvQ.lift (f := fun s => delete s k) (fun ob s => delete_setB ob s k) h h2
  exact ⟨e.trans h1, h3⟩

theorem getQ {dir : String} {s : St} {m : BSpec} {dead : Bool} (h : HInvQ dir s m dead)
    (k : ByteArray) :
    (get s k).2 = (if k.size = 0 then .err "keyempty" else C01.getRes (m k)) ∧ (get s k).1 = s := by
  obtain ⟨h1, _⟩ := get0 h.1 k
  have := get_setB none s k
  refine ⟨?_, PolicyP.get_state s k⟩
  rw [← h1, this]

theorem syncQ {dir : String} {s : St} {m : BSpec} {dead : Bool} (h : HInvQ dir s m dead) :
    (syncDB s).2 = .ok ∧ HInvQ dir (syncDB s).1 m dead := by
  obtain ⟨h1, h2⟩ := sync0 h.1
  obtain ⟨e, h3⟩ := HInvQ.lift (f := fun s => syncDB s) (fun ob s => syncDB_setB ob s) h h2
  exact ⟨e.trans h1, h3⟩

theorem mergeQ {dir : String} {s : St} {m : BSpec} {dead : Bool} (h : HInvQ dir s m dead)
    (order : List Nat) (ho : order.Nodup) (hsmall : ∀ db, s.db = some db → db.activeId + 1 < 2 ^ 32) :
    ((merge s order).2 = .ok ∨ ∃ e, (merge s order).2 = .err e) ∧ HInvQ dir (merge s order).1 m dead := by
  have hsmall' : ∀ db, (setB none s).db = some db → db.activeId + 1 < 2 ^ 32 := by
    intro db0 h0
    obtain ⟨db, hs, _⟩ := h.2
    rw [setB_db hs] at h0
    cases h0
    exact hsmall db hs
  obtain ⟨h1, h2⟩ := merge0 h.1 order ho hsmall'
  obtain ⟨e, h3⟩ := HInvQ.lift (f := fun s => merge s order) (fun ob s => merge_setB ob s order) h h2
  rw [e]
  exact ⟨h1, h3⟩

theorem backupQ {dir : String} {s : St} {m : BSpec} {dead : Bool} (h : HInvQ dir s m dead) (dest : String)
    (h1 : dest ≠ dir) (h2 : dest ≠ mergeDirName dir) :
    (backup s dest).2 = .ok ∧ HInvQ dir (backup s dest).1 m dead := by
  obtain ⟨r1, r2⟩ := backup0 h.1 dest h1 h2
  obtain ⟨e, h3⟩ := HInvQ.lift (f := fun s => backup s dest) (fun ob s => backup_setB ob s dest) h r2
  exact ⟨e.trans r1, h3⟩

theorem restartQ {dir : String} {s : St} {m : BSpec} {dead : Bool} (h : HInvQ dir s m dead)
    (cfg' : Cfg) (hcfg : cfg'.Valid)
    (hsz : ∀ md, s.world.get (mergeDirName dir) = some md → md.marker ≠ none →
      ∀ x ∈ md.data, x.2.bytes.size < 2 ^ 32) :
    (close s).2 = .ok ∧ (openDB (close s).1 dir cfg').2 = .ok ∧
    HInvQ dir (openDB (close s).1 dir cfg').1 m false := by
  have := restart0 h.1 cfg' hcfg hsz
  rw [close_setB] at this
  exact ⟨this.1, this.2.1, this.2.2.toQ⟩

theorem bnew_setB (ob : Option BatchSt) (s : St) (sync : Bool) (id : Nat) : bnew (setB ob s) sync id = bnew s sync id := by
  obtain ⟨w, d⟩ := s
  cases d <;> rfl

theorem bnewQ {dir : String} {s : St} {m : BSpec} {dead : Bool} (h : HInvQ dir s m dead) (sync : Bool) (id : Nat)
    (h0 : 0 < id) (hlt : id < 2 ^ 63) :
    (bnew s sync id).2 = .ok ∧ HInvL dir (bnew s sync id).1 m [] := by
  have := bnew0 h.1 sync id h0 hlt
  rw [bnew_setB] at this
  exact this

theorem bdropQ {dir : String} {s : St} {m : BSpec} {dead : Bool} (h : HInvQ dir s m dead) :
    (bdrop s).2 = .ok ∧ HInvQ dir (bdrop s).1 m false := by
  obtain ⟨db, hs, _⟩ := h.2
  rw [bdrop_eq hs]
  refine ⟨rfl, ?_⟩
  have e : ({ s with db := some { db with batch := none } } : St) = setB none s := by
    simp only [setB, hs, Option.map_some]; rfl
  rw [e]
  exact h.1.toQ

/-- every call through a batch object the slot does not hold (`no-batch`) or through a dead batch
    (`keyempty` first, then `committed`) is rejected and changes nothing -/
def rejectRes (dead : Bool) (keyed : Bool) (k : ByteArray) : Res :=
  if dead then (if keyed ∧ k.size = 0 then .err "keyempty" else .err "committed") else .err "no-batch"

theorem withBatch_none {s : St} {db : DB} (hs : s.db = some db) (hb : db.batch = none) (f : DB → BatchSt → St × Res) :
    withBatch s f = (s, .err "no-batch") := by
  unfold withBatch
  simp only [hs, hb]

theorem bputQ {dir : String} {s : St} {m : BSpec} {dead : Bool} (h : HInvQ dir s m dead)
    (k v : ByteArray) : bput s k v = (s, rejectRes dead true k) := by
  obtain ⟨db, hs, hshape⟩ := h.2
  cases dead with
  | false => exact withBatch_none hs hshape _
  | true =>
    obtain ⟨bc, hb, hc⟩ := hshape
    unfold rejectRes
    by_cases h0 : k.size = 0
    · rw [bput_keyempty hs hb k v h0]; simp [h0]
    · rw [bput_committed hs hb k v h0 hc]; simp [h0]

theorem bdelQ {dir : String} {s : St} {m : BSpec} {dead : Bool} (h : HInvQ dir s m dead)
    (k : ByteArray) : bdel s k = (s, rejectRes dead true k) := by
  obtain ⟨db, hs, hshape⟩ := h.2
  cases dead with
  | false => exact withBatch_none hs hshape _
  | true =>
    obtain ⟨bc, hb, hc⟩ := hshape
    unfold rejectRes
    by_cases h0 : k.size = 0
    · rw [bdel_keyempty hs hb k h0]; simp [h0]
    · rw [bdel_committed hs hb k h0 hc]; simp [h0]

theorem bgetQ {dir : String} {s : St} {m : BSpec} {dead : Bool} (h : HInvQ dir s m dead)
    (k : ByteArray) : bget s k = (s, rejectRes dead true k) := by
  obtain ⟨db, hs, hshape⟩ := h.2
  cases dead with
  | false => exact withBatch_none hs hshape _
  | true =>
    obtain ⟨bc, hb, hc⟩ := hshape
    unfold rejectRes
    by_cases h0 : k.size = 0
    · rw [bget_keyempty hs hb k h0]; simp [h0]
    · rw [bget_committed hs hb k h0 hc]; simp [h0]

theorem bcommitQ {dir : String} {s : St} {m : BSpec} {dead : Bool} (h : HInvQ dir s m dead) :
    bcommit s = (s, rejectRes dead false ByteArray.empty) := by
  obtain ⟨db, hs, hshape⟩ := h.2
  cases dead with
  | false => exact withBatch_none hs hshape _
  | true =>
    obtain ⟨bc, hb, hc⟩ := hshape
    rw [bcommit_committed hs hb hc]
    simp [rejectRes]

/-- **`Commit` of the live batch**: answers `.ok`; the mapping becomes the issued operations applied
    one by one; the batch is dead; the log is sealed again; the merge directory component survives
    (a batch committed after a merge, before its adoption) -/
theorem bcommitL {dir : String} {s : St} {m : BSpec} {issued : List (ByteArray × Option ByteArray)}
    (h : HInvL dir s m issued) :
    (bcommit s).2 = .ok ∧ HInvQ dir (bcommit s).1 (foldIssued m issued) true := by
  obtain ⟨db, g, b, l0, fl, hx, hd, hms, hfr⟩ := h
  obtain ⟨hres, db', g', hseal, habs, hempty, hnonempty⟩ := bcommit_specX hx
  obtain ⟨db'', g'', hs'', hgs⟩ := bcommit_gstep hx.open_ hx.batch hx.core.files hx.core.stagedOK hx.core.idlt
  rw [hseal.open_] at hs''; cases hs''
  have hgg : g'' = g' := PolicyP.Files_unique hgs.files (hseal.inv.files.congr rfl rfl rfl)
  subst hgg
  obtain ⟨hfr1, dbf, hsf, hdf⟩ := bcommit_frame hx.open_
  rw [hseal.open_] at hsf; cases hsf
  have hw := hfr1 (mergeDirName dir) (by rw [hd]; exact Restart.mergeDirName_ne dir)
  have hnp : NoPend (logOf g'') := by
    by_cases he : b.staged = []
    · obtain ⟨_, e1, _, e2⟩ := hempty he
      rw [e1, hx.core.log, e2, List.append_nil]; exact hfr
    · obtain ⟨new, p, e1, e2⟩ := hnonempty he
      rw [e1]
      exact NoPend_commit hfr (by have := hx.core.idpos; omega) e2 (finRec b.id) p rfl rfl
  refine ⟨hres, ⟨setBDB none db', g'', setB_db hseal.open_ none, hdf.trans hd, Inv_world hseal.inv rfl, ?_, ?_, hnp⟩,
    ⟨db', hseal.open_, hseal.batch⟩⟩
  · intro k
    rw [absGet_setB, habs k]
  · show MS0 (bcommit s).1.world dir g''
    exact hms.step hx.core.files hgs hw

end XixiKV.Engine.HistP
