import XixiKV.Model.DirLock
/-! # Invariants of the directory-lock model (helpers for C16) -/
namespace XixiKV.DirLock

@[simp] theorem upd_same {α} (f : Nat → α) (i : Nat) (a : α) : upd f i a i = a := by simp [upd]
theorem upd_ne {α} (f : Nat → α) {i j : Nat} (a : α) (h : j ≠ i) : upd f i a j = f j := by
  simp [upd, h]

theorem holds_dir {s : St} {h : Hid} {d d' : Dir} (h1 : Holds s h d) (h2 : Holds s h d') : d = d' := by
  rcases h1 with h1 | h1 <;> rcases h2 with h2 | h2 <;> rw [h1] at h2 <;> cases h2 <;> rfl

/-- for every configuration: a holder implies the bit, and holders are unique -/
structure Inv (s : St) : Prop where
  bit : ∀ h d, Holds s h d → s.locked d = true
  uniq : ∀ h h' d, Holds s h d → Holds s h' d → h = h'

theorem init_inv : Inv St.init := by
  refine ⟨?_, ?_⟩
  · intro h d hh; rcases hh with hh | hh <;> simp [St.init] at hh
  · intro h h' d hh; rcases hh with hh | hh <;> simp [St.init] at hh

/-- `Holds` after handle `h` moved to control state `c'` -/
theorem holds_upd {s : St} {l : Dir → Bool} {h h' : Hid} {c' : HPC} {d : Dir} :
    Holds { locked := l, pc := upd s.pc h c' } h' d ↔
      (h' = h ∧ (c' = .opening d ∨ c' = .opened d)) ∨ (h' ≠ h ∧ Holds s h' d) := by
  unfold Holds
  by_cases e : h' = h
  · subst e; simp
  · simp [upd_ne _ _ e, e]

theorem release_other {rel : Bool} {l : Dir → Bool} {d d' : Dir} (h : d' ≠ d) :
    release rel l d d' = l d' := by
  unfold release; split
  · exact upd_ne _ _ h
  · rfl

theorem step_inv {c : Cfg} {s s' : St} (hI : Inv s) (hs : Step c s s') : Inv s' := by
  cases hs with
  | tryOk h d hpc hl =>
    refine ⟨?_, ?_⟩
    · intro h' d' hh
      rcases holds_upd.1 hh with ⟨_, hc⟩ | ⟨_, hh'⟩
      · have : d' = d := by rcases hc with hc | hc <;> cases hc <;> rfl
        subst this; simp
      · have := hI.bit h' d' hh'
        show upd s.locked d true d' = true
        by_cases e : d' = d
        · subst e; simp
        · rw [upd_ne _ _ e]; exact this
    · intro h1 h2 d' hh1 hh2
      rcases holds_upd.1 hh1 with ⟨e1, hc1⟩ | ⟨e1, hh1'⟩ <;>
        rcases holds_upd.1 hh2 with ⟨e2, hc2⟩ | ⟨e2, hh2'⟩
      · rw [e1, e2]
      · have : d' = d := by rcases hc1 with hc | hc <;> cases hc <;> rfl
        subst this
        have := hI.bit h2 d' hh2'; rw [hl] at this; cases this
      · have : d' = d := by rcases hc2 with hc | hc <;> cases hc <;> rfl
        subst this
        have := hI.bit h1 d' hh1'; rw [hl] at this; cases this
      · exact hI.uniq h1 h2 d' hh1' hh2'
  | tryBusy h d hpc hl => exact hI
  | openOk h d hpc =>
    have hold : Holds s h d := Or.inl hpc
    refine ⟨?_, ?_⟩
    · intro h' d' hh
      rcases holds_upd.1 hh with ⟨e, hc⟩ | ⟨_, hh'⟩
      · have : d' = d := by rcases hc with hc | hc <;> cases hc <;> rfl
        subst this; exact hI.bit h d' hold
      · exact hI.bit h' d' hh'
    · intro h1 h2 d' hh1 hh2
      rcases holds_upd.1 hh1 with ⟨e1, hc1⟩ | ⟨e1, hh1'⟩ <;>
        rcases holds_upd.1 hh2 with ⟨e2, hc2⟩ | ⟨e2, hh2'⟩
      · rw [e1, e2]
      · have : d' = d := by rcases hc1 with hc | hc <;> cases hc <;> rfl
        subst this
        exact absurd (hI.uniq h2 h d' hh2' hold) e2
      · have : d' = d := by rcases hc2 with hc | hc <;> cases hc <;> rfl
        subst this
        exact absurd (hI.uniq h1 h d' hh1' hold) e1
      · exact hI.uniq h1 h2 d' hh1' hh2'
  | openFail h d hpc =>
    have hold : Holds s h d := Or.inl hpc
    refine ⟨?_, ?_⟩
    · intro h' d' hh
      rcases holds_upd.1 hh with ⟨_, hc⟩ | ⟨e, hh'⟩
      · rcases hc with hc | hc <;> cases hc
      · have hne : d' ≠ d := fun e' => by subst e'; exact e (hI.uniq h' h d' hh' hold)
        show release _ s.locked d d' = true
        rw [release_other hne]; exact hI.bit h' d' hh'
    · intro h1 h2 d' hh1 hh2
      rcases holds_upd.1 hh1 with ⟨_, hc⟩ | ⟨_, hh1'⟩
      · rcases hc with hc | hc <;> cases hc
      · rcases holds_upd.1 hh2 with ⟨_, hc⟩ | ⟨_, hh2'⟩
        · rcases hc with hc | hc <;> cases hc
        · exact hI.uniq h1 h2 d' hh1' hh2'
  | close h d hpc =>
    have hold : Holds s h d := Or.inr hpc
    refine ⟨?_, ?_⟩
    · intro h' d' hh
      rcases holds_upd.1 hh with ⟨_, hc⟩ | ⟨e, hh'⟩
      · rcases hc with hc | hc <;> cases hc
      · have hne : d' ≠ d := fun e' => by subst e'; exact e (hI.uniq h' h d' hh' hold)
        show release _ s.locked d d' = true
        rw [release_other hne]; exact hI.bit h' d' hh'
    · intro h1 h2 d' hh1 hh2
      rcases holds_upd.1 hh1 with ⟨_, hc⟩ | ⟨_, hh1'⟩
      · rcases hc with hc | hc <;> cases hc
      · rcases holds_upd.1 hh2 with ⟨_, hc⟩ | ⟨_, hh2'⟩
        · rcases hc with hc | hc <;> cases hc
        · exact hI.uniq h1 h2 d' hh1' hh2'

theorem reachable_inv {c : Cfg} {s : St} (hr : Reachable c s) : Inv s := by
  induction hr with
  | init => exact init_inv
  | step _ hs ih => exact step_inv ih hs

/-- when both kinds of paths release: a set bit has a holder -/
def Tight (s : St) : Prop := ∀ d, s.locked d = true → ∃ h, Holds s h d

theorem init_tight : Tight St.init := by
  intro d h; simp [St.init] at h

theorem step_tight {s s' : St} (hT : Tight s) (hs : Step Cfg.good s s') : Tight s' := by
  cases hs with
  | tryOk h d hpc hl =>
    intro d' hd'
    by_cases e : d' = d
    · subst e; exact ⟨h, holds_upd.2 (Or.inl ⟨rfl, Or.inl rfl⟩)⟩
    · have : s.locked d' = true := by
        have h' : upd s.locked d true d' = true := hd'
        rwa [upd_ne _ _ e] at h'
      obtain ⟨h', hh'⟩ := hT d' this
      have hne : h' ≠ h := by
        intro e'; subst e'
        rcases hh' with hh' | hh' <;> rw [hpc] at hh' <;> cases hh'
      exact ⟨h', holds_upd.2 (Or.inr ⟨hne, hh'⟩)⟩
  | tryBusy h d hpc hl => exact hT
  | openOk h d hpc =>
    intro d' hd'
    obtain ⟨h', hh'⟩ := hT d' hd'
    by_cases e : h' = h
    · subst e
      have := holds_dir hh' (Or.inl hpc)
      subst this
      exact ⟨h', holds_upd.2 (Or.inl ⟨rfl, Or.inr rfl⟩)⟩
    · exact ⟨h', holds_upd.2 (Or.inr ⟨e, hh'⟩)⟩
  | openFail h d hpc =>
    intro d' hd'
    have hne : d' ≠ d := by
      intro e; subst e
      have : release true s.locked d' d' = true := hd'
      simp [release] at this
    have : s.locked d' = true := by
      have h' : release true s.locked d d' = true := hd'
      rwa [release_other hne] at h'
    obtain ⟨h', hh'⟩ := hT d' this
    have hne' : h' ≠ h := by
      intro e'; subst e'
      exact hne (holds_dir hh' (Or.inl hpc))
    exact ⟨h', holds_upd.2 (Or.inr ⟨hne', hh'⟩)⟩
  | close h d hpc =>
    intro d' hd'
    have hne : d' ≠ d := by
      intro e; subst e
      have : release true s.locked d' d' = true := hd'
      simp [release] at this
    have : s.locked d' = true := by
      have h' : release true s.locked d d' = true := hd'
      rwa [release_other hne] at h'
    obtain ⟨h', hh'⟩ := hT d' this
    have hne' : h' ≠ h := by
      intro e'; subst e'
      exact hne (holds_dir hh' (Or.inr hpc))
    exact ⟨h', holds_upd.2 (Or.inr ⟨hne', hh'⟩)⟩

theorem reachable_tight {s : St} (hr : Reachable Cfg.good s) : Tight s := by
  induction hr with
  | init => exact init_tight
  | step _ hs ih => exact step_tight ih hs

end XixiKV.DirLock
