import XixiKV.Proofs.HistoryInv
/-!
# Histories, part 5: static bounds that imply the two `uint32` range conditions of a run

`C01_refines_history` needs, at every `Merge`, `activeId + 1 < 2^32` and, at every restart that
adopts a finished merge, merged files shorter than 4 GiB.  Both follow from bounds that can be read
off the history:

* every call rotates the active file at most twice (`GStepC.rot`), so `activeId ≤ 2 · #calls`;
* every call adds to the data files at most the size ESTIMATES (`GetLogRecordDiskSize`) of the
  records it writes (`wt`: the sum of the estimates of all records of the ghost directory; staged
  records are charged when they are staged), a merged file is never larger than the sum of the
  estimates of its records, and the merged records are a sub-multiset of the records below the
  marker (`wt_merged_le`).

`Bnd s A W`: the open handle's active id is `≤ A`, every record satisfies `Small` (key + value
`≤ 2^27`, under which the estimate is an upper bound), and `wt g` + the estimates of the staged
records is `≤ W`.
-/
namespace XixiKV.Engine.HistP
open XixiKV XixiKV.Frame XixiKV.Record XixiKV.Index XixiKV.Engine XixiKV.Engine.Restart XixiKV.Engine.MergeP
open XixiKV.Engine.BatchP XixiKV.Adopt
open XixiKV.Engine.PolicyP.Size (Small estSumR estSumR_cons est estSum estSum_nil estSum_cons estSum_append
  estSumR_toRec)

/-! ## weights -/

def estR (r : Record) : Nat := diskSizeEstimate r.key.size r.value.size

theorem estSumR_append (a b : List Record) : estSumR (a ++ b) = estSumR a + estSumR b := by
  simp only [estSumR, List.map_append, List.sum_append]

theorem estSumR_single (r : Record) : estSumR [r] = estR r := by
  simp [estSumR, estR]

/-- the sum of the size estimates of all records of the ghost directory -/
def wt (g : GDir) : Nat := (g.map (fun x => estSumR x.2)).sum

theorem wt_append (a b : GDir) : wt (a ++ b) = wt a + wt b := by
  simp only [wt, List.map_append, List.sum_append]

theorem wt_single (a : Nat) (gf : GFile) : wt [(a, gf)] = estSumR gf := by
  simp [wt]

theorem wt_snoc_append (g0 : GDir) (a : Nat) (gf rs : GFile) :
    wt (g0 ++ [(a, gf ++ rs)]) = wt (g0 ++ [(a, gf)]) + estSumR rs := by
  rw [wt_append, wt_append, wt_single, wt_single, estSumR_append]; omega

theorem wt_snoc_empty (g : GDir) (a : Nat) : wt (g ++ [(a, [])]) = wt g := by
  rw [wt_append, wt_single]; rfl

theorem sum_map_filter_le {α : Type} (f : α → Nat) (p : α → Bool) (l : List α) :
    ((l.filter p).map f).sum ≤ (l.map f).sum := by
  induction l with
  | nil => simp
  | cons a t ih =>
    rw [List.filter_cons]
    split
    · simp only [List.map_cons, List.sum_cons]; omega
    · simp only [List.map_cons, List.sum_cons]; omega

theorem wt_log (g : GDir) : wt g = ((logOf g).map (fun x => estR x.1)).sum := by
  induction g with
  | nil => rfl
  | cons y g ih =>
    rw [Restart.logOf_cons, List.map_append, List.sum_append, ← ih]
    show estSumR y.2 + wt g = _
    congr 1
    have : (y.2.zip (possOf y.1 y.2)).map (fun x => estR x.1) = y.2.map estR := by
      rw [show (fun (x : Record × Pos) => estR x.1) = estR ∘ Prod.fst from rfl, ← List.map_map,
        List.map_fst_zip (by rw [length_possOf]; exact Nat.le_refl _)]
    rw [this]
    rfl

theorem wt_lo_le (g : GDir) (n : Nat) : wt (lo g n) ≤ wt g := sum_map_filter_le _ _ g

theorem wt_hi_le (g : GDir) (n : Nat) : wt (hi g n) ≤ wt g := sum_map_filter_le _ _ g

/-- the rewritten records are a sub-multiset of the records below the marker -/
theorem wt_merged_le {w : World} {dir : String} {g : GDir} {n : Nat} {gm vis : GDir}
    (h : MergeOutB w dir g n gm vis) : wt gm ≤ wt (lo g n) := by
  have h1 : (logOf gm).map (fun x => estR x.1)
      = ((logOf vis).filter (isLive (scanIndex g n))).map (fun x => estR x.1) := by
    have := congrArg (List.map estR) h.live
    simpa [List.map_map, Function.comp_def, estR, plainOf] using this
  have h2 : wt vis = wt (lo g n) := (h.perm.map _).sum_nat
  rw [wt_log gm, h1, ← h2, wt_log vis]
  exact sum_map_filter_le _ _ _

def SmallG (g : GDir) : Prop := ∀ x ∈ g, ∀ r ∈ x.2, Small r

/-- a ghost file is never larger than the sum of the estimates of its records -/
theorem size_bytesOf_le (gf : GFile) (h : ∀ r ∈ gf, RecOK r ∧ Small r) : (bytesOf gf).size ≤ estSumR gf := by
  have := PolicyP.Size.size_bytesOf_append_le [] gf h
  simpa [bytesOf_nil, show ByteArray.empty.size = 0 from rfl] using this

theorem estSumR_le_wt {g : GDir} {x : Nat × GFile} (hx : x ∈ g) : estSumR x.2 ≤ wt g := by
  induction g with
  | nil => simp at hx
  | cons y t ih =>
    simp only [wt, List.map_cons, List.sum_cons]
    rcases List.mem_cons.mp hx with e | hx
    · rw [e]; omega
    · have := ih hx
      simp only [wt] at this
      omega

/-! ## growth steps with their cost -/

/-- a growth step that rotates at most `R` times and adds at most `B` to the weight -/
structure GStepC (P : Record → Prop) (R B : Nat) (db : DB) (g : GDir) (s' : St) (db' : DB) (g' : GDir) : Prop where
  step : GStep P db g s' db' g'
  rot : db'.activeId ≤ db.activeId + R
  wt : wt g' ≤ wt g + B

theorem GStepC.trans {P : Record → Prop} {R R' B B' : Nat} {db db' db'' : DB} {g g' g'' : GDir} {s' s'' : St}
    (h : GStepC P R B db g s' db' g') (h' : GStepC P R' B' db' g' s'' db'' g'') :
    GStepC P (R + R') (B + B') db g s'' db'' g'' :=
  ⟨h.step.trans h'.step, by have := h.rot; have := h'.rot; omega, by have := h.wt; have := h'.wt; omega⟩

theorem GStepC.weaken {P : Record → Prop} {R R' B B' : Nat} {db db' : DB} {g g' : GDir} {s' : St}
    (h : GStepC P R B db g s' db' g') (hR : R ≤ R') (hB : B ≤ B') : GStepC P R' B' db g s' db' g' :=
  ⟨h.step, by have := h.rot; omega, by have := h.wt; omega⟩

theorem GStepC.refl (P : Record → Prop) {s : St} {db : DB} {g : GDir} (h : Files s db g) : GStepC P 0 0 db g s db g :=
  ⟨GStep.refl P h, Nat.le_refl _, Nat.le_refl _⟩

theorem GStepC.congr {P : Record → Prop} {R B : Nat} {db0 : DB} {g0 : GDir} {s s' : St} {db db' : DB} {g : GDir}
    (h : GStepC P R B db0 g0 s db g) (hw : s'.world = s.world) (hd : db'.dir = db.dir) (ha : db'.activeId = db.activeId) :
    GStepC P R B db0 g0 s' db' g :=
  ⟨h.step.congr hw hd ha, by rw [ha]; exact h.rot, h.wt⟩

theorem C_rotate (P : Record → Prop) {s : St} {db : DB} {g : GDir} (h : Files s db g) :
    GStepC P 1 0 db g (rotate s db).1 (rotate s db).2 (g ++ [(db.activeId + 1, [])]) := by
  refine ⟨GStep_rotate P h, ?_, by rw [wt_snoc_empty]; omega⟩
  rw [(rotate_spec h).2.1]
  exact Nat.le_refl _

theorem C_appendTail {P : Record → Prop} {s : St} {db : DB} {g : GDir} (h : Files s db g) (r : Record)
    (hr : RecOK r) (hP : P r) : ∃ g', GStepC P 0 (estR r) db g (appendTail s db r).1 (appendTail s db r).2.1 g' := by
  obtain ⟨g0, gf, hg, _⟩ := h.last
  obtain ⟨hf, _, _, _, hact⟩ := PolicyP.Size.appendTail_specG h hg r hr
  obtain ⟨g', hgs⟩ := GStep_appendTail h r hr hP
  have e : g' = g0 ++ [(db.activeId, gf ++ [r])] := PolicyP.Files_unique hgs.files hf
  subst e
  refine ⟨_, hgs, by rw [hact]; omega, ?_⟩
  rw [hg, wt_snoc_append, estSumR_single]; omega

theorem C_appendLog {P : Record → Prop} {s : St} {db : DB} {g : GDir} (h : Files s db g) (r : Record)
    (hr : RecOK r) (hP : P r) : ∃ g', GStepC P 1 (estR r) db g (appendLog s db r).1 (appendLog s db r).2.1 g' := by
  rw [appendLog_eq]
  split
  · have h1 := C_rotate P h
    obtain ⟨g', h2⟩ := C_appendTail h1.step.files r hr hP
    exact ⟨g', (h1.trans h2).weaken (by omega) (by omega)⟩
  · obtain ⟨g', h2⟩ := C_appendTail h r hr hP
    exact ⟨g', h2.weaken (by omega) (by omega)⟩

theorem C_flushTail {P : Record → Prop} {s : St} {db : DB} {g : GDir} (h : Files s db g) (b : BatchSt)
    (hok : ∀ r ∈ b.staged, StagedOK r) (hid : b.id < 2 ^ 64) (hP : ∀ r ∈ b.staged, P (toRec b.id r)) :
    ∃ g', GStepC P 0 (estSum b.staged) db g (flushTail s db b).1 (flushTail s db b).2.1 g' := by
  obtain ⟨g0, gf, hg, _⟩ := h.last
  obtain ⟨hf, _, _, _, hact, _⟩ := PolicyP.Size.flushTail_specG h hg b hok hid
  obtain ⟨g', hgs⟩ := GStep_flushTail h b hok hid hP
  have e : g' = g0 ++ [(db.activeId, gf ++ b.staged.map (toRec b.id))] := PolicyP.Files_unique hgs.files hf
  subst e
  refine ⟨_, hgs, by rw [hact]; omega, ?_⟩
  rw [hg, wt_snoc_append, estSumR_toRec]; omega

theorem C_flushStaged {P : Record → Prop} {s : St} {db : DB} {g : GDir} (h : Files s db g) (b : BatchSt)
    (hok : ∀ r ∈ b.staged, StagedOK r) (hid : b.id < 2 ^ 64) (hP : ∀ r ∈ b.staged, P (toRec b.id r)) :
    ∃ g', GStepC P 1 (estSum b.staged) db g (flushStaged s db b).1 (flushStaged s db b).2.1 g' := by
  rw [flushStaged_eq]
  split
  · have h1 := C_rotate P h
    obtain ⟨g', h2⟩ := C_flushTail h1.step.files b hok hid hP
    exact ⟨g', (h1.trans h2).weaken (by omega) (by omega)⟩
  · obtain ⟨g', h2⟩ := C_flushTail h b hok hid hP
    exact ⟨g', h2.weaken (by omega) (by omega)⟩

theorem C_flushAndRotate {P : Record → Prop} {s : St} {db : DB} {g : GDir} (h : Files s db g) (b : BatchSt)
    (hok : ∀ r ∈ b.staged, StagedOK r) (hid : b.id < 2 ^ 64) (hP : ∀ r ∈ b.staged, P (toRec b.id r)) :
    ∃ g', GStepC P 2 (estSum b.staged) db g (flushAndRotate s db b).1 (flushAndRotate s db b).2.1 g' := by
  rw [flushAndRotate_eq]
  obtain ⟨g1, h1⟩ := C_flushStaged h b hok hid hP
  exact ⟨_, (h1.trans (C_rotate P h1.step.files)).weaken (by omega) (by omega)⟩

theorem C_seal {P : Record → Prop} {s : St} {db : DB} {g : GDir} (h : Files s db g) (b : BatchSt)
    (hid : b.id < 2 ^ 63) (hP : P (finRec b.id)) :
    ∃ g', GStepC P 0 (estR (finRec b.id)) db g (sealFile s db b) db g' := by
  obtain ⟨g0, gf, hg, _⟩ := h.last
  obtain ⟨hf, _⟩ := PolicyP.Size.seal_specG h hg b hid
  obtain ⟨g', hgs⟩ := GStep_seal h b hid hP
  have e : g' = g0 ++ [(db.activeId, gf ++ [finRec b.id])] := PolicyP.Files_unique hgs.files hf
  subst e
  refine ⟨_, hgs, by omega, ?_⟩
  rw [hg, wt_snoc_append, estSumR_single]; omega

/-- an upper bound for the estimate of a sealing record (its key is the decimal id: ≤ 19 bytes) -/
def finCost : Nat := diskSizeEstimate 19 0

theorem estR_finRec_le (id : Nat) (h : id < 2 ^ 63) : estR (finRec id) ≤ finCost := by
  have := PolicyP.Size.idBytes_size_le id h
  exact PolicyP.Size.diskSizeEstimate_mono this (Nat.le_refl _)

theorem Small_finRec (id : Nat) (h : id < 2 ^ 63) : Small (finRec id) := by
  have := PolicyP.Size.idBytes_size_le id h
  show (idBytes id).size + ByteArray.empty.size ≤ 2 ^ 27
  have e0 : ByteArray.empty.size = 0 := rfl
  have : (19 : Nat) ≤ 2 ^ 27 := by decide
  omega

/-! ## the bound carried along a run -/

/-- well-formedness of a batch object for the cost accounting -/
def StagedSmall (b : BatchSt) : Prop :=
  (∀ r ∈ b.staged, StagedOK r ∧ r.key.size + r.value.size ≤ 2 ^ 27) ∧
  b.staged.Pairwise (fun a c => a.key ≠ c.key) ∧ b.id < 2 ^ 63

/-- the estimates of the records waiting in the staging area -/
def stagedW (db : DB) : Nat :=
  match db.batch with
  | some b => estSum b.staged
  | none => 0

def Bnd (s : St) (A W : Nat) : Prop :=
  ∃ db g, s.db = some db ∧ Files s db g ∧ db.activeId ≤ A ∧ SmallG g ∧ wt g + stagedW db ≤ W ∧
    ∀ b, db.batch = some b → StagedSmall b

theorem Bnd.mono {s : St} {A A' W W' : Nat} (h : Bnd s A W) (hA : A ≤ A') (hW : W ≤ W') : Bnd s A' W' := by
  obtain ⟨db, g, h1, h2, h3, h4, h5, h6⟩ := h
  exact ⟨db, g, h1, h2, by omega, h4, by omega, h6⟩

theorem SmallG.grown {P : Record → Prop} {a : Nat} {g g' : GDir} (h : SmallG g) (hg : Grown P a g g')
    (hP : ∀ r, P r → Small r) : SmallG g' := by
  intro x hx r hr
  rcases hg.recs x hx r hr with ⟨y, hy, hry⟩ | hp
  · exact h y hy r hry
  · exact hP r hp

theorem Bnd_fresh (dir : String) (cfg : Cfg) (h : cfg.Valid) : Bnd (openDB St.init dir cfg).1 0 0 := by
  rw [openDB_fresh dir cfg h]
  refine ⟨_, [(0, [])], rfl, (Inv_fresh dir cfg).files, Nat.le_refl _, ?_, Nat.le_refl _, ?_⟩
  · intro x hx r hr
    simp only [List.mem_singleton] at hx
    rw [hx] at hr; simp at hr
  · intro b hb; simp at hb

/-- a plain write: one rotation at most, the estimate of the record -/
theorem Bnd_appendLog {s : St} {db : DB} {g : GDir} {A W : Nat} (h : Files s db g) (hA : db.activeId ≤ A)
    (hsg : SmallG g) (r : Record) (hr : RecOK r) (hsm : Small r) (db' : DB) (s' : St)
    (hw : s'.world = (appendLog s db r).1.world) (hs' : s'.db = some db')
    (hd : db'.dir = (appendLog s db r).2.1.dir) (ha : db'.activeId = (appendLog s db r).2.1.activeId)
    (hb : db'.batch = db.batch) (hW : wt g + stagedW db ≤ W) (hbok : ∀ b, db.batch = some b → StagedSmall b) :
    Bnd s' (A + 1) (W + estR r) := by
  obtain ⟨g', hc⟩ := C_appendLog (P := Small) h r hr hsm
  have hc' := hc.congr hw hd ha
  refine ⟨db', g', hs', hc'.step.files, by have := hc'.rot; omega, hsg.grown hc'.step.grown (fun _ h => h), ?_,
    by rw [hb]; exact hbok⟩
  have e : stagedW db' = stagedW db := by unfold stagedW; rw [hb]
  have := hc'.wt
  omega

theorem appendLog_batch {s : St} {db : DB} {g : GDir} (h : Files s db g) (r : Record) (hr : RecOK r) :
    (appendLog s db r).2.1.batch = db.batch := by
  obtain ⟨_, _, _, _, _, _, hdb⟩ := appendLog_spec h r hr
  rw [hdb]

theorem Bnd_put {s : St} {A W : Nat} (h : Bnd s A W) (k v : ByteArray) (hk : k.size < 2 ^ 31) (hv : v.size < 2 ^ 31)
    (hsm : k.size + v.size ≤ 2 ^ 27) : Bnd (put s k v).1 (A + 1) (W + diskSizeEstimate k.size v.size) := by
  obtain ⟨db, g, hs, hf, hA, hsg, hW, hbok⟩ := h
  by_cases hk0 : k.size = 0
  · rw [put_keyempty s k v hk0 hs]
    exact ⟨db, g, hs, hf, by omega, hsg, by omega, hbok⟩
  · have hr : RecOK { typ := 0, key := k, value := v, batch := 0 } :=
      ⟨by show 0 < 3; omega, by show 0 < k.size; omega, hk, hv, by show 0 < 2 ^ 64; decide⟩
    rw [put_eq hs k v hk0]
    exact Bnd_appendLog hf hA hsg _ hr hsm _ _ rfl rfl rfl rfl (appendLog_batch hf _ hr) hW hbok

theorem Bnd_delete {s : St} {A W : Nat} (h : Bnd s A W) (k : ByteArray) (hk : k.size < 2 ^ 31)
    (hks : k.size ≤ 2 ^ 27) : Bnd (delete s k).1 (A + 1) (W + diskSizeEstimate k.size 0) := by
  obtain ⟨db, g, hs, hf, hA, hsg, hW, hbok⟩ := h
  by_cases hk0 : k.size = 0
  · rw [delete_keyempty s k hk0 hs]
    exact ⟨db, g, hs, hf, by omega, hsg, by omega, hbok⟩
  · cases hg : Index.get db.index k with
    | none =>
      rw [delete_eq_none hs k hk0 hg]
      exact ⟨db, g, hs, hf, by omega, hsg, by omega, hbok⟩
    | some old =>
      have hr : RecOK { typ := 1, key := k, value := ByteArray.empty, batch := 0 } :=
        ⟨by show 1 < 3; omega, by show 0 < k.size; omega, hk, by show 0 < 2 ^ 31; decide, by show 0 < 2 ^ 64; decide⟩
      have hsm : Small { typ := 1, key := k, value := ByteArray.empty, batch := 0 } := by
        show k.size + ByteArray.empty.size ≤ 2 ^ 27
        have e0 : ByteArray.empty.size = 0 := rfl
        omega
      rw [delete_eq_some hs k hk0 hg]
      exact Bnd_appendLog hf hA hsg _ hr hsm _ _ rfl rfl rfl rfl (appendLog_batch hf _ hr) hW hbok

theorem Bnd_sync {s : St} {A W : Nat} (h : Bnd s A W) : Bnd (syncDB s).1 A W := by
  obtain ⟨db, g, hs, hf, hA, hsg, hW, hbok⟩ := h
  obtain ⟨hs', hgs⟩ := sync_gstep hs hf
  exact ⟨db, g, hs', hgs.files, hA, hsg, hW, hbok⟩

theorem Bnd_bnew {s : St} {A W : Nat} (h : Bnd s A W) (sync : Bool) (id : Nat) (hid : id < 2 ^ 63) :
    Bnd (bnew s sync id).1 A W := by
  obtain ⟨db, g, hs, hf, hA, hsg, hW, hbok⟩ := h
  rw [bnew_eq hs]
  refine ⟨_, g, rfl, hf.congr rfl rfl rfl, hA, hsg, ?_, ?_⟩
  · show wt g + 0 ≤ W
    omega
  · intro b hb
    simp only [Option.some.injEq] at hb
    subst hb
    exact ⟨by intro r hr; simp [newBatch] at hr, List.Pairwise.nil, hid⟩

theorem Bnd_bdrop {s : St} {A W : Nat} (h : Bnd s A W) : Bnd (bdrop s).1 A W := by
  obtain ⟨db, g, hs, hf, hA, hsg, hW, hbok⟩ := h
  rw [bdrop_eq hs]
  refine ⟨_, g, rfl, hf.congr rfl rfl rfl, hA, hsg, ?_, by intro b hb; simp at hb⟩
  show wt g + 0 ≤ W
  omega

theorem Bnd_backup {s : St} {A W : Nat} (h : Bnd s A W) (dest : String)
    (hne : ∀ db, s.db = some db → dest ≠ db.dir) : Bnd (backup s dest).1 A W := by
  obtain ⟨db, g, hs, hf, hA, hsg, hW, hbok⟩ := h
  obtain ⟨W', e, hwd, _⟩ := backup_eq hs dest
  rw [e]
  have hw : W'.get db.dir = s.world.get db.dir := hwd (hne db hs)
  exact ⟨db, g, hs, ⟨by show DirOK W' db.dir g; unfold DirOK; rw [hw]; exact hf.dir, hf.asc,
    hf.active, hf.recs⟩, hA, hsg, hW, hbok⟩

/-! ## the staging calls -/

/-- the outcome of a call through the batch `b`: at most two rotations; weight plus staged estimates
    grow by at most `c` -/
structure BStep (db : DB) (g : GDir) (b : BatchSt) (s' : St) (db' : DB) (g' : GDir) (b' : BatchSt) (c : Nat) : Prop where
  open_ : s'.db = some db'
  batch : db'.batch = some b'
  files : Files s' db' g'
  small : SmallG g → SmallG g'
  rot : db'.activeId ≤ db.activeId + 2
  wt : wt g' + estSum b'.staged ≤ wt g + estSum b.staged + c
  ok : StagedSmall b'

theorem StagedSmall.P {b : BatchSt} (h : StagedSmall b) : ∀ r ∈ b.staged, Small (toRec b.id r) :=
  fun r hr => (h.1 r hr).2

theorem StagedSmall.staged_ok {b : BatchSt} (h : StagedSmall b) : ∀ r ∈ b.staged, StagedOK r :=
  fun r hr => (h.1 r hr).1

/-- `b` with `r` staged behind the staged records and the counter set to `c` -/
def stageB (b : BatchSt) (c : Nat) (r : Staged) : BatchSt := { b with cached := c, staged := b.staged ++ [r] }

/-- flush-and-rotate, then stage `r` as the only staged record -/
theorem flush_stage_bstep {s : St} {db : DB} {g : GDir} {b : BatchSt} (h : Files s db g) (hbok : StagedSmall b)
    (r : Staged) (hr : StagedOK r) (hsm : r.key.size + r.value.size ≤ 2 ^ 27) (c : Nat) :
    ∃ g', BStep db g b
      { (flushAndRotate s db b).1 with db := some { (flushAndRotate s db b).2.1 with
          batch := some (stageB (flushAndRotate s db b).2.2 c r) } }
      { (flushAndRotate s db b).2.1 with batch := some (stageB (flushAndRotate s db b).2.2 c r) }
      g' (stageB (flushAndRotate s db b).2.2 c r) (est r) := by
  have hid : b.id < 2 ^ 64 := by have := hbok.2.2; omega
  obtain ⟨g', hc⟩ := C_flushAndRotate (P := Small) h b hbok.staged_ok hid hbok.P
  obtain ⟨_, _, _, _, _, _, _, hF⟩ := flushAndRotate_spec h b hbok.staged_ok hid
  refine ⟨g', rfl, rfl, hc.step.files.congr rfl rfl rfl, fun hsg => hsg.grown hc.step.grown (fun _ h => h), hc.rot, ?_, ?_⟩
  · show wt g' + estSum ((flushAndRotate s db b).2.2.staged ++ [r]) ≤ _
    rw [hF]
    show wt g' + estSum ([] ++ [r]) ≤ _
    rw [List.nil_append, estSum_cons, estSum_nil]
    have := hc.wt
    omega
  · rw [hF]
    refine ⟨?_, ?_, hbok.2.2⟩
    · intro x hx
      have hx' : x ∈ ([] : List Staged) ++ [r] := hx
      have : x = r := by simpa using hx'
      rw [this]; exact ⟨hr, hsm⟩
    · show List.Pairwise _ ([] ++ [r])
      simp

theorem BStep.same {s : St} {db : DB} {g : GDir} {b : BatchSt} (hs : s.db = some db) (hb : db.batch = some b)
    (h : Files s db g) (hbok : StagedSmall b) (c : Nat) : BStep db g b s db g b c :=
  ⟨hs, hb, h, fun x => x, by omega, by omega, hbok⟩

theorem bput_bstep {s : St} {db : DB} {g : GDir} {b : BatchSt} (hs : s.db = some db) (hb : db.batch = some b)
    (h : Files s db g) (hbok : StagedSmall b) (k v : ByteArray) (hk : k.size < 2 ^ 31) (hv : v.size < 2 ^ 31)
    (hsm : k.size + v.size ≤ 2 ^ 27) :
    ∃ db' g' b', BStep db g b (bput s k v).1 db' g' b' (diskSizeEstimate k.size v.size) := by
  by_cases hk0 : k.size = 0
  · rw [bput_keyempty hs hb k v hk0]; exact ⟨db, g, b, BStep.same hs hb h hbok _⟩
  by_cases hc : b.committed = true
  · rw [bput_committed hs hb k v hk0 hc]; exact ⟨db, g, b, BStep.same hs hb h hbok _⟩
  have hr : StagedOK { typ := 0, key := k, value := v } := ⟨Nat.zero_lt_two, by show 0 < k.size; omega, hk, hv⟩
  unfold bput
  rw [withBatch_eq hs hb]
  simp only [if_neg hk0, if_neg hc]
  cases hfs : findStaged b.staged k with
  | none =>
    simp only []
    by_cases hcond : b.cached + diskSizeEstimate k.size v.size + maxFinRecord > db.cfg.fileSize
    · simp only [if_pos hcond]
      obtain ⟨g', H⟩ := flush_stage_bstep h hbok { typ := 0, key := k, value := v } hr hsm
        ((flushAndRotate s db b).2.2.cached + diskSizeEstimate k.size v.size)
      exact ⟨_, g', _, H⟩
    · simp only [if_neg hcond]
      refine ⟨_, g, _, rfl, rfl, h.congr rfl rfl rfl, fun x => x, by show db.activeId ≤ _; omega, ?_, ?_, ?_, hbok.2.2⟩
      · show wt g + estSum (b.staged ++ [{ typ := 0, key := k, value := v }]) ≤ _
        rw [estSum_append, estSum_cons, estSum_nil]
        show wt g + (estSum b.staged + (diskSizeEstimate k.size v.size + 0)) ≤ _
        omega
      · intro x hx
        rcases List.mem_append.mp hx with hx | hx
        · exact hbok.1 x hx
        · simp only [List.mem_singleton] at hx; rw [hx]; exact ⟨hr, hsm⟩
      · refine List.pairwise_append.mpr ⟨hbok.2.1, List.pairwise_singleton _ _, ?_⟩
        intro a ha c' hc'
        simp only [List.mem_singleton] at hc'
        rw [hc']
        exact findStaged_none hfs a ha
  | some r0 =>
    simp only []
    by_cases hcond : b.cached + diskSizeEstimate k.size v.size + maxFinRecord
        > db.cfg.fileSize + diskSizeEstimate r0.key.size r0.value.size
    · simp only [if_pos hcond]
      obtain ⟨g', H⟩ := flush_stage_bstep h hbok { typ := 0, key := k, value := v } hr hsm
        ((flushAndRotate s db b).2.2.cached + diskSizeEstimate k.size v.size)
      exact ⟨_, g', _, H⟩
    · simp only [if_neg hcond]
      refine ⟨_, g, _, rfl, rfl, h.congr rfl rfl rfl, fun x => x, by show db.activeId ≤ _; omega, ?_,
        PolicyP.Size.rewrite_ok k v 0 (by decide) hv hsm hbok.1, PolicyP.Size.rewrite_distinct k v 0 hbok.2.1, hbok.2.2⟩
      have := PolicyP.Size.estSum_rewrite k v 0 b.staged r0 hbok.2.1 hfs
      show wt g + estSum (b.staged.map (fun x => if x.key = k then { x with typ := 0, value := v } else x)) ≤ _
      omega

theorem bdel_bstep {s : St} {db : DB} {g : GDir} {b : BatchSt} (hs : s.db = some db) (hb : db.batch = some b)
    (h : Files s db g) (hbok : StagedSmall b) (k : ByteArray) (hk : k.size < 2 ^ 31) (hks : k.size ≤ 2 ^ 27) :
    ∃ db' g' b', BStep db g b (bdel s k).1 db' g' b' (diskSizeEstimate k.size 0) := by
  by_cases hk0 : k.size = 0
  · rw [bdel_keyempty hs hb k hk0]; exact ⟨db, g, b, BStep.same hs hb h hbok _⟩
  by_cases hc : b.committed = true
  · rw [bdel_committed hs hb k hk0 hc]; exact ⟨db, g, b, BStep.same hs hb h hbok _⟩
  have he : ByteArray.empty.size < 2 ^ 31 := by show 0 < 2 ^ 31; decide
  have hr : StagedOK { typ := 1, key := k, value := ByteArray.empty } :=
    ⟨Nat.one_lt_two, by show 0 < k.size; omega, hk, he⟩
  have hsm : k.size + ByteArray.empty.size ≤ 2 ^ 27 := by show k.size + 0 ≤ 2 ^ 27; omega
  unfold bdel
  rw [withBatch_eq hs hb]
  simp only [if_neg hk0, if_neg hc]
  cases hfs : findStaged b.staged k with
  | some r0 =>
    simp only []
    refine ⟨_, g, _, rfl, rfl, h.congr rfl rfl rfl, fun x => x, by show db.activeId ≤ _; omega, ?_,
      PolicyP.Size.rewrite_ok k ByteArray.empty 1 (by decide) he hsm hbok.1,
      PolicyP.Size.rewrite_distinct k ByteArray.empty 1 hbok.2.1, hbok.2.2⟩
    have := PolicyP.Size.estSum_rewrite k ByteArray.empty 1 b.staged r0 hbok.2.1 hfs
    have e0 : diskSizeEstimate k.size ByteArray.empty.size = diskSizeEstimate k.size 0 := rfl
    show wt g + estSum (b.staged.map (fun x => if x.key = k then { x with typ := 1, value := ByteArray.empty } else x)) ≤ _
    omega
  | none =>
    simp only []
    cases hget : Index.get db.index k with
    | none => exact ⟨db, g, b, BStep.same hs hb h hbok _⟩
    | some old =>
      simp only []
      by_cases hcond : b.cached + diskSizeEstimate k.size 0 + maxFinRecord > db.cfg.fileSize
      · simp only [if_pos hcond]
        obtain ⟨g', H⟩ := flush_stage_bstep h hbok { typ := 1, key := k, value := ByteArray.empty } hr hsm
          ((flushAndRotate s db b).2.2.cached + diskSizeEstimate k.size 0)
        exact ⟨_, g', _, H⟩
      · simp only [if_neg hcond]
        refine ⟨_, g, _, rfl, rfl, h.congr rfl rfl rfl, fun x => x, by show db.activeId ≤ _; omega, ?_, ?_, ?_, hbok.2.2⟩
        · show wt g + estSum (b.staged ++ [{ typ := 1, key := k, value := ByteArray.empty }]) ≤ _
          rw [estSum_append, estSum_cons, estSum_nil]
          show wt g + (estSum b.staged + (diskSizeEstimate k.size 0 + 0)) ≤ _
          omega
        · intro x hx
          rcases List.mem_append.mp hx with hx | hx
          · exact hbok.1 x hx
          · simp only [List.mem_singleton] at hx; rw [hx]; exact ⟨hr, hsm⟩
        · refine List.pairwise_append.mpr ⟨hbok.2.1, List.pairwise_singleton _ _, ?_⟩
          intro a ha c' hc'
          simp only [List.mem_singleton] at hc'
          rw [hc']
          exact findStaged_none hfs a ha

theorem bcommit_bstep {s : St} {db : DB} {g : GDir} {b : BatchSt} (hs : s.db = some db) (hb : db.batch = some b)
    (h : Files s db g) (hbok : StagedSmall b) :
    ∃ db' g' b', BStep db g b (bcommit s).1 db' g' b' finCost ∧ (b.committed = false → b'.staged = []) := by
  by_cases hc : b.committed = true
  · rw [bcommit_committed hs hb hc]
    exact ⟨db, g, b, BStep.same hs hb h hbok _, fun h' => by rw [hc] at h'; cases h'⟩
  have hc' : b.committed = false := by simpa using hc
  by_cases he : b.staged = []
  · rw [bcommit_empty hs hb hc' he]
    refine ⟨_, g, _, ⟨rfl, rfl, h.congr rfl rfl rfl, fun x => x, by show db.activeId ≤ _; omega, ?_, hbok⟩, fun _ => he⟩
    show wt g + estSum b.staged ≤ _
    omega
  · rw [bcommit_nonempty hs hb hc' he]
    have hid64 : b.id < 2 ^ 64 := by have := hbok.2.2; omega
    have hbokc : StagedSmall { b with committed := true } := hbok
    obtain ⟨g1, h1⟩ := C_flushStaged (P := Small) h { b with committed := true } hbokc.staged_ok hid64 hbokc.P
    have hF : (flushStaged s db { b with committed := true }).2.2
        = { b with committed := true, staged := [], cached := 0 } := PolicyP.Dur.flushStaged_batch _ _ _
    have hbid : (flushStaged s db { b with committed := true }).2.2.id = b.id := by rw [hF]
    obtain ⟨g2, h2⟩ := C_seal (P := Small) h1.step.files (flushStaged s db { b with committed := true }).2.2
      (by rw [hbid]; exact hbok.2.2) (by rw [hbid]; exact Small_finRec _ hbok.2.2)
    have h12 := h1.trans h2
    refine ⟨_, g2, _, ⟨rfl, rfl, h12.step.files.congr rfl rfl rfl,
      fun hsg => hsg.grown h12.step.grown (fun _ h => h), Nat.le_trans h12.rot (by omega), ?_, ?_⟩,
      fun _ => by rw [hF]⟩
    · show wt g2 + estSum (flushStaged s db { b with committed := true }).2.2.staged ≤ _
      rw [hF]
      show wt g2 + estSum [] ≤ _
      rw [estSum_nil]
      have := h12.wt
      have := estR_finRec_le b.id hbok.2.2
      rw [hbid] at *
      show wt g2 + 0 ≤ wt g + estSum b.staged + finCost
      have e : estSum ({ b with committed := true } : BatchSt).staged = estSum b.staged := rfl
      omega
    · rw [hF]
      exact ⟨by intro r hr; simp at hr, List.Pairwise.nil, hbok.2.2⟩

/-- any call through the slot's batch object -/
theorem Bnd_of_bstep {s' : St} {A W c : Nat} {db db' : DB} {g g' : GDir} {b b' : BatchSt}
    (hA : db.activeId ≤ A) (hsg : SmallG g) (hb : db.batch = some b) (hW : wt g + stagedW db ≤ W)
    (H : BStep db g b s' db' g' b' c) : Bnd s' (A + 2) (W + c) := by
  refine ⟨db', g', H.open_, H.files, by have := H.rot; omega, H.small hsg, ?_, ?_⟩
  · have e1 : stagedW db' = estSum b'.staged := by unfold stagedW; rw [H.batch]
    have e2 : stagedW db = estSum b.staged := by unfold stagedW; rw [hb]
    have := H.wt
    omega
  · intro b'' hb''
    rw [H.batch] at hb''
    cases hb''
    exact H.ok

theorem Bnd_bput {s : St} {A W : Nat} (h : Bnd s A W) (k v : ByteArray) (hk : k.size < 2 ^ 31) (hv : v.size < 2 ^ 31)
    (hsm : k.size + v.size ≤ 2 ^ 27) : Bnd (bput s k v).1 (A + 2) (W + diskSizeEstimate k.size v.size) := by
  obtain ⟨db, g, hs, hf, hA, hsg, hW, hbok⟩ := h
  cases hb : db.batch with
  | none =>
    rw [PolicyP.Dur.bput_nobatch hs hb]
    exact ⟨db, g, hs, hf, by omega, hsg, by omega, hbok⟩
  | some b =>
    obtain ⟨db', g', b', H⟩ := bput_bstep hs hb hf (hbok b hb) k v hk hv hsm
    exact Bnd_of_bstep hA hsg hb hW H

theorem Bnd_bdel {s : St} {A W : Nat} (h : Bnd s A W) (k : ByteArray) (hk : k.size < 2 ^ 31)
    (hks : k.size ≤ 2 ^ 27) : Bnd (bdel s k).1 (A + 2) (W + diskSizeEstimate k.size 0) := by
  obtain ⟨db, g, hs, hf, hA, hsg, hW, hbok⟩ := h
  cases hb : db.batch with
  | none =>
    rw [PolicyP.Dur.bdel_nobatch hs hb]
    exact ⟨db, g, hs, hf, by omega, hsg, by omega, hbok⟩
  | some b =>
    obtain ⟨db', g', b', H⟩ := bdel_bstep hs hb hf (hbok b hb) k hk hks
    exact Bnd_of_bstep hA hsg hb hW H

theorem Bnd_bcommit {s : St} {A W : Nat} (h : Bnd s A W) : Bnd (bcommit s).1 (A + 2) (W + finCost) := by
  obtain ⟨db, g, hs, hf, hA, hsg, hW, hbok⟩ := h
  cases hb : db.batch with
  | none =>
    rw [PolicyP.Dur.bcommit_nobatch hs hb]
    exact ⟨db, g, hs, hf, by omega, hsg, by omega, hbok⟩
  | some b =>
    obtain ⟨db', g', b', H, _⟩ := bcommit_bstep hs hb hf (hbok b hb)
    exact Bnd_of_bstep hA hsg hb hW H

/-! ## `Merge` and restart -/

theorem Matches_mem_left : ∀ {data : List (Nat × FileSt)} {g : GDir}, Matches data g → ∀ x ∈ data,
    ∃ y ∈ g, x.2.bytes = bytesOf y.2 := by
  intro data
  induction data with
  | nil => intro g _ x hx; simp at hx
  | cons y data ih =>
    intro g h x hx
    rw [Restart.Matches_cons] at h
    obtain ⟨z, g', rfl, _, e2, h3⟩ := h
    rcases List.mem_cons.mp hx with e | hx
    · exact ⟨z, by simp, by rw [e]; exact e2⟩
    · obtain ⟨y', hy', e'⟩ := ih h3 x hx
      exact ⟨y', by simp [hy'], e'⟩

/-- the rewritten records have the sizes of records below the marker -/
theorem SmallG_merged {w : World} {dir : String} {g : GDir} {n : Nat} {gm vis : GDir}
    (h : MergeOutB w dir g n gm vis) (hsg : SmallG g) : SmallG gm := by
  intro y hy r hr
  obtain ⟨p, hp⟩ := mem_records_logOf hy hr
  have hm : r ∈ (logOf gm).map (·.1) := List.mem_map.mpr ⟨(r, p), hp, rfl⟩
  rw [h.live] at hm
  obtain ⟨x, hx, e⟩ := List.mem_map.mp hm
  have hx1 := (List.mem_filter.mp hx).1
  have hx2 := (mem_logOf_perm h.perm x).mp hx1
  obtain ⟨z, hz, hrz⟩ := mem_logOf_record (r := x.1) (p := x.2) hx2
  have := hsg z ((lo_sublist g n).subset hz) _ hrz
  rw [← e]
  exact this

/-- the handle and ghost directory of `Bnd` are those of the normal form in `HInvQ` -/
theorem HInvQ.unpack {dir : String} {s : St} {m : BSpec} {dead : Bool} (hq : HInvQ dir s m dead) {db : DB} {g : GDir}
    (hs : s.db = some db) (hf : Files s db g) :
    (setB none s).db = some (setBDB none db) ∧ db.dir = dir ∧ Inv (setB none s) (setBDB none db) g ∧
    MS0 s.world dir g := by
  obtain ⟨db0, g0, hs0, hd0, hi0, _, hms0, _⟩ := hq.1
  have e := setB_db hs none
  rw [e] at hs0
  cases hs0
  have hg : g = g0 := PolicyP.Files_unique' hf hi0.files rfl rfl
  subst hg
  exact ⟨e, hd0, hi0, hms0⟩

/-- **`Merge`**: one rotation, no new record; its range condition follows from the bound on the
    active id -/
theorem Bnd_merge {dir : String} {s : St} {m : BSpec} {dead : Bool} {A W : Nat} (hq : HInvQ dir s m dead)
    (h : Bnd s A W) (order : List Nat) (ho : order.Nodup) (hA : A + 1 < 2 ^ 32) :
    (∀ db, s.db = some db → db.activeId + 1 < 2 ^ 32) ∧ Bnd (merge s order).1 (A + 1) W := by
  obtain ⟨db, g, hs, hf, hAct, hsg, hW, hbok⟩ := h
  refine ⟨fun db' hs' => by rw [hs] at hs'; cases hs'; omega, ?_⟩
  obtain ⟨hs0, _, hi0, _⟩ := hq.unpack hs hf
  obtain ⟨h1, h2, _⟩ := merge_spec hs0 hi0 order ho (by show db.activeId + 1 < 2 ^ 32; omega)
  have e : merge s order = (setB db.batch (merge (setB none s) order).1, (merge (setB none s) order).2) := by
    conv => lhs; rw [← setB_restore hs]
    exact merge_setB _ _ _
  rw [e]
  refine ⟨setBDB db.batch (rotDB (setBDB none db)), g ++ [(db.activeId + 1, [])], setB_db h1 _,
    h2.files.congr rfl rfl rfl, by show db.activeId + 1 ≤ A + 1; omega, ?_, ?_, hbok⟩
  · intro x hx r hr
    rcases List.mem_append.mp hx with hx | hx
    · exact hsg x hx r hr
    · simp only [List.mem_singleton] at hx; rw [hx] at hr; simp at hr
  · rw [wt_snoc_empty]
    exact hW

/-- the range condition of a restart: a finished merge directory holds files no longer than the
    weight bound -/
theorem restart_sizes {dir : String} {s : St} {m : BSpec} {dead : Bool} {A W : Nat} (hq : HInvQ dir s m dead)
    (h : Bnd s A W) (hWlt : W < 2 ^ 32) :
    ∀ md, s.world.get (mergeDirName dir) = some md → md.marker ≠ none → ∀ x ∈ md.data, x.2.bytes.size < 2 ^ 32 := by
  obtain ⟨db, g, hs, hf, hAct, hsg, hW, hbok⟩ := h
  obtain ⟨_, _, hi0, hms⟩ := hq.unpack hs hf
  intro md hmd hmk x hx
  rcases hms with hnm | ⟨n, gm, vis, hmo⟩
  · exact absurd (hnm md hmd) hmk
  · obtain ⟨md', hmd', hmm, _, _⟩ := hmo.mdir
    rw [hmd] at hmd'
    cases hmd'
    obtain ⟨y, hy, e⟩ := Matches_mem_left hmm x hx
    obtain ⟨hM, _, _⟩ := hmo.merged hi0.asc hi0.recs
    have hsm := SmallG_merged hmo hsg
    have h1 := size_bytesOf_le y.2 (fun r hr => ⟨hM.recs y hy r hr, hsm y hy r hr⟩)
    have h2 := estSumR_le_wt hy
    have h3 := wt_merged_le hmo
    have h4 := wt_lo_le g n
    rw [e]
    omega

/-- **restart**: the active id and the weight do not grow (adoption replaces the files below the
    marker by rewritten files of at most the same weight) -/
theorem Bnd_restart {dir : String} {s : St} {m : BSpec} {dead : Bool} {A W : Nat} (hq : HInvQ dir s m dead)
    (h : Bnd s A W) (cfg' : Cfg) (hcfg : cfg'.Valid) (hWlt : W < 2 ^ 32) :
    Bnd (openDB (close s).1 dir cfg').1 A W := by
  have hsz := restart_sizes hq h hWlt
  obtain ⟨db, g, hs, hf, hAct, hsg, hW, hbok⟩ := h
  obtain ⟨hs0, hd, hi0, hms⟩ := hq.unpack hs hf
  subst hd
  have hcl : close (setB none s) = close s := close_setB none s
  rcases hms with hnm | ⟨n, gm, vis, hmo⟩
  · obtain ⟨_, s', db', hopen, hs', _, _, hi', _, hact⟩ := restart_scan cfg' hs0 hi0 hnm.plan hcfg
    rw [hcl] at hopen
    have hopen' : openDB (close s).1 db.dir cfg' = (s', .ok) := hopen
    rw [hopen']
    refine ⟨db', g, hs', hi'.files, by rw [hact]; exact hAct, hsg, ?_, by intro b hb; rw [hi'.nobatch] at hb; cases hb⟩
    have : stagedW db' = 0 := by unfold stagedW; rw [hi'.nobatch]
    omega
  · have hF := HintFits_of_sizes hmo hsz
    obtain ⟨_, s', db', hopen, hs', _, _, hi', _, _, hact⟩ := restart_adopt cfg' hs0 hi0 hmo hF hcfg
    rw [hcl] at hopen
    have hopen' : openDB (close s).1 db.dir cfg' = (s', .ok) := hopen
    rw [hopen']
    refine ⟨db', gm ++ hi g n, hs', hi'.files, by rw [hact]; exact hAct, ?_, ?_,
      by intro b hb; rw [hi'.nobatch] at hb; cases hb⟩
    · intro x hx r hr
      rcases List.mem_append.mp hx with hx | hx
      · exact SmallG_merged hmo hsg x hx r hr
      · exact hsg x ((hi_sublist g n).subset hx) r hr
    · have : stagedW db' = 0 := by unfold stagedW; rw [hi'.nobatch]
      have h3 := wt_merged_le hmo
      have h4 : wt g = wt (lo g n) + wt (hi g n) := by rw [← wt_append, lo_append_hi hi0.asc]
      rw [wt_append]
      omega

end XixiKV.Engine.HistP
