import XixiKV.Proofs.EngineBatch
import XixiKV.Properties.C01
/-!
# Configuration policy helpers (C13 / C14 / C17)

This file has three independent parts, each in its own namespace:

* `XixiKV.Engine.PolicyP`        — Part A/B/C below: index type / shard count / I/O type are never
  consulted (C14), frame lemmas for plain runs, uniqueness of the ghost directory;
* `XixiKV.Engine.PolicyP.Dur`    — durability invariant and sync-policy lemmas (C13);
* `XixiKV.Engine.PolicyP.Size`   — the size estimate and the data-file size limit (C17).

## Part A (C14): the model never consults `idx`, `io`, `shards`

`retag t s` overwrites the three fields `idx / io / shards` of the open handle's configuration by
the triple `t`.  Every operation of the executable model *commutes* with `retag t`
(`put_retag`, `merge_retag`, …): running the operation on the retagged state gives the retagged
result state and the very same return value.  Two states are `Sim`ilar when they coincide except
for those three fields; `Sim s₁ s₂ ↔ retag t s₁ = retag t s₂`, so commutation turns into
"`Sim`-related inputs give `Sim`-related outputs and equal results" (`sim_of_comm`).
-/
namespace XixiKV.Engine.PolicyP
open XixiKV.Frame XixiKV.Record XixiKV.Index XixiKV.Engine XixiKV.Engine.BatchP

/-- the three configuration fields the theorem is about: (index type, I/O type, shard count) -/
abbrev Tag := Nat × Nat × Nat

def retagCfg (t : Tag) (c : Cfg) : Cfg := { c with idx := t.1, io := t.2.1, shards := t.2.2 }
def retagDB (t : Tag) (db : DB) : DB := { db with cfg := retagCfg t db.cfg }
def retag (t : Tag) (s : St) : St := { s with db := s.db.map (retagDB t) }

/-- two configurations that differ at most in index type, shard count and I/O type -/
def CfgEq (c₁ c₂ : Cfg) : Prop := c₁.fileSize = c₂.fileSize ∧ c₁.sync = c₂.sync ∧ c₁.bps = c₂.bps

/-- two handles that coincide except for `cfg.idx`, `cfg.io`, `cfg.shards` -/
def DBEq (a b : DB) : Prop :=
  a.dir = b.dir ∧ a.activeId = b.activeId ∧ a.index = b.index ∧ a.reclaim = b.reclaim ∧ a.total = b.total ∧
    a.bytesWrite = b.bytesWrite ∧ a.batch = b.batch ∧ CfgEq a.cfg b.cfg

/-- **the simulation relation**: the same world (all directories, all file bytes, all sync marks,
    lock bits), and either no handle on both sides or handles equal up to `idx / io / shards` -/
def Sim (s₁ s₂ : St) : Prop :=
  s₁.world = s₂.world ∧
    match s₁.db, s₂.db with
    | none, none => True
    | some a, some b => DBEq a b
    | _, _ => False

theorem retagCfg_eq_iff (t : Tag) (c₁ c₂ : Cfg) : retagCfg t c₁ = retagCfg t c₂ ↔ CfgEq c₁ c₂ := by
  obtain ⟨a1, a2, a3, a4, a5, a6⟩ := c₁
  obtain ⟨b1, b2, b3, b4, b5, b6⟩ := c₂
  simp only [retagCfg, CfgEq, Cfg.mk.injEq, and_true]

theorem retagDB_eq_iff (t : Tag) (a b : DB) : retagDB t a = retagDB t b ↔ DBEq a b := by
  obtain ⟨a1, a2, a3, a4, a5, a6, a7, a8⟩ := a
  obtain ⟨b1, b2, b3, b4, b5, b6, b7, b8⟩ := b
  simp only [retagDB, DBEq, DB.mk.injEq, retagCfg_eq_iff]
  exact ⟨fun ⟨h1, h2, h3, h4, h5, h6, h7, h8⟩ => ⟨h2, h3, h4, h5, h6, h7, h8, h1⟩,
    fun ⟨h2, h3, h4, h5, h6, h7, h8, h1⟩ => ⟨h1, h2, h3, h4, h5, h6, h7, h8⟩⟩

/-- `Sim` is "equal after erasing the three fields" — for any choice of the erasing triple -/
theorem sim_iff_retag (t : Tag) (s₁ s₂ : St) : Sim s₁ s₂ ↔ retag t s₁ = retag t s₂ := by
  obtain ⟨w1, d1⟩ := s₁
  obtain ⟨w2, d2⟩ := s₂
  cases d1 with
  | none =>
    cases d2 with
    | none => simp [Sim, retag]
    | some b => simp [Sim, retag]
  | some a =>
    cases d2 with
    | none => simp [Sim, retag]
    | some b => simp [Sim, retag, retagDB_eq_iff]

theorem Sim.refl (s : St) : Sim s s := (sim_iff_retag (0, 0, 0) s s).mpr rfl
theorem Sim.symm {s₁ s₂ : St} (h : Sim s₁ s₂) : Sim s₂ s₁ :=
  (sim_iff_retag (0, 0, 0) _ _).mpr ((sim_iff_retag (0, 0, 0) _ _).mp h).symm
theorem Sim.trans {s₁ s₂ s₃ : St} (h : Sim s₁ s₂) (h' : Sim s₂ s₃) : Sim s₁ s₃ :=
  (sim_iff_retag (0, 0, 0) _ _).mpr (((sim_iff_retag (0, 0, 0) _ _).mp h).trans ((sim_iff_retag (0, 0, 0) _ _).mp h'))

theorem sim_retag (t : Tag) (s : St) : Sim s (retag t s) := by
  rw [sim_iff_retag t]
  obtain ⟨w, d⟩ := s
  cases d <;> rfl

/-- an operation that commutes with `retag` maps `Sim`-related states to `Sim`-related states and
    returns equal results -/
theorem sim_of_comm {ρ : Type} (f : St → St × ρ)
    (hf : ∀ t s, f (retag t s) = (retag t (f s).1, (f s).2)) {s₁ s₂ : St} (h : Sim s₁ s₂) :
    Sim (f s₁).1 (f s₂).1 ∧ (f s₁).2 = (f s₂).2 := by
  have e := (sim_iff_retag (0, 0, 0) _ _).mp h
  have e1 := hf (0, 0, 0) s₁
  have e2 := hf (0, 0, 0) s₂
  rw [e] at e1
  rw [e1] at e2
  injection e2 with e3 e4
  exact ⟨(sim_iff_retag (0, 0, 0) _ _).mpr e3, e4⟩

/-! ### the building blocks commute -/

theorem dirOf_retag (t : Tag) (s : St) (db : DB) : dirOf (retag t s) (retagDB t db) = dirOf s db := rfl

theorem activeFile_retag (t : Tag) (s : St) (db : DB) : activeFile (retag t s) (retagDB t db) = activeFile s db := rfl

theorem putFile_retag (t : Tag) (s : St) (db : DB) (id : Nat) (f : FileSt) :
    putFile (retag t s) (retagDB t db) id f = retag t (putFile s db id f) := rfl

theorem rotate_retag (t : Tag) (s : St) (db : DB) :
    rotate (retag t s) (retagDB t db) = (retag t (rotate s db).1, retagDB t (rotate s db).2) := rfl

theorem valueAt_retag (t : Tag) (s : St) (db : DB) (p : Pos) : valueAt (retag t s) (retagDB t db) p = valueAt s db p := rfl

@[simp] theorem retagDB_sync (t : Tag) (db : DB) : (retagDB t db).cfg.sync = db.cfg.sync := rfl
@[simp] theorem retagDB_bps (t : Tag) (db : DB) : (retagDB t db).cfg.bps = db.cfg.bps := rfl
@[simp] theorem retagDB_fileSize (t : Tag) (db : DB) : (retagDB t db).cfg.fileSize = db.cfg.fileSize := rfl
@[simp] theorem retagDB_bytesWrite (t : Tag) (db : DB) : (retagDB t db).bytesWrite = db.bytesWrite := rfl
@[simp] theorem retagDB_activeId (t : Tag) (db : DB) : (retagDB t db).activeId = db.activeId := rfl
@[simp] theorem retagDB_dir (t : Tag) (db : DB) : (retagDB t db).dir = db.dir := rfl
@[simp] theorem retagDB_index (t : Tag) (db : DB) : (retagDB t db).index = db.index := rfl
@[simp] theorem retagDB_total (t : Tag) (db : DB) : (retagDB t db).total = db.total := rfl
@[simp] theorem retagDB_reclaim (t : Tag) (db : DB) : (retagDB t db).reclaim = db.reclaim := rfl
@[simp] theorem retagDB_batch (t : Tag) (db : DB) : (retagDB t db).batch = db.batch := rfl

theorem appendTail_retag (t : Tag) (s : St) (db : DB) (r : Record) :
    appendTail (retag t s) (retagDB t db) r
      = (retag t (appendTail s db r).1, retagDB t (appendTail s db r).2.1, (appendTail s db r).2.2) := by
  unfold appendTail
  simp only [activeFile_retag, retagDB_sync, retagDB_bps, retagDB_bytesWrite, retagDB_activeId]
  by_cases h : (db.cfg.sync = 1 ∨ db.cfg.sync = 2 ∧
      db.bytesWrite + (posOf C db.activeId (activeFile s db).bytes.size (encodeRecord r)).size ≥ db.cfg.bps)
  · simp only [h, if_true]
    rfl
  · simp only [h, if_false]
    rfl

theorem appendLog_retag (t : Tag) (s : St) (db : DB) (r : Record) :
    appendLog (retag t s) (retagDB t db) r
      = (retag t (appendLog s db r).1, retagDB t (appendLog s db r).2.1, (appendLog s db r).2.2) := by
  rw [appendLog_eq, appendLog_eq, activeFile_retag]
  show (if (activeFile s db).bytes.size + diskSizeEstimate r.key.size r.value.size > db.cfg.fileSize then _ else _) = _
  split
  · rw [rotate_retag]; exact appendTail_retag t _ _ r
  · exact appendTail_retag t s db r


/-! ### plain operations commute -/

theorem put_retag (t : Tag) (s : St) (k v : ByteArray) :
    put (retag t s) k v = (retag t (put s k v).1, (put s k v).2) := by
  obtain ⟨w, d⟩ := s
  cases d with
  | none => rfl
  | some db =>
    by_cases hk : k.size = 0
    · rw [put_keyempty _ k v hk (db := retagDB t db) rfl, put_keyempty _ k v hk (db := db) rfl]
    · rw [put_eq (db := retagDB t db) rfl k v hk, put_eq (db := db) rfl k v hk]
      rw [appendLog_retag]
      rfl

theorem get_retag (t : Tag) (s : St) (k : ByteArray) :
    get (retag t s) k = (retag t (get s k).1, (get s k).2) := by
  obtain ⟨w, d⟩ := s
  cases d with
  | none => rfl
  | some db =>
    unfold get withDB
    simp only [retag, Option.map_some, retagDB_index]
    split
    · rfl
    · split
      · rfl
      · rfl

theorem delete_retag (t : Tag) (s : St) (k : ByteArray) :
    delete (retag t s) k = (retag t (delete s k).1, (delete s k).2) := by
  obtain ⟨w, d⟩ := s
  cases d with
  | none => rfl
  | some db =>
    by_cases hk : k.size = 0
    · rw [delete_keyempty _ k hk (db := retagDB t db) rfl, delete_keyempty _ k hk (db := db) rfl]
    · cases hg : Index.get db.index k with
      | none =>
        rw [delete_eq_none (db := retagDB t db) rfl k hk hg, delete_eq_none (db := db) rfl k hk hg]
      | some old =>
        rw [delete_eq_some (db := retagDB t db) rfl k hk hg, delete_eq_some (db := db) rfl k hk hg]
        rw [appendLog_retag]
        rfl

theorem syncDB_retag (t : Tag) (s : St) : syncDB (retag t s) = (retag t (syncDB s).1, (syncDB s).2) := by
  obtain ⟨w, d⟩ := s
  cases d <;> rfl

theorem close_retag (t : Tag) (s : St) : close (retag t s) = (retag t (close s).1, (close s).2) := by
  obtain ⟨w, d⟩ := s
  cases d <;> rfl


/-! ### batches commute -/

theorem applyStaged_retag (t : Tag) (db : DB) (r : Staged) (p : Pos) :
    applyStaged (retagDB t db) r p = retagDB t (applyStaged db r p) := by
  unfold applyStaged
  simp only [retagDB_index]
  cases Index.get db.index r.key <;> (simp only []; split <;> rfl)

theorem flushTail_retag (t : Tag) (s : St) (db : DB) (b : BatchSt) :
    flushTail (retag t s) (retagDB t db) b
      = (retag t (flushTail s db b).1, retagDB t (flushTail s db b).2.1, (flushTail s db b).2.2) := by
  unfold flushTail
  simp only [activeFile_retag, retagDB_activeId, putFile_retag]
  rw [List.foldl_hom (retagDB t) (g₁ := fun db (x : Staged × Pos) => applyStaged db x.1 x.2)
    (g₂ := fun db (x : Staged × Pos) => applyStaged db x.1 x.2) (fun x y => applyStaged_retag t x y.1 y.2)]

theorem flushStaged_retag (t : Tag) (s : St) (db : DB) (b : BatchSt) :
    flushStaged (retag t s) (retagDB t db) b
      = (retag t (flushStaged s db b).1, retagDB t (flushStaged s db b).2.1, (flushStaged s db b).2.2) := by
  rw [flushStaged_eq, flushStaged_eq]
  simp only [activeFile_retag, retagDB_fileSize]
  by_cases h : (!b.staged.isEmpty) = true ∧ (activeFile s db).bytes.size > 0 ∧
      (activeFile s db).bytes.size + b.cached + maxFinRecord > db.cfg.fileSize
  · simp only [h]
    rw [rotate_retag]; exact flushTail_retag t _ _ b
  · simp only [h, if_false]
    exact flushTail_retag t s db b

theorem flushAndRotate_retag (t : Tag) (s : St) (db : DB) (b : BatchSt) :
    flushAndRotate (retag t s) (retagDB t db) b
      = (retag t (flushAndRotate s db b).1, retagDB t (flushAndRotate s db b).2.1, (flushAndRotate s db b).2.2) := by
  rw [flushAndRotate_eq, flushAndRotate_eq, flushStaged_retag, rotate_retag]

theorem bnew_retag (t : Tag) (s : St) (sync : Bool) (id : Nat) :
    bnew (retag t s) sync id = (retag t (bnew s sync id).1, (bnew s sync id).2) := by
  obtain ⟨w, d⟩ := s
  cases d <;> rfl

theorem bdrop_retag (t : Tag) (s : St) : bdrop (retag t s) = (retag t (bdrop s).1, (bdrop s).2) := by
  obtain ⟨w, d⟩ := s
  cases d <;> rfl

theorem bget_retag (t : Tag) (s : St) (k : ByteArray) :
    bget (retag t s) k = (retag t (bget s k).1, (bget s k).2) := by
  obtain ⟨w, d⟩ := s
  cases d with
  | none => rfl
  | some db =>
    unfold bget withBatch
    simp only [retag, Option.map_some, retagDB_batch, retagDB_index]
    cases db.batch with
    | none => rfl
    | some b =>
      simp only []
      split
      · rfl
      · split
        · rfl
        · split
          · split <;> rfl
          · split <;> rfl


theorem bput_retag (t : Tag) (s : St) (k v : ByteArray) :
    bput (retag t s) k v = (retag t (bput s k v).1, (bput s k v).2) := by
  obtain ⟨w, d⟩ := s
  cases d with
  | none => rfl
  | some db =>
    unfold bput withBatch
    simp only [retag, Option.map_some, retagDB_batch, retagDB_fileSize]
    cases db.batch with
    | none => rfl
    | some b =>
      simp only []
      by_cases hk : k.size = 0
      · simp only [if_pos hk]; rfl
      · simp only [if_neg hk]
        by_cases hc : b.committed = true
        · simp only [if_pos hc]; rfl
        · simp only [if_neg hc]
          cases findStaged b.staged k with
          | none =>
            simp only []
            by_cases hcond : b.cached + diskSizeEstimate k.size v.size + maxFinRecord > db.cfg.fileSize
            · simp only [hcond, if_true]
              rw [show ({ world := w, db := some (retagDB t db) } : St) = retag t { world := w, db := some db } from rfl,
                flushAndRotate_retag]
              rfl
            · simp only [hcond, if_false]; rfl
          | some r =>
            simp only []
            by_cases hcond : b.cached + diskSizeEstimate k.size v.size + maxFinRecord
                > db.cfg.fileSize + diskSizeEstimate r.key.size r.value.size
            · simp only [hcond, if_true]
              rw [show ({ world := w, db := some (retagDB t db) } : St) = retag t { world := w, db := some db } from rfl,
                flushAndRotate_retag]
              rfl
            · simp only [hcond, if_false]; rfl

theorem bdel_retag (t : Tag) (s : St) (k : ByteArray) :
    bdel (retag t s) k = (retag t (bdel s k).1, (bdel s k).2) := by
  obtain ⟨w, d⟩ := s
  cases d with
  | none => rfl
  | some db =>
    unfold bdel withBatch
    simp only [retag, Option.map_some, retagDB_batch, retagDB_fileSize, retagDB_index]
    cases db.batch with
    | none => rfl
    | some b =>
      simp only []
      by_cases hk : k.size = 0
      · simp only [if_pos hk]; rfl
      · simp only [if_neg hk]
        by_cases hc : b.committed = true
        · simp only [if_pos hc]; rfl
        · simp only [if_neg hc]
          cases findStaged b.staged k with
          | some r => rfl
          | none =>
            simp only []
            cases Index.get db.index k with
            | none => rfl
            | some old =>
              simp only []
              by_cases hcond : b.cached + diskSizeEstimate k.size 0 + maxFinRecord > db.cfg.fileSize
              · simp only [hcond, if_true]
                rw [show ({ world := w, db := some (retagDB t db) } : St) = retag t { world := w, db := some db } from rfl,
                  flushAndRotate_retag]
                rfl
              · simp only [hcond, if_false]; rfl

theorem bcommit_retag (t : Tag) (s : St) : bcommit (retag t s) = (retag t (bcommit s).1, (bcommit s).2) := by
  obtain ⟨w, d⟩ := s
  cases d with
  | none => rfl
  | some db =>
    cases hb : db.batch with
    | none =>
      unfold bcommit withBatch
      simp only [retag, Option.map_some, retagDB_batch, hb]
    | some b =>
      have hb' : (retagDB t db).batch = some b := hb
      by_cases hc : b.committed = true
      · rw [bcommit_committed (db := retagDB t db) rfl hb' hc, bcommit_committed (db := db) rfl hb hc]
      · have hc' : b.committed = false := by simpa using hc
        by_cases he : b.staged = []
        · rw [bcommit_empty (db := retagDB t db) rfl hb' hc' he, bcommit_empty (db := db) rfl hb hc' he]
          rfl
        · rw [bcommit_nonempty (db := retagDB t db) rfl hb' hc' he, bcommit_nonempty (db := db) rfl hb hc' he]
          rw [flushStaged_retag]
          rfl


/-! ### merge, backup, open commute -/

theorem backup_retag (t : Tag) (s : St) (dest : String) :
    backup (retag t s) dest = (retag t (backup s dest).1, (backup s dest).2) := by
  obtain ⟨w, d⟩ := s
  cases d <;> rfl

/-- the temporary merge handle is retagged along -/
def retagM (t : Tag) (m : MergeSt) : MergeSt := { m with mdb := retagDB t m.mdb }

def retagSM (t : Tag) (x : St × MergeSt) : St × MergeSt := (retag t x.1, retagM t x.2)

theorem mergeRec_retag (t : Tag) (s : St) (db : DB) (m : MergeSt) (nonMerge fileId : Nat) (payload : ByteArray)
    (pos : Pos) :
    mergeRec (retag t s) (retagDB t db) (retagM t m) nonMerge fileId payload pos
      = retagSM t (mergeRec s db m nonMerge fileId payload pos) := by
  unfold mergeRec
  simp only [retagDB_index]
  show (if m.failed.isSome = true then _ else _) = _
  split
  · rfl
  · cases decodeRecord payload with
    | none => rfl
    | some rec =>
      simp only []
      cases Index.get db.index rec.key with
      | none => rfl
      | some p =>
        simp only []
        split
        · have hA : appendLog (retag t s) (retagM t m).mdb { typ := rec.typ, key := rec.key, value := rec.value, batch := 0 }
              = (retag t (appendLog s m.mdb { typ := rec.typ, key := rec.key, value := rec.value, batch := 0 }).1,
                 retagDB t (appendLog s m.mdb { typ := rec.typ, key := rec.key, value := rec.value, batch := 0 }).2.1,
                 (appendLog s m.mdb { typ := rec.typ, key := rec.key, value := rec.value, batch := 0 }).2.2) :=
            appendLog_retag t s m.mdb _
          simp only [hA, retagDB_activeId]
          split <;> rfl
        · rfl

/-- the per-file step of `Merge` (the body of the outer fold), named -/
def mergeFile (db : DB) (nonMerge : Nat) (acc : St × MergeSt) (id : Nat) : St × MergeSt :=
  let (s, m) := acc
  if m.failed.isSome then (s, m) else
  match getFile (dirOf s db).data id with
  | none => (s, m)
  | some f =>
    let sc := scan C false id f.bytes
    let (s, m) := sc.recs.foldl (fun (acc : St × MergeSt) (x : ByteArray × Pos) =>
      mergeRec acc.1 db acc.2 nonMerge id x.1 x.2) (s, m)
    if !sc.ok ∧ m.failed.isNone then (s, { m with failed := some "crc" }) else (s, m)

theorem mergeFile_retag (t : Tag) (db : DB) (nonMerge : Nat) (acc : St × MergeSt) (id : Nat) :
    mergeFile (retagDB t db) nonMerge (retagSM t acc) id = retagSM t (mergeFile db nonMerge acc id) := by
  obtain ⟨s, m⟩ := acc
  have hfold : ∀ (l : List (ByteArray × Pos)) (a : St × MergeSt),
      l.foldl (fun (acc : St × MergeSt) (x : ByteArray × Pos) =>
        mergeRec acc.1 (retagDB t db) acc.2 nonMerge id x.1 x.2) (retagSM t a)
      = retagSM t (l.foldl (fun (acc : St × MergeSt) (x : ByteArray × Pos) =>
        mergeRec acc.1 db acc.2 nonMerge id x.1 x.2) a) := by
    intro l a
    exact List.foldl_hom (retagSM t) (fun x y => mergeRec_retag t x.1 db x.2 nonMerge id y.1 y.2)
  have hf : (retagM t m).failed = m.failed := rfl
  by_cases h : m.failed.isSome = true
  · simp only [mergeFile, retagSM, hf, h, if_true]
  · simp only [mergeFile, retagSM, hf, h, dirOf_retag]
    cases getFile (dirOf s db).data id with
    | none => rfl
    | some f =>
      simp only []
      have := hfold (scan C false id f.bytes).recs (s, m)
      simp only [retagSM] at this
      simp only [this]
      generalize (scan C false id f.bytes).recs.foldl (fun (acc : St × MergeSt) (x : ByteArray × Pos) =>
            mergeRec acc.1 db acc.2 nonMerge id x.1 x.2) (s, m) = R
      obtain ⟨s1, m1⟩ := R
      have hf1 : (retagM t m1).failed = m1.failed := rfl
      simp only [hf1]
      by_cases h2 : (!(scan C false id f.bytes).ok) = true ∧ m1.failed.isNone = true
      · simp only [h2, and_self, if_true]; rfl
      · simp only [h2, if_false]; rfl


/-- `Merge`, stage 1: rotate, create the merge directory and its temporary handle -/
def mergeInit (s : St) (db : DB) : St × DB × MergeSt :=
  let R0 := rotate s db
  let db := R0.2
  let s : St := { R0.1 with db := some db }
  let mname := mergeDirName db.dir
  let w := (s.world.remove mname).set mname { DirSt.empty with data := [(0, ⟨ByteArray.empty, 0⟩)] }
  let s : St := { s with world := w }
  let mdb : DB := { cfg := { db.cfg with sync := 0 }, dir := mname, activeId := 0, index := [],
                    reclaim := 0, total := 0, bytesWrite := 0, batch := none }
  (s, db, { mdb := mdb, hint := ByteArray.empty, failed := none })

/-- `Merge`, stage 2: the visiting order of the older files -/
def mergeIds (s : St) (db : DB) (order : List Nat) : List Nat :=
  let d := dirOf s db
  let ids := order.filter (fun i => i < db.activeId ∧ (getFile d.data i).isSome)
  ids ++ (d.data.map (·.1)).filter (fun i => i < db.activeId ∧ !ids.contains i)

/-- `Merge`, stage 4: error, or sync the rewritten files and write hint file and marker -/
def mergeFinish (nonMerge : Nat) (mname : String) (R : St × MergeSt) : St × Res :=
  match R.2.failed with
  | some e => (R.1, .err e)
  | none =>
    let md := (R.1.world.get mname).getD DirSt.empty
    let md := { md with data := md.data.map (fun (i, f) => (i, { f with synced := f.bytes.size })),
                        hint := some R.2.hint, marker := some (markerBytes nonMerge (R.2.mdb.activeId + 1)) }
    ({ R.1 with world := R.1.world.set mname md }, .ok)

/-- `Merge` after the handle has been found, in stages, with the outer fold step named (`mergeFile`) -/
def mergeBody (s : St) (db : DB) (order : List Nat) : St × Res :=
  let I := mergeInit s db
  mergeFinish I.2.1.activeId (mergeDirName I.2.1.dir)
    ((mergeIds I.1 I.2.1 order).foldl (mergeFile I.2.1 I.2.1.activeId) (I.1, I.2.2))

theorem merge_eq (s : St) (order : List Nat) : merge s order = withDB s (fun db => mergeBody s db order) := rfl

theorem mergeInit_retag (t : Tag) (s : St) (db : DB) :
    mergeInit (retag t s) (retagDB t db)
      = (retag t (mergeInit s db).1, retagDB t (mergeInit s db).2.1, retagM t (mergeInit s db).2.2) := rfl

theorem mergeIds_retag (t : Tag) (s : St) (db : DB) (order : List Nat) :
    mergeIds (retag t s) (retagDB t db) order = mergeIds s db order := rfl

theorem mergeFinish_retag (t : Tag) (n : Nat) (mname : String) (R : St × MergeSt) :
    mergeFinish n mname (retagSM t R) = (retag t (mergeFinish n mname R).1, (mergeFinish n mname R).2) := by
  obtain ⟨s, m⟩ := R
  obtain ⟨mdb, hint, failed⟩ := m
  cases failed <;> rfl

theorem mergeBody_retag (t : Tag) (s : St) (db : DB) (order : List Nat) :
    mergeBody (retag t s) (retagDB t db) order
      = (retag t (mergeBody s db order).1, (mergeBody s db order).2) := by
  unfold mergeBody
  simp only [mergeInit_retag, mergeIds_retag, retagDB_activeId, retagDB_dir]
  rw [show (retag t (mergeInit s db).1, retagM t (mergeInit s db).2.2)
        = retagSM t ((mergeInit s db).1, (mergeInit s db).2.2) from rfl,
    List.foldl_hom (retagSM t) (mergeFile_retag t (mergeInit s db).2.1 (mergeInit s db).2.1.activeId)]
  exact mergeFinish_retag t _ _ _

theorem merge_retag (t : Tag) (s : St) (order : List Nat) :
    merge (retag t s) order = (retag t (merge s order).1, (merge s order).2) := by
  obtain ⟨w, d⟩ := s
  cases d with
  | none => rfl
  | some db => exact mergeBody_retag t _ db order


@[simp] theorem retagCfg_fileSize (t : Tag) (c : Cfg) : (retagCfg t c).fileSize = c.fileSize := rfl

/-- the part of `Open` that does not look at the configuration at all: directory creation, lock
    test, merge adoption, hint file, index rebuild.  `inl` = failure (world, error), `inr` = success
    (world after adoption, directory, replay result, data files after tail truncation) -/
def openCore (w0 : World) (dir : String) : Sum (World × String) (World × DirSt × Replay × List (Nat × FileSt)) :=
  let w := if (w0.get dir).isNone then w0.set dir DirSt.empty else w0
  let d := (w.get dir).getD DirSt.empty
  if d.locked then .inl (w, "inuse") else
  let (w, nonMerge) := adopt w dir
  let d := (w.get dir).getD DirSt.empty
  let r0 : Replay := { index := [], reclaim := 0, total := 0, pending := [] }
  let hintRes : Option (Replay × Nat) :=
    if nonMerge > 0 then
      match loadHint r0 (d.hint.getD ByteArray.empty) with
      | some (r, maxFid) => some (r, min maxFid nonMerge)
      | none => none
    else some (r0, 0)
  match hintRes with
  | none => .inl (w, "crc")
  | some (r, nonMerge) =>
    let d := if nonMerge > 0 ∨ d.hint.isSome then d else d
    let hadFiles := !d.data.isEmpty
    let data := if hadFiles then d.data else [(0, (⟨ByteArray.empty, 0⟩ : FileSt))]
    match loadIndex r nonMerge data with
    | none => .inl (w.set dir d, "crc")
    | some (r, data) => .inr (w, d, r, data)

/-- `Open` consults the configuration in exactly two places: the `DataFileSize ≤ 0` check and the
    `cfg` field it stores in the new handle -/
theorem openDB_eq (s : St) (dir : String) (cfg : Cfg) :
    openDB s dir cfg =
      match s.db with
      | some _ => (s, .err "already-open")
      | none =>
        if cfg.fileSize = 0 ∨ cfg.bps > 16777216 ∨ (cfg.sync = 2 ∧ cfg.bps = 0) then (s, .err "options") else
        match openCore s.world dir with
        | .inl (w, e) => ({ s with world := w }, .err e)
        | .inr (w, d, r, data) =>
          ({ world := w.set dir { d with data := data, locked := true },
             db := some { cfg := cfg, dir := dir,
                          activeId := (match data.getLast? with
                            | some (i, _) => i
                            | none => 0),
                          index := r.index, reclaim := r.reclaim, total := r.total, bytesWrite := 0, batch := none } },
           .ok) := by
  unfold openDB openCore
  cases s.db with
  | some _ => rfl
  | none =>
    simp only []
    by_cases h0 : cfg.fileSize = 0 ∨ cfg.bps > 16777216 ∨ (cfg.sync = 2 ∧ cfg.bps = 0)
    · simp only [if_pos h0]
    · simp only [if_neg h0]
      generalize (if (s.world.get dir).isNone = true then s.world.set dir DirSt.empty else s.world) = w1
      by_cases hl : ((w1.get dir).getD DirSt.empty).locked = true
      · simp only [hl, if_true]
      · simp only [hl]
        generalize adopt w1 dir = A
        obtain ⟨w2, nm⟩ := A
        simp only []
        generalize (if nm > 0 then
            (match loadHint { index := [], reclaim := 0, total := 0, pending := [] }
                (((w2.get dir).getD DirSt.empty).hint.getD ByteArray.empty) with
              | some (r, maxFid) => some (r, min maxFid nm)
              | none => none)
            else some (({ index := [], reclaim := 0, total := 0, pending := [] } : Replay), 0)) = hr
        cases hr with
        | none => rfl
        | some x =>
          obtain ⟨r, nm2⟩ := x
          simp only []
          generalize loadIndex r nm2 _ = li
          cases li with
          | none => rfl
          | some y => rfl

theorem openDB_retag (t : Tag) (s : St) (dir : String) (cfg : Cfg) :
    openDB (retag t s) dir (retagCfg t cfg) = (retag t (openDB s dir cfg).1, (openDB s dir cfg).2) := by
  obtain ⟨w, d⟩ := s
  cases d with
  | some db => rfl
  | none =>
    rw [openDB_eq, openDB_eq]
    simp only [retag, Option.map_none, retagCfg_fileSize]
    have hb : (retagCfg t cfg).bps = cfg.bps := rfl
    have hs : (retagCfg t cfg).sync = cfg.sync := rfl
    rw [hb, hs]
    by_cases h0 : cfg.fileSize = 0 ∨ cfg.bps > 16777216 ∨ (cfg.sync = 2 ∧ cfg.bps = 0)
    · simp only [h0, if_true]; rfl
    · simp only [h0, if_false]
      cases openCore w dir with
      | inl x => rfl
      | inr x => rfl


/-! ### read-only queries do not look at the three fields -/

theorem listKeys_retag (t : Tag) (db : DB) : listKeys (retagDB t db) = listKeys db := rfl
theorem fold_retag (t : Tag) (s : St) (db : DB) : fold (retag t s) (retagDB t db) = fold s db := rfl
theorem stat_retag (t : Tag) (s : St) (db : DB) : stat (retag t s) (retagDB t db) = stat s db := rfl
theorem iterNew_retag (t : Tag) (db : DB) (pre : ByteArray) (rev : Bool) :
    iterNew (retagDB t db) pre rev = iterNew db pre rev := rfl
theorem absGet_retag (t : Tag) (s : St) (db : DB) (k : ByteArray) :
    absGet (retag t s) (retagDB t db) k = absGet s db k := rfl

/-- `Sim`-related open states have handles that are equal after retagging -/
theorem Sim.handles {s₁ s₂ : St} (h : Sim s₁ s₂) {db₁ db₂ : DB} (h₁ : s₁.db = some db₁) (h₂ : s₂.db = some db₂)
    (t : Tag) : retag t s₁ = retag t s₂ ∧ retagDB t db₁ = retagDB t db₂ := by
  have e := (sim_iff_retag t _ _).mp h
  refine ⟨e, ?_⟩
  have e2 := congrArg St.db e
  simp only [retag, h₁, h₂, Option.map_some, Option.some.injEq] at e2
  exact e2

/-- `Sim`-related states are open or closed together -/
theorem Sim.db_isSome {s₁ s₂ : St} (h : Sim s₁ s₂) : s₁.db.isSome = s₂.db.isSome := by
  have e := congrArg (fun s => s.db.isSome) ((sim_iff_retag (0, 0, 0) _ _).mp h)
  simpa [retag] using e

/-! ## Part B (C14): plain operations touch the handle's own directory only -/

theorem Fr_appendTail (s : St) (db : DB) (r : Record) :
    Fr db.dir s (appendTail s db r).1 ∧ (appendTail s db r).2.1.dir = db.dir := by
  unfold appendTail
  simp only []
  split
  · exact ⟨Fr_putFile s _ _ _, rfl⟩
  · exact ⟨Fr_putFile s _ _ _, rfl⟩

theorem Fr_appendLog (s : St) (db : DB) (r : Record) :
    Fr db.dir s (appendLog s db r).1 ∧ (appendLog s db r).2.1.dir = db.dir := by
  rw [appendLog_eq]
  split
  · obtain ⟨h1, h2⟩ := Fr_rotate s db
    obtain ⟨h3, h4⟩ := Fr_appendTail (rotate s db).1 (rotate s db).2 r
    rw [h2] at h3
    exact ⟨h1.trans h3, h4.trans h2⟩
  · exact Fr_appendTail s db r

theorem put_frame {s : St} {db : DB} (hs : s.db = some db) (k v : ByteArray) : Framed s (put s k v).1 db := by
  by_cases hk : k.size = 0
  · rw [put_keyempty s k v hk hs]; exact ⟨Fr.refl _ _, db, hs, rfl⟩
  · rw [put_eq hs k v hk]
    obtain ⟨h1, h2⟩ := Fr_appendLog s db { typ := 0, key := k, value := v, batch := 0 }
    exact ⟨h1, _, rfl, h2⟩

theorem delete_frame {s : St} {db : DB} (hs : s.db = some db) (k : ByteArray) : Framed s (delete s k).1 db := by
  by_cases hk : k.size = 0
  · rw [delete_keyempty s k hk hs]; exact ⟨Fr.refl _ _, db, hs, rfl⟩
  · cases hg : Index.get db.index k with
    | none => rw [delete_eq_none hs k hk hg]; exact ⟨Fr.refl _ _, db, hs, rfl⟩
    | some old =>
      rw [delete_eq_some hs k hk hg]
      obtain ⟨h1, h2⟩ := Fr_appendLog s db { typ := 1, key := k, value := ByteArray.empty, batch := 0 }
      exact ⟨h1, _, rfl, h2⟩

theorem get_state (s : St) (k : ByteArray) : (get s k).1 = s := by
  unfold get withDB
  cases s.db with
  | none => rfl
  | some db =>
    simp only []
    split
    · rfl
    · split <;> rfl

theorem syncDB_frame {s : St} {db : DB} (hs : s.db = some db) : Framed s (syncDB s).1 db := by
  unfold syncDB withDB
  rw [hs]
  exact ⟨Fr_putFile s db _ _, db, hs, rfl⟩


theorem step_frame {s : St} {db : DB} (hs : s.db = some db) (op : C01.Op) : Framed s (C01.step s op).1 db := by
  cases op with
  | put k v => exact put_frame hs k v
  | del k => exact delete_frame hs k
  | get k => simp only [C01.step, get_state]; exact ⟨Fr.refl _ _, db, hs, rfl⟩
  | sync => exact syncDB_frame hs

/-- a run of plain operations keeps the handle's directory and leaves every other directory alone -/
theorem run_frame (ops : List C01.Op) : ∀ {s : St} {db : DB}, s.db = some db → Framed s (C01.run s ops).1 db := by
  induction ops with
  | nil => intro s db hs; exact ⟨Fr.refl _ _, db, hs, rfl⟩
  | cons op ops ih =>
    intro s db hs
    have h1 := step_frame hs op
    obtain ⟨db1, hs1, _⟩ := h1.2
    exact h1.trans hs1 (ih hs1)


/-! ## Part C: the ghost directory is determined by the bytes

`Inv s db g` / `Files s db g` relate the data files to SOME ghost directory `g`.  For records
satisfying the size side conditions the encoding is injective and the framing is uniquely
parseable (`scan_build`), so `g` is unique: invariants stated for "the" ghost directory (C17's
`SizeInv`) do not depend on which witness a step theorem happens to produce. -/

theorem payloads_inj : ∀ {gf gf' : GFile}, (∀ r ∈ gf, RecOK r) → (∀ r ∈ gf', RecOK r) →
    payloads gf = payloads gf' → gf = gf' := by
  intro gf
  induction gf with
  | nil =>
    intro gf' _ _ h
    cases gf' with
    | nil => rfl
    | cons _ _ => simp [payloads] at h
  | cons a t ih =>
    intro gf' h1 h2 h
    cases gf' with
    | nil => simp [payloads] at h
    | cons b u =>
      simp only [payloads, List.map_cons, List.cons.injEq] at h
      have ha := (h1 a (by simp)).decode
      have hb := (h2 b (by simp)).decode
      rw [h.1, hb] at ha
      cases ha
      rw [ih (fun r hr => h1 r (by simp [hr])) (fun r hr => h2 r (by simp [hr])) h.2]

/-- a ghost file is determined by its bytes -/
theorem bytesOf_inj {gf gf' : GFile} (h1 : ∀ r ∈ gf, RecOK r) (h2 : ∀ r ∈ gf', RecOK r)
    (h : bytesOf gf = bytesOf gf') : gf = gf' := by
  have s1 := scan_build C false 0 (payloads gf) (Restart.payloads_pos gf)
  have s2 := scan_build C false 0 (payloads gf') (Restart.payloads_pos gf')
  have e : appendAll C ByteArray.empty (payloads gf) = appendAll C ByteArray.empty (payloads gf') := h
  rw [e, s2] at s1
  have e2 := congrArg (fun (r : ScanRes) => r.recs.map (·.1)) s1
  simp only [] at e2
  rw [List.map_fst_zip (by rw [length_posAll]; exact Nat.le_refl _),
    List.map_fst_zip (by rw [length_posAll]; exact Nat.le_refl _)] at e2
  exact payloads_inj h1 h2 e2.symm

theorem Matches_unique : ∀ {data : List (Nat × FileSt)} {g g' : GDir}, Matches data g → Matches data g' →
    (∀ x ∈ g, ∀ r ∈ x.2, RecOK r) → (∀ x ∈ g', ∀ r ∈ x.2, RecOK r) → g = g' := by
  intro data
  induction data with
  | nil =>
    intro g g' h h' _ _
    rw [Matches_nil_left h, Matches_nil_left h']
  | cons x data ih =>
    intro g g' h h' ho ho'
    obtain ⟨y, t, rfl, a1, a2, a3⟩ := Matches_cons_left h
    obtain ⟨y', t', rfl, b1, b2, b3⟩ := Matches_cons_left h'
    obtain ⟨i, gf⟩ := y
    obtain ⟨i', gf'⟩ := y'
    simp only at a1 a2 b1 b2
    have e1 : i = i' := a1.symm.trans b1
    have e2 : gf = gf' := bytesOf_inj (ho (i, gf) (by simp)) (ho' (i', gf') (by simp)) (a2.symm.trans b2)
    rw [e1, e2, ih a3 b3 (fun z hz => ho z (by simp [hz])) (fun z hz => ho' z (by simp [hz]))]

/-- **the ghost directory of an open database is unique** -/
theorem Files_unique {s : St} {db : DB} {g g' : GDir} (h : Files s db g) (h' : Files s db g') : g = g' := by
  obtain ⟨d, hd, _, hm⟩ := h.dir
  obtain ⟨d', hd', _, hm'⟩ := h'.dir
  rw [hd] at hd'
  cases hd'
  exact Matches_unique hm hm' h.recs h'.recs


/-- … it depends only on the world and the handle's directory -/
theorem Files_unique' {s s' : St} {db db' : DB} {g g' : GDir} (h : Files s db g) (h' : Files s' db' g')
    (hw : s'.world = s.world) (hd : db'.dir = db.dir) : g = g' := by
  obtain ⟨d, hd1, _, hm⟩ := h.dir
  obtain ⟨d', hd2, _, hm'⟩ := h'.dir
  rw [hw, hd, hd1] at hd2
  cases hd2
  exact Matches_unique hm hm' h.recs h'.recs

end XixiKV.Engine.PolicyP

/-!
# Durability policy: which bytes have been flushed when a call returns  (helper lemmas for C13)

`FileSt.synced` is the length of the prefix of a data file that the last `fsync`/`msync` covered.
This file defines

* `unsynced f` — number of bytes of `f` that are not yet covered by a flush;
* `DInv s db` — the *durability invariant* of an open handle, purely structural (no ghost state):
  the data directory ends with the active file, every file before it has a smaller id, every
  NON-active file is completely flushed (`Restart.OnlyLastCut`), and no flush mark exceeds its file;
* `AllSynced s db` — every data file of the handle's directory is completely flushed;
* `TInv s db u` — under the Threshold policy: the unflushed tail of the active file is at most the
  engine's own counter `bytesWrite` plus `u` bytes that the counter does not see.

and proves that every writer path of the model keeps `DInv`: `putFile` on the active file,
`rotate` (= Go `db.sync()`), `appendTail` / `appendLog` (= `appendLogRecord`), `flushTail` /
`flushStaged` / `flushAndRotate` (= `Batch.flushStaged`, `flushStagedAndUpdateFile`), the sealing
record (`sealFile`), and the top-level calls `put / delete / get / syncDB / bnew / bput / bget /
bdel / bcommit / bdrop`.
-/
namespace XixiKV.Engine.PolicyP.Dur
open XixiKV XixiKV.Frame XixiKV.Record XixiKV.Index XixiKV.Engine XixiKV.Engine.BatchP

/-! ## definitions -/

/-- bytes of a file not covered by the last flush -/
def unsynced (f : FileSt) : Nat := f.bytes.size - f.synced

/-- durability invariant over the data directory of the open handle: purely structural, no ghost
    state -/
structure DInv (s : St) (db : DB) : Prop where
  /-- the directory ends with the active file; all other ids are smaller -/
  shape : ∃ pre f, (dirOf s db).data = pre ++ [(db.activeId, f)] ∧ (∀ x ∈ pre, x.1 < db.activeId)
  /-- every non-active (= non-last) file is completely flushed -/
  older : Restart.OnlyLastCut (dirOf s db).data
  /-- a flush mark never exceeds the file -/
  le : ∀ x ∈ (dirOf s db).data, x.2.synced ≤ x.2.bytes.size

/-- every data file of the handle's directory is completely flushed -/
def AllSynced (s : St) (db : DB) : Prop := ∀ x ∈ (dirOf s db).data, x.2.synced = x.2.bytes.size

/-- Threshold accounting: the unflushed tail of the active file is bounded by the engine's counter
    plus `u` uncounted bytes -/
def TInv (s : St) (db : DB) (u : Nat) : Prop := unsynced (activeFile s db) ≤ db.bytesWrite + u

/-- a state with an open handle that satisfies the durability invariant -/
def Dur (s : St) : Prop := ∃ db, s.db = some db ∧ DInv s db

/-! ## the invariant depends on the handle through `dir` and `activeId` only -/

theorem dirOf_congr {s s' : St} {db db' : DB} (hw : s'.world = s.world) (hd : db'.dir = db.dir) :
    dirOf s' db' = dirOf s db := by
  simp only [dirOf, hw, hd]

theorem activeFile_congr {s s' : St} {db db' : DB} (hw : s'.world = s.world) (hd : db'.dir = db.dir)
    (ha : db'.activeId = db.activeId) : activeFile s' db' = activeFile s db := by
  simp only [activeFile, dirOf_congr hw hd, ha]

theorem DInv.congr {s s' : St} {db db' : DB} (h : DInv s db) (hw : s'.world = s.world) (hd : db'.dir = db.dir)
    (ha : db'.activeId = db.activeId) : DInv s' db' := by
  obtain ⟨h1, h2, h3⟩ := h
  refine ⟨?_, ?_, ?_⟩
  · rw [dirOf_congr hw hd, ha]; exact h1
  · rw [dirOf_congr hw hd]; exact h2
  · rw [dirOf_congr hw hd]; exact h3

theorem AllSynced.congr {s s' : St} {db db' : DB} (h : AllSynced s db) (hw : s'.world = s.world)
    (hd : db'.dir = db.dir) : AllSynced s' db' := by
  unfold AllSynced
  rw [dirOf_congr hw hd]; exact h

theorem TInv.congr {s s' : St} {db db' : DB} {u : Nat} (h : TInv s db u) (hw : s'.world = s.world)
    (hd : db'.dir = db.dir) (ha : db'.activeId = db.activeId) (hb : db'.bytesWrite = db.bytesWrite) :
    TInv s' db' u := by
  unfold TInv
  rw [activeFile_congr hw hd ha, hb]; exact h

theorem putFile_congr (s : St) {db db1 : DB} (hd : db1.dir = db.dir) (id : Nat) (f : FileSt) :
    putFile s db1 id f = putFile s db id f := by
  simp only [putFile, dirOf, hd]

/-! ## looking up files -/

theorem getFile_mid (pre rest : List (Nat × FileSt)) (id : Nat) (f : FileSt) (hlt : ∀ x ∈ pre, x.1 < id) :
    getFile (pre ++ (id, f) :: rest) id = some f := by
  induction pre with
  | nil => simp [getFile]
  | cons y t ih =>
    obtain ⟨i, g⟩ := y
    have hi : i < id := hlt (i, g) (by simp)
    simp only [List.cons_append, getFile]
    rw [if_neg (by omega)]
    exact ih (fun x hx => hlt x (by simp [hx]))

/-- `setFile` then `getFile` of the same id: holds for every list -/
theorem getFile_setFile_same (data : List (Nat × FileSt)) (id : Nat) (f : FileSt) :
    getFile (setFile data id f) id = some f := by
  induction data with
  | nil => simp [setFile, getFile]
  | cons y t ih =>
    obtain ⟨i, g⟩ := y
    simp only [setFile]
    by_cases e : i = id
    · rw [if_pos e]; simp only [getFile, if_pos e]
    · rw [if_neg e]
      by_cases e2 : id < i
      · rw [if_pos e2]; simp only [getFile, if_true]
      · rw [if_neg e2]; simp only [getFile, if_neg e]; exact ih

/-- the file just written through `putFile` is what the handle sees as its active file -/
theorem activeFile_putFile (s : St) (db : DB) (f : FileSt) :
    activeFile (putFile s db db.activeId f) db = f := by
  unfold activeFile
  rw [Restart.dirOf_putFile, getFile_setFile_same]; rfl

theorem active_of_shape {s : St} {db : DB} {pre : List (Nat × FileSt)} {f : FileSt}
    (hdata : (dirOf s db).data = pre ++ [(db.activeId, f)]) (hlt : ∀ x ∈ pre, x.1 < db.activeId) :
    activeFile s db = f := by
  unfold activeFile
  rw [hdata, getFile_mid pre [] db.activeId f hlt]; rfl

theorem DInv.active_mem {s : St} {db : DB} (h : DInv s db) :
    (db.activeId, activeFile s db) ∈ (dirOf s db).data := by
  obtain ⟨pre, f, hdata, hlt⟩ := h.shape
  rw [active_of_shape hdata hlt, hdata]; simp

theorem DInv.active_le {s : St} {db : DB} (h : DInv s db) :
    (activeFile s db).synced ≤ (activeFile s db).bytes.size :=
  h.le _ h.active_mem

/-- with the invariant, "the active file is flushed" means "everything is flushed" -/
theorem DInv.allSynced {s : St} {db : DB} (h : DInv s db)
    (ha : (activeFile s db).synced = (activeFile s db).bytes.size) : AllSynced s db := by
  obtain ⟨pre, f, hdata, hlt⟩ := h.shape
  have hf := active_of_shape hdata hlt
  have ho := h.older
  intro x hx
  rw [hdata] at hx ho
  rcases List.mem_append.mp hx with hx | hx
  · exact (Restart.OnlyLastCut_concat _ _).mp ho x hx
  · simp only [List.mem_singleton] at hx
    rw [hx]; rw [hf] at ha; exact ha

theorem AllSynced.active {s : St} {db : DB} (h : DInv s db) (ha : AllSynced s db) :
    (activeFile s db).synced = (activeFile s db).bytes.size := ha _ h.active_mem

theorem AllSynced.unsynced_zero {s : St} {db : DB} (h : DInv s db) (ha : AllSynced s db) :
    unsynced (activeFile s db) = 0 := by
  unfold unsynced; rw [ha.active h]; omega

/-! ## the two primitive writer steps: `putFile` on the active file, `rotate` -/

theorem DInv_putFile_active {s : St} {db db' : DB} {f' : FileSt} (h : DInv s db)
    (hle : f'.synced ≤ f'.bytes.size) (hd : db'.dir = db.dir) (ha : db'.activeId = db.activeId) :
    DInv (putFile s db db.activeId f') db' ∧ activeFile (putFile s db db.activeId f') db' = f' := by
  obtain ⟨pre, f, hdata, hlt⟩ := h.shape
  have hnew : (dirOf (putFile s db db.activeId f') db).data = pre ++ [(db.activeId, f')] := by
    rw [Restart.dirOf_putFile, hdata, Restart.setFile_last pre db.activeId f f' hlt]
  have hD : DInv (putFile s db db.activeId f') db := by
    refine ⟨⟨pre, f', hnew, hlt⟩, ?_, ?_⟩
    · have ho := h.older
      rw [hdata] at ho
      rw [hnew, Restart.OnlyLastCut_concat]
      exact (Restart.OnlyLastCut_concat _ _).mp ho
    · intro x hx
      rw [hnew] at hx
      rcases List.mem_append.mp hx with hx | hx
      · exact h.le x (by rw [hdata]; exact List.mem_append_left _ hx)
      · simp only [List.mem_singleton] at hx; rw [hx]; exact hle
  refine ⟨hD.congr rfl hd ha, ?_⟩
  rw [activeFile_congr rfl hd ha]
  exact activeFile_putFile s db f'

theorem rotate_handle (s : St) (db : DB) :
    (rotate s db).2 = { db with bytesWrite := 0, activeId := db.activeId + 1 } := rfl

theorem rotate_db (s : St) (db : DB) : (rotate s db).1.db = s.db := rfl

/-- **rotation** (`db.sync()`): the invariant is kept, the file the engine rotates away from is
    completely flushed, the new active file is empty -/
theorem DInv_rotate {s : St} {db : DB} (h : DInv s db) :
    DInv (rotate s db).1 (rotate s db).2 ∧
    getFile (dirOf (rotate s db).1 (rotate s db).2).data db.activeId
      = some ⟨(activeFile s db).bytes, (activeFile s db).bytes.size⟩ ∧
    activeFile (rotate s db).1 (rotate s db).2 = ⟨ByteArray.empty, 0⟩ := by
  obtain ⟨pre, f, hdata, hlt⟩ := h.shape
  have hf := active_of_shape hdata hlt
  obtain ⟨hnew, hcut⟩ := Restart.OnlyLastCut_rotate s db pre f hdata hlt h.older
  have hlt' : ∀ x ∈ pre ++ [(db.activeId, ({ f with synced := f.bytes.size } : FileSt))],
      x.1 < (rotate s db).2.activeId := by
    intro x hx
    show x.1 < db.activeId + 1
    rcases List.mem_append.mp hx with hx | hx
    · have := hlt x hx; omega
    · simp only [List.mem_singleton] at hx; rw [hx]; exact Nat.lt_succ_self _
  refine ⟨⟨⟨_, _, hnew, hlt'⟩, hcut, ?_⟩, ?_, ?_⟩
  · intro x hx
    rw [hnew] at hx
    simp only [List.mem_append, List.mem_singleton] at hx
    rcases hx with (hx | hx) | hx
    · exact h.le x (by rw [hdata]; exact List.mem_append_left _ hx)
    · rw [hx]; exact Nat.le_refl _
    · rw [hx]; exact Nat.le_refl _
  · rw [hnew, List.append_assoc, hf]
    exact getFile_mid pre _ db.activeId _ hlt
  · exact active_of_shape hnew hlt'

/-! ## sizes only grow -/

theorem size_appendRec_ge (f d : ByteArray) : f.size ≤ (appendRec C f d).size := by
  unfold appendRec
  rw [ByteArray.size_append]; omega

theorem size_appendAll_ge (f : ByteArray) (ds : List ByteArray) : f.size ≤ (appendAll C f ds).size := by
  obtain ⟨tl, h⟩ := Frame.appendAll_split C ds f
  rw [h, ByteArray.size_append]; omega

theorem padOf_le (o : Nat) (ho : o < BS) : padOf o ≤ 7 := by
  have hBS := Frame.hBS
  have hH := Frame.hH
  unfold padOf
  split <;> omega

theorem padOf_zero : padOf 0 = 0 := by
  have hBS := Frame.hBS
  have hH := Frame.hH
  unfold padOf
  rw [if_neg (by omega)]

/-- **what one append adds to a file**: block padding (at most 7 bytes, none in an empty file) plus
    exactly the `size` the writer reports in the position — the number `appendLogRecord` adds to
    `bytesWrite` -/
theorem size_appendRec_pos (fid : Nat) (f d : ByteArray) :
    (appendRec C f d).size = f.size + padOf (f.size % BS) + (posOf C fid f.size d).size := by
  obtain ⟨h1, h2⟩ := Frame.posOf_geom C fid f d
  rw [h2, h1]
  rfl

theorem size_appendRec_le (fid : Nat) (f d : ByteArray) :
    (appendRec C f d).size ≤ f.size + 7 + (posOf C fid f.size d).size := by
  have := size_appendRec_pos fid f d
  have := padOf_le (f.size % BS) (Frame.mod_lt_BS _)
  omega

theorem size_appendRec_empty (fid : Nat) (d : ByteArray) :
    (appendRec C ByteArray.empty d).size = (posOf C fid ByteArray.empty.size d).size := by
  have h := size_appendRec_pos fid ByteArray.empty d
  have h0 : ByteArray.empty.size = 0 := rfl
  rw [h0] at h ⊢
  rw [h, Nat.zero_mod, padOf_zero]; omega

/-! ## `appendLogRecord` -/

/-- the sync decision of `appendLogRecord` for a record whose reported size is `n` -/
def doSync (db : DB) (n : Nat) : Prop := db.cfg.sync = 1 ∨ (db.cfg.sync = 2 ∧ db.bytesWrite + n ≥ db.cfg.bps)

instance (db : DB) (n : Nat) : Decidable (doSync db n) := by unfold doSync; exact inferInstance

/-- what `appendLogRecord` (after its rotation decision) does to the files and the handle, in
    durability terms: `(s', db', pos)` is the outcome of appending `r` in state `(s, db)` -/
structure Appended (s : St) (db : DB) (r : Record) (s' : St) (db' : DB) (pos : Pos) : Prop where
  dinv : DInv s' db'
  sdb : s'.db = s.db
  cfg : db'.cfg = db.cfg
  dir : db'.dir = db.dir
  activeId : db'.activeId = db.activeId
  batch : db'.batch = db.batch
  index : db'.index = db.index
  pos_eq : pos = posOf C db.activeId (activeFile s db).bytes.size (encodeRecord r)
  bytes : (activeFile s' db').bytes = appendRec C (activeFile s db).bytes (encodeRecord r)
  /-- the policy asked for a flush: the whole active file is flushed, the counter restarts -/
  sync : doSync db pos.size →
    (activeFile s' db').synced = (activeFile s' db').bytes.size ∧ db'.bytesWrite = 0
  /-- no flush: the flush mark stays, the counter grows by exactly the reported size -/
  nosync : ¬ doSync db pos.size →
    (activeFile s' db').synced = (activeFile s db).synced ∧ db'.bytesWrite = db.bytesWrite + pos.size

/-- the handle after an append that was flushed / only counted -/
def syncedDB (db : DB) (n : Nat) : DB := { db with total := db.total + n, bytesWrite := 0 }
def countedDB (db : DB) (n : Nat) : DB := { db with total := db.total + n, bytesWrite := db.bytesWrite + n }

theorem appendTail_dur {s : St} {db : DB} (h : DInv s db) (r : Record) :
    Appended s db r (appendTail s db r).1 (appendTail s db r).2.1 (appendTail s db r).2.2 := by
  have hle := h.active_le
  have hge := size_appendRec_ge (activeFile s db).bytes (encodeRecord r)
  by_cases hs : doSync db (posOf C db.activeId (activeFile s db).bytes.size (encodeRecord r)).size
  · have hs' : db.cfg.sync = 1 ∨ (db.cfg.sync = 2 ∧ db.bytesWrite
        + (posOf C db.activeId (activeFile s db).bytes.size (encodeRecord r)).size ≥ db.cfg.bps) := hs
    have e : appendTail s db r =
        (putFile s db db.activeId ⟨appendRec C (activeFile s db).bytes (encodeRecord r),
            (appendRec C (activeFile s db).bytes (encodeRecord r)).size⟩,
          syncedDB db (posOf C db.activeId (activeFile s db).bytes.size (encodeRecord r)).size,
          posOf C db.activeId (activeFile s db).bytes.size (encodeRecord r)) := by
      unfold appendTail
      simp only [if_pos hs']
      rfl
    rw [e]
    obtain ⟨h1, h2⟩ := DInv_putFile_active (f' := ⟨appendRec C (activeFile s db).bytes (encodeRecord r),
            (appendRec C (activeFile s db).bytes (encodeRecord r)).size⟩)
      (db' := syncedDB db (posOf C db.activeId (activeFile s db).bytes.size (encodeRecord r)).size)
      h (Nat.le_refl _) rfl rfl
    exact ⟨h1, rfl, rfl, rfl, rfl, rfl, rfl, rfl, by rw [h2], fun _ => ⟨by rw [h2], rfl⟩,
      fun hn => absurd hs hn⟩
  · have hs' : ¬ (db.cfg.sync = 1 ∨ (db.cfg.sync = 2 ∧ db.bytesWrite
        + (posOf C db.activeId (activeFile s db).bytes.size (encodeRecord r)).size ≥ db.cfg.bps)) := hs
    have e : appendTail s db r =
        (putFile s db db.activeId ⟨appendRec C (activeFile s db).bytes (encodeRecord r), (activeFile s db).synced⟩,
          countedDB db (posOf C db.activeId (activeFile s db).bytes.size (encodeRecord r)).size,
          posOf C db.activeId (activeFile s db).bytes.size (encodeRecord r)) := by
      unfold appendTail
      simp only [if_neg hs']
      rfl
    rw [e]
    obtain ⟨h1, h2⟩ := DInv_putFile_active
      (f' := ⟨appendRec C (activeFile s db).bytes (encodeRecord r), (activeFile s db).synced⟩)
      (db' := countedDB db (posOf C db.activeId (activeFile s db).bytes.size (encodeRecord r)).size)
      h (Nat.le_trans hle hge) rfl rfl
    exact ⟨h1, rfl, rfl, rfl, rfl, rfl, rfl, rfl, by rw [h2], fun hy => absurd hy hs,
      fun _ => ⟨by rw [h2], rfl⟩⟩

theorem DInv_appendTail {s : St} {db : DB} (h : DInv s db) (r : Record) :
    DInv (appendTail s db r).1 (appendTail s db r).2.1 := (appendTail_dur h r).dinv

/-- the state in which `appendLogRecord` performs its write: after the rotation, if one is due -/
def preS (s : St) (db : DB) (r : Record) : St :=
  if (activeFile s db).bytes.size + diskSizeEstimate r.key.size r.value.size > db.cfg.fileSize
  then (rotate s db).1 else s

def preDB (s : St) (db : DB) (r : Record) : DB :=
  if (activeFile s db).bytes.size + diskSizeEstimate r.key.size r.value.size > db.cfg.fileSize
  then (rotate s db).2 else db

theorem appendLog_pre (s : St) (db : DB) (r : Record) :
    appendLog s db r = appendTail (preS s db r) (preDB s db r) r := by
  rw [appendLog_eq]
  unfold preS preDB
  split <;> rfl

/-- the state before the write: either nothing happened, or a rotation did — the old active file is
    then completely flushed, the new one is empty and the counter is 0 -/
theorem pre_dur {s : St} {db : DB} (h : DInv s db) (r : Record) :
    DInv (preS s db r) (preDB s db r) ∧ (preS s db r).db = s.db ∧
    (preDB s db r).cfg = db.cfg ∧ (preDB s db r).dir = db.dir ∧ (preDB s db r).batch = db.batch ∧
    (preDB s db r).index = db.index ∧
    ((preS s db r = s ∧ preDB s db r = db) ∨
     (preS s db r = (rotate s db).1 ∧ preDB s db r = (rotate s db).2 ∧
      activeFile (preS s db r) (preDB s db r) = ⟨ByteArray.empty, 0⟩ ∧ (preDB s db r).bytesWrite = 0 ∧
      (preDB s db r).activeId = db.activeId + 1)) := by
  unfold preS preDB
  split
  · obtain ⟨h1, _, h3⟩ := DInv_rotate h
    exact ⟨h1, rfl, rfl, rfl, rfl, rfl, Or.inr ⟨rfl, rfl, h3, rfl, rfl⟩⟩
  · exact ⟨h, rfl, rfl, rfl, rfl, rfl, Or.inl ⟨rfl, rfl⟩⟩

/-- **`appendLogRecord` keeps the durability invariant** (with or without rotation) -/
theorem appendLog_dur {s : St} {db : DB} (h : DInv s db) (r : Record) :
    Appended (preS s db r) (preDB s db r) r (appendLog s db r).1 (appendLog s db r).2.1 (appendLog s db r).2.2 := by
  rw [appendLog_pre]
  exact appendTail_dur (pre_dur h r).1 r

theorem DInv_appendLog {s : St} {db : DB} (h : DInv s db) (r : Record) :
    DInv (appendLog s db r).1 (appendLog s db r).2.1 := (appendLog_dur h r).dinv

/-! ## `Put`, `Delete`, `Get`, `Sync` -/

/-- the state and handle `Put` returns, in terms of `appendLog` -/
theorem put_state {s : St} {db : DB} (hs : s.db = some db) (k v : ByteArray) (hk : k.size ≠ 0) :
    (put s k v).2 = .ok ∧
    (put s k v).1.db = some (putDB (appendLog s db { typ := 0, key := k, value := v, batch := 0 }) k) ∧
    (put s k v).1.world = (appendLog s db { typ := 0, key := k, value := v, batch := 0 }).1.world := by
  rw [put_eq hs k v hk]
  exact ⟨rfl, rfl, rfl⟩

theorem putDB_fields (a : St × DB × Pos) (k : ByteArray) :
    (putDB a k).cfg = a.2.1.cfg ∧ (putDB a k).dir = a.2.1.dir ∧ (putDB a k).activeId = a.2.1.activeId ∧
    (putDB a k).bytesWrite = a.2.1.bytesWrite ∧ (putDB a k).batch = a.2.1.batch :=
  ⟨rfl, rfl, rfl, rfl, rfl⟩

theorem delete_state {s : St} {db : DB} (hs : s.db = some db) (k : ByteArray) (hk : k.size ≠ 0) {old : Pos}
    (hg : Index.get db.index k = some old) :
    (delete s k).2 = .ok ∧
    (delete s k).1.db = some (delDB (appendLog s db { typ := 1, key := k, value := ByteArray.empty, batch := 0 }) k old) ∧
    (delete s k).1.world = (appendLog s db { typ := 1, key := k, value := ByteArray.empty, batch := 0 }).1.world := by
  rw [delete_eq_some hs k hk hg]
  exact ⟨rfl, rfl, rfl⟩

theorem delDB_fields (a : St × DB × Pos) (k : ByteArray) (old : Pos) :
    (delDB a k old).cfg = a.2.1.cfg ∧ (delDB a k old).dir = a.2.1.dir ∧ (delDB a k old).activeId = a.2.1.activeId ∧
    (delDB a k old).bytesWrite = a.2.1.bytesWrite ∧ (delDB a k old).batch = a.2.1.batch :=
  ⟨rfl, rfl, rfl, rfl, rfl⟩

theorem get_state (s : St) (k : ByteArray) : (get s k).1 = s := by
  unfold get withDB
  cases s.db with
  | none => rfl
  | some db =>
    simp only []
    split
    · rfl
    · split <;> rfl

theorem syncDB_eq {s : St} {db : DB} (hs : s.db = some db) :
    syncDB s = (putFile s db db.activeId ⟨(activeFile s db).bytes, (activeFile s db).bytes.size⟩, .ok) := by
  unfold syncDB withDB
  rw [hs]

theorem Dur_put {s : St} (h : Dur s) (k v : ByteArray) : Dur (put s k v).1 := by
  obtain ⟨db, hs, hd⟩ := h
  by_cases hk : k.size = 0
  · rw [put_keyempty s k v hk hs]; exact ⟨db, hs, hd⟩
  · obtain ⟨_, h2, h3⟩ := put_state hs k v hk
    exact ⟨_, h2, (DInv_appendLog hd _).congr h3 rfl rfl⟩

theorem Dur_delete {s : St} (h : Dur s) (k : ByteArray) : Dur (delete s k).1 := by
  obtain ⟨db, hs, hd⟩ := h
  by_cases hk : k.size = 0
  · rw [delete_keyempty s k hk hs]; exact ⟨db, hs, hd⟩
  · cases hg : Index.get db.index k with
    | none => rw [delete_eq_none hs k hk hg]; exact ⟨db, hs, hd⟩
    | some old =>
      obtain ⟨_, h2, h3⟩ := delete_state hs k hk hg
      exact ⟨_, h2, (DInv_appendLog hd _).congr h3 rfl rfl⟩

theorem Dur_get {s : St} (h : Dur s) (k : ByteArray) : Dur (get s k).1 := by
  rw [get_state]; exact h

/-- `Sync()`: the invariant is kept and the active file is completely flushed -/
theorem syncDB_dur {s : St} {db : DB} (hs : s.db = some db) (hd : DInv s db) :
    (syncDB s).2 = .ok ∧ (syncDB s).1.db = some db ∧ DInv (syncDB s).1 db ∧ AllSynced (syncDB s).1 db := by
  rw [syncDB_eq hs]
  obtain ⟨h1, h2⟩ := DInv_putFile_active (f' := ⟨(activeFile s db).bytes, (activeFile s db).bytes.size⟩)
    (db' := db) hd (Nat.le_refl _) rfl rfl
  exact ⟨rfl, hs, h1, h1.allSynced (by rw [h2])⟩

theorem Dur_syncDB {s : St} (h : Dur s) : Dur (syncDB s).1 := by
  obtain ⟨db, hs, hd⟩ := h
  obtain ⟨_, h2, h3, _⟩ := syncDB_dur hs hd
  exact ⟨db, h2, h3⟩

/-! ## batch flushes: `flushStaged`, `flushStagedAndUpdateFile`, the sealing record -/

/-- the payloads a flush of batch `b` writes -/
def flushPayloads (b : BatchSt) : List ByteArray :=
  b.staged.map (fun r => encodeRecord { typ := r.typ, key := r.key, value := r.value, batch := b.id })

/-- what `Batch.flushStaged` (after its rotation decision) does, in durability terms -/
structure FlushedDur (s : St) (db : DB) (b : BatchSt) (s' : St) (db' : DB) (b' : BatchSt) : Prop where
  dinv : DInv s' db'
  sdb : s'.db = s.db
  cfg : db'.cfg = db.cfg
  dir : db'.dir = db.dir
  activeId : db'.activeId = db.activeId
  bytesWrite : db'.bytesWrite = db.bytesWrite
  batch : db'.batch = db.batch
  bat : b' = { b with staged := [], cached := 0 }
  bytes : (activeFile s' db').bytes = appendAll C (activeFile s db).bytes (flushPayloads b)
  /-- a `Sync` batch flushes the whole active file -/
  sync : b.sync = true → (activeFile s' db').synced = (activeFile s' db').bytes.size
  /-- otherwise the flush mark stays where it was -/
  nosync : b.sync = false → (activeFile s' db').synced = (activeFile s db).synced

theorem flushTail_eq (s : St) (db : DB) (b : BatchSt) :
    flushTail s db b =
      (putFile s db db.activeId
          ⟨appendAll C (activeFile s db).bytes (flushPayloads b),
            if b.sync then (appendAll C (activeFile s db).bytes (flushPayloads b)).size else (activeFile s db).synced⟩,
        applyAllStaged db (b.staged.zip (posAll C db.activeId (activeFile s db).bytes (flushPayloads b))),
        { b with staged := [], cached := 0 }) := rfl

theorem flushTail_dur {s : St} {db : DB} (h : DInv s db) (b : BatchSt) :
    FlushedDur s db b (flushTail s db b).1 (flushTail s db b).2.1 (flushTail s db b).2.2 := by
  have hle := h.active_le
  have hge := size_appendAll_ge (activeFile s db).bytes (flushPayloads b)
  rw [flushTail_eq]
  obtain ⟨a1, a2, a3, a4, a5⟩ := applyAllStaged_rest
    (b.staged.zip (posAll C db.activeId (activeFile s db).bytes (flushPayloads b))) db
  obtain ⟨h1, h2⟩ := DInv_putFile_active
    (f' := ⟨appendAll C (activeFile s db).bytes (flushPayloads b),
            if b.sync then (appendAll C (activeFile s db).bytes (flushPayloads b)).size else (activeFile s db).synced⟩)
    (db' := applyAllStaged db (b.staged.zip (posAll C db.activeId (activeFile s db).bytes (flushPayloads b))))
    h (by show (if b.sync then _ else _) ≤ _
          split
          · exact Nat.le_refl _
          · exact Nat.le_trans hle hge) a2 a3
  refine ⟨h1, rfl, a1, a2, a3, a4, a5, rfl, by rw [h2], ?_, ?_⟩
  · intro hb; rw [h2]; simp only [hb, if_true]
  · intro hb; rw [h2]; simp only [hb, Bool.false_eq_true, if_false]

theorem DInv_flushTail {s : St} {db : DB} (h : DInv s db) (b : BatchSt) :
    DInv (flushTail s db b).1 (flushTail s db b).2.1 := (flushTail_dur h b).dinv

/-- the state in which `flushStaged` performs its write: after the pre-rotation, if one is due -/
def fpreS (s : St) (db : DB) (b : BatchSt) : St :=
  if !b.staged.isEmpty ∧ (activeFile s db).bytes.size > 0 ∧
      (activeFile s db).bytes.size + b.cached + maxFinRecord > db.cfg.fileSize
  then (rotate s db).1 else s

def fpreDB (s : St) (db : DB) (b : BatchSt) : DB :=
  if !b.staged.isEmpty ∧ (activeFile s db).bytes.size > 0 ∧
      (activeFile s db).bytes.size + b.cached + maxFinRecord > db.cfg.fileSize
  then (rotate s db).2 else db

theorem flushStaged_pre (s : St) (db : DB) (b : BatchSt) :
    flushStaged s db b = flushTail (fpreS s db b) (fpreDB s db b) b := by
  rw [flushStaged_eq]
  unfold fpreS fpreDB
  split <;> rfl

theorem fpre_dur {s : St} {db : DB} (h : DInv s db) (b : BatchSt) :
    DInv (fpreS s db b) (fpreDB s db b) ∧ (fpreS s db b).db = s.db ∧
    (fpreDB s db b).cfg = db.cfg ∧ (fpreDB s db b).dir = db.dir ∧ (fpreDB s db b).batch = db.batch ∧
    ((fpreS s db b = s ∧ fpreDB s db b = db) ∨
     (fpreS s db b = (rotate s db).1 ∧ fpreDB s db b = (rotate s db).2 ∧
      activeFile (fpreS s db b) (fpreDB s db b) = ⟨ByteArray.empty, 0⟩)) := by
  unfold fpreS fpreDB
  split
  · obtain ⟨h1, _, h3⟩ := DInv_rotate h
    exact ⟨h1, rfl, rfl, rfl, rfl, Or.inr ⟨rfl, rfl, h3⟩⟩
  · exact ⟨h, rfl, rfl, rfl, rfl, Or.inl ⟨rfl, rfl⟩⟩

/-- **`Batch.flushStaged` keeps the durability invariant** (with or without the pre-rotation) -/
theorem flushStaged_dur {s : St} {db : DB} (h : DInv s db) (b : BatchSt) :
    FlushedDur (fpreS s db b) (fpreDB s db b) b
      (flushStaged s db b).1 (flushStaged s db b).2.1 (flushStaged s db b).2.2 := by
  rw [flushStaged_pre]
  exact flushTail_dur (fpre_dur h b).1 b

theorem DInv_flushStaged {s : St} {db : DB} (h : DInv s db) (b : BatchSt) :
    DInv (flushStaged s db b).1 (flushStaged s db b).2.1 := (flushStaged_dur h b).dinv

theorem flushStaged_batch (s : St) (db : DB) (b : BatchSt) :
    (flushStaged s db b).2.2 = { b with staged := [], cached := 0 } := by
  rw [flushStaged_pre]; rfl

theorem flushStaged_handle {s : St} {db : DB} (h : DInv s db) (b : BatchSt) :
    (flushStaged s db b).1.db = s.db ∧ (flushStaged s db b).2.1.cfg = db.cfg ∧
    (flushStaged s db b).2.1.dir = db.dir ∧ (flushStaged s db b).2.1.batch = db.batch := by
  have hf := flushStaged_dur h b
  obtain ⟨_, p2, p3, p4, p5, _⟩ := fpre_dur h b
  exact ⟨hf.sdb.trans p2, hf.cfg.trans p3, hf.dir.trans p4, hf.batch.trans p5⟩

/-- **`flushStagedAndUpdateFile`**: flush, then rotate — afterwards EVERYTHING is flushed (the
    rotation syncs the file the batch records went to) and the active file is empty -/
theorem flushAndRotate_dur {s : St} {db : DB} (h : DInv s db) (b : BatchSt) :
    DInv (flushAndRotate s db b).1 (flushAndRotate s db b).2.1 ∧
    AllSynced (flushAndRotate s db b).1 (flushAndRotate s db b).2.1 ∧
    activeFile (flushAndRotate s db b).1 (flushAndRotate s db b).2.1 = ⟨ByteArray.empty, 0⟩ ∧
    (flushAndRotate s db b).1.db = s.db ∧ (flushAndRotate s db b).2.1.cfg = db.cfg ∧
    (flushAndRotate s db b).2.1.dir = db.dir ∧ (flushAndRotate s db b).2.1.batch = db.batch ∧
    (flushAndRotate s db b).2.1.bytesWrite = 0 ∧
    (flushAndRotate s db b).2.2 = { b with staged := [], cached := 0 } := by
  rw [flushAndRotate_eq]
  obtain ⟨h1, _, h3⟩ := DInv_rotate (DInv_flushStaged h b)
  obtain ⟨q1, q2, q3, q4⟩ := flushStaged_handle h b
  refine ⟨h1, h1.allSynced (by rw [h3]; rfl), h3, q1, q2, q3, q4, rfl, flushStaged_batch s db b⟩

theorem DInv_flushAndRotate {s : St} {db : DB} (h : DInv s db) (b : BatchSt) :
    DInv (flushAndRotate s db b).1 (flushAndRotate s db b).2.1 := (flushAndRotate_dur h b).1

theorem sealFile_dur {s : St} {db : DB} (h : DInv s db) (b : BatchSt) :
    DInv (sealFile s db b) db ∧ (sealFile s db b).db = s.db ∧
    (activeFile (sealFile s db b) db).bytes = appendRec C (activeFile s db).bytes (encodeRecord (finRec b.id)) ∧
    (b.sync = true → (activeFile (sealFile s db b) db).synced = (activeFile (sealFile s db b) db).bytes.size) ∧
    (b.sync = false → (activeFile (sealFile s db b) db).synced = (activeFile s db).synced) := by
  have hle := h.active_le
  have hge := size_appendRec_ge (activeFile s db).bytes (encodeRecord (finRec b.id))
  unfold sealFile
  obtain ⟨h1, h2⟩ := DInv_putFile_active
    (f' := ⟨appendRec C (activeFile s db).bytes (encodeRecord (finRec b.id)),
      if b.sync then (appendRec C (activeFile s db).bytes (encodeRecord (finRec b.id))).size
                else (activeFile s db).synced⟩) (db' := db) h
    (by show (if b.sync then _ else _) ≤ _
        split
        · exact Nat.le_refl _
        · exact Nat.le_trans hle hge) rfl rfl
  refine ⟨h1, rfl, by rw [h2], ?_, ?_⟩
  · intro hb; rw [h2]; simp only [hb, if_true]
  · intro hb; rw [h2]; simp only [hb, Bool.false_eq_true, if_false]

/-! ## the staging calls `Batch.Put` / `Batch.Delete`: a walk through all branches -/

/-- the possible outcomes `s'` of a staging call on state `s` with handle `db` and open batch `b`:
    nothing changed (allowed only when `must` does not hold), only the staging area changed, or
    `flushStagedAndUpdateFile` ran first.  In the last two cases the new staging area is not empty
    and the batch keeps its `Sync` option, `committed` flag and id. -/
inductive StageOut (s : St) (db : DB) (b : BatchSt) (must : Prop) (s' : St) : Prop
  | same (h : s' = s) (hm : ¬ must)
  | staged (b' : BatchSt) (h : s' = { s with db := some { db with batch := some b' } })
      (hne : b'.staged ≠ []) (hsync : b'.sync = b.sync) (hc : b'.committed = b.committed) (hid : b'.id = b.id)
  | flushed (b' : BatchSt)
      (h : s' = { (flushAndRotate s db b).1 with db := some { (flushAndRotate s db b).2.1 with batch := some b' } })
      (hne : b'.staged ≠ []) (hsync : b'.sync = (flushAndRotate s db b).2.2.sync)
      (hc : b'.committed = (flushAndRotate s db b).2.2.committed) (hid : b'.id = (flushAndRotate s db b).2.2.id)

theorem findStaged_ne_nil {l : List Staged} {k : ByteArray} {r : Staged} (h : findStaged l k = some r) : l ≠ [] := by
  intro e; subst e; simp [findStaged] at h

theorem map_ne_nil {α β : Type} {l : List α} (f : α → β) (h : l ≠ []) : l.map f ≠ [] := by
  cases l with
  | nil => exact absurd rfl h
  | cons a t => simp

theorem bput_nobatch {s : St} {db : DB} (hs : s.db = some db) (hb : db.batch = none) (k v : ByteArray) :
    (bput s k v).1 = s := by
  unfold bput withBatch
  simp only [hs, hb]

theorem bdel_nobatch {s : St} {db : DB} (hs : s.db = some db) (hb : db.batch = none) (k : ByteArray) :
    (bdel s k).1 = s := by
  unfold bdel withBatch
  simp only [hs, hb]

theorem bcommit_nobatch {s : St} {db : DB} (hs : s.db = some db) (hb : db.batch = none) :
    (bcommit s).1 = s := by
  unfold bcommit withBatch
  simp only [hs, hb]

/-- all branches of `Batch.Put` -/
theorem bput_out {s : St} {db : DB} {b : BatchSt} (hs : s.db = some db) (hb : db.batch = some b) (k v : ByteArray) :
    StageOut s db b (k.size ≠ 0 ∧ b.committed = false) (bput s k v).1 := by
  unfold bput
  rw [withBatch_eq hs hb]
  by_cases hk : k.size = 0
  · simp only [if_pos hk]; exact .same rfl (fun h => h.1 hk)
  · simp only [if_neg hk]
    by_cases hc : b.committed = true
    · simp only [if_pos hc]; exact .same rfl (fun h => by rw [hc] at h; exact absurd h.2 (by simp))
    · simp only [if_neg hc]
      cases hf : findStaged b.staged k with
      | none =>
        simp only []
        by_cases hcond : b.cached + diskSizeEstimate k.size v.size + maxFinRecord > db.cfg.fileSize
        · simp only [if_pos hcond]
          exact .flushed _ rfl (by simp) rfl rfl rfl
        · simp only [if_neg hcond]
          exact .staged _ rfl (by simp) rfl rfl rfl
      | some r =>
        simp only []
        split
        · exact .flushed _ rfl (by simp) rfl rfl rfl
        · exact .staged _ rfl (map_ne_nil _ (findStaged_ne_nil hf)) rfl rfl rfl

/-- all branches of `Batch.Delete` -/
theorem bdel_out {s : St} {db : DB} {b : BatchSt} (hs : s.db = some db) (hb : db.batch = some b) (k : ByteArray) :
    StageOut s db b False (bdel s k).1 := by
  unfold bdel
  rw [withBatch_eq hs hb]
  by_cases hk : k.size = 0
  · simp only [if_pos hk]; exact .same rfl (fun h => h)
  · simp only [if_neg hk]
    by_cases hc : b.committed = true
    · simp only [if_pos hc]; exact .same rfl (fun h => h)
    · simp only [if_neg hc]
      cases hf : findStaged b.staged k with
      | some r =>
        simp only []
        exact .staged _ rfl (map_ne_nil _ (findStaged_ne_nil hf)) rfl rfl rfl
      | none =>
        simp only []
        cases Index.get db.index k with
        | none => exact .same rfl (fun h => h)
        | some old =>
          simp only []
          by_cases hcond : b.cached + diskSizeEstimate k.size 0 + maxFinRecord > db.cfg.fileSize
          · simp only [if_pos hcond]
            exact .flushed _ rfl (by simp) rfl rfl rfl
          · simp only [if_neg hcond]
            exact .staged _ rfl (by simp) rfl rfl rfl

theorem StageOut.dur {s s' : St} {db : DB} {b : BatchSt} {must : Prop} (hs : s.db = some db) (h : DInv s db)
    (o : StageOut s db b must s') : Dur s' := by
  cases o with
  | same e _ => rw [e]; exact ⟨db, hs, h⟩
  | staged b' e _ _ _ _ => rw [e]; exact ⟨_, rfl, h.congr rfl rfl rfl⟩
  | flushed b' e _ _ _ _ => rw [e]; exact ⟨_, rfl, (flushAndRotate_dur h b).1.congr rfl rfl rfl⟩

/-! ## every batch call keeps the invariant -/

theorem Dur_bnew {s : St} (h : Dur s) (sync : Bool) (id : Nat) : Dur (bnew s sync id).1 := by
  obtain ⟨db, hs, hd⟩ := h
  rw [bnew_eq hs]
  exact ⟨_, rfl, hd.congr rfl rfl rfl⟩

theorem Dur_bdrop {s : St} (h : Dur s) : Dur (bdrop s).1 := by
  obtain ⟨db, hs, hd⟩ := h
  rw [bdrop_eq hs]
  exact ⟨_, rfl, hd.congr rfl rfl rfl⟩

theorem Dur_bget {s : St} (h : Dur s) (k : ByteArray) : Dur (bget s k).1 := by
  rw [bget_state]; exact h

theorem Dur_bput {s : St} (h : Dur s) (k v : ByteArray) : Dur (bput s k v).1 := by
  obtain ⟨db, hs, hd⟩ := h
  cases hb : db.batch with
  | none => rw [bput_nobatch hs hb]; exact ⟨db, hs, hd⟩
  | some b => exact (bput_out hs hb k v).dur hs hd

theorem Dur_bdel {s : St} (h : Dur s) (k : ByteArray) : Dur (bdel s k).1 := by
  obtain ⟨db, hs, hd⟩ := h
  cases hb : db.batch with
  | none => rw [bdel_nobatch hs hb]; exact ⟨db, hs, hd⟩
  | some b => exact (bdel_out hs hb k).dur hs hd

/-- `Commit` of a non-empty staging area, in durability terms.  `F` = the outcome of the flush. -/
theorem bcommit_nonempty_dur {s : St} {db : DB} {b : BatchSt} (hs : s.db = some db) (hb : db.batch = some b)
    (hc : b.committed = false) (he : b.staged ≠ []) (hd : DInv s db) :
    (bcommit s).2 = .ok ∧
    ∃ db', (bcommit s).1.db = some db' ∧ DInv (bcommit s).1 db' ∧
      db'.cfg = db.cfg ∧ db'.dir = db.dir ∧
      db'.batch = some { b with committed := true, staged := [], cached := 0 } ∧
      (activeFile (bcommit s).1 db').bytes
        = appendRec C (appendAll C (activeFile (fpreS s db b) (fpreDB s db b)).bytes (flushPayloads b))
            (encodeRecord (finRec b.id)) ∧
      (b.sync = true → (activeFile (bcommit s).1 db').synced = (activeFile (bcommit s).1 db').bytes.size) ∧
      (b.sync = false → (activeFile (bcommit s).1 db').synced = (activeFile (fpreS s db b) (fpreDB s db b)).synced) ∧
      db'.bytesWrite = (fpreDB s db b).bytesWrite := by
  rw [bcommit_nonempty hs hb hc he]
  have hF := flushStaged_dur hd { b with committed := true }
  obtain ⟨q1, q2, q3, q4⟩ := flushStaged_handle hd { b with committed := true }
  have hbat := flushStaged_batch s db { b with committed := true }
  generalize flushStaged s db { b with committed := true } = F at *
  obtain ⟨s1, db1, b1⟩ := F
  simp only [] at hF q1 q2 q3 q4 hbat
  obtain ⟨r1, r2, r3, r4, r5⟩ := sealFile_dur hF.dinv b1
  have hsy : b1.sync = b.sync := by rw [hbat]
  have hid : b1.id = b.id := by rw [hbat]
  have key : ∀ (S : St) (D : DB), S.world = (sealFile s1 db1 b1).world → D.dir = db1.dir →
      D.activeId = db1.activeId → D.cfg = db1.cfg → D.batch = some b1 → D.bytesWrite = db1.bytesWrite →
      DInv S D ∧ D.cfg = db.cfg ∧ D.dir = db.dir ∧
      D.batch = some { b with committed := true, staged := [], cached := 0 } ∧
      (activeFile S D).bytes
        = appendRec C (appendAll C (activeFile (fpreS s db b) (fpreDB s db b)).bytes (flushPayloads b))
            (encodeRecord (finRec b.id)) ∧
      (b.sync = true → (activeFile S D).synced = (activeFile S D).bytes.size) ∧
      (b.sync = false → (activeFile S D).synced = (activeFile (fpreS s db b) (fpreDB s db b)).synced) ∧
      D.bytesWrite = (fpreDB s db b).bytesWrite := by
    intro S D hw hdir hact hcfg hbt hbw
    have hA : activeFile S D = activeFile (sealFile s1 db1 b1) db1 := activeFile_congr hw hdir hact
    refine ⟨r1.congr hw hdir hact, hcfg.trans q2, hdir.trans q3, by rw [hbt, hbat], ?_, ?_, ?_,
      hbw.trans hF.bytesWrite⟩
    · rw [hA, r3, hF.bytes, hid]; rfl
    · intro h; rw [hA]; exact r4 (hsy.trans h)
    · intro h; rw [hA, r5 (hsy.trans h)]; exact hF.nosync h
  exact ⟨rfl, _, rfl, key _ _ rfl rfl rfl rfl rfl rfl⟩

theorem Dur_bcommit {s : St} (h : Dur s) : Dur (bcommit s).1 := by
  obtain ⟨db, hs, hd⟩ := h
  cases hb : db.batch with
  | none => rw [bcommit_nobatch hs hb]; exact ⟨db, hs, hd⟩
  | some b =>
    by_cases hc : b.committed = true
    · rw [bcommit_committed hs hb hc]; exact ⟨db, hs, hd⟩
    · have hc' : b.committed = false := by simpa using hc
      by_cases he : b.staged = []
      · rw [bcommit_empty hs hb hc' he]; exact ⟨_, rfl, hd.congr rfl rfl rfl⟩
      · obtain ⟨_, db', h1, h2, _⟩ := bcommit_nonempty_dur hs hb hc' he hd
        exact ⟨db', h1, h2⟩

/-! ## a batch session: `NewBatch`, staging calls, `Commit` -/

/-- between `NewBatch` (in state `s0`, with option `sync`) and `Commit`: the handle carries an open,
    uncommitted batch with that option, the durability invariant holds, and as long as nothing is
    staged the files are exactly those of `s0` (a flush is always followed by staging a record) -/
structure BSess (s0 : St) (sync : Bool) (s : St) (db : DB) (b : BatchSt) : Prop where
  sdb : s.db = some db
  bat : db.batch = some b
  sync : b.sync = sync
  open_ : b.committed = false
  dinv : DInv s db
  untouched : b.staged = [] → s.world = s0.world

theorem BSess_bnew {s : St} {db : DB} (hs : s.db = some db) (hd : DInv s db) (sync : Bool) (id : Nat) :
    BSess s sync (bnew s sync id).1 { db with batch := some (newBatch sync id) } (newBatch sync id) := by
  rw [bnew_eq hs]
  exact ⟨rfl, rfl, rfl, rfl, hd.congr rfl rfl rfl, fun _ => rfl⟩

theorem StageOut.sess {s0 s s' : St} {sync : Bool} {db : DB} {b : BatchSt} {must : Prop}
    (hS : BSess s0 sync s db b) (o : StageOut s db b must s') :
    ∃ db' b', BSess s0 sync s' db' b' ∧ (b.staged ≠ [] → b'.staged ≠ []) ∧ (must → b'.staged ≠ []) := by
  cases o with
  | same e hm => rw [e]; exact ⟨db, b, hS, fun h => h, fun h => absurd h hm⟩
  | staged b' e hne hsy hc _ =>
    rw [e]
    exact ⟨_, b', ⟨rfl, rfl, hsy.trans hS.sync, hc.trans hS.open_, hS.dinv.congr rfl rfl rfl,
      fun h => absurd h hne⟩, fun _ => hne, fun _ => hne⟩
  | flushed b' e hne hsy hc _ =>
    rw [e]
    obtain ⟨f1, _, _, _, _, _, _, _, f9⟩ := flushAndRotate_dur hS.dinv b
    rw [f9] at hsy hc
    exact ⟨_, b', ⟨rfl, rfl, hsy.trans hS.sync, hc.trans hS.open_, f1.congr rfl rfl rfl,
      fun h => absurd h hne⟩, fun _ => hne, fun _ => hne⟩

theorem BSess_bput {s0 s : St} {sync : Bool} {db : DB} {b : BatchSt} (hS : BSess s0 sync s db b) (k v : ByteArray) :
    ∃ db' b', BSess s0 sync (bput s k v).1 db' b' ∧ (b.staged ≠ [] → b'.staged ≠ []) ∧
      (k.size ≠ 0 → b'.staged ≠ []) := by
  obtain ⟨db', b', h1, h2, h3⟩ := (bput_out hS.sdb hS.bat k v).sess hS
  exact ⟨db', b', h1, h2, fun hk => h3 ⟨hk, hS.open_⟩⟩

theorem BSess_bdel {s0 s : St} {sync : Bool} {db : DB} {b : BatchSt} (hS : BSess s0 sync s db b) (k : ByteArray) :
    ∃ db' b', BSess s0 sync (bdel s k).1 db' b' ∧ (b.staged ≠ [] → b'.staged ≠ []) := by
  obtain ⟨db', b', h1, h2, _⟩ := (bdel_out hS.sdb hS.bat k).sess hS
  exact ⟨db', b', h1, h2⟩

theorem BSess_bget {s0 s : St} {sync : Bool} {db : DB} {b : BatchSt} (hS : BSess s0 sync s db b) (k : ByteArray) :
    BSess s0 sync (bget s k).1 db b := by
  rw [bget_state]; exact hS

/-- `Commit` at the end of a session -/
theorem BSess_bcommit {s0 s : St} {sync : Bool} {db : DB} {b : BatchSt} (hS : BSess s0 sync s db b) :
    (bcommit s).2 = .ok ∧
    ∃ db', (bcommit s).1.db = some db' ∧ DInv (bcommit s).1 db' ∧
      (b.staged = [] → (bcommit s).1.world = s0.world) ∧
      (b.staged ≠ [] → sync = true → AllSynced (bcommit s).1 db') := by
  by_cases he : b.staged = []
  · rw [bcommit_empty hS.sdb hS.bat hS.open_ he]
    exact ⟨rfl, _, rfl, hS.dinv.congr rfl rfl rfl, fun _ => hS.untouched he, fun h => absurd he h⟩
  · obtain ⟨h1, db', h2, h3, _, _, _, _, h8, _, _⟩ := bcommit_nonempty_dur hS.sdb hS.bat hS.open_ he hS.dinv
    exact ⟨h1, db', h2, h3, fun h => absurd h he,
      fun _ hsy => h3.allSynced (h8 (hS.sync.trans hsy))⟩

/-! ## Threshold accounting: `bytesWrite` versus the real unflushed tail -/

/-- a policy flush: nothing is left unflushed and the counter is 0 -/
theorem Appended.sync_all {s s' : St} {db db' : DB} {r : Record} {pos : Pos} (a : Appended s db r s' db' pos)
    (hs : doSync db pos.size) : AllSynced s' db' ∧ db'.bytesWrite = 0 ∧ unsynced (activeFile s' db') = 0 := by
  obtain ⟨h1, h2⟩ := a.sync hs
  have hall := a.dinv.allSynced h1
  exact ⟨hall, h2, hall.unsynced_zero a.dinv⟩

/-- one append: the real unflushed tail grows by the counted size plus the block padding -/
theorem Appended.tinv {s s' : St} {db db' : DB} {r : Record} {pos : Pos} {u : Nat} (a : Appended s db r s' db' pos)
    (ht : TInv s db u) : TInv s' db' (u + padOf ((activeFile s db).bytes.size % BS)) := by
  unfold TInv unsynced at *
  by_cases hs : doSync db pos.size
  · obtain ⟨h1, _⟩ := a.sync hs
    rw [h1]; omega
  · obtain ⟨h1, h2⟩ := a.nosync hs
    have hsz := size_appendRec_pos db.activeId (activeFile s db).bytes (encodeRecord r)
    rw [← a.pos_eq, ← a.bytes] at hsz
    rw [h1, h2, hsz]; omega

/-- **Threshold, one `appendLogRecord`**: afterwards either a flush happened (counter 0, everything
    flushed) or the counter is below `BytesPerSync`; the real unflushed tail exceeds the counter by
    at most 7 more uncounted bytes than before, and by nothing at all if the call rotated -/
theorem appendLog_threshold {s : St} {db : DB} {u : Nat} (h : DInv s db) (hcfg : db.cfg.sync = 2)
    (ht : TInv s db u) (r : Record) :
    TInv (appendLog s db r).1 (appendLog s db r).2.1 (u + 7) ∧
    (((appendLog s db r).2.1.bytesWrite = 0 ∧ AllSynced (appendLog s db r).1 (appendLog s db r).2.1) ∨
      (appendLog s db r).2.1.bytesWrite < (appendLog s db r).2.1.cfg.bps) ∧
    ((appendLog s db r).2.1.activeId ≠ db.activeId → TInv (appendLog s db r).1 (appendLog s db r).2.1 0) := by
  have hA := appendLog_dur h r
  obtain ⟨p1, p2, p3, p4, p5, p6, p7⟩ := pre_dur h r
  have hcfg' : (appendLog s db r).2.1.cfg = db.cfg := hA.cfg.trans p3
  have hpad := padOf_le ((activeFile (preS s db r) (preDB s db r)).bytes.size % BS) (Frame.mod_lt_BS _)
  refine ⟨?_, ?_, ?_⟩
  · rcases p7 with ⟨e1, e2⟩ | ⟨_, _, e3, e4, _⟩
    · have ht' : TInv (preS s db r) (preDB s db r) u := by rw [e1, e2]; exact ht
      have := hA.tinv ht'
      unfold TInv at this ⊢; omega
    · have ht' : TInv (preS s db r) (preDB s db r) 0 := by
        unfold TInv unsynced; rw [e3, e4]; exact Nat.le_refl _
      have := hA.tinv ht'
      unfold TInv at this ⊢; omega
  · by_cases hs : doSync (preDB s db r) (appendLog s db r).2.2.size
    · obtain ⟨h1, h2, _⟩ := hA.sync_all hs
      exact Or.inl ⟨h2, h1⟩
    · obtain ⟨_, h2⟩ := hA.nosync hs
      right
      rw [hcfg', h2]
      unfold doSync at hs
      rw [p3] at hs
      have : ¬ (db.cfg.sync = 2 ∧ (preDB s db r).bytesWrite + (appendLog s db r).2.2.size ≥ db.cfg.bps) :=
        fun hx => hs (Or.inr hx)
      have : ¬ ((preDB s db r).bytesWrite + (appendLog s db r).2.2.size ≥ db.cfg.bps) := fun hx => this ⟨hcfg, hx⟩
      omega
  · intro hne
    rcases p7 with ⟨_, e2⟩ | ⟨_, _, e3, e4, _⟩
    · exact absurd (hA.activeId.trans (by rw [e2])) hne
    · have ht' : TInv (preS s db r) (preDB s db r) 0 := by
        unfold TInv unsynced; rw [e3, e4]; exact Nat.le_refl _
      have h0 := hA.tinv ht'
      rw [e3] at h0
      have hz : (ByteArray.empty.size % BS) = 0 := rfl
      rw [hz, padOf_zero] at h0
      exact h0

/-- **Always, one `appendLogRecord`**: everything is flushed when it returns -/
theorem appendLog_always {s : St} {db : DB} (h : DInv s db) (hcfg : db.cfg.sync = 1) (r : Record) :
    AllSynced (appendLog s db r).1 (appendLog s db r).2.1 ∧ (appendLog s db r).2.1.bytesWrite = 0 := by
  have hA := appendLog_dur h r
  obtain ⟨_, _, p3, _⟩ := pre_dur h r
  have hs : doSync (preDB s db r) (appendLog s db r).2.2.size := Or.inl (by rw [p3]; exact hcfg)
  obtain ⟨h1, h2, _⟩ := hA.sync_all hs
  exact ⟨h1, h2⟩

theorem appendLog_handle {s : St} {db : DB} (h : DInv s db) (r : Record) :
    (appendLog s db r).1.db = s.db ∧ (appendLog s db r).2.1.cfg = db.cfg ∧ (appendLog s db r).2.1.dir = db.dir ∧
    (appendLog s db r).2.1.batch = db.batch := by
  have hA := appendLog_dur h r
  obtain ⟨_, p2, p3, p4, p5, _⟩ := pre_dur h r
  exact ⟨hA.sdb.trans p2, hA.cfg.trans p3, hA.dir.trans p4, hA.batch.trans p5⟩

/-! ## the invariant is established by `Open` on a fresh directory -/

/-- handle and state right after `Open` on a directory that did not exist -/
def freshDB (dir : String) (cfg : Cfg) : DB :=
  { cfg := cfg, dir := dir, activeId := 0, index := [], reclaim := 0, total := 0, bytesWrite := 0, batch := none }

def freshSt (dir : String) (cfg : Cfg) : St :=
  { world := [(dir, ⟨[(0, ⟨ByteArray.empty, 0⟩)], none, none, true⟩)], db := some (freshDB dir cfg) }

theorem openDB_fresh_eq (dir : String) (cfg : Cfg) (h : cfg.Valid) :
    openDB St.init dir cfg = (freshSt dir cfg, .ok) := openDB_fresh dir cfg h

theorem dirOf_fresh (dir : String) (cfg : Cfg) :
    (dirOf (freshSt dir cfg) (freshDB dir cfg)).data = [(0, ⟨ByteArray.empty, 0⟩)] := by
  simp only [dirOf, freshSt, freshDB, World.get, if_pos, Option.getD_some]

theorem DInv_fresh (dir : String) (cfg : Cfg) : DInv (freshSt dir cfg) (freshDB dir cfg) := by
  have hd := dirOf_fresh dir cfg
  refine ⟨⟨[], ⟨ByteArray.empty, 0⟩, by rw [hd]; rfl, by intro x hx; simp at hx⟩, ?_, ?_⟩
  · rw [hd]; intro x hx; simp at hx
  · rw [hd]; intro x hx
    simp only [List.mem_singleton] at hx
    rw [hx]; exact Nat.le_refl _

theorem AllSynced_fresh (dir : String) (cfg : Cfg) : AllSynced (freshSt dir cfg) (freshDB dir cfg) := by
  unfold AllSynced
  rw [dirOf_fresh]; intro x hx
  simp only [List.mem_singleton] at hx
  rw [hx]; rfl

theorem TInv_fresh (dir : String) (cfg : Cfg) : TInv (freshSt dir cfg) (freshDB dir cfg) 0 := by
  unfold TInv
  rw [(AllSynced_fresh dir cfg).unsynced_zero (DInv_fresh dir cfg)]; exact Nat.zero_le _

/-! ## the invariant after `Close` + `Open` (every file is flushed by `Close`) -/

theorem mem_syncAll {data : List (Nat × FileSt)} {x : Nat × FileSt} (h : x ∈ Restart.syncAll data) :
    (∃ y ∈ data, x.1 = y.1) ∧ x.2.synced = x.2.bytes.size := by
  unfold Restart.syncAll at h
  obtain ⟨y, hy, rfl⟩ := List.mem_map.mp h
  exact ⟨⟨y, hy, rfl⟩, rfl⟩

theorem DInv_of_syncAll {s s' : St} {db db' : DB} (h : DInv s db)
    (hdata : (dirOf s' db').data = Restart.syncAll (dirOf s db).data) (ha : db'.activeId = db.activeId) :
    DInv s' db' ∧ AllSynced s' db' := by
  obtain ⟨pre, f, hd, hlt⟩ := h.shape
  have hall : AllSynced s' db' := by
    intro x hx; rw [hdata] at hx; exact (mem_syncAll hx).2
  have e : Restart.syncAll (pre ++ [(db.activeId, f)])
      = Restart.syncAll pre ++ [(db.activeId, ⟨f.bytes, f.bytes.size⟩)] := by
    simp only [Restart.syncAll, List.map_append, List.map_cons, List.map_nil]
  refine ⟨⟨⟨Restart.syncAll pre, ⟨f.bytes, f.bytes.size⟩, by rw [hdata, hd, e, ha], ?_⟩, ?_, ?_⟩, hall⟩
  · intro x hx
    obtain ⟨⟨y, hy, e1⟩, _⟩ := mem_syncAll hx
    rw [e1, ha]; exact hlt y hy
  · intro x hx; exact hall x (List.dropLast_subset _ hx)
  · intro x hx; rw [hall x hx]; exact Nat.le_refl _

/-- every file other than the active one is completely flushed -/
theorem DInv.older_synced {s : St} {db : DB} (h : DInv s db) :
    ∀ x ∈ (dirOf s db).data, x.1 ≠ db.activeId → x.2.synced = x.2.bytes.size := by
  obtain ⟨pre, f, hd, hlt⟩ := h.shape
  have ho := h.older
  rw [hd] at ho ⊢
  intro x hx hne
  rcases List.mem_append.mp hx with hx | hx
  · exact (Restart.OnlyLastCut_concat _ _).mp ho x hx
  · simp only [List.mem_singleton] at hx
    rw [hx] at hne; exact absurd rfl hne

/-! ## run-level invariants for the plain operations under a fixed policy -/

/-- Always: everything is flushed at every return -/
structure AlwInv (cfg : Cfg) (s : St) (db : DB) : Prop where
  dinv : DInv s db
  hcfg : db.cfg = cfg
  all : AllSynced s db

/-- Threshold: the counter is below `BytesPerSync` (or everything is flushed), and the real
    unflushed tail of the active file is at most the counter plus `u` uncounted padding bytes -/
structure ThrInv (cfg : Cfg) (s : St) (db : DB) (u : Nat) : Prop where
  dinv : DInv s db
  hcfg : db.cfg = cfg
  tinv : TInv s db u
  bound : db.bytesWrite < cfg.bps ∨ AllSynced s db

theorem ThrInv.mono {cfg : Cfg} {s : St} {db : DB} {u u' : Nat} (h : ThrInv cfg s db u) (hu : u ≤ u') :
    ThrInv cfg s db u' :=
  ⟨h.dinv, h.hcfg, by have := h.tinv; unfold TInv at this ⊢; omega, h.bound⟩

/-- what the run-level invariant says about the real unflushed tail -/
theorem ThrInv.unsynced_bound {cfg : Cfg} {s : St} {db : DB} {u : Nat} (h : ThrInv cfg s db u) :
    unsynced (activeFile s db) = 0 ∨ unsynced (activeFile s db) < cfg.bps + u := by
  rcases h.bound with hb | hb
  · right; have := h.tinv; unfold TInv at this; omega
  · left; exact hb.unsynced_zero h.dinv

theorem AlwInv_appendLog {cfg : Cfg} {s : St} {db : DB} (h : AlwInv cfg s db) (hc : cfg.sync = 1) (r : Record) :
    AlwInv cfg (appendLog s db r).1 (appendLog s db r).2.1 :=
  ⟨DInv_appendLog h.dinv r, (appendLog_handle h.dinv r).2.1.trans h.hcfg,
    (appendLog_always h.dinv (by rw [h.hcfg]; exact hc) r).1⟩

theorem ThrInv_appendLog {cfg : Cfg} {s : St} {db : DB} {u : Nat} (h : ThrInv cfg s db u) (hc : cfg.sync = 2)
    (r : Record) : ThrInv cfg (appendLog s db r).1 (appendLog s db r).2.1 (u + 7) := by
  obtain ⟨h1, h2, _⟩ := appendLog_threshold h.dinv (by rw [h.hcfg]; exact hc) h.tinv r
  have hcfg := (appendLog_handle h.dinv r).2.1.trans h.hcfg
  refine ⟨DInv_appendLog h.dinv r, hcfg, h1, ?_⟩
  rcases h2 with ⟨_, ha⟩ | hb
  · exact Or.inr ha
  · rw [hcfg] at hb; exact Or.inl hb

theorem AlwInv.congr {cfg : Cfg} {s s' : St} {db db' : DB} (h : AlwInv cfg s db) (hw : s'.world = s.world)
    (hd : db'.dir = db.dir) (ha : db'.activeId = db.activeId) (hc : db'.cfg = db.cfg) : AlwInv cfg s' db' :=
  ⟨h.dinv.congr hw hd ha, hc.trans h.hcfg, h.all.congr hw hd⟩

theorem ThrInv.congr {cfg : Cfg} {s s' : St} {db db' : DB} {u : Nat} (h : ThrInv cfg s db u) (hw : s'.world = s.world)
    (hd : db'.dir = db.dir) (ha : db'.activeId = db.activeId) (hc : db'.cfg = db.cfg)
    (hb : db'.bytesWrite = db.bytesWrite) : ThrInv cfg s' db' u :=
  ⟨h.dinv.congr hw hd ha, hc.trans h.hcfg, h.tinv.congr hw hd ha hb, by
    rcases h.bound with x | x
    · exact Or.inl (by rw [hb]; exact x)
    · exact Or.inr (x.congr hw hd)⟩

theorem AlwInv_put {cfg : Cfg} {s : St} {db : DB} (hs : s.db = some db) (h : AlwInv cfg s db) (hc : cfg.sync = 1)
    (k v : ByteArray) : ∃ db', (put s k v).1.db = some db' ∧ AlwInv cfg (put s k v).1 db' := by
  by_cases hk : k.size = 0
  · rw [put_keyempty s k v hk hs]; exact ⟨db, hs, h⟩
  · obtain ⟨_, h2, h3⟩ := put_state hs k v hk
    exact ⟨_, h2, (AlwInv_appendLog h hc _).congr h3 rfl rfl rfl⟩

theorem AlwInv_delete {cfg : Cfg} {s : St} {db : DB} (hs : s.db = some db) (h : AlwInv cfg s db) (hc : cfg.sync = 1)
    (k : ByteArray) : ∃ db', (delete s k).1.db = some db' ∧ AlwInv cfg (delete s k).1 db' := by
  by_cases hk : k.size = 0
  · rw [delete_keyempty s k hk hs]; exact ⟨db, hs, h⟩
  · cases hg : Index.get db.index k with
    | none => rw [delete_eq_none hs k hk hg]; exact ⟨db, hs, h⟩
    | some old =>
      obtain ⟨_, h2, h3⟩ := delete_state hs k hk hg
      exact ⟨_, h2, (AlwInv_appendLog h hc _).congr h3 rfl rfl rfl⟩

theorem AlwInv_syncDB {cfg : Cfg} {s : St} {db : DB} (hs : s.db = some db) (h : AlwInv cfg s db) :
    (syncDB s).1.db = some db ∧ AlwInv cfg (syncDB s).1 db := by
  obtain ⟨_, h2, h3, h4⟩ := syncDB_dur hs h.dinv
  exact ⟨h2, h3, h.hcfg, h4⟩

theorem ThrInv_put {cfg : Cfg} {s : St} {db : DB} {u : Nat} (hs : s.db = some db) (h : ThrInv cfg s db u)
    (hc : cfg.sync = 2) (k v : ByteArray) :
    ∃ db', (put s k v).1.db = some db' ∧ ThrInv cfg (put s k v).1 db' (u + 7) := by
  by_cases hk : k.size = 0
  · rw [put_keyempty s k v hk hs]; exact ⟨db, hs, h.mono (by omega)⟩
  · obtain ⟨_, h2, h3⟩ := put_state hs k v hk
    exact ⟨_, h2, (ThrInv_appendLog h hc _).congr h3 rfl rfl rfl rfl⟩

theorem ThrInv_delete {cfg : Cfg} {s : St} {db : DB} {u : Nat} (hs : s.db = some db) (h : ThrInv cfg s db u)
    (hc : cfg.sync = 2) (k : ByteArray) :
    ∃ db', (delete s k).1.db = some db' ∧ ThrInv cfg (delete s k).1 db' (u + 7) := by
  by_cases hk : k.size = 0
  · rw [delete_keyempty s k hk hs]; exact ⟨db, hs, h.mono (by omega)⟩
  · cases hg : Index.get db.index k with
    | none => rw [delete_eq_none hs k hk hg]; exact ⟨db, hs, h.mono (by omega)⟩
    | some old =>
      obtain ⟨_, h2, h3⟩ := delete_state hs k hk hg
      exact ⟨_, h2, (ThrInv_appendLog h hc _).congr h3 rfl rfl rfl rfl⟩

theorem ThrInv_syncDB {cfg : Cfg} {s : St} {db : DB} {u : Nat} (hs : s.db = some db) (h : ThrInv cfg s db u) :
    (syncDB s).1.db = some db ∧ ThrInv cfg (syncDB s).1 db u := by
  obtain ⟨_, h2, h3, h4⟩ := syncDB_dur hs h.dinv
  refine ⟨h2, h3, h.hcfg, ?_, Or.inr h4⟩
  unfold TInv
  rw [h4.unsynced_zero h3]; exact Nat.zero_le _

end XixiKV.Engine.PolicyP.Dur

/-!
# File-size policy: helper lemmas for C17 (second half)

* PART 1 — the size estimate `diskSizeEstimate` (= Go `GetLogRecordDiskSize`) really bounds what
  `writeToBuf` appends (padding + chunk headers + payload) for every record with
  `key.size + value.size ≤ 2^27`, at every file offset; the sealing record of a batch occupies at
  most `maxFinRecord = 70` bytes.
* PART 2 — explicit-ghost versions (`…_specG`) of the step theorems of `EngineLive` / `EngineBatch`
  (which hide the new ghost directory behind `∃ g'`), the size invariant `SizeInv` and its
  preservation by `appendLog`, `flushStaged`, `flushAndRotate`, the sealing record, and by the
  user-level operations `put / delete / syncDB / bnew / bput / bget / bdel / bcommit / bdrop`.
-/
namespace XixiKV.Engine.PolicyP.Size
open XixiKV XixiKV.Frame XixiKV.Record XixiKV.Index XixiKV.Engine XixiKV.Engine.BatchP

/-! ## PART 1 — geometry of one append versus the estimate -/

/-- closed-form bound for the number of Middle/Last chunks of `m` remaining bytes -/
theorem restCount_le (fuel : Nat) : ∀ m, restCount m fuel ≤ m / 32761 + 1 := by
  have hBS := Frame.hBS; have hH := Frame.hH
  induction fuel with
  | zero => intro m; simp only [restCount]; omega
  | succ f ih =>
    intro m
    unfold restCount
    have e : BS - H = 32761 := by omega
    rw [e]
    split
    · omega
    · have := ih (m - 32761)
      omega

/-- **what one append costs**: padding plus chunk headers plus payload, for every in-block end
    offset `o` of the file and every payload length `n`: at most two headers (14 bytes: a pad of
    ≤ 7 bytes and one header, or a tiny first chunk and one more header) plus one header per
    32761 bytes of payload -/
theorem geom_le (o n : Nat) (ho : o < BS) :
    padOf o + occupied (normO o) n ≤ n + 14 + 7 * (n / 32761) := by
  have hBS := Frame.hBS; have hH := Frame.hH
  unfold occupied
  split
  · simp only [padOf]; split <;> omega
  · rename_i hn
    rw [hH, Nat.mul_comm]
    unfold recCount padOf normO
    by_cases hp : o + H ≥ BS
    · simp only [if_pos hp]
      split
      · omega
      · have := restCount_le n (n - (BS - 0 - H))
        have e : BS - 0 - H = 32761 := by omega
        rw [e] at this ⊢
        omega
    · simp only [if_neg hp]
      split
      · omega
      · have := restCount_le n (n - (BS - o - H))
        omega

/-- a record shorter than one block body costs at most two headers -/
theorem geom_le_small (o n : Nat) (ho : o < BS) (hn : n < 32761) :
    padOf o + occupied (normO o) n ≤ n + 14 := by
  have := geom_le o n ho
  have : n / 32761 = 0 := Nat.div_eq_of_lt hn
  omega

theorem diskSizeEstimate_eq (k v : Nat) :
    diskSizeEstimate k v = k + v + 46 + 7 * ((k + v + 32) / 32768) := by
  have hBS := Frame.hBS; have hH := Frame.hH
  simp only [diskSizeEstimate, hH, hBS]
  have : 21 + k + v + 10 + 1 = k + v + 32 := by omega
  rw [this]
  omega

theorem diskSizeEstimate_mono {k v k' v' : Nat} (hk : k ≤ k') (hv : v ≤ v') :
    diskSizeEstimate k v ≤ diskSizeEstimate k' v' := by
  rw [diskSizeEstimate_eq, diskSizeEstimate_eq]
  have : (k + v + 32) / 32768 ≤ (k' + v' + 32) / 32768 := Nat.div_le_div_right (by omega)
  omega

/-- the arithmetic core: payload `n ≤ m + 21` (`m = key.size + value.size`), `m ≤ 2^27` -/
theorem estimate_arith (n m : Nat) (hn : n ≤ m + 21) (hm : m ≤ 134217728) :
    n + 14 + 7 * (n / 32761) ≤ m + 46 + 7 * ((m + 32) / 32768) := by
  have : n / 32761 ≤ (m + 21) / 32761 := Nat.div_le_div_right hn
  omega

/-- **C17 (estimate), geometric form**: for every record whose key and value lengths fit the
    codec and whose key and value together are at most 2^27 bytes (128 MiB), and for **every**
    current file size, the bytes the writer appends (padding of the block tail, all chunk headers,
    the payload) are at most `GetLogRecordDiskSize(len(key), len(value))` -/
theorem estimate_geom (r : Record) (hk : r.key.size < 2 ^ 31) (hv : r.value.size < 2 ^ 31)
    (hb : r.batch < 2 ^ 64) (hs : r.key.size + r.value.size ≤ 2 ^ 27) (fsz : Nat) :
    padOf (fsz % BS) + occupied (normO (fsz % BS)) (encodeRecord r).size
      ≤ diskSizeEstimate r.key.size r.value.size := by
  have h27 : (2:Nat) ^ 27 = 134217728 := by decide
  rw [h27] at hs
  have h1 := geom_le (fsz % BS) (encodeRecord r).size (mod_lt_BS fsz)
  have h2 := encodeRecord_header_le r hk hv hb
  have h3 := estimate_arith (encodeRecord r).size (r.key.size + r.value.size) (by omega) hs
  rw [diskSizeEstimate_eq]
  omega

theorem size_appendRec (f d : ByteArray) :
    (appendRec C f d).size = f.size + padOf (f.size % BS) + occupied (normO (f.size % BS)) d.size :=
  (posOf_geom C 0 f d).2

/-- **C17 (estimate), file form**: appending a record grows the file by at most the estimate -/
theorem appendRec_le_estimate (f : ByteArray) (r : Record) (hk : r.key.size < 2 ^ 31)
    (hv : r.value.size < 2 ^ 31) (hb : r.batch < 2 ^ 64) (hs : r.key.size + r.value.size ≤ 2 ^ 27) :
    (appendRec C f (encodeRecord r)).size ≤ f.size + diskSizeEstimate r.key.size r.value.size := by
  have := estimate_geom r hk hv hb hs f.size
  rw [size_appendRec]
  omega

/-- records that are not huge: key and value together at most 2^27 bytes (128 MiB).  Beyond
    roughly 146 MiB the estimate can fall short of the real occupation by a few bytes (see the
    evaluated search in `Properties/C17.lean`) -/
def Small (r : Record) : Prop := r.key.size + r.value.size ≤ 2 ^ 27

/-- sum of the estimates of a run of records -/
def estSumR (rs : List Record) : Nat := (rs.map (fun r => diskSizeEstimate r.key.size r.value.size)).sum

theorem estSumR_cons (r : Record) (rs : List Record) :
    estSumR (r :: rs) = diskSizeEstimate r.key.size r.value.size + estSumR rs := by
  simp only [estSumR, List.map_cons, List.sum_cons]

/-- the list version (`writeAll`): a run of records grows the file by at most the sum of the
    estimates -/
theorem appendAll_le_estimates (rs : List Record) : ∀ (f : ByteArray),
    (∀ r ∈ rs, RecOK r ∧ Small r) →
    (appendAll C f (payloads rs)).size ≤ f.size + estSumR rs := by
  induction rs with
  | nil => intro f _; simp [payloads, appendAll, estSumR]
  | cons r t ih =>
    intro f h
    obtain ⟨⟨_, _, hk, hv, hb⟩, hs⟩ := h r (by simp)
    have h1 := appendRec_le_estimate f r hk hv hb hs
    have h2 := ih (appendRec C f (encodeRecord r)) (fun x hx => h x (by simp [hx]))
    rw [estSumR_cons]
    show (appendAll C (appendRec C f (encodeRecord r)) (payloads t)).size ≤ _
    omega

/-! ### the sealing record -/

theorem idBytes_size_le (n : Nat) (h : n < 2 ^ 63) : (idBytes n).size ≤ 19 := by
  have h1 : n < 10 ^ (18 + 1) := by
    have : (2:Nat) ^ 63 < 10 ^ (18 + 1) := by decide
    omega
  have := repr_utf8ByteSize 18 n h1
  show (Nat.repr n).utf8ByteSize ≤ 19
  omega

theorem idBytes_size_le20 (n : Nat) (h : n < 2 ^ 64) : (idBytes n).size ≤ 20 := by
  have h1 : n < 10 ^ (19 + 1) := by
    have : (2:Nat) ^ 64 < 10 ^ (19 + 1) := by decide
    omega
  have := repr_utf8ByteSize 19 n h1
  show (Nat.repr n).utf8ByteSize ≤ 20
  omega

theorem size_finRec_eq (id : Nat) (hk : (idBytes id).size ≤ 20) :
    (encodeRecord (finRec id)).size = 3 + (Varint.putUvarint id).length + (idBytes id).size := by
  rw [size_encodeRecord]
  show 1 + (Varint.putVarintNat (idBytes id).size).length + (Varint.putVarintNat ByteArray.empty.size).length
    + (Varint.putUvarint id).length + (idBytes id).size + ByteArray.empty.size = _
  have e0 : ByteArray.empty.size = 0 := rfl
  rw [e0]
  unfold Varint.putVarintNat
  rw [Varint.putUvarint_lt (2 * (idBytes id).size) (by omega), Varint.putUvarint_lt (2 * 0) (by omega)]
  simp only [List.length_singleton]
  omega

/-- the encoded sealing record: type byte, two one-byte lengths, the batch id as uvarint (≤ 10
    bytes) and as decimal digits (≤ 19 bytes for a positive `int64`) -/
theorem size_finRec_le (id : Nat) (h : id < 2 ^ 63) : (encodeRecord (finRec id)).size ≤ 32 := by
  have hk := idBytes_size_le id h
  have h64 : (2:Nat) ^ 63 ≤ 2 ^ 64 := by decide
  have p3 := Varint.putUvarint_length_le id (by omega)
  rw [size_finRec_eq id (by omega)]
  omega

/-- the same for any `uint64` id (≤ 20 digits) -/
theorem size_finRec_le64 (id : Nat) (h : id < 2 ^ 64) : (encodeRecord (finRec id)).size ≤ 33 := by
  have hk := idBytes_size_le20 id h
  have p3 := Varint.putUvarint_length_le id h
  rw [size_finRec_eq id hk]
  omega

theorem seal_le_70_64 (f : ByteArray) (id : Nat) (h : id < 2 ^ 64) :
    (appendRec C f (encodeRecord (finRec id))).size ≤ f.size + maxFinRecord := by
  have h1 := size_finRec_le64 id h
  have h2 := geom_le_small (f.size % BS) (encodeRecord (finRec id)).size (mod_lt_BS _) (by omega)
  rw [size_appendRec]
  show _ ≤ f.size + 70
  omega

/-- **the sealing record fits `maxFinRecord`**: whatever the current file size, appending the
    `LogRecordBatchFinished` record of a batch grows the file by at most 70 bytes (in fact ≤ 46) -/
theorem seal_le_70 (f : ByteArray) (id : Nat) (h : id < 2 ^ 63) :
    (appendRec C f (encodeRecord (finRec id))).size ≤ f.size + maxFinRecord := by
  have h64 : (2:Nat) ^ 63 ≤ 2 ^ 64 := by decide
  exact seal_le_70_64 f id (by omega)

/-! ## PART 2 — the size invariant of the data files -/

/-- a ghost file respects the limit `L`: its bytes fit, or it holds exactly one record, or exactly
    one record followed by the sealing record of its batch -/
def FileOK (L : Nat) (gf : GFile) : Prop :=
  (bytesOf gf).size ≤ L ∨ (∃ r, gf = [r]) ∨ (∃ r id, gf = [r, finRec id])

/-- every data file of the directory respects the limit -/
def SizeInv (L : Nat) (g : GDir) : Prop := ∀ x ∈ g, FileOK L x.2

theorem FileOK.mono {L L' : Nat} (h : L ≤ L') {gf : GFile} (hf : FileOK L gf) : FileOK L' gf := by
  rcases hf with h1 | h1
  · exact Or.inl (Nat.le_trans h1 h)
  · exact Or.inr h1

theorem SizeInv.mono {L L' : Nat} (h : L ≤ L') {g : GDir} (hs : SizeInv L g) : SizeInv L' g :=
  fun x hx => (hs x hx).mono h

theorem FileOK_nil (L : Nat) : FileOK L [] := Or.inl (Nat.zero_le _)

theorem SizeInv_snoc {L : Nat} {g0 : GDir} {id : Nat} {gf : GFile} (h0 : SizeInv L g0) (hf : FileOK L gf) :
    SizeInv L (g0 ++ [(id, gf)]) := by
  intro x hx
  rcases List.mem_append.mp hx with hx | hx
  · exact h0 x hx
  · simp only [List.mem_singleton] at hx; rw [hx]; exact hf

theorem SizeInv_init {L : Nat} {g0 : GDir} {y : Nat × GFile} (h : SizeInv L (g0 ++ [y])) : SizeInv L g0 :=
  fun x hx => h x (List.mem_append_left _ hx)

theorem SizeInv_last {L : Nat} {g0 : GDir} {y : Nat × GFile} (h : SizeInv L (g0 ++ [y])) : FileOK L y.2 :=
  h y (by simp)

/-- a ghost file without bytes holds no record (every record occupies at least one byte) -/
theorem bytesOf_size_zero {gf : GFile} (h : (bytesOf gf).size = 0) : gf = [] := by
  have := size_appendAll_ge C (payloads gf) ByteArray.empty (by
    intro d hd
    obtain ⟨r, _, rfl⟩ := List.mem_map.mp hd
    exact RecOK.payload_pos)
  have e : (payloads gf).length = gf.length := by simp only [payloads, List.length_map]
  have h0 : gf.length = 0 := by
    have e0 : ByteArray.empty.size = 0 := rfl
    unfold bytesOf at h
    omega
  exact List.eq_nil_of_length_eq_zero h0

theorem size_bytesOf_snoc_le (gf : GFile) (r : Record) (hr : RecOK r) (hs : Small r) :
    (bytesOf (gf ++ [r])).size ≤ (bytesOf gf).size + diskSizeEstimate r.key.size r.value.size := by
  obtain ⟨_, _, hk, hv, hb⟩ := hr
  rw [bytesOf_append]
  exact appendRec_le_estimate _ r hk hv hb hs

theorem size_bytesOf_append_le (gf rs : GFile) (h : ∀ r ∈ rs, RecOK r ∧ Small r) :
    (bytesOf (gf ++ rs)).size ≤ (bytesOf gf).size + estSumR rs := by
  rw [bytesOf_append_list]
  exact appendAll_le_estimates rs _ h

theorem size_bytesOf_seal_le (gf : GFile) (id : Nat) (h : id < 2 ^ 63) :
    (bytesOf (gf ++ [finRec id])).size ≤ (bytesOf gf).size + maxFinRecord := by
  rw [bytesOf_append]
  exact seal_le_70 _ id h

theorem size_bytesOf_seal_le64 (gf : GFile) (id : Nat) (h : id < 2 ^ 64) :
    (bytesOf (gf ++ [finRec id])).size ≤ (bytesOf gf).size + maxFinRecord := by
  rw [bytesOf_append]
  exact seal_le_70_64 _ id h

/-! ### explicit-ghost versions of the step theorems -/

theorem Files_init_lt {s : St} {db : DB} {g g0 : GDir} {gf : GFile} (h : Files s db g)
    (hg : g = g0 ++ [(db.activeId, gf)]) : ∀ x ∈ g0, x.1 < db.activeId := by
  intro y hy
  have := h.asc
  rw [hg] at this
  exact (List.pairwise_append.mp this).2.2 y hy (db.activeId, gf) (by simp)

/-- `appendTail`: the active ghost file gains exactly the record -/
theorem appendTail_specG {s : St} {db : DB} {g g0 : GDir} {gf : GFile} (h : Files s db g)
    (hg : g = g0 ++ [(db.activeId, gf)]) (r : Record) (hr : RecOK r) :
    Files (appendTail s db r).1 (appendTail s db r).2.1 (g0 ++ [(db.activeId, gf ++ [r])]) ∧
      (appendTail s db r).1.db = s.db ∧ (appendTail s db r).2.1.cfg = db.cfg ∧
      (appendTail s db r).2.1.batch = db.batch ∧ (appendTail s db r).2.1.activeId = db.activeId := by
  have hlt := Files_init_lt h hg
  have hb : (activeFile s db).bytes = bytesOf gf := activeFile_bytes h.dir h.asc (by rw [hg]; simp)
  refine ⟨⟨?_, ?_, ?_, ?_⟩, ?_, ?_, ?_, ?_⟩
  · -- directory
    have hbytes : appendRec C (activeFile s db).bytes (encodeRecord r) = bytesOf (gf ++ [r]) := by
      rw [bytesOf_append, hb]
    unfold appendTail
    simp only []
    split
    · have h1 := DirOK_putFile (db := { db with total := db.total + (posOf C db.activeId (activeFile s db).bytes.size (encodeRecord r)).size, bytesWrite := 0 }) h.dir db.activeId
        ⟨appendRec C (activeFile s db).bytes (encodeRecord r), (appendRec C (activeFile s db).bytes (encodeRecord r)).size⟩ (gf ++ [r]) hbytes
      rw [hg, gset_last g0 db.activeId gf _ hlt] at h1
      exact h1
    · have h1 := DirOK_putFile (db := { db with total := db.total + (posOf C db.activeId (activeFile s db).bytes.size (encodeRecord r)).size, bytesWrite := db.bytesWrite + (posOf C db.activeId (activeFile s db).bytes.size (encodeRecord r)).size }) h.dir db.activeId
        ⟨appendRec C (activeFile s db).bytes (encodeRecord r), (activeFile s db).synced⟩ (gf ++ [r]) hbytes
      rw [hg, gset_last g0 db.activeId gf _ hlt] at h1
      exact h1
  · have := h.asc
    rw [hg] at this
    obtain ⟨a1, _, a3⟩ := List.pairwise_append.mp this
    exact List.pairwise_append.mpr ⟨a1, by simp, fun a ha b hb' => by
      simp only [List.mem_singleton] at hb'; rw [hb']; exact hlt a ha⟩
  · unfold appendTail
    simp only []
    split <;> simp
  · intro x hx r' hr'
    rcases List.mem_append.mp hx with hx | hx
    · exact h.recs x (by rw [hg]; simp [hx]) r' hr'
    · simp only [List.mem_singleton] at hx
      rw [hx] at hr'
      rcases List.mem_append.mp hr' with hr' | hr'
      · exact h.recs (db.activeId, gf) (by rw [hg]; simp) r' hr'
      · simp only [List.mem_singleton] at hr'; rw [hr']; exact hr
  · unfold appendTail
    simp only []
    split <;> rfl
  · unfold appendTail
    simp only []
    split <;> rfl
  · unfold appendTail
    simp only []
    split <;> rfl
  · exact appendTail_activeId s db r

/-- `flushTail`: the active ghost file gains exactly the staged records, tagged with the batch id -/
theorem flushTail_specG {s : St} {db : DB} {g g0 : GDir} {gf : GFile} (h : Files s db g)
    (hg : g = g0 ++ [(db.activeId, gf)]) (b : BatchSt)
    (hok : ∀ r ∈ b.staged, StagedOK r) (hid : b.id < 2 ^ 64) :
    Files (flushTail s db b).1 (flushTail s db b).2.1 (g0 ++ [(db.activeId, gf ++ b.staged.map (toRec b.id))]) ∧
      (flushTail s db b).1.db = s.db ∧ (flushTail s db b).2.1.cfg = db.cfg ∧
      (flushTail s db b).2.1.batch = db.batch ∧ (flushTail s db b).2.1.activeId = db.activeId ∧
      (flushTail s db b).2.2 = { b with staged := [], cached := 0 } := by
  have hlt := Files_init_lt h hg
  have hb : (activeFile s db).bytes = bytesOf gf := activeFile_bytes h.dir h.asc (by rw [hg]; simp)
  have hpl : b.staged.map (fun r => encodeRecord { typ := r.typ, key := r.key, value := r.value, batch := b.id })
      = payloads (b.staged.map (toRec b.id)) := by
    simp only [payloads, List.map_map]
    rfl
  have hs1 : (flushTail s db b).1 = putFile s db db.activeId
      ⟨appendAll C (activeFile s db).bytes (payloads (b.staged.map (toRec b.id))),
        if b.sync then (appendAll C (activeFile s db).bytes (payloads (b.staged.map (toRec b.id)))).size
        else (activeFile s db).synced⟩ := by
    unfold flushTail
    simp only [hpl]
  have hd1 : (flushTail s db b).2.1 = applyAllStaged db (b.staged.zip
      (posAll C db.activeId (bytesOf gf) (payloads (b.staged.map (toRec b.id))))) := by
    unfold flushTail
    simp only [hpl, hb]
    rfl
  obtain ⟨hcfg, hdir, hact, _, hbat⟩ := applyAllStaged_rest (b.staged.zip
    (posAll C db.activeId (bytesOf gf) (payloads (b.staged.map (toRec b.id))))) db
  refine ⟨⟨?_, ?_, ?_, ?_⟩, rfl, by rw [hd1, hcfg], by rw [hd1, hbat], by rw [hd1, hact], rfl⟩
  · have hbytes : appendAll C (activeFile s db).bytes (payloads (b.staged.map (toRec b.id)))
        = bytesOf (gf ++ b.staged.map (toRec b.id)) := by
      rw [bytesOf_append_list, hb]
    have h1 := DirOK_putFile h.dir db.activeId
      ⟨appendAll C (activeFile s db).bytes (payloads (b.staged.map (toRec b.id))),
        if b.sync then (appendAll C (activeFile s db).bytes (payloads (b.staged.map (toRec b.id)))).size
        else (activeFile s db).synced⟩ (gf ++ b.staged.map (toRec b.id)) hbytes
    rw [hg, gset_last g0 db.activeId gf _ hlt] at h1
    rw [hs1, hd1, hdir]
    exact h1
  · have := h.asc
    rw [hg] at this
    obtain ⟨a1, _, a3⟩ := List.pairwise_append.mp this
    exact List.pairwise_append.mpr ⟨a1, by simp, fun a ha b hb' => by
      simp only [List.mem_singleton] at hb'; rw [hb']; exact hlt a ha⟩
  · rw [hd1, hact]
    simp
  · intro x hx r' hr'
    rcases List.mem_append.mp hx with hx | hx
    · exact h.recs x (by rw [hg]; simp [hx]) r' hr'
    · simp only [List.mem_singleton] at hx
      rw [hx] at hr'
      rcases List.mem_append.mp hr' with hr' | hr'
      · exact h.recs (db.activeId, gf) (by rw [hg]; simp) r' hr'
      · obtain ⟨st, hst, rfl⟩ := List.mem_map.mp hr'
        exact (hok st hst).recOK hid

/-- the sealing record: the active ghost file gains exactly `finRec b.id` -/
theorem seal_specG {s : St} {db : DB} {g g0 : GDir} {gf : GFile} (h : Files s db g)
    (hg : g = g0 ++ [(db.activeId, gf)]) (b : BatchSt) (hid : b.id < 2 ^ 63) :
    Files (sealFile s db b) db (g0 ++ [(db.activeId, gf ++ [finRec b.id])]) ∧ (sealFile s db b).db = s.db := by
  have hlt := Files_init_lt h hg
  have hb : (activeFile s db).bytes = bytesOf gf := activeFile_bytes h.dir h.asc (by rw [hg]; simp)
  refine ⟨⟨?_, ?_, ?_, ?_⟩, rfl⟩
  · have hbytes : appendRec C (activeFile s db).bytes (encodeRecord (finRec b.id)) = bytesOf (gf ++ [finRec b.id]) := by
      rw [bytesOf_append, hb]
    have h1 := DirOK_putFile h.dir db.activeId
      ⟨appendRec C (activeFile s db).bytes (encodeRecord (finRec b.id)),
        if b.sync then (appendRec C (activeFile s db).bytes (encodeRecord (finRec b.id))).size
        else (activeFile s db).synced⟩ (gf ++ [finRec b.id]) hbytes
    rw [hg, gset_last g0 db.activeId gf _ hlt] at h1
    exact h1
  · have := h.asc
    rw [hg] at this
    obtain ⟨a1, _, a3⟩ := List.pairwise_append.mp this
    exact List.pairwise_append.mpr ⟨a1, by simp, fun a ha b hb' => by
      simp only [List.mem_singleton] at hb'; rw [hb']; exact hlt a ha⟩
  · simp
  · intro x hx r' hr'
    rcases List.mem_append.mp hx with hx | hx
    · exact h.recs x (by rw [hg]; simp [hx]) r' hr'
    · simp only [List.mem_singleton] at hx
      rw [hx] at hr'
      rcases List.mem_append.mp hr' with hr' | hr'
      · exact h.recs (db.activeId, gf) (by rw [hg]; simp) r' hr'
      · simp only [List.mem_singleton] at hr'; rw [hr']; exact finRec_ok b.id hid

/-- rotation adds an empty file: the size invariant is kept -/
theorem rotate_size {L : Nat} {s : St} {db : DB} {g : GDir} (h : Files s db g) (hsz : SizeInv L g) :
    Files (rotate s db).1 (rotate s db).2 (g ++ [(db.activeId + 1, [])]) ∧
      SizeInv L (g ++ [(db.activeId + 1, [])]) ∧ (rotate s db).1.db = s.db ∧
      (rotate s db).2.cfg = db.cfg ∧ (rotate s db).2.batch = db.batch ∧
      (rotate s db).2.activeId = db.activeId + 1 := by
  obtain ⟨hf, hdb, hs⟩ := rotate_spec h
  exact ⟨hf, SizeInv_snoc hsz (FileOK_nil L), hs, by rw [hdb], by rw [hdb], by rw [hdb]⟩

/-! ### `appendLogRecord` keeps the size invariant -/

/-- **`appendLogRecord`**: it rotates BEFORE appending when the estimate does not fit, so afterwards
    the active file is within the limit (no rotation: `size + estimate ≤ fileSize` and the estimate
    bounds the growth) or holds exactly the one new record (rotation) -/
theorem appendLog_size {L : Nat} {s : St} {db : DB} {g : GDir} (h : Files s db g) (hsz : SizeInv L g)
    (hL : db.cfg.fileSize ≤ L) (r : Record) (hr : RecOK r) (hsm : Small r) :
    ∃ g', Files (appendLog s db r).1 (appendLog s db r).2.1 g' ∧ SizeInv L g' ∧
      (appendLog s db r).1.db = s.db ∧ (appendLog s db r).2.1.cfg = db.cfg ∧
      (appendLog s db r).2.1.batch = db.batch := by
  obtain ⟨g0, gf, hg, _⟩ := h.last
  have hb : (activeFile s db).bytes = bytesOf gf := activeFile_bytes h.dir h.asc (by rw [hg]; simp)
  rw [appendLog_eq]
  split
  · obtain ⟨hf, hsz1, hs, hcfg, hbat, hact⟩ := rotate_size h hsz
    obtain ⟨h1, h2, h3, h4, _⟩ := appendTail_specG (g0 := g) (gf := []) hf (by rw [hact]) r hr
    refine ⟨_, h1, ?_, h2.trans hs, h3.trans hcfg, h4.trans hbat⟩
    exact SizeInv_snoc hsz (Or.inr (Or.inl ⟨r, rfl⟩))
  · rename_i hfit
    obtain ⟨h1, h2, h3, h4, _⟩ := appendTail_specG h hg r hr
    refine ⟨_, h1, ?_, h2, h3, h4⟩
    rw [hg] at hsz
    refine SizeInv_snoc (SizeInv_init hsz) (Or.inl ?_)
    have := size_bytesOf_snoc_le gf r hr hsm
    rw [hb] at hfit
    omega


/-! ### the plain operations -/

theorem put_size {L : Nat} {s : St} {db : DB} {g : GDir} (h : Files s db g) (hsz : SizeInv L g)
    (hL : db.cfg.fileSize ≤ L) (hs : s.db = some db) (k v : ByteArray) (hk0 : 0 < k.size)
    (hk : k.size < 2 ^ 31) (hv : v.size < 2 ^ 31) (hsm : k.size + v.size ≤ 2 ^ 27) :
    ∃ db' g', (put s k v).1.db = some db' ∧ Files (put s k v).1 db' g' ∧ SizeInv L g' ∧
      db'.cfg = db.cfg ∧ db'.batch = db.batch := by
  have hr : RecOK { typ := 0, key := k, value := v, batch := 0 } :=
    ⟨by show 0 < 3; omega, hk0, hk, hv, by show 0 < 2 ^ 64; decide⟩
  obtain ⟨g', h1, h2, _, h4, h5⟩ := appendLog_size h hsz hL _ hr hsm
  rw [put_eq hs k v (by omega)]
  exact ⟨_, g', rfl, h1.congr rfl rfl rfl, h2, h4, h5⟩

theorem delete_size {L : Nat} {s : St} {db : DB} {g : GDir} (h : Files s db g) (hsz : SizeInv L g)
    (hL : db.cfg.fileSize ≤ L) (hs : s.db = some db) (k : ByteArray) (hk0 : 0 < k.size)
    (hk : k.size < 2 ^ 31) (hks : k.size ≤ 2 ^ 27) :
    ∃ db' g', (delete s k).1.db = some db' ∧ Files (delete s k).1 db' g' ∧ SizeInv L g' ∧
      db'.cfg = db.cfg ∧ db'.batch = db.batch := by
  cases hg : Index.get db.index k with
  | none =>
    rw [delete_eq_none hs k (by omega) hg]
    exact ⟨db, g, hs, h, hsz, rfl, rfl⟩
  | some old =>
    have hr : RecOK { typ := 1, key := k, value := ByteArray.empty, batch := 0 } :=
      ⟨by show 1 < 3; omega, hk0, hk, by show 0 < 2 ^ 31; decide, by show 0 < 2 ^ 64; decide⟩
    have hsm : Small { typ := 1, key := k, value := ByteArray.empty, batch := 0 } := by
      show k.size + ByteArray.empty.size ≤ 2 ^ 27
      have e0 : ByteArray.empty.size = 0 := rfl
      omega
    obtain ⟨g', h1, h2, _, h4, h5⟩ := appendLog_size h hsz hL _ hr hsm
    rw [delete_eq_some hs k (by omega) hg]
    exact ⟨_, g', rfl, h1.congr rfl rfl rfl, h2, h4, h5⟩


/-! ### the batch side: what the staging area promises about the next flush -/

/-- the estimate `Batch.Put` / `Batch.Delete` charge for a staged record -/
def est (r : Staged) : Nat := diskSizeEstimate r.key.size r.value.size

/-- sum of the estimates of the staged records -/
def estSum (st : List Staged) : Nat := (st.map est).sum

theorem estSum_nil : estSum [] = 0 := rfl

theorem estSum_cons (a : Staged) (t : List Staged) : estSum (a :: t) = est a + estSum t := by
  simp only [estSum, List.map_cons, List.sum_cons]

theorem estSum_append (a b : List Staged) : estSum (a ++ b) = estSum a + estSum b := by
  induction a with
  | nil => simp [estSum_nil]
  | cons x t ih => rw [List.cons_append, estSum_cons, estSum_cons, ih]; omega

theorem estSumR_toRec (id : Nat) (st : List Staged) : estSumR (st.map (toRec id)) = estSum st := by
  induction st with
  | nil => rfl
  | cons x t ih => rw [List.map_cons, estSumR_cons, estSum_cons, ih]; rfl

/-- **the batch-side size invariant** (relative to the configured file size `fs`).
    `cachedDataSize` is NOT an upper bound that keeps `cached + 70 ≤ fs` (a `Delete` of a staged
    key adds the old value length without any check), but it always dominates the sum of the
    estimates of the staged records, and that sum (plus the sealing record) fits one file unless
    the staging area holds a single record. -/
structure BSize (fs : Nat) (b : BatchSt) : Prop where
  sum_le : estSum b.staged ≤ b.cached
  room : estSum b.staged + maxFinRecord ≤ fs ∨ b.staged.length ≤ 1
  distinct : b.staged.Pairwise (fun a c => a.key ≠ c.key)
  ok : ∀ r ∈ b.staged, StagedOK r ∧ r.key.size + r.value.size ≤ 2 ^ 27
  idlt : b.id < 2 ^ 63

theorem BSize.flushed {fs : Nat} {b : BatchSt} (hb : BSize fs b) : BSize fs { b with staged := [], cached := 0 } :=
  ⟨Nat.le_refl _, Or.inr (Nat.zero_le _), List.Pairwise.nil, by intro r hr; simp at hr, hb.idlt⟩

theorem BSize.commit_flag {fs : Nat} {b : BatchSt} (hb : BSize fs b) : BSize fs { b with committed := true } :=
  ⟨hb.sum_le, hb.room, hb.distinct, hb.ok, hb.idlt⟩

theorem BSize_new (fs : Nat) (sync : Bool) (id : Nat) (h : id < 2 ^ 63) : BSize fs (newBatch sync id) :=
  ⟨Nat.le_refl _, Or.inr (Nat.zero_le _), List.Pairwise.nil, by intro r hr; simp [newBatch] at hr, h⟩

theorem BSize.recs {fs : Nat} {b : BatchSt} (hb : BSize fs b) :
    ∀ r ∈ b.staged.map (toRec b.id), RecOK r ∧ Small r := by
  intro r hr
  obtain ⟨x, hx, rfl⟩ := List.mem_map.mp hr
  have h64 : (2:Nat) ^ 63 ≤ 2 ^ 64 := by decide
  exact ⟨(hb.ok x hx).1.recOK (by have := hb.idlt; omega), (hb.ok x hx).2⟩

/-- staging a record for a key that has no staged record yet -/
theorem BSize.stage_new {fs : Nat} {b : BatchSt} (hb : BSize fs b) (r : Staged) (hr : StagedOK r)
    (hsm : r.key.size + r.value.size ≤ 2 ^ 27) (hnone : findStaged b.staged r.key = none) (e : Nat)
    (he : e = est r) (hroom : b.cached + e + maxFinRecord ≤ fs ∨ b.staged = []) :
    BSize fs { b with cached := b.cached + e, staged := b.staged ++ [r] } where
  sum_le := by
    have := hb.sum_le
    show estSum (b.staged ++ [r]) ≤ b.cached + e
    rw [estSum_append, estSum_cons, estSum_nil, he]; omega
  room := by
    have := hb.sum_le
    show estSum (b.staged ++ [r]) + maxFinRecord ≤ fs ∨ (b.staged ++ [r]).length ≤ 1
    rcases hroom with h1 | h1
    · left; rw [estSum_append, estSum_cons, estSum_nil, ← he]; omega
    · right; rw [h1]; simp
  distinct := by
    refine List.pairwise_append.mpr ⟨hb.distinct, List.pairwise_singleton _ _, ?_⟩
    intro a ha c hc
    simp only [List.mem_singleton] at hc
    rw [hc]
    exact findStaged_none hnone a ha
  ok := by
    intro x hx
    rcases List.mem_append.mp hx with hx | hx
    · exact hb.ok x hx
    · simp only [List.mem_singleton] at hx; rw [hx]; exact ⟨hr, hsm⟩
  idlt := hb.idlt

theorem map_rewrite_none (st : List Staged) (k : ByteArray) (f : Staged → Staged) (h : ∀ r ∈ st, r.key ≠ k) :
    st.map (fun x => if x.key = k then f x else x) = st := by
  induction st with
  | nil => rfl
  | cons a t ih =>
    simp only [List.map_cons]
    rw [if_neg (h a (by simp)), ih (fun r hr => h r (by simp [hr]))]

/-- with pairwise distinct staged keys the in-place rewrite changes exactly one summand -/
theorem estSum_rewrite (k v : ByteArray) (t : Nat) : ∀ (st : List Staged) (r0 : Staged),
    st.Pairwise (fun a c => a.key ≠ c.key) → findStaged st k = some r0 →
    estSum (st.map (fun x => if x.key = k then { x with typ := t, value := v } else x)) + est r0
      = estSum st + diskSizeEstimate k.size v.size := by
  intro st
  induction st with
  | nil => intro r0 _ h; simp [findStaged] at h
  | cons a tl ih =>
    intro r0 hd hfs
    obtain ⟨ha, ht⟩ := List.pairwise_cons.mp hd
    unfold findStaged at hfs
    by_cases e : a.key = k
    · rw [List.find?_cons_of_pos (by simpa using e)] at hfs
      cases hfs
      have hne : ∀ r ∈ tl, r.key ≠ k := fun r hr h' => ha r hr (e.trans h'.symm)
      simp only [List.map_cons]
      rw [if_pos e, map_rewrite_none tl k _ hne, estSum_cons, estSum_cons]
      show diskSizeEstimate a.key.size v.size + estSum tl + est a = est a + estSum tl + _
      rw [e]; omega
    · rw [List.find?_cons_of_neg (by simpa using e)] at hfs
      have := ih r0 ht hfs
      simp only [List.map_cons]
      rw [if_neg e, estSum_cons, estSum_cons]
      omega

theorem rewrite_key (k v : ByteArray) (t : Nat) (x : Staged) :
    (if x.key = k then ({ x with typ := t, value := v } : Staged) else x).key = x.key := by
  split <;> rfl

theorem rewrite_distinct (k v : ByteArray) (t : Nat) {st : List Staged}
    (hd : st.Pairwise (fun a c => a.key ≠ c.key)) :
    (st.map (fun x => if x.key = k then { x with typ := t, value := v } else x)).Pairwise
      (fun a c => a.key ≠ c.key) := by
  refine List.pairwise_map.mpr (hd.imp ?_)
  intro a c hac
  rw [rewrite_key, rewrite_key]
  exact hac

theorem rewrite_ok (k v : ByteArray) (t : Nat) (ht : t < 2) (hv : v.size < 2 ^ 31)
    (hsm : k.size + v.size ≤ 2 ^ 27) {st : List Staged}
    (hok : ∀ r ∈ st, StagedOK r ∧ r.key.size + r.value.size ≤ 2 ^ 27) :
    ∀ r ∈ st.map (fun x => if x.key = k then { x with typ := t, value := v } else x),
      StagedOK r ∧ r.key.size + r.value.size ≤ 2 ^ 27 := by
  intro x hx
  obtain ⟨y, hy, rfl⟩ := List.mem_map.mp hx
  obtain ⟨⟨h1, h2, h3, h4⟩, h5⟩ := hok y hy
  split
  · rename_i e
    refine ⟨⟨ht, h2, h3, hv⟩, ?_⟩
    show y.key.size + v.size ≤ 2 ^ 27
    rw [e]; exact hsm
  · exact ⟨⟨h1, h2, h3, h4⟩, h5⟩

/-- `Batch.Put` on an already staged key, rewritten in place (the check
    `cached + new + 70 ≤ fileSize + old` passed) -/
theorem BSize.rewrite_put {fs : Nat} {b : BatchSt} (hb : BSize fs b) (k v : ByteArray) (hv : v.size < 2 ^ 31)
    (hsm : k.size + v.size ≤ 2 ^ 27) {r0 : Staged} (hfs : findStaged b.staged k = some r0)
    (hcond : ¬ (b.cached + diskSizeEstimate k.size v.size + maxFinRecord
      > fs + diskSizeEstimate r0.key.size r0.value.size)) :
    BSize fs { b with
      cached := b.cached + diskSizeEstimate k.size v.size - diskSizeEstimate r0.key.size r0.value.size,
      staged := b.staged.map (fun x => if x.key = k then { x with typ := 0, value := v } else x) } where
  sum_le := by
    have h1 := estSum_rewrite k v 0 b.staged r0 hb.distinct hfs
    have h2 := hb.sum_le
    simp only [est] at h1
    show estSum (b.staged.map (fun x => if x.key = k then { x with typ := 0, value := v } else x))
      ≤ b.cached + diskSizeEstimate k.size v.size - diskSizeEstimate r0.key.size r0.value.size
    omega
  room := by
    have h1 := estSum_rewrite k v 0 b.staged r0 hb.distinct hfs
    have h2 := hb.sum_le
    simp only [est] at h1
    left
    show estSum (b.staged.map (fun x => if x.key = k then { x with typ := 0, value := v } else x))
      + maxFinRecord ≤ fs
    omega
  distinct := rewrite_distinct k v 0 hb.distinct
  ok := rewrite_ok k v 0 (by decide) hv hsm hb.ok
  idlt := hb.idlt

/-- `Batch.Delete` on an already staged key: the record becomes a tombstone in place and
    `cachedDataSize` GROWS by the old value length, without any check — the sum of the estimates
    does not grow (the estimate is monotone) -/
theorem BSize.rewrite_del {fs : Nat} {b : BatchSt} (hb : BSize fs b) (k : ByteArray) (hks : k.size ≤ 2 ^ 27)
    {r0 : Staged} (hfs : findStaged b.staged k = some r0) :
    BSize fs { b with
      cached := b.cached + r0.value.size,
      staged := b.staged.map (fun x => if x.key = k then { x with typ := 1, value := ByteArray.empty } else x) } where
  sum_le := by
    have h1 := estSum_rewrite k ByteArray.empty 1 b.staged r0 hb.distinct hfs
    have h2 := hb.sum_le
    have h3 : diskSizeEstimate k.size ByteArray.empty.size ≤ est r0 := by
      unfold est
      rw [(findStaged_key hfs).1]
      exact diskSizeEstimate_mono (Nat.le_refl _) (Nat.zero_le _)
    show estSum (b.staged.map (fun x => if x.key = k then { x with typ := 1, value := ByteArray.empty } else x))
      ≤ b.cached + r0.value.size
    omega
  room := by
    have h1 := estSum_rewrite k ByteArray.empty 1 b.staged r0 hb.distinct hfs
    have h3 : diskSizeEstimate k.size ByteArray.empty.size ≤ est r0 := by
      unfold est
      rw [(findStaged_key hfs).1]
      exact diskSizeEstimate_mono (Nat.le_refl _) (Nat.zero_le _)
    show estSum (b.staged.map (fun x => if x.key = k then { x with typ := 1, value := ByteArray.empty } else x))
      + maxFinRecord ≤ fs ∨ (b.staged.map (fun x => if x.key = k then { x with typ := 1, value := ByteArray.empty } else x)).length ≤ 1
    rcases hb.room with h | h
    · left; omega
    · right; rw [List.length_map]; exact h
  distinct := rewrite_distinct k ByteArray.empty 1 hb.distinct
  ok := rewrite_ok k ByteArray.empty 1 (by decide) (by show 0 < 2 ^ 31; decide)
    (by show k.size + 0 ≤ 2 ^ 27; omega) hb.ok
  idlt := hb.idlt

/-! ### `flushStaged` keeps the size invariant -/

theorem fileOK_of {L : Nat} {gf : GFile} (h : (bytesOf gf).size + maxFinRecord ≤ L ∨ ∃ r, gf = [r]) :
    FileOK L gf := by
  rcases h with h | h
  · exact Or.inl (by omega)
  · exact Or.inr (Or.inl h)

/-- the active file after a flush of a NON-empty staging area into a file that was empty or had
    room for `cached + 70` more bytes: there is still room for the sealing record, or the file
    holds exactly the one staged record -/
theorem flushed_file_ok {L fs : Nat} {b : BatchSt} (hb : BSize fs b) (hL : fs ≤ L) (hne : b.staged ≠ [])
    (gf : GFile) (hcase : gf = [] ∨ (bytesOf gf).size + b.cached + maxFinRecord ≤ fs) :
    (bytesOf (gf ++ b.staged.map (toRec b.id))).size + maxFinRecord ≤ L ∨
      ∃ r, gf ++ b.staged.map (toRec b.id) = [r] := by
  have hsize := size_bytesOf_append_le gf (b.staged.map (toRec b.id)) hb.recs
  rw [estSumR_toRec] at hsize
  have hsum := hb.sum_le
  rcases hcase with h0 | h1
  · subst h0
    have e0 : (bytesOf []).size = 0 := rfl
    rcases hb.room with hr | hr
    · left; omega
    · right
      cases hst : b.staged with
      | nil => exact absurd hst hne
      | cons x t =>
        cases t with
        | nil => exact ⟨toRec b.id x, rfl⟩
        | cons y t' => rw [hst] at hr; simp at hr
  · left; omega

/-- **`flushStaged`** (with or without the pre-rotation): all staged records go to ONE file; the
    size invariant is kept, and after flushing a non-empty staging area the active file still has
    room for the sealing record or holds exactly the one staged record -/
theorem flushStaged_size {L : Nat} {s : St} {db : DB} {g : GDir} (h : Files s db g) (hsz : SizeInv L g)
    (hL : db.cfg.fileSize ≤ L) (b : BatchSt) (hb : BSize db.cfg.fileSize b) :
    ∃ g1 gf1, Files (flushStaged s db b).1 (flushStaged s db b).2.1
        (g1 ++ [((flushStaged s db b).2.1.activeId, gf1)]) ∧
      SizeInv L (g1 ++ [((flushStaged s db b).2.1.activeId, gf1)]) ∧
      (flushStaged s db b).1.db = s.db ∧ (flushStaged s db b).2.1.cfg = db.cfg ∧
      (flushStaged s db b).2.1.batch = db.batch ∧
      (flushStaged s db b).2.2 = { b with staged := [], cached := 0 } ∧
      (b.staged ≠ [] → (bytesOf gf1).size + maxFinRecord ≤ L ∨ ∃ r, gf1 = [r]) := by
  obtain ⟨g0, gf, hg, _⟩ := h.last
  have hbytes : (activeFile s db).bytes = bytesOf gf := activeFile_bytes h.dir h.asc (by rw [hg]; simp)
  have hid : b.id < 2 ^ 64 := by
    have := hb.idlt
    have : (2:Nat) ^ 63 ≤ 2 ^ 64 := by decide
    omega
  have hok : ∀ r ∈ b.staged, StagedOK r := fun r hr => (hb.ok r hr).1
  rw [flushStaged_eq]
  split
  · rename_i hc
    obtain ⟨hc1, _, _⟩ := hc
    have hne : b.staged ≠ [] := by intro e; rw [e] at hc1; simp at hc1
    obtain ⟨hf, hsz1, hs, hcfg, hbat, hact⟩ := rotate_size h hsz
    obtain ⟨h1, h2, h3, h4, h5, h6⟩ := flushTail_specG (g0 := g) (gf := []) hf (by rw [hact]) b hok hid
    have hfile := flushed_file_ok hb hL hne [] (Or.inl rfl)
    refine ⟨g, [] ++ b.staged.map (toRec b.id), ?_, ?_, h2.trans hs, h3.trans hcfg, h4.trans hbat, h6,
      fun _ => hfile⟩
    · rw [h5]; exact h1
    · exact SizeInv_snoc hsz (fileOK_of hfile)
  · rename_i hc
    obtain ⟨h1, h2, h3, h4, h5, h6⟩ := flushTail_specG h hg b hok hid
    by_cases hne : b.staged = []
    · refine ⟨g0, gf, ?_, ?_, h2, h3, h4, h6, fun h' => absurd hne h'⟩
      · rw [h5]
        rw [hne] at h1
        simpa only [List.map_nil, List.append_nil] using h1
      · rw [h5, ← hg]; exact hsz
    · have hcase : gf = [] ∨ (bytesOf gf).size + b.cached + maxFinRecord ≤ db.cfg.fileSize := by
        rw [hbytes] at hc
        by_cases h0 : (bytesOf gf).size = 0
        · exact Or.inl (bytesOf_size_zero h0)
        · right
          have hemp : (!b.staged.isEmpty) = true := by
            cases hst : b.staged with
            | nil => exact absurd hst hne
            | cons _ _ => rfl
          apply Classical.byContradiction
          intro hcon
          exact hc ⟨hemp, by omega, by omega⟩
      have hfile := flushed_file_ok hb hL hne gf hcase
      refine ⟨g0, gf ++ b.staged.map (toRec b.id), by rw [h5]; exact h1, ?_, h2, h3, h4, h6, fun _ => hfile⟩
      rw [h5]
      rw [hg] at hsz
      exact SizeInv_snoc (SizeInv_init hsz) (fileOK_of hfile)

/-- **`flushStagedAndUpdateFile`** keeps the size invariant (with an empty staging area it only
    rotates) -/
theorem flushAndRotate_size {L : Nat} {s : St} {db : DB} {g : GDir} (h : Files s db g) (hsz : SizeInv L g)
    (hL : db.cfg.fileSize ≤ L) (b : BatchSt) (hb : BSize db.cfg.fileSize b) :
    ∃ g', Files (flushAndRotate s db b).1 (flushAndRotate s db b).2.1 g' ∧ SizeInv L g' ∧
      (flushAndRotate s db b).1.db = s.db ∧ (flushAndRotate s db b).2.1.cfg = db.cfg ∧
      (flushAndRotate s db b).2.1.batch = db.batch ∧
      (flushAndRotate s db b).2.2 = { b with staged := [], cached := 0 } := by
  obtain ⟨g1, gf1, h1, h2, h3, h4, h5, h6, _⟩ := flushStaged_size h hsz hL b hb
  obtain ⟨r1, r2, r3, r4, r5, _⟩ := rotate_size h1 h2
  rw [flushAndRotate_eq]
  exact ⟨_, r1, r2, r3.trans h3, r4.trans h4, r5.trans h5, h6⟩


/-! ### the batch operations -/

/-- an open database with an open batch object whose files respect the limit `L` -/
structure BOK (L : Nat) (s : St) (db : DB) (g : GDir) (b : BatchSt) : Prop where
  open_ : s.db = some db
  batch : db.batch = some b
  files : Files s db g
  sizes : SizeInv L g
  lim : db.cfg.fileSize ≤ L
  bsize : BSize db.cfg.fileSize b

theorem BOK.install {L : Nat} {s1 : St} {db1 : DB} {g1 : GDir} (b2 : BatchSt) (hf : Files s1 db1 g1)
    (hsz : SizeInv L g1) (hL : db1.cfg.fileSize ≤ L) (hb : BSize db1.cfg.fileSize b2) :
    BOK L { s1 with db := some { db1 with batch := some b2 } } { db1 with batch := some b2 } g1 b2 :=
  ⟨rfl, rfl, hf.congr rfl rfl rfl, hsz, hL, hb⟩

/-- flush-and-rotate, then stage `r` as the only staged record -/
theorem BOK.flush_stage {L : Nat} {s : St} {db : DB} {g : GDir} {b : BatchSt} (h : BOK L s db g b)
    (r : Staged) (hr : StagedOK r) (hsm : r.key.size + r.value.size ≤ 2 ^ 27) (e : Nat) (he : e = est r) :
    ∃ g', BOK L
      { (flushAndRotate s db b).1 with db := some { (flushAndRotate s db b).2.1 with
          batch := some { (flushAndRotate s db b).2.2 with
            cached := (flushAndRotate s db b).2.2.cached + e,
            staged := (flushAndRotate s db b).2.2.staged ++ [r] } } }
      { (flushAndRotate s db b).2.1 with
          batch := some { (flushAndRotate s db b).2.2 with
            cached := (flushAndRotate s db b).2.2.cached + e,
            staged := (flushAndRotate s db b).2.2.staged ++ [r] } }
      g'
      { (flushAndRotate s db b).2.2 with
            cached := (flushAndRotate s db b).2.2.cached + e,
            staged := (flushAndRotate s db b).2.2.staged ++ [r] } ∧
      (flushAndRotate s db b).2.1.cfg = db.cfg := by
  obtain ⟨g', f1, f2, _, f4, _, f6⟩ := flushAndRotate_size h.files h.sizes h.lim b h.bsize
  have hb1 : BSize (flushAndRotate s db b).2.1.cfg.fileSize (flushAndRotate s db b).2.2 := by
    rw [f4, f6]; exact h.bsize.flushed
  refine ⟨g', BOK.install _ f1 f2 (by rw [f4]; exact h.lim)
    (hb1.stage_new r hr hsm (by rw [f6]; rfl) e he (Or.inr (by rw [f6]))), f4⟩

/-- **Batch.Put** keeps the size invariant on both sides (files and staging area), in all branches:
    new key with or without flush-and-rotate, staged key with flush-and-rotate or rewritten in place -/
theorem bput_size {L : Nat} {s : St} {db : DB} {g : GDir} {b : BatchSt} (h : BOK L s db g b) (k v : ByteArray)
    (hk : k.size < 2 ^ 31) (hv : v.size < 2 ^ 31) (hsm : k.size + v.size ≤ 2 ^ 27) :
    ∃ db' g' b', BOK L (bput s k v).1 db' g' b' ∧ db'.cfg = db.cfg := by
  by_cases hk0 : k.size = 0
  · rw [bput_keyempty h.open_ h.batch k v hk0]; exact ⟨db, g, b, h, rfl⟩
  by_cases hc : b.committed = true
  · rw [bput_committed h.open_ h.batch k v hk0 hc]; exact ⟨db, g, b, h, rfl⟩
  have hr : StagedOK { typ := 0, key := k, value := v } := ⟨Nat.zero_lt_two, by show 0 < k.size; omega, hk, hv⟩
  unfold bput
  rw [withBatch_eq h.open_ h.batch]
  simp only [if_neg hk0, if_neg hc]
  cases hfs : findStaged b.staged k with
  | none =>
    simp only []
    by_cases hcond : b.cached + diskSizeEstimate k.size v.size + maxFinRecord > db.cfg.fileSize
    · simp only [if_pos hcond]
      obtain ⟨g', H, hcfg⟩ := h.flush_stage { typ := 0, key := k, value := v } hr hsm
        (diskSizeEstimate k.size v.size) rfl
      exact ⟨_, g', _, H, hcfg⟩
    · simp only [if_neg hcond]
      exact ⟨_, g, _, BOK.install _ h.files h.sizes h.lim
        (h.bsize.stage_new { typ := 0, key := k, value := v } hr hsm hfs _ rfl (Or.inl (by omega))), rfl⟩
  | some r0 =>
    simp only []
    by_cases hcond : b.cached + diskSizeEstimate k.size v.size + maxFinRecord
        > db.cfg.fileSize + diskSizeEstimate r0.key.size r0.value.size
    · simp only [if_pos hcond]
      obtain ⟨g', H, hcfg⟩ := h.flush_stage { typ := 0, key := k, value := v } hr hsm
        (diskSizeEstimate k.size v.size) rfl
      exact ⟨_, g', _, H, hcfg⟩
    · simp only [if_neg hcond]
      exact ⟨_, g, _, BOK.install _ h.files h.sizes h.lim (h.bsize.rewrite_put k v hv hsm hfs hcond), rfl⟩

/-- **Batch.Delete** keeps the size invariant on both sides, in all branches -/
theorem bdel_size {L : Nat} {s : St} {db : DB} {g : GDir} {b : BatchSt} (h : BOK L s db g b) (k : ByteArray)
    (hk : k.size < 2 ^ 31) (hks : k.size ≤ 2 ^ 27) :
    ∃ db' g' b', BOK L (bdel s k).1 db' g' b' ∧ db'.cfg = db.cfg := by
  by_cases hk0 : k.size = 0
  · rw [bdel_keyempty h.open_ h.batch k hk0]; exact ⟨db, g, b, h, rfl⟩
  by_cases hc : b.committed = true
  · rw [bdel_committed h.open_ h.batch k hk0 hc]; exact ⟨db, g, b, h, rfl⟩
  have hr : StagedOK { typ := 1, key := k, value := ByteArray.empty } :=
    ⟨Nat.one_lt_two, by show 0 < k.size; omega, hk, by show 0 < 2 ^ 31; decide⟩
  have hsm : k.size + ByteArray.empty.size ≤ 2 ^ 27 := by show k.size + 0 ≤ 2 ^ 27; omega
  unfold bdel
  rw [withBatch_eq h.open_ h.batch]
  simp only [if_neg hk0, if_neg hc]
  cases hfs : findStaged b.staged k with
  | some r0 =>
    simp only []
    exact ⟨_, g, _, BOK.install _ h.files h.sizes h.lim (h.bsize.rewrite_del k hks hfs), rfl⟩
  | none =>
    simp only []
    cases hget : Index.get db.index k with
    | none => exact ⟨db, g, b, h, rfl⟩
    | some old =>
      simp only []
      by_cases hcond : b.cached + diskSizeEstimate k.size 0 + maxFinRecord > db.cfg.fileSize
      · simp only [if_pos hcond]
        obtain ⟨g', H, hcfg⟩ := h.flush_stage { typ := 1, key := k, value := ByteArray.empty } hr hsm
          (diskSizeEstimate k.size 0) rfl
        exact ⟨_, g', _, H, hcfg⟩
      · simp only [if_neg hcond]
        exact ⟨_, g, _, BOK.install _ h.files h.sizes h.lim
          (h.bsize.stage_new { typ := 1, key := k, value := ByteArray.empty } hr hsm hfs _ rfl
            (Or.inl (by omega))), rfl⟩

/-- **Commit** keeps the size invariant: after `flushStaged` of a non-empty staging area the active
    file has room for the sealing record (≤ 70 bytes) or holds exactly the one staged record, which
    the sealing record then follows -/
theorem bcommit_size {L : Nat} {s : St} {db : DB} {g : GDir} {b : BatchSt} (h : BOK L s db g b) :
    ∃ db' g' b', BOK L (bcommit s).1 db' g' b' ∧ db'.cfg = db.cfg := by
  by_cases hc : b.committed = true
  · rw [bcommit_committed h.open_ h.batch hc]; exact ⟨db, g, b, h, rfl⟩
  have hc' : b.committed = false := by simpa using hc
  by_cases he : b.staged = []
  · rw [bcommit_empty h.open_ h.batch hc' he]
    exact ⟨_, g, _, BOK.install _ h.files h.sizes h.lim h.bsize.commit_flag, rfl⟩
  · rw [bcommit_nonempty h.open_ h.batch hc' he]
    have hbc : BSize db.cfg.fileSize { b with committed := true } := h.bsize.commit_flag
    obtain ⟨g1, gf1, f1, f2, _, f4, _, f6, f7⟩ :=
      flushStaged_size h.files h.sizes h.lim { b with committed := true } hbc
    have hfile := f7 he
    generalize flushStaged s db { b with committed := true } = F at *
    obtain ⟨s1, db1, b1⟩ := F
    simp only [] at f1 f2 f4 f6 ⊢
    subst f6
    obtain ⟨q1, _⟩ := seal_specG f1 rfl { b with staged := [], cached := 0, committed := true } h.bsize.idlt
    refine ⟨_, g1 ++ [(db1.activeId, gf1 ++ [finRec b.id])], _,
      ⟨rfl, rfl, q1.congr rfl rfl rfl, ?_, by show db1.cfg.fileSize ≤ L; rw [f4]; exact h.lim, ?_⟩, f4⟩
    · refine SizeInv_snoc (SizeInv_init f2) ?_
      rcases hfile with hA | ⟨r, hr⟩
      · left
        have := size_bytesOf_seal_le gf1 b.id h.bsize.idlt
        omega
      · right; right; exact ⟨r, b.id, by rw [hr]; rfl⟩
    · show BSize db1.cfg.fileSize _
      rw [f4]; exact hbc.flushed

theorem withBatch_nobatch {s : St} {db : DB} (hs : s.db = some db) (hb : db.batch = none)
    (f : DB → BatchSt → St × Res) : withBatch s f = (s, .err "no-batch") := by
  unfold withBatch
  simp only [hs, hb]

theorem get_state (s : St) (k : ByteArray) : (get s k).1 = s := by
  unfold get withDB
  cases s.db with
  | none => rfl
  | some db =>
    simp only []
    split
    · rfl
    · split <;> rfl

/-! ### the state predicate and its preservation by every operation -/

/-- **the size invariant of an open database** relative to a bound `L ≥ DataFileSize`: the data
    files match a ghost directory in which every file is within `L` or holds exactly one record
    (plus, for a batch, its sealing record); if a batch object is attached to the handle, its staging
    area satisfies `BSize` -/
def SizeOK (L : Nat) (s : St) : Prop :=
  ∃ db g, s.db = some db ∧ Files s db g ∧ SizeInv L g ∧ db.cfg.fileSize ≤ L ∧
    ∀ b, db.batch = some b → BSize db.cfg.fileSize b

theorem SizeOK.mono {L L' : Nat} (h : L ≤ L') {s : St} (hs : SizeOK L s) : SizeOK L' s := by
  obtain ⟨db, g, h1, h2, h3, h4, h5⟩ := hs
  exact ⟨db, g, h1, h2, h3.mono h, Nat.le_trans h4 h, h5⟩

theorem BOK.sizeOK {L : Nat} {s : St} {db : DB} {g : GDir} {b : BatchSt} (h : BOK L s db g b) : SizeOK L s :=
  ⟨db, g, h.open_, h.files, h.sizes, h.lim, fun b' hb' => by
    rw [h.batch] at hb'; cases hb'; exact h.bsize⟩

theorem SizeOK_put {L : Nat} {s : St} (h : SizeOK L s) (k v : ByteArray) (hk : k.size < 2 ^ 31)
    (hv : v.size < 2 ^ 31) (hsm : k.size + v.size ≤ 2 ^ 27) : SizeOK L (put s k v).1 := by
  obtain ⟨db, g, h1, h2, h3, h4, h5⟩ := h
  by_cases hk0 : k.size = 0
  · rw [put_keyempty s k v hk0 h1]; exact ⟨db, g, h1, h2, h3, h4, h5⟩
  · obtain ⟨db', g', e1, e2, e3, e4, e5⟩ := put_size h2 h3 h4 h1 k v (by omega) hk hv hsm
    exact ⟨db', g', e1, e2, e3, by rw [e4]; exact h4, by rw [e4, e5]; exact h5⟩

theorem SizeOK_delete {L : Nat} {s : St} (h : SizeOK L s) (k : ByteArray) (hk : k.size < 2 ^ 31)
    (hks : k.size ≤ 2 ^ 27) : SizeOK L (delete s k).1 := by
  obtain ⟨db, g, h1, h2, h3, h4, h5⟩ := h
  by_cases hk0 : k.size = 0
  · rw [delete_keyempty s k hk0 h1]; exact ⟨db, g, h1, h2, h3, h4, h5⟩
  · obtain ⟨db', g', e1, e2, e3, e4, e5⟩ := delete_size h2 h3 h4 h1 k (by omega) hk hks
    exact ⟨db', g', e1, e2, e3, by rw [e4]; exact h4, by rw [e4, e5]; exact h5⟩

theorem SizeOK_get {L : Nat} {s : St} (h : SizeOK L s) (k : ByteArray) : SizeOK L (get s k).1 := by
  rw [get_state]; exact h

theorem SizeOK_sync {L : Nat} {s : St} (h : SizeOK L s) : SizeOK L (syncDB s).1 := by
  obtain ⟨db, g, h1, h2, h3, h4, h5⟩ := h
  unfold syncDB withDB
  rw [h1]
  exact ⟨db, g, h1, Files_sync h2, h3, h4, h5⟩

theorem SizeOK_bnew {L : Nat} {s : St} (h : SizeOK L s) (sync : Bool) (id : Nat) (hid : id < 2 ^ 63) :
    SizeOK L (bnew s sync id).1 := by
  obtain ⟨db, g, h1, h2, h3, h4, _⟩ := h
  rw [bnew_eq h1]
  exact (BOK.install (newBatch sync id) h2 h3 h4 (BSize_new _ sync id hid)).sizeOK

theorem SizeOK_bdrop {L : Nat} {s : St} (h : SizeOK L s) : SizeOK L (bdrop s).1 := by
  obtain ⟨db, g, h1, h2, h3, h4, _⟩ := h
  rw [bdrop_eq h1]
  exact ⟨_, g, rfl, h2.congr rfl rfl rfl, h3, h4, fun b hb => by simp at hb⟩

theorem SizeOK_bget {L : Nat} {s : St} (h : SizeOK L s) (k : ByteArray) : SizeOK L (bget s k).1 := by
  rw [bget_state]; exact h

theorem SizeOK_bput {L : Nat} {s : St} (h : SizeOK L s) (k v : ByteArray) (hk : k.size < 2 ^ 31)
    (hv : v.size < 2 ^ 31) (hsm : k.size + v.size ≤ 2 ^ 27) : SizeOK L (bput s k v).1 := by
  obtain ⟨db, g, h1, h2, h3, h4, h5⟩ := h
  cases hb : db.batch with
  | none =>
    unfold bput
    rw [withBatch_nobatch h1 hb]
    exact ⟨db, g, h1, h2, h3, h4, h5⟩
  | some b =>
    obtain ⟨db', g', b', H, _⟩ := bput_size (⟨h1, hb, h2, h3, h4, h5 b hb⟩ : BOK L s db g b) k v hk hv hsm
    exact H.sizeOK

theorem SizeOK_bdel {L : Nat} {s : St} (h : SizeOK L s) (k : ByteArray) (hk : k.size < 2 ^ 31)
    (hks : k.size ≤ 2 ^ 27) : SizeOK L (bdel s k).1 := by
  obtain ⟨db, g, h1, h2, h3, h4, h5⟩ := h
  cases hb : db.batch with
  | none =>
    unfold bdel
    rw [withBatch_nobatch h1 hb]
    exact ⟨db, g, h1, h2, h3, h4, h5⟩
  | some b =>
    obtain ⟨db', g', b', H, _⟩ := bdel_size (⟨h1, hb, h2, h3, h4, h5 b hb⟩ : BOK L s db g b) k hk hks
    exact H.sizeOK

theorem SizeOK_bcommit {L : Nat} {s : St} (h : SizeOK L s) : SizeOK L (bcommit s).1 := by
  obtain ⟨db, g, h1, h2, h3, h4, h5⟩ := h
  cases hb : db.batch with
  | none =>
    unfold bcommit
    rw [withBatch_nobatch h1 hb]
    exact ⟨db, g, h1, h2, h3, h4, h5⟩
  | some b =>
    obtain ⟨db', g', b', H, _⟩ := bcommit_size (⟨h1, hb, h2, h3, h4, h5 b hb⟩ : BOK L s db g b)
    exact H.sizeOK

/-- the freshly opened empty database -/
theorem SizeOK_fresh (dir : String) (cfg : Cfg) (h : cfg.Valid) :
    SizeOK cfg.fileSize (openDB St.init dir cfg).1 := by
  rw [openDB_fresh dir cfg h]
  refine ⟨_, [(0, [])], rfl, (Inv_fresh dir cfg).files, ?_, Nat.le_refl _, fun b hb => by simp at hb⟩
  intro x hx
  simp only [List.mem_singleton] at hx
  rw [hx]
  exact FileOK_nil _

/-- the meaning of `SizeOK` on the bytes of the directory: every data file of the open database is
    within `L`, or consists of exactly one framed record, or of exactly one framed record followed
    by a batch's sealing record -/
theorem SizeOK.bytes {L : Nat} {s : St} (h : SizeOK L s) :
    ∃ db, s.db = some db ∧ ∀ x ∈ (dirOf s db).data,
      x.2.bytes.size ≤ L ∨ (∃ r, x.2.bytes = bytesOf [r]) ∨ (∃ r id, x.2.bytes = bytesOf [r, finRec id]) := by
  obtain ⟨db, g, h1, h2, h3, _, _⟩ := h
  refine ⟨db, h1, ?_⟩
  obtain ⟨d, hd, _, hm⟩ := h2.dir
  rw [dirOf_eq hd]
  have key : ∀ (data : List (Nat × FileSt)) (g : GDir), Matches data g → SizeInv L g →
      ∀ x ∈ data, x.2.bytes.size ≤ L ∨ (∃ r, x.2.bytes = bytesOf [r]) ∨
        (∃ r id, x.2.bytes = bytesOf [r, finRec id]) := by
    intro data
    induction data with
    | nil => intro g _ _ x hx; simp at hx
    | cons y t ih =>
      intro g hm hs x hx
      obtain ⟨z, g', rfl, _, e2, e3⟩ := Matches_cons_left hm
      rcases List.mem_cons.mp hx with e | hx
      · rw [e, e2]
        rcases hs z (by simp) with c | ⟨r, c⟩ | ⟨r, id, c⟩
        · exact Or.inl c
        · exact Or.inr (Or.inl ⟨r, by rw [c]⟩)
        · exact Or.inr (Or.inr ⟨r, id, by rw [c]⟩)
      · exact ih g' e3 (fun w hw => hs w (by simp [hw])) x hx
  exact key d.data g hm h3


/-- **a file that exceeds the bound**: it is exactly the framing of one record, or of one record
    followed by the sealing record of its batch — and then the first record's framing alone exceeds
    `L − 70` (the sealing record occupies at most `maxFinRecord = 70` bytes) -/
theorem SizeOK.exceeds {L : Nat} {s : St} (h : SizeOK L s) :
    ∃ db, s.db = some db ∧ ∀ x ∈ (dirOf s db).data, L < x.2.bytes.size →
      (∃ r, x.2.bytes = bytesOf [r]) ∨
      (∃ r id, x.2.bytes = bytesOf [r, finRec id] ∧ L < (bytesOf [r]).size + maxFinRecord) := by
  obtain ⟨db, g, h1, h2, h3, _, _⟩ := h
  refine ⟨db, h1, ?_⟩
  obtain ⟨d, hd, _, hm⟩ := h2.dir
  rw [dirOf_eq hd]
  have key : ∀ (data : List (Nat × FileSt)) (g : GDir), Matches data g → SizeInv L g →
      (∀ x ∈ g, ∀ r ∈ x.2, RecOK r) →
      ∀ x ∈ data, L < x.2.bytes.size → (∃ r, x.2.bytes = bytesOf [r]) ∨
        (∃ r id, x.2.bytes = bytesOf [r, finRec id] ∧ L < (bytesOf [r]).size + maxFinRecord) := by
    intro data
    induction data with
    | nil => intro g _ _ _ x hx; simp at hx
    | cons y t ih =>
      intro g hm hs hr x hx hbig
      obtain ⟨z, g', rfl, _, e2, e3⟩ := Matches_cons_left hm
      rcases List.mem_cons.mp hx with e | hx
      · rw [e, e2] at hbig
        rw [e, e2]
        rcases hs z (by simp) with c | ⟨r, c⟩ | ⟨r, id, c⟩
        · omega
        · exact Or.inl ⟨r, by rw [c]⟩
        · refine Or.inr ⟨r, id, by rw [c], ?_⟩
          have hfin : RecOK (finRec id) := hr z (by simp) (finRec id) (by rw [c]; simp)
          have hid : id < 2 ^ 64 := hfin.2.2.2.2
          have := size_bytesOf_seal_le64 [r] id hid
          rw [c] at hbig
          have e4 : [r] ++ [finRec id] = [r, finRec id] := rfl
          rw [e4] at this
          omega
      · exact ih g' e3 (fun w hw => hs w (by simp [hw])) (fun w hw => hr w (by simp [hw])) x hx hbig
  exact key d.data g hm h3 h2.recs

/-! ### all user-level write paths in one trace type (plain operations and batch operations,
    in any interleaving the API allows) -/

inductive AOp where
  | put : ByteArray → ByteArray → AOp
  | del : ByteArray → AOp
  | get : ByteArray → AOp
  | sync : AOp
  | bnew : Bool → Nat → AOp
  | bput : ByteArray → ByteArray → AOp
  | bdel : ByteArray → AOp
  | bget : ByteArray → AOp
  | bcommit : AOp
  | bdrop : AOp

/-- one operation on the executable model -/
def astep (s : St) : AOp → St × Res
  | .put k v => Engine.put s k v
  | .del k => Engine.delete s k
  | .get k => Engine.get s k
  | .sync => Engine.syncDB s
  | .bnew sync id => Engine.bnew s sync id
  | .bput k v => Engine.bput s k v
  | .bdel k => Engine.bdel s k
  | .bget k => Engine.bget s k
  | .bcommit => Engine.bcommit s
  | .bdrop => Engine.bdrop s

/-- a list of operations on the executable model: the final state -/
def arun (s : St) : List AOp → St
  | [] => s
  | op :: ops => arun (astep s op).1 ops

/-- side conditions: key and value together at most 2^27 bytes (128 MiB); batch ids are positive
    `int64` values (snowflake ids) -/
def AOpOK : AOp → Prop
  | .put k v => k.size + v.size ≤ 2 ^ 27
  | .del k => k.size ≤ 2 ^ 27
  | .bnew _ id => id < 2 ^ 63
  | .bput k v => k.size + v.size ≤ 2 ^ 27
  | .bdel k => k.size ≤ 2 ^ 27
  | _ => True

theorem lt31_of_le27 {n : Nat} (h : n ≤ 2 ^ 27) : n < 2 ^ 31 := by
  have : (2:Nat) ^ 27 < 2 ^ 31 := by decide
  omega

theorem SizeOK_astep {L : Nat} {s : St} (h : SizeOK L s) (op : AOp) (hop : AOpOK op) :
    SizeOK L (astep s op).1 := by
  cases op with
  | put k v =>
    have hop' : k.size + v.size ≤ 2 ^ 27 := hop
    exact SizeOK_put h k v (lt31_of_le27 (by omega)) (lt31_of_le27 (by omega)) hop'
  | del k => exact SizeOK_delete h k (lt31_of_le27 hop) hop
  | get k => exact SizeOK_get h k
  | sync => exact SizeOK_sync h
  | bnew sy id => exact SizeOK_bnew h sy id hop
  | bput k v =>
    have hop' : k.size + v.size ≤ 2 ^ 27 := hop
    exact SizeOK_bput h k v (lt31_of_le27 (by omega)) (lt31_of_le27 (by omega)) hop'
  | bdel k => exact SizeOK_bdel h k (lt31_of_le27 hop) hop
  | bget k => exact SizeOK_bget h k
  | bcommit => exact SizeOK_bcommit h
  | bdrop => exact SizeOK_bdrop h

theorem SizeOK_arun {L : Nat} (ops : List AOp) : ∀ {s : St}, SizeOK L s → (∀ op ∈ ops, AOpOK op) →
    SizeOK L (arun s ops) := by
  induction ops with
  | nil => intro s h _; exact h
  | cons op ops ih =>
    intro s h hok
    exact ih (SizeOK_astep h op (hok op (by simp))) (fun o ho => hok o (by simp [ho]))

end XixiKV.Engine.PolicyP.Size
