import XixiKV.Proofs.EnginePolicy
import XixiKV.Proofs.HistoryReplay
/-!
# Histories, part 2: how the ghost directory grows under every user-level operation

`Grown P a g g'`: the ghost directory `g'` is obtained from `g` (active file id `a`) by appending
records satisfying `P` to the active file and by adding new files behind it — expressed through its
consequences for EVERY marker `n ≤ a`: the files below `n` are untouched, every record in a file
`≥ n` is an old one or satisfies `P`, and there is a file `≥ n`.  (In this form the relation is
trivially transitive.)

`GStep P db g s' db' g'`: `g'` is the ghost directory of the state `s'` / handle `db'`, it has grown
from `g`, the active id did not decrease, and the log of `g'` is the log of `g` plus entries whose
records satisfy `P` (`LogExt`).  Every write path of the model is a `GStep`
(`put_gstep`, `delete_gstep`, `bput_gstep`, `bdel_gstep`, `bcommit_gstep`, …).
-/
namespace XixiKV.Engine.HistP
open XixiKV XixiKV.Frame XixiKV.Record XixiKV.Index XixiKV.Engine XixiKV.Engine.Restart XixiKV.Engine.MergeP
open XixiKV.Engine.BatchP

def Grown (P : Record → Prop) (a : Nat) (g g' : GDir) : Prop :=
  ∀ n, n ≤ a → lo g' n = lo g n ∧
    (∀ x ∈ hi g' n, ∀ r ∈ x.2, (∃ y ∈ hi g n, r ∈ y.2) ∨ P r) ∧ (∃ x ∈ g', n ≤ x.1)

theorem Grown.refl (P : Record → Prop) {a : Nat} {g : GDir} (h : ∃ x ∈ g, a ≤ x.1) : Grown P a g g := by
  intro n hn
  obtain ⟨x, hx, ha⟩ := h
  exact ⟨rfl, fun y hy r hr => Or.inl ⟨y, hy, hr⟩, ⟨x, hx, by omega⟩⟩

theorem Grown.trans {P : Record → Prop} {a a' : Nat} {g g' g'' : GDir} (h : Grown P a g g')
    (h' : Grown P a' g' g'') (ha : a ≤ a') : Grown P a g g'' := by
  intro n hn
  obtain ⟨e1, r1, _⟩ := h n hn
  obtain ⟨e2, r2, ne2⟩ := h' n (by omega)
  refine ⟨e2.trans e1, ?_, ne2⟩
  intro x hx r hr
  rcases r2 x hx r hr with ⟨y, hy, hry⟩ | hp
  · exact r1 y hy r hry
  · exact Or.inr hp

theorem Grown.mono {P Q : Record → Prop} {a : Nat} {g g' : GDir} (hPQ : ∀ r, P r → Q r) (h : Grown P a g g') :
    Grown Q a g g' := by
  intro n hn
  obtain ⟨e1, r1, ne1⟩ := h n hn
  refine ⟨e1, ?_, ne1⟩
  intro x hx r hr
  rcases r1 x hx r hr with h1 | h1
  · exact Or.inl h1
  · exact Or.inr (hPQ r h1)

theorem hi_zero (g : GDir) : hi g 0 = g := by
  unfold hi
  rw [List.filter_eq_self]
  intro a _; simp

/-- every record of the grown directory is an old one or satisfies `P` -/
theorem Grown.recs {P : Record → Prop} {a : Nat} {g g' : GDir} (h : Grown P a g g') :
    ∀ x ∈ g', ∀ r ∈ x.2, (∃ y ∈ g, r ∈ y.2) ∨ P r := by
  obtain ⟨_, r1, _⟩ := h 0 (Nat.zero_le _)
  rw [hi_zero, hi_zero] at r1
  exact r1

theorem Grown_append (P : Record → Prop) (g0 : GDir) (a : Nat) (gf rs : GFile) (hP : ∀ r ∈ rs, P r) :
    Grown P a (g0 ++ [(a, gf)]) (g0 ++ [(a, gf ++ rs)]) := by
  intro n hn
  refine ⟨?_, ?_, ⟨(a, gf ++ rs), by simp, hn⟩⟩
  · unfold lo
    rw [List.filter_append, List.filter_append]
    congr 1
    rw [List.filter_cons_of_neg (by simp; omega), List.filter_cons_of_neg (by simp; omega)]
  · intro x hx r hr
    unfold hi at hx ⊢
    rw [List.filter_append] at hx
    rcases List.mem_append.mp hx with hx | hx
    · left; exact ⟨x, by rw [List.filter_append]; exact List.mem_append_left _ hx, hr⟩
    · rw [List.filter_cons_of_pos (by simpa using hn)] at hx
      simp only [List.filter_nil, List.mem_singleton] at hx
      rw [hx] at hr
      rcases List.mem_append.mp hr with hr | hr
      · left
        refine ⟨(a, gf), ?_, hr⟩
        rw [List.filter_append, List.filter_cons_of_pos (by simpa using hn)]
        simp
      · right; exact hP r hr

theorem Grown_rotate (P : Record → Prop) (g : GDir) (a : Nat) : Grown P a g (g ++ [(a + 1, [])]) := by
  intro n hn
  refine ⟨?_, ?_, ⟨(a + 1, []), by simp, by omega⟩⟩
  · unfold lo
    rw [List.filter_append, List.filter_cons_of_neg (by simp; omega)]
    simp
  · intro x hx r hr
    unfold hi at hx ⊢
    rw [List.filter_append] at hx
    rcases List.mem_append.mp hx with hx | hx
    · left; exact ⟨x, hx, hr⟩
    · rw [List.filter_cons_of_pos (by simp; omega)] at hx
      simp only [List.filter_nil, List.mem_singleton] at hx
      rw [hx] at hr
      simp at hr

/-! ## state level -/

/-- the log only grows, by entries whose records satisfy `P` -/
def LogExt (P : Record → Prop) (g g' : GDir) : Prop := ∃ new, logOf g' = logOf g ++ new ∧ ∀ x ∈ new, P x.1

theorem LogExt.refl (P : Record → Prop) (g : GDir) : LogExt P g g := ⟨[], by simp, by simp⟩

theorem LogExt.trans {P : Record → Prop} {g g' g'' : GDir} (h : LogExt P g g') (h' : LogExt P g' g'') : LogExt P g g'' := by
  obtain ⟨n1, e1, p1⟩ := h
  obtain ⟨n2, e2, p2⟩ := h'
  refine ⟨n1 ++ n2, by rw [e2, e1, List.append_assoc], ?_⟩
  intro x hx
  rcases List.mem_append.mp hx with hx | hx
  · exact p1 x hx
  · exact p2 x hx

theorem LogExt_append (P : Record → Prop) (g0 : GDir) (a : Nat) (gf rs : GFile) (hP : ∀ r ∈ rs, P r) :
    LogExt P (g0 ++ [(a, gf)]) (g0 ++ [(a, gf ++ rs)]) :=
  ⟨_, logOf_append_recs g0 a gf rs, fun _ hx => hP _ (List.of_mem_zip hx).1⟩

structure GStep (P : Record → Prop) (db : DB) (g : GDir) (s' : St) (db' : DB) (g' : GDir) : Prop where
  files : Files s' db' g'
  grown : Grown P db.activeId g g'
  act : db.activeId ≤ db'.activeId
  log : LogExt P g g'

theorem GStep.trans {P : Record → Prop} {db db' db'' : DB} {g g' g'' : GDir} {s' s'' : St}
    (h : GStep P db g s' db' g') (h' : GStep P db' g' s'' db'' g'') : GStep P db g s'' db'' g'' :=
  ⟨h'.files, h.grown.trans h'.grown h.act, Nat.le_trans h.act h'.act, h.log.trans h'.log⟩

theorem _root_.XixiKV.Engine.Files.hasActive {s : St} {db : DB} {g : GDir} (h : Files s db g) : ∃ x ∈ g, db.activeId ≤ x.1 := by
  obtain ⟨g0, gf, hg, _⟩ := h.last
  exact ⟨(db.activeId, gf), by rw [hg]; simp, Nat.le_refl _⟩

theorem GStep.refl (P : Record → Prop) {s : St} {db : DB} {g : GDir} (h : Files s db g) : GStep P db g s db g :=
  ⟨h, Grown.refl P h.hasActive, Nat.le_refl _, LogExt.refl P g⟩

/-- same world, same directory and active id: the handle may differ in every other field -/
theorem GStep.congr {P : Record → Prop} {db0 : DB} {g0 : GDir} {s s' : St} {db db' : DB} {g : GDir}
    (h : GStep P db0 g0 s db g) (hw : s'.world = s.world) (hd : db'.dir = db.dir) (ha : db'.activeId = db.activeId) :
    GStep P db0 g0 s' db' g :=
  ⟨h.files.congr hw hd ha, h.grown, by rw [ha]; exact h.act, h.log⟩

theorem GStep_rotate (P : Record → Prop) {s : St} {db : DB} {g : GDir} (h : Files s db g) :
    GStep P db g (rotate s db).1 (rotate s db).2 (g ++ [(db.activeId + 1, [])]) := by
  obtain ⟨hf, hdb, _⟩ := rotate_spec h
  exact ⟨hf, Grown_rotate P g db.activeId, by rw [hdb]; exact Nat.le_succ _, ⟨[], by rw [logOf_new_file]; simp, by simp⟩⟩

theorem GStep_appendTail {P : Record → Prop} {s : St} {db : DB} {g : GDir} (h : Files s db g) (r : Record)
    (hr : RecOK r) (hP : P r) : ∃ g', GStep P db g (appendTail s db r).1 (appendTail s db r).2.1 g' := by
  obtain ⟨g0, gf, hg, _⟩ := h.last
  obtain ⟨hf, _, _, _, hact⟩ := PolicyP.Size.appendTail_specG h hg r hr
  have hP' : ∀ r' ∈ [r], P r' := fun r' hr' => by simp only [List.mem_singleton] at hr'; rw [hr']; exact hP
  refine ⟨_, hf, ?_, by rw [hact]; exact Nat.le_refl _, ?_⟩
  · rw [hg]; exact Grown_append P g0 db.activeId gf [r] hP'
  · rw [hg]; exact LogExt_append P g0 db.activeId gf [r] hP'

theorem GStep_appendLog {P : Record → Prop} {s : St} {db : DB} {g : GDir} (h : Files s db g) (r : Record)
    (hr : RecOK r) (hP : P r) : ∃ g', GStep P db g (appendLog s db r).1 (appendLog s db r).2.1 g' := by
  rw [appendLog_eq]
  split
  · have h1 := GStep_rotate P h
    obtain ⟨g', h2⟩ := GStep_appendTail h1.files r hr hP
    exact ⟨g', h1.trans h2⟩
  · exact GStep_appendTail h r hr hP

theorem GStep_flushTail {P : Record → Prop} {s : St} {db : DB} {g : GDir} (h : Files s db g) (b : BatchSt)
    (hok : ∀ r ∈ b.staged, StagedOK r) (hid : b.id < 2 ^ 64) (hP : ∀ r ∈ b.staged, P (toRec b.id r)) :
    ∃ g', GStep P db g (flushTail s db b).1 (flushTail s db b).2.1 g' := by
  obtain ⟨g0, gf, hg, _⟩ := h.last
  obtain ⟨hf, _, _, _, hact, _⟩ := PolicyP.Size.flushTail_specG h hg b hok hid
  have hP' : ∀ r ∈ b.staged.map (toRec b.id), P r := by
    intro r hr
    obtain ⟨st, hst, rfl⟩ := List.mem_map.mp hr
    exact hP st hst
  refine ⟨_, hf, ?_, by rw [hact]; exact Nat.le_refl _, ?_⟩
  · rw [hg]; exact Grown_append P g0 db.activeId gf _ hP'
  · rw [hg]; exact LogExt_append P g0 db.activeId gf _ hP'

theorem GStep_flushStaged {P : Record → Prop} {s : St} {db : DB} {g : GDir} (h : Files s db g) (b : BatchSt)
    (hok : ∀ r ∈ b.staged, StagedOK r) (hid : b.id < 2 ^ 64) (hP : ∀ r ∈ b.staged, P (toRec b.id r)) :
    ∃ g', GStep P db g (flushStaged s db b).1 (flushStaged s db b).2.1 g' := by
  rw [flushStaged_eq]
  split
  · have h1 := GStep_rotate P h
    obtain ⟨g', h2⟩ := GStep_flushTail h1.files b hok hid hP
    exact ⟨g', h1.trans h2⟩
  · exact GStep_flushTail h b hok hid hP

theorem GStep_flushAndRotate {P : Record → Prop} {s : St} {db : DB} {g : GDir} (h : Files s db g) (b : BatchSt)
    (hok : ∀ r ∈ b.staged, StagedOK r) (hid : b.id < 2 ^ 64) (hP : ∀ r ∈ b.staged, P (toRec b.id r)) :
    ∃ g', GStep P db g (flushAndRotate s db b).1 (flushAndRotate s db b).2.1 g' := by
  rw [flushAndRotate_eq]
  obtain ⟨g1, h1⟩ := GStep_flushStaged h b hok hid hP
  exact ⟨_, h1.trans (GStep_rotate P h1.files)⟩

theorem GStep_seal {P : Record → Prop} {s : St} {db : DB} {g : GDir} (h : Files s db g) (b : BatchSt)
    (hid : b.id < 2 ^ 63) (hP : P (finRec b.id)) : ∃ g', GStep P db g (sealFile s db b) db g' := by
  obtain ⟨g0, gf, hg, _⟩ := h.last
  obtain ⟨hf, _⟩ := PolicyP.Size.seal_specG h hg b hid
  have hP' : ∀ r' ∈ [finRec b.id], P r' := fun r' hr' => by simp only [List.mem_singleton] at hr'; rw [hr']; exact hP
  refine ⟨_, hf, ?_, Nat.le_refl _, ?_⟩
  · rw [hg]; exact Grown_append P g0 db.activeId gf [finRec b.id] hP'
  · rw [hg]; exact LogExt_append P g0 db.activeId gf [finRec b.id] hP'

/-! ## the plain operations -/

/-- records written by `Put` / `Delete` -/
def IsPlain (r : Record) : Prop := r.batch = 0

theorem put_gstep {s : St} {db : DB} {g : GDir} (hs : s.db = some db) (h : Files s db g) (k v : ByteArray)
    (hk : k.size < 2 ^ 31) (hv : v.size < 2 ^ 31) :
    ∃ db' g', (put s k v).1.db = some db' ∧ GStep IsPlain db g (put s k v).1 db' g' := by
  by_cases hk0 : k.size = 0
  · rw [put_keyempty s k v hk0 hs]; exact ⟨db, g, hs, GStep.refl _ h⟩
  · have hr : RecOK { typ := 0, key := k, value := v, batch := 0 } :=
      ⟨by show 0 < 3; omega, by show 0 < k.size; omega, hk, hv, by show 0 < 2 ^ 64; decide⟩
    obtain ⟨g', h1⟩ := GStep_appendLog (P := IsPlain) h _ hr rfl
    rw [put_eq hs k v hk0]
    exact ⟨_, g', rfl, h1.congr rfl rfl rfl⟩

theorem delete_gstep {s : St} {db : DB} {g : GDir} (hs : s.db = some db) (h : Files s db g) (k : ByteArray)
    (hk : k.size < 2 ^ 31) :
    ∃ db' g', (delete s k).1.db = some db' ∧ GStep IsPlain db g (delete s k).1 db' g' := by
  by_cases hk0 : k.size = 0
  · rw [delete_keyempty s k hk0 hs]; exact ⟨db, g, hs, GStep.refl _ h⟩
  · cases hg : Index.get db.index k with
    | none => rw [delete_eq_none hs k hk0 hg]; exact ⟨db, g, hs, GStep.refl _ h⟩
    | some old =>
      have hr : RecOK { typ := 1, key := k, value := ByteArray.empty, batch := 0 } :=
        ⟨by show 1 < 3; omega, by show 0 < k.size; omega, hk, by show 0 < 2 ^ 31; decide, by show 0 < 2 ^ 64; decide⟩
      obtain ⟨g', h1⟩ := GStep_appendLog (P := IsPlain) h _ hr rfl
      rw [delete_eq_some hs k hk0 hg]
      exact ⟨_, g', rfl, h1.congr rfl rfl rfl⟩

theorem sync_gstep {s : St} {db : DB} {g : GDir} (hs : s.db = some db) (h : Files s db g) :
    (syncDB s).1.db = some db ∧ GStep IsPlain db g (syncDB s).1 db g := by
  unfold syncDB withDB
  rw [hs]
  exact ⟨hs, Files_sync h, Grown.refl _ h.hasActive, Nat.le_refl _, LogExt.refl _ g⟩

/-! ## the batch operations -/

/-- records written by the batch with id `id` -/
def IsBatch (id : Nat) (r : Record) : Prop := r.batch = id

theorem bnew_gstep {s : St} {db : DB} {g : GDir} (hs : s.db = some db) (h : Files s db g) (sync : Bool) (id : Nat) :
    GStep IsPlain db g (bnew s sync id).1 { db with batch := some (newBatch sync id) } g := by
  rw [bnew_eq hs]
  exact (GStep.refl _ h).congr rfl rfl rfl

theorem bdrop_gstep {s : St} {db : DB} {g : GDir} (hs : s.db = some db) (h : Files s db g) :
    GStep IsPlain db g (bdrop s).1 { db with batch := none } g := by
  rw [bdrop_eq hs]
  exact (GStep.refl _ h).congr rfl rfl rfl

theorem StageOut_gstep {s s' : St} {db : DB} {g : GDir} {b : BatchSt} {must : Prop} (hs : s.db = some db)
    (h : Files s db g) (hok : ∀ r ∈ b.staged, StagedOK r) (hid : b.id < 2 ^ 64)
    (o : PolicyP.Dur.StageOut s db b must s') :
    ∃ db' g', s'.db = some db' ∧ GStep (IsBatch b.id) db g s' db' g' := by
  cases o with
  | same e _ => rw [e]; exact ⟨db, g, hs, GStep.refl _ h⟩
  | staged b' e _ _ _ _ => rw [e]; exact ⟨_, g, rfl, (GStep.refl _ h).congr rfl rfl rfl⟩
  | flushed b' e _ _ _ _ =>
    rw [e]
    obtain ⟨g', h1⟩ := GStep_flushAndRotate (P := IsBatch b.id) h b hok hid (fun _ _ => rfl)
    exact ⟨_, g', rfl, h1.congr rfl rfl rfl⟩

theorem bput_gstep {s : St} {db : DB} {g : GDir} {b : BatchSt} (hs : s.db = some db) (hb : db.batch = some b)
    (h : Files s db g) (hok : ∀ r ∈ b.staged, StagedOK r) (hid : b.id < 2 ^ 64) (k v : ByteArray) :
    ∃ db' g', (bput s k v).1.db = some db' ∧ GStep (IsBatch b.id) db g (bput s k v).1 db' g' :=
  StageOut_gstep hs h hok hid (PolicyP.Dur.bput_out hs hb k v)

theorem bdel_gstep {s : St} {db : DB} {g : GDir} {b : BatchSt} (hs : s.db = some db) (hb : db.batch = some b)
    (h : Files s db g) (hok : ∀ r ∈ b.staged, StagedOK r) (hid : b.id < 2 ^ 64) (k : ByteArray) :
    ∃ db' g', (bdel s k).1.db = some db' ∧ GStep (IsBatch b.id) db g (bdel s k).1 db' g' :=
  StageOut_gstep hs h hok hid (PolicyP.Dur.bdel_out hs hb k)

theorem bcommit_gstep {s : St} {db : DB} {g : GDir} {b : BatchSt} (hs : s.db = some db) (hb : db.batch = some b)
    (h : Files s db g) (hok : ∀ r ∈ b.staged, StagedOK r) (hid : b.id < 2 ^ 63) :
    ∃ db' g', (bcommit s).1.db = some db' ∧ GStep (IsBatch b.id) db g (bcommit s).1 db' g' := by
  by_cases hc : b.committed = true
  · rw [bcommit_committed hs hb hc]; exact ⟨db, g, hs, GStep.refl _ h⟩
  · have hc' : b.committed = false := by simpa using hc
    by_cases he : b.staged = []
    · rw [bcommit_empty hs hb hc' he]
      exact ⟨_, g, rfl, (GStep.refl _ h).congr rfl rfl rfl⟩
    · rw [bcommit_nonempty hs hb hc' he]
      have hid64 : b.id < 2 ^ 64 := by omega
      obtain ⟨g1, h1⟩ := GStep_flushStaged (P := IsBatch b.id) h { b with committed := true } hok hid64
        (fun _ _ => rfl)
      have hbid : (flushStaged s db { b with committed := true }).2.2.id = b.id := by
        rw [PolicyP.Dur.flushStaged_batch]
      obtain ⟨g2, h2⟩ := GStep_seal (P := IsBatch b.id) h1.files
        (flushStaged s db { b with committed := true }).2.2 (by rw [hbid]; exact hid) (by rw [hbid]; rfl)
      exact ⟨_, g2, rfl, (h1.trans h2).congr rfl rfl rfl⟩

end XixiKV.Engine.HistP
