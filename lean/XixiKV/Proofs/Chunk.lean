import XixiKV.Model.Chunk
import XixiKV.Proofs.Bytes
/-! The concrete CRC-32 chunk codec satisfies the three `Codec` laws. -/
namespace XixiKV.Chunk
open XixiKV XixiKV.Frame

theorem crcRaw_append (c : UInt32) (a b : ByteArray) : crcRaw c (a ++ b) = crcRaw (crcRaw c a) b := by
  simp [crcRaw, ByteArray.data_append, Array.foldl_append]

/-- `crc32.Update (ChecksumIEEE a) b = ChecksumIEEE (a ‖ b)` -/
theorem update_checksum (a b : ByteArray) : update (checksum a) b = checksum (a ++ b) := by
  simp [update, checksum, crcRaw_append]

@[simp] theorem size_le16 (n : Nat) : (le16 n).size = 2 := rfl
@[simp] theorem size_le32 (n : UInt32) : (le32 n).size = 4 := rfl
@[simp] theorem size_one (x : UInt8) : (ByteArray.mk #[x]).size = 1 := rfl

theorem size_enc (t : CT) (p : ByteArray) : (enc t p).size = H + p.size := by
  simp [enc, ByteArray.size_append, H]

theorem rd16_at (pre post : ByteArray) (n : Nat) (hn : n < 65536) :
    rd16 (pre ++ le16 n ++ post) pre.size = n := by
  unfold rd16
  rw [extract_exact pre (le16 n) post _ _ rfl (by simp)]
  simp [le16]
  omega

theorem rd8_at (pre post : ByteArray) (t : Nat) (ht : t < 256) :
    rd8 (pre ++ ⟨#[t.toUInt8]⟩ ++ post) pre.size = t := by
  unfold rd8
  rw [extract_exact pre _ post _ _ rfl (by simp)]
  simp
  omega

theorem rd32_at (pre post : ByteArray) (n : UInt32) :
    rd32 (pre ++ le32 n ++ post) pre.size = n := by
  unfold rd32
  rw [extract_exact pre (le32 n) post _ _ rfl (by simp)]
  have h := n.toNat_lt
  have e : (n.toNat % 256 % 256 + 256 * (n.toNat / 256 % 256 % 256) + 65536 * (n.toNat / 65536 % 256 % 256)
      + 16777216 * (n.toNat / 16777216 % 256 % 256)) = n.toNat := by omega
  have t8 : ∀ x : Nat, (Nat.toUInt8 x).toNat = x % 256 := by intro x; simp
  show UInt32.ofNat ((n.toNat % 256).toUInt8.toNat + 256 * (n.toNat / 256 % 256).toUInt8.toNat
    + 65536 * (n.toNat / 65536 % 256).toUInt8.toNat + 16777216 * (n.toNat / 16777216 % 256).toUInt8.toNat) = n
  rw [t8, t8, t8, t8, e]
  exact UInt32.ofNat_toNat

theorem dec_enc (t : CT) (p rest : ByteArray) (hp : p.size ≤ 65535) (ht : t < 256) :
    dec (enc t p ++ rest) = .ok p t := by
  have hH : H = 7 := rfl
  unfold dec
  have hsz : (enc t p ++ rest).size = H + p.size + rest.size := by
    rw [ByteArray.size_append, size_enc]
  rw [if_neg (by omega)]
  have hlen : rd16 (enc t p ++ rest) 4 = p.size := by
    have : enc t p ++ rest = le32 (update (checksum (le16 p.size ++ ⟨#[t.toUInt8]⟩)) p) ++ le16 p.size
        ++ (⟨#[t.toUInt8]⟩ ++ p ++ rest) := by
      simp [enc, ByteArray.append_assoc]
    rw [this]
    exact rd16_at (le32 _) _ p.size (by omega)
  simp only [hlen]
  rw [if_neg (by omega)]
  have hcrc : rd32 (enc t p ++ rest) 0 = update (checksum (le16 p.size ++ ⟨#[t.toUInt8]⟩)) p := by
    have : enc t p ++ rest = ByteArray.empty ++ le32 (update (checksum (le16 p.size ++ ⟨#[t.toUInt8]⟩)) p)
        ++ (le16 p.size ++ ⟨#[t.toUInt8]⟩ ++ p ++ rest) := by
      simp [enc, ByteArray.append_assoc]
    rw [this]
    exact rd32_at ByteArray.empty _ _
  have hbody : (enc t p ++ rest).extract 4 (H + p.size) = le16 p.size ++ ⟨#[t.toUInt8]⟩ ++ p := by
    have : enc t p ++ rest = le32 (update (checksum (le16 p.size ++ ⟨#[t.toUInt8]⟩)) p)
        ++ (le16 p.size ++ ⟨#[t.toUInt8]⟩ ++ p) ++ rest := by
      simp [enc, ByteArray.append_assoc]
    rw [this]
    exact extract_exact _ _ _ _ _ (by simp) (by simp [ByteArray.size_append]; omega)
  rw [hbody, hcrc, update_checksum]
  simp only [bne_self_eq_false, Bool.false_eq_true, if_false]
  have hpay : (enc t p ++ rest).extract H (H + p.size) = p := by
    have : enc t p ++ rest = (le32 (update (checksum (le16 p.size ++ ⟨#[t.toUInt8]⟩)) p)
        ++ le16 p.size ++ ⟨#[t.toUInt8]⟩) ++ p ++ rest := by
      simp [enc, ByteArray.append_assoc]
    rw [this]
    exact extract_exact _ _ _ _ _ (by simp [ByteArray.size_append, hH]) (by simp [ByteArray.size_append, hH])
  have htyp : rd8 (enc t p ++ rest) 6 = t := by
    have : enc t p ++ rest = (le32 (update (checksum (le16 p.size ++ ⟨#[t.toUInt8]⟩)) p)
        ++ le16 p.size) ++ ⟨#[t.toUInt8]⟩ ++ (p ++ rest) := by
      simp [enc, ByteArray.append_assoc]
    rw [this]
    exact rd8_at _ _ t ht
  rw [hpay, htyp]

/-- a strict prefix of an encoded chunk is reported as incomplete -/
theorem dec_short (t : CT) (p : ByteArray) (n : Nat) (hp : p.size ≤ 65535) (hn : n < H + p.size) :
    dec ((enc t p).extract 0 n) = .incomplete := by
  have hH : H = 7 := rfl
  unfold dec
  have hsz : ((enc t p).extract 0 n).size = n := by
    rw [ByteArray.size_extract, size_enc]; omega
  by_cases h7 : n < H
  · rw [if_pos (by omega)]
  · rw [if_neg (by omega)]
    -- the length field is intact (bytes 4,5 lie inside the prefix)
    have hlen : rd16 ((enc t p).extract 0 n) 4 = p.size := by
      unfold rd16
      rw [ByteArray.extract_extract]
      have h2 : (enc t p).extract (0 + 4) (min (0 + (4 + 2)) n) = (enc t p).extract 4 6 := by
        congr 1; omega
      rw [h2]
      have : enc t p = le32 (update (checksum (le16 p.size ++ ⟨#[t.toUInt8]⟩)) p) ++ le16 p.size
          ++ (⟨#[t.toUInt8]⟩ ++ p) := by
        simp [enc, ByteArray.append_assoc]
      rw [this, extract_exact _ (le16 p.size) _ 4 6 (by simp) (by simp)]
      simp [le16]
      omega
    simp only [hlen]
    rw [if_pos (by omega)]

def crcCodec : Codec where
  enc := enc
  dec := dec
  size_enc := size_enc
  dec_enc := dec_enc
  dec_short := dec_short

end XixiKV.Chunk
