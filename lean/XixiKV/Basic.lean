def hello := "world"
