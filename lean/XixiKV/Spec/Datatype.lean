import XixiKV.Spec.DatatypeApi
/-!
# Reference specification of the redis-style types

Written without looking at how the implementation stores anything: there are no versions, no
internal keys, no metadata records here.  A state maps a user key to at most one object:

* `str v expire` — a string with an absolute expiry time (`0`: never),
* `hash` — field ↦ value,   `set` — members,   `list` — a deque,   `zset` — member ↦ score.

The replies are those a user of Redis-like types expects, adjusted to the *documented reply
conventions of this library* — listed here once, and marked `(convention)` below:

* (absent data) A container command on a key that holds nothing sees the empty container.
  On an **empty** container `HGet`, `LPop`, `RPop` reply `nil`, `ZScore` replies the score `-1`,
  `HDel`/`SIsMember`/`SRem` reply `false`; in a **non-empty** hash / sorted set a missing field /
  member is `notFound`.
* (empty values) A stored empty value comes back as `nil` from `HGet`/`LPop`/`RPop` (the store
  hands out a nil slice for it); `Get` returns the empty value as such.
* (expiry) A string whose expiry time has passed is **absent**: `Get` replies `nil` for it
  (not `notFound`: the code's convention), `Type` does not see it, and any other type can be
  created under its key.
* (no auto-delete) A container that becomes empty by `HDel`/`SRem`/`LPop`/`RPop` stays a container
  of its type until `Del` or `Set` (Redis would drop the key).  `Del` and `Set` work on every type.
* (flags) `HSet` / `SAdd` / `ZAdd`: `true` iff the field / member is new;  `HDel` / `SRem`: `true`
  iff something was removed;  `LPush` / `RPush`: the new length.
* The empty key is rejected by every command (`keyEmpty`), except `Set` with a nil value, which
  does nothing at all.
-/
namespace XixiKV.Datatype.Spec
open XixiKV.Datatype

inductive Obj where
  | str (v : ByteArray) (expire : Nat)
  | hash (fs : List (ByteArray × ByteArray))
  | set (ms : List ByteArray)
  | list (l : List ByteArray)
  | zset (zs : List (ByteArray × Score))
deriving DecidableEq, Inhabited

def Obj.typeCode : Obj → Nat
  | .str .. => 0 | .hash .. => 1 | .set .. => 2 | .list .. => 3 | .zset .. => 4

/-! association lists (`ByteArray` keys) -/

def lookup {β : Type} : List (ByteArray × β) → ByteArray → Option β
  | [], _ => none
  | (a, b) :: r, k => if a = k then some b else lookup r k

def remove {β : Type} (l : List (ByteArray × β)) (k : ByteArray) : List (ByteArray × β) :=
  l.filter (fun p => decide (p.1 ≠ k))

/-- membership in a list of byte strings (the derived `BEq ByteArray` has no lawfulness instance,
    so `∈` is not decidable out of the box; this is `decide (m ∈ ms)`) -/
def has (ms : List ByteArray) (m : ByteArray) : Bool := ms.any (fun x => decide (x = m))

def insert {β : Type} (l : List (ByteArray × β)) (k : ByteArray) (b : β) : List (ByteArray × β) :=
  (k, b) :: remove l k

/-- user key ↦ object -/
abbrev State : Type := List (ByteArray × Obj)

def State.empty : State := ([] : List (ByteArray × Obj))
def State.find (s : State) (k : ByteArray) : Option Obj := lookup s k
def State.store (s : State) (k : ByteArray) (o : Obj) : State := insert s k o
def State.drop (s : State) (k : ByteArray) : State := remove s k

def expired (expire now : Nat) : Bool := expire ≠ 0 && expire ≤ now

/-- what `key` holds at time `now`: an expired string is absent -/
def State.live (s : State) (now : Nat) (k : ByteArray) : Option Obj :=
  match s.find k with
  | some (.str v e) => if expired e now then none else some (.str v e)
  | o => o

/-- one command on a non-empty key at time `now`: new state and reply -/
def stepNE (c : Cmd) (s : State) (now : Nat) : State × Reply :=
  match c with
  | .set _ none _ => (s, .ok)
  | .set k (some v) ttl => (s.store k (.str v (if ttl = 0 then 0 else now + ttl)), .ok)
  | .get k =>
    match s.find k with
    | none => (s, .notFound)
    | some (.str v e) => if expired e now then (s, .nil) else (s, .bytes v)   -- (convention: expiry)
    | some _ => (s, .wrongType)
  | .del k => (s.drop k, .ok)
  | .type k =>
    match s.live now k with
    | none => (s, .notFound)
    | some o => (s, .size o.typeCode)
  | .hset k f v =>
    match s.live now k with
    | none => (s.store k (.hash [(f, v)]), .flag true)
    | some (.hash fs) => (s.store k (.hash (insert fs f v)), .flag (lookup fs f).isNone)
    | some _ => (s, .wrongType)
  | .hget k f =>
    match s.live now k with
    | none => (s, .nil)                                              -- (convention: absent data)
    | some (.hash fs) =>
      if fs.isEmpty then (s, .nil) else
      match lookup fs f with
      | none => (s, .notFound)
      | some v => (s, .ofStored v)                                   -- (convention: empty values)
    | some _ => (s, .wrongType)
  | .hdel k f =>
    match s.live now k with
    | none => (s, .flag false)
    | some (.hash fs) =>
      if (lookup fs f).isSome then (s.store k (.hash (remove fs f)), .flag true) else (s, .flag false)
    | some _ => (s, .wrongType)
  | .sadd k m =>
    match s.live now k with
    | none => (s.store k (.set [m]), .flag true)
    | some (.set ms) => if has ms m then (s, .flag false) else (s.store k (.set (m :: ms)), .flag true)
    | some _ => (s, .wrongType)
  | .sismember k m =>
    match s.live now k with
    | none => (s, .flag false)
    | some (.set ms) => (s, .flag (has ms m))
    | some _ => (s, .wrongType)
  | .srem k m =>
    match s.live now k with
    | none => (s, .flag false)
    | some (.set ms) =>
      if has ms m then (s.store k (.set (ms.filter (fun x => decide (x ≠ m)))), .flag true) else (s, .flag false)
    | some _ => (s, .wrongType)
  | .lpush k e =>
    match s.live now k with
    | none => (s.store k (.list [e]), .size 1)
    | some (.list l) => (s.store k (.list (e :: l)), .size (l.length + 1))
    | some _ => (s, .wrongType)
  | .rpush k e =>
    match s.live now k with
    | none => (s.store k (.list [e]), .size 1)
    | some (.list l) => (s.store k (.list (l ++ [e])), .size (l.length + 1))
    | some _ => (s, .wrongType)
  | .lpop k =>
    match s.live now k with
    | none => (s, .nil)
    | some (.list []) => (s, .nil)
    | some (.list (x :: r)) => (s.store k (.list r), .ofStored x)
    | some _ => (s, .wrongType)
  | .rpop k =>
    match s.live now k with
    | none => (s, .nil)
    | some (.list l) =>
      match l.getLast? with
      | none => (s, .nil)
      | some x => (s.store k (.list l.dropLast), .ofStored x)
    | some _ => (s, .wrongType)
  | .zadd k sc m =>
    match s.live now k with
    | none => (s.store k (.zset [(m, sc)]), .flag true)
    | some (.zset zs) =>
      match lookup zs m with
      | none => (s.store k (.zset (insert zs m sc)), .flag true)
      | some old => if sc = old then (s, .flag false) else (s.store k (.zset (insert zs m sc)), .flag false)
    | some _ => (s, .wrongType)
  | .zscore k m =>
    match s.live now k with
    | none => (s, .score "-1".toUTF8)                                -- (convention: absent data)
    | some (.zset zs) =>
      if zs.isEmpty then (s, .score "-1".toUTF8) else
      match lookup zs m with
      | none => (s, .notFound)
      | some sc => (s, .score sc)
    | some _ => (s, .wrongType)

/-- one command at time `now`: new state and reply -/
def step (c : Cmd) (s : State) (now : Nat) : State × Reply :=
  match c with
  | .set _ none _ => (s, .ok)
  | c => if c.key.size = 0 then (s, .keyEmpty) else stepNE c s now

def stepAll : List (Cmd × Nat) → State → State × List Reply
  | [], s => (s, [])
  | (c, now) :: cs, s =>
    let (s', r) := step c s now
    let (s'', rs) := stepAll cs s'
    (s'', r :: rs)

end XixiKV.Datatype.Spec
