/-!
# Vocabulary shared by the datatype model, its specification and the driver

Only the *interface* of `datatype.DataTypeService` lives here: the commands with their arguments
and the replies a caller can observe.  Neither the implementation model (`Model/Datatype.lean`)
nor the reference specification (`Spec/Datatype.lean`) imports the other; both import this file.

* Keys, fields, members, elements and values are byte strings (`ByteArray`).
* A **score** is an opaque value with decidable equality.  The Go code converts a `float64` with
  `strconv.FormatFloat(f, 'f', -1, 64)` to bytes and back with `strconv.ParseFloat`; we identify a
  score with its canonical `'f' -1 64` text (as UTF-8 bytes).  On canonical texts of finite floats
  other than `-0`, "equal as float64" is "equal as text" (`FormatFloat ∘ ParseFloat = id` on the
  image of `FormatFloat`), so the model compares scores as byte strings.  Not modelled: `-0 == 0`,
  `NaN ≠ NaN`; the harness sends canonical, finite, non-negative-zero scores only.
* `now` (the value of `time.Now().UnixNano()` during a call) is an input of every command.
-/
namespace XixiKV.Datatype

/-- canonical `strconv.FormatFloat(·, 'f', -1, 64)` text of a float64, as bytes; opaque otherwise -/
abbrev Score := ByteArray

/-- What a caller of `DataTypeService` observes. -/
inductive Reply where
  /-- `err == nil` of a command without result (`Set`, `Del`) -/
  | ok
  /-- `(bool, nil)` of `HSet`/`HDel`/`SAdd`/`SIsMember`/`SRem`/`ZAdd` -/
  | flag (b : Bool)
  /-- `(uint32, nil)` of `LPush`/`RPush`, `(dataType, nil)` of `Type` -/
  | size (n : Nat)
  /-- `(v, nil)` with `v` a non-nil slice (possibly empty: only `Get` can do that) -/
  | bytes (v : ByteArray)
  /-- the Go `(nil, nil)` -/
  | nil
  /-- `(float64, nil)` of `ZScore` -/
  | score (s : Score)
  /-- `bitcask.ErrKeyNotFound` -/
  | notFound
  /-- `datatype.ErrWrongTypeOperation` -/
  | wrongType
  /-- `bitcask.ErrKeyIsEmpty` (the store rejects the empty key) -/
  | keyEmpty
  /-- any other error (`Type`: "value is null"), or a decode that goes on with garbage numbers
      (unreachable without an internal-key collision) -/
  | otherErr
  /-- the Go code panics (index out of range / slice bounds out of range) -/
  | panic
deriving DecidableEq, Inhabited

/-- The commands of `DataTypeService`.  `Set` takes `value = none` for a Go `nil` value (a no-op)
    and the TTL in nanoseconds (`0` = no expiry; Go's `time.Duration`, here non-negative). -/
inductive Cmd where
  | set (key : ByteArray) (value : Option ByteArray) (ttl : Nat)
  | get (key : ByteArray)
  | del (key : ByteArray)
  | type (key : ByteArray)
  | hset (key field value : ByteArray)
  | hget (key field : ByteArray)
  | hdel (key field : ByteArray)
  | sadd (key member : ByteArray)
  | sismember (key member : ByteArray)
  | srem (key member : ByteArray)
  | lpush (key elem : ByteArray)
  | rpush (key elem : ByteArray)
  | lpop (key : ByteArray)
  | rpop (key : ByteArray)
  | zadd (key : ByteArray) (score : Score) (member : ByteArray)
  | zscore (key member : ByteArray)
deriving DecidableEq, Inhabited

/-- the user key a command addresses -/
def Cmd.key : Cmd → ByteArray
  | .set k _ _ | .get k | .del k | .type k | .hset k _ _ | .hget k _ | .hdel k _
  | .sadd k _ | .sismember k _ | .srem k _ | .lpush k _ | .rpush k _ | .lpop k | .rpop k
  | .zadd k _ _ | .zscore k _ => k

/-- `dataType` constants of `types.go` -/
def tString : UInt8 := 0
def tHash : UInt8 := 1
def tSet : UInt8 := 2
def tList : UInt8 := 3
def tZSet : UInt8 := 4

/-- How a value read back from the store reaches the caller.  `db.Get` returns a **nil** slice
    for a stored empty value (`DecodeLogRecordValue`), so `HGet`/`LPop`/`RPop`, which hand the
    slice through, reply `(nil, nil)` for an empty stored value. -/
def Reply.ofStored (v : ByteArray) : Reply := if v.size = 0 then .nil else .bytes v

end XixiKV.Datatype
