import XixiKV.Model.Adopt
/-!
Driver fragment for the step-wise adoption model: the line

    adoptprefix <dir> <k>

applies the first `k` adoption steps of `Model/Adopt.lean` to the world (the crash image "process
died after `k` file-system calls of `loadMergeFiles`"); no database may be open.  The answer is
`ok <n>` where `n` is the total number of steps the uninterrupted adoption would perform.
-/
namespace XixiKV.Adopt.Drv
open XixiKV.Engine

def step (s : St) (line : List String) : Option (St × String) :=
  match line with
  | ["adoptprefix", dir, k] =>
    match s.db with
    | some _ => some (s, "bad:already-open")
    | none =>
      let n := (steps s.world dir).length
      some ({ s with world := applyPrefix s.world dir k.toNat! }, s!"ok {n}")
  | _ => none

end XixiKV.Adopt.Drv
