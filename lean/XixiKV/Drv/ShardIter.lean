import XixiKV.Model.ShardIter
/-!
# Line-protocol fragment for the sharded index and its iterators (C10 tie)

    ix.new <type 1|2|3> <nshards>          → ok            (nshards = actual number of shards)
    ix.put <keyhex> <n> <shard>            → old=<m> | old=nil
    ix.get <keyhex>                        → <n> | nil
    ix.del <keyhex>                        → old=<m> | old=nil
    ix.size                                → size <n>
    ixit.new <id> <rev 0|1>                → state line
    ixit.rewind <id> | ixit.next <id> | ixit.seek <id> <keyhex> | ixit.state <id>  → state line
    ixit.close <id>                        → ok

A state line is `it <keyhex> <n>` when the iterator is valid and `it invalid` otherwise.  Keys are
lowercase hex, `-` is the empty key.  The shard of a key is the one given with its `ix.put` (the
harness computes it with the real hash); the model never hashes.  The iterator is the index-level
`IndexIterator` of `Model/ShardIter.lean`; it takes the per-shard snapshots at `ixit.new`.
-/
namespace XixiKV.ShardIter.Drv
open XixiKV.Index XixiKV.ShardIter

def hexVal (c : Char) : Nat :=
  if '0' ≤ c ∧ c ≤ '9' then c.toNat - '0'.toNat
  else if 'a' ≤ c ∧ c ≤ 'f' then c.toNat - 'a'.toNat + 10
  else if 'A' ≤ c ∧ c ≤ 'F' then c.toNat - 'A'.toNat + 10 else 0

def parseHexAux : List Char → ByteArray → ByteArray
  | a :: b :: rest, out => parseHexAux rest (out.push (hexVal a * 16 + hexVal b).toUInt8)
  | _, out => out

def parseHex (s : String) : ByteArray := parseHexAux s.toList ByteArray.empty

def hexDigit (n : Nat) : Char := if n < 10 then Char.ofNat (48 + n) else Char.ofNat (87 + n)

def toHex (b : ByteArray) : String :=
  String.ofList (b.data.toList.flatMap (fun x => [hexDigit (x.toNat / 16), hexDigit (x.toNat % 16)]))

def parseKey (t : String) : Key := if t = "-" then ByteArray.empty else parseHex t
def fmtKey (k : Key) : String := if k.size = 0 then "-" else toHex k

/-! one shard = ascending association list (the observable content of map / skip list / B-tree) -/

def getKV (l : List (Key × Nat)) (k : Key) : Option Nat :=
  match l with
  | [] => none
  | (k', v) :: rest => if k' = k then some v else getKV rest k

def putKV (l : List (Key × Nat)) (k : Key) (v : Nat) : List (Key × Nat) :=
  match l with
  | [] => [(k, v)]
  | (k', v') :: rest =>
    if k' = k then (k, v) :: rest
    else if keyLt k k' then (k, v) :: (k', v') :: rest
    else (k', v') :: putKV rest k v

def eraseKV (l : List (Key × Nat)) (k : Key) : List (Key × Nat) :=
  match l with
  | [] => []
  | (k', v') :: rest => if k' = k then rest else (k', v') :: eraseKV rest k

structure DrvState where
  typ : IndexType
  shards : List (List (Key × Nat))          -- `ShardedIndex.index`, one ascending list per shard
  shardMap : List (Key × Nat)               -- shard of every key ever put (from the harness)
  iters : List (String × IndexIterator Nat)

def DrvState.init : DrvState := { typ := .btree, shards := [[]], shardMap := [], iters := [] }

def fmtOld : Option Nat → String
  | some m => s!"old={m}"
  | none => "old=nil"

def stateLine (it : IndexIterator Nat) : String :=
  if it.valid then
    match it.key, it.value with
    | some k, some v => s!"it {fmtKey k} {v}"
    | _, _ => "it ?"
  else "it invalid"

def findIt (st : DrvState) (id : String) : Option (IndexIterator Nat) :=
  (st.iters.find? (·.1 = id)).map (·.2)

def setIt (st : DrvState) (id : String) (it : IndexIterator Nat) : DrvState :=
  { st with iters := (id, it) :: st.iters.filter (fun p => p.1 ≠ id) }

def withIt (st : DrvState) (id : String) (f : IndexIterator Nat → IndexIterator Nat) :
    Option (DrvState × String) :=
  match findIt st id with
  | none => some (st, "err:no-iterator")
  | some it => let it' := f it; some (setIt st id it', stateLine it')

def parseType : String → Option IndexType
  | "1" => some .btree
  | "2" => some .skiplist
  | "3" => some .hashmap
  | _ => none

def step (st : DrvState) : List String → Option (DrvState × String)
  | ["ix.new", t, n] =>
    match parseType t, n.toNat? with
    | some typ, some n =>
      if n = 0 then some (st, "err:parse")
      else some ({ typ := typ, shards := List.replicate n [], shardMap := [], iters := [] }, "ok")
    | _, _ => some (st, "err:parse")
  | ["ix.put", k, v, s] =>
    match v.toNat?, s.toNat? with
    | some v, some s =>
      let key := parseKey k
      match st.shards[s]? with
      | none => some (st, "err:bad-shard")
      | some sh =>
        let old := getKV sh key
        some ({ st with shards := st.shards.set s (putKV sh key v),
                        shardMap := (key, s) :: st.shardMap.filter (fun p => p.1 ≠ key) }, fmtOld old)
    | _, _ => some (st, "err:parse")
  | ["ix.get", k] =>
    let key := parseKey k
    match (st.shardMap.find? (·.1 = key)).bind (fun p => st.shards[p.2]?) with
    | none => some (st, "nil")
    | some sh =>
      match getKV sh key with
      | some v => some (st, toString v)
      | none => some (st, "nil")
  | ["ix.del", k] =>
    let key := parseKey k
    match st.shardMap.find? (·.1 = key) with
    | none => some (st, "old=nil")
    | some (_, s) =>
      match st.shards[s]? with
      | none => some (st, "old=nil")
      | some sh => some ({ st with shards := st.shards.set s (eraseKV sh key) }, fmtOld (getKV sh key))
  | ["ix.size"] => some (st, s!"size {(st.shards.map List.length).sum}")
  | ["ixit.new", id, r] =>
    if r = "0" ∨ r = "1" then
      let it := IndexIterator.create st.typ (r = "1") st.shards
      some (setIt st id it, stateLine it)
    else some (st, "err:parse")
  | ["ixit.rewind", id] => withIt st id IndexIterator.rewind
  | ["ixit.next", id] => withIt st id IndexIterator.next
  | ["ixit.seek", id, k] => withIt st id (IndexIterator.seek (parseKey k))
  | ["ixit.state", id] => withIt st id (fun it => it)
  | ["ixit.close", id] => some ({ st with iters := st.iters.filter (fun p => p.1 ≠ id) }, "ok")
  | _ => none

/-- run a script (one line per element), for tests -/
def run (lines : List String) : List String :=
  (lines.foldl (fun (acc : DrvState × List String) l =>
      match step acc.1 (l.splitOn " ") with
      | some (st, out) => (st, out :: acc.2)
      | none => (acc.1, "?" :: acc.2)) (DrvState.init, [])).2.reverse

end XixiKV.ShardIter.Drv
