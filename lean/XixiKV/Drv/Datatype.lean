import XixiKV.Model.Datatype
import XixiKV.Spec.Datatype
/-!
# Line-protocol fragment for the datatype model (`dt.*` lines)

Tokens: keys / fields / members / elements are lowercase hex (`-` = empty); values are `x<hex>`,
`-` (empty, non-nil) or `nil` (Go nil: only meaningful for `dt.set`, where it makes the call a
no-op); scores are decimal texts which must already be in Go's canonical
`strconv.FormatFloat(f, 'f', -1, 64)` form (`1.5`, `-2`, `0.001`; not `1.50`, `1e3`, `-0`, `NaN`):
the model compares scores as texts, which coincides with Go's float comparison on such inputs.

TTL classes of `dt.set`: `none` (ttl 0), `live` (2^61 ns ≈ 73 years), `expired` (1 ns: the value
is already expired when the next command runs, because the model clock advances by 1 after every
command).  `dt.now <n>` sets the model clock.  `dt.restart` (close and reopen the service) leaves the
model state as it is: the engine keeps the key ↦ value mapping across restart (C02/C04), and the
layer has no other state (`C19_restart`).

Replies: `ok`, `1`/`0` (flags), `<n>` (lengths, type codes), `x<hex>` / `-` (bytes), `nil`,
`<score>`, `notfound`, `err:wrongtype`, `err:keyempty`, `err:other`, `panic` (the Go call panics;
the store is untouched).
-/
namespace XixiKV.Datatype.Drv
open XixiKV.Datatype

def hexVal (c : Char) : Nat :=
  if '0' ≤ c ∧ c ≤ '9' then c.toNat - '0'.toNat
  else if 'a' ≤ c ∧ c ≤ 'f' then c.toNat - 'a'.toNat + 10
  else if 'A' ≤ c ∧ c ≤ 'F' then c.toNat - 'A'.toNat + 10 else 0

def parseHexList : List Char → List UInt8
  | a :: b :: r => (hexVal a * 16 + hexVal b).toUInt8 :: parseHexList r
  | _ => []

def parseHex (s : String) : ByteArray := ⟨(parseHexList s.toList).toArray⟩

def hexDigit (n : Nat) : Char := if n < 10 then Char.ofNat (48 + n) else Char.ofNat (87 + n)

def toHex (b : ByteArray) : String :=
  String.ofList (b.data.toList.flatMap (fun x => [hexDigit (x.toNat / 16), hexDigit (x.toNat % 16)]))

def parseKey (t : String) : ByteArray := if t = "-" ∨ t = "nil" then ByteArray.empty else parseHex t

/-- `none`: the Go `nil` -/
def parseVal (t : String) : Option ByteArray :=
  if t = "nil" then none
  else if t = "-" then some ByteArray.empty
  else if t.startsWith "x" then some (parseHex (t.drop 1).toString)
  else some ByteArray.empty

def parseVal' (t : String) : ByteArray := (parseVal t).getD ByteArray.empty

def ttlLive : Nat := 2 ^ 61

def parseTtl (t : String) : Nat :=
  if t = "live" then ttlLive else if t = "expired" then 1 else 0

def parseCmd : List String → Option Cmd
  | ["dt.set", k, v, ttl] => some (.set (parseKey k) (parseVal v) (parseTtl ttl))
  | ["dt.get", k] => some (.get (parseKey k))
  | ["dt.del", k] => some (.del (parseKey k))
  | ["dt.type", k] => some (.type (parseKey k))
  | ["dt.hset", k, f, v] => some (.hset (parseKey k) (parseKey f) (parseVal' v))
  | ["dt.hget", k, f] => some (.hget (parseKey k) (parseKey f))
  | ["dt.hdel", k, f] => some (.hdel (parseKey k) (parseKey f))
  | ["dt.sadd", k, m] => some (.sadd (parseKey k) (parseKey m))
  | ["dt.sismember", k, m] => some (.sismember (parseKey k) (parseKey m))
  | ["dt.srem", k, m] => some (.srem (parseKey k) (parseKey m))
  | ["dt.lpush", k, e] => some (.lpush (parseKey k) (parseKey e))
  | ["dt.rpush", k, e] => some (.rpush (parseKey k) (parseKey e))
  | ["dt.lpop", k] => some (.lpop (parseKey k))
  | ["dt.rpop", k] => some (.rpop (parseKey k))
  | ["dt.zadd", k, s, m] => some (.zadd (parseKey k) s.toUTF8 (parseKey m))
  | ["dt.zscore", k, m] => some (.zscore (parseKey k) (parseKey m))
  | _ => none

def fmtScore (s : Score) : String :=
  match String.fromUTF8? s with
  | some t => t
  | none => "?" ++ toHex s

def fmtReply : Reply → String
  | .ok => "ok"
  | .flag b => if b then "1" else "0"
  | .size n => toString n
  | .bytes v => if v.size = 0 then "-" else "x" ++ toHex v
  | .nil => "nil"
  | .score s => fmtScore s
  | .notFound => "notfound"
  | .wrongType => "err:wrongtype"
  | .keyEmpty => "err:keyempty"
  | .otherErr => "err:other"
  | .panic => "panic"

structure DrvState where
  kv : KV
  now : Nat

def DrvState.init : DrvState := { kv := KV.empty, now := 1 }

/-- one input line (already split at blanks); `none`: not a `dt.*` line of this fragment -/
def step (s : DrvState) (line : List String) : Option (DrvState × String) :=
  match line with
  | ["dt.reset"] => some ({ s with kv := KV.empty }, "ok")
  | ["dt.now", n] => some ({ s with now := n.toNat! }, "ok")
  | ["dt.restart"] => some (s, "ok")   -- Close + NewDataTypeService: the mapping survives (C02/C04)
  | _ =>
    match parseCmd line with
    | none => none
    | some c =>
      let (kv', r) := run c s.kv s.now
      some ({ kv := kv', now := s.now + 1 }, fmtReply r)

/-- run whole lines from the initial state; unhandled lines reply `?` -/
def runLines (lines : List String) : List String :=
  (lines.foldl (fun (acc : DrvState × List String) l =>
    match step acc.1 (l.splitOn " " |>.filter (· ≠ "")) with
    | some (s', out) => (s', out :: acc.2)
    | none => (acc.1, "?" :: acc.2)) (DrvState.init, [])).2.reverse

/-! ## model against specification -/

structure Disagreement where
  index : Nat
  cmd : String
  now : Nat
  model : String
  spec : String
deriving Repr

def fmtCmd : Cmd → String
  | .set k v ttl => s!"set {toHex k} {match v with | none => "nil" | some v => "x" ++ toHex v} ttl={ttl}"
  | .get k => s!"get {toHex k}"
  | .del k => s!"del {toHex k}"
  | .type k => s!"type {toHex k}"
  | .hset k f v => s!"hset {toHex k} {toHex f} x{toHex v}"
  | .hget k f => s!"hget {toHex k} {toHex f}"
  | .hdel k f => s!"hdel {toHex k} {toHex f}"
  | .sadd k m => s!"sadd {toHex k} {toHex m}"
  | .sismember k m => s!"sismember {toHex k} {toHex m}"
  | .srem k m => s!"srem {toHex k} {toHex m}"
  | .lpush k e => s!"lpush {toHex k} {toHex e}"
  | .rpush k e => s!"rpush {toHex k} {toHex e}"
  | .lpop k => s!"lpop {toHex k}"
  | .rpop k => s!"rpop {toHex k}"
  | .zadd k s m => s!"zadd {toHex k} {fmtScore s} {toHex m}"
  | .zscore k m => s!"zscore {toHex k} {toHex m}"

/-- run a history on the model and on the specification; the first reply that differs -/
def firstDisagreement (h : List (Cmd × Nat)) : Option Disagreement :=
  go h KV.empty Spec.State.empty 0
where
  go : List (Cmd × Nat) → KV → Spec.State → Nat → Option Disagreement
    | [], _, _, _ => none
    | (c, now) :: cs, kv, sp, i =>
      let (kv', r) := run c kv now
      let (sp', r') := Spec.step c sp now
      if r = r' then go cs kv' sp' (i + 1)
      else some { index := i, cmd := fmtCmd c, now := now, model := fmtReply r, spec := fmtReply r' }

/-- the same on protocol lines (clock as in `step`: starts at 1, `dt.now` sets it, +1 per command) -/
def linesToHistory (lines : List String) : List (Cmd × Nat) :=
  (lines.foldl (fun (acc : Nat × List (Cmd × Nat)) l =>
    match l.splitOn " " |>.filter (· ≠ "") with
    | ["dt.now", n] => (n.toNat!, acc.2)
    | toks =>
      match parseCmd toks with
      | some c => (acc.1 + 1, (c, acc.1) :: acc.2)
      | none => acc) (1, [])).2.reverse

/-! ### sanity checks -/

private def demo1 : List String := [
  "dt.set 6b31 x6869 none", "dt.get 6b31", "dt.type 6b31", "dt.hset 6b31 66 x01",
  "dt.del 6b31", "dt.get 6b31", "dt.hset 6b31 66 x01", "dt.hset 6b31 66 x02", "dt.hset 6b31 67 -",
  "dt.hget 6b31 66", "dt.hget 6b31 67", "dt.hget 6b31 68", "dt.hdel 6b31 66", "dt.hdel 6b31 66",
  "dt.type 6b31", "dt.del 6b31", "dt.sadd 6b31 aa", "dt.sadd 6b31 aa", "dt.sadd 6b31 bb",
  "dt.sismember 6b31 aa", "dt.srem 6b31 aa", "dt.sismember 6b31 aa", "dt.hget 6b31 66",
  "dt.del 6b31", "dt.rpush 6b31 01", "dt.rpush 6b31 02", "dt.lpush 6b31 00", "dt.lpop 6b31",
  "dt.rpop 6b31", "dt.rpop 6b31", "dt.rpop 6b31", "dt.lpush 6b31 -", "dt.lpop 6b31",
  "dt.del 6b31", "dt.zscore 6b31 aa", "dt.zadd 6b31 1.5 aa", "dt.zadd 6b31 1.5 aa",
  "dt.zadd 6b31 -2 aa", "dt.zscore 6b31 aa", "dt.zscore 6b31 bb", "dt.type 6b31",
  "dt.set 6b32 x41 expired", "dt.get 6b32", "dt.set 6b32 - live", "dt.get 6b32", "dt.get -",
  "dt.set - nil none", "dt.set - x00 none", "dt.lpop 6b32"]

#guard runLines demo1 =
  ["ok", "x6869", "0", "err:wrongtype", "ok", "notfound", "1", "0", "1", "x02", "nil", "notfound", "1",
   "0", "1", "ok", "1", "0", "1", "1", "1", "0", "err:wrongtype", "ok", "1", "2", "3", "x00", "x02", "x01",
   "nil", "1", "nil", "ok", "-1", "1", "0", "0", "-2", "notfound", "4", "ok", "nil", "ok", "-",
   "err:keyempty", "ok", "err:keyempty", "err:wrongtype"]

/-- info: none -/
#guard_msgs in
#eval firstDisagreement (linesToHistory demo1)

/-- an expired string is absent for `Type` and for the other types, on both sides -/
private def demoExpired : List String :=
  ["dt.set 6b31 x41 expired", "dt.get 6b31", "dt.type 6b31", "dt.hget 6b31 66", "dt.hset 6b31 66 x01",
   "dt.type 6b31", "dt.set 6b32 xe4bda0e5a5bde4b896e7958c none", "dt.sadd 6b32 61", "dt.type 6b32"]

#guard runLines demoExpired = ["ok", "nil", "notfound", "nil", "1", "1", "ok", "err:wrongtype", "0"]

/-- info: none -/
#guard_msgs in
#eval firstDisagreement (linesToHistory demoExpired)

end XixiKV.Datatype.Drv
