import XixiKV.Model.Fio
/-!
# Line-protocol fragment for the file-I/O layer (`Model/Fio.lean`)

    fio.open <name> <io 0|1>      → ok size=<logical size>     (0 = FileIO, 1 = MMap; creates the file)
    fio.write <name> <val>        → ok
    fio.read <name> <off> <len>   → r<n>:<hex of the n bytes> | eof      (eof ⇔ n = 0)
    fio.size <name>               → size <logical size>
    fio.phys <name>               → phys <physical size of the OS file>
    fio.sync <name>               → ok
    fio.reset <name>              → ok          (ResetFileSize; MMap only, `?` for FileIO)
    fio.trunc <name> <n>          → ok
    fio.close <name>              → ok

`<val>` is `x<hex>`, `p<seed>:<len>` (byte i = (seed*131 + i*i*7 + i*13 + i/256) % 256) or `-`.
A fault prints `fault`, a call on a closed handle `err:closed`, an unknown name `err:no-file`.
The driver keeps a table of named OS files; a closed file can be opened again with either back-end
(opening a file that still has an open handle is not modelled: `?`).

The block size is the Go constant, 512 MiB.  An `MMap` handle is executed on its `Sparse` view
(`Proofs/Fio.lean`, `abs_apply`: call by call the same results and the same file as `MMap`), so the
zero tail of the extended file is a number, not memory.
-/
namespace XixiKV.Fio.Drv
open XixiKV.Fio

def B : Nat := 536870912

def hexVal (c : Char) : Nat :=
  if '0' ≤ c ∧ c ≤ '9' then c.toNat - '0'.toNat
  else if 'a' ≤ c ∧ c ≤ 'f' then c.toNat - 'a'.toNat + 10
  else if 'A' ≤ c ∧ c ≤ 'F' then c.toNat - 'A'.toNat + 10 else 0

def parseHexAux : List Char → ByteArray → ByteArray
  | a :: b :: rest, out => parseHexAux rest (out.push (hexVal a * 16 + hexVal b).toUInt8)
  | _, out => out

def parseHex (s : String) : ByteArray := parseHexAux s.toList ByteArray.empty

def hexDigit (n : Nat) : Char := if n < 10 then Char.ofNat (48 + n) else Char.ofNat (87 + n)

def toHex (b : ByteArray) : String := Id.run do
  let mut s := ""
  for x in b.data do
    s := s.push (hexDigit (x.toNat / 16))
    s := s.push (hexDigit (x.toNat % 16))
  return s

def patBytes (seed n : Nat) : ByteArray := Id.run do
  let mut out := ByteArray.emptyWithCapacity n
  let s := seed * 131
  for i in [0:n] do
    out := out.push ((s + i * i * 7 + i * 13 + i / 256) % 256).toUInt8
  return out

def parseVal (t : String) : Option ByteArray :=
  if t = "-" then some ByteArray.empty
  else if t.startsWith "x" then some (parseHex (t.drop 1).toString)
  else if t.startsWith "p" then
    match (t.drop 1).toString.splitOn ":" with
    | [s, n] => match s.toNat?, n.toNat? with
      | some s, some n => some (patBytes s n)
      | _, _ => none
    | _ => none
  else none

inductive Handle where
  | fileio (s : FileIO)
  | mmap (s : Sparse)

def Handle.closed : Handle → Bool
  | .fileio s => s.closed
  | .mmap s => s.closed

def Handle.phys : Handle → Nat
  | .fileio s => s.os.bytes.size
  | .mmap s => s.phys

/-- the OS file a closed handle leaves behind (`Sparse.close`: `phys = data.size`) -/
def Handle.osFile : Handle → OsFile
  | .fileio s => s.os
  | .mmap s => ⟨s.data⟩

def Handle.apply (h : Handle) (op : Op) : Handle × Res :=
  match h with
  | .fileio s => let r := s.apply op; (.fileio r.1, r.2)
  | .mmap s => let r := s.apply B op; (.mmap r.1, r.2)

def Handle.close : Handle → Handle × Res
  | .fileio s => let r := s.close; (.fileio r.1, r.2)
  | .mmap s => let r := s.close; (.mmap r.1, r.2)

structure DrvState where
  files : List (String × Handle)

def DrvState.init : DrvState := { files := [] }

def DrvState.get (st : DrvState) (name : String) : Option Handle :=
  (st.files.find? (·.1 = name)).map (·.2)

def DrvState.set (st : DrvState) (name : String) (h : Handle) : DrvState :=
  { files := (name, h) :: st.files.filter (fun p => p.1 ≠ name) }

def fmtRes : Res → String
  | .ok => "ok"
  | .n _ => "ok"
  | .data b _ => if b.size = 0 then "eof" else s!"r{b.size}:{toHex b}"
  | .size n => s!"size {n}"
  | .fault => "fault"
  | .err => "err:closed"

def call (st : DrvState) (name : String) (op : Op) : Option (DrvState × String) :=
  match st.get name with
  | none => some (st, "err:no-file")
  | some h => let r := h.apply op; some (st.set name r.1, fmtRes r.2)

def step (st : DrvState) : List String → Option (DrvState × String)
  | ["fio.open", name, io] =>
    let file : Option OsFile := match st.get name with
      | none => some ⟨ByteArray.empty⟩
      | some h => if h.closed then some h.osFile else none
    match file, io with
    | none, _ => some (st, "?")
    | some f, "0" => some (st.set name (.fileio (FileIO.open f)), s!"ok size={f.bytes.size}")
    | some f, "1" => some (st.set name (.mmap (Sparse.open B f)), s!"ok size={f.bytes.size}")
    | _, _ => some (st, "err:parse")
  | ["fio.write", name, v] =>
    match parseVal v with
    | some b => call st name (.write b)
    | none => some (st, "err:parse")
  | ["fio.read", name, off, len] =>
    match off.toNat?, len.toNat? with
    | some off, some len => call st name (.read off len)
    | _, _ => some (st, "err:parse")
  | ["fio.size", name] => call st name .size
  | ["fio.phys", name] =>
    match st.get name with
    | none => some (st, "err:no-file")
    | some h => some (st, s!"phys {h.phys}")
  | ["fio.sync", name] => call st name .sync
  | ["fio.reset", name] =>
    match st.get name with
    | some (.fileio _) => some (st, "?")
    | _ => call st name .resetFileSize
  | ["fio.trunc", name, n] =>
    match n.toNat? with
    | some n => call st name (.truncate n)
    | none => some (st, "err:parse")
  | ["fio.close", name] =>
    match st.get name with
    | none => some (st, "err:no-file")
    | some h => let r := h.close; some (st.set name r.1, fmtRes r.2)
  | _ => none

end XixiKV.Fio.Drv
