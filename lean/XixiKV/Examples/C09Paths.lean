import XixiKV.Properties.C09
/-!
# C09 — non-vacuity: real paths of the regenerated lockset table (kept out of the obligation module)

These examples name rows of `Generated.locksetTable` by ordinal; the ordinals change when a method is rewritten, also
harmlessly.  They are built by `bin/setup` (`lake build XixiKV`) and document that the hypotheses of the C09 theorems are
met by the code as it is at the recorded commit; they are not obligations of the C09 check.
-/
namespace XixiKV.C09
open XixiKV.Generated XixiKV.Lockset XixiKV.RWMutex
open XixiKV.Conc in
open XixiKV.Conc in
open XixiKV.Conc in
open XixiKV.Conc in
open XixiKV.Conc in

/-! paths of the generated table that are admissible programs -/

/-- `DB.Put`, the path without rotation error / sync error -/
def putPath : List Row := path locksetTable "DB.Put" (List.range' 1 20 ++ List.range' 23 5)
/-- `DB.Stat` -/
def statPath : List Row := path locksetTable "DB.Stat" (List.range' 0 8)
/-- `DB.Get`, key found in an older file -/
def getPath : List Row := path locksetTable "DB.Get" ([1, 2] ++ List.range' 5 6)
/-- `DB.Merge`, the path that reaches the final `return nil` (one record examined) -/
def mergePath : List Row :=
  path locksetTable "DB.Merge"
    ([0, 1] ++ List.range' 4 6 ++ List.range' 12 9 ++ [26, 27, 28, 29, 55, 56, 57, 82, 83, 84, 85, 91, 92, 105, 106, 107, 108])
/-- a batch session: `NewBatch`, one `Batch.Put` that flushes, `Commit` -/
def batchSession : List Row :=
  path locksetTable "DB.NewBatch" [0, 1] ++
  path locksetTable "Batch.Put" (List.range' 2 31 ++ [34]) ++
  path locksetTable "Batch.Commit" (List.range' 3 23 ++ [28, 29] ++ List.range' 32 6 ++ [40, 41])

set_option maxRecDepth 100000 in
/-- the hypotheses of `C09_lockset` / `C09_no_deadlock` are met by real paths of the generated
table: each is consistent with its annotations from the unlocked state and ends unlocked, and the
write rows in them really are conflicting accesses -/
example :
    runsFrom dbAct (· == .none) .none putPath = true ∧ putPath.length = 25 ∧
    runsFrom dbAct (· == .none) .none statPath = true ∧
    runsFrom dbAct (· == .none) .none getPath = true ∧
    runsFrom dbAct (· == .none) .none mergePath = true ∧ mergePath.length = 34 ∧
    runsFrom dbAct (· == .none) .none batchSession = true ∧ batchSession.length = 67 ∧
    (putPath.map dbAct).contains (.write "reclaimSize") = true ∧
    (statPath.map dbAct).contains (.read "reclaimSize") = true := by decide

set_option maxRecDepth 100000 in
/-- a reachable state with one thread inside the W section of `Put` (it has taken `db.mu`) while
another thread has started `Stat` and is blocked at its `RLock` -/
example : ∃ s, Reachable (tableSys dbAct locksetTable (fun _ => true) (fun _ _ => True)) s ∧
    s.writer = some 0 ∧ s.pc 0 = putPath.tail ∧ s.pc 1 = statPath := by
  have hput : (tableSys dbAct locksetTable (fun _ => true) (fun _ _ => True)).prog .none putPath :=
    ⟨by decide, path_good (by decide) (by decide)⟩
  have hstat : (tableSys dbAct locksetTable (fun _ => true) (fun _ _ => True)).prog .none statPath :=
    ⟨by decide, path_good (by decide) (by decide)⟩
  have hhead : putPath = ⟨"DB.Put", 1, "acqW", .W, 1⟩ :: putPath.tail := by decide
  let S1 : St := { St.init with pc := upd St.init.pc 0 putPath }
  let S2 : St := { S1 with pc := upd S1.pc 1 statPath }
  have s1 : Step _ St.init 0 S1 := Step.call St.init 0 putPath rfl hput
  have s2 : Step _ S1 1 S2 := Step.call S1 1 statPath rfl hstat
  have s3 := Step.acqW (sys := tableSys dbAct locksetTable (fun _ => true) (fun _ _ => True))
    S2 0 ⟨"DB.Put", 1, "acqW", .W, 1⟩ putPath.tail hhead (by decide) rfl (fun _ => rfl)
  exact ⟨_, .step (.step (.step .init s1) s2) s3, rfl, rfl, rfl⟩

set_option maxRecDepth 100000 in
/-- the hypotheses of `C09_lockset_shards` are met by the methods of the generated shard table (all
straight-line): each is consistent with its annotations, and `Put` / `Iterator` / `Get` contain
conflicting accesses to the shard -/
example :
    runsFrom shardAct (· == .none) .none (path shardTable "ShardedIndex.Put" [0, 1, 2, 3]) = true ∧
    runsFrom shardAct (· == .none) .none (path shardTable "ShardedIndex.Get" [0, 1, 2, 3]) = true ∧
    runsFrom shardAct (· == .none) .none (path shardTable "ShardedIndex.Iterator" [0, 1, 2, 3]) = true ∧
    ((path shardTable "ShardedIndex.Iterator" [0, 1, 2, 3]).map shardAct).contains (.write "shard") = true ∧
    ((path shardTable "ShardedIndex.Get" [0, 1, 2, 3]).map shardAct).contains (.read "shard") = true := by
  decide


set_option maxRecDepth 100000 in
/-- the hypotheses of `C09_no_deadlock` are met by a state with a blocked thread: thread 0 holds
`db.mu` inside `Put`, thread 1 is blocked at the `RLock` of `Stat`, under Go's writer preference -/
example : ∃ s, Reachable (tableSys dbAct locksetTable (· == .none)
      (fun s _ => ¬ ∃ t r rest, s.pc t = r :: rest ∧ dbAct r = .acqW)) s ∧
    s.writer = some 0 ∧ s.pc 0 ≠ [] ∧ s.pc 1 = statPath := by
  have hput : (tableSys dbAct locksetTable (· == .none)
      (fun s _ => ¬ ∃ t r rest, s.pc t = r :: rest ∧ dbAct r = .acqW)).prog .none putPath :=
    ⟨by decide, path_good (by decide) (by decide)⟩
  have hstat : (tableSys dbAct locksetTable (· == .none)
      (fun s _ => ¬ ∃ t r rest, s.pc t = r :: rest ∧ dbAct r = .acqW)).prog .none statPath :=
    ⟨by decide, path_good (by decide) (by decide)⟩
  have hhead : putPath = ⟨"DB.Put", 1, "acqW", .W, 1⟩ :: putPath.tail := by decide
  let S1 : St := { St.init with pc := upd St.init.pc 0 putPath }
  let S2 : St := { S1 with pc := upd S1.pc 1 statPath }
  have s1 : Step _ St.init 0 S1 := Step.call St.init 0 putPath rfl hput
  have s2 : Step _ S1 1 S2 := Step.call S1 1 statPath rfl hstat
  have s3 := Step.acqW (sys := tableSys dbAct locksetTable (· == .none)
      (fun s _ => ¬ ∃ t r rest, s.pc t = r :: rest ∧ dbAct r = .acqW))
    S2 0 ⟨"DB.Put", 1, "acqW", .W, 1⟩ putPath.tail hhead (by decide) rfl (fun _ => rfl)
  exact ⟨_, .step (.step (.step .init s1) s2) s3, rfl, by decide, rfl⟩

set_option maxRecDepth 100000 in
/-- the background-merge goroutine of `Open` (walked as pseudo-method `Open.go1`) is in the table, reads `bytesWrite`, and
every one of its reads of that field holds `db.mu` (fix 94ad76a) -/
example : (locksetTable.any fun r => r.method == "Open.go1" && r.action == "read:bytesWrite") = true ∧
    (locksetTable.all fun r => !(r.method == "Open.go1" && r.action == "read:bytesWrite") || r.mode != .none) = true := by
  decide

end XixiKV.C09
