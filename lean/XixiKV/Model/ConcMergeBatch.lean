import XixiKV.Model.ConcBatch
/-!
# A Merge running concurrently with the clients AND THE BATCHES of `Model/ConcBatch.lean`   (C06)

`Model/ConcMerge.lean` has a merge next to `Put / Delete / Get` but no batches, `Model/ConcBatch.lean`
has batches (one W section of `db.mu` from `NewBatch` to `Commit`, EARLY FLUSHES that append tagged
records and update `db.index` before the sealing record exists) but no merge.  This file puts the
merge steps of `ConcMerge` on top of the state and the step relation of `ConcBatch`; neither of
the two files is changed.

| Go (`merge.go`) | here |
|---|---|
| `db.mu.Lock(); … rotate the active file; nonMergeFileId := …; db.mu.Unlock()` | `mstart`: needs `db.mu` free (so no batch is open: a batch holds `db.mu` from `NewBatch` to `Commit`); boundary `n = log.length`; visiting order `todo` = any permutation |
| per record: `db.mu.RLock(); pos := db.index.Get(key); db.mu.RUnlock()`; `if pos == this record { logRecord.BatchID = 0; mergeDB.appendLogRecord }` | `mvisit`: one atomic step that reads the index; `mergeVisitGated = true`: enabled only while no writer holds `db.mu` (the R section); `false`: the tree before 79a6afe, where the read ran without `db.mu` and was enabled at ANY time, also inside an open batch.  The rewritten record is UNTAGGED (`BatchID = 0`) |
| batch-finished records, tombstones: never indexed, never rewritten | `visit` copies `put`s only |
| closing the output, writing the marker | `mfinish` |
| an error return: no marker | `mabort` |
| `Open` adopting the finished merge after a PROCESS DEATH (the whole log survives) | the log a restart replays is `out ++ log.drop n`; it is replayed with the parked-batch rule (`ConcBatch.recovered`) |
-/
namespace XixiKV.ConcMergeBatch
open XixiKV.Conc (Tid Key Val upd updK Res)
open XixiKV.ConcBatch

/-- state of the merging goroutine (`isMerging`: one at a time) -/
inductive MSt
  | idle
  | scanning (n : Nat) (todo : List Nat) (out : List Rec)
  | done (n : Nat) (out : List Rec)
deriving DecidableEq, Repr

structure GM where
  g : G
  m : MSt

def initM : GM := { g := ConcBatch.init, m := .idle }

/-- the merge loop body for the record at log position `i`: rewritten, WITHOUT its batch tag, iff
the index points at exactly this record -/
def visit (g : G) (i : Nat) (out : List Rec) : List Rec :=
  match g.log[i]? with
  | some (.put k v _) => if g.idx k = some i then out ++ [.put k v 0] else out
  | _ => out

def MSt.canStart : MSt → Bool
  | .scanning _ _ _ => false
  | _ => true

/-- `mergeVisitGated`: the liveness test `db.index.Get` of the merge loop sits inside an R section
of `db.mu` -/
inductive StepM (sh : Shape) (mergeVisitGated : Bool) : GM → GM → Prop
  | base (g g' : G) (m : MSt) : Step sh g g' → StepM sh mergeVisitGated ⟨g, m⟩ ⟨g', m⟩
  | mstart (g : G) (m : MSt) (todo : List Nat) :
      m.canStart = true → g.writer = none → todo.Perm (List.range g.log.length) →
      StepM sh mergeVisitGated ⟨g, m⟩ ⟨g, .scanning g.log.length todo []⟩
  | mvisit (g : G) (n i : Nat) (todo : List Nat) (out : List Rec) :
      (mergeVisitGated = true → g.writer = none) →
      StepM sh mergeVisitGated ⟨g, .scanning n (i :: todo) out⟩ ⟨g, .scanning n todo (visit g i out)⟩
  | mfinish (g : G) (n : Nat) (out : List Rec) :
      StepM sh mergeVisitGated ⟨g, .scanning n [] out⟩ ⟨g, .done n out⟩
  | mabort (g : G) (n : Nat) (todo : List Nat) (out : List Rec) :
      StepM sh mergeVisitGated ⟨g, .scanning n todo out⟩ ⟨g, .idle⟩

inductive ReachableM (sh : Shape) (mergeVisitGated : Bool) : GM → Prop
  | init : ReachableM sh mergeVisitGated initM
  | step {a b} : ReachableM sh mergeVisitGated a → StepM sh mergeVisitGated a b →
      ReachableM sh mergeVisitGated b

/-- the log a restart replays once the finished merge `(n, out)` has been adopted (process death:
every record written so far survives) -/
def adopted (g : G) (n : Nat) (out : List Rec) : List Rec := out ++ g.log.drop n

/-- the MAPPING a restart recovers from a log: replay with parked batches (`ConcBatch.recovered`,
the records of an unsealed batch contribute nothing), then read the values -/
def recoveredMap (log : List Rec) : Key → Option Val := fun k => valAt log (recovered log k)

/-! ## executable form (forced schedules) -/

inductive LabelM
  | cl (t : Tid) (l : Label)
  | mstart (todo : Option (List Nat))      -- `none` = ascending order
  | mvisit
  | mfinish
  | mabort
deriving Repr

def isPermOfRange (todo : List Nat) (n : Nat) : Bool :=
  todo.length == n && (List.range n).all (fun i => todo.contains i)

def nextM (sh : Shape) (mergeVisitGated : Bool) (a : GM) : LabelM → Option GM
  | .cl t l => (next sh a.g t l).map fun g' => ⟨g', a.m⟩
  | .mstart todo =>
    let td := todo.getD (List.range a.g.log.length)
    if a.m.canStart ∧ a.g.writer = none ∧ isPermOfRange td a.g.log.length
    then some ⟨a.g, .scanning a.g.log.length td []⟩ else none
  | .mvisit =>
    match a.m with
    | .scanning n (i :: todo) out =>
      if mergeVisitGated = false ∨ a.g.writer = none
      then some ⟨a.g, .scanning n todo (visit a.g i out)⟩ else none
    | _ => none
  | .mfinish =>
    match a.m with
    | .scanning n [] out => some ⟨a.g, .done n out⟩
    | _ => none
  | .mabort =>
    match a.m with
    | .scanning _ _ _ => some ⟨a.g, .idle⟩
    | _ => none

def execM (sh : Shape) (mergeVisitGated : Bool) : List LabelM → GM → Option GM
  | [], a => some a
  | l :: rest, a => (nextM sh mergeVisitGated a l).bind (execM sh mergeVisitGated rest)

/-- number of choices executed before the first refused one, and the state reached -/
def execPrefixM (sh : Shape) (mergeVisitGated : Bool) : List LabelM → GM → Nat → GM × Nat
  | [], a, n => (a, n)
  | l :: rest, a, n =>
    match nextM sh mergeVisitGated a l with
    | some a' => execPrefixM sh mergeVisitGated rest a' (n + 1)
    | none => (a, n)

end XixiKV.ConcMergeBatch
