import XixiKV.Model.Record
import XixiKV.Model.Index
import XixiKV.Proofs.Chunk
/-!
# The engine  (mirrors `db.go`, `batch.go`, `merge.go` at /repo HEAD)

State = a world of directories (each a finite map file-id ↦ bytes + durable-prefix length, an
optional hint file, an optional merge marker, the advisory lock bit) plus at most one open
database handle (configuration, active id, index, the three counters, an optional open batch).
File contents are the *logical* bytes (what `DataFile.Size` covers); the 512 MiB-granular
extension of memory-mapped files is not represented (see DESIGN §7).

Go function ↦ definition:  `Open` ↦ `openDB`; `loadMergeFiles` ↦ `adopt`; `loadDataFiles` is the
directory's id list; `loadIndexFromHintFile` ↦ `loadHint`; `loadIndexFromDataFiles` ↦ `loadIndex`
(with `replayRec` for one record); `appendLogRecord` ↦ `appendLog`; `sync` ↦ `rotate`;
`Put/Get/Delete/Sync/Close/Stat/ListKeys/Fold/Backup` ↦ same names; `Batch.*` ↦ `b*`;
`flushStaged` ↦ `flushStaged`; `Merge` ↦ `merge`.
-/
namespace XixiKV.Engine
open XixiKV.Frame XixiKV.Record XixiKV.Index

def C : Codec := XixiKV.Chunk.crcCodec

structure Cfg where
  fileSize : Nat
  sync : Nat        -- 0 No, 1 Always, 2 Threshold
  bps : Nat
  idx : Nat
  io : Nat
  shards : Nat
deriving Repr, Inhabited

/-- `checkOptions` (db.go) accepts the configuration: positive file-size limit, `BytesPerSync` at most
16 MiB, and non-zero when the strategy is `Threshold`.  (`DirPath` non-empty and the merge ratio in
`[0, 1]` are not part of `Cfg`.) -/
def Cfg.Valid (c : Cfg) : Prop := c.fileSize > 0 ∧ c.bps ≤ 16777216 ∧ (c.sync = 2 → c.bps > 0)
instance (c : Cfg) : Decidable c.Valid := by unfold Cfg.Valid; infer_instance

theorem Cfg.Valid.not_rejected {c : Cfg} (h : c.Valid) :
    ¬ (c.fileSize = 0 ∨ c.bps > 16777216 ∨ (c.sync = 2 ∧ c.bps = 0)) := by
  unfold Cfg.Valid at h; omega

structure FileSt where
  bytes : ByteArray
  synced : Nat          -- length of the prefix covered by the last fsync/msync
deriving Inhabited

structure DirSt where
  data : List (Nat × FileSt)      -- data files, ascending id
  hint : Option ByteArray
  marker : Option ByteArray       -- `.merge-finished` (only in a merge directory)
  locked : Bool
deriving Inhabited

def DirSt.empty : DirSt := { data := [], hint := none, marker := none, locked := false }

abbrev World := List (String × DirSt)

def World.get (w : World) (d : String) : Option DirSt :=
  match w with
  | [] => none
  | (n, s) :: rest => if n = d then some s else World.get rest d

def World.set (w : World) (d : String) (s : DirSt) : World :=
  match w with
  | [] => [(d, s)]
  | (n, s') :: rest => if n = d then (n, s) :: rest else (n, s') :: World.set rest d s

def World.remove (w : World) (d : String) : World := w.filter (·.1 ≠ d)

def getFile (fs : List (Nat × FileSt)) (id : Nat) : Option FileSt :=
  match fs with
  | [] => none
  | (i, f) :: rest => if i = id then some f else getFile rest id

/-- insert or replace, keeping ascending id order -/
def setFile (fs : List (Nat × FileSt)) (id : Nat) (f : FileSt) : List (Nat × FileSt) :=
  match fs with
  | [] => [(id, f)]
  | (i, f') :: rest =>
    if i = id then (i, f) :: rest
    else if id < i then (id, f) :: (i, f') :: rest
    else (i, f') :: setFile rest id f

def removeFile (fs : List (Nat × FileSt)) (id : Nat) : List (Nat × FileSt) := fs.filter (·.1 ≠ id)

/-- a record staged in a batch -/
structure Staged where
  typ : Nat
  key : ByteArray
  value : ByteArray
deriving Inhabited

structure BatchSt where
  staged : List Staged         -- issue order
  sync : Bool
  id : Nat
  cached : Nat                 -- cachedDataSize
  committed : Bool
deriving Inhabited

structure DB where
  cfg : Cfg
  dir : String
  activeId : Nat
  index : Index
  reclaim : Nat
  total : Nat
  bytesWrite : Nat
  batch : Option BatchSt
deriving Inhabited

structure St where
  world : World
  db : Option DB
deriving Inhabited

def St.init : St := { world := [], db := none }

inductive Res where
  | ok : Res
  | val : ByteArray → Res
  | notFound : Res
  | err : String → Res

def mergeDirName (d : String) : String := d ++ "-merge"

/-! ## files of the open database -/

def dirOf (s : St) (db : DB) : DirSt := (s.world.get db.dir).getD DirSt.empty

def activeFile (s : St) (db : DB) : FileSt := (getFile (dirOf s db).data db.activeId).getD ⟨ByteArray.empty, 0⟩

def putFile (s : St) (db : DB) (id : Nat) (f : FileSt) : St :=
  let d := dirOf s db
  { s with world := s.world.set db.dir { d with data := setFile d.data id f } }

/-- `db.sync()` : fsync the active file and start a new one -/
def rotate (s : St) (db : DB) : St × DB :=
  let af := activeFile s db
  let s := putFile s db db.activeId { af with synced := af.bytes.size }
  let db := { db with bytesWrite := 0, activeId := db.activeId + 1 }
  (putFile s db db.activeId ⟨ByteArray.empty, 0⟩, db)

/-- `appendLogRecord` : rotate when the estimate does not fit, append, count, apply the sync policy -/
def appendLog (s : St) (db : DB) (r : Record) : St × DB × Pos :=
  let maxSize := diskSizeEstimate r.key.size r.value.size
  let (s, db) := if (activeFile s db).bytes.size + maxSize > db.cfg.fileSize then rotate s db else (s, db)
  let af := activeFile s db
  let payload := encodeRecord r
  let pos := posOf C db.activeId af.bytes.size payload
  let bytes := appendRec C af.bytes payload
  let db := { db with total := db.total + pos.size, bytesWrite := db.bytesWrite + pos.size }
  let doSync := db.cfg.sync = 1 ∨ (db.cfg.sync = 2 ∧ db.bytesWrite ≥ db.cfg.bps)
  let af' : FileSt := { bytes := bytes, synced := if doSync then bytes.size else af.synced }
  let db := if doSync then { db with bytesWrite := 0 } else db
  (putFile s db db.activeId af', db, pos)

def withDB (s : St) (f : DB → St × Res) : St × Res :=
  match s.db with
  | none => (s, .err "not-open")
  | some db => f db

def put (s : St) (k v : ByteArray) : St × Res :=
  withDB s fun db =>
    if k.size = 0 then (s, .err "keyempty") else
    let (s, db, pos) := appendLog s db { typ := 0, key := k, value := v, batch := 0 }
    let db := match Index.get db.index k with
      | some old => { db with reclaim := db.reclaim + old.size }
      | none => db
    let db := { db with index := Index.put db.index k pos }
    ({ s with db := some db }, .ok)

/-- `getValueByPosition` -/
def valueAt (s : St) (db : DB) (p : Pos) : Res :=
  match getFile (dirOf s db).data p.fid with
  | none => .err "filenotfound"
  | some f =>
    match readAt C f.bytes p.block p.off with
    | .ok payload =>
      match decodeValue payload with
      | some v => .val v
      | none => .err "crc"     -- `validLogRecord`: chunks that do not add up to the record their header describes
    | .eof => .err "eof"
    | .err => .err "crc"

def get (s : St) (k : ByteArray) : St × Res :=
  withDB s fun db =>
    if k.size = 0 then (s, .err "keyempty") else
    match Index.get db.index k with
    | none => (s, .notFound)
    | some p => (s, valueAt s db p)

def delete (s : St) (k : ByteArray) : St × Res :=
  withDB s fun db =>
    if k.size = 0 then (s, .err "keyempty") else
    match Index.get db.index k with
    | none => (s, .ok)
    | some old =>
      let (s, db, pos) := appendLog s db { typ := 1, key := k, value := ByteArray.empty, batch := 0 }
      let db := { db with reclaim := db.reclaim + pos.size + old.size, index := Index.erase db.index k }
      ({ s with db := some db }, .ok)

def syncDB (s : St) : St × Res :=
  withDB s fun db =>
    let af := activeFile s db
    (putFile s db db.activeId { af with synced := af.bytes.size }, .ok)

structure StatOut where
  keys : Nat
  files : Nat
  reclaim : Nat
  disk : Nat

def stat (s : St) (db : DB) : StatOut :=
  { keys := db.index.length, files := (dirOf s db).data.length, reclaim := db.reclaim, disk := db.total }

/-- `Close`: every file is flushed and closed, the lock released -/
def close (s : St) : St × Res :=
  withDB s fun db =>
    let d := dirOf s db
    let d := { d with data := d.data.map (fun (i, f) => (i, { f with synced := f.bytes.size })), locked := false }
    ({ world := s.world.set db.dir d, db := none }, .ok)

/-! ## index rebuild -/

structure Replay where
  index : Index
  reclaim : Nat
  total : Nat
  pending : List (Nat × List (Record × Pos))    -- `transactionRecords`, per batch id, in arrival order

/-- `updateIndex` closure of `loadIndexFromDataFiles` -/
def Replay.apply (r : Replay) (key : ByteArray) (typ : Nat) (pos : Pos) : Replay :=
  let r := { r with total := r.total + pos.size }
  let old := Index.get r.index key
  let r := if typ = 1 then { r with index := Index.erase r.index key, reclaim := r.reclaim + pos.size }
           else { r with index := Index.put r.index key pos }
  match old with
  | some o => { r with reclaim := r.reclaim + o.size }
  | none => r

def pendingGet (p : List (Nat × List (Record × Pos))) (id : Nat) : List (Record × Pos) :=
  match p with
  | [] => []
  | (i, l) :: rest => if i = id then l else pendingGet rest id

def pendingAdd (p : List (Nat × List (Record × Pos))) (id : Nat) (x : Record × Pos) : List (Nat × List (Record × Pos)) :=
  match p with
  | [] => [(id, [x])]
  | (i, l) :: rest => if i = id then (i, l ++ [x]) :: rest else (i, l) :: pendingAdd rest id x

/-- one record of the scan loop in `loadIndexFromDataFiles` -/
def replayRec (r : Replay) (rec : Record) (pos : Pos) : Replay :=
  if rec.batch = 0 then r.apply rec.key rec.typ pos
  else if rec.typ = 2 then
    let r := { r with total := r.total + pos.size, reclaim := r.reclaim + pos.size }
    let r := (pendingGet r.pending rec.batch).foldl (fun r (x : Record × Pos) => r.apply x.1.key x.1.typ x.2) r
    { r with pending := r.pending.filter (·.1 ≠ rec.batch) }
  else { r with pending := pendingAdd r.pending rec.batch (rec, pos) }

/-- scan one data file: replay its records, then (on EOF) drop an unfinished tail.
    `tol` = the reader tolerates a torn tail (`reader.TolerateTornTail()`, active file only).
    `none` = the scan ended with an error (Open fails). -/
def loadFile (r : Replay) (id : Nat) (f : FileSt) (tol : Bool) : Option (Replay × FileSt) :=
  let sc := scan C tol id f.bytes
  if !sc.ok then none else
  let decoded := sc.recs.map (fun (x : ByteArray × Pos) => (decodeRecord x.1, x.2))
  if decoded.any (fun x => x.1.isNone) then none else
  let r := decoded.foldl (fun r x => match x.1 with
    | some rec => replayRec r rec x.2
    | none => r) r
  let f' : FileSt := if sc.validEnd < f.bytes.size
    then { bytes := f.bytes.extract 0 sc.validEnd, synced := min f.synced sc.validEnd } else f
  some (r, f')

/-- `loadIndexFromDataFiles` over the files with id ≥ `nonMerge`; only the reader of the active
    file (`fileId == db.activeFile.ID`: the last file of the list) tolerates a torn tail -/
def loadIndex (r : Replay) (nonMerge : Nat) : List (Nat × FileSt) → Option (Replay × List (Nat × FileSt))
  | [] => some (r, [])
  | (id, f) :: rest =>
    if id < nonMerge then
      match loadIndex r nonMerge rest with
      | some (r, fs) => some (r, (id, f) :: fs)
      | none => none
    else
      match loadFile r id f rest.isEmpty with
      | none => none
      | some (r, f') =>
        match loadIndex r nonMerge rest with
        | some (r, fs) => some (r, (id, f') :: fs)
        | none => none

/-- `loadIndexFromHintFile`; returns the replay state and the largest file id seen. `none` = error -/
def loadHint (r : Replay) (hint : ByteArray) : Option (Replay × Nat) :=
  let sc := scan C false 0 hint
  if !sc.ok then none else
  let decoded := sc.recs.map (fun (x : ByteArray × Pos) => decodeHint x.1)
  if decoded.any (·.isNone) then none else
  some (decoded.foldl (fun (acc : Replay × Nat) x => match x with
    | some (k, p) => ({ acc.1 with index := Index.put acc.1.index k p, total := acc.1.total + p.size }, max acc.2 p.fid)
    | none => acc) (r, 0))

/-! ## merge adoption (`loadMergeFiles`) -/

def le32 (n : Nat) : ByteArray :=
  ⟨#[(n % 256).toUInt8, (n / 256 % 256).toUInt8, (n / 65536 % 256).toUInt8, (n / 16777216 % 256).toUInt8]⟩

def rd32 (b : ByteArray) (i : Nat) : Nat :=
  (b.get! i).toNat + 256 * (b.get! (i+1)).toNat + 65536 * (b.get! (i+2)).toNat + 16777216 * (b.get! (i+3)).toNat

/-- `WriteMergeFinRecord`: the marker file's content -/
def markerBytes (nonMerge count : Nat) : ByteArray := appendRec C ByteArray.empty (le32 nonMerge ++ le32 count)

/-- `ReadMergeFinRecord` : (nonMergeFileId, count); id 0 = unreadable -/
def readMarker (m : ByteArray) : Nat × Nat :=
  match readAt C m 0 0 with
  | .ok p => if p.size = 8 then (rd32 p 0, rd32 p 4) else (0, 0)
  | _ => (0, 0)

/-- the adoption steps as one atomic transition of the two directories (the step-by-step version
    with crash points is `Model/Adopt.lean`); returns the non-merge file id (0 = nothing adopted) -/
def adopt (w : World) (dir : String) : World × Nat :=
  let mname := mergeDirName dir
  match w.get mname with
  | none => (w, 0)
  | some md =>
    match md.marker with
    | none => (w, 0)
    | some m =>
      let (mergeID, count) := readMarker m
      if mergeID = 0 ∨ count > mergeID then (w, 0) else
      let d := (w.get dir).getD DirSt.empty
      -- 1. rename rewritten file i over data file i (i < count), when still in the merge dir
      let data := md.data.foldl (fun data (x : Nat × FileSt) => if x.1 < count then setFile data x.1 x.2 else data) d.data
      -- 2. remove the remaining participating originals
      let data := data.filter (fun x => ¬ (count ≤ x.1 ∧ x.1 < mergeID))
      -- 3. move the hint file if it is still there
      let hint := match md.hint with
        | some h => some h
        | none => d.hint
      -- 4. marker, then the merge directory
      ((w.set dir { d with data := data, hint := hint }).remove mname, mergeID)

/-! ## Open -/

def openDB (s : St) (dir : String) (cfg : Cfg) : St × Res :=
  match s.db with
  | some _ => (s, .err "already-open")
  | none =>
    if cfg.fileSize = 0 ∨ cfg.bps > 16777216 ∨ (cfg.sync = 2 ∧ cfg.bps = 0) then (s, .err "options") else
    let w := if (s.world.get dir).isNone then s.world.set dir DirSt.empty else s.world
    let d := (w.get dir).getD DirSt.empty
    if d.locked then ({ s with world := w }, .err "inuse") else
    let (w, nonMerge) := adopt w dir
    let d := (w.get dir).getD DirSt.empty
    let r0 : Replay := { index := [], reclaim := 0, total := 0, pending := [] }
    -- hint path
    let hintRes : Option (Replay × Nat) :=
      if nonMerge > 0 then
        match loadHint r0 (d.hint.getD ByteArray.empty) with
        | some (r, maxFid) => some (r, min maxFid nonMerge)
        | none => none
      else some (r0, 0)
    match hintRes with
    | none => ({ s with world := w }, .err "crc")
    | some (r, nonMerge) =>
      -- a missing hint file is created empty by OpenFile
      let d := if nonMerge > 0 ∨ d.hint.isSome then d else d
      let hadFiles := !d.data.isEmpty
      let data := if hadFiles then d.data else [(0, (⟨ByteArray.empty, 0⟩ : FileSt))]
      match loadIndex r nonMerge data with
      | none => ({ s with world := w.set dir d }, .err "crc")
      | some (r, data) =>
        let activeId := match data.getLast? with
          | some (i, _) => i
          | none => 0
        let db : DB := { cfg := cfg, dir := dir, activeId := activeId, index := r.index,
                         reclaim := r.reclaim, total := r.total, bytesWrite := 0, batch := none }
        ({ world := w.set dir { d with data := data, locked := true }, db := some db }, .ok)

/-! ## listing -/

def listKeys (db : DB) : List ByteArray := Index.keys db.index

def fold (s : St) (db : DB) : List (ByteArray × Res) := db.index.map (fun (k, p) => (k, valueAt s db p))

end XixiKV.Engine
