import XixiKV.Model.Engine
/-!
# Merge adoption as a sequence of atomic file-system steps  (mirrors `loadMergeFiles`, merge.go)

`Engine.adopt` performs the adoption of a finished merge as ONE transition of the two
directories.  The Go code performs it as a sequence of `os.Rename` / `os.Remove` calls; the process
can die between any two of them, and the next `Open` starts `loadMergeFiles` again from the top on
whatever is in the directories.  This file lists those calls, in the order of the code, as a
function of the directory state:

* nothing at all when the merge directory does not exist, has no readable marker, or the marker's
  `count` exceeds its `mergeID` (`plan = none`);
* `rename i` for `i = 0 … count-1`, only for the `i` whose rewritten file is still in the merge
  directory (`os.Stat(src)` fails with not-exist otherwise and the loop `continue`s);
* `remove i` for every `i = count … mergeID-1` (`os.Remove`, a missing file is not an error);
* `moveHint` when the hint file is still in the merge directory;
* `removeMarker`, then `removeDir` (`os.RemoveAll(mergePath)`).

One step = one crash point (`verifhook.Point("adopt.*")` precedes each of these calls).
`Proofs/EngineMerge.lean` proves that applying all steps is `Engine.adopt` (`adopt_eq_steps`).
-/
namespace XixiKV.Adopt
open XixiKV.Engine

inductive Step where
  | rename (i : Nat)      -- os.Rename(merge/i.data, data/i.data)
  | remove (i : Nat)      -- os.Remove(data/i.data), missing file ignored
  | moveHint              -- os.Rename(merge/hint, data/hint)
  | removeMarker          -- os.Remove(merge/merge-finished)
  | removeDir             -- os.RemoveAll(merge)
deriving Repr, DecidableEq, Inhabited

/-- `getNonMergeFileID` + the guard of `loadMergeFiles`: `(mergeID, count)` when adoption runs -/
def plan (w : World) (dir : String) : Option (Nat × Nat) :=
  match w.get (mergeDirName dir) with
  | none => none
  | some md =>
    match md.marker with
    | none => none
    | some m =>
      if (readMarker m).1 = 0 ∨ (readMarker m).2 > (readMarker m).1 then none else some (readMarker m)

/-- the file-system calls `loadMergeFiles` will make on this directory state, in order -/
def steps (w : World) (dir : String) : List Step :=
  match plan w dir with
  | none => []
  | some (mergeID, count) =>
    let md := (w.get (mergeDirName dir)).getD DirSt.empty
    (((List.range count).filter (fun i => (getFile md.data i).isSome)).map Step.rename)
      ++ ((List.range' count (mergeID - count)).map Step.remove)
      ++ (if md.hint.isSome then [Step.moveHint] else [])
      ++ [Step.removeMarker, Step.removeDir]

/-- one atomic file-system call -/
def applyStep (w : World) (dir : String) (st : Step) : World :=
  let mname := mergeDirName dir
  let d := (w.get dir).getD DirSt.empty
  match w.get mname with
  | none => w
  | some md =>
    match st with
    | .rename i =>
      match getFile md.data i with
      | none => w
      | some f =>
        (w.set dir { d with data := setFile d.data i f }).set mname { md with data := removeFile md.data i }
    | .remove i => w.set dir { d with data := removeFile d.data i }
    | .moveHint =>
      match md.hint with
      | none => w
      | some h => (w.set dir { d with hint := some h }).set mname { md with hint := none }
    | .removeMarker => w.set mname { md with marker := none }
    | .removeDir => w.remove mname

def applySteps (w : World) (dir : String) (l : List Step) : World := l.foldl (fun w st => applyStep w dir st) w

/-- the world after the process died having completed the first `k` adoption steps -/
def applyPrefix (w : World) (dir : String) (k : Nat) : World := applySteps w dir ((steps w dir).take k)

/-- an uninterrupted adoption, step by step; returns the marker's id like `Engine.adopt` -/
def run (w : World) (dir : String) : World × Nat :=
  (applySteps w dir (steps w dir), match plan w dir with
    | some (mergeID, _) => mergeID
    | none => 0)

end XixiKV.Adopt
