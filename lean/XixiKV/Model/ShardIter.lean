import XixiKV.Model.Index
/-!
# Sharded index iterators  (mirrors `index/sharded_index.go`, `index/{map,skiplist,btree}.go`
# and the DB-level `iterator.go`)                                                    — property C10

Go                                             ↦ here
* `mapIterator`, `skipListIterator`            ↦ `Cur.arr`   (sorted snapshot slice + `curIndex`)
* `btreeIterator`                              ↦ `Cur.bt`    (cloned tree + `current` + `isIterable`)
* `iterator.rewind/seek/next/valid/key/value`  ↦ `Cur.rewind/seek/next/valid/key/value`
* `iterHeap.Less`                              ↦ `less`
* `container/heap` (trusted)                   ↦ `popTop`: the heap is the *list* of valid cursors,
                                                  its top is the `Less`-least one
* `ShardedIndex.Iterator`                      ↦ `IndexIterator.create`
* `IndexIterator.Rewind/Seek/Next/Valid/Key/Value` ↦ `IndexIterator.rewind/seek/next/valid/key/value`
* `DB.NewIterator`, `Iterator.Rewind/Seek/Next`, `skipToNext` ↦ `DBIter.new/rewind/seek/next/skipToNext`
* `DB.ListKeys`, `DB.Fold` loop                ↦ `IndexIterator.collect`
* the specification (array + index)            ↦ `Abs`

What is abstracted.
* A shard's content is the ascending association list `List (Key × V)` (`V` = whatever the index
  stores: `*datafile.DataPos`); `slices.SortFunc` / the skip-list walk / the B-tree walk produce this
  list (reversed when `reverse`).  Snapshot stability (the map/skip-list cursor copies into a fresh
  slice, the B-tree cursor works on a copy-on-write `Clone`) is why a cursor is a *value* here.
* `sort.Search(n, f)` is "the least `i ≤ n` with `f i`, for monotone `f`" (`List.findIdx`);
  `AscendGreaterOrEqual / DescendLessOrEqual` visit the items `≥ / ≤` pivot in ascending / descending
  order (`List.find?` over the list in iteration order).
* `sid` is a ghost field: the shard number the cursor was created from (object identity of the Go
  cursor).  No operation reads it.
* Closed iterators / closed indexes (`heap == nil`, `tree == nil`) are out of scope.

B-tree cursor quirks (`isIterable`): `seek` and `next` are no-ops on a cursor that is not iterable,
and `rewind` is a no-op on an empty tree, whereas the array cursors re-position unconditionally.
`IndexIterator` never exercises the difference: it keeps only cursors that are valid at creation
(non-empty snapshot), calls `seek` only on the cursors in the heap and `next` only on the heap top —
all valid — and parks every cursor that becomes invalid until the next `Rewind`.  Both cursor kinds
are nevertheless modelled as coded; `Proofs/ShardIter.lean` proves that they present the same
"remaining list" view (`Cur.rem_*`) under exactly these call conditions.
-/
namespace XixiKV.ShardIter
open XixiKV.Index

/-- `a` comes strictly before `b` in iteration order: `bytes.Compare(a,b) < 0`, or `> 0` when reversed -/
def before (rev : Bool) (a b : Key) : Bool := if rev then keyLt b a else keyLt a b

/-- ascending content ↦ content in iteration order -/
def iterOrder {α : Type} (rev : Bool) (l : List α) : List α := if rev then l.reverse else l

/-- `index.IndexType`: `BTree = 1`, `SkipList = 2`, `HashMap = 3` -/
inductive IndexType where
  | btree | skiplist | hashmap
  deriving DecidableEq, Repr

/-! ## per-shard cursors -/

inductive Cur (V : Type) where
  /-- `mapIterator` / `skipListIterator`: `values` is in iteration order -/
  | arr (sid : Nat) (reverse : Bool) (values : List (Key × V)) (curIndex : Nat)
  /-- `btreeIterator`: `tree` is the ascending content of the clone -/
  | bt (sid : Nat) (reverse : Bool) (tree : List (Key × V)) (current : Option (Key × V))
       (isIterable : Bool)

namespace Cur
variable {V : Type}

/-- `newMapIterator` / `newSkipListIterator` / `newBTreeIterator` on the ascending content -/
def new (typ : IndexType) (rev : Bool) (sid : Nat) (content : List (Key × V)) : Cur V :=
  match typ with
  | .btree => .bt sid rev content (iterOrder rev content).head? (!content.isEmpty)
  | _ => .arr sid rev (iterOrder rev content) 0

def rewind : Cur V → Cur V
  | .arr s r vs _ => .arr s r vs 0
  | .bt s r t cur it =>
    if t.isEmpty then .bt s r t cur it
    else .bt s r t (iterOrder r t).head? true

/-- map/skiplist: `sort.Search(len, values[i].key >= key)` (`<=` reversed);
    btree: nothing if not iterable, else the first item `>= key` (`<= key` reversed) -/
def seek (k : Key) : Cur V → Cur V
  | .arr s r vs _ => .arr s r vs (vs.findIdx (fun x => !before r x.1 k))
  | .bt s r t cur it =>
    if !it then .bt s r t cur it
    else match (iterOrder r t).find? (fun x => !before r x.1 k) with
      | some x => .bt s r t (some x) true
      | none => .bt s r t cur false

/-- map/skiplist: `curIndex++`; btree: nothing if not iterable, else the first item, among those
    `>= current` (`<=` reversed) in iteration order, that is strictly after `current` -/
def next : Cur V → Cur V
  | .arr s r vs i => .arr s r vs (i + 1)
  | .bt s r t cur it =>
    if !it then .bt s r t cur it
    else match cur with
      | none => .bt s r t none false          -- Go: nil dereference; unreachable (iterable ⇒ current ≠ nil)
      | some c =>
        match (iterOrder r t).find? (fun x => !before r x.1 c.1 && before r c.1 x.1) with
        | some x => .bt s r t (some x) true
        | none => .bt s r t none false

def valid : Cur V → Bool
  | .arr _ _ vs i => i < vs.length
  | .bt _ _ _ _ it => it

/-- `none` is Go's `nil` (btree, not iterable) or an index-out-of-range panic (array cursors);
    `IndexIterator` only asks valid cursors -/
def key : Cur V → Option Key
  | .arr _ _ vs i => vs[i]?.map (·.1)
  | .bt _ _ _ cur it => if it then cur.map (·.1) else none

def value : Cur V → Option V
  | .arr _ _ vs i => vs[i]?.map (·.2)
  | .bt _ _ _ cur it => if it then cur.map (·.2) else none

/-- the key as `bytes.Compare` sees it (`nil` compares like the empty slice) -/
def keyD (c : Cur V) : Key := c.key.getD ByteArray.empty

/-- number of items in the snapshot (only used as loop fuel) -/
def size : Cur V → Nat
  | .arr _ _ vs _ => vs.length
  | .bt _ _ t _ _ => t.length

end Cur

/-! ## the heap merge -/

/-- `iterHeap.Less` on the two keys: `cmp < 0 != h.reverse` -/
def less (rev : Bool) (a b : Key) : Bool := (keyLt a b) != rev

/-- `container/heap` abstracted: remove the `Less`-least cursor from the list of heap items.
    (For pairwise distinct keys the least element is unique, so the result does not depend on the
    physical heap layout.) -/
def popTop {V : Type} (rev : Bool) : List (Cur V) → Option (Cur V × List (Cur V))
  | [] => none
  | c :: cs =>
    match popTop rev cs with
    | none => some (c, [])
    | some (m, rest) =>
      if less rev m.keyD c.keyD then some (m, c :: rest) else some (c, m :: rest)

structure IndexIterator (V : Type) where
  reverse : Bool
  heap : List (Cur V)        -- `heap.items`: the valid cursors
  oldItems : List (Cur V)    -- cursors that became invalid during iteration

namespace IndexIterator
variable {V : Type}

/-- cursors of shards `i, i+1, …` -/
def cursors (typ : IndexType) (rev : Bool) : Nat → List (List (Key × V)) → List (Cur V)
  | _, [] => []
  | i, s :: ss => Cur.new typ rev i s :: cursors typ rev (i + 1) ss

/-- `ShardedIndex.Iterator(reverse)` on the per-shard ascending contents: one cursor per shard,
    only those valid at creation are kept -/
def create (typ : IndexType) (rev : Bool) (shards : List (List (Key × V))) : IndexIterator V :=
  { reverse := rev, heap := (cursors typ rev 0 shards).filter Cur.valid, oldItems := [] }

def valid (it : IndexIterator V) : Bool := !it.heap.isEmpty

/-- `heap.items[0]` -/
def top (it : IndexIterator V) : Option (Cur V) := (popTop it.reverse it.heap).map (·.1)

def key (it : IndexIterator V) : Option Key := it.top.bind Cur.key
def value (it : IndexIterator V) : Option V := it.top.bind Cur.value

def rewind (it : IndexIterator V) : IndexIterator V :=
  { it with heap := it.heap.map Cur.rewind ++ it.oldItems.map Cur.rewind, oldItems := [] }

/-- `Seek` never moves backwards: nothing happens on an exhausted iterator, nor when the target lies
    before the current key in iteration order (`cmp := bytes.Compare(key, items[0].key())`, negated
    when reversed, `cmp < 0`); otherwise every cursor in the heap is re-seeked -/
def seek (k : Key) (it : IndexIterator V) : IndexIterator V :=
  if !it.valid then it
  else if before it.reverse k (it.key.getD ByteArray.empty) then it
  else
    let items := it.heap.map (Cur.seek k)
    { it with heap := items.filter Cur.valid,
              oldItems := it.oldItems ++ items.filter (fun c => !c.valid) }

def next (it : IndexIterator V) : IndexIterator V :=
  match popTop it.reverse it.heap with
  | none => it                                   -- `!it.Valid()`
  | some (item, rest) =>
    let item' := item.next
    if item'.valid then { it with heap := rest ++ [item'] }
    else { it with heap := rest, oldItems := it.oldItems ++ [item'] }

/-- the `for it.Rewind(); it.Valid(); it.Next()` loop body of `ListKeys` / `Fold`, started after
    the `Rewind`; `fuel` bounds the number of rounds -/
def collect : Nat → IndexIterator V → List (Option Key × Option V)
  | 0, _ => []
  | f + 1, it => if it.valid then (it.key, it.value) :: collect f it.next else []

/-- upper bound on the number of `Next` calls until the heap is empty -/
def fuel (it : IndexIterator V) : Nat := (it.heap.map Cur.size).sum

end IndexIterator

/-! ## the DB-level iterator (`iterator.go`) -/

/-- `prefixLen <= len(key) && bytes.Compare(prefix, key[:prefixLen]) == 0` -/
def hasPrefix (pre k : Key) : Bool := decide (pre.size ≤ k.size ∧ k.extract 0 pre.size = pre)

/-- the loop of `skipToNext` for a key filter `P`, at most `fuel` rounds -/
def skipLoop {V : Type} (P : Key → Bool) : Nat → IndexIterator V → IndexIterator V
  | 0, it => it
  | f + 1, it =>
    if it.valid then
      if P (it.key.getD ByteArray.empty) then it else skipLoop P f it.next
    else it

structure DBIter (V : Type) where
  indexIter : IndexIterator V
  pre : Key                      -- `options.Prefix` (`options.Reverse` lives in `indexIter`)

namespace DBIter
variable {V : Type}

/-- `skipToNext`.  The Go loop has no bound; `IndexIterator.fuel` rounds are enough
    (`Proofs/ShardIter.lean`, `skip_settled`). -/
def skipToNext (it : DBIter V) : DBIter V :=
  if it.pre.size = 0 then it
  else { it with indexIter := skipLoop (hasPrefix it.pre) it.indexIter.fuel it.indexIter }

/-- `DB.NewIterator` on the per-shard contents at creation time -/
def new (typ : IndexType) (rev : Bool) (pre : Key) (shards : List (List (Key × V))) : DBIter V :=
  skipToNext { indexIter := IndexIterator.create typ rev shards, pre := pre }

def rewind (it : DBIter V) : DBIter V := skipToNext { it with indexIter := it.indexIter.rewind }
def seek (k : Key) (it : DBIter V) : DBIter V := skipToNext { it with indexIter := it.indexIter.seek k }
def next (it : DBIter V) : DBIter V := skipToNext { it with indexIter := it.indexIter.next }
def valid (it : DBIter V) : Bool := it.indexIter.valid
def key (it : DBIter V) : Option Key := it.indexIter.key
/-- the index value (`DataPos`) whose record `Iterator.Value` then reads -/
def value (it : DBIter V) : Option V := it.indexIter.value

end DBIter

/-! ## calls, observations, traces -/

/-- the state-changing iterator calls (`Valid`, `Key`, `Value` are pure; they are the observation
    `Obs` taken after every call) -/
inductive Call where
  | rewind | next | seek (k : Key)

structure Obs (V : Type) where
  valid : Bool
  key : Option Key
  value : Option V
  deriving DecidableEq

def IndexIterator.obs {V : Type} (it : IndexIterator V) : Obs V := ⟨it.valid, it.key, it.value⟩
def DBIter.obs {V : Type} (it : DBIter V) : Obs V := ⟨it.valid, it.key, it.value⟩

def IndexIterator.step {V : Type} (it : IndexIterator V) : Call → IndexIterator V
  | .rewind => it.rewind
  | .next => it.next
  | .seek k => it.seek k

def DBIter.step {V : Type} (it : DBIter V) : Call → DBIter V
  | .rewind => it.rewind
  | .next => it.next
  | .seek k => it.seek k

/-- observation of the fresh iterator, then after each call -/
def IndexIterator.trace {V : Type} (it : IndexIterator V) : List Call → List (Obs V)
  | [] => [it.obs]
  | c :: cs => it.obs :: (it.step c).trace cs

def DBIter.trace {V : Type} (it : DBIter V) : List Call → List (Obs V)
  | [] => [it.obs]
  | c :: cs => it.obs :: (it.step c).trace cs

/-- the state after a sequence of calls -/
def IndexIterator.run {V : Type} (it : IndexIterator V) (calls : List Call) : IndexIterator V :=
  calls.foldl IndexIterator.step it

def DBIter.run {V : Type} (it : DBIter V) (calls : List Call) : DBIter V :=
  calls.foldl DBIter.step it

/-- the user loop `for ; it.Valid(); it.Next() { … it.Key(), it.Value() … }` (at most `fuel` rounds) -/
def DBIter.collect {V : Type} : Nat → DBIter V → List (Option Key × Option V)
  | 0, _ => []
  | f + 1, it => if it.valid then (it.key, it.value) :: collect f it.next else []

/-! ## the specification: a sorted array and an index -/

structure Abs (V : Type) where
  reverse : Bool
  A : List (Key × V)     -- the snapshot in iteration order, filtered by the prefix
  i : Nat

namespace Abs
variable {V : Type}

/-- first index `j` with `A[j] ≥ k` (`≤ k` reversed); `|A|` if there is none -/
def lowerBound (rev : Bool) (k : Key) (A : List (Key × V)) : Nat :=
  A.findIdx (fun x => !before rev x.1 k)

/-- `idx` is the ascending content of the whole index at creation -/
def new (rev : Bool) (pre : Key) (idx : List (Key × V)) : Abs V :=
  { reverse := rev, A := (iterOrder rev idx).filter (fun x => hasPrefix pre x.1), i := 0 }

/-- no prefix (the index-level iterator of `ListKeys` / `Fold`) -/
def newIndex (rev : Bool) (idx : List (Key × V)) : Abs V :=
  { reverse := rev, A := iterOrder rev idx, i := 0 }

def rewind (a : Abs V) : Abs V := { a with i := 0 }
def next (a : Abs V) : Abs V := if a.i < a.A.length then { a with i := a.i + 1 } else a
/-- `Seek` is forward-only: it moves to the first item `≥ k` (`≤ k` reversed) unless that lies behind
    the cursor; on an exhausted cursor it does nothing -/
def seek (k : Key) (a : Abs V) : Abs V :=
  if a.i < a.A.length ∧ a.i ≤ lowerBound a.reverse k a.A then { a with i := lowerBound a.reverse k a.A }
  else a
def valid (a : Abs V) : Bool := a.i < a.A.length
def key (a : Abs V) : Option Key := a.A[a.i]?.map (·.1)
def value (a : Abs V) : Option V := a.A[a.i]?.map (·.2)
def obs (a : Abs V) : Obs V := ⟨a.valid, a.key, a.value⟩

def step (a : Abs V) : Call → Abs V
  | .rewind => a.rewind
  | .next => a.next
  | .seek k => a.seek k

def trace (a : Abs V) : List Call → List (Obs V)
  | [] => [a.obs]
  | c :: cs => a.obs :: (a.step c).trace cs

def run (a : Abs V) (calls : List Call) : Abs V := calls.foldl Abs.step a

/-! ### the unrestricted positioning `seekTo` and the call sequences on which `Seek` is just that

`seekTo` is the absolute lower bound (what `Abs.seek` was before `Seek` became forward-only).
`admissible` singles out the call sequences whose every `Seek` target lies at or ahead of the cursor;
on those, `seek` and `seekTo` coincide (`Proofs/ShardIter.lean`, `Abs.trace_eq_traceTo`), in
particular `Seek k` on a fresh or just rewound iterator lands on the first item `≥ k`. -/

def seekTo (k : Key) (a : Abs V) : Abs V := { a with i := lowerBound a.reverse k a.A }

def stepTo (a : Abs V) : Call → Abs V
  | .rewind => a.rewind
  | .next => a.next
  | .seek k => a.seekTo k

def traceTo (a : Abs V) : List Call → List (Obs V)
  | [] => [a.obs]
  | c :: cs => a.obs :: (a.stepTo c).traceTo cs

/-- every `Seek` target lies at or ahead of the cursor in iteration order, i.e. its lower-bound
    index is not below the current index.  (On a fresh or just rewound iterator `i = 0`, so every
    target is allowed there.) -/
def admissible (a : Abs V) : List Call → Bool
  | [] => true
  | c :: cs =>
    (match c with
     | .seek k => decide (a.i ≤ lowerBound a.reverse k a.A)
     | _ => true) && (a.stepTo c).admissible cs

end Abs

/-- the per-shard ascending contents of an index with content `idx` under a shard function -/
def shardsOf {V : Type} (shardOf : Key → Nat) (n : Nat) (idx : List (Key × V)) : List (List (Key × V)) :=
  (List.range n).map (fun s => idx.filter (fun x => shardOf x.1 == s))

end XixiKV.ShardIter
