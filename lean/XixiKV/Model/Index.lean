import XixiKV.Model.Frame
/-!
# The in-memory index as a finite map  (abstracts `index/*.go` behind `ShardedIndex`)

The three index containers (google/btree, huandu/skiplist, Go map) and the sharding layer are
modelled as one association list kept sorted by key (byte-lexicographic, `bytes.Compare`), so that
`put / get / delete` return what the Go methods return (the previous position or nothing) and the
sorted snapshot used by iterators / `ListKeys` / `Fold` is the list itself.  The per-shard cursor
machinery and the heap merge are modelled separately in `Model/ShardIter.lean` (C10).
-/
namespace XixiKV.Index
open XixiKV.Frame

abbrev Key := ByteArray

/-- `bytes.Compare a b < 0` -/
def ltList : List UInt8 → List UInt8 → Bool
  | [], [] => false
  | [], _ :: _ => true
  | _ :: _, [] => false
  | a :: as, b :: bs => if a < b then true else if b < a then false else ltList as bs

def keyLt (a b : Key) : Bool := ltList a.data.toList b.data.toList

abbrev Index := List (Key × Pos)

def get (ix : Index) (k : Key) : Option Pos :=
  match ix with
  | [] => none
  | (k', p) :: rest => if k' = k then some p else get rest k

/-- insert or replace, keeping the list sorted; returns the new index (old value via `get`) -/
def put (ix : Index) (k : Key) (p : Pos) : Index :=
  match ix with
  | [] => [(k, p)]
  | (k', p') :: rest =>
    if k' = k then (k, p) :: rest
    else if keyLt k k' then (k, p) :: (k', p') :: rest
    else (k', p') :: put rest k p

def erase (ix : Index) (k : Key) : Index :=
  match ix with
  | [] => []
  | (k', p') :: rest => if k' = k then rest else (k', p') :: erase rest k

def keys (ix : Index) : List Key := ix.map (·.1)

/-- `nextPowerOfTwo` of `index/sharded_index.go` on Go `int` (64-bit), for `cap ≥ 1` -/
def nextPowerOfTwo (cap : Nat) : Nat :=
  let n := cap - 1
  let n := n ||| (n >>> 1)
  let n := n ||| (n >>> 2)
  let n := n ||| (n >>> 4)
  let n := n ||| (n >>> 8)
  let n := n ||| (n >>> 16)
  if n ≥ 1024 then 1024 else n + 1

end XixiKV.Index
