import XixiKV.Model.Datatype
import XixiKV.Model.Batch
/-!
# The redis-style layer `datatype/*.go` ON A STORE — generic in the store, instantiated with the engine

`Model/Datatype.lean` runs the commands of `datatype/types.go` / `generic.go` over the abstract store
`KV`.  Here the same commands are written once more, this time against an INTERFACE
(`Store σ`: `db.Get`, `db.Put`, `db.Delete`, and "one batch": `NewBatch`, one `Put` / `Delete` per
staged operation, `Commit`), with the error handling of the Go functions written out (what each
command does with an `err` of the engine that is not `ErrKeyNotFound`).  Two instances:

* `kvStore : Store KV` — the abstract store, with the engine's rejection of the empty key
  (`ErrKeyIsEmpty`).  `Proofs/DatatypeEngineKV.lean` proves `On.run kvStore c kv now = Datatype.run c kv now`
  for every command, store and clock value: instantiated with `KV` the generic commands ARE the
  commands of `Model/Datatype.lean` (the functions the differential harness compares with the Go code, and
  about which `Properties/C19.lean` speaks).
* `engineStore bid : Store Engine.St` — the executable engine model: `Engine.get / put / delete`, and
  for a batch `Engine.bnew s false bid` (`DefaultBatchOptions.Sync = false`; the snowflake id `bid` is an
  input, as everywhere in the engine model), `Engine.bput` / `Engine.bdel` per staged operation with the
  result dropped (`_ = wb.Put(…)`), `Engine.bcommit` (its result is the batch's result), and
  `Engine.bdrop` (the batch object goes out of scope when the Go function returns).

`dtStep s c now bid` is one command of `DataTypeService` on the engine model; `estep` / `erun` run whole
histories of commands, restarts (`Close`; `Open` of the same directory under any configuration) and
`Merge`s.

Why the transcription is faithful.  (1) Every command is the Go function line by line: the reads are
`S.get` on the state at call time (`db.Get` does not change the model state: `PolicyP.get_state`, so
`get` is a function of the state), the single write — `db.Put`, `db.Delete` or one committed batch —
is the last engine call of every Go function and its error is returned.  (2) The decoding parts
(`metaOfRecord`, `strReply`, `typeReply`) are the bodies of `Datatype.findMetadata` / `get` / `type`
after their `db.Get`, shared by proof (`Proofs/DatatypeEngineKV.lean`), not re-modelled.
-/
namespace XixiKV.Datatype.On
open XixiKV.Engine (Res St Cfg)

/-- what the layer needs of `*bitcask.DB` -/
structure Store (σ : Type) where
  /-- `db.Get`: `.val v`, `.notFound` (`ErrKeyNotFound`) or another error -/
  get : σ → ByteArray → Res
  /-- `db.Put` -/
  put : σ → ByteArray → ByteArray → σ × Res
  /-- `db.Delete` -/
  delete : σ → ByteArray → σ × Res
  /-- `wb := db.NewBatch(DefaultBatchOptions)`; `_ = wb.Put(k, v)` / `_ = wb.Delete(k)` for every
      operation, in order; `wb.Commit()`: its result -/
  batch : σ → List KV.Op → σ × Res

/-- how an error of the engine reaches the caller of `DataTypeService` -/
def errReply : Res → Reply
  | .notFound => .notFound
  | .err e => if e = "keyempty" then .keyEmpty else .otherErr
  | _ => .otherErr

def isNotFound : Res → Bool
  | .notFound => true
  | _ => false

/-! ## the decoding parts (no store involved) -/

/-- `findMetadata` after a successful `db.Get(key)` returned `buf` -/
def metaOfRecord (buf : ByteArray) (now : Nat) (dt : UInt8) : Except Reply Meta :=
  match buf.data.toList with
  | [] => .error .wrongType
  | t :: r =>
    if recExpired r now then .ok (freshMeta dt now)
    else if t ≠ dt then .error .wrongType
    else if metaDecodePanics buf then .error .panic
    else
    match decodeMeta buf with
    | none => .error .otherErr
    | some m => .ok m

/-- `Get` after a successful `db.Get(key)` returned `enc` -/
def strReply (enc : ByteArray) (now : Nat) : Reply :=
  match enc.data.toList with
  | [] => .panic
  | t :: r =>
    if t ≠ tString then .wrongType else
    match Varint.uvarint r with
    | none => .panic
    | some (ux, n) =>
      if ux % 2 = 0 ∧ ux / 2 > 0 ∧ ux / 2 ≤ now then .nil
      else .bytes (enc.extract (1 + n) enc.size)

/-- `Type` after a successful `db.Get(key)` returned `enc` -/
def typeReply (enc : ByteArray) (now : Nat) : Reply :=
  match enc.data.toList with
  | [] => .otherErr
  | t :: r => if recExpired r now then .notFound else .size t.toNat

/-! ## the commands, generic in the store -/

section
variable {σ : Type} (S : Store σ)

/-- `findMetadata`: `err != nil && err != ErrKeyNotFound` is returned (the empty key: `ErrKeyIsEmpty`) -/
def findMetadata (s : σ) (now : Nat) (key : ByteArray) (dt : UInt8) : Except Reply Meta :=
  match S.get s key with
  | .notFound => .ok (freshMeta dt now)
  | .val buf => metaOfRecord buf now dt
  | r => .error (errReply r)

/-- `return db.Put(k, v)` / `if err = db.Put(k, v); err != nil { return nil, err }; return r, nil` -/
def putReply (s : σ) (k v : ByteArray) (r : Reply) : σ × Reply :=
  match S.put s k v with
  | (s', .ok) => (s', r)
  | (s', e) => (s', errReply e)

/-- one batch: `if err = wb.Commit(); err != nil { return …, err }; return r, nil` -/
def commit (s : σ) (ops : List KV.Op) (r : Reply) : σ × Reply :=
  match S.batch s ops with
  | (s', .ok) => (s', r)
  | (s', e) => (s', errReply e)

/-- `Set` -/
def set (s : σ) (now : Nat) (key : ByteArray) (value : Option ByteArray) (ttl : Nat) : σ × Reply :=
  match value with
  | none => (s, .ok)
  | some v =>
    let expire := if ttl ≠ 0 then now + ttl else 0
    putReply S s key (encodeStr expire v) .ok

/-- `Get` -/
def get (s : σ) (now : Nat) (key : ByteArray) : σ × Reply :=
  match S.get s key with
  | .val enc => (s, strReply enc now)
  | r => (s, errReply r)

/-- `Del`: `return db.Delete(key)` -/
def del (s : σ) (key : ByteArray) : σ × Reply :=
  match S.delete s key with
  | (s', .ok) => (s', .ok)
  | (s', e) => (s', errReply e)

/-- `Type` -/
def type (s : σ) (now : Nat) (key : ByteArray) : σ × Reply :=
  match S.get s key with
  | .val enc => (s, typeReply enc now)
  | r => (s, errReply r)

/-- `HSet`: `exist = false` only for `err == ErrKeyNotFound` -/
def hset (s : σ) (now : Nat) (key field value : ByteArray) : σ × Reply :=
  match findMetadata S s now key tHash with
  | .error e => (s, e)
  | .ok m =>
    let encKey := hashKey key m.version field
    let exist := !isNotFound (S.get s encKey)
    commit S s ((if exist then [] else [KV.Op.put key (encodeMeta { m with size := (m.size + 1) % 2 ^ 32 })])
      ++ [KV.Op.put encKey value]) (.flag (!exist))

/-- `HGet`: `return db.Get(hk.encode())` -/
def hget (s : σ) (now : Nat) (key field : ByteArray) : σ × Reply :=
  match findMetadata S s now key tHash with
  | .error e => (s, e)
  | .ok m =>
    if m.size = 0 then (s, .nil) else
    match S.get s (hashKey key m.version field) with
    | .val v => (s, .ofStored v)
    | r => (s, errReply r)

/-- `HDel` -/
def hdel (s : σ) (now : Nat) (key field : ByteArray) : σ × Reply :=
  match findMetadata S s now key tHash with
  | .error e => (s, e)
  | .ok m =>
    if m.size = 0 then (s, .flag false) else
    let encKey := hashKey key m.version field
    if !isNotFound (S.get s encKey) then
      commit S s [.put key (encodeMeta { m with size := m.size - 1 }), .del encKey] (.flag true)
    else (s, .flag false)

/-- `SAdd`: adds only for `err == ErrKeyNotFound`; any other outcome of the `Get` is `(false, nil)` -/
def sadd (s : σ) (now : Nat) (key member : ByteArray) : σ × Reply :=
  match findMetadata S s now key tSet with
  | .error e => (s, e)
  | .ok m =>
    let encKey := setKey key m.version member
    if isNotFound (S.get s encKey) then
      commit S s [.put key (encodeMeta { m with size := (m.size + 1) % 2 ^ 32 }), .put encKey ByteArray.empty]
        (.flag true)
    else (s, .flag false)

/-- `SIsMember`: an error other than `ErrKeyNotFound` is returned -/
def sismember (s : σ) (now : Nat) (key member : ByteArray) : σ × Reply :=
  match findMetadata S s now key tSet with
  | .error e => (s, e)
  | .ok m =>
    if m.size = 0 then (s, .flag false) else
    match S.get s (setKey key m.version member) with
    | .notFound => (s, .flag false)
    | .val _ => (s, .flag true)
    | r => (s, errReply r)

/-- `SRem` -/
def srem (s : σ) (now : Nat) (key member : ByteArray) : σ × Reply :=
  match findMetadata S s now key tSet with
  | .error e => (s, e)
  | .ok m =>
    if m.size = 0 then (s, .flag false) else
    let encKey := setKey key m.version member
    if isNotFound (S.get s encKey) then (s, .flag false)
    else commit S s [.put key (encodeMeta { m with size := m.size - 1 }), .del encKey] (.flag true)

/-- `pushInner` -/
def push (s : σ) (now : Nat) (key elem : ByteArray) (isLeft : Bool) : σ × Reply :=
  match findMetadata S s now key tList with
  | .error e => (s, e)
  | .ok m =>
    let index := if isLeft then (m.head + (2 ^ 64 - 1)) % 2 ^ 64 else m.tail
    let m' : Meta := { m with
      size := (m.size + 1) % 2 ^ 32,
      head := if isLeft then (m.head + (2 ^ 64 - 1)) % 2 ^ 64 else m.head,
      tail := if isLeft then m.tail else (m.tail + 1) % 2 ^ 64 }
    commit S s [.put key (encodeMeta m'), .put (listKey key m.version index) elem] (.size m'.size)

/-- `popInner`: `db.Get` of the element (its error is returned), then a plain `db.Put` of the metadata -/
def pop (s : σ) (now : Nat) (key : ByteArray) (isLeft : Bool) : σ × Reply :=
  match findMetadata S s now key tList with
  | .error e => (s, e)
  | .ok m =>
    if m.size = 0 then (s, .nil) else
    let index := if isLeft then m.head else (m.tail + (2 ^ 64 - 1)) % 2 ^ 64
    match S.get s (listKey key m.version index) with
    | .val elem =>
      let m' : Meta := { m with
        size := m.size - 1,
        head := if isLeft then (m.head + 1) % 2 ^ 64 else m.head,
        tail := if isLeft then m.tail else (m.tail + (2 ^ 64 - 1)) % 2 ^ 64 }
      putReply S s key (encodeMeta m') (.ofStored elem)
    | r => (s, errReply r)

/-- `ZAdd`: an error other than `ErrKeyNotFound` of the `Get` is returned -/
def zadd (s : σ) (now : Nat) (key : ByteArray) (score : Score) (member : ByteArray) : σ × Reply :=
  match findMetadata S s now key tZSet with
  | .error e => (s, e)
  | .ok m =>
    let memKey := zmemKey key m.version member
    match S.get s memKey with
    | .val value =>
      if score = scoreOfBytes value then (s, .flag false)
      else
        commit S s [.del (zscoreKey key m.version (scoreOfBytes value) member),
                    .put memKey (scoreBytes score),
                    .put (zscoreKey key m.version score member) ByteArray.empty] (.flag false)
    | .notFound =>
      commit S s [.put key (encodeMeta { m with size := (m.size + 1) % 2 ^ 32 }),
                  .put memKey (scoreBytes score),
                  .put (zscoreKey key m.version score member) ByteArray.empty] (.flag true)
    | r => (s, errReply r)

/-- `ZScore` -/
def zscore (s : σ) (now : Nat) (key member : ByteArray) : σ × Reply :=
  match findMetadata S s now key tZSet with
  | .error e => (s, e)
  | .ok m =>
    if m.size = 0 then (s, .score "-1".toUTF8) else
    match S.get s (zmemKey key m.version member) with
    | .val value => (s, .score (scoreOfBytes value))
    | r => (s, errReply r)

/-- one call of the service at time `now`, on the store `S` -/
def run (c : Cmd) (s : σ) (now : Nat) : σ × Reply :=
  match c with
  | .set k v ttl => set S s now k v ttl
  | .get k => get S s now k
  | .del k => del S s k
  | .type k => type S s now k
  | .hset k f v => hset S s now k f v
  | .hget k f => hget S s now k f
  | .hdel k f => hdel S s now k f
  | .sadd k m => sadd S s now k m
  | .sismember k m => sismember S s now k m
  | .srem k m => srem S s now k m
  | .lpush k e => push S s now k e true
  | .rpush k e => push S s now k e false
  | .lpop k => pop S s now k true
  | .rpop k => pop S s now k false
  | .zadd k sc m => zadd S s now k sc m
  | .zscore k m => zscore S s now k m

end

/-! ## instance 1: the abstract store -/

def optRes : Option ByteArray → Res
  | some v => .val v
  | none => .notFound

/-- `db.Get` on the mapping: the engine rejects the empty key -/
def kvRes (kv : KV) (k : ByteArray) : Res :=
  if k.size = 0 then .err "keyempty" else optRes (kv.get k)

/-- `wb.Put` / `wb.Delete` reject the empty key (`ErrKeyIsEmpty`, dropped by the callers): such an
    operation is not staged -/
def KVOp.keyed : KV.Op → Bool
  | .put k _ => decide (k.size ≠ 0)
  | .del k => decide (k.size ≠ 0)

def kvStore : Store KV where
  get := kvRes
  put := fun kv k v => if k.size = 0 then (kv, .err "keyempty") else (kv.put k v, .ok)
  delete := fun kv k => if k.size = 0 then (kv, .err "keyempty") else (kv.delete k, .ok)
  batch := fun kv ops => (kv.batch (ops.filter KVOp.keyed), .ok)

/-! ## instance 2: the engine model -/

/-- `_ = wb.Put(k, v)` / `_ = wb.Delete(k)` -/
def stageOp (s : St) : KV.Op → St
  | .put k v => (Engine.bput s k v).1
  | .del k => (Engine.bdel s k).1

/-- one batch on the engine: `NewBatch(DefaultBatchOptions)` (`Sync: false`) with snowflake id `bid`,
    the staged operations in order, `Commit`; the batch object is dropped afterwards -/
def engineBatch (bid : Nat) (s : St) (ops : List KV.Op) : St × Res :=
  let s1 := (Engine.bnew s false bid).1
  let s2 := ops.foldl stageOp s1
  let r := Engine.bcommit s2
  ((Engine.bdrop r.1).1, r.2)

def engineStore (bid : Nat) : Store St where
  get := fun s k => (Engine.get s k).2
  put := Engine.put
  delete := Engine.delete
  batch := engineBatch bid

/-- **one command of `DataTypeService` on the engine model**, at time `now`; `bid` is the snowflake id
    of the batch the command creates (if it creates one) -/
def dtStep (s : St) (c : Cmd) (now bid : Nat) : St × Reply := run (engineStore bid) c s now

/-! ## histories of the whole stack -/

/-- one call of the whole stack: a command of the redis-style layer; a restart of the service
    (`DataTypeService.Close`, then `NewDataTypeService(options)` on the same directory, under any options); a
    `Merge` of the engine.  `DataTypeService` keeps its `*bitcask.DB` private, so `Merge` reaches it through
    `Options.EnableBackgroundMerge` only: `Open` starts a goroutine that calls `db.Merge()` periodically
    (db.go); here a merge stands BETWEEN two commands (the sequential interleavings; `Merge` running
    concurrently with writers is the subject of the concurrency properties).  `order` is the order in which
    Go's map iteration visits the older files, as everywhere in the engine model. -/
inductive EOp where
  | cmd (c : Cmd) (now bid : Nat)
  | restart (cfg : Cfg)
  | merge (order : List Nat)

/-- what a call returns: a reply of the layer, or a result of the engine (`Close`, `Open`, `Merge`) -/
inductive Out where
  | reply (r : Reply)
  | res (r : Res)

def estep (dir : String) (s : St) : EOp → St × List Out
  | .cmd c now bid => ((dtStep s c now bid).1, [.reply (dtStep s c now bid).2])
  | .restart cfg =>
    ((Engine.openDB (Engine.close s).1 dir cfg).1,
     [.res (Engine.close s).2, .res (Engine.openDB (Engine.close s).1 dir cfg).2])
  | .merge order => ((Engine.merge s order).1, [.res (Engine.merge s order).2])

def erun (dir : String) (s : St) : List EOp → St × List Out
  | [] => (s, [])
  | op :: ops => ((erun dir (estep dir s op).1 ops).1, (estep dir s op).2 ++ (erun dir (estep dir s op).1 ops).2)

/-- the commands of a history with their clock values -/
def cmdsOf : List EOp → List (Cmd × Nat)
  | [] => []
  | .cmd c now _ :: ops => (c, now) :: cmdsOf ops
  | _ :: ops => cmdsOf ops

/-- the replies among the outputs -/
def repliesOf : List Out → List Reply
  | [] => []
  | .reply r :: os => r :: repliesOf os
  | _ :: os => repliesOf os

end XixiKV.Datatype.On
