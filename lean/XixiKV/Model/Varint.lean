/-!
# Go's `encoding/binary` varints  (`PutUvarint`, `Uvarint`, `PutVarint`, `Varint`)

Values are `Nat`; the Go functions work on `uint64` / `int64`, so the theorems carry `n < 2^64`.
`uvarint` follows Go's return convention: `(value, n)` with `n = 0` when the buffer ends inside
the varint and `n < 0` (here: `none`) on 64-bit overflow.
-/
namespace XixiKV.Varint

/-- `binary.PutUvarint` -/
def putUvarint (n : Nat) : List UInt8 :=
  if h : n < 128 then [n.toUInt8]
  else (n % 128 + 128).toUInt8 :: putUvarint (n / 128)
termination_by n
decreasing_by omega

/-- `binary.Uvarint` on the bytes `bs`; `i` counts consumed bytes, `s` is the shift, `x` the value so far.
    Returns `some (value, consumed)`; `some (0, 0)` = buffer too small; `none` = overflow. -/
def uvarintGo : List UInt8 → Nat → Nat → Nat → Option (Nat × Nat)
  | [], _, _, _ => some (0, 0)
  | b :: bs, i, s, x =>
    if i = 10 then none
    else if b.toNat < 128 then
      if i = 9 ∧ b.toNat > 1 then none
      else some (x + b.toNat * 2 ^ s, i + 1)
    else uvarintGo bs (i + 1) (s + 7) (x + (b.toNat % 128) * 2 ^ s)

def uvarint (bs : List UInt8) : Option (Nat × Nat) := uvarintGo bs 0 0 0

/-- zig-zag of a non-negative `int64` (all lengths are non-negative): `uint64(x) << 1` -/
def putVarintNat (n : Nat) : List UInt8 := putUvarint (2 * n)

/-- `binary.Varint`, restricted to results that are non-negative; a negative result is `none`
    (the Go decoders would use a negative length; no encoder output decodes that way) -/
def varintNat (bs : List UInt8) : Option (Nat × Nat) :=
  match uvarint bs with
  | some (ux, n) => if ux % 2 = 0 then some (ux / 2, n) else none
  | none => none

end XixiKV.Varint
