import XixiKV.Model.Conc
/-!
# A Merge running concurrently with the clients of `Model/Conc.lean`   (C06 "all interleavings of
concurrent Put/Delete with the merge scan", C08 "(and a concurrent Merge)")

Mirrors the locking structure of `DB.Merge` (`merge.go` at /repo HEAD):

| Go | here |
|---|---|
| `db.mu.Lock(); … db.sync(); nonMergeFileId := db.activeFile.ID; … db.mu.Unlock()` | `mstart`: needs the lock to be free; fixes the boundary `n = log.length` (everything written so far is in files `< nonMergeFileId`, everything written later in files `≥ nonMergeFileId`) and the order `todo` in which the old records will be visited (file order is Go map iteration: any permutation) |
| per record: `pos := db.index.Get(key)`; `if pos == this record { mergeDB.appendLogRecord; hint }` — no `db.mu`, the index read is atomic (shard lock) | `mvisit`: one atomic step that reads the index |
| closing the output files, writing the marker | `mfinish` |
| an error return (`ErrMergeFileIDConflict`, I/O error): no marker, the directory is ignored | `mabort` |
| `Open` adopting the finished merge: files `< n` are replaced by the merged files | `adopted`: the log a restart replays is `out ++ log.drop n` |

Since the repair "readers take the DB read lock before they consult the index" the per-record
liveness test is `db.mu.RLock(); pos := db.index.Get(key); db.mu.RUnlock()`: the read can no longer
fall inside the W section of a writer (in particular not inside an open batch, whose early index
updates it must not see — batches are not part of this model, see `Model/ConcBatch.lean`).
`mvisit` is still enabled at ANY time here, i.e. this model admits a superset of the schedules
of the code; the theorems, proved for all schedules of the larger relation, apply unchanged.

`startInLock = false` is the broken shape in which the boundary is fixed without holding `db.mu`
(a writer may then be between its append and its index update).
-/
namespace XixiKV.ConcMerge
open XixiKV.Conc

/-- state of the merging goroutine (`isMerging` admits one at a time) -/
inductive MSt
  | idle
  | scanning (n : Nat) (todo : List Nat) (out : List Rec)
  | done (n : Nat) (out : List Rec)
deriving DecidableEq, Repr

structure GM where
  g : G
  m : MSt

def initM : GM := { g := Conc.init, m := .idle }

def recKey : Rec → Key
  | .put k _ => k
  | .del k => k

/-- the merge loop body for the record at log position `i`: rewritten iff the index still points
at exactly this record (tombstones are never indexed, hence never rewritten) -/
def visit (g : G) (i : Nat) (out : List Rec) : List Rec :=
  match g.log[i]? with
  | some (.put k v) => if g.idx k = some i then out ++ [.put k v] else out
  | _ => out

def MSt.canStart : MSt → Bool
  | .scanning _ _ _ => false
  | _ => true

inductive StepM (sh : Shape) (startInLock : Bool) : GM → GM → Prop
  | base (g g' : G) (m : MSt) : Step sh g g' → StepM sh startInLock ⟨g, m⟩ ⟨g', m⟩
  | mstart (g : G) (m : MSt) (todo : List Nat) :
      m.canStart = true → (startInLock = true → g.writer = none) →
      todo.Perm (List.range g.log.length) →
      StepM sh startInLock ⟨g, m⟩ ⟨g, .scanning g.log.length todo []⟩
  | mvisit (g : G) (n i : Nat) (todo : List Nat) (out : List Rec) :
      StepM sh startInLock ⟨g, .scanning n (i :: todo) out⟩ ⟨g, .scanning n todo (visit g i out)⟩
  | mfinish (g : G) (n : Nat) (out : List Rec) :
      StepM sh startInLock ⟨g, .scanning n [] out⟩ ⟨g, .done n out⟩
  | mabort (g : G) (n : Nat) (todo : List Nat) (out : List Rec) :
      StepM sh startInLock ⟨g, .scanning n todo out⟩ ⟨g, .idle⟩

inductive ReachableM (sh : Shape) (startInLock : Bool) : GM → Prop
  | init : ReachableM sh startInLock initM
  | step {a b} : ReachableM sh startInLock a → StepM sh startInLock a b → ReachableM sh startInLock b

/-- the log a restart replays once the finished merge `(n, out)` has been adopted -/
def adopted (g : G) (n : Nat) (out : List Rec) : List Rec := out ++ g.log.drop n

/-- the mapping a restart recovers from a log -/
def recovered (log : List Rec) : Key → Option Val := fun k => valAt log (replay log k)

/-! ## executable form (forced schedules) -/

inductive LabelM
  | cl (t : Tid) (l : Label)
  | mstart (todo : Option (List Nat))      -- `none` = ascending order
  | mvisit
  | mfinish
  | mabort
deriving Repr

def isPermOfRange (todo : List Nat) (n : Nat) : Bool :=
  todo.length == n && (List.range n).all (fun i => todo.contains i)

def nextM (sh : Shape) (startInLock : Bool) (a : GM) : LabelM → Option GM
  | .cl t l => (next sh a.g t l).map fun g' => ⟨g', a.m⟩
  | .mstart todo =>
    let td := todo.getD (List.range a.g.log.length)
    if a.m.canStart ∧ (startInLock = false ∨ a.g.writer = none) ∧ isPermOfRange td a.g.log.length
    then some ⟨a.g, .scanning a.g.log.length td []⟩ else none
  | .mvisit =>
    match a.m with
    | .scanning n (i :: todo) out => some ⟨a.g, .scanning n todo (visit a.g i out)⟩
    | _ => none
  | .mfinish =>
    match a.m with
    | .scanning n [] out => some ⟨a.g, .done n out⟩
    | _ => none
  | .mabort =>
    match a.m with
    | .scanning _ _ _ => some ⟨a.g, .idle⟩
    | _ => none

def execM (sh : Shape) (startInLock : Bool) : List LabelM → GM → Option GM
  | [], a => some a
  | l :: rest, a => (nextM sh startInLock a l).bind (execM sh startInLock rest)

def execPrefixM (sh : Shape) (startInLock : Bool) : List LabelM → GM → Nat → GM × Nat
  | [], a, n => (a, n)
  | l :: rest, a, n =>
    match nextM sh startInLock a l with
    | some a' => execPrefixM sh startInLock rest a' (n + 1)
    | none => (a, n)

/-! ### text form: the choices of `Conc.parseSchedule` plus `m:start`, `m:start i j k …`
    (explicit visiting order), `m:visit`, `m:finish`, `m:abort` -/

def parseChoiceM (s : String) : Option LabelM :=
  match s.trimAscii.toString.splitOn ":" with
  | [t, l] =>
    let ws := (l.trimAscii.toString.splitOn " ").filter (· ≠ "")
    if t.trimAscii.toString = "m" then
      match ws with
      | ["start"] => some (.mstart none)
      | "start" :: rest => (rest.mapM (fun (x : String) => x.toNat?)).map fun l => .mstart (some l)
      | ["visit"] => some .mvisit
      | ["finish"] => some .mfinish
      | ["abort"] => some .mabort
      | _ => none
    else do
      let t ← t.trimAscii.toString.toNat?
      let l ← parseLabel ws
      some (.cl t l)
  | _ => none

def parseScheduleM (s : String) : Option (List LabelM) :=
  ((s.splitOn ";").filter (·.trimAscii.toString ≠ "")).mapM parseChoiceM

def keysOf (s : List LabelM) : List Key :=
  dedup (s.filterMap fun x => match x with | .cl _ (.call op) => some op.key | _ => none)

def fmtRec : Rec → String
  | .put k v => s!"put({k},{v})"
  | .del k => s!"del({k})"

/-- one-line rendering: live mapping, what a plain restart recovers, the merge state and what a
restart recovers after adopting the finished merge -/
def renderM (sh : Shape) (startInLock : Bool) (s : List LabelM) : String :=
  let (a, n) := execPrefixM sh startInLock s initM 0
  let ks := keysOf s
  let kv (f : Key → Option Val) := " ".intercalate (ks.map fun k => s!"{k}={fmtOpt (f k)}")
  let ms := match a.m with
    | .idle => "merge=idle"
    | .scanning n todo out => s!"merge=scanning n={n} todo={todo.length} out[{" ".intercalate (out.map fmtRec)}]"
    | .done n out => s!"merge=done n={n} post={a.g.log.length - n} out[{" ".intercalate (out.map fmtRec)}] adopted[{kv (recovered (adopted a.g n out))}]"
  s!"completed={n == s.length} executed={n} live[{kv (absMap a.g)}] restart[{kv (recovered a.g.log)}] {ms}"

end XixiKV.ConcMerge
