import XixiKV.Model.Frame
/-!
# The concrete chunk codec  (mirrors `DecodeChunk` in `datafile/log_record.go` and the header
construction in `writeToBuf`): `crc32(len16 ‖ type ‖ payload) ‖ len16 ‖ type ‖ payload`,
CRC-32/IEEE (reflected polynomial 0xEDB88320), little-endian fields.
-/
namespace XixiKV.Chunk
open XixiKV.Frame

def poly : UInt32 := 0xEDB88320
@[inline] def stepBit (c : UInt32) : UInt32 :=
  if c &&& 1 == 1 then (c >>> 1) ^^^ poly else c >>> 1
def stepByte (c : UInt32) (b : UInt8) : UInt32 :=
  let c := c ^^^ b.toUInt32
  stepBit (stepBit (stepBit (stepBit (stepBit (stepBit (stepBit (stepBit c)))))))

/-- raw register update over bytes (no pre/post inversion) -/
def crcRaw (c : UInt32) (bs : ByteArray) : UInt32 := bs.data.foldl stepByte c
/-- Go's `crc32.ChecksumIEEE` -/
def checksum (bs : ByteArray) : UInt32 := ~~~ crcRaw (~~~ 0) bs
/-- Go's `crc32.Update(crc, crc32.IEEETable, p)` -/
def update (crc : UInt32) (bs : ByteArray) : UInt32 := ~~~ crcRaw (~~~ crc) bs

def le16 (n : Nat) : ByteArray := ⟨#[(n % 256).toUInt8, (n / 256 % 256).toUInt8]⟩
def le32 (n : UInt32) : ByteArray :=
  ⟨#[(n.toNat % 256).toUInt8, (n.toNat / 256 % 256).toUInt8, (n.toNat / 65536 % 256).toUInt8,
     (n.toNat / 16777216 % 256).toUInt8]⟩

def rd16 (b : ByteArray) (i : Nat) : Nat :=
  match (b.extract i (i+2)).data.toList with
  | [x, y] => x.toNat + 256 * y.toNat
  | _ => 0
def rd32 (b : ByteArray) (i : Nat) : UInt32 :=
  match (b.extract i (i+4)).data.toList with
  | [a, b, c, d] => UInt32.ofNat (a.toNat + 256 * b.toNat + 65536 * c.toNat + 16777216 * d.toNat)
  | _ => 0
def rd8 (b : ByteArray) (i : Nat) : Nat :=
  match (b.extract i (i+1)).data.toList with
  | [x] => x.toNat
  | _ => 0

/-- chunk header ‖ payload, as `writeToBuf` builds it -/
def enc (t : CT) (p : ByteArray) : ByteArray :=
  let lt := le16 p.size ++ ⟨#[t.toUInt8]⟩
  le32 (update (checksum lt) p) ++ lt ++ p

/-- `DecodeChunk(block)`; `block` is the readable slice `buf[offset:size]` -/
def dec (block : ByteArray) : DecOut :=
  if block.size < H then .incomplete else
  let len := rd16 block 4
  let e := H + len
  if e > block.size then .incomplete else
  if checksum (block.extract 4 e) != rd32 block 0 then .badCrc else
  .ok (block.extract H e) (rd8 block 6)

end XixiKV.Chunk
