/-!
# Interleaving semantics of `Put` / `Delete` / `Get` on one shared handle   (C08, C09)

A small-step model of `db.go` at the granularity at which goroutines can interleave:

* global state `G = (log, idx, writer, pc, hist)`:
  `log` is the append-only sequence of records `put k v | del k` (all data files in write order),
  `idx` the in-memory index (key ↦ log position of the latest put; the sharded index is one
  atomic map here — its per-shard `RWMutex` makes every single `Put/Get/Delete` on it atomic, see
  `Lockset.DisciplinedShards`), `writer` the holder of `db.mu` in W mode, `pc` the control state of
  every thread (an UNBOUNDED set of thread ids: `Tid = Nat`), and `hist` a ghost history of
  invocation / linearization-point / return events (NEWEST FIRST: an event is consed on).
* the scheduler is the step relation itself: `Step sh g g'` holds when SOME thread makes its next
  move, so "for every reachable state" means for every number of threads, every sequence of
  operations and every schedule.
* one automaton per method, parametrised by a `Shape` of booleans that says which index accesses
  sit inside the W section of the append.  `Shape.allTrue` is the fixed tree (the shape is
  computed from the generated lockset table by `Lockset.shapeOf`); with a flag `false` the
  corresponding step happens after the release step (the original code).

```
Put k v   : idle -call→ putWant -acqW→ putLocked -append→ putAppended(held)
              putIndexInLock:      -index*→ putIndexed(held) -relW→ putIndexed(¬held) -ret→ idle
              ¬putIndexInLock:     -relW→ putAppended(¬held) -index*→ putIndexed(¬held) -ret→ idle
Delete k  : idle -call→ delWant
              delCheckInLock:      -acqW→ delLocked -check→ delMiss(held)* -relW→ delMiss(¬held) -ret→ idle
                                                           | delFound
              ¬delCheckInLock:     -check→ delMiss(¬held)* -ret→ idle
                                          | delChecked -acqW→ delFound
            delFound -append tombstone→ delAppended(held)
              delIndexInLock:      -index*→ delIndexed r (held) -relW→ delIndexed r (¬held) -ret r→ idle
              ¬delIndexInLock:     -relW→ delAppended(¬held) -index*→ delIndexed r (¬held) -ret r→ idle
            where r = ok if the index still had the key, errIndexUpdateFailed otherwise
Get k     : idle -call→ getWant -index read*→ getFound p -resolve p in the log→ getResolved r -ret r→ idle
```
`*` marks the linearization point of the operation.
-/
namespace XixiKV.Conc

abbrev Tid := Nat
abbrev Key := Nat
abbrev Val := Nat

/-- Which index accesses are inside the write-lock section of the append. -/
structure Shape where
  /-- `DB.Put`: `db.index.Put` in the same W section as `appendLogRecord` -/
  putIndexInLock : Bool
  /-- `DB.Delete`: the existence check `db.index.Get` in the same W section as the append -/
  delCheckInLock : Bool
  /-- `DB.Delete`: `db.index.Delete` in the same W section as the append -/
  delIndexInLock : Bool
deriving DecidableEq, Repr

def Shape.allTrue : Shape := ⟨true, true, true⟩

/-- log records -/
inductive Rec
  | put (k : Key) (v : Val)
  | del (k : Key)
deriving DecidableEq, Repr

inductive Op
  | put (k : Key) (v : Val)
  | del (k : Key)
  | get (k : Key)
deriving DecidableEq, Repr

/-- results: `Put`/`Delete` return `ok`; `Get` returns the value or nothing (ErrKeyNotFound);
`errIndexUpdateFailed` is the internal-inconsistency error of `Delete` (C09). -/
inductive Res
  | ok
  | val (v : Option Val)
  | errIndexUpdateFailed
deriving DecidableEq, Repr

/-- ghost events -/
inductive Ev
  | inv (t : Tid) (op : Op)
  | lin (t : Tid) (op : Op) (r : Res)
  | ret (t : Tid) (r : Res)
deriving DecidableEq, Repr

def Ev.tid : Ev → Tid
  | .inv t _ => t
  | .lin t _ _ => t
  | .ret t _ => t

/-- per-thread control state; `held` says whether the thread still holds `db.mu` -/
inductive PC
  | idle
  | putWant (k : Key) (v : Val)
  | putLocked (k : Key) (v : Val)
  | putAppended (k : Key) (v : Val) (p : Nat) (held : Bool)
  | putIndexed (k : Key) (v : Val) (held : Bool)
  | delWant (k : Key)
  | delChecked (k : Key)
  | delLocked (k : Key)
  | delFound (k : Key)
  | delMiss (k : Key) (held : Bool)
  | delAppended (k : Key) (held : Bool)
  | delIndexed (k : Key) (r : Res) (held : Bool)
  | getWant (k : Key)
  | getFound (k : Key) (p : Option Nat) (pred : Res)
  | getResolved (k : Key) (r : Res)
deriving DecidableEq, Repr

structure G where
  log : List Rec
  idx : Key → Option Nat
  writer : Option Tid
  pc : Tid → PC
  /-- ghost history, newest event first -/
  hist : List Ev

def init : G := { log := [], idx := fun _ => none, writer := none, pc := fun _ => .idle, hist := [] }

def upd {α} (f : Tid → α) (t : Tid) (a : α) : Tid → α := fun t' => if t' = t then a else f t'
def updK {α} (f : Key → α) (k : Key) (a : α) : Key → α := fun k' => if k' = k then a else f k'

/-- value stored at an optional log position (what `getValueByPosition` reads) -/
def valAt (log : List Rec) : Option Nat → Option Val
  | none => none
  | some p =>
    match log[p]? with
    | some (.put _ v) => some v
    | _ => none

def readPos (log : List Rec) (p : Option Nat) : Res := .val (valAt log p)

/-- the abstract map the live structures denote -/
def absMap (g : G) : Key → Option Val := fun k => valAt g.log (g.idx k)

/-- outcome of `db.index.Delete`: the old entry or nothing -/
def delRes : Option Nat → Res
  | some _ => .ok
  | none => .errIndexUpdateFailed

/-- steps that touch only the thread's own control state and the ghost history (they may READ
the index / the log): calls, existence checks, the index read and the file read of `Get`, returns -/
inductive Local (sh : Shape) (g : G) (t : Tid) : PC → PC → List Ev → Prop
  | putCall (k v) : Local sh g t .idle (.putWant k v) [.inv t (.put k v)]
  | delCall (k) : Local sh g t .idle (.delWant k) [.inv t (.del k)]
  | getCall (k) : Local sh g t .idle (.getWant k) [.inv t (.get k)]
  | delCheckEarlyMiss (k) : sh.delCheckInLock = false → g.idx k = none →
      Local sh g t (.delWant k) (.delMiss k false) [.lin t (.del k) .ok]
  | delCheckEarlyHit (k p) : sh.delCheckInLock = false → g.idx k = some p →
      Local sh g t (.delWant k) (.delChecked k) []
  | delCheckMiss (k) : g.idx k = none →
      Local sh g t (.delLocked k) (.delMiss k true) [.lin t (.del k) .ok]
  | delCheckHit (k p) : g.idx k = some p →
      Local sh g t (.delLocked k) (.delFound k) []
  | getIdx (k) :
      Local sh g t (.getWant k) (.getFound k (g.idx k) (.val (absMap g k)))
        [.lin t (.get k) (.val (absMap g k))]
  | getResolve (k p pred) :
      Local sh g t (.getFound k p pred) (.getResolved k (readPos g.log p)) []
  | putRet (k v) : Local sh g t (.putIndexed k v false) .idle [.ret t .ok]
  | delMissRet (k) : Local sh g t (.delMiss k false) .idle [.ret t .ok]
  | delRet (k r) : Local sh g t (.delIndexed k r false) .idle [.ret t r]
  | getRet (k r) : Local sh g t (.getResolved k r) .idle [.ret t r]

/-- `db.mu.Lock()` -/
inductive Acq (sh : Shape) : PC → PC → Prop
  | put (k v) : Acq sh (.putWant k v) (.putLocked k v)
  | del (k) : sh.delCheckInLock = true → Acq sh (.delWant k) (.delLocked k)
  | delLate (k) : Acq sh (.delChecked k) (.delFound k)

/-- `db.mu.Unlock()` -/
inductive Rel (sh : Shape) : PC → PC → Prop
  | putEarly (k v p) : sh.putIndexInLock = false →
      Rel sh (.putAppended k v p true) (.putAppended k v p false)
  | put (k v) : Rel sh (.putIndexed k v true) (.putIndexed k v false)
  | delMiss (k) : Rel sh (.delMiss k true) (.delMiss k false)
  | delEarly (k) : sh.delIndexInLock = false →
      Rel sh (.delAppended k true) (.delAppended k false)
  | del (k r) : Rel sh (.delIndexed k r true) (.delIndexed k r false)

/-- One move of one thread.  Any thread may move whenever its next step is enabled: the relation
is the arbitrary scheduler. -/
inductive Step (sh : Shape) : G → G → Prop
  | loc (g : G) (t : Tid) (c c' : PC) (evs : List Ev) :
      g.pc t = c → Local sh g t c c' evs →
      Step sh g { g with pc := upd g.pc t c', hist := evs ++ g.hist }
  | acq (g : G) (t : Tid) (c c' : PC) :
      g.pc t = c → Acq sh c c' → g.writer = none →
      Step sh g { g with writer := some t, pc := upd g.pc t c' }
  | rel (g : G) (t : Tid) (c c' : PC) :
      g.pc t = c → Rel sh c c' →
      Step sh g { g with writer := none, pc := upd g.pc t c' }
  | putAppend (g : G) (t : Tid) (k : Key) (v : Val) :
      g.pc t = .putLocked k v →
      Step sh g { g with log := g.log ++ [.put k v],
                         pc := upd g.pc t (.putAppended k v g.log.length true) }
  | putIndex (g : G) (t : Tid) (k : Key) (v : Val) (p : Nat) (h : Bool) :
      g.pc t = .putAppended k v p h → h = sh.putIndexInLock →
      Step sh g { g with idx := updK g.idx k (some p),
                         pc := upd g.pc t (.putIndexed k v h),
                         hist := .lin t (.put k v) .ok :: g.hist }
  | delAppend (g : G) (t : Tid) (k : Key) :
      g.pc t = .delFound k →
      Step sh g { g with log := g.log ++ [.del k], pc := upd g.pc t (.delAppended k true) }
  | delIndex (g : G) (t : Tid) (k : Key) (h : Bool) :
      g.pc t = .delAppended k h → h = sh.delIndexInLock →
      Step sh g { g with idx := updK g.idx k none,
                         pc := upd g.pc t (.delIndexed k (delRes (g.idx k)) h),
                         hist := .lin t (.del k) (delRes (g.idx k)) :: g.hist }

inductive Reachable (sh : Shape) : G → Prop
  | init : Reachable sh init
  | step {g g'} : Reachable sh g → Step sh g g' → Reachable sh g'

def Quiescent (g : G) : Prop := ∀ t, g.pc t = .idle

/-! ## What a restart recovers -/

def applyRec (ix : Key → Option Nat) (i : Nat) : Rec → (Key → Option Nat)
  | .put k _ => updK ix k (some i)
  | .del k => updK ix k none

/-- `loadIndexFromDataFiles`: scan the records in write order; a later put overrides, a tombstone
deletes -/
def replayFrom : List Rec → Nat → (Key → Option Nat) → (Key → Option Nat)
  | [], _, ix => ix
  | r :: rest, i, ix => replayFrom rest (i + 1) (applyRec ix i r)

def replay (log : List Rec) : Key → Option Nat := replayFrom log 0 (fun _ => none)

/-! ## Sequential specification and the checks on ghost histories -/

abbrev Map := Key → Option Val

/-- one register per key -/
def specStep (m : Map) : Op → Map × Res
  | .put k v => (updK m k (some v), .ok)
  | .del k => (updK m k none, .ok)
  | .get k => (m, .val (m k))

/-- Run the linearization events of a history (newest first, so the recursion reaches the oldest
event first) through the sequential specification; `none` when a recorded result differs from the
result the specification gives at that point. -/
def specRun : List Ev → Option Map
  | [] => some (fun _ => none)
  | .lin _ op r :: h =>
    (specRun h).bind fun m => if (specStep m op).2 = r then some (specStep m op).1 else none
  | _ :: h => specRun h

/-- where a thread is in its current operation, as far as the history tells -/
inductive Phase
  | idle
  | invoked (op : Op)
  | linearized (op : Op) (r : Res)
deriving DecidableEq, Repr

def phaseStep (t : Tid) (ph : Option Phase) (e : Ev) : Option Phase :=
  if e.tid = t then
    match ph, e with
    | some .idle, .inv _ op => some (.invoked op)
    | some (.invoked op), .lin _ op' r => if op' = op then some (.linearized op r) else none
    | some (.linearized _ r), .ret _ r' => if r' = r then some .idle else none
    | _, _ => none
  else ph

/-- the phase of thread `t` after the history, `none` if its events are not a sequence of
`inv op · lin op r · ret r` triples (an operation without linearization point, a result that
differs from the one at the linearization point, …) -/
def phase : List Ev → Tid → Option Phase
  | [], _ => some .idle
  | e :: h, t => phaseStep t (phase h t) e

/-- A history is linearizable with the recorded linearization points: every thread's events are
`inv op · lin op r · ret r` triples (the linearization point lies between call and return, the
returned result is the one at the linearization point) and the results at the linearization
points are those of the sequential specification run in linearization order. -/
def Linearizable (h : List Ev) : Prop := (∀ t, phase h t ≠ none) ∧ (specRun h).isSome = true

/-! ## Executable replay of a forced schedule

Input format (`Schedule`): a list of `(thread id, label)` choices, executed left to right from
`init`.  The label names the step the thread is expected to take (its next step is determined by
its control state; the label makes a schedule self-checking):

| label | step |
|---|---|
| `call op` | invocation of `op` = `.put k v`, `.del k`, `.get k` (thread must be idle) |
| `acq` | `db.mu.Lock()` succeeds (choice is refused while another thread holds the lock) |
| `append` | the record / tombstone reaches the log |
| `index` | `db.index.Put` (Put) or `db.index.Delete` (Delete) |
| `check` | existence check of Delete (`db.index.Get`) |
| `rel` | `db.mu.Unlock()` |
| `idxRead` | `db.index.Get` of Get |
| `resolve` | `getValueByPosition` of Get |
| `ret` | return |

Text form accepted by `parseSchedule`: choices separated by `;`, each `tid:label`, calls written
`tid:put k v`, `tid:del k`, `tid:get k` (natural numbers), e.g.
`0:put 1 10; 1:put 1 20; 0:acq; 0:append; 0:rel; 1:acq; 1:append; 1:rel; 1:index; 0:index; 0:ret; 1:ret`.
-/

inductive Label
  | call (op : Op)
  | acq | rel | append | index | check | idxRead | resolve | ret
deriving DecidableEq, Repr

abbrev Schedule := List (Tid × Label)

def G.loc (g : G) (t : Tid) (c' : PC) (evs : List Ev) : G :=
  { g with pc := upd g.pc t c', hist := evs ++ g.hist }

/-- the step of thread `t` labelled `l`, if it is enabled -/
def next (sh : Shape) (g : G) (t : Tid) (l : Label) : Option G :=
  match l, g.pc t with
  | .call (.put k v), .idle => some (g.loc t (.putWant k v) [.inv t (.put k v)])
  | .call (.del k), .idle => some (g.loc t (.delWant k) [.inv t (.del k)])
  | .call (.get k), .idle => some (g.loc t (.getWant k) [.inv t (.get k)])
  | .acq, .putWant k v =>
    if g.writer = none then some { g with writer := some t, pc := upd g.pc t (.putLocked k v) } else none
  | .acq, .delWant k =>
    if sh.delCheckInLock = true ∧ g.writer = none then
      some { g with writer := some t, pc := upd g.pc t (.delLocked k) } else none
  | .acq, .delChecked k =>
    if g.writer = none then some { g with writer := some t, pc := upd g.pc t (.delFound k) } else none
  | .append, .putLocked k v =>
    some { g with log := g.log ++ [.put k v], pc := upd g.pc t (.putAppended k v g.log.length true) }
  | .append, .delFound k =>
    some { g with log := g.log ++ [.del k], pc := upd g.pc t (.delAppended k true) }
  | .index, .putAppended k v p h =>
    if h = sh.putIndexInLock then
      some { g with idx := updK g.idx k (some p), pc := upd g.pc t (.putIndexed k v h),
                    hist := .lin t (.put k v) .ok :: g.hist }
    else none
  | .index, .delAppended k h =>
    if h = sh.delIndexInLock then
      some { g with idx := updK g.idx k none, pc := upd g.pc t (.delIndexed k (delRes (g.idx k)) h),
                    hist := .lin t (.del k) (delRes (g.idx k)) :: g.hist }
    else none
  | .check, .delWant k =>
    if sh.delCheckInLock = false then
      match g.idx k with
      | none => some (g.loc t (.delMiss k false) [.lin t (.del k) .ok])
      | some _ => some (g.loc t (.delChecked k) [])
    else none
  | .check, .delLocked k =>
    match g.idx k with
    | none => some (g.loc t (.delMiss k true) [.lin t (.del k) .ok])
    | some _ => some (g.loc t (.delFound k) [])
  | .rel, .putAppended k v p true =>
    if sh.putIndexInLock = false then
      some { g with writer := none, pc := upd g.pc t (.putAppended k v p false) } else none
  | .rel, .putIndexed k v true =>
    some { g with writer := none, pc := upd g.pc t (.putIndexed k v false) }
  | .rel, .delMiss k true =>
    some { g with writer := none, pc := upd g.pc t (.delMiss k false) }
  | .rel, .delAppended k true =>
    if sh.delIndexInLock = false then
      some { g with writer := none, pc := upd g.pc t (.delAppended k false) } else none
  | .rel, .delIndexed k r true =>
    some { g with writer := none, pc := upd g.pc t (.delIndexed k r false) }
  | .idxRead, .getWant k =>
    some (g.loc t (.getFound k (g.idx k) (.val (absMap g k))) [.lin t (.get k) (.val (absMap g k))])
  | .resolve, .getFound k p _ => some (g.loc t (.getResolved k (readPos g.log p)) [])
  | .ret, .putIndexed _ _ false => some (g.loc t .idle [.ret t .ok])
  | .ret, .delMiss _ false => some (g.loc t .idle [.ret t .ok])
  | .ret, .delIndexed _ r false => some (g.loc t .idle [.ret t r])
  | .ret, .getResolved _ r => some (g.loc t .idle [.ret t r])
  | _, _ => none

/-- run a schedule; `none` if some choice is not enabled -/
def exec (sh : Shape) : Schedule → G → Option G
  | [], g => some g
  | (t, l) :: rest, g => (next sh g t l).bind (exec sh rest)

/-- run a schedule as far as possible: the state reached and the number of choices executed -/
def execPrefix (sh : Shape) : Schedule → G → Nat → G × Nat
  | [], g, n => (g, n)
  | (t, l) :: rest, g, n =>
    match next sh g t l with
    | some g' => execPrefix sh rest g' (n + 1)
    | none => (g, n)

def dedup : List Nat → List Nat
  | [] => []
  | a :: l => if (dedup l).contains a then dedup l else a :: dedup l

def Schedule.threads (s : Schedule) : List Tid := dedup (s.map (·.1))

def Op.key : Op → Key
  | .put k _ => k
  | .del k => k
  | .get k => k

def Schedule.keys (s : Schedule) : List Key :=
  dedup (s.filterMap fun x => match x.2 with | .call op => some op.key | _ => none)

def histThreads (h : List Ev) : List Tid := dedup (h.map Ev.tid)

/-- what the model predicts for a forced schedule -/
structure Outcome where
  /-- every choice of the schedule was enabled -/
  completed : Bool
  /-- number of choices executed (index of the refused choice when not `completed`) -/
  executed : Nat
  /-- all threads of the schedule are idle at the end -/
  quiescent : Bool
  log : List Rec
  /-- live view (index → log) of the keys named in the schedule -/
  live : List (Key × Option Val)
  /-- the view a restart recovers for the same keys (replay of the log) -/
  restart : List (Key × Option Val)
  /-- `live = restart`, index positions included -/
  agree : Bool
  /-- results in return order -/
  results : List (Tid × Res)
  /-- some Delete took the "index entry vanished" branch (`ErrIndexUpdateFailed`) -/
  spurious : Bool
  /-- the ghost history passes the `Linearizable` checks -/
  linearizable : Bool
  /-- ghost history, oldest event first -/
  history : List Ev
deriving Repr

def run (sh : Shape) (s : Schedule) : Outcome :=
  let (g, n) := execPrefix sh s init 0
  let ks := s.keys
  let ts := s.threads
  { completed := n == s.length
    executed := n
    quiescent := ts.all fun t => g.pc t == .idle
    log := g.log
    live := ks.map fun k => (k, absMap g k)
    restart := ks.map fun k => (k, valAt g.log (replay g.log k))
    agree := ks.all fun k => g.idx k == replay g.log k
    results := g.hist.reverse.filterMap fun e => match e with | .ret t r => some (t, r) | _ => none
    spurious := g.hist.any fun e => match e with | .lin _ _ .errIndexUpdateFailed => true | _ => false
    linearizable := (ts.all fun t => (phase g.hist t).isSome) && (specRun g.hist).isSome
    history := g.hist.reverse }

/-! ### text form -/

def parseLabel (ws : List String) : Option Label :=
  match ws with
  | ["put", k, v] => do some (.call (.put (← k.toNat?) (← v.toNat?)))
  | ["del", k] => do some (.call (.del (← k.toNat?)))
  | ["get", k] => do some (.call (.get (← k.toNat?)))
  | ["acq"] => some .acq
  | ["rel"] => some .rel
  | ["append"] => some .append
  | ["index"] => some .index
  | ["check"] => some .check
  | ["idxRead"] => some .idxRead
  | ["resolve"] => some .resolve
  | ["ret"] => some .ret
  | _ => none

def parseChoice (s : String) : Option (Tid × Label) :=
  match s.trimAscii.toString.splitOn ":" with
  | [t, l] => do
    let t ← t.trimAscii.toString.toNat?
    let l ← parseLabel ((l.trimAscii.toString.splitOn " ").filter (· ≠ ""))
    some (t, l)
  | _ => none

def parseSchedule (s : String) : Option Schedule :=
  ((s.splitOn ";").filter (·.trimAscii.toString ≠ "")).mapM parseChoice

def fmtOpt : Option Val → String
  | none => "-"
  | some v => toString v

def fmtRes : Res → String
  | .ok => "ok"
  | .val v => "val " ++ fmtOpt v
  | .errIndexUpdateFailed => "err:index-update-failed"

/-- one-line canonical rendering for the orchestrator -/
def Outcome.render (o : Outcome) : String :=
  let kv (l : List (Key × Option Val)) := " ".intercalate (l.map fun (k, v) => s!"{k}={fmtOpt v}")
  s!"completed={o.completed} executed={o.executed} quiescent={o.quiescent} agree={o.agree} " ++
  s!"spurious={o.spurious} linearizable={o.linearizable} live[{kv o.live}] restart[{kv o.restart}] " ++
  s!"results[{" ".intercalate (o.results.map fun (t, r) => s!"{t}:{fmtRes r}")}]"

end XixiKV.Conc
