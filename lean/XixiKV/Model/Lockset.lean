import XixiKV.Generated.Skeletons
import XixiKV.Model.Conc
import XixiKV.Model.DirLock
/-!
# Decidable facts about the generated lockset table   (ties C08 / C09 / C16 to the Go source)

`Generated.locksetTable` is rewritten from the Go AST on every run (`harness/cmd/extract`).  A row
`⟨method, ord, action, mode, sect⟩` says: while walking `method` in program order (same-package
calls inlined, deferred calls replayed at every `return`) the walker met `action` while `db.mu`
was in state `mode` inside lock section `sect` (0 = not held, fresh number per acquisition).
Conventions of the walker that the predicates below rely on:

* an `acq*` row carries the state AFTER the acquisition, a `rel*` row the state BEFORE the release;
* a branch that ends in `return` is followed by the code after the `if`, walked from the state
  before the branch (so the rows of one method are a flattening of its paths, not one path);
* `Batch.*` methods are walked from entry state `(W, 1)`;
* `Open` and `DB.Close` run before / after the handle is shared.

All predicates are `Bool`-valued functions of the table (a `Prop` wrapper with a `Decidable`
instance is provided for each), they look only at rows with the named actions, and they are
evaluated by the kernel (`by decide`), never by native code.  Action names are compared by string
equality against a fixed vocabulary (fast in the kernel); a row whose action is NOT in the
vocabulary is parsed character-wise, so that a future `write:newField` row is still subject to the
discipline instead of being silently ignored.
-/
namespace XixiKV.Lockset
open XixiKV.Generated
open XixiKV.Conc (Shape)

/-! ## vocabulary -/

def fields : List String :=
  ["reclaimSize", "totalSize", "bytesWrite", "isMerging", "activeFile", "olderFiles"]

def writeActs : List (String × String) :=
  [("write:reclaimSize", "reclaimSize"), ("write:totalSize", "totalSize"),
   ("write:bytesWrite", "bytesWrite"), ("write:isMerging", "isMerging"),
   ("write:activeFile", "activeFile"), ("write:olderFiles", "olderFiles")]

def readActs : List (String × String) :=
  [("read:reclaimSize", "reclaimSize"), ("read:totalSize", "totalSize"),
   ("read:bytesWrite", "bytesWrite"), ("read:isMerging", "isMerging"),
   ("read:activeFile", "activeFile"), ("read:olderFiles", "olderFiles")]

def atomicActs : List (String × String) :=
  [("atomic:reclaimSize", "reclaimSize"), ("atomic:totalSize", "totalSize"),
   ("atomic:bytesWrite", "bytesWrite"), ("atomic:isMerging", "isMerging"),
   ("atomic:activeFile", "activeFile"), ("atomic:olderFiles", "olderFiles")]

/-- actions that are not accesses to a shared field of `DB` -/
def neutralActs : List String :=
  ["acqW", "relW", "acqR", "relR", "append", "appendAll", "idxPut", "idxGet", "idxDel", "idxSize",
   "idxIter", "readFile", "fsync", "closeFile", "flockTry", "flockRelease", "fsRemove", "fsRename",
   "fsRemoveAll", "ret", "retErr"]

def assoc (l : List (String × String)) (a : String) : Option String :=
  match l with
  | [] => none
  | (x, f) :: rest => if a == x then some f else assoc rest a

def isAcq (a : String) : Bool := a == "acqW" || a == "acqR"
def isRel (a : String) : Bool := a == "relW" || a == "relR"
def isRet (a : String) : Bool := a == "ret" || a == "retErr"

/-- character-wise prefix test; slow in the kernel, only evaluated on actions outside the vocabulary -/
def hasPrefix (p a : String) : Bool := p.toList.isPrefixOf a.toList

/-- methods whose plain accesses are outside the lock discipline: they run before the handle is
shared (`Open`) or after the last use (`DB.Close`, which nevertheless takes the lock) -/
def exempt (m : String) : Bool := m == "Open" || m == "DB.Close"

/-! ## C08: the shape of `Put` / `Delete` -/

/-- In method `m`: rows with action `a` and rows with action `anchor` both exist, all of them are
in W mode and all in one and the same non-zero lock section.  Section numbers are fresh per
acquisition and a release resets the walker's state to `(none, 0)`, so two rows with the same
`(W, s)` are executed under the same acquisition of `db.mu` with no release in between. -/
def sameSectionW (t : List Row) (m a anchor : String) : Bool :=
  let rs := t.filter fun r => r.method == m
  let xs := rs.filter fun r => r.action == a
  let ys := rs.filter fun r => r.action == anchor
  !xs.isEmpty && !ys.isEmpty &&
  xs.all fun x => x.mode == .W && x.sect != 0 && ys.all fun y => y.mode == .W && y.sect == x.sect

def shapeOf (t : List Row) : Shape :=
  { putIndexInLock := sameSectionW t "DB.Put" "idxPut" "append"
    delCheckInLock := sameSectionW t "DB.Delete" "idxGet" "append"
    delIndexInLock := sameSectionW t "DB.Delete" "idxDel" "append" }

/-- `DB.Merge` captures the set of files to merge (`olderFiles`, and with it the boundary
`nonMergeFileId`) in the same W section of `db.mu` in which it rotates the active file: no writer
can be between its append and its index update at that moment (`ConcMerge.StepM.mstart`). -/
def mergeStartInLock (t : List Row) : Bool :=
  sameSectionW t "DB.Merge" "read:olderFiles" "write:activeFile"

/-- The table has the shape for which `C08_restart_agrees` / `C08_linearizable` are proved. -/
def WellLocked (t : List Row) : Prop := shapeOf t = Shape.allTrue
instance (t : List Row) : Decidable (WellLocked t) := inferInstanceAs (Decidable (_ = _))

/-- The `Conc` model has `Put` and `Delete` as the only mutators of the log and of the index.  The
other mutators of the real engine (a batch commit: `appendAll`, `idxPut`, `idxDel`; the
`append` of the batch-finished record) must therefore be atomic with respect to them: every row
that appends to the log or mutates the index, in a method that runs on a shared handle, is in W
mode.  (`Merge` appends only to its private merge directory through a private `DB` value and
mutates nothing of the shared index.) -/
def mutatorActs : List String := ["append", "appendAll", "idxPut", "idxDel"]

def MutatorsLocked (t : List Row) : Prop :=
  (t.all fun r => exempt r.method || !mutatorActs.contains r.action || r.mode == .W) = true
instance (t : List Row) : Decidable (MutatorsLocked t) := inferInstanceAs (Decidable (_ = _))

/-! ## C09: lockset discipline -/

/-- the row-local part of the discipline -/
def rowOK (r : Row) : Bool :=
  if (assoc writeActs r.action).isSome then r.mode == .W
  else if (assoc readActs r.action).isSome then r.mode != .none
  else if (assoc atomicActs r.action).isSome || neutralActs.contains r.action then true
  else if hasPrefix "write:" r.action then r.mode == .W
  else if hasPrefix "read:" r.action then r.mode != .none
  else !hasPrefix "atomic:" r.action   -- an atomic access to a field this file does not know

/-- no field is accessed both atomically and plainly (a plain access under the lock still races
with an atomic access made without it) -/
def noMixedAccess (t : List Row) : Bool :=
  fields.all fun f =>
    !((t.any fun r => assoc atomicActs r.action == some f) &&
      (t.any fun r => !exempt r.method &&
        (assoc writeActs r.action == some f || assoc readActs r.action == some f)))

def disciplinedB (t : List Row) : Bool :=
  (t.all fun r => exempt r.method || rowOK r) && noMixedAccess t

/-- Every plain write of a shared field happens in W mode, every plain read in R or W mode, and no
field is accessed both atomically and plainly (methods `Open` and `DB.Close` excepted). -/
def Disciplined (t : List Row) : Prop := disciplinedB t = true
instance (t : List Row) : Decidable (Disciplined t) := inferInstanceAs (Decidable (_ = _))

/-- offending rows, for reports -/
def undisciplinedRows (t : List Row) : List Row := t.filter fun r => !(exempt r.method || rowOK r)

def shardWriteActs : List String := ["shard.put", "shard.delete", "shard.iterator", "shard.close"]
def shardReadActs : List String := ["shard.get", "shard.size"]
def shardNeutralActs : List String := ["acqW", "relW", "acqR", "relR", "ret", "retErr"]

def shardRowOK (r : Row) : Bool :=
  if shardWriteActs.contains r.action then r.mode == .W
  else if shardReadActs.contains r.action then r.mode != .none
  else if shardNeutralActs.contains r.action then true
  else r.mode == .W        -- unknown shard-level action: treated as a mutation

/-- The per-shard lock is held in W mode around `put / delete / iterator / close` of a shard (the
B-tree iterator clones, i.e. mutates, the tree) and in R or W mode around `get / size`. -/
def DisciplinedShards (t : List Row) : Prop := (t.all shardRowOK) = true
instance (t : List Row) : Decidable (DisciplinedShards t) := inferInstanceAs (Decidable (_ = _))

/-! ## C09: no self-deadlock

`sync.RWMutex` is not reentrant: a goroutine that calls `Lock`/`RLock` while it already holds the
mutex (in either mode) blocks forever.  The state BEFORE an `acq*` row is not recorded on the row
(the row carries the state after the acquisition), so it is reconstructed by one pass over the
rows of each method, keeping the state `st` left by the nearest preceding non-return row:

* method start: `st :=` the entry state (`W` for `Batch.*`, `none` otherwise);
* `acq*` row: REQUIRE `st = none`; then `st := row.mode`;
* `rel*` row: `st := none`;
* `ret / retErr` row: `st` unchanged;
* any other row: `st := row.mode` (the recorded state: this resynchronises after a `return`).

Soundness.  For an `acq*` row that follows a non-return row the reconstruction is exact (the
walker's state only changes at acq/rel rows and at returns).  After a `return` the walker resumes
from the state before the returning branch, which the table does not record; the pass uses the
state left by the last non-return row instead.  This is exact whenever the returning branch is
lock-balanced (it releases exactly what it acquired, as the deferred `Lock; isMerging = false;
Unlock` block of `Merge` does) or released a lock taken by a `defer`-less `Unlock(); return` and
the code after the branch starts with a row that is not an acquisition (that row resynchronises
`st`).  The one pattern the table cannot distinguish from a benign one is
`Lock(); …; if c { Unlock(); return }; Lock()` (same rows as `if c { Lock(); …; Unlock(); return };
Lock()`); `ambiguousAcqs` lists the acquisitions that directly follow a return so that a report
can show them (today: the deferred `acqW` blocks of `Merge` after the rotation, each preceded
by the complete `acqW … relW` block of the previous return; the `acqR` of `getValueByPosition` in
`DB.Get` also follows a return, but every earlier row of that method is lock-free, so its
pre-state is certainly `none` and it is not listed).  A self-deadlock of this kind
is a sequential bug: any single-threaded execution of the path hangs, which the run-time harness
detects independently. -/

def batchMethods : List String := ["Batch.Put", "Batch.Get", "Batch.Delete", "Batch.Commit"]

def entryMode (m : String) : Mode := if batchMethods.contains m then .W else .none

/-- `go m st rows`: `m` the method of the previous row (`""` at the start), `st` as described -/
def noReacquire : String → Mode → List Row → Bool
  | _, _, [] => true
  | m, st, r :: rest =>
    let st := if r.method == m then st else entryMode r.method
    if isAcq r.action then st == .none && noReacquire r.method r.mode rest
    else if isRel r.action then noReacquire r.method .none rest
    else if isRet r.action then noReacquire r.method st rest
    else noReacquire r.method r.mode rest

/-- rows where an acquisition would happen while the lock is held, for reports -/
def reacquireRows : String → Mode → List Row → List Row
  | _, _, [] => []
  | m, st, r :: rest =>
    let st := if r.method == m then st else entryMode r.method
    if isAcq r.action then (if st == .none then [] else [r]) ++ reacquireRows r.method r.mode rest
    else if isRel r.action then reacquireRows r.method .none rest
    else if isRet r.action then reacquireRows r.method st rest
    else reacquireRows r.method r.mode rest

/-- acquisitions directly after a `return` row of the same method, in a method in which some
earlier row was executed with the lock held (if every earlier row of the method is lock-free the
reconstructed state is certainly `none`): the acquisitions whose pre-state is reconstructed under
the assumption described above.  `go prev everHeld rows`. -/
def ambiguousAcqs : Option Row → Bool → List Row → List Row
  | _, _, [] => []
  | prev, ever, r :: rest =>
    let same := match prev with | some p => p.method == r.method | none => false
    let ever := if same then ever else entryMode r.method != .none
    (match prev with
     | some p => if same && isRet p.action && isAcq r.action && ever then [r] else []
     | none => []) ++ ambiguousAcqs (some r) (ever || r.mode != .none) rest

/-- No method acquires `db.mu` while it holds it. -/
def NoSelfDeadlock (t : List Row) : Prop := noReacquire "" .none t = true
instance (t : List Row) : Decidable (NoSelfDeadlock t) := inferInstanceAs (Decidable (_ = _))

/-- Every method returns with `db.mu` released, except `DB.NewBatch` (returns holding it by
design) and the `Batch.*` methods other than `Commit` (they run inside the batch section).  In
`Batch.Commit` the early `ErrBatchCommitted` return — the very first row of the method, an error
return — is the only one allowed to keep the walker's entry state: on that path the batch is
already committed and the lock is not held. -/
def releasedAtReturnB (t : List Row) : Bool :=
  t.all fun r =>
    !isRet r.action || r.mode == .none ||
    r.method == "DB.NewBatch" || r.method == "Batch.Put" || r.method == "Batch.Get" ||
    r.method == "Batch.Delete" ||
    (r.method == "Batch.Commit" && r.ord == 0 && r.action == "retErr")

def ReleasedAtReturn (t : List Row) : Prop := releasedAtReturnB t = true
instance (t : List Row) : Decidable (ReleasedAtReturn t) := inferInstanceAs (Decidable (_ = _))

/-- Lock order.  `db.mu` is only ever taken by `DB`/`Batch`/`Iterator` methods; the shard locks
only inside `ShardedIndex` methods, which cannot name `db.mu` (package `index` does not import the
engine).  So the lock order is `db.mu → shard lock` provided the shard methods take one shard lock
at a time and perform nothing but shard-local actions while holding it: every row of the shard
table is in the shard vocabulary and no shard method acquires a shard lock while holding one. -/
def shardLocksLeafB (t : List Row) : Bool :=
  (t.all fun r => shardWriteActs.contains r.action || shardReadActs.contains r.action ||
                  shardNeutralActs.contains r.action) &&
  noReacquire "" .none t &&
  (t.all fun r => !isRet r.action || r.mode == .none)

def ShardLocksLeaf (t : List Row) : Prop := shardLocksLeafB t = true
instance (t : List Row) : Decidable (ShardLocksLeaf t) := inferInstanceAs (Decidable (_ = _))

/-! ## C16: the directory lock is released on every failing path of `Open`, and by `Close` -/

/-- One pass over the rows of `Open`.  `seen`: the `flockTry` row has been met; `released`: a
`flockRelease` row has been met since the previous return row; `grace`: number of return rows
still accepted as "the acquisition itself failed" (see `ReleasesOnError`). -/
def releasesGo (graceInit : Nat) : Bool → Bool → Nat → List Row → Bool
  | seen, _, _, [] => seen
  | seen, released, grace, r :: rest =>
    if r.action == "flockTry" then releasesGo graceInit true false graceInit rest
    else if r.action == "flockRelease" then releasesGo graceInit seen true 0 rest
    else if isRet r.action then
      (!(r.action == "retErr" && seen) || released || grace != 0) &&
      releasesGo graceInit seen false (grace - 1) rest
    else releasesGo graceInit seen released 0 rest

def openRows (t : List Row) : List Row := t.filter fun r => r.method == "Open"

/-- The literal reading: EVERY `retErr` row of `Open` after the `flockTry` row is preceded, since
the previous return row, by a `flockRelease` row. -/
def ReleasesOnErrorStrict (t : List Row) : Prop := releasesGo 0 false false 0 (openRows t) = true
instance (t : List Row) : Decidable (ReleasesOnErrorStrict t) := inferInstanceAs (Decidable (_ = _))

/-- As `ReleasesOnErrorStrict`, except that the (at most two) return rows that follow the
`flockTry` row IMMEDIATELY — no other action in between — need no release: they are the two ways
`hold, err := fileLock.TryLock()` can fail (`err != nil`; `!hold`), and on those paths the lock
was not acquired, so there is nothing to release (releasing would even be wrong: it would drop
the lock file of the process that holds it).  A third immediate return, or a return after any
other action, is subject to the rule.  The table must contain a `flockTry` row in `Open`. -/
def ReleasesOnError (t : List Row) : Prop := releasesGo 2 false false 0 (openRows t) = true
instance (t : List Row) : Decidable (ReleasesOnError t) := inferInstanceAs (Decidable (_ = _))

/-- rows violating the rule, for reports -/
def unreleasedRows (graceInit : Nat) : Bool → Bool → Nat → List Row → List Row
  | _, _, _, [] => []
  | seen, released, grace, r :: rest =>
    if r.action == "flockTry" then unreleasedRows graceInit true false graceInit rest
    else if r.action == "flockRelease" then unreleasedRows graceInit seen true 0 rest
    else if isRet r.action then
      (if !(r.action == "retErr" && seen) || released || grace != 0 then [] else [r]) ++
      unreleasedRows graceInit seen false (grace - 1) rest
    else unreleasedRows graceInit seen released 0 rest

/-- `DB.Close` releases the directory lock before every return (also the failing ones). -/
def closeReleasesGo : Bool → Bool → List Row → Bool
  | anyRet, _, [] => anyRet
  | anyRet, released, r :: rest =>
    if r.action == "flockRelease" then closeReleasesGo anyRet true rest
    else if isRet r.action then released && closeReleasesGo true false rest
    else closeReleasesGo anyRet released rest

def CloseReleases (t : List Row) : Prop :=
  closeReleasesGo false false (t.filter fun r => r.method == "DB.Close") = true
instance (t : List Row) : Decidable (CloseReleases t) := inferInstanceAs (Decidable (_ = _))

/-- actions of `DB.Close` that still work on the directory's files -/
def fileWork : List String := ["closeFile", "fsync", "append", "appendAll", "fsRename", "fsRemove", "fsRemoveAll"]

def closeOrderGo : Bool → List Row → Bool
  | _, [] => true
  | released, r :: rest =>
    if r.action == "flockRelease" then closeOrderGo true rest
    else if isRet r.action then closeOrderGo false rest
    else if released && fileWork.contains r.action then false
    else closeOrderGo released rest

/-- In `DB.Close` the directory lock is released LAST: on no path does an action that still works on
the files (closing / syncing a data file) follow the `flockRelease`.  Otherwise another process
could open the directory while the closing one still has every file open (and, under mmap, is
about to truncate them). -/
def CloseReleasesLast (t : List Row) : Prop :=
  closeOrderGo false (t.filter fun r => r.method == "DB.Close") = true
instance (t : List Row) : Decidable (CloseReleasesLast t) := inferInstanceAs (Decidable (_ = _))

/-- the configuration of the directory-lock model (`Model/DirLock.lean`) that the table stands for -/
def dirLockCfg (t : List Row) : XixiKV.DirLock.Cfg :=
  { releasesOnError := decide (ReleasesOnError t), closeReleases := decide (CloseReleases t) }

end XixiKV.Lockset
