import XixiKV.Model.Frame
/-!
# The file-I/O layer  (mirrors `fio/read_writer.go`, `fio/file_io.go`, `fio/mmap.go`)

Two back-ends implement `fio.ReadWriter` over one OS file:

* `FileIO` — an `os.File` opened `O_APPEND`: `Write` appends, `Read` = `ReadAt`, `Size` = `fstat`,
  `Truncate` = `ftruncate`, `Close` = `Sync` + close.
* `MMap`   — a mapping `[0, endOff)` of the file; `endOff` is a multiple of the block size `B`
  (512 MiB in Go) and the file is *physically extended* (with zeros) to `endOff`; the logical size
  is `virtualSize` (`virt`).  `ResetFileSize` (used by `Backup`) and `Close` unmap and cut the file
  back to `virt`.

Go                               ↦ here
* `os.File` content              ↦ `OsFile.bytes` (its length is the physical size)
* `(*os.File).Truncate`          ↦ `OsFile.ftruncate`
* `copy(activeMap[o:o+len], b)`  ↦ `store bytes o b`, guarded by `MMap.canTouch`
* `NewMMap` / `remap`            ↦ `MMap.open` / `MMap.remap`
* `Read/Write/Sync/Size/Truncate/ResetFileSize/Close` ↦ the functions of the same name

What a memory access can do wrong is one outcome `Res.fault`: slicing `activeMap[a:b]` beyond the
length of the mapping (a `nil` slice has length 0) panics, and touching a mapped byte that lies
beyond the physical end of the file is SIGBUS (beyond the last page) or a store that never reaches
the file (inside the last page).  The state after a fault is irrelevant (the process is gone).
Durability (`msync`/`fsync`) is not part of this model: `sync` changes nothing here.
-/
namespace XixiKV.Fio
open XixiKV.Frame (zeros)

structure OsFile where
  bytes : ByteArray

/-- `ftruncate(2)`: cut, or extend with zeros -/
def OsFile.ftruncate (f : OsFile) (n : Nat) : OsFile :=
  if n ≤ f.bytes.size then ⟨f.bytes.extract 0 n⟩ else ⟨f.bytes ++ zeros (n - f.bytes.size)⟩

/-- overwrite `[o, o + b.size)` (callers make sure that the range lies inside `bytes`) -/
def store (bytes : ByteArray) (o : Nat) (b : ByteArray) : ByteArray :=
  bytes.extract 0 o ++ b ++ bytes.extract (o + b.size) bytes.size

/-- result of one call.  `data b eof`: `Read` delivered the bytes `b`, `eof` = "the error is `io.EOF`" -/
inductive Res where
  | ok
  | n (k : Nat)                        -- `Write`: bytes written
  | data (b : ByteArray) (eof : Bool)
  | size (n : Nat)
  | fault                              -- panic / SIGBUS / lost store (see above)
  | err                                -- call on a closed handle
deriving DecidableEq

/-- what a caller that only looks at the delivered bytes sees (the two back-ends differ in when they
    report `io.EOF`: `ReadAt` on every short read, `MMap.Read` exactly when `off ≥ virtualSize`) -/
def Res.obs : Res → Res
  | .data b _ => .data b false
  | r => r

inductive Op where
  | write (b : ByteArray)
  | read (off len : Nat)
  | sync
  | resetFileSize
  | truncate (n : Nat)
  | size

/-- run a list of calls, collecting the results -/
def runWith {σ : Type} (step : σ → Op → σ × Res) (s : σ) : List Op → σ × List Res
  | [] => (s, [])
  | op :: rest =>
    let r := step s op
    let t := runWith step r.1 rest
    (t.1, r.2 :: t.2)

/-! ## `FileIO` -/

structure FileIO where
  os : OsFile
  closed : Bool := false

namespace FileIO

def «open» (f : OsFile) : FileIO := { os := f }

/-- `O_APPEND`: every write goes to the current end of the file -/
def write (s : FileIO) (b : ByteArray) : FileIO × Res :=
  ({ s with os := ⟨s.os.bytes ++ b⟩ }, .n b.size)

/-- `ReadAt`: the bytes available in `[off, off+len)`; `io.EOF` iff fewer than `len` -/
def read (s : FileIO) (off len : Nat) : FileIO × Res :=
  let d := s.os.bytes.extract off (off + len)
  (s, .data d (d.size < len))

def size (s : FileIO) : FileIO × Res := (s, .size s.os.bytes.size)
def sync (s : FileIO) : FileIO × Res := (s, .ok)
def truncate (s : FileIO) (n : Nat) : FileIO × Res := ({ s with os := s.os.ftruncate n }, .ok)
def close (s : FileIO) : FileIO × Res := if s.closed then (s, .err) else ({ s with closed := true }, .ok)

/-- `resetFileSize` is not part of the interface (`Backup` calls it on `*fio.MMap` only): no-op -/
def apply (s : FileIO) (op : Op) : FileIO × Res :=
  if s.closed then (s, .err) else
  match op with
  | .write b => s.write b
  | .read off len => s.read off len
  | .sync => s.sync
  | .resetFileSize => (s, .ok)
  | .truncate n => s.truncate n
  | .size => s.size

/-- open, the calls, `Close` -/
def run (f : OsFile) (ops : List Op) : FileIO × List Res :=
  let t := runWith apply (FileIO.open f) ops
  let c := t.1.close
  (c.1, t.2 ++ [c.2])

end FileIO

/-! ## `MMap` -/

structure MMap where
  os : OsFile
  mapped : Bool       -- `activeMap != nil`
  endOff : Nat
  virt : Nat          -- `virtualSize`
  closed : Bool := false

/-- `((n + blockSize - 1) / blockSize) * blockSize` -/
def roundUp (B n : Nat) : Nat := (n + B - 1) / B * B

namespace MMap

/-- `len(activeMap)` -/
def mapLen (m : MMap) : Nat := if m.mapped then m.endOff else 0

/-- may the program touch `activeMap[a:b]`?  The slice must exist, and a non-empty range must lie
    inside the physical file. -/
def canTouch (m : MMap) (a b : Nat) : Bool := b ≤ m.mapLen && (a == b || b ≤ m.os.bytes.size)

def remap (B : Nat) (m : MMap) (newBase dataSize : Nat) : MMap :=
  if newBase + dataSize ≤ m.endOff then m
  else
    let e := roundUp B (newBase + dataSize)
    { m with endOff := e,
             os := if m.os.bytes.size < e then m.os.ftruncate e else m.os,
             mapped := true }

def «open» (B : Nat) (f : OsFile) : MMap :=
  remap B { os := f, mapped := false, endOff := 0, virt := f.bytes.size } f.bytes.size B

def read (B : Nat) (m : MMap) (off len : Nat) : MMap × Res :=
  if off ≥ m.virt then (m, .data ByteArray.empty true)
  else
    let m := m.remap B off len
    let e := min (off + len) m.virt
    if m.canTouch off e then (m, .data (m.os.bytes.extract off e) false) else (m, .fault)

def write (B : Nat) (m : MMap) (b : ByteArray) : MMap × Res :=
  let m := m.remap B m.virt b.size
  if m.canTouch m.virt (m.virt + b.size) then
    ({ m with os := ⟨store m.os.bytes m.virt b⟩, virt := m.virt + b.size }, .n b.size)
  else (m, .fault)

def sync (m : MMap) : MMap × Res := (m, .ok)
def size (m : MMap) : MMap × Res := (m, .size m.virt)

/-- flush, unmap, `endOff = 0`, cut the file to the logical size -/
def resetFileSize (m : MMap) : MMap × Res :=
  ({ m with mapped := false, endOff := 0, os := m.os.ftruncate m.virt }, .ok)

/-- `ResetFileSize` before the repair: the file is cut but the mapping stays -/
def resetFileSizeOld (m : MMap) : MMap × Res :=
  ({ m with os := m.os.ftruncate m.virt }, .ok)

/-- only the logical size changes; the discarded range is zeroed in the mapping -/
def truncate (B : Nat) (m : MMap) (n : Nat) : MMap × Res :=
  if n ≥ m.virt then (m, .ok)
  else
    let m := m.remap B n (m.virt - n)
    if m.canTouch n m.virt then
      ({ m with os := ⟨store m.os.bytes n (zeros (m.virt - n))⟩, virt := n }, .ok)
    else (m, .fault)

def close (m : MMap) : MMap × Res :=
  if m.closed then (m, .err) else ({ m.resetFileSize.1 with closed := true }, .ok)

def apply (B : Nat) (m : MMap) (op : Op) : MMap × Res :=
  if m.closed then (m, .err) else
  match op with
  | .write b => m.write B b
  | .read off len => m.read B off len
  | .sync => m.sync
  | .resetFileSize => m.resetFileSize
  | .truncate n => m.truncate B n
  | .size => m.size

def run (B : Nat) (f : OsFile) (ops : List Op) : MMap × List Res :=
  let t := runWith (apply B) (MMap.open B f) ops
  let c := t.1.close
  (c.1, t.2 ++ [c.2])

end MMap

/-! ## Sparse view of an `MMap`  (for execution)

Every reachable `MMap` file is `data ++ zeros (phys - data.size)` with `data` the logical content
(`Proofs/Fio.lean`, `Sparse.abs_apply`).  `Sparse` keeps `data` and the number `phys` instead of the
(512 MiB-granular) zero tail, so the driver does not have to allocate it. -/

structure Sparse where
  data : ByteArray    -- the first `virt` bytes
  phys : Nat          -- physical size of the OS file
  mapped : Bool
  endOff : Nat
  closed : Bool := false

namespace Sparse

def abs (s : Sparse) : MMap :=
  { os := ⟨s.data ++ zeros (s.phys - s.data.size)⟩, mapped := s.mapped, endOff := s.endOff,
    virt := s.data.size, closed := s.closed }

def remap (B : Nat) (s : Sparse) (newBase dataSize : Nat) : Sparse :=
  if newBase + dataSize ≤ s.endOff then s
  else
    let e := roundUp B (newBase + dataSize)
    { s with endOff := e, phys := max s.phys e, mapped := true }

def «open» (B : Nat) (f : OsFile) : Sparse :=
  remap B { data := f.bytes, phys := f.bytes.size, mapped := false, endOff := 0 } f.bytes.size B

def read (B : Nat) (s : Sparse) (off len : Nat) : Sparse × Res :=
  if off ≥ s.data.size then (s, .data ByteArray.empty true)
  else (s.remap B off len, .data (s.data.extract off (min (off + len) s.data.size)) false)

def write (B : Nat) (s : Sparse) (b : ByteArray) : Sparse × Res :=
  ({ s.remap B s.data.size b.size with data := s.data ++ b }, .n b.size)

def resetFileSize (s : Sparse) : Sparse × Res :=
  ({ s with mapped := false, endOff := 0, phys := s.data.size }, .ok)

def truncate (B : Nat) (s : Sparse) (n : Nat) : Sparse × Res :=
  if n ≥ s.data.size then (s, .ok)
  else ({ s.remap B n (s.data.size - n) with data := s.data.extract 0 n }, .ok)

def close (s : Sparse) : Sparse × Res :=
  if s.closed then (s, .err) else ({ s.resetFileSize.1 with closed := true }, .ok)

def apply (B : Nat) (s : Sparse) (op : Op) : Sparse × Res :=
  if s.closed then (s, .err) else
  match op with
  | .write b => s.write B b
  | .read off len => s.read B off len
  | .sync => (s, .ok)
  | .resetFileSize => s.resetFileSize
  | .truncate n => s.truncate B n
  | .size => (s, .size s.data.size)

end Sparse

end XixiKV.Fio
