import XixiKV.Model.ConcMerge
/-!
# Durability in the concurrent merge model   (C06: writes that race with a Merge survive a power
failure after it; DESIGN.md §11.7 item 8, Go commit 3a671fe)

`Model/ConcMerge.lean` has no notion of stable storage.  This file wraps its state `GM` with

* `synced : Nat` — the durability frontier: the length of the prefix of the (append-only) log that
  is on stable storage.  Everything below it survives a power failure, nothing above it is
  guaranteed to;
* `flushed : Bool` — the merging goroutine has executed its pre-marker flush (program counter of
  `DB.Merge` between the flush section and the marker write).

| Go | here |
|---|---|
| `DB.Sync()`, `SyncStrategy` Always / threshold inside `appendLogRecord`, the flush of the old active file at a rotation, the page cache writing back on its own | `sync`: `synced := |log|`, enabled at any time for anybody (a superset of the schedules of the code) |
| `Merge`: `db.mu.Lock(); … db.sync(); nonMergeFileId := …; db.mu.Unlock()` | `mstart`: as `ConcMerge.StepM.mstart`, and `synced := |log| = n` |
| `Merge`, after closing (= flushing) every rewritten file and the hint file: `db.mu.Lock(); db.activeFile.Sync(); db.bytesWrite = 0; db.mu.Unlock()` (the repair 3a671fe) | `mflush`: exists only when `flushBeforeMarker = true`; needs `db.mu` free; `synced := |log|`, `flushed := true` |
| `Merge`: create, write and close the completion marker (NOT under `db.mu`) | `mfinish`: when `flushBeforeMarker = true` it needs `flushed = true` (program order); clients may run between `mflush` and `mfinish` |
| power failure, then `Open` (adopting a finished merge) | `afterPowerFailure`: finished merge `(n, out)`: `out ++ (log.drop n).take (synced - n)`; otherwise `log.take synced` |

"`mfinish` first sets `synced := |log|`" is thus two steps, `mflush` then `mfinish`, because the code
releases `db.mu` before it writes the marker; the atomic reading is the schedule in which the two
steps are adjacent.  The merge output is durable at `mfinish` (every output file is closed, hence
flushed, before the marker is created), so `out` appears unconditionally in `afterPowerFailure`.

`flushBeforeMarker = false` is the code before 3a671fe: no `mflush`, `mfinish` unconditional.
-/
namespace XixiKV.ConcMergeDur
open XixiKV.Conc XixiKV.ConcMerge

structure GD where
  a : GM
  /-- length of the log prefix on stable storage -/
  synced : Nat
  /-- the merging goroutine is past its pre-marker flush -/
  flushed : Bool

def initD : GD := { a := initM, synced := 0, flushed := false }

inductive StepD (sh : Shape) (startInLock flushBeforeMarker : Bool) : GD → GD → Prop
  | base (g g' : G) (m : MSt) (s : Nat) (fl : Bool) : Step sh g g' →
      StepD sh startInLock flushBeforeMarker ⟨⟨g, m⟩, s, fl⟩ ⟨⟨g', m⟩, s, fl⟩
  | sync (g : G) (m : MSt) (s : Nat) (fl : Bool) :
      StepD sh startInLock flushBeforeMarker ⟨⟨g, m⟩, s, fl⟩ ⟨⟨g, m⟩, g.log.length, fl⟩
  | mstart (g : G) (m : MSt) (todo : List Nat) (s : Nat) (fl : Bool) :
      m.canStart = true → (startInLock = true → g.writer = none) →
      todo.Perm (List.range g.log.length) →
      StepD sh startInLock flushBeforeMarker ⟨⟨g, m⟩, s, fl⟩
        ⟨⟨g, .scanning g.log.length todo []⟩, g.log.length, false⟩
  | mvisit (g : G) (n i : Nat) (todo : List Nat) (out : List Rec) (s : Nat) (fl : Bool) :
      StepD sh startInLock flushBeforeMarker ⟨⟨g, .scanning n (i :: todo) out⟩, s, fl⟩
        ⟨⟨g, .scanning n todo (visit g i out)⟩, s, fl⟩
  | mflush (g : G) (n : Nat) (out : List Rec) (s : Nat) (fl : Bool) :
      flushBeforeMarker = true → g.writer = none →
      StepD sh startInLock flushBeforeMarker ⟨⟨g, .scanning n [] out⟩, s, fl⟩
        ⟨⟨g, .scanning n [] out⟩, g.log.length, true⟩
  | mfinish (g : G) (n : Nat) (out : List Rec) (s : Nat) (fl : Bool) :
      (flushBeforeMarker = true → fl = true) →
      StepD sh startInLock flushBeforeMarker ⟨⟨g, .scanning n [] out⟩, s, fl⟩ ⟨⟨g, .done n out⟩, s, fl⟩
  | mabort (g : G) (n : Nat) (todo : List Nat) (out : List Rec) (s : Nat) (fl : Bool) :
      StepD sh startInLock flushBeforeMarker ⟨⟨g, .scanning n todo out⟩, s, fl⟩ ⟨⟨g, .idle⟩, s, fl⟩

inductive ReachableD (sh : Shape) (startInLock flushBeforeMarker : Bool) : GD → Prop
  | init : ReachableD sh startInLock flushBeforeMarker initD
  | step {a b} : ReachableD sh startInLock flushBeforeMarker a →
      StepD sh startInLock flushBeforeMarker a b → ReachableD sh startInLock flushBeforeMarker b

/-- the log a restart replays after a power failure in state `d`: a finished merge is adopted
(its output replaces everything below the boundary; of the records above the boundary only the
flushed ones are left), an unfinished or abandoned one is ignored -/
def afterPowerFailure (d : GD) : List Rec :=
  match d.a.m with
  | .done n out => out ++ (d.a.g.log.drop n).take (d.synced - n)
  | _ => d.a.g.log.take d.synced

/-- the same with an arbitrary survivor frontier `j` (`synced ≤ j ≤ |log|`): the page cache may have
written back more than what was explicitly flushed; the active file is the only one with unflushed
records (a rotation flushes the file it retires) and a hole in it ends the replay, so the survivors
are a prefix.  `afterPowerFailure d = afterPowerFailureAt d d.synced`. -/
def afterPowerFailureAt (d : GD) (j : Nat) : List Rec :=
  match d.a.m with
  | .done n out => out ++ (d.a.g.log.drop n).take (j - n)
  | _ => d.a.g.log.take j

/-! ## executable form (forced schedules) -/

inductive LabelD
  | m (l : LabelM)
  | sync
  | mflush
deriving Repr

def nextD (sh : Shape) (startInLock flushBeforeMarker : Bool) (d : GD) : LabelD → Option GD
  | .m (.mstart todo) =>
    (nextM sh startInLock d.a (.mstart todo)).map fun a' => ⟨a', d.a.g.log.length, false⟩
  | .m .mfinish =>
    if flushBeforeMarker = false ∨ d.flushed = true then
      (nextM sh startInLock d.a .mfinish).map fun a' => ⟨a', d.synced, d.flushed⟩
    else none
  | .m l => (nextM sh startInLock d.a l).map fun a' => ⟨a', d.synced, d.flushed⟩
  | .sync => some ⟨d.a, d.a.g.log.length, d.flushed⟩
  | .mflush =>
    match d.a.m with
    | .scanning _ [] _ =>
      if flushBeforeMarker = true ∧ d.a.g.writer = none then some ⟨d.a, d.a.g.log.length, true⟩ else none
    | _ => none

def execD (sh : Shape) (startInLock flushBeforeMarker : Bool) : List LabelD → GD → Option GD
  | [], d => some d
  | l :: rest, d => (nextD sh startInLock flushBeforeMarker d l).bind (execD sh startInLock flushBeforeMarker rest)

end XixiKV.ConcMergeDur
