import XixiKV.Model.Engine
/-!
# Batches, merge, backup, database-level iterators  (mirrors `batch.go`, `merge.go`, `iterator.go`,
`DB.Backup` at /repo HEAD)
-/
namespace XixiKV.Engine
open XixiKV.Frame XixiKV.Record XixiKV.Index

def maxFinRecord : Nat := 70

def findStaged (l : List Staged) (k : ByteArray) : Option Staged := l.find? (·.key = k)

/-- decimal ASCII of the batch id (`snowflake.ID.Bytes`) -/
def idBytes (n : Nat) : ByteArray := (toString n).toUTF8

/-- the index / counter update loop at the end of `flushStaged` for one staged record -/
def applyStaged (db : DB) (r : Staged) (pos : Pos) : DB :=
  let db := { db with total := db.total + pos.size }
  let old := Index.get db.index r.key
  let db := if r.typ = 1 then { db with index := Index.erase db.index r.key, reclaim := db.reclaim + pos.size }
            else { db with index := Index.put db.index r.key pos }
  match old with
  | some o => { db with reclaim := db.reclaim + o.size }
  | none => db

/-- `flushStaged` -/
def flushStaged (s : St) (db : DB) (b : BatchSt) : St × DB × BatchSt :=
  let af := activeFile s db
  let (s, db) :=
    if !b.staged.isEmpty ∧ af.bytes.size > 0 ∧ af.bytes.size + b.cached + maxFinRecord > db.cfg.fileSize
    then rotate s db else (s, db)
  let af := activeFile s db
  let payloads := b.staged.map (fun r => encodeRecord { typ := r.typ, key := r.key, value := r.value, batch := b.id })
  let poss := posAll C db.activeId af.bytes payloads
  let bytes := appendAll C af.bytes payloads
  let s := putFile s db db.activeId { bytes := bytes, synced := if b.sync then bytes.size else af.synced }
  let db := (b.staged.zip poss).foldl (fun db (x : Staged × Pos) => applyStaged db x.1 x.2) db
  (s, db, { b with staged := [], cached := 0 })

/-- `flushStagedAndUpdateFile` -/
def flushAndRotate (s : St) (db : DB) (b : BatchSt) : St × DB × BatchSt :=
  let (s, db, b) := flushStaged s db b
  let (s, db) := rotate s db
  (s, db, b)

def withBatch (s : St) (f : DB → BatchSt → St × Res) : St × Res :=
  match s.db with
  | none => (s, .err "not-open")
  | some db =>
    match db.batch with
    | none => (s, .err "no-batch")
    | some b => f db b

def bnew (s : St) (sync : Bool) (id : Nat) : St × Res :=
  withDB s fun db =>
    ({ s with db := some { db with batch := some { staged := [], sync := sync, id := id, cached := 0, committed := false } } }, .ok)

def bput (s : St) (k v : ByteArray) : St × Res :=
  withBatch s fun db b =>
    if k.size = 0 then (s, .err "keyempty") else
    if b.committed then (s, .err "committed") else
    match findStaged b.staged k with
    | none =>
      let size := diskSizeEstimate k.size v.size
      let (s, db, b) := if b.cached + size + maxFinRecord > db.cfg.fileSize then flushAndRotate s db b else (s, db, b)
      let b := { b with cached := b.cached + size, staged := b.staged ++ [{ typ := 0, key := k, value := v }] }
      ({ s with db := some { db with batch := some b } }, .ok)
    | some r =>
      let oldSize := diskSizeEstimate r.key.size r.value.size
      let newSize := diskSizeEstimate k.size v.size
      if b.cached + newSize + maxFinRecord > db.cfg.fileSize + oldSize then
        let (s, db, b) := flushAndRotate s db b
        let b := { b with cached := b.cached + newSize, staged := b.staged ++ [{ typ := 0, key := k, value := v }] }
        ({ s with db := some { db with batch := some b } }, .ok)
      else
        let staged := b.staged.map (fun x => if x.key = k then { x with typ := 0, value := v } else x)
        let b := { b with cached := b.cached + newSize - oldSize, staged := staged }
        ({ s with db := some { db with batch := some b } }, .ok)

def bget (s : St) (k : ByteArray) : St × Res :=
  withBatch s fun db b =>
    if k.size = 0 then (s, .err "keyempty") else
    if b.committed then (s, .err "committed") else
    match findStaged b.staged k with
    | some r => if r.typ = 1 then (s, .notFound) else (s, .val r.value)
    | none =>
      match Index.get db.index k with
      | none => (s, .notFound)
      | some p => (s, valueAt s db p)

def bdel (s : St) (k : ByteArray) : St × Res :=
  withBatch s fun db b =>
    if k.size = 0 then (s, .err "keyempty") else
    if b.committed then (s, .err "committed") else
    match findStaged b.staged k with
    | some r =>
      let staged := b.staged.map (fun x => if x.key = k then { x with typ := 1, value := ByteArray.empty } else x)
      let b := { b with cached := b.cached + r.value.size, staged := staged }
      ({ s with db := some { db with batch := some b } }, .ok)
    | none =>
      match Index.get db.index k with
      | none => (s, .ok)
      | some _ =>
        let size := diskSizeEstimate k.size 0
        let (s, db, b) := if b.cached + size + maxFinRecord > db.cfg.fileSize then flushAndRotate s db b else (s, db, b)
        let b := { b with cached := b.cached + size, staged := b.staged ++ [{ typ := 1, key := k, value := ByteArray.empty }] }
        ({ s with db := some { db with batch := some b } }, .ok)

def bcommit (s : St) : St × Res :=
  withBatch s fun db b =>
    if b.committed then (s, .err "committed") else
    let b := { b with committed := true }
    if b.staged.isEmpty then ({ s with db := some { db with batch := some b } }, .ok) else
    let (s, db, b) := flushStaged s db b
    -- the sealing record, written without a rotation check
    let af := activeFile s db
    let payload := encodeRecord { typ := 2, key := idBytes b.id, value := ByteArray.empty, batch := b.id }
    let pos := posOf C db.activeId af.bytes.size payload
    let bytes := appendRec C af.bytes payload
    let s := putFile s db db.activeId { bytes := bytes, synced := if b.sync then bytes.size else af.synced }
    let db := { db with total := db.total + pos.size, reclaim := db.reclaim + pos.size, batch := some b }
    ({ s with db := some db }, .ok)

def bdrop (s : St) : St × Res :=
  withDB s fun db => ({ s with db := some { db with batch := none } }, .ok)

/-! ## Merge -/

structure MergeSt where
  mdb : DB                       -- the temporary DB writing into the merge directory
  hint : ByteArray               -- hint file content so far
  failed : Option String

/-- rewrite one record if it is still the live one -/
def mergeRec (s : St) (db : DB) (m : MergeSt) (nonMerge fileId : Nat) (payload : ByteArray) (pos : Pos) : St × MergeSt :=
  if m.failed.isSome then (s, m) else
  match decodeRecord payload with
  | none => (s, { m with failed := some "crc" })     -- `NextLogRecord`: `validLogRecord` fails
  | some rec =>
    match Index.get db.index rec.key with
    | none => (s, m)
    | some p =>
      if p.fid = fileId ∧ p.off = pos.off ∧ p.block = pos.block then
        let (s, mdb, npos) := appendLog s m.mdb { rec with batch := 0 }
        if mdb.activeId ≥ nonMerge then (s, { m with mdb := mdb, failed := some "mergeids" }) else
        (s, { m with mdb := mdb, hint := appendRec C m.hint (encodeHint rec.key npos) })
      else (s, m)

/-- `Merge`; `order` = the order in which the older files are visited (Go iterates a map) -/
def merge (s : St) (order : List Nat) : St × Res :=
  withDB s fun db =>
    let (s, db) := rotate s db
    let nonMerge := db.activeId
    let s := { s with db := some db }
    let mname := mergeDirName db.dir
    let w := (s.world.remove mname).set mname { DirSt.empty with data := [(0, ⟨ByteArray.empty, 0⟩)] }
    let s := { s with world := w }
    let mdb : DB := { cfg := { db.cfg with sync := 0 }, dir := mname, activeId := 0, index := [],
                      reclaim := 0, total := 0, bytesWrite := 0, batch := none }
    let d := dirOf s db
    let ids := order.filter (fun i => i < nonMerge ∧ (getFile d.data i).isSome)
    -- ids the harness did not report (should not happen) are appended in ascending order
    let ids := ids ++ (d.data.map (·.1)).filter (fun i => i < nonMerge ∧ !ids.contains i)
    let (s, m) := ids.foldl (fun (acc : St × MergeSt) id =>
      let (s, m) := acc
      if m.failed.isSome then (s, m) else
      match getFile (dirOf s db).data id with
      | none => (s, m)
      | some f =>
        let sc := scan C false id f.bytes
        let (s, m) := sc.recs.foldl (fun (acc : St × MergeSt) (x : ByteArray × Pos) =>
          mergeRec acc.1 db acc.2 nonMerge id x.1 x.2) (s, m)
        if !sc.ok ∧ m.failed.isNone then (s, { m with failed := some "crc" }) else (s, m))
      (s, { mdb := mdb, hint := ByteArray.empty, failed := none })
    match m.failed with
    | some e => (s, .err e)
    | none =>
      let md := (s.world.get mname).getD DirSt.empty
      let md := { md with data := md.data.map (fun (i, f) => (i, { f with synced := f.bytes.size })),
                          hint := some m.hint, marker := some (markerBytes nonMerge (m.mdb.activeId + 1)) }
      ({ s with world := s.world.set mname md }, .ok)

/-! ## Backup -/

def backup (s : St) (dest : String) : St × Res :=
  withDB s fun db =>
    let d := dirOf s db
    let old := (s.world.get dest).getD DirSt.empty
    -- the copy holds exactly the source's data files and hint file: what an earlier backup left in `dest` and the
    -- source no longer has is removed first (`removeStaleBackupFiles`), everything else is overwritten by `CopyDir`
    let data := d.data.map (fun (x : Nat × FileSt) => (x.1, { x.2 with synced := x.2.bytes.size }))
    -- a merge directory left next to `dest` by a database that used to live there is removed (`removeStaleMergeDir`):
    -- opening the copy must not adopt it
    -- (unless the data directory itself carries that name)
    let w := if mergeDirName dest = db.dir then s.world else s.world.remove (mergeDirName dest)
    ({ s with world := w.set dest { old with data := data, hint := d.hint } }, .ok)

/-! ## database-level iterator (abstract cursor over the sorted snapshot; the per-shard machinery
    is `Model/ShardIter.lean`) -/

structure Iter where
  items : List (ByteArray × Pos)     -- snapshot in iteration order
  cur : Nat
  pre : ByteArray
  rev : Bool

def hasPrefix (pre k : ByteArray) : Bool := pre.size ≤ k.size ∧ k.extract 0 pre.size = pre

def Iter.skip (it : Iter) : Iter :=
  if it.pre.size = 0 then it else
  { it with cur := it.cur + ((it.items.drop it.cur).takeWhile (fun x => !hasPrefix it.pre x.1)).length }

def iterNew (db : DB) (pre : ByteArray) (rev : Bool) : Iter :=
  Iter.skip { items := if rev then db.index.reverse else db.index, cur := 0, pre := pre, rev := rev }

def Iter.rewind (it : Iter) : Iter := Iter.skip { it with cur := 0 }
def Iter.next (it : Iter) : Iter := if it.cur < it.items.length then Iter.skip { it with cur := it.cur + 1 } else it
/-- `Seek` never moves backwards: nothing on an exhausted iterator, nothing when `k` lies before the
    current key in iteration order; otherwise the first item of the snapshot with key ≥ k (≤ k reversed) -/
def Iter.seek (it : Iter) (k : ByteArray) : Iter :=
  match it.items[it.cur]? with
  | none => it
  | some c =>
    if (if it.rev then keyLt c.1 k else keyLt k c.1) then it
    else
      let n := (it.items.takeWhile (fun x => if it.rev then keyLt k x.1 else keyLt x.1 k)).length
      Iter.skip { it with cur := n }

end XixiKV.Engine
