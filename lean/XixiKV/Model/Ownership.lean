/-!
# Ownership of byte slices across the API  (C15; `db.go` Put/Get/Delete, `batch.go` Put/Get/Delete/Commit,
# `index/btree.go` put, `index/skiplist.go` put, `db.go` putRecordToPool)

WHAT THIS MODEL IS FOR.  In Go a `[]byte` is a reference.  This model proves, at the level of
references, that the copy discipline is SUFFICIENT (if every parameter is copied and every returned
slice is fresh, nothing the caller does to its buffers afterwards can be observed, and the engine never
writes into them: `C15_noninterference`) and that each copy is NECESSARY (flip one flag and a short
call sequence shows a difference: `C15_needs_copies`).  It does NOT prove that the Go code follows the
discipline: Go's heap is not formalised.  That the code makes these copies (no aliasing in Go's heap) is
established by the differential scribble-mode runs of the C15 check (one key buffer and one value buffer
reused and overwritten after every return, canaries, every index type), not by this proof.
C15 is therefore claimed PARTIAL.

The model.  Buffers have identities and live in a `Heap`.  The engine holds every key / value either as
its OWN bytes (`.own b`: a copy nobody else can reach; the data file is of this kind) or as an ALIAS of a
heap buffer (`.ref id`: read through the heap each time it is used).  A `Policy` says for each parameter
and each returned slice which of the two the engine does.  Every call first lets the caller put the
argument bytes into the buffers it passes (`State.enter`; reusing one buffer for every call is simply
passing the same id again), then runs the engine's part (`engine`).  `scribble id b` is the adversarial
caller: it overwrites any buffer at any time between calls; a call sequence is an arbitrary list, so it
can name every buffer, including those handed out by `get` / `bget` (their ids are in the result).

Where the fixed code copies (flag = `true`):
* `putKeyCopied`            `index/btree.go put`, `index/skiplist.go put`: `append([]byte(nil), key...)`
                            (the map index copies through `string(key)`); also reached from batch commit
* `putValueCopied`          `db.go Put`: `append(logRecord.Value, value...)`, then the data file
* `batchPutKeyCopied`       `batch.go Put / Delete`: `append(logRecord.Key, key...)`
* `batchPutValueCopied`     `batch.go Put`, first put of a key: `append(logRecord.Value, value...)`
* `batchRewriteValueCopied` `batch.go Put`, key already staged: `append(logRecord.Value[:0], value...)`
                            (was `logRecord.Value = value`)
* `getReturnsFresh`         `datafile/log_record.go DecodeLogRecordValue`: `make` + `copy` into a new slice
* `batchGetReturnsFresh`    `batch.go Get`, staged hit: `append([]byte(nil), logRecord.Value...)`
                            (was `return logRecord.Value`)
* `poolMayWriteInto` (`false` = safe)  `putRecordToPool` keeps `Value[:0]`, i.e. the backing array; if
                            that array is the caller's, the next `DB.Put` appends into caller memory.
Not modelled: the automatic flush of a batch that outgrows the data file (same copies), errors, the
DB lock held by an open batch (here `put/get/delete` are simply allowed while records are staged).
-/
namespace XixiKV.Ownership

abbrev Bytes := ByteArray

/-- Buffer identities.  `arg n`: a buffer the caller allocated itself (any `n`, always exists).
    `ret i`: the `i`-th buffer the engine allocated (handed out by `get` / `bget`, or engine memory
    that an aliasing `get` exposed).  Two name spaces, so a new `ret` never collides with an `arg`. -/
inductive BufId where
  | arg (n : Nat)
  | ret (i : Nat)
  deriving DecidableEq, Repr

abbrev Heap := BufId → Bytes

def Heap.write (h : Heap) (id : BufId) (b : Bytes) : Heap := fun i => if i = id then b else h i

/-- how the engine holds a key or a value -/
inductive Slot where
  | own (b : Bytes)      -- private copy
  | ref (id : BufId)     -- alias of a heap buffer; dereferenced at read time
  deriving DecidableEq

def Slot.get (h : Heap) : Slot → Bytes
  | .own b => b
  | .ref id => h id

def Slot.isOwn : Slot → Bool
  | .own _ => true
  | .ref _ => false

/-- `true` = copied / fresh, except `poolMayWriteInto` where `false` is the safe setting -/
structure Policy where
  putKeyCopied : Bool := true
  putValueCopied : Bool := true
  batchPutKeyCopied : Bool := true
  batchPutValueCopied : Bool := true
  batchRewriteValueCopied : Bool := true
  getReturnsFresh : Bool := true
  batchGetReturnsFresh : Bool := true
  poolMayWriteInto : Bool := false
  deriving DecidableEq, Repr

/-- the all-copy policy: every parameter copied, every result fresh, the pool never aliases -/
def Policy.safe : Policy := {}

/-- every parameter is copied and every returned slice is fresh (the pool flag is left open) -/
def Policy.copies (p : Policy) : Bool :=
  p.putKeyCopied && p.putValueCopied && p.batchPutKeyCopied && p.batchPutValueCopied &&
  p.batchRewriteValueCopied && p.getReturnsFresh && p.batchGetReturnsFresh

/-- policy from a flag list (as produced by the check); a missing flag has its safe value -/
def policyOfFlags (fs : List (String × Bool)) : Policy :=
  let f (name : String) (dflt : Bool) : Bool := (fs.lookup name).getD dflt
  { putKeyCopied := f "putKeyCopied" true
    putValueCopied := f "putValueCopied" true
    batchPutKeyCopied := f "batchPutKeyCopied" true
    batchPutValueCopied := f "batchPutValueCopied" true
    batchRewriteValueCopied := f "batchRewriteValueCopied" true
    getReturnsFresh := f "getReturnsFresh" true
    batchGetReturnsFresh := f "batchGetReturnsFresh" true
    poolMayWriteInto := f "poolMayWriteInto" false }

structure State where
  heap : Heap := fun _ => ByteArray.empty
  next : Nat := 0                              -- `ret i` is allocated iff `i < next`
  store : List (Slot × Slot) := []             -- index + data files: key ↦ value
  staged : List (Slot × Option Slot) := []     -- `Batch.staged`; `none` = staged tombstone
  pool : Option BufId := none                  -- value space of the pooled record, if it is somebody's buffer

def init : State := {}

/-- a buffer that exists: every caller buffer, and every buffer the engine has handed out so far -/
def State.live (s : State) : BufId → Bool
  | .arg _ => true
  | .ret i => i < s.next

/-! ### finite maps whose keys are read through the heap -/

def lookup {α} (h : Heap) (l : List (Slot × α)) (k : Bytes) : Option α :=
  (l.find? fun e => e.1.get h == k).map (·.2)

def remove {α} (h : Heap) (l : List (Slot × α)) (k : Bytes) : List (Slot × α) :=
  l.filter fun e => e.1.get h != k

def setAt {α} (h : Heap) (l : List (Slot × α)) (k : Bytes) (a : α) : List (Slot × α) :=
  l.map fun e => if e.1.get h == k then (e.1, a) else e

/-- the abstract mapping, read through dereferencing -/
def abs (s : State) (k : Bytes) : Option Bytes := (lookup s.heap s.store k).map (·.get s.heap)

inductive Op where
  | put (kbuf : BufId) (k : Bytes) (vbuf : BufId) (v : Bytes)    -- `DB.Put`
  | get (kbuf : BufId) (k : Bytes)                               -- `DB.Get`
  | delete (kbuf : BufId) (k : Bytes)                            -- `DB.Delete`
  | bput (kbuf : BufId) (k : Bytes) (vbuf : BufId) (v : Bytes)   -- `Batch.Put`
  | bget (kbuf : BufId) (k : Bytes)                              -- `Batch.Get`
  | bdel (kbuf : BufId) (k : Bytes)                              -- `Batch.Delete`
  | bcommit                                                      -- `Batch.Commit`
  | scribble (id : BufId) (b : Bytes)                            -- the caller overwrites a buffer
  deriving DecidableEq

def Op.isScribble : Op → Bool
  | .scribble _ _ => true
  | _ => false

/-- results carry the returned bytes as they are at return time, and the identity of the buffer -/
inductive Res where
  | ok
  | notFound
  | val (id : BufId) (b : Bytes)
  deriving DecidableEq

/-- The caller's part of a step: it writes the argument bytes into the buffers it passes (value
    last, should it pass one buffer as both), or scribbles.  Nothing but `heap` changes. -/
def State.enter (s : State) : Op → State
  | .put kbuf k vbuf v | .bput kbuf k vbuf v => { s with heap := (s.heap.write kbuf k).write vbuf v }
  | .get kbuf k | .delete kbuf k | .bget kbuf k | .bdel kbuf k => { s with heap := s.heap.write kbuf k }
  | .scribble id b => { s with heap := s.heap.write id b }
  | .bcommit => s

/-- a parameter as the engine keeps it -/
def keep (copied : Bool) (h : Heap) (id : BufId) : Slot := if copied then .own (h id) else .ref id

/-- Hand the value `v` to the caller: the returned buffer, the slot the engine holds afterwards, the
    new state.  `fresh`: a newly allocated private copy.  Otherwise a reference to the engine's own
    memory (an `.own` value first moves into a new heap cell, so that it can be shared). -/
def hand (fresh : Bool) (s : State) (v : Slot) : BufId × Slot × State :=
  let new := BufId.ret s.next
  let s' := { s with heap := s.heap.write new (v.get s.heap), next := s.next + 1 }
  if fresh then (new, v, s') else
  match v with
  | .ref id => (id, v, s)
  | .own _ => (new, .ref new, s')

/-- `DB.Get`, also the path of `Batch.Get` for a key that is not staged -/
def dbGet (p : Policy) (s : State) (k : Bytes) : Res × State :=
  match lookup s.heap s.store k with
  | none => (.notFound, s)
  | some v =>
    let (id, v', s') := hand p.getReturnsFresh s v
    (.val id (v.get s.heap), { s' with store := setAt s.heap s.store k v' })

/-- index update of one record (`index.Put` copies the key iff `putKeyCopied`) -/
def apply (p : Policy) (h : Heap) (st : List (Slot × Slot)) (e : Slot × Option Slot) : List (Slot × Slot) :=
  match e.2 with
  | some v => ((if p.putKeyCopied then .own (e.1.get h) else e.1), v) :: remove h st (e.1.get h)
  | none => remove h st (e.1.get h)

/-- the value space that a staged record takes to the pool, if it is a heap buffer -/
def parked (sg : List (Slot × Option Slot)) : Option BufId :=
  sg.findSome? fun e => match e.2 with
    | some (.ref id) => some id
    | _ => none

/-- The engine's part of a step, entered with the arguments in the caller's buffers. -/
def engine (p : Policy) (s : State) : Op → Res × State
  | .put kbuf _ vbuf _ =>
    let v := s.heap vbuf
    -- `append(logRecord.Value, value...)` on the pooled record: writes into the parked buffer
    let heap := match s.pool with
      | some id => s.heap.write id v
      | none => s.heap
    (.ok, { s with heap := heap, store := apply p heap s.store (.ref kbuf, some (keep p.putValueCopied heap vbuf)) })
  | .get kbuf _ => dbGet p s (s.heap kbuf)
  | .delete kbuf _ => (.ok, { s with store := remove s.heap s.store (s.heap kbuf) })
  | .bput kbuf _ vbuf _ =>
    match lookup s.heap s.staged (s.heap kbuf) with
    | none => (.ok, { s with staged := s.staged ++
        [(keep p.batchPutKeyCopied s.heap kbuf, some (keep p.batchPutValueCopied s.heap vbuf))] })
    | some _ =>
      (.ok, { s with staged := setAt s.heap s.staged (s.heap kbuf) (some (keep p.batchRewriteValueCopied s.heap vbuf)) })
  | .bget kbuf _ =>
    let k := s.heap kbuf
    match lookup s.heap s.staged k with
    | some none => (.notFound, s)
    | some (some v) =>
      let (id, v', s') := hand p.batchGetReturnsFresh s v
      (.val id (v.get s.heap), { s' with staged := setAt s.heap s.staged k (some v') })
    | none => dbGet p s k
  | .bdel kbuf _ =>
    let k := s.heap kbuf
    match lookup s.heap s.staged k with
    | some _ => (.ok, { s with staged := setAt s.heap s.staged k none })
    | none =>
      match lookup s.heap s.store k with
      | none => (.ok, s)
      | some _ => (.ok, { s with staged := s.staged ++ [(keep p.batchPutKeyCopied s.heap kbuf, none)] })
  | .bcommit =>
    (.ok, { s with store := s.staged.foldl (apply p s.heap) s.store, staged := [],
                   pool := if p.poolMayWriteInto then (parked s.staged).or s.pool else s.pool })
  | .scribble _ _ => (.ok, s)

def step (p : Policy) (s : State) (op : Op) : Res × State := engine p (s.enter op) op

/-- results of the API calls (scribble steps have none) and the final state -/
def run (p : Policy) : State → List Op → List Res × State
  | s, [] => ([], s)
  | s, op :: ops =>
    let (r, s') := step p s op
    let (rs, s'') := run p s' ops
    (if op.isScribble then rs else r :: rs, s'')

/-- the same call sequence without the scribble steps -/
def unscribbled (ops : List Op) : List Op := ops.filter (!·.isScribble)

/-- some API result differs between the sequence and the same sequence without its scribble steps -/
def differs (p : Policy) (ops : List Op) : Bool := (run p init ops).1 != (run p init (unscribbled ops)).1

/-- what the caller alone writes: the heap after `ops` if the engine never wrote anything -/
def callerHeap (s : State) (ops : List Op) : Heap := (ops.foldl State.enter s).heap

/-- the invariant of the all-copy policy: the engine holds no alias at all -/
def State.noRef (s : State) : Bool :=
  s.store.all (fun e => e.1.isOwn && e.2.isOwn) &&
  s.staged.all (fun e => e.1.isOwn && e.2.all Slot.isOwn) && s.pool.isNone

end XixiKV.Ownership
