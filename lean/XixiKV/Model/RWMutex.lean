import XixiKV.Model.Lockset
/-!
# A generic `sync.RWMutex` interleaving semantics over programs made of table rows   (C09)

One mutex, an unbounded set of threads, an arbitrary scheduler (the step relation).  The program of
a thread is a list of rows of a lockset table — one straight-line PATH through a method, or several
paths one after the other (a batch session is `NewBatch · Batch.Put* · Commit`).  A classification
`cls : Row → Act` says what a row does: acquire / release the mutex in W or R mode, read or write
a shared location, or something else.  The same semantics is instantiated

* with `dbAct` for `db.mu` and the shared fields of `DB` (`Generated.locksetTable`), and
* with `shardAct` for one shard lock of the sharded index and that shard's container
  (`Generated.shardTable`).

`runsFrom cls fin m p` is the path-level reading of the table annotations: starting with the mutex
held in mode `m`, the program `p` never acquires while holding, only releases what it holds, every
other row is annotated with the mode actually held at that point, and the final mode satisfies
`fin`.  The table itself is a flattening of all paths of a method; that every concrete path is a
sub-list of the method's rows with the walker's annotations is the trusted part of the extractor
(see `Lockset.NoSelfDeadlock` for what can and cannot be re-checked on the flattening).
-/
namespace XixiKV.RWMutex
open XixiKV.Generated XixiKV.Lockset

abbrev Tid := Nat

inductive Act
  | acqW | acqR | relW | relR
  | read (f : String)
  | write (f : String)
  | other
deriving DecidableEq, Repr

/-- rows of `locksetTable`: `db.mu` and the shared fields of `DB` -/
def dbAct (r : Row) : Act :=
  match assoc writeActs r.action with
  | some f => .write f
  | none =>
    match assoc readActs r.action with
    | some f => .read f
    | none =>
      if r.action == "acqW" then .acqW else if r.action == "acqR" then .acqR
      else if r.action == "relW" then .relW else if r.action == "relR" then .relR
      else .other

/-- rows of `shardTable`: one shard lock and the container it protects -/
def shardAct (r : Row) : Act :=
  if shardWriteActs.contains r.action then .write "shard"
  else if shardReadActs.contains r.action then .read "shard"
  else if r.action == "acqW" then .acqW else if r.action == "acqR" then .acqR
  else if r.action == "relW" then .relW else if r.action == "relR" then .relR
  else .other

def Act.isLock : Act → Bool
  | .acqW | .acqR | .relW | .relR => true
  | _ => false

structure St where
  /-- holder in W mode -/
  writer : Option Tid
  /-- holders in R mode -/
  readers : Tid → Bool
  /-- remaining program of every thread (`[]` = idle) -/
  pc : Tid → List Row

def St.init : St := { writer := none, readers := fun _ => false, pc := fun _ => [] }

def upd {α} (f : Tid → α) (t : Tid) (a : α) : Tid → α := fun t' => if t' = t then a else f t'

/-- the mode in which thread `t` holds the mutex -/
def held (s : St) (t : Tid) : Mode :=
  if s.writer = some t then .W else if s.readers t = true then .R else .none

/-- the mode after row `r` when the mode before it is `cur`; `none` if `r` cannot be executed
consistently there (acquisition while holding, release of something not held, or an annotation that
differs from the mode actually held) -/
def follows (cls : Row → Act) (cur : Mode) (r : Row) : Option Mode :=
  match cls r with
  | .acqW => if cur = .none ∧ r.mode = .W then some .W else none
  | .acqR => if cur = .none ∧ r.mode = .R then some .R else none
  | .relW => if cur = .W then some .none else none
  | .relR => if cur = .R then some .none else none
  | _ => if r.mode = cur then some cur else none

def runsFrom (cls : Row → Act) (fin : Mode → Bool) : Mode → List Row → Bool
  | cur, [] => fin cur
  | cur, r :: rest =>
    match follows cls cur r with
    | some m => runsFrom cls fin m rest
    | none => false

structure Sys where
  cls : Row → Act
  /-- acceptable final modes of a program (`fun _ => true`: any; `(· == .none)`: released) -/
  fin : Mode → Bool
  /-- the programs a thread may start when it holds the mutex in the given mode -/
  prog : Mode → List Row → Prop
  /-- a property every row of an admissible program has (e.g. the lockset discipline) -/
  good : Row → Prop
  /-- extra admission condition of `RLock` (Go holds new readers back while a writer waits) -/
  pol : St → Tid → Prop

/-- `Step sys s t s'`: thread `t` makes one move -/
inductive Step (sys : Sys) : St → Tid → St → Prop
  | call (s : St) (t : Tid) (p : List Row) :
      s.pc t = [] → sys.prog (held s t) p →
      Step sys s t { s with pc := upd s.pc t p }
  | acqW (s : St) (t : Tid) (r : Row) (rest : List Row) :
      s.pc t = r :: rest → sys.cls r = .acqW →
      s.writer = none → (∀ t', s.readers t' = false) →
      Step sys s t { s with writer := some t, pc := upd s.pc t rest }
  | acqR (s : St) (t : Tid) (r : Row) (rest : List Row) :
      s.pc t = r :: rest → sys.cls r = .acqR →
      s.writer = none → sys.pol s t →
      Step sys s t { s with readers := upd s.readers t true, pc := upd s.pc t rest }
  | relW (s : St) (t : Tid) (r : Row) (rest : List Row) :
      s.pc t = r :: rest → sys.cls r = .relW →
      Step sys s t { s with writer := none, pc := upd s.pc t rest }
  | relR (s : St) (t : Tid) (r : Row) (rest : List Row) :
      s.pc t = r :: rest → sys.cls r = .relR →
      Step sys s t { s with readers := upd s.readers t false, pc := upd s.pc t rest }
  | act (s : St) (t : Tid) (r : Row) (rest : List Row) :
      s.pc t = r :: rest → (sys.cls r).isLock = false →
      Step sys s t { s with pc := upd s.pc t rest }

inductive Reachable (sys : Sys) : St → Prop
  | init : Reachable sys St.init
  | step {s s' t} : Reachable sys s → Step sys s t s' → Reachable sys s'

/-- two rows are conflicting accesses: same location, at least one a write -/
def Conflict (cls : Row → Act) (r1 r2 : Row) : Prop :=
  ∃ f, (cls r1 = .write f ∧ (cls r2 = .write f ∨ cls r2 = .read f)) ∨
       (cls r1 = .read f ∧ cls r2 = .write f)

/-- a thread whose next row is `Lock()` -/
def WriterWaiting (sys : Sys) (s : St) : Prop :=
  ∃ t r rest, s.pc t = r :: rest ∧ sys.cls r = .acqW

/-- rows of method `m` whose `ord` is in `ords`, in table order: a path through the method -/
def path (t : List Row) (m : String) (ords : List Nat) : List Row :=
  t.filter fun r => r.method == m && ords.contains r.ord

end XixiKV.RWMutex
