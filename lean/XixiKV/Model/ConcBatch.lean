import XixiKV.Model.Conc
/-!
# Batches inside the interleaving semantics   (C05 / C08 / C09)

`Model/Conc.lean` has `DB.Put / DB.Delete / DB.Get`; this file adds `DB.NewBatch · Batch.Put* /
Batch.Delete* · Batch.Commit` (`batch.go`) as a fourth kind of operation, run by one thread as one
"batch session".  `Model/Conc.lean` is not changed; its thread-id / key / value types, `upd`,
`updK` and `Res` are reused, everything else is restated here because the log records now carry a
batch tag and the state has more components.

## What is modelled (and at which granularity)

* `NewBatch` takes `db.mu` in W mode and `Commit` releases it, so a batch session is ONE W section.
* `Batch.Put / Batch.Delete` (`stage`): the staged records are kept per key (`findPendingRecord`):
  a `Put` of a staged key overwrites the staged record in place, a `Delete` of a staged key turns
  it into a tombstone in place, a `Delete` of an unstaged key that is not in the index is a no-op,
  every other operation adds a staged record at the end.
* EARLY FLUSH (`flushStagedAndUpdateFile → flushStaged`): in Go it happens when the size test
  `cachedDataSize + size + maxFinRecord > DataFileSize` fires, always immediately before a staged
  record is ADDED.  Here it is a nondeterministic choice (`Step.batFlushEarly`) enabled exactly in
  the three branches of `Batch.Put / Batch.Delete` that contain the size test.  The flush appends
  all staged records, tagged with the batch id, in ONE step (`activeFile.FlushStaged` is one
  write), and then updates `db.index` RECORD BY RECORD (`Step.batIndex`, one `index.Put` /
  `index.Delete` per step: the index is sharded and each call takes only its shard lock, so a
  concurrent `db.index.Get` can fall between two of them).
* `Commit`: nothing staged → just release (Go: `len(b.staged) == 0`; no sealing record — after an
  early flush the staged list is never empty, see `Proofs/ConcBatch.lean`, `BatchFacts.nonempty`);
  otherwise flush as above, then append the sealing record `fin b` (`LogRecordBatchFinished`) —
  the LINEARIZATION POINT of the batch — then release.
* `DB.Get` has the two phases it has in Go:
  1. `db.index.Get(key)`.  `Shape.getIdxGated` says whether this read sits inside an R section of
     `db.mu` (it is computed from the generated lockset table, `C08Batch.lean`: `true` for the
     current tree, `false` for the tree up to e7b2d7b, where the read happened WITHOUT `db.mu`
     and a miss returned `ErrKeyNotFound` at once, without ever touching `db.mu`).
  2. a hit is resolved by `getValueByPosition`, which passes through `db.mu.RLock()`: the step
     `getResolve` is enabled only while NO WRITER HOLDS `db.mu`.  (In `Model/Conc.lean`
     `getResolve` is a `Local` step that is enabled at any time, also while a writer holds the
     lock; that is harmless there because the log is append-only and every position in the index
     is final, but it is not faithful and it is NOT harmless with batches.)  The R section is
     collapsed into this one atomic step: all it does is read a position of the append-only log,
     which commutes with every other step, so holding R for longer yields no other results.
* Restart: `recovered log` replays the log with the parked-batch rule of `Engine.replayRec`
  (tag 0 = untagged: apply; tagged data record: park; `fin b`: apply the parked records of `b` in
  order and drop them).  The parked records are kept in one flat list here (`Engine` groups them by
  batch id; the order inside one batch is the same).

## Ghost state

`hist` as in `Model/Conc.lean`, plus a `flush` marker event for every flush (the staged records
it writes and the operations of the batch still to come).  `bstart` = log length at `NewBatch`
while a batch is open.  `waiters`: the `Get`s that have read from the index a position INSIDE the
open batch (≥ `bstart`); they cannot resolve before the batch commits, and their linearization
point is the commit: the commit step emits the batch's `lin` event followed by one `lin` event per
waiter.
-/
namespace XixiKV.ConcBatch
open XixiKV.Conc (Tid Key Val upd updK Res)

/-- shape flags of this model (those of `Conc.Shape` are fixed to `true`: the current tree) -/
structure Shape where
  /-- `DB.Get`: the index read `db.index.Get` happens inside an R section of `db.mu` -/
  getIdxGated : Bool
deriving DecidableEq, Repr

/-- the tree up to e7b2d7b: index read of `Get` outside `db.mu` -/
def Shape.asIs : Shape := ⟨false⟩
def Shape.gated : Shape := ⟨true⟩

/-- one operation of a batch: `(k, some v)` = `Batch.Put k v`, `(k, none)` = `Batch.Delete k` -/
abbrev BOp := Key × Option Val

/-- log records; `b = 0`: written by `DB.Put / DB.Delete`, otherwise the batch id -/
inductive Rec
  | put (k : Key) (v : Val) (b : Nat)
  | del (k : Key) (b : Nat)
  | fin (b : Nat)
deriving DecidableEq, Repr

def Rec.bid : Rec → Nat
  | .put _ _ b => b
  | .del _ b => b
  | .fin b => b

inductive Op
  | put (k : Key) (v : Val)
  | del (k : Key)
  | get (k : Key)
  | batch (ops : List BOp)
deriving DecidableEq, Repr

inductive Ev
  | inv (t : Tid) (op : Op)
  | lin (t : Tid) (op : Op) (r : Res)
  | ret (t : Tid) (r : Res)
  /-- ghost marker: thread `t` flushes the staged records `recs` of its open batch (log append,
  then index updates); `rest` = the operations of the batch not yet staged (`[]` for the flush
  inside `Commit`) -/
  | flush (t : Tid) (recs rest : List BOp)
deriving DecidableEq, Repr

def Ev.tid : Ev → Tid
  | .inv t _ => t
  | .lin t _ _ => t
  | .ret t _ => t
  | .flush t _ _ => t

inductive PC
  | idle
  | putWant (k : Key) (v : Val)
  | putLocked (k : Key) (v : Val)
  | putAppended (k : Key) (v : Val) (p : Nat)
  | putIndexed (k : Key) (v : Val) (held : Bool)
  | delWant (k : Key)
  | delLocked (k : Key)
  | delFound (k : Key)
  | delMiss (k : Key) (held : Bool)
  | delAppended (k : Key)
  | delIndexed (k : Key) (r : Res) (held : Bool)
  | getWant (k : Key)
  | getFound (k : Key) (p : Nat)
  | getResolved (k : Key) (r : Res)
  | batWant (ops : List BOp)
  /-- batch `b` open (lock held), `start` = log length at `NewBatch` (ghost) -/
  | batOpen (ops : List BOp) (b start : Nat) (staged rest : List BOp)
  /-- inside `flushStaged` after the append: `todo` = index updates still to do; afterwards
  `next = some (op, rest)`: early flush, stage `op` and go on; `next = none`: append the seal -/
  | batFlush (ops : List BOp) (b start : Nat) (todo : List (Key × Option Nat))
      (next : Option (BOp × List BOp))
  | batSealed (ops : List BOp) (held : Bool)
deriving DecidableEq, Repr

structure G where
  log : List Rec
  idx : Key → Option Nat
  writer : Option Tid
  pc : Tid → PC
  /-- next batch id (snowflake ids: fresh, non-zero) -/
  nextBid : Nat
  /-- ghost: log length at `NewBatch` of the open batch -/
  bstart : Option Nat
  /-- ghost: `(thread, key, position)` of the `Get`s that read a position of the open batch -/
  waiters : List (Tid × Key × Nat)
  /-- ghost history, newest event first -/
  hist : List Ev

def init : G :=
  { log := [], idx := fun _ => none, writer := none, pc := fun _ => .idle, nextBid := 1,
    bstart := none, waiters := [], hist := [] }

def valAt (log : List Rec) : Option Nat → Option Val
  | none => none
  | some p =>
    match log[p]? with
    | some (.put _ v _) => some v
    | _ => none

def readPos (log : List Rec) (p : Option Nat) : Res := .val (valAt log p)

def absMap (g : G) : Key → Option Val := fun k => valAt g.log (g.idx k)

def delRes : Option Nat → Res
  | some _ => .ok
  | none => .errIndexUpdateFailed

/-! ## staging and flushing -/

def hasKey (staged : List BOp) (k : Key) : Bool := staged.any fun x => x.1 == k

/-- overwrite the staged record of `k` in place -/
def setStaged : List BOp → Key → Option Val → List BOp
  | [], _, _ => []
  | x :: rest, k, ov => if x.1 = k then (k, ov) :: rest else x :: setStaged rest k ov

/-- `Batch.Put / Batch.Delete` without a flush; `present` = `db.index.Get(key) != nil` -/
def stage (staged : List BOp) (present : Bool) (op : BOp) : List BOp :=
  if hasKey staged op.1 then setStaged staged op.1 op.2
  else match op.2 with
    | some _ => staged ++ [op]
    | none => if present then staged ++ [op] else staged

/-- the branches of `Batch.Put / Batch.Delete` that contain the size test (each of them goes on to
ADD a staged record): every `Put`; a `Delete` of an unstaged key that is in the index -/
def mayFlush (staged : List BOp) (present : Bool) (op : BOp) : Bool :=
  !staged.isEmpty && (op.2.isSome || (!hasKey staged op.1 && present))

def recOf (b : Nat) (x : BOp) : Rec :=
  match x.2 with
  | some v => .put x.1 v b
  | none => .del x.1 b

/-- index updates of a flush whose first record lands at position `p` -/
def todoOf : Nat → List BOp → List (Key × Option Nat)
  | _, [] => []
  | p, x :: rest => (x.1, x.2.map fun _ => p) :: todoOf (p + 1) rest

/-- `openPos g p`: position `p` lies inside the open batch -/
def openPos (g : G) (p : Nat) : Bool :=
  match g.bstart with
  | some s => decide (s ≤ p)
  | none => false

/-- the linearization events of a commit: the batch, then every waiting `Get` -/
def commitEvs (t : Tid) (ops : List BOp) (log : List Rec) (ws : List (Tid × Key × Nat)) : List Ev :=
  ws.map (fun w => Ev.lin w.1 (.get w.2.1) (readPos log (some w.2.2))) ++ [.lin t (.batch ops) .ok]

def wantOf : Op → PC
  | .put k v => .putWant k v
  | .del k => .delWant k
  | .get k => .getWant k
  | .batch ops => .batWant ops

/-- `db.mu.Unlock()` (for a batch: the deferred unlock of `Commit`) -/
def relOf : PC → Option PC
  | .putIndexed k v true => some (.putIndexed k v false)
  | .delMiss k true => some (.delMiss k false)
  | .delIndexed k r true => some (.delIndexed k r false)
  | .batSealed ops true => some (.batSealed ops false)
  | _ => none

def retOf : PC → Option Res
  | .putIndexed _ _ false => some .ok
  | .delMiss _ false => some .ok
  | .delIndexed _ r false => some r
  | .getResolved _ r => some r
  | .batSealed _ false => some .ok
  | _ => none

/-- One move of one thread; the relation is the arbitrary scheduler. -/
inductive Step (sh : Shape) : G → G → Prop
  | call (g : G) (t : Tid) (op : Op) : g.pc t = .idle →
      Step sh g { g with pc := upd g.pc t (wantOf op), hist := .inv t op :: g.hist }
  | ret (g : G) (t : Tid) (r : Res) : retOf (g.pc t) = some r →
      Step sh g { g with pc := upd g.pc t .idle, hist := .ret t r :: g.hist }
  | rel (g : G) (t : Tid) (c' : PC) : relOf (g.pc t) = some c' →
      Step sh g { g with writer := none, pc := upd g.pc t c' }
  /- Put -/
  | putAcq (g : G) (t : Tid) (k : Key) (v : Val) : g.pc t = .putWant k v → g.writer = none →
      Step sh g { g with writer := some t, pc := upd g.pc t (.putLocked k v) }
  | putAppend (g : G) (t : Tid) (k : Key) (v : Val) : g.pc t = .putLocked k v →
      Step sh g { g with log := g.log ++ [.put k v 0],
                         pc := upd g.pc t (.putAppended k v g.log.length) }
  | putIndex (g : G) (t : Tid) (k : Key) (v : Val) (p : Nat) : g.pc t = .putAppended k v p →
      Step sh g { g with idx := updK g.idx k (some p), pc := upd g.pc t (.putIndexed k v true),
                         hist := .lin t (.put k v) .ok :: g.hist }
  /- Delete -/
  | delAcq (g : G) (t : Tid) (k : Key) : g.pc t = .delWant k → g.writer = none →
      Step sh g { g with writer := some t, pc := upd g.pc t (.delLocked k) }
  | delCheckMiss (g : G) (t : Tid) (k : Key) : g.pc t = .delLocked k → g.idx k = none →
      Step sh g { g with pc := upd g.pc t (.delMiss k true), hist := .lin t (.del k) .ok :: g.hist }
  | delCheckHit (g : G) (t : Tid) (k : Key) (p : Nat) : g.pc t = .delLocked k → g.idx k = some p →
      Step sh g { g with pc := upd g.pc t (.delFound k) }
  | delAppend (g : G) (t : Tid) (k : Key) : g.pc t = .delFound k →
      Step sh g { g with log := g.log ++ [.del k 0], pc := upd g.pc t (.delAppended k) }
  | delIndex (g : G) (t : Tid) (k : Key) : g.pc t = .delAppended k →
      Step sh g { g with idx := updK g.idx k none,
                         pc := upd g.pc t (.delIndexed k (delRes (g.idx k)) true),
                         hist := .lin t (.del k) (delRes (g.idx k)) :: g.hist }
  /- Get -/
  | getIdxMiss (g : G) (t : Tid) (k : Key) : g.pc t = .getWant k →
      (sh.getIdxGated = true → g.writer = none) → g.idx k = none →
      Step sh g { g with pc := upd g.pc t (.getResolved k (.val none)),
                         hist := .lin t (.get k) (.val none) :: g.hist }
  | getIdxHit (g : G) (t : Tid) (k : Key) (p : Nat) : g.pc t = .getWant k →
      (sh.getIdxGated = true → g.writer = none) → g.idx k = some p → openPos g p = false →
      Step sh g { g with pc := upd g.pc t (.getFound k p),
                         hist := .lin t (.get k) (readPos g.log (some p)) :: g.hist }
  | getIdxWait (g : G) (t : Tid) (k : Key) (p : Nat) : g.pc t = .getWant k →
      (sh.getIdxGated = true → g.writer = none) → g.idx k = some p → openPos g p = true →
      Step sh g { g with pc := upd g.pc t (.getFound k p), waiters := (t, k, p) :: g.waiters }
  | getResolve (g : G) (t : Tid) (k : Key) (p : Nat) : g.pc t = .getFound k p → g.writer = none →
      Step sh g { g with pc := upd g.pc t (.getResolved k (readPos g.log (some p))) }
  /- batch session -/
  | batAcq (g : G) (t : Tid) (ops : List BOp) : g.pc t = .batWant ops → g.writer = none →
      Step sh g { g with writer := some t, nextBid := g.nextBid + 1, bstart := some g.log.length,
                         pc := upd g.pc t (.batOpen ops g.nextBid g.log.length [] ops) }
  | batStage (g : G) (t : Tid) (ops : List BOp) (b s : Nat) (staged : List BOp) (op : BOp)
      (rest : List BOp) : g.pc t = .batOpen ops b s staged (op :: rest) →
      Step sh g { g with
        pc := upd g.pc t (.batOpen ops b s (stage staged (g.idx op.1).isSome op) rest) }
  | batFlushEarly (g : G) (t : Tid) (ops : List BOp) (b s : Nat) (staged : List BOp) (op : BOp)
      (rest : List BOp) : g.pc t = .batOpen ops b s staged (op :: rest) →
      mayFlush staged (g.idx op.1).isSome op = true →
      Step sh g { g with log := g.log ++ staged.map (recOf b),
                         pc := upd g.pc t (.batFlush ops b s (todoOf g.log.length staged) (some (op, rest))),
                         hist := .flush t staged (op :: rest) :: g.hist }
  | batIndex (g : G) (t : Tid) (ops : List BOp) (b s : Nat) (k : Key) (po : Option Nat)
      (todo : List (Key × Option Nat)) (next : Option (BOp × List BOp)) :
      g.pc t = .batFlush ops b s ((k, po) :: todo) next →
      Step sh g { g with idx := updK g.idx k po, pc := upd g.pc t (.batFlush ops b s todo next) }
  | batResume (g : G) (t : Tid) (ops : List BOp) (b s : Nat) (op : BOp) (rest : List BOp) :
      g.pc t = .batFlush ops b s [] (some (op, rest)) →
      Step sh g { g with pc := upd g.pc t (.batOpen ops b s [op] rest) }
  | batCommitEmpty (g : G) (t : Tid) (ops : List BOp) (b s : Nat) :
      g.pc t = .batOpen ops b s [] [] →
      Step sh g { g with pc := upd g.pc t (.batSealed ops true), bstart := none, waiters := [],
                         hist := commitEvs t ops g.log g.waiters ++ g.hist }
  | batCommitFlush (g : G) (t : Tid) (ops : List BOp) (b s : Nat) (staged : List BOp) :
      g.pc t = .batOpen ops b s staged [] → staged ≠ [] →
      Step sh g { g with log := g.log ++ staged.map (recOf b),
                         pc := upd g.pc t (.batFlush ops b s (todoOf g.log.length staged) none),
                         hist := .flush t staged [] :: g.hist }
  | batSeal (g : G) (t : Tid) (ops : List BOp) (b s : Nat) :
      g.pc t = .batFlush ops b s [] none →
      Step sh g { g with log := g.log ++ [.fin b], pc := upd g.pc t (.batSealed ops true),
                         bstart := none, waiters := [],
                         hist := commitEvs t ops g.log g.waiters ++ g.hist }

inductive Reachable (sh : Shape) : G → Prop
  | init : Reachable sh init
  | step {g g'} : Reachable sh g → Step sh g g' → Reachable sh g'

/-! ## What a restart recovers: replay with parked batches (`Engine.replayRec`) -/

structure RS where
  ix : Key → Option Nat
  /-- parked `(position, record)` of batches whose sealing record has not been met, in log order -/
  pend : List (Nat × Rec)

def applyIx (ix : Key → Option Nat) (p : Nat) : Rec → (Key → Option Nat)
  | .put k _ _ => updK ix k (some p)
  | .del k _ => updK ix k none
  | .fin _ => ix

def applyPend (ix : Key → Option Nat) (l : List (Nat × Rec)) : Key → Option Nat :=
  l.foldl (fun ix x => applyIx ix x.1 x.2) ix

/-- one record of the scan loop of `loadIndexFromDataFiles` -/
def replayRec (s : RS) (p : Nat) (r : Rec) : RS :=
  if r.bid = 0 then ⟨applyIx s.ix p r, s.pend⟩
  else match r with
    | .fin b => ⟨applyPend s.ix (s.pend.filter fun x => x.2.bid = b), s.pend.filter fun x => x.2.bid ≠ b⟩
    | r => ⟨s.ix, s.pend ++ [(p, r)]⟩

def replayFrom : List Rec → Nat → RS → RS
  | [], _, s => s
  | r :: rest, i, s => replayFrom rest (i + 1) (replayRec s i r)

def replayAll (log : List Rec) : RS := replayFrom log 0 ⟨fun _ => none, []⟩

/-- the index a restart rebuilds; records of an unsealed batch are dropped -/
def recovered (log : List Rec) : Key → Option Nat := (replayAll log).ix

/-! ## Sequential specification: a batch is ONE atomic multi-key update -/

abbrev Map := Key → Option Val

def applyOps (m : Map) (ops : List BOp) : Map := ops.foldl (fun m x => updK m x.1 x.2) m

def specStep (m : Map) : Op → Map × Res
  | .put k v => (updK m k (some v), .ok)
  | .del k => (updK m k none, .ok)
  | .get k => (m, .val (m k))
  | .batch ops => (applyOps m ops, .ok)

def specRun : List Ev → Option Map
  | [] => some (fun _ => none)
  | .lin _ op r :: h =>
    (specRun h).bind fun m => if (specStep m op).2 = r then some (specStep m op).1 else none
  | _ :: h => specRun h

inductive Phase
  | idle
  | invoked (op : Op)
  | linearized (op : Op) (r : Res)
deriving DecidableEq, Repr

def phaseStep (t : Tid) (ph : Option Phase) (e : Ev) : Option Phase :=
  match e with
  | .flush _ _ _ => ph
  | .inv t' op => if t' = t then (match ph with | some .idle => some (.invoked op) | _ => none) else ph
  | .lin t' op r =>
    if t' = t then
      (match ph with
       | some (.invoked op') => if op = op' then some (.linearized op' r) else none
       | _ => none)
    else ph
  | .ret t' r =>
    if t' = t then
      (match ph with
       | some (.linearized _ r') => if r = r' then some .idle else none
       | _ => none)
    else ph

def phase : List Ev → Tid → Option Phase
  | [], _ => some .idle
  | e :: h, t => phaseStep t (phase h t) e

/-- as `Conc.Linearizable`: per thread `inv op · lin op r · ret r` triples, and the results at the
linearization points are those of the sequential specification run in linearization order -/
def Linearizable (h : List Ev) : Prop := (∀ t, phase h t ≠ none) ∧ (specRun h).isSome = true

/-- A flush is benign for a lock-free index reader when it writes no tombstone and, for an early
flush, none of the flushed keys is touched again by the rest of the batch. -/
def benignFlush (recs rest : List BOp) : Bool :=
  recs.all fun x => x.2.isSome && !hasKey rest x.1

def benignEv : Ev → Bool
  | .flush _ recs rest => benignFlush recs rest
  | _ => true

/-- every flush recorded in the history is benign (vacuously true without batches, and true when
the batches are put-only with no key written twice) -/
def BenignFlushes (h : List Ev) : Prop := h.all benignEv = true
instance (h : List Ev) : Decidable (BenignFlushes h) := inferInstanceAs (Decidable (_ = _))

/-! ## Executable replay of a forced schedule -/

inductive Label
  | call (op : Op)
  | acq | rel | append | index | check | idxRead | resolve | ret
  | stage | flush | resume | commit | seal
deriving DecidableEq, Repr

abbrev Schedule := List (Tid × Label)

def next (sh : Shape) (g : G) (t : Tid) (l : Label) : Option G :=
  match l, g.pc t with
  | .call op, .idle => some { g with pc := upd g.pc t (wantOf op), hist := .inv t op :: g.hist }
  | .ret, c =>
    match retOf c with
    | some r => some { g with pc := upd g.pc t .idle, hist := .ret t r :: g.hist }
    | none => none
  | .rel, c =>
    match relOf c with
    | some c' => some { g with writer := none, pc := upd g.pc t c' }
    | none => none
  | .acq, .putWant k v =>
    if g.writer = none then some { g with writer := some t, pc := upd g.pc t (.putLocked k v) } else none
  | .acq, .delWant k =>
    if g.writer = none then some { g with writer := some t, pc := upd g.pc t (.delLocked k) } else none
  | .acq, .batWant ops =>
    if g.writer = none then
      some { g with writer := some t, nextBid := g.nextBid + 1, bstart := some g.log.length,
                    pc := upd g.pc t (.batOpen ops g.nextBid g.log.length [] ops) }
    else none
  | .append, .putLocked k v =>
    some { g with log := g.log ++ [.put k v 0], pc := upd g.pc t (.putAppended k v g.log.length) }
  | .append, .delFound k =>
    some { g with log := g.log ++ [.del k 0], pc := upd g.pc t (.delAppended k) }
  | .index, .putAppended k v p =>
    some { g with idx := updK g.idx k (some p), pc := upd g.pc t (.putIndexed k v true),
                  hist := .lin t (.put k v) .ok :: g.hist }
  | .index, .delAppended k =>
    some { g with idx := updK g.idx k none, pc := upd g.pc t (.delIndexed k (delRes (g.idx k)) true),
                  hist := .lin t (.del k) (delRes (g.idx k)) :: g.hist }
  | .index, .batFlush ops b s ((k, po) :: todo) nx =>
    some { g with idx := updK g.idx k po, pc := upd g.pc t (.batFlush ops b s todo nx) }
  | .check, .delLocked k =>
    match g.idx k with
    | none => some { g with pc := upd g.pc t (.delMiss k true), hist := .lin t (.del k) .ok :: g.hist }
    | some _ => some { g with pc := upd g.pc t (.delFound k) }
  | .idxRead, .getWant k =>
    if sh.getIdxGated = true → g.writer = none then
      match g.idx k with
      | none => some { g with pc := upd g.pc t (.getResolved k (.val none)),
                              hist := .lin t (.get k) (.val none) :: g.hist }
      | some p =>
        if openPos g p = true then
          some { g with pc := upd g.pc t (.getFound k p), waiters := (t, k, p) :: g.waiters }
        else some { g with pc := upd g.pc t (.getFound k p),
                           hist := .lin t (.get k) (readPos g.log (some p)) :: g.hist }
    else none
  | .resolve, .getFound k p =>
    if g.writer = none then some { g with pc := upd g.pc t (.getResolved k (readPos g.log (some p))) }
    else none
  | .stage, .batOpen ops b s staged (op :: rest) =>
    some { g with pc := upd g.pc t (.batOpen ops b s (stage staged (g.idx op.1).isSome op) rest) }
  | .flush, .batOpen ops b s staged (op :: rest) =>
    if mayFlush staged (g.idx op.1).isSome op = true then
      some { g with log := g.log ++ staged.map (recOf b),
                    pc := upd g.pc t (.batFlush ops b s (todoOf g.log.length staged) (some (op, rest))),
                    hist := .flush t staged (op :: rest) :: g.hist }
    else none
  | .resume, .batFlush ops b s [] (some (op, rest)) =>
    some { g with pc := upd g.pc t (.batOpen ops b s [op] rest) }
  | .commit, .batOpen ops b s staged [] =>
    match staged with
    | [] => some { g with pc := upd g.pc t (.batSealed ops true), bstart := none, waiters := [],
                          hist := commitEvs t ops g.log g.waiters ++ g.hist }
    | _ :: _ =>
      some { g with log := g.log ++ staged.map (recOf b),
                    pc := upd g.pc t (.batFlush ops b s (todoOf g.log.length staged) none),
                    hist := .flush t staged [] :: g.hist }
  | .seal, .batFlush ops b _ [] none =>
    some { g with log := g.log ++ [.fin b], pc := upd g.pc t (.batSealed ops true),
                  bstart := none, waiters := [],
                  hist := commitEvs t ops g.log g.waiters ++ g.hist }
  | _, _ => none

def exec (sh : Shape) : Schedule → G → Option G
  | [], g => some g
  | (t, l) :: rest, g => (next sh g t l).bind (exec sh rest)

/-- results in return order -/
def results (g : G) : List (Tid × Res) :=
  g.hist.reverse.filterMap fun e => match e with | .ret t r => some (t, r) | _ => none

/-- the checks of `Linearizable` on the threads `ts` -/
def linearizableB (ts : List Tid) (h : List Ev) : Bool :=
  (ts.all fun t => (phase h t).isSome) && (specRun h).isSome

end XixiKV.ConcBatch
