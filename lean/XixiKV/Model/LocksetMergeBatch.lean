import XixiKV.Model.LocksetBatch
import XixiKV.Model.ConcMergeBatch
/-!
# The fact about the generated lockset table that `Model/ConcMergeBatch.lean` assumes

Same conventions as `Model/Lockset.lean` / `Model/LocksetBatch.lean`.
-/
namespace XixiKV.Lockset
open XixiKV.Generated

/-- In `DB.Merge` the per-record liveness test `db.index.Get` exists and every such row is in mode R
of `db.mu` (`db.mu.RLock(); pos := db.index.Get(key); db.mu.RUnlock()`): while it runs no writer —
in particular no open batch, which holds `db.mu` in W mode from `NewBatch` to `Commit` — holds the
lock.  This is `IndexReadsLocked` (`Model/LocksetBatch.lean`) restated for `DB.Merge`. -/
def mergeVisitGatedB (t : List Row) : Bool :=
  let rs := (rowsOf t "DB.Merge").filter fun r => r.action == "idxGet"
  !rs.isEmpty && rs.all fun r => r.mode == .R && r.sect != 0

def MergeVisitGated (t : List Row) : Prop := mergeVisitGatedB t = true
instance (t : List Row) : Decidable (MergeVisitGated t) := inferInstanceAs (Decidable (_ = _))

/-- the flag of `ConcMergeBatch.StepM` the table stands for -/
def mergeVisitFlagOf (t : List Row) : Bool := mergeVisitGatedB t

/-- the generated table with the lock annotation of the liveness test of `DB.Merge` removed: the
tree before 79a6afe (`pos := db.index.Get(key)` without `db.mu`) -/
def ungateMerge (t : List Row) : List Row :=
  t.map fun r => if r.method == "DB.Merge" && r.action == "idxGet"
    then { r with mode := .none, sect := 0 } else r

end XixiKV.Lockset
