import XixiKV.Model.Lockset
/-!
# `DB.Merge` flushes the active file under `db.mu` after its scan and before it returns success
(ties `ConcMergeDur.StepD.mflush`, i.e. `flushBeforeMarker = true`, to the Go source)

Reads the generated lockset table with the conventions of `Model/Lockset.lean` (rows of one method
in program order, `ord` increasing; a row carries the lock state in which the action is executed).
The completion marker is written by file operations that are not in the walker's vocabulary, so
"before the marker" is expressed by the two things that ARE in the table: the marker is written
after the whole scan (after the last `idxGet` row, the liveness test of the scan loop) and before
the successful return (a `ret` row).  The predicate says

* the scan exists: `DB.Merge` has an `idxGet` row; let `g` be the largest `ord` of one;
* there is a successful return after the scan: a `ret` row with `ord > g`;
* EVERY successful return after the scan is preceded by a flush under the write lock after the
  scan: for every `ret` row `x` with `ord > g` there is an `fsync` row `y` with `g < y.ord < x.ord`,
  in mode `W` and a non-zero lock section.

Not visible in the table: that the flush is of `db.activeFile` (the row `read:activeFile` in the same
section says so informally) and that it is executed unconditionally (the source guards it by
`db.activeFile != nil`, which holds whenever a merge has anything to scan).
-/
namespace XixiKV.Lockset
open XixiKV.Generated

def mergeRows (t : List Row) : List Row := t.filter fun r => r.method == "DB.Merge"

/-- largest ordinal of an `idxGet` row of `DB.Merge`, if there is one -/
def lastIdxGet (t : List Row) : Option Nat :=
  ((mergeRows t).filter fun r => r.action == "idxGet").foldl
    (fun acc r => match acc with
      | none => some r.ord
      | some o => some (max o r.ord)) none

def mergeFlushBeforeMarker (t : List Row) : Bool :=
  match lastIdxGet t with
  | none => false
  | some g =>
    let rs := mergeRows t
    let rets := rs.filter fun r => r.action == "ret" && g < r.ord
    let flushes := rs.filter fun r => r.action == "fsync" && r.mode == .W && r.sect != 0 && g < r.ord
    !rets.isEmpty && rets.all fun x => flushes.any fun y => y.ord < x.ord

/-- the table with every post-scan flush of `DB.Merge` removed (the shape before 3a671fe) -/
def withoutMergeFlush (t : List Row) : List Row :=
  match lastIdxGet t with
  | none => t
  | some g => t.filter fun r => !(r.method == "DB.Merge" && r.action == "fsync" && g < r.ord)

/-- a hand-written table of the shape before 3a671fe: initial flush in the start section, scan,
successful return -/
def mergeTableBefore : List Row := [
  ⟨"DB.Merge", 0, "acqW", .W, 1⟩,
  ⟨"DB.Merge", 1, "fsync", .W, 1⟩,
  ⟨"DB.Merge", 2, "read:olderFiles", .W, 1⟩,
  ⟨"DB.Merge", 3, "write:activeFile", .W, 1⟩,
  ⟨"DB.Merge", 4, "relW", .W, 1⟩,
  ⟨"DB.Merge", 5, "acqR", .R, 2⟩,
  ⟨"DB.Merge", 6, "idxGet", .R, 2⟩,
  ⟨"DB.Merge", 7, "relR", .R, 2⟩,
  ⟨"DB.Merge", 8, "acqW", .W, 3⟩,
  ⟨"DB.Merge", 9, "write:isMerging", .W, 3⟩,
  ⟨"DB.Merge", 10, "relW", .W, 3⟩,
  ⟨"DB.Merge", 11, "ret", .none, 0⟩]

/-- the repaired shape: the section `acqW; read:activeFile; fsync; write:bytesWrite; relW` after the scan -/
def mergeTableAfter : List Row := [
  ⟨"DB.Merge", 0, "acqW", .W, 1⟩,
  ⟨"DB.Merge", 1, "fsync", .W, 1⟩,
  ⟨"DB.Merge", 2, "read:olderFiles", .W, 1⟩,
  ⟨"DB.Merge", 3, "write:activeFile", .W, 1⟩,
  ⟨"DB.Merge", 4, "relW", .W, 1⟩,
  ⟨"DB.Merge", 5, "acqR", .R, 2⟩,
  ⟨"DB.Merge", 6, "idxGet", .R, 2⟩,
  ⟨"DB.Merge", 7, "relR", .R, 2⟩,
  ⟨"DB.Merge", 8, "acqW", .W, 3⟩,
  ⟨"DB.Merge", 9, "read:activeFile", .W, 3⟩,
  ⟨"DB.Merge", 10, "fsync", .W, 3⟩,
  ⟨"DB.Merge", 11, "write:bytesWrite", .W, 3⟩,
  ⟨"DB.Merge", 12, "relW", .W, 3⟩,
  ⟨"DB.Merge", 13, "acqW", .W, 4⟩,
  ⟨"DB.Merge", 14, "write:isMerging", .W, 4⟩,
  ⟨"DB.Merge", 15, "relW", .W, 4⟩,
  ⟨"DB.Merge", 16, "ret", .none, 0⟩]

/-- a flush that is NOT under the write lock does not count -/
def mergeTableUnlocked : List Row :=
  mergeTableAfter.map fun r => if r.action == "fsync" && r.ord == 10 then { r with mode := .none, sect := 0 } else r

end XixiKV.Lockset
