/-!
# The directory lock (`flock` on `<dir>/flock`) as one bit per directory   (C16)

Any number of handles (one per `Open` call, possibly in different processes — `flock(2)` conflicts
between open file descriptions even inside one process), each running

```
closed -tryOpen d: bit of d clear → set it→ opening d -initialisation succeeds→ opened d -Close→ closed
                                                     -initialisation fails→ closed
closed -tryOpen d: bit of d set → ErrDatabaseIsUsing→ closed
```
The two booleans of `Cfg` say whether the failing paths of `Open` after the `TryLock` and the
paths of `Close` release the lock; they are computed from the generated lockset table by
`Lockset.ReleasesOnError` / `Lockset.CloseReleases`.
-/
namespace XixiKV.DirLock

abbrev Hid := Nat
abbrev Dir := Nat

inductive HPC
  | closed
  | opening (d : Dir)
  | opened (d : Dir)
deriving DecidableEq, Repr

structure Cfg where
  /-- every failing return of `Open` after a successful `TryLock` releases the lock -/
  releasesOnError : Bool
  /-- every return of `Close` releases the lock -/
  closeReleases : Bool
deriving DecidableEq, Repr

def Cfg.good : Cfg := ⟨true, true⟩

structure St where
  locked : Dir → Bool
  pc : Hid → HPC

def St.init : St := { locked := fun _ => false, pc := fun _ => .closed }

def upd {α} (f : Nat → α) (i : Nat) (a : α) : Nat → α := fun j => if j = i then a else f j

/-- the lock bits after handle activity on `d` ends; `rel` says whether that path releases -/
def release (rel : Bool) (locked : Dir → Bool) (d : Dir) : Dir → Bool :=
  if rel then upd locked d false else locked

inductive Step (c : Cfg) : St → St → Prop
  | tryOk (s : St) (h : Hid) (d : Dir) : s.pc h = .closed → s.locked d = false →
      Step c s { locked := upd s.locked d true, pc := upd s.pc h (.opening d) }
  | tryBusy (s : St) (h : Hid) (d : Dir) : s.pc h = .closed → s.locked d = true →
      Step c s s
  | openOk (s : St) (h : Hid) (d : Dir) : s.pc h = .opening d →
      Step c s { s with pc := upd s.pc h (.opened d) }
  | openFail (s : St) (h : Hid) (d : Dir) : s.pc h = .opening d →
      Step c s { locked := release c.releasesOnError s.locked d, pc := upd s.pc h .closed }
  | close (s : St) (h : Hid) (d : Dir) : s.pc h = .opened d →
      Step c s { locked := release c.closeReleases s.locked d, pc := upd s.pc h .closed }

inductive Reachable (c : Cfg) : St → Prop
  | init : Reachable c St.init
  | step {s s'} : Reachable c s → Step c s s' → Reachable c s'

/-- handle `h` holds the lock of `d` -/
def Holds (s : St) (h : Hid) (d : Dir) : Prop := s.pc h = .opening d ∨ s.pc h = .opened d

end XixiKV.DirLock
