import XixiKV.Model.Varint
import XixiKV.Model.Frame
/-!
# Log-record and hint-record codecs  (mirrors `datafile/log_record.go`)

* `EncodeLogRecord`      ↦ `encodeRecord`
* `DecodeLogRecord`      ↦ `decodeRecord`
* `DecodeLogRecordValue` ↦ `decodeValue`
* `EncodeHintRecord`     ↦ `encodeHint`
* `DecodeHintRecord`     ↦ `decodeHint`

`none` stands for "the Go decoder would index out of range / use a negative length"; this never
happens on encoder output (proved in `Proofs/Record.lean`), and every payload the engine decodes
has passed the chunk CRC.  Go's nil-vs-empty slices are both the empty `ByteArray`.
-/
namespace XixiKV.Record
open XixiKV.Varint XixiKV.Frame

structure Record where
  typ : Nat          -- 0 normal, 1 deleted, 2 batch finished
  key : ByteArray
  value : ByteArray
  batch : Nat
deriving Inhabited

def ofList (l : List UInt8) : ByteArray := ⟨l.toArray⟩

/-- the at most `k` bytes of `b` from `i` on, as a list (header parsing looks at ≤ 10 bytes) -/
def window (b : ByteArray) (i k : Nat) : List UInt8 := (b.extract i (i + k)).data.toList

def encodeRecord (r : Record) : ByteArray :=
  ofList (r.typ.toUInt8 :: (putVarintNat r.key.size ++ putVarintNat r.value.size ++ putUvarint r.batch))
    ++ r.key ++ r.value

structure Header where
  typ : Nat
  ksize : Nat
  vsize : Nat
  batch : Nat
  hlen : Nat      -- bytes of the header (`idx` after the three varints)

def decodeHeader (data : ByteArray) : Option Header :=
  if data.size = 0 then none else
  match varintNat (window data 1 10) with
  | none => none
  | some (ks, n1) =>
    if n1 = 0 then none else
    match varintNat (window data (1 + n1) 10) with
    | none => none
    | some (vs, n2) =>
      if n2 = 0 then none else
      match uvarint (window data (1 + n1 + n2) 10) with
      | none => none
      | some (b, n3) =>
        if n3 = 0 then none else
        some { typ := (data.get! 0).toNat, ksize := ks, vsize := vs, batch := b, hlen := 1 + n1 + n2 + n3 }

def decodeRecord (data : ByteArray) : Option Record :=
  match decodeHeader data with
  | none => none
  | some h =>
    if h.hlen + h.ksize + h.vsize ≠ data.size then none else
    some { typ := h.typ, key := data.extract h.hlen (h.hlen + h.ksize),
           value := data.extract (h.hlen + h.ksize) (h.hlen + h.ksize + h.vsize), batch := h.batch }

def decodeValue (data : ByteArray) : Option ByteArray :=
  match decodeHeader data with
  | none => none
  | some h =>
    if h.hlen + h.ksize + h.vsize ≠ data.size then none else
    some (data.extract (h.hlen + h.ksize) (h.hlen + h.ksize + h.vsize))

def encodeHint (key : ByteArray) (p : Pos) : ByteArray :=
  ofList (putUvarint p.fid ++ putUvarint p.block ++ putUvarint p.off ++ putUvarint p.size) ++ key

def decodeHint (buf : ByteArray) : Option (ByteArray × Pos) :=
  match uvarint (window buf 0 10) with
  | none => none
  | some (fid, n1) =>
    if n1 = 0 then none else
    match uvarint (window buf n1 10) with
    | none => none
    | some (blk, n2) =>
      if n2 = 0 then none else
      match uvarint (window buf (n1 + n2) 10) with
      | none => none
      | some (off, n3) =>
        if n3 = 0 then none else
        match uvarint (window buf (n1 + n2 + n3) 10) with
        | none => none
        | some (sz, n4) =>
          if n4 = 0 then none else
          -- Go truncates to uint32
          some (buf.extract (n1 + n2 + n3 + n4) buf.size,
                { fid := fid % 2^32, block := blk % 2^32, off := off % 2^32, size := sz % 2^32 })

/-- `GetLogRecordDiskSize` -/
def diskSizeEstimate (keySize valueSize : Nat) : Nat :=
  let size := 21 + keySize + valueSize + 10 + 1
  size + H + (size / BS + 1) * H

end XixiKV.Record
