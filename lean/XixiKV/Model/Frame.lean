/-!
# Block / chunk framing  (mirrors `datafile/data_file.go`)

A data file is a sequence of 32 KiB blocks.  A record payload is split into chunks
`crc32 ‖ len16 ‖ type ‖ bytes` (7-byte header); a chunk never crosses a block boundary, and a
block tail that cannot hold a header plus one byte is zero padded by the *next* write.

Go function                      ↦ definition here
* `writeToBuf` (bytes)           ↦ `writeRec`   (pad ++ chunks)
* `writeToBuf` (position, next)  ↦ `posOf`, and the new size is `f.size + (writeRec …).size`
* `writeSingle`                  ↦ `appendRec`
* `writeAll`                     ↦ `appendAll`
* `DecodeChunk` + loop body of `DataReader.next`  ↦ `chunkSeq`
* `DecodeChunk` + loop body of `readToBuf`        ↦ `chunkRand`
* `DataReader.next`              ↦ `nextAt` (+ `rnormB/rnormO` for the reader's skip rule)
* `readToBuf`                    ↦ `readAt`
* `DataFile.Size`                ↦ `ByteArray.size` (the writer state `(lastBlockID,lastBlockSize)`
                                    is `(size / BS, size % BS)`; see `Proofs/Frame.lean`)

The chunk codec is a parameter (`Codec`) with three laws; `Model/Chunk.lean` gives the concrete
CRC-32 codec and proves the laws for it.
-/
namespace XixiKV.Frame

def BS : Nat := 32768
def H : Nat := 7

/-- chunk types: 0 full, 1 first, 2 middle, 3 last -/
abbrev CT := Nat

/-- result of `DecodeChunk` on the readable bytes of a block, from the chunk's offset on -/
inductive DecOut where
  | ok : ByteArray → CT → DecOut
  | incomplete : DecOut      -- header or stored length runs past the readable bytes
  | badCrc : DecOut

inductive Out (α : Type) where
  | ok : α → Out α
  | eof : Out α
  | err : Out α
deriving Repr, DecidableEq

structure Codec where
  enc : CT → ByteArray → ByteArray
  dec : ByteArray → DecOut
  size_enc : ∀ t p, (enc t p).size = H + p.size
  dec_enc : ∀ t p rest, p.size ≤ 65535 → t < 256 → dec (enc t p ++ rest) = .ok p t
  dec_short : ∀ t p n, p.size ≤ 65535 → n < H + p.size → dec ((enc t p).extract 0 n) = .incomplete

def zeros (n : Nat) : ByteArray := ByteArray.mk (Array.replicate n 0)

/-- padding the writer inserts when the block tail cannot hold a header plus one byte
    (`nextSize+chunkHeaderSize >= blockSize && nextSize != blockSize`, with `o < BS`) -/
def padOf (o : Nat) : Nat := if o + H ≥ BS then BS - o else 0

/-- where the next record starts when the file currently ends at (b, o), o < BS -/
def normB (b o : Nat) : Nat := if o + H ≥ BS then b + 1 else b
def normO (o : Nat) : Nat := if o + H ≥ BS then 0 else o

/-- chunks after the first: every chunk starts at in-block offset 0 -/
def restChunks (C : Codec) (d : ByteArray) (fuel : Nat) : ByteArray :=
  match fuel with
  | 0 => ByteArray.empty
  | fuel+1 =>
    if d.size ≤ BS - H then C.enc 3 d
    else C.enc 2 (d.extract 0 (BS - H)) ++ restChunks C (d.extract (BS - H) d.size) fuel

/-- all chunks of one record whose first chunk starts at in-block offset `o` (o + H < BS) -/
def recChunks (C : Codec) (d : ByteArray) (o : Nat) : ByteArray :=
  let cap := BS - o - H
  if d.size ≤ cap then C.enc 0 d
  else C.enc 1 (d.extract 0 cap) ++ restChunks C (d.extract cap d.size) d.size

/-- bytes `writeToBuf` appends for payload `d` when the file ends at in-block offset `o`
    (an empty payload writes nothing, not even padding's record: the Go loop does not run;
    padding is still emitted) -/
def writeRec (C : Codec) (d : ByteArray) (o : Nat) : ByteArray :=
  zeros (padOf o) ++ (if d.size = 0 then ByteArray.empty else recChunks C d (normO o))

structure Pos where
  fid : Nat
  block : Nat
  off : Nat
  size : Nat
deriving Repr, DecidableEq, Inhabited

/-- position `writeToBuf` reports for a record appended to a file of `fsize` bytes -/
def posOf (C : Codec) (fid fsize : Nat) (d : ByteArray) : Pos :=
  { fid := fid, block := normB (fsize / BS) (fsize % BS), off := normO (fsize % BS),
    size := if d.size = 0 then 0 else (recChunks C d (normO (fsize % BS))).size }

/-- `writeSingle` -/
def appendRec (C : Codec) (f d : ByteArray) : ByteArray := f ++ writeRec C d (f.size % BS)

/-- `writeAll`: the same bytes as repeated `writeSingle`, in one write call -/
def appendAll (C : Codec) (f : ByteArray) (ds : List ByteArray) : ByteArray := ds.foldl (appendRec C) f

/-- positions reported by `writeAll` -/
def posAll (C : Codec) (fid : Nat) (f : ByteArray) : List ByteArray → List Pos
  | [] => []
  | d :: ds => posOf C fid f.size d :: posAll C fid (appendRec C f d) ds

/-- are all bytes from `i` to the end zero (`zeroUntilEnd`) -/
def allZeroFrom (f : ByteArray) (i : Nat) : Bool := (f.extract i f.size).data.all (· == 0)

/-- the 16-bit length field (little endian) of the chunk header that starts at absolute position `i` -/
def hdrLen (f : ByteArray) (i : Nat) : Nat :=
  match (f.extract (i + 4) (i + 6)).data.toList with
  | [x, y] => x.toNat + 256 * y.toNat
  | _ => 0

/-- end of the extent the chunk at `base + off` claims, clamped to the block window `base + size`
    (the whole window when not even a header fits) -/
def claimedEnd (f : ByteArray) (base off size : Nat) : Nat :=
  if off + H ≤ size then min (base + size) (base + off + H + hdrLen f (base + off)) else base + size

/-- tolerant reader only: at least one byte follows the extent the undecodable chunk claims, and
    everything that follows it is zero — a record that was only partly persisted into a
    zero-extended (memory-mapped) file before a power failure.  Under standard I/O nothing follows
    a torn record, so this never applies there. -/
def tornZero (tol : Bool) (f : ByteArray) (base off size : Nat) : Bool :=
  tol && decide (claimedEnd f base off size < f.size) && allZeroFrom f (claimedEnd f base off size)

/-- one loop iteration of `DataReader.next`: decode the chunk at (block, off).
    `tol` is the reader's `tolerateTornTail` flag (`reader.TolerateTornTail()`, set only for the
    active file).  An undecodable chunk is the end of the log when only zeros follow, or — for a
    tolerant reader only — when it is cut short by the end of the file or by a zero region that
    reaches the end of the file (`tornZero`); otherwise it is an error. -/
def chunkSeq (C : Codec) (tol : Bool) (f : ByteArray) (block off : Nat) : Out (ByteArray × CT) :=
  let base := block * BS
  if base ≥ f.size then .eof else
  let size := min (f.size - base) BS
  if off ≥ size then .eof else
  match C.dec (f.extract (base + off) (base + size)) with
  | .ok p t => .ok (p, t)
  | .incomplete =>
    if (tol = true ∧ base + size = f.size) ∨ allZeroFrom f (base + off) ∨ tornZero tol f base off size = true then .eof else .err
  | .badCrc => if allZeroFrom f (base + off) ∨ tornZero tol f base off size = true then .eof else .err

/-- one loop iteration of `readToBuf`: a position-based read must find a complete chunk -/
def chunkRand (C : Codec) (f : ByteArray) (block off : Nat) : Out (ByteArray × CT) :=
  let base := block * BS
  if base ≥ f.size then .eof else
  let size := min (f.size - base) BS
  if off ≥ size then .eof else
  match C.dec (f.extract (base + off) (base + size)) with
  | .ok p t => .ok (p, t)
  | _ => .err

/-- `DataReader.next`: one record starting at (block, off); returns payload, bytes occupied incl.
    headers, and the (block, off) where the last chunk ends -/
def nextAt (C : Codec) (tol : Bool) (f : ByteArray) (block off : Nat) (fuel : Nat) : Out (ByteArray × Nat × Nat × Nat) :=
  match fuel with
  | 0 => .err
  | fuel+1 =>
    match chunkSeq C tol f block off with
    | .ok (p, t) =>
      if t = 0 ∨ t = 3 then .ok (p, H + p.size, block, off + H + p.size)
      else match nextAt C tol f (block+1) 0 fuel with
        | .ok (q, n, b', o') => .ok (p ++ q, H + p.size + n, b', o')
        | .eof => if tol then .eof else .err     -- `endOfLog`: the log ends inside a record — only a tolerant reader calls that the end
        | .err => .err
    | .eof => .eof
    | .err => .err

/-- `readToBuf` loop: follow chunks until Full/Last -/
def readLoop (C : Codec) (f : ByteArray) (block off : Nat) (fuel : Nat) : Out ByteArray :=
  match fuel with
  | 0 => .err
  | fuel+1 =>
    match chunkRand C f block off with
    | .ok (p, t) =>
      if t = 0 ∨ t = 3 then .ok p
      else match readLoop C f (block+1) 0 fuel with
        | .ok q => .ok (p ++ q)
        | e => e
    | .eof => .eof
    | .err => .err

/-- `readToBuf` (with its initial `blockID > lastBlockID` test) -/
def readAt (C : Codec) (f : ByteArray) (block off : Nat) : Out ByteArray :=
  if block > f.size / BS then .eof else readLoop C f block off (f.size + 1)

/-- reader normalisation after a record that ended at (b', o'), 0 < o' ≤ BS
    (`if reader.offset+chunkHeaderSize >= blockSize`) -/
def rnormB (b' o' : Nat) : Nat := if o' + H ≥ BS then b' + 1 else b'
def rnormO (o' : Nat) : Nat := if o' + H ≥ BS then 0 else o'

/-- reader state corresponding to "file ends here": where the next record would start -/
def endB (f : ByteArray) : Nat := normB (f.size / BS) (f.size % BS)
def endO (f : ByteArray) : Nat := normO (f.size % BS)

structure ScanRes where
  recs : List (ByteArray × Pos)     -- payloads with the positions the reader reports
  validEnd : Nat                    -- end of the last complete record (`DataReader.ValidEnd`)
  ok : Bool                         -- true: ended with EOF; false: ended with an error

/-- the whole sequential scan (`for { reader.NextLogRecord() }`) from reader state (block, off) -/
def scanFrom (C : Codec) (tol : Bool) (fid : Nat) (f : ByteArray) (block off validEnd : Nat) : Nat → ScanRes
  | 0 => { recs := [], validEnd := validEnd, ok := false }
  | n+1 =>
    match nextAt C tol f block off (f.size + 1) with
    | .ok (d, sz, b', o') =>
      let r := scanFrom C tol fid f (rnormB b' o') (rnormO o') (b' * BS + o') n
      { r with recs := (d, { fid := fid, block := block, off := off, size := sz }) :: r.recs }
    | .eof => { recs := [], validEnd := validEnd, ok := true }
    | .err => { recs := [], validEnd := validEnd, ok := false }

/-- scan of a whole file; every record occupies at least H+1 bytes, so `f.size` iterations suffice -/
def scan (C : Codec) (tol : Bool) (fid : Nat) (f : ByteArray) : ScanRes :=
  scanFrom C tol fid f 0 0 0 (f.size + 1)

end XixiKV.Frame

namespace XixiKV.Frame

/-- number of chunks `restChunks` produces for `n` bytes (pure geometry, data independent) -/
def restCount (n : Nat) : Nat → Nat
  | 0 => 0
  | fuel+1 => if n ≤ BS - H then 1 else 1 + restCount (n - (BS - H)) fuel

/-- number of chunks of a record of `n > 0` bytes whose first chunk starts at in-block offset `o` -/
def recCount (o n : Nat) : Nat :=
  if n ≤ BS - o - H then 1 else 1 + restCount (n - (BS - o - H)) n

/-- bytes a record of `n` payload bytes occupies (headers included, padding excluded) -/
def occupied (o n : Nat) : Nat := if n = 0 then 0 else recCount o n * H + n

/-- pure-arithmetic version of `writeToBuf`'s position/next-state computation for a file of
    `fsize` bytes and a payload of `n` bytes: (block, off, size, new file size) -/
def geom (fsize n : Nat) : Nat × Nat × Nat × Nat :=
  let o := fsize % BS
  (normB (fsize / BS) o, normO o, occupied (normO o) n, fsize + padOf o + occupied (normO o) n)

end XixiKV.Frame
