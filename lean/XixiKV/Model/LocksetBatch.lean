import XixiKV.Model.Lockset
import XixiKV.Model.ConcBatch
/-!
# Decidable facts about the generated lockset table that `Model/ConcBatch.lean` assumes

Same conventions as `Model/Lockset.lean` (`Batch.*` methods are walked from entry state `(W, 1)`:
the section acquired by `DB.NewBatch`; deferred calls are replayed at every `return`).
-/
namespace XixiKV.Lockset
open XixiKV.Generated

def rowsOf (t : List Row) (m : String) : List Row := t.filter fun r => r.method == m

/-- the actions by which a batch session touches the log and the index -/
def batchActs : List String := ["append", "appendAll", "idxPut", "idxDel", "idxGet"]

/-- Every log append and every index access of `Batch.Put / Batch.Delete / Batch.Commit` happens in
W mode in the entry section (the one `DB.NewBatch` acquired); and the rows the automaton relies on
exist: the flush (`appendAll`, `idxPut`, `idxDel`) in all three methods, the existence check
(`idxGet`) in `Batch.Delete`, the sealing `append` in `Batch.Commit`. -/
def batchSectionWB (t : List Row) : Bool :=
  (["Batch.Put", "Batch.Delete", "Batch.Commit"].all fun m =>
    ((rowsOf t m).all fun r => !batchActs.contains r.action || (r.mode == .W && r.sect == 1)) &&
    (["appendAll", "idxPut", "idxDel"].all fun a => (rowsOf t m).any fun r => r.action == a)) &&
  ((rowsOf t "Batch.Delete").any fun r => r.action == "idxGet") &&
  ((rowsOf t "Batch.Commit").any fun r => r.action == "append")

def BatchSectionW (t : List Row) : Prop := batchSectionWB t = true
instance (t : List Row) : Decidable (BatchSectionW t) := inferInstanceAs (Decidable (_ = _))

/-- `DB.NewBatch` acquires `db.mu` in W mode, never releases it, and every return happens in that
section: the batch session starts holding the lock. -/
def newBatchHoldsWB (t : List Row) : Bool :=
  let rs := rowsOf t "DB.NewBatch"
  (rs.any fun a => a.action == "acqW" && a.mode == .W && a.sect != 0 &&
    rs.all fun r => (!isRet r.action || (r.mode == .W && r.sect == a.sect)) && !isRel r.action) &&
  (rs.any fun r => r.action == "ret")

def NewBatchHoldsW (t : List Row) : Prop := newBatchHoldsWB t = true
instance (t : List Row) : Decidable (NewBatchHoldsW t) := inferInstanceAs (Decidable (_ = _))

/-- `Batch.Commit` releases the lock exactly at its returns (the deferred `db.mu.Unlock()`): every
`relW` row is immediately followed by a return row, every return row except the very first one
(`ErrBatchCommitted`: the batch is already committed, the lock not held) is immediately preceded
by a `relW` row and is annotated "not held"; in particular no release separates the flush from
the sealing append, and the lock is released after the sealing append on every path. -/
def commitReleasesB (t : List Row) : Bool :=
  let rs := rowsOf t "Batch.Commit"
  (rs.all fun r =>
    (!(r.action == "relW") ||
      (r.mode == .W && r.sect == 1 && rs.any fun x => x.ord == r.ord + 1 && isRet x.action)) &&
    (!isRet r.action || r.ord == 0 ||
      (r.mode == .none && rs.any fun x => x.ord + 1 == r.ord && x.action == "relW"))) &&
  (rs.any fun a => a.action == "append" && rs.any fun r => r.action == "ret" && a.ord < r.ord)

def CommitReleases (t : List Row) : Prop := commitReleasesB t = true
instance (t : List Row) : Decidable (CommitReleases t) := inferInstanceAs (Decidable (_ = _))

/-- `DB.Get` passes through an R acquisition of `db.mu` before it reads a data file: there is an
`acqR` row, in R mode, that precedes every `readFile` row (`getValueByPosition`; for an older file
the lock is dropped again before the read, for the active file it is held across it — both are
"after the gate", which is what `Step.getResolve` models). -/
def getResolveGatedB (t : List Row) : Bool :=
  let rs := rowsOf t "DB.Get"
  (rs.any fun r => r.action == "readFile") &&
  (rs.any fun a => a.action == "acqR" && a.mode == .R &&
    rs.all fun r => !(r.action == "readFile") || a.ord < r.ord)

def GetResolveGated (t : List Row) : Prop := getResolveGatedB t = true
instance (t : List Row) : Decidable (GetResolveGated t) := inferInstanceAs (Decidable (_ = _))

/-- the index read of `DB.Get` happens with `db.mu` held (in either mode) -/
def getIdxGatedB (t : List Row) : Bool :=
  let rs := (rowsOf t "DB.Get").filter fun r => r.action == "idxGet"
  !rs.isEmpty && rs.all fun r => r.mode != .none

/-- In `DB.Get` the index read and the look-up of the data file (`activeFile` / `olderFiles`) happen
in ONE R section of `db.mu`: no writer (in particular no batch) can act between the two. -/
def getOneSectionB (t : List Row) : Bool :=
  let rs := rowsOf t "DB.Get"
  let xs := rs.filter fun r => r.action == "idxGet"
  let ys := rs.filter fun r => r.action == "read:activeFile" || r.action == "read:olderFiles"
  !xs.isEmpty && !ys.isEmpty &&
  xs.all fun x => x.mode == .R && x.sect != 0 && ys.all fun y => y.mode == .R && y.sect == x.sect

def GetOneSection (t : List Row) : Prop := getOneSectionB t = true
instance (t : List Row) : Decidable (GetOneSection t) := inferInstanceAs (Decidable (_ = _))

/-- Every read of the index CONTENT (`idxGet`: `DB.Get`, the existence checks of `DB.Delete` /
`Batch.Delete` / `Batch.Get`, the liveness test of `DB.Merge`; `idxIter`: the snapshots of
`ListKeys`, `Fold`, `NewIterator`) on a shared handle happens with `db.mu` held, so none of them
can observe the index updates of an open batch.  (`idxSize` is not included: `ListKeys` uses the
live size only as a capacity hint.) -/
def indexReadsLockedB (t : List Row) : Bool :=
  (t.all fun r => exempt r.method || !(r.action == "idxGet" || r.action == "idxIter") ||
    r.mode != .none) &&
  (["DB.Get", "DB.Merge"].all fun m => (rowsOf t m).any fun r => r.action == "idxGet") &&
  (["DB.ListKeys", "DB.Fold", "DB.NewIterator"].all fun m =>
    (rowsOf t m).any fun r => r.action == "idxIter")

def IndexReadsLocked (t : List Row) : Prop := indexReadsLockedB t = true
instance (t : List Row) : Decidable (IndexReadsLocked t) := inferInstanceAs (Decidable (_ = _))

/-- the shape of `Model/ConcBatch.lean` the table stands for -/
def batchShapeOf (t : List Row) : XixiKV.ConcBatch.Shape := { getIdxGated := getIdxGatedB t }

end XixiKV.Lockset
