import XixiKV.Model.Varint
import XixiKV.Model.Record
import XixiKV.Spec.DatatypeApi
/-!
# The redis-style layer `datatype/*.go`, command by command, over an abstract key-value store

* `KV` — what the layer sees of the engine: `db.Get`, `db.Put`, `db.Delete` and an atomic batch
  (`NewBatch` / `Put` / `Delete` / `Commit`) that applies its operations in issue order.
  The engine keeps one live value per key (C01), survives restart (C02/C04) and makes a batch
  atomic (C04/C05): those are properties of the engine proved elsewhere; here a store *is* its
  key ↦ value mapping.  (`Batch.Put`/`Delete` de-duplicate staged records per key; the net effect
  is that of applying the operations in order.)
* `Meta`, `encodeMeta`, `decodeMeta`, `encodeStr` — `datatype/meta.go` and the value layout of `Set`.
* `hashKey`, `setKey`, `listKey`, `zmemKey`, `zscoreKey` — the five internal-key encoders.
* `set`, `get`, `del`, `type`, `hset`, …, `zscore`, `findMetadata` — `types.go` / `generic.go`.

Conventions.  `time.Now().UnixNano()` is the input `now`.  Go `nil` and empty slices are both
the empty `ByteArray`, except where the code tests for `nil` (`Set`) — there the argument is an
`Option` — and in replies (`Reply.nil` vs `Reply.bytes`).  Where the Go code panics (`Get`:
`encValue[0]` of an empty value; `decodeMetadata`: `buf[index:]` with the negative `index` it
computes after a varint overflow, `metaDecodePanics`) the model replies `Reply.panic`; where it
would go on with garbage numbers (a negative varint, an overflow that leaves `index ≥ 0`) the model
replies `Reply.otherErr`.  `findMetadata` decodes a record as metadata only after it has found it
live and of the requested container type, and such records are written by `encodeMeta` only, so
both replies are reachable only after an internal-key collision (see `Properties/C19.lean`).
-/
namespace XixiKV.Datatype
open XixiKV.Varint
open XixiKV.Record (ofList)

/-! ## the abstract store -/

/-- the live key ↦ value mapping of the engine, as an association list without duplicate keys -/
abbrev KV : Type := List (ByteArray × ByteArray)

namespace KV

def empty : KV := ([] : List (ByteArray × ByteArray))

/-- `db.Get`: `none` is `ErrKeyNotFound` -/
def get (kv : KV) (k : ByteArray) : Option ByteArray :=
  match (kv : List (ByteArray × ByteArray)) with
  | [] => none
  | (k', v) :: r => if k' = k then some v else get r k

/-- `db.Delete` (a missing key is not an error) -/
def delete (kv : KV) (k : ByteArray) : KV :=
  List.filter (fun p => decide (p.1 ≠ k)) kv

/-- `db.Put` -/
def put (kv : KV) (k v : ByteArray) : KV :=
  ((k, v) :: delete kv k : List (ByteArray × ByteArray))

/-- an operation staged in a batch -/
inductive Op where
  | put (k v : ByteArray)
  | del (k : ByteArray)

def apply (kv : KV) : Op → KV
  | .put k v => kv.put k v
  | .del k => kv.delete k

/-- `NewBatch`; staged operations; `Commit`: all of them, in issue order -/
def batch (kv : KV) (ops : List Op) : KV := ops.foldl apply kv

end KV

/-! ## byte layouts -/

/-- the `n` low bytes of `v`, least significant first (`binary.LittleEndian.PutUintN`) -/
def leBytes : Nat → Nat → List UInt8
  | 0, _ => []
  | n + 1, v => (v % 256).toUInt8 :: leBytes n (v / 256)

/-- `binary.LittleEndian.PutUint64(·, uint64(v))` -/
def le64 (v : Nat) : ByteArray := ofList (leBytes 8 v)
/-- `binary.LittleEndian.PutUint32(·, uint32(v))` -/
def le32 (v : Nat) : ByteArray := ofList (leBytes 4 v)

/-- `initialListMark = math.MaxUint64 / 2` -/
def initialListMark : Nat := (2 ^ 64 - 1) / 2

/-- `metadata` of `meta.go` (`expire`, `version`: int64 UnixNano ≥ 0; `size`: uint32; `head`, `tail`: uint64) -/
structure Meta where
  dataType : UInt8
  expire : Nat
  version : Nat
  size : Nat
  head : Nat
  tail : Nat
deriving DecidableEq, Inhabited

/-- `(*metadata).encode` -/
def encodeMeta (m : Meta) : ByteArray :=
  ofList (m.dataType :: (putVarintNat m.expire ++ putVarintNat m.version ++ putVarintNat m.size
    ++ (if m.dataType = tList then putUvarint m.head ++ putUvarint m.tail else [])))

/-- `decodeMetadata`.  `none`: empty buffer (Go: panic) or a varint that overflows / is negative
    (Go: continues with garbage).  A buffer that ends early yields zeros, as in Go (`n = 0`). -/
def decodeMeta (buf : ByteArray) : Option Meta :=
  match buf.data.toList with
  | [] => none
  | dt :: r1 =>
    match varintNat r1 with
    | none => none
    | some (expire, n1) =>
      match varintNat (r1.drop n1) with
      | none => none
      | some (version, n2) =>
        match varintNat ((r1.drop n1).drop n2) with
        | none => none
        | some (size, n3) =>
          if dt = tList then
            match uvarint (((r1.drop n1).drop n2).drop n3) with
            | none => none
            | some (head, n4) =>
              match uvarint ((((r1.drop n1).drop n2).drop n3).drop n4) with
              | none => none
              | some (tail, _) =>
                some { dataType := dt, expire, version, size := size % 2 ^ 32, head, tail }
          else some { dataType := dt, expire, version, size := size % 2 ^ 32, head := 0, tail := 0 }

/-- second result of `binary.Uvarint` / `binary.Varint`: bytes read, `0` (buffer ends inside the
    varint), or `-(i+1)` on overflow at byte `i` (`i = 10`: an eleventh byte; `i = 9`: tenth byte > 1) -/
def uvarintLen (bs : List UInt8) : Int :=
  match uvarint bs with
  | some (_, n) => n
  | none => if (bs.take 10).all (fun b => decide (128 ≤ b.toNat)) then -11 else -10

/-- `decodeMetadata` slices `buf[index:]` before each of its `n` varints, `index` being 1 plus the
    `n`s returned so far: a negative `index` is a run-time panic -/
def panicsFrom (l : List UInt8) : Nat → Int → Bool
  | 0, _ => false
  | n + 1, idx => if idx < 0 then true else panicsFrom l n (idx + uvarintLen (l.drop idx.toNat))

/-- does `decodeMetadata(buf)` panic?  (`buf[0]` on an empty record; three varints, five for a list) -/
def metaDecodePanics (buf : ByteArray) : Bool :=
  match buf.data.toList with
  | [] => true
  | t :: r => panicsFrom (t :: r) (if t = tList then 5 else 3) 1

/-- the stored value of a string key: type byte, varint expire, the value (`Set`) -/
def encodeStr (expire : Nat) (v : ByteArray) : ByteArray :=
  ofList (tString :: putVarintNat expire) ++ v

/-- common shape of all internal keys: user key, 8-byte little-endian version, a suffix -/
def ikey (key : ByteArray) (version : Nat) (sfx : ByteArray) : ByteArray :=
  key ++ le64 version ++ sfx

/-- `hashInternalKey.encode` -/
def hashKey (key : ByteArray) (version : Nat) (field : ByteArray) : ByteArray :=
  ikey key version field
/-- `setInternalKey.encode`: member, then its length as 4 bytes -/
def setKey (key : ByteArray) (version : Nat) (member : ByteArray) : ByteArray :=
  ikey key version (member ++ le32 member.size)
/-- `listInternalKey.encode` -/
def listKey (key : ByteArray) (version : Nat) (index : Nat) : ByteArray :=
  ikey key version (le64 index)
/-- `zsetInternalKey.encodeWithMember` (points to the score) -/
def zmemKey (key : ByteArray) (version : Nat) (member : ByteArray) : ByteArray :=
  ikey key version member
/-- `zsetInternalKey.encodeWithScore` (points to nil) -/
def zscoreKey (key : ByteArray) (version : Nat) (score : Score) (member : ByteArray) : ByteArray :=
  ikey key version (score ++ member ++ le32 member.size)

/-- `utils.Float64ToBytes` on a score given by its canonical text -/
def scoreBytes (s : Score) : ByteArray := s
/-- `utils.FloatFromBytes`: the parse error is ignored, so unparsable bytes (here: the empty value
    that `encodeWithScore` keys point to) read as `0` -/
def scoreOfBytes (v : ByteArray) : Score := if v.size = 0 then "0".toUTF8 else v

/-! ## commands -/

def freshMeta (dt : UInt8) (now : Nat) : Meta :=
  { dataType := dt, expire := 0, version := now, size := 0,
    head := if dt = tList then initialListMark else 0,
    tail := if dt = tList then initialListMark else 0 }

/-- `expire != 0 && expire <= now` for `expire, _ := binary.Varint(rest)`, `rest` being the record
    after its type byte (every record kind starts type ‖ expire).  An overflowing or truncated
    varint reads as `0` (never expires); an odd zig-zag value is a negative `int64`, which is
    `≠ 0` and `≤ now` (never written by this layer). -/
def recExpired (rest : List UInt8) (now : Nat) : Bool :=
  match uvarint rest with
  | none => false
  | some (ux, _) => ux % 2 = 1 || (ux / 2 ≠ 0 && ux / 2 ≤ now)

/-- `findMetadata`: the metadata of `key`, or a fresh one (version `now`, nothing written yet) when
    the key is missing or its record — of whatever type — has expired; an empty record or a live
    record of another type is `ErrWrongTypeOperation`; only a live record of the right type is
    decoded as metadata. -/
def findMetadata (kv : KV) (now : Nat) (key : ByteArray) (dt : UInt8) : Except Reply Meta :=
  if key.size = 0 then .error .keyEmpty else
  match kv.get key with
  | none => .ok (freshMeta dt now)
  | some buf =>
    match buf.data.toList with
    | [] => .error .wrongType
    | t :: r =>
      if recExpired r now then .ok (freshMeta dt now)
      else if t ≠ dt then .error .wrongType
      else if metaDecodePanics buf then .error .panic
      else
      match decodeMeta buf with
      | none => .error .otherErr
      | some m => .ok m

/-- `Set`: a nil value is a no-op; otherwise the record is overwritten whatever its type -/
def set (kv : KV) (now : Nat) (key : ByteArray) (value : Option ByteArray) (ttl : Nat) : KV × Reply :=
  match value with
  | none => (kv, .ok)
  | some v =>
    if key.size = 0 then (kv, .keyEmpty) else
    let expire := if ttl ≠ 0 then now + ttl else 0
    (kv.put key (encodeStr expire v), .ok)

/-- `Get` -/
def get (kv : KV) (now : Nat) (key : ByteArray) : KV × Reply :=
  if key.size = 0 then (kv, .keyEmpty) else
  match kv.get key with
  | none => (kv, .notFound)
  | some enc =>
    match enc.data.toList with
    | [] => (kv, .panic)
    | t :: r =>
      if t ≠ tString then (kv, .wrongType) else
      match uvarint r with
      | none => (kv, .panic)                       -- overflow: `index = 1 + n < 0`
      | some (ux, n) =>
        -- zig-zag: odd `ux` is a negative expiry, which never expires
        if ux % 2 = 0 ∧ ux / 2 > 0 ∧ ux / 2 ≤ now then (kv, .nil)
        else (kv, .bytes (enc.extract (1 + n) enc.size))

/-- `Del`: only the record under the user key goes away; element records stay behind -/
def del (kv : KV) (key : ByteArray) : KV × Reply :=
  if key.size = 0 then (kv, .keyEmpty) else (kv.delete key, .ok)

/-- `Type`: first byte of the record; an expired record is `ErrKeyNotFound` -/
def type (kv : KV) (now : Nat) (key : ByteArray) : KV × Reply :=
  if key.size = 0 then (kv, .keyEmpty) else
  match kv.get key with
  | none => (kv, .notFound)
  | some enc =>
    match enc.data.toList with
    | [] => (kv, .otherErr)                        -- "value is null"
    | t :: r => if recExpired r now then (kv, .notFound) else (kv, .size t.toNat)

/-- `HSet`: metadata (only when the field is new) and field in one batch -/
def hset (kv : KV) (now : Nat) (key field value : ByteArray) : KV × Reply :=
  match findMetadata kv now key tHash with
  | .error e => (kv, e)
  | .ok m =>
    let encKey := hashKey key m.version field
    let exist := (kv.get encKey).isSome
    let ops := (if exist then [] else [KV.Op.put key (encodeMeta { m with size := (m.size + 1) % 2 ^ 32 })])
      ++ [KV.Op.put encKey value]
    (kv.batch ops, .flag (!exist))

/-- `HGet`: `(nil, nil)` when the metadata says empty, else whatever `db.Get` says -/
def hget (kv : KV) (now : Nat) (key field : ByteArray) : KV × Reply :=
  match findMetadata kv now key tHash with
  | .error e => (kv, e)
  | .ok m =>
    if m.size = 0 then (kv, .nil) else
    match kv.get (hashKey key m.version field) with
    | none => (kv, .notFound)
    | some v => (kv, .ofStored v)

/-- `HDel` -/
def hdel (kv : KV) (now : Nat) (key field : ByteArray) : KV × Reply :=
  match findMetadata kv now key tHash with
  | .error e => (kv, e)
  | .ok m =>
    if m.size = 0 then (kv, .flag false) else
    let encKey := hashKey key m.version field
    if (kv.get encKey).isSome then
      (kv.batch [.put key (encodeMeta { m with size := m.size - 1 }), .del encKey], .flag true)
    else (kv, .flag false)

/-- `SAdd` -/
def sadd (kv : KV) (now : Nat) (key member : ByteArray) : KV × Reply :=
  match findMetadata kv now key tSet with
  | .error e => (kv, e)
  | .ok m =>
    let encKey := setKey key m.version member
    if (kv.get encKey).isSome then (kv, .flag false)
    else
      (kv.batch [.put key (encodeMeta { m with size := (m.size + 1) % 2 ^ 32 }), .put encKey ByteArray.empty],
       .flag true)

/-- `SIsMember` -/
def sismember (kv : KV) (now : Nat) (key member : ByteArray) : KV × Reply :=
  match findMetadata kv now key tSet with
  | .error e => (kv, e)
  | .ok m =>
    if m.size = 0 then (kv, .flag false) else
    (kv, .flag (kv.get (setKey key m.version member)).isSome)

/-- `SRem` -/
def srem (kv : KV) (now : Nat) (key member : ByteArray) : KV × Reply :=
  match findMetadata kv now key tSet with
  | .error e => (kv, e)
  | .ok m =>
    if m.size = 0 then (kv, .flag false) else
    let encKey := setKey key m.version member
    if (kv.get encKey).isSome then
      (kv.batch [.put key (encodeMeta { m with size := m.size - 1 }), .del encKey], .flag true)
    else (kv, .flag false)

/-- `pushInner`: uint64 index arithmetic wraps; metadata and element in one batch -/
def push (kv : KV) (now : Nat) (key elem : ByteArray) (isLeft : Bool) : KV × Reply :=
  match findMetadata kv now key tList with
  | .error e => (kv, e)
  | .ok m =>
    let index := if isLeft then (m.head + (2 ^ 64 - 1)) % 2 ^ 64 else m.tail
    let m' : Meta := { m with
      size := (m.size + 1) % 2 ^ 32,
      head := if isLeft then (m.head + (2 ^ 64 - 1)) % 2 ^ 64 else m.head,
      tail := if isLeft then m.tail else (m.tail + 1) % 2 ^ 64 }
    (kv.batch [.put key (encodeMeta m'), .put (listKey key m.version index) elem], .size m'.size)

/-- `popInner`: the element record is read, not deleted; only the metadata is rewritten, with a
    plain `db.Put` (no batch) -/
def pop (kv : KV) (now : Nat) (key : ByteArray) (isLeft : Bool) : KV × Reply :=
  match findMetadata kv now key tList with
  | .error e => (kv, e)
  | .ok m =>
    if m.size = 0 then (kv, .nil) else
    let index := if isLeft then m.head else (m.tail + (2 ^ 64 - 1)) % 2 ^ 64
    match kv.get (listKey key m.version index) with
    | none => (kv, .notFound)
    | some elem =>
      let m' : Meta := { m with
        size := m.size - 1,
        head := if isLeft then (m.head + 1) % 2 ^ 64 else m.head,
        tail := if isLeft then m.tail else (m.tail + (2 ^ 64 - 1)) % 2 ^ 64 }
      (kv.put key (encodeMeta m'), .ofStored elem)

def lpush (kv : KV) (now : Nat) (key elem : ByteArray) := push kv now key elem true
def rpush (kv : KV) (now : Nat) (key elem : ByteArray) := push kv now key elem false
def lpop (kv : KV) (now : Nat) (key : ByteArray) := pop kv now key true
def rpop (kv : KV) (now : Nat) (key : ByteArray) := pop kv now key false

/-- `ZAdd`: same score: nothing; new member: metadata, member key, score key; known member with
    another score: the old score key is deleted, the metadata is not rewritten -/
def zadd (kv : KV) (now : Nat) (key : ByteArray) (score : Score) (member : ByteArray) : KV × Reply :=
  match findMetadata kv now key tZSet with
  | .error e => (kv, e)
  | .ok m =>
    let memKey := zmemKey key m.version member
    match kv.get memKey with
    | some value =>
      if score = scoreOfBytes value then (kv, .flag false)
      else
        (kv.batch [.del (zscoreKey key m.version (scoreOfBytes value) member),
                   .put memKey (scoreBytes score),
                   .put (zscoreKey key m.version score member) ByteArray.empty], .flag false)
    | none =>
      (kv.batch [.put key (encodeMeta { m with size := (m.size + 1) % 2 ^ 32 }),
                 .put memKey (scoreBytes score),
                 .put (zscoreKey key m.version score member) ByteArray.empty], .flag true)

/-- `ZScore`: `(-1, nil)` when the metadata says empty -/
def zscore (kv : KV) (now : Nat) (key member : ByteArray) : KV × Reply :=
  match findMetadata kv now key tZSet with
  | .error e => (kv, e)
  | .ok m =>
    if m.size = 0 then (kv, .score "-1".toUTF8) else
    match kv.get (zmemKey key m.version member) with
    | none => (kv, .notFound)
    | some value => (kv, .score (scoreOfBytes value))

/-- one call of the service at time `now` -/
def run (c : Cmd) (kv : KV) (now : Nat) : KV × Reply :=
  match c with
  | .set k v ttl => set kv now k v ttl
  | .get k => get kv now k
  | .del k => del kv k
  | .type k => type kv now k
  | .hset k f v => hset kv now k f v
  | .hget k f => hget kv now k f
  | .hdel k f => hdel kv now k f
  | .sadd k m => sadd kv now k m
  | .sismember k m => sismember kv now k m
  | .srem k m => srem kv now k m
  | .lpush k e => lpush kv now k e
  | .rpush k e => rpush kv now k e
  | .lpop k => lpop kv now k
  | .rpop k => rpop kv now k
  | .zadd k s m => zadd kv now k s m
  | .zscore k m => zscore kv now k m

/-- a history: commands with the clock value of each call; replies in order -/
def runAll : List (Cmd × Nat) → KV → KV × List Reply
  | [], kv => (kv, [])
  | (c, now) :: cs, kv =>
    let (kv', r) := run c kv now
    let (kv'', rs) := runAll cs kv'
    (kv'', r :: rs)

end XixiKV.Datatype
