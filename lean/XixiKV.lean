import XixiKV.Model.Frame
import XixiKV.Model.Chunk
import XixiKV.Proofs.Bytes
import XixiKV.Proofs.Chunk
