-- This module serves as the root of the `XixiKV` library.
-- Import modules here that should be built as part of the library.
import XixiKV.Basic
