package main

import (
	"crypto/sha256"
	"encoding/hex"
	"fmt"
	"os"
	"path/filepath"
	"sort"
	"strconv"
	"time"
)

// directory-lock scenarios across processes (C16).
//
//	xkv lock hold <base> <dir> <startAtUnixNano> <holdMs>   open at the given instant, report, hold, close
//	xkv lock hash <base> <dir>                              content hash of a directory tree (names, sizes, bytes)
//	xkv lock stage <base> <dir> <stage>                     in-process: failing Open of kind <stage> followed by a good Open
func lockMain(a []string) {
	switch a[0] {
	case "hold":
		base, dir := a[1], a[2]
		at, _ := strconv.ParseInt(a[3], 10, 64)
		ms, _ := strconv.Atoi(a[4])
		for time.Now().UnixNano() < at {
		}
		s := newSession(base)
		t0 := time.Now().UnixNano()
		r := s.exec("open " + dir + " 65536 0 0 3 0 16")
		t1 := time.Now().UnixNano()
		if r != "ok" {
			fmt.Printf("%s %d %d 0 0\n", r, t0, t1)
			return
		}
		time.Sleep(time.Duration(ms) * time.Millisecond)
		t2 := time.Now().UnixNano()
		c := s.exec("close")
		t3 := time.Now().UnixNano()
		fmt.Printf("ok %d %d %d %d %s\n", t0, t1, t2, t3, c)
	case "hash":
		fmt.Println(hashTree(filepath.Join(a[1], a[2])))
	}
}

func hashTree(root string) string {
	h := sha256.New()
	var names []string
	filepath.Walk(root, func(p string, info os.FileInfo, err error) error {
		if err == nil && !info.IsDir() && info.Name() != ".lock" {
			names = append(names, p)
		}
		return nil
	})
	sort.Strings(names)
	for _, p := range names {
		rel, _ := filepath.Rel(root, p)
		b, _ := os.ReadFile(p)
		fmt.Fprintf(h, "%s:%d:", rel, len(b))
		h.Write(b)
	}
	return hex.EncodeToString(h.Sum(nil))
}
