package main

import (
	"crypto/sha256"
	"encoding/hex"
	"fmt"
	"os"
	"os/exec"
	"path/filepath"
	"sort"
	"strconv"
	"strings"
	"time"

	"github.com/XiXi-2024/xixi-kv/verifhook"
)

// directory-lock scenarios across processes (C16).
//
//	xkv lock hold <base> <dir> <startAtUnixNano> <holdMs>   open at the given instant, report, hold, close
//	xkv lock hash <base> <dir>                              content hash of a directory tree (names, sizes, bytes)
//	xkv lock stage <base> <dir> <stage>                     in-process: failing Open of kind <stage> followed by a good Open
func lockMain(a []string) {
	switch a[0] {
	case "hold":
		base, dir := a[1], a[2]
		at, _ := strconv.ParseInt(a[3], 10, 64)
		ms, _ := strconv.Atoi(a[4])
		for time.Now().UnixNano() < at {
		}
		s := newSession(base)
		t0 := time.Now().UnixNano()
		r := s.exec("open " + dir + " 65536 0 0 3 0 16")
		t1 := time.Now().UnixNano()
		if r != "ok" {
			fmt.Printf("%s %d %d 0 0\n", r, t0, t1)
			return
		}
		time.Sleep(time.Duration(ms) * time.Millisecond)
		t2 := time.Now().UnixNano()
		c := s.exec("close")
		t3 := time.Now().UnixNano()
		fmt.Printf("ok %d %d %d %d %s\n", t0, t1, t2, t3, c)
	case "hash":
		fmt.Println(hashTree(filepath.Join(a[1], a[2])))
	case "try":
		// one Open attempt by THIS process; closes again at once when it succeeded
		s := newSession(a[1])
		r := s.exec("open " + a[2] + " 65536 0 0 3 0 16")
		if r == "ok" {
			s.exec("close")
		}
		fmt.Println(r)
	case "duringclose":
		// xkv lock duringclose <base> <dir> <io>: at every file-level I/O event issued by Close (sync, close,
		// truncate of the data files) another PROCESS tries to open the directory; it must be refused until
		// Close has returned, and succeed afterwards.
		base, dir := a[1], a[2]
		s := newSession(base)
		if r := s.exec("open " + dir + " 4096 0 0 3 " + a[3] + " 16"); r != "ok" {
			fmt.Println("setup-open:", r)
			return
		}
		for i := 0; i < 12; i++ {
			s.exec(fmt.Sprintf("put 6b%02x p%d:900", i, i))
		}
		exe, _ := os.Executable()
		var during []string
		closing := true
		verifhook.IOFn = func(kind, name string, n int64) {
			if !closing || len(during) >= 6 {
				return
			}
			out, _ := exec.Command(exe, "lock", "try", base, dir).Output()
			during = append(during, kind+":"+strings.TrimSpace(string(out)))
		}
		c := s.exec("close")
		closing = false
		verifhook.IOFn = nil
		out, _ := exec.Command(exe, "lock", "try", base, dir).Output()
		fmt.Printf("close=%s during=%s after=%s\n", c, strings.Join(during, ","), strings.TrimSpace(string(out)))
	}
}

func hashTree(root string) string {
	h := sha256.New()
	var names []string
	filepath.Walk(root, func(p string, info os.FileInfo, err error) error {
		if err == nil && !info.IsDir() && info.Name() != ".lock" {
			names = append(names, p)
		}
		return nil
	})
	sort.Strings(names)
	for _, p := range names {
		rel, _ := filepath.Rel(root, p)
		b, _ := os.ReadFile(p)
		fmt.Fprintf(h, "%s:%d:", rel, len(b))
		h.Write(b)
	}
	return hex.EncodeToString(h.Sum(nil))
}
