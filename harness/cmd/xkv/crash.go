package main

import (
	"bufio"
	"encoding/hex"
	"encoding/json"
	"fmt"
	"io"
	"os"
	"path/filepath"
	"sort"
	"strconv"
	"strings"

	"github.com/XiXi-2024/xixi-kv/verifhook"
)

// crash enumeration (C03, C04, C07, C13).
//
//	xkv crash <base> <opsfile> <mode> [k=v ...]
//
// The workload in <opsfile> (engine-level ops on directory "d") is executed once with the I/O and
// crash-point hooks installed.  Immediately before every intercepted event (file open/create,
// write, sync, truncate, close; merge/adoption crash points) the directories d and d-merge are
// copied: that copy is the crash image "process died before this call".  For every file the
// number of bytes written and the number covered by the last completed sync are recorded, so that
// power-loss images (unsynced tails cut to a shorter length) can be derived.
//
// Output: one JSON object per line on stdout:
//   {"kind":"op", ...}      result of each workload op with the event range it spans
//   {"kind":"event", ...}   one per intercepted event
//   {"kind":"image", ...}   one per (event, cut) image: result of Open + dump (+ second reopen)

type fileInfo struct {
	Written int64 `json:"written"`
	Synced  int64 `json:"synced"`
}

type eventRec struct {
	Kind  string              `json:"kind"`
	K     int                 `json:"k"`
	Ev    string              `json:"ev"`
	File  string              `json:"file"`
	N     int64               `json:"n"`
	OpIdx int                 `json:"op"`
	Files map[string]fileInfo `json:"files,omitempty"`
}

type crashRun struct {
	crash2n  int
	base     string
	s        *session
	events   []eventRec
	opIdx    int
	snap     bool
	synced   map[string]int64 // per file (relative name) bytes covered by the last completed sync
	written  map[string]int64 // per file logical size (size at open + bytes written)
	pendSync string           // file whose sync event fired (completed when the next event fires)
	pendSize int64
	out      *bufio.Writer
	filter   func(ev string) bool
	mmap     bool
}

func rel(base, p string) string {
	r, err := filepath.Rel(base, p)
	if err != nil {
		return p
	}
	return r
}

// sparseCopy copies a file, skipping runs of zero bytes (mmap files are extended with zeros)
func sparseCopy(src, dst string) error {
	in, err := os.Open(src)
	if err != nil {
		return err
	}
	defer in.Close()
	st, err := in.Stat()
	if err != nil {
		return err
	}
	out, err := os.Create(dst)
	if err != nil {
		return err
	}
	defer out.Close()
	buf := make([]byte, 1<<20)
	var off int64
	// data is always a prefix followed by zeros: stop copying after 4 MiB of zeros
	zeros := int64(0)
	for off < st.Size() {
		n, err := in.ReadAt(buf, off)
		if n > 0 {
			allZero := true
			for _, b := range buf[:n] {
				if b != 0 {
					allZero = false
					break
				}
			}
			if !allZero {
				if _, werr := out.WriteAt(buf[:n], off); werr != nil {
					return werr
				}
				zeros = 0
			} else {
				zeros += int64(n)
				if zeros >= 4<<20 {
					break
				}
			}
			off += int64(n)
		}
		if err == io.EOF {
			break
		}
		if err != nil {
			return err
		}
	}
	return out.Truncate(st.Size())
}

func copyDirSparse(src, dst string) error {
	ents, err := os.ReadDir(src)
	if err != nil {
		return err
	}
	if err := os.MkdirAll(dst, 0o755); err != nil {
		return err
	}
	for _, e := range ents {
		if e.IsDir() || e.Name() == ".lock" {
			continue
		}
		if err := sparseCopy(filepath.Join(src, e.Name()), filepath.Join(dst, e.Name())); err != nil {
			return err
		}
	}
	return nil
}

func (c *crashRun) imgDir(k int) string { return filepath.Join(c.base, "img", strconv.Itoa(k)) }

func (c *crashRun) fileSizes() map[string]fileInfo {
	m := map[string]fileInfo{}
	for _, d := range []string{"d", "d-merge"} {
		ents, err := os.ReadDir(filepath.Join(c.base, d))
		if err != nil {
			continue
		}
		for _, e := range ents {
			if e.Name() == ".lock" {
				continue
			}
			info, err := e.Info()
			if err != nil {
				continue
			}
			name := d + "/" + e.Name()
			w, ok := c.written[name]
			if !ok {
				w = info.Size()
			}
			m[name] = fileInfo{Written: w, Synced: c.synced[name]}
		}
	}
	return m
}

func (c *crashRun) onEvent(ev, file string, n int64) {
	// a sync whose event fired earlier has completed by now
	if c.pendSync != "" {
		c.synced[c.pendSync] = c.pendSize
		c.pendSync = ""
	}
	name := rel(c.base, file)
	k := len(c.events)
	if ev == "open" {
		// size of the file at open time (0 when it is created by this call)
		if st, err := os.Stat(file); err == nil {
			n = st.Size()
		}
	}
	rec := eventRec{Kind: "event", K: k, Ev: ev, File: name, N: n, OpIdx: c.opIdx}
	if c.snap && (c.filter == nil || c.filter(ev)) {
		rec.Files = c.fileSizes()
		for _, d := range []string{"d", "d-merge"} {
			src := filepath.Join(c.base, d)
			if _, err := os.Stat(src); err == nil {
				copyDirSparse(src, filepath.Join(c.imgDir(k), d))
			}
		}
	}
	c.events = append(c.events, rec)
	// logical size of the file as the engine sees it: size at open + bytes written
	switch ev {
	case "open":
		if _, seen := c.written[name]; !seen {
			if st, err := os.Stat(file); err == nil {
				c.written[name] = st.Size()
				c.synced[name] = st.Size() // content that pre-exists the run is taken as durable
			} else {
				c.written[name] = 0
			}
		}
	case "write":
		c.written[name] += n
	case "sync":
		c.pendSync = name
		c.pendSize = c.written[name]
	case "truncate":
		// MMap.ResetFileSize flushes before it truncates; DataFile.Truncate cuts a torn tail
		if n < c.written[name] {
			c.written[name] = n
		}
		if c.synced[name] > n {
			c.synced[name] = n
		}
		if c.mmap {
			c.pendSync = name
			c.pendSize = c.written[name]
		}
	}
}

func crashMain(a []string) {
	base := a[0]
	opsFile := a[1]
	mode := a[2] // "io" : snapshot at every I/O event; "points": only merge/adoption points + I/O of merge
	opts := map[string]string{}
	for _, kv := range a[3:] {
		if i := strings.Index(kv, "="); i > 0 {
			opts[kv[:i]] = kv[i+1:]
		}
	}
	data, err := os.ReadFile(opsFile)
	if err != nil {
		fmt.Fprintln(os.Stderr, err)
		os.Exit(2)
	}
	var ops []string
	for _, l := range strings.Split(string(data), "\n") {
		l = strings.TrimSpace(l)
		if l != "" && !strings.HasPrefix(l, "#") {
			ops = append(ops, l)
		}
	}
	c := &crashRun{base: base, s: newSession(base), synced: map[string]int64{}, written: map[string]int64{}, out: bufio.NewWriterSize(os.Stdout, 1<<20)}
	defer c.out.Flush()
	enc := json.NewEncoder(c.out)
	from := 0
	if v, ok := opts["from"]; ok {
		from, _ = strconv.Atoi(v)
	}
	if mode == "points" {
		c.filter = func(ev string) bool { return strings.HasPrefix(ev, "adopt.") || strings.HasPrefix(ev, "merge.") }
	}
	verifhook.IOFn = func(kind, name string, n int64) { c.onEvent(kind, name, n) }
	verifhook.PointFn = func(name, arg string) {
		if name == "merge.record" || name == "merge.file" || strings.HasPrefix(name, "put.") || strings.HasPrefix(name, "del.") || strings.HasPrefix(name, "listkeys.") {
			return
		}
		c.onEvent(name, arg, 0)
	}
	readerCfg := ""
	for i, op := range ops {
		c.opIdx = i
		c.snap = i >= from
		f := strings.Fields(op)
		if f[0] == "open" {
			readerCfg = strings.Join(f[2:], " ")
			c.mmap = len(f) > 6 && f[6] == "1"
		}
		first := len(c.events)
		res := c.s.exec(op)
		enc.Encode(map[string]interface{}{"kind": "op", "i": i, "op": op, "res": res, "ev_from": first, "ev_to": len(c.events)})
	}
	c.snap = false
	// a final image after everything (clean state if the workload closed the db)
	verifhook.IOFn = nil
	verifhook.PointFn = nil
	for _, e := range c.events {
		enc.Encode(e)
	}
	if v, ok := opts["reader"]; ok {
		readerCfg = strings.ReplaceAll(v, ",", " ")
	}
	cuts := opts["cuts"] // "none" | "few" | "all"
	if cuts == "" {
		cuts = "few"
	}
	level2 := opts["level2"] == "1"
	for _, e := range c.events {
		if e.Files == nil {
			continue
		}
		img := c.imgDir(e.K)
		if _, err := os.Stat(img); err != nil {
			continue
		}
		variants := []map[string]int64{nil}
		if cuts != "none" {
			// power loss: cut each file with an unsynced tail
			names := make([]string, 0, len(e.Files))
			for n := range e.Files {
				names = append(names, n)
			}
			sort.Strings(names)
			for _, n := range names {
				fi := e.Files[n]
				w := fi.Written
				if fi.Synced >= w {
					continue
				}
				var ls []int64
				if cuts == "all" && w-fi.Synced <= 300 {
					for x := fi.Synced; x < w; x++ {
						ls = append(ls, x)
					}
				} else {
					ls = []int64{fi.Synced, (fi.Synced + w) / 2, w - 1}
					if cuts == "all" {
						for _, b := range []int64{32768, 65536} {
							for d := int64(-12); d <= 12; d++ {
								if x := b + d; x > fi.Synced && x < w {
									ls = append(ls, x)
								}
							}
						}
					}
				}
				seen := map[int64]bool{}
				for _, x := range ls {
					if x < fi.Synced || x >= w || seen[x] {
						continue
					}
					seen[x] = true
					variants = append(variants, map[string]int64{n: x})
				}
			}
		}
		// removal of a leftover merge directory (os.RemoveAll) is not atomic: the process may die after any of its unlinks.
		// Variants of the image at that point: each single file of the merge directory already gone, and all of its data
		// files gone - with whatever else (the marker in particular) the code has left in place at this point.
		rmVariants := [][]string{nil}
		if e.Ev == "merge.rmleftover" {
			if ents, err := os.ReadDir(filepath.Join(img, "d-merge")); err == nil {
				var all []string
				for _, en := range ents {
					if strings.HasSuffix(en.Name(), ".merge-finished") || en.Name() == ".lock" {
						continue
					}
					rmVariants = append(rmVariants, []string{en.Name()})
					if strings.HasSuffix(en.Name(), ".data") {
						all = append(all, en.Name())
					}
				}
				if len(all) > 1 {
					rmVariants = append(rmVariants, all)
				}
			}
			variants = variants[:1]
		}
		for ri, rmv := range rmVariants {
			for vi, cut := range variants {
				if ri > 0 && vi > 0 {
					continue
				}
				work := filepath.Join(c.base, "work")
				os.RemoveAll(work)
				copyDirSparse(filepath.Join(img, "d"), filepath.Join(work, "d"))
				if _, err := os.Stat(filepath.Join(img, "d-merge")); err == nil {
					copyDirSparse(filepath.Join(img, "d-merge"), filepath.Join(work, "d-merge"))
				}
				for n, x := range cut {
					p := filepath.Join(work, n)
					st, _ := os.Stat(p)
					os.Truncate(p, x)
					if c.mmap && st != nil {
						os.Truncate(p, st.Size()) // an mmap file keeps its size; the lost bytes read as zeros
					}
				}
				for _, n := range rmv {
					os.Remove(filepath.Join(work, "d-merge", n))
				}
				resImg := map[string]interface{}{"kind": "image", "k": e.K, "variant": vi + 100*ri, "cut": cut, "ev": e.Ev, "op": e.OpIdx}
				if rmv != nil {
					resImg["rm"] = rmv
				}
				if opts["dumpfiles"] == "1" {
					resImg["files"] = dumpFiles(work)
					dirs := []string{}
					for _, d := range []string{"d", "d-merge"} {
						if st, err := os.Stat(filepath.Join(work, d)); err == nil && st.IsDir() {
							dirs = append(dirs, d)
						}
					}
					resImg["dirs"] = dirs
				}
				s2 := newSession(work)
				r1 := s2.exec("open d " + readerCfg)
				resImg["open"] = r1
				if r1 == "ok" {
					resImg["dump"] = s2.exec("dump")
					resImg["stat"] = s2.exec("stat")
					resImg["scanstat"] = s2.exec("scanstat")
					// recovery must leave a directory that keeps working: write, restart, read
					resImg["put"] = s2.exec("put 7a7a7a x5a")
					// a later committed batch must not seal the leftovers of a batch that died before its commit
					s2.exec("bnew 0 7999999")
					s2.exec("bput 7a7a7b x5b")
					resImg["bcommit"] = s2.exec("bcommit")
					s2.exec("bdrop")
					// a SECOND crash (process death, no Close) right after the recovery and these writes: the image is the
					// directory as the OS sees it now.  Everything acknowledged so far must be there - in particular whatever
					// recovery cut away logically must not resurface behind the new records (pre-extended mmap files).
					// (under mmap every Open of an unclean image reads and clears the 512 MiB extension: only images with a cut
					// tail - the ones recovery truncates - and at most 8 of them per run)
					if opts["crash2"] != "0" && (!c.mmap || (cut != nil && c.crash2n < 8)) {
						c.crash2n++
						w3 := filepath.Join(c.base, "work3")
						os.RemoveAll(w3)
						copyDirSparse(filepath.Join(work, "d"), filepath.Join(w3, "d"))
						if _, err := os.Stat(filepath.Join(work, "d-merge")); err == nil {
							copyDirSparse(filepath.Join(work, "d-merge"), filepath.Join(w3, "d-merge"))
						}
						s3 := newSession(w3)
						r3 := s3.exec("open d " + readerCfg)
						resImg["c2open"] = r3
						if r3 == "ok" {
							resImg["c2dump"] = s3.exec("dump")
							s3.exec("close")
						}
						os.RemoveAll(w3)
					}
					if opts["postmerge"] == "1" {
						// after recovery: delete the first recovered key, run a complete Merge, restart (adoption).
						// A merge interrupted earlier must not leak into this one.
						d := s2.exec("dump")
						if i := strings.Index(d, " "); i > 0 {
							if f := strings.Fields(d); len(f) > 2 {
								first := strings.SplitN(strings.SplitN(f[2], ",", 2)[0], "=", 2)[0]
								resImg["victim"] = first
								resImg["del"] = s2.exec("del " + first)
							}
						}
						resImg["merge"] = s2.exec("merge")
					}
					resImg["close"] = s2.exec("close")
					resImg["listing"] = listDir(filepath.Join(work, "d"))
					resImg["mergedir"] = listDir(filepath.Join(work, "d-merge"))
					r2 := s2.exec("open d " + readerCfg)
					resImg["open2"] = r2
					if r2 == "ok" {
						resImg["dump2"] = s2.exec("dump")
						s2.exec("close")
					}
				}
				enc.Encode(resImg)
				c.out.Flush()
				if level2 && vi == 0 && ri == 0 && (strings.HasPrefix(e.Ev, "adopt.") || strings.HasPrefix(e.Ev, "merge.") || e.File == "" || strings.Contains(e.File, "merge")) {
					c.secondLevel(enc, img, e, readerCfg)
				}
			}
		}
		os.RemoveAll(img)
	}
}

// secondLevel: crash the retry (the Open of a crash image) at each of its own crash points
func (c *crashRun) secondLevel(enc *json.Encoder, img string, e eventRec, readerCfg string) {
	work := filepath.Join(c.base, "work2")
	os.RemoveAll(work)
	copyDirSparse(filepath.Join(img, "d"), filepath.Join(work, "d"))
	if _, err := os.Stat(filepath.Join(img, "d-merge")); err == nil {
		copyDirSparse(filepath.Join(img, "d-merge"), filepath.Join(work, "d-merge"))
	} else {
		return
	}
	n := 0
	snaps := []string{}
	verifhook.PointFn = func(name, arg string) {
		if !strings.HasPrefix(name, "adopt.") {
			return
		}
		d := filepath.Join(c.base, "img2", strconv.Itoa(n))
		copyDirSparse(filepath.Join(work, "d"), filepath.Join(d, "d"))
		if _, err := os.Stat(filepath.Join(work, "d-merge")); err == nil {
			copyDirSparse(filepath.Join(work, "d-merge"), filepath.Join(d, "d-merge"))
		}
		snaps = append(snaps, name)
		n++
	}
	s := newSession(work)
	s.exec("open d " + readerCfg)
	s.exec("close")
	verifhook.PointFn = nil
	for i, name := range snaps {
		d := filepath.Join(c.base, "img2", strconv.Itoa(i))
		s2 := newSession(d)
		res := map[string]interface{}{"kind": "image", "k": e.K, "variant": 0, "ev": e.Ev, "op": e.OpIdx, "level2": name}
		r := s2.exec("open d " + readerCfg)
		res["open"] = r
		if r == "ok" {
			res["dump"] = s2.exec("dump")
			res["close"] = s2.exec("close")
			res["listing"] = listDir(filepath.Join(d, "d"))
			res["mergedir"] = listDir(filepath.Join(d, "d-merge"))
			r2 := s2.exec("open d " + readerCfg)
			res["open2"] = r2
			if r2 == "ok" {
				res["dump2"] = s2.exec("dump")
				s2.exec("close")
			}
		}
		enc.Encode(res)
	}
	os.RemoveAll(filepath.Join(c.base, "img2"))
	os.RemoveAll(work)
}

func nonZeroPrefix(p string) int64 {
	f, err := os.Open(p)
	if err != nil {
		return 0
	}
	defer f.Close()
	buf := make([]byte, 1<<20)
	var off, last int64
	zeros := int64(0)
	for {
		n, err := f.ReadAt(buf, off)
		for i := 0; i < n; i++ {
			if buf[i] != 0 {
				last = off + int64(i) + 1
				zeros = 0
			}
		}
		zeros += int64(n)
		off += int64(n)
		if err != nil || zeros > 8<<20 {
			break
		}
	}
	return last
}

// dumpFiles returns the logical content of every file of the image (hex; zero tails stripped and
// reported as a count) so that the model can be loaded with exactly these bytes
func dumpFiles(work string) map[string]string {
	m := map[string]string{}
	for _, d := range []string{"d", "d-merge"} {
		ents, err := os.ReadDir(filepath.Join(work, d))
		if err != nil {
			continue
		}
		for _, e := range ents {
			if e.Name() == ".lock" {
				continue
			}
			p := filepath.Join(work, d, e.Name())
			st, _ := os.Stat(p)
			n := st.Size()
			if n > 8<<20 {
				n = nonZeroPrefix(p)
			}
			b := make([]byte, n)
			f, _ := os.Open(p)
			io.ReadFull(f, b)
			f.Close()
			m[d+"/"+e.Name()] = hex.EncodeToString(b) + fmt.Sprintf(":%d", st.Size()-n)
		}
	}
	return m
}
