package main

import (
	"fmt"
	"io"
	"sort"
	"strings"

	"github.com/XiXi-2024/xixi-kv/datafile"
)

// scanstat recomputes, with the package's own sequential reader, what Stat should report:
// it replays every open data file in id order with the batch rule (tagged records apply at their
// finished record) and sums the sizes of the records that are live at the end.
func (s *session) scanStat() string {
	type ent struct {
		size uint32
	}
	live := map[string]ent{}
	pending := map[uint64][]struct {
		k   string
		typ byte
		sz  uint32
	}{}
	apply := func(k string, typ byte, sz uint32) {
		if typ == datafile.LogRecordDeleted {
			delete(live, k)
		} else {
			live[k] = ent{sz}
		}
	}
	var parts []string
	for _, f := range s.db.VerifFiles() {
		rd := f.NewReader()
		recs, fins, bytes := 0, 0, int64(0)
		status := "eof"
		for {
			r, p, err := rd.NextLogRecord()
			if err != nil {
				if err != io.EOF {
					status = errClass(err)
				}
				break
			}
			recs++
			bytes += int64(p.Size)
			if r.BatchID == 0 {
				apply(string(r.Key), r.Type, p.Size)
			} else if r.Type == datafile.LogRecordBatchFinished {
				fins++
				for _, x := range pending[r.BatchID] {
					apply(x.k, x.typ, x.sz)
				}
				delete(pending, r.BatchID)
			} else {
				pending[r.BatchID] = append(pending[r.BatchID], struct {
					k   string
					typ byte
					sz  uint32
				}{string(r.Key), r.Type, p.Size})
			}
		}
		parts = append(parts, fmt.Sprintf("%d:%d:%d:%d:%d:%s", f.ID, f.Size(), recs, fins, bytes, status))
	}
	var liveBytes int64
	keys := make([]string, 0, len(live))
	for k, e := range live {
		liveBytes += int64(e.size)
		keys = append(keys, k)
	}
	sort.Strings(keys)
	return fmt.Sprintf("scan keys=%d live=%d files=%s", len(live), liveBytes, strings.Join(parts, ","))
}
