package main

type ioLog struct{}
