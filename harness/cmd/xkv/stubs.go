package main

import (
	"fmt"
	"os"
)

type ioLog struct{}

func (s *session) execDT(op string, a []string) string { return "bad:dt-not-built" }

func schedMain(a []string) { fmt.Fprintln(os.Stderr, "not built"); os.Exit(2) }
func raceMain(a []string)  { fmt.Fprintln(os.Stderr, "not built"); os.Exit(2) }
func lockMain(a []string)  { fmt.Fprintln(os.Stderr, "not built"); os.Exit(2) }
