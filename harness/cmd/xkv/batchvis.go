package main

import (
	"encoding/json"
	"errors"
	"fmt"
	"os"
	"path/filepath"
	"strconv"
	"strings"
	"sync"
	"sync/atomic"
	"time"

	kv "github.com/XiXi-2024/xixi-kv"
	"github.com/XiXi-2024/xixi-kv/verifhook"
)

// batchvisMain: what OTHER goroutines can observe while a batch is open (C08 / C05 / C10).
//
// A batch holds the DB write lock from NewBatch to Commit and takes effect as ONE atomic multi-key write at its Commit.
// When the staged data outgrows the data file the batch flushes early: the records go to the log tagged with the batch id
// and the index is updated right away.  No reader may return a result that depends on those updates before the Commit, and
// no reader may ever return a value that no committed state held.
//
//	xkv batchvis <base> <index type> <io type>
//
// Output: one JSON object per scenario {"scenario", "observations", "violations"}.
func batchvisMain(a []string) {
	base := a[0]
	idx, _ := strconv.Atoi(a[1])
	iot, _ := strconv.Atoi(a[2])
	enc := json.NewEncoder(os.Stdout)
	open := func(name string) *kv.DB {
		o := kv.DefaultOptions
		o.DirPath = filepath.Join(base, name)
		o.DataFileSize = 4096
		o.IndexType = int8(idx)
		o.FileIOType = byte(iot)
		o.ShardNum = 4
		db, err := kv.Open(o)
		if err != nil {
			fmt.Println(`{"error":"open failed"}`)
			os.Exit(1)
		}
		return db
	}
	pad := []byte(strings.Repeat("x", 2000))
	type res struct {
		val string
		err error
	}
	show := func(r res) string {
		if r.err != nil {
			if errors.Is(r.err, kv.ErrKeyNotFound) {
				return "notfound"
			}
			return errClass(r.err)
		}
		return "val:" + r.val
	}
	asyncGet := func(db *kv.DB, key string) chan res {
		ch := make(chan res, 1)
		go func() {
			v, err := db.Get([]byte(key))
			ch <- res{string(v), err}
		}()
		return ch
	}
	within := func(ch chan res, d time.Duration) (res, bool) {
		select {
		case r := <-ch:
			return r, true
		case <-time.After(d):
			return res{}, false
		}
	}

	// ---- A: a key deleted by an open batch whose delete has been flushed early
	{
		db := open("a")
		obs := map[string]string{}
		var viol []string
		must(db.Put([]byte("k1"), []byte("old")))
		b := db.NewBatch(kv.DefaultBatchOptions)
		must(b.Delete([]byte("k1")))
		must(b.Put([]byte("pad1"), pad))
		must(b.Put([]byte("pad2"), pad)) // the staged data no longer fits the data file: early flush
		g := asyncGet(db, "k1")
		if r, done := within(g, 150*time.Millisecond); done {
			obs["get k1 while the batch is open"] = show(r)
			if show(r) != "val:old" {
				viol = append(viol, "Get(k1) returned "+show(r)+" while the batch that deletes k1 was still open (committed value: old)")
			}
			g = nil
		} else {
			obs["get k1 while the batch is open"] = "blocked"
		}
		// snapshots taken while the batch is open
		kch := make(chan []string, 1)
		go func() {
			var ks []string
			for _, k := range db.ListKeys() {
				ks = append(ks, string(k))
			}
			kch <- ks
		}()
		var keysLate bool
		select {
		case ks := <-kch:
			obs["ListKeys while the batch is open"] = strings.Join(ks, ",")
			if strings.Join(ks, ",") != "k1" {
				viol = append(viol, "ListKeys returned ["+strings.Join(ks, ",")+"] while the batch was still open (committed keys: k1)")
			}
		case <-time.After(150 * time.Millisecond):
			obs["ListKeys while the batch is open"] = "blocked"
			keysLate = true
		}
		ich := make(chan string, 1)
		go func() {
			it := db.NewIterator(kv.DefaultIteratorOptions)
			var ks []string
			for ; it.Valid(); it.Next() {
				ks = append(ks, string(it.Key()))
			}
			it.Close()
			ich <- strings.Join(ks, ",")
		}()
		var iterLate bool
		select {
		case ks := <-ich:
			obs["iterator created while the batch is open"] = ks
			if ks != "k1" {
				viol = append(viol, "an iterator created while the batch was still open yields ["+ks+"] (committed keys: k1)")
			}
		case <-time.After(150 * time.Millisecond):
			obs["iterator created while the batch is open"] = "blocked"
			iterLate = true
		}
		must(b.Commit())
		if g != nil {
			r := <-g
			obs["the blocked get k1 after Commit"] = show(r)
			if show(r) != "val:old" && show(r) != "notfound" {
				viol = append(viol, "the Get(k1) that waited for the Commit returned "+show(r))
			}
		}
		if keysLate {
			ks := <-kch
			obs["the blocked ListKeys after Commit"] = strings.Join(ks, ",")
			if strings.Join(ks, ",") != "pad1,pad2" && strings.Join(ks, ",") != "k1" {
				viol = append(viol, "the ListKeys that waited for the Commit returned ["+strings.Join(ks, ",")+"]")
			}
		}
		if iterLate {
			ks := <-ich
			obs["the blocked iterator after Commit"] = ks
			if ks != "pad1,pad2" && ks != "k1" {
				viol = append(viol, "the iterator that waited for the Commit yields ["+ks+"]")
			}
		}
		db.Close()
		enc.Encode(map[string]interface{}{"scenario": "A deleted key, early flush", "observations": obs, "violations": viol})
	}

	// ---- B: a value that is overwritten again inside the same batch after it has been flushed early
	{
		db := open("b")
		obs := map[string]string{}
		var viol []string
		must(db.Put([]byte("k"), []byte("old")))
		b := db.NewBatch(kv.DefaultBatchOptions)
		must(b.Put([]byte("k"), []byte("v1")))
		must(b.Put([]byte("pad1"), pad))
		must(b.Put([]byte("pad2"), pad)) // early flush: k -> v1 is in the log and in the index
		g := asyncGet(db, "k")
		if r, done := within(g, 150*time.Millisecond); done {
			obs["get k while the batch is open"] = show(r)
			if show(r) != "val:old" {
				viol = append(viol, "Get(k) returned "+show(r)+" while the batch was still open (committed value: old)")
			}
			g = nil
		} else {
			obs["get k while the batch is open"] = "blocked"
		}
		must(b.Put([]byte("k"), []byte("v2")))
		must(b.Commit())
		if g != nil {
			r := <-g
			obs["the blocked get k after Commit"] = show(r)
			if show(r) != "val:old" && show(r) != "val:v2" {
				viol = append(viol, "the Get(k) that waited for the Commit returned "+show(r)+": no committed state ever held that value (old before the batch, v2 after it)")
			}
		}
		r := <-asyncGet(db, "k")
		obs["get k after Commit"] = show(r)
		if show(r) != "val:v2" {
			viol = append(viol, "Get(k) after Commit returned "+show(r))
		}
		db.Close()
		enc.Encode(map[string]interface{}{"scenario": "B value rewritten after its early flush", "observations": obs, "violations": viol})
	}

	// ---- C: a reader racing with Commit must not see the batch half applied (no early flush involved)
	{
		db := open("c")
		var viol []string
		var half, rounds int64
		for round := 0; round < 300; round++ {
			k1, k2 := []byte(fmt.Sprintf("d%03d", round)), []byte(fmt.Sprintf("p%03d", round))
			must(db.Put(k1, []byte("old1")))
			must(db.Put(k2, []byte("old2")))
			b := db.NewBatch(kv.DefaultBatchOptions)
			must(b.Delete(k1))
			for i := 0; i < 6; i++ {
				must(b.Put([]byte(fmt.Sprintf("f%03d-%d", round, i)), []byte("x")))
			}
			must(b.Put(k2, []byte("new2")))
			var wg sync.WaitGroup
			var stop int32
			wg.Add(1)
			go func() {
				defer wg.Done()
				for atomic.LoadInt32(&stop) == 0 {
					_, e1 := db.Get(k1)
					v2, e2 := db.Get(k2)
					// k1 already deleted by the batch, then k2 still at its old value: the batch half applied
					if errors.Is(e1, kv.ErrKeyNotFound) && e2 == nil && string(v2) == "old2" {
						atomic.AddInt64(&half, 1)
						return
					}
					if errors.Is(e1, kv.ErrKeyNotFound) {
						return
					}
				}
			}()
			time.Sleep(200 * time.Microsecond)
			must(b.Commit())
			atomic.StoreInt32(&stop, 1)
			wg.Wait()
			rounds++
		}
		if half > 0 {
			viol = append(viol, fmt.Sprintf("in %d of %d rounds a reader saw Get(k1) = not found (deleted by the batch) and THEN Get(k2) = old2 (not yet written by the same batch): the batch was observed half applied", half, rounds))
		}
		db.Close()
		enc.Encode(map[string]interface{}{"scenario": "C reader racing with Commit", "observations": map[string]string{"rounds": strconv.FormatInt(rounds, 10), "half_applied": strconv.FormatInt(half, 10)}, "violations": viol})
	}

	// ---- D: a Merge in its unlocked scan phase while a batch opens and flushes early, then the process dies before Commit
	{
		db := open("d")
		obs := map[string]string{}
		var viol []string
		must(db.Put([]byte("k"), []byte("old")))
		must(db.Put([]byte("other"), []byte("o")))
		paused := make(chan struct{})
		resume := make(chan struct{})
		first := true
		verifhook.PointFn = func(name, arg string) {
			if name == "merge.record" && first {
				first = false
				close(paused)
				<-resume
			}
		}
		mdone := make(chan error, 1)
		go func() { mdone <- db.Merge() }()
		<-paused
		b := db.NewBatch(kv.DefaultBatchOptions)
		must(b.Put([]byte("k"), []byte("new")))
		must(b.Put([]byte("pad1"), pad))
		must(b.Put([]byte("pad2"), pad)) // early flush: the index entry of k now points at the uncommitted record
		close(resume)
		image := func(tag string) string {
			img := filepath.Join(base, "img-"+tag)
			copyDirSparse(filepath.Join(base, "d"), filepath.Join(img, "d"))
			if _, err := os.Stat(filepath.Join(base, "d-merge")); err == nil {
				copyDirSparse(filepath.Join(base, "d-merge"), filepath.Join(img, "d-merge"))
			}
			o := kv.DefaultOptions
			o.DirPath = filepath.Join(img, "d")
			o.DataFileSize = 4096
			o.IndexType = int8(idx)
			o.ShardNum = 4
			db2, err := kv.Open(o)
			if err != nil {
				return "open:" + errClass(err)
			}
			defer db2.Close()
			v, err := db2.Get([]byte("k"))
			return show(res{string(v), err})
		}
		// Merge cannot RETURN while the batch is open (its deferred epilogue needs the DB lock), but everything it writes -
		// the completion marker last - is written before that: give it time, then let the process die with the batch open
		markerPath := filepath.Join(base, "d-merge", "000000000.merge-finished")
		for i := 0; i < 30; i++ {
			if _, err := os.Stat(markerPath); err == nil {
				break
			}
			time.Sleep(10 * time.Millisecond)
		}
		if _, err := os.Stat(markerPath); err == nil {
			obs["Merge while the batch is open"] = "wrote its completion marker"
		} else {
			obs["Merge while the batch is open"] = "waits (no marker)"
		}
		got0 := image("uncommitted")
		obs["k after process death before Commit + restart"] = got0
		if got0 != "val:old" {
			viol = append(viol, "a Merge completed its output while a batch was open (its scan saw the early index update of the uncommitted batch and did not rewrite the live record of k); process death before Commit, restart: k -> "+got0+", committed value: old")
		}
		must(b.Commit())
		if mdone != nil {
			err := <-mdone
			obs["Merge after Commit"] = errClass(err)
		}
		verifhook.PointFn = nil
		got := image("committed")
		obs["k after Commit, process death + restart"] = got
		if got != "val:new" {
			viol = append(viol, "after Commit, Merge, process death and restart k -> "+got+", expected new")
		}
		db.Close()
		enc.Encode(map[string]interface{}{"scenario": "D merge scan during an open batch, process death before Commit", "observations": obs, "violations": viol})
	}

	// ---- E: overwrites during the unlocked scan phase of a Merge, then a power failure after the Merge has completed
	for _, viaBatch := range []bool{false, true} {
		dn := "e"
		if viaBatch {
			dn = "f"
		}
		db := open(dn)
		obs := map[string]string{}
		var viol []string
		must(db.Put([]byte("k"), []byte("old")))
		must(db.Put([]byte("j"), []byte("jold")))
		must(db.Sync())
		// per file: bytes written and bytes covered by the last completed fsync (standard I/O: the engine's own event hooks)
		written := map[string]int64{}
		synced := map[string]int64{}
		var iomu sync.Mutex
		verifhook.IOFn = func(kind, name string, n int64) {
			iomu.Lock()
			defer iomu.Unlock()
			switch kind {
			case "open":
				if _, ok := written[name]; !ok {
					if st, err := os.Stat(name); err == nil {
						written[name] = st.Size()
						synced[name] = st.Size()
					}
				}
			case "write":
				written[name] += n
			case "sync":
				synced[name] = written[name]
			}
		}
		paused := make(chan struct{})
		resume := make(chan struct{})
		first := true
		verifhook.PointFn = func(name, arg string) {
			if name == "merge.record" && first {
				first = false
				close(paused)
				<-resume
			}
		}
		mdone := make(chan error, 1)
		go func() { mdone <- db.Merge() }()
		<-paused
		// acknowledged, not flushed (SyncStrategy No): the index now points at these records, Merge will not rewrite the old ones
		if viaBatch {
			// the same two writes as ONE batch created without Sync (the batch path keeps its own byte accounting)
			b := db.NewBatch(kv.BatchOptions{Sync: false})
			must(b.Put([]byte("k"), []byte("new")))
			must(b.Delete([]byte("j")))
			must(b.Commit())
		} else {
			must(db.Put([]byte("k"), []byte("new")))
			must(db.Delete([]byte("j")))
		}
		close(resume)
		err := <-mdone
		verifhook.PointFn = nil
		verifhook.IOFn = nil
		obs["Merge"] = errClass(err)
		// power failure now: every file of the data directory keeps its flushed prefix only
		img := filepath.Join(base, "img-"+dn)
		copyDirSparse(filepath.Join(base, dn), filepath.Join(img, dn))
		if _, err := os.Stat(filepath.Join(base, dn+"-merge")); err == nil {
			copyDirSparse(filepath.Join(base, dn+"-merge"), filepath.Join(img, dn+"-merge"))
		}
		iomu.Lock()
		for name, w := range written {
			if filepath.Dir(name) != filepath.Join(base, dn) {
				continue
			}
			if sy := synced[name]; sy < w {
				os.Truncate(filepath.Join(img, dn, filepath.Base(name)), sy)
				obs["cut "+filepath.Base(name)] = fmt.Sprintf("%d of %d bytes survive", sy, w)
			}
		}
		iomu.Unlock()
		o := kv.DefaultOptions
		o.DirPath = filepath.Join(img, dn)
		o.DataFileSize = 4096
		o.IndexType = int8(idx)
		o.ShardNum = 4
		db2, err := kv.Open(o)
		if err != nil {
			viol = append(viol, "Open after the power failure: "+errClass(err))
		} else {
			v, e1 := db2.Get([]byte("k"))
			gk := show(res{string(v), e1})
			v, e1 = db2.Get([]byte("j"))
			gj := show(res{string(v), e1})
			obs["k after power failure + restart"] = gk
			obs["j after power failure + restart"] = gj
			// acknowledged history: k=old, j=jold (flushed) ; k=new ; del j.  Recovery must show a prefix that contains the flushed part
			ok := (gk == "val:old" && gj == "val:jold") || (gk == "val:new" && gj == "val:jold" && !viaBatch) || (gk == "val:new" && gj == "notfound")
			if !ok {
				viol = append(viol, "writes that raced with a Merge, power failure after the Merge completed: k -> "+gk+", j -> "+gj+
					"; the flushed history is k=old, j=jold, then k=new, then delete j - no prefix of it gives that (the Merge dropped the flushed records its output was meant to replace, and the records that superseded them were not flushed yet)")
			}
			db2.Close()
		}
		db.Close()
		name := "E writes racing with a Merge, power failure after it"
		if viaBatch {
			name = "F a batch without Sync racing with a Merge, power failure after it"
		}
		enc.Encode(map[string]interface{}{"scenario": name, "observations": obs, "violations": viol})
	}
}

func must(err error) {
	if err != nil {
		fmt.Printf(`{"error":%q}`+"\n", err.Error())
		os.Exit(1)
	}
}
