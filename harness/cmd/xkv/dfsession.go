package main

import (
	"fmt"
	"io"
	"os"
	"path/filepath"
	"strconv"
	"strings"

	"github.com/XiXi-2024/xixi-kv/datafile"
	"github.com/XiXi-2024/xixi-kv/fio"
	"github.com/XiXi-2024/xixi-kv/utils"
)

// datafile-level session: drives datafile.DataFile directly (C11, C12)
type dfSession struct {
	f      *datafile.DataFile
	path   string
	header []byte
	staged int
}

func parseRec(a []string) (*datafile.LogRecord, error) {
	// <type> <key> <val> <batch>
	if len(a) < 4 {
		return nil, fmt.Errorf("record needs 4 fields")
	}
	t, _ := strconv.Atoi(a[0])
	k, err := parseKey(a[1])
	if err != nil {
		return nil, err
	}
	v, err := parseVal(a[2])
	if err != nil {
		return nil, err
	}
	b, _ := strconv.ParseUint(a[3], 10, 64)
	return &datafile.LogRecord{Type: byte(t), Key: k, Value: v, BatchID: b}, nil
}

func fmtPos(p *datafile.DataPos) string {
	return fmt.Sprintf("%d.%d.%d.%d", p.Fid, p.BlockID, p.Offset, p.Size)
}

func fmtRec(r *datafile.LogRecord) string {
	return fmt.Sprintf("%d/%s/%s/%d", r.Type, fmtKey(r.Key), fmtVal(r.Value), r.BatchID)
}

func (s *session) execDF(op string, a []string) string {
	if op == "df.open" {
		if s.df != nil {
			return "bad:df-open"
		}
		dir := s.dir(a[0])
		os.MkdirAll(dir, 0o755)
		id, _ := strconv.Atoi(a[1])
		iot, _ := strconv.Atoi(a[2])
		suffix := datafile.DataFileSuffix
		if len(a) > 3 && a[3] == "hint" {
			suffix = datafile.HintFileSuffix
		}
		f, err := datafile.OpenFile(dir, uint32(id), suffix, fio.FileIOType(iot))
		if err != nil {
			return errClass(err)
		}
		s.df = &dfSession{f: f, path: datafile.GetFileName(dir, uint32(id), suffix), header: make([]byte, datafile.MaxLogRecordHeaderSize)}
		return fmt.Sprintf("ok size=%d", f.Size())
	}
	d := s.df
	if d == nil {
		return "bad:no-df"
	}
	switch op {
	case "df.write":
		r, err := parseRec(a)
		if err != nil {
			return "bad:" + err.Error()
		}
		p, err := d.f.WriteLogRecord(r, d.header)
		if err != nil {
			return errClass(err)
		}
		return "pos " + fmtPos(p)
	case "df.stage":
		r, err := parseRec(a)
		if err != nil {
			return "bad:" + err.Error()
		}
		d.f.WriteStagedLogRecord(r, d.header)
		d.staged++
		return "ok"
	case "df.flush":
		ps, err := d.f.FlushStaged()
		if err != nil {
			return errClass(err)
		}
		parts := make([]string, len(ps))
		for i, p := range ps {
			parts[i] = fmtPos(p)
		}
		d.staged = 0
		return "flushed " + strings.Join(parts, ",")
	case "df.hint":
		// df.hint <key> <fid> <block> <off> <size>
		k, _ := parseKey(a[0])
		var n [4]uint64
		for i := 0; i < 4; i++ {
			n[i], _ = strconv.ParseUint(a[1+i], 10, 64)
		}
		err := d.f.WriteHintRecord(k, make([]byte, datafile.MaxLogRecordPosSize),
			&datafile.DataPos{Fid: uint32(n[0]), BlockID: uint32(n[1]), Offset: uint32(n[2]), Size: uint32(n[3])})
		return errClass(err)
	case "df.readval":
		b, _ := strconv.ParseUint(a[0], 10, 32)
		o, _ := strconv.ParseUint(a[1], 10, 32)
		v, err := d.f.ReadRecordValue(&datafile.DataPos{Fid: d.f.ID, BlockID: uint32(b), Offset: uint32(o)})
		if err != nil {
			return errClass(err)
		}
		return fmtVal(v)
	case "df.scan":
		rd := d.f.NewReader()
		if len(a) > 0 && a[0] == "tol" {
			// the reader of the active file: a torn tail is the end of the log
			rd.TolerateTornTail()
		}
		var parts []string
		for {
			r, p, err := rd.NextLogRecord()
			if err != nil {
				if err == io.EOF {
					parts = append(parts, "eof")
				} else {
					parts = append(parts, errClass(err))
				}
				break
			}
			parts = append(parts, fmtRec(r)+"@"+fmtPos(p))
		}
		return "scan " + strings.Join(parts, " ")
	case "df.scanhint":
		rd := d.f.NewReader()
		var parts []string
		for {
			k, p, err := rd.NextHintRecord()
			if err != nil {
				if err == io.EOF {
					parts = append(parts, "eof")
				} else {
					parts = append(parts, errClass(err))
				}
				break
			}
			parts = append(parts, fmtKey(k)+"@"+fmtPos(p))
		}
		return "scanhint " + strings.Join(parts, " ")
	case "df.size":
		phys := int64(-1)
		if st, err := os.Stat(d.path); err == nil {
			phys = st.Size()
		}
		lb, ls := d.f.VerifLast()
		_ = phys
		return fmt.Sprintf("size logical=%d last=%d.%d", d.f.Size(), lb, ls)
	case "df.phys":
		// physical size on disk (equals the logical size for standard I/O, and for mmap after Close)
		if st, err := os.Stat(d.path); err == nil {
			return fmt.Sprintf("phys %d", st.Size())
		}
		return "phys -1"
	case "df.sync":
		return errClass(d.f.Sync())
	case "df.close":
		err := d.f.Close()
		s.df = nil
		return errClass(err)
	case "df.sum":
		// checksum of the file's bytes on disk (after close: physical = logical)
		data, err := os.ReadFile(d.path)
		if err != nil {
			return "err:read"
		}
		return "sum " + fmtVal(data[:min(int64(len(data)), d.f.Size())])
	}
	return "bad:unknown-op:" + op
}

func (s *session) execFS(op string, a []string) string {
	switch op {
	case "corrupt":
		// corrupt <dir> <file> <off> <xor>
		p := filepath.Join(s.dir(a[0]), a[1])
		off, _ := strconv.ParseInt(a[2], 10, 64)
		x, _ := strconv.ParseUint(a[3], 10, 8)
		f, err := os.OpenFile(p, os.O_RDWR, 0)
		if err != nil {
			return "err:open"
		}
		defer f.Close()
		var b [1]byte
		if _, err := f.ReadAt(b[:], off); err != nil {
			return "err:range"
		}
		b[0] ^= byte(x)
		if _, err := f.WriteAt(b[:], off); err != nil {
			return "err:write"
		}
		return "ok"
	case "trunc":
		p := filepath.Join(s.dir(a[0]), a[1])
		n, _ := strconv.ParseInt(a[2], 10, 64)
		if err := os.Truncate(p, n); err != nil {
			return "err:trunc"
		}
		return "ok"
	case "cutout":
		// cutout d file off len: the file loses len bytes at off (a missing block: everything behind it moves up)
		p := filepath.Join(s.dir(a[0]), a[1])
		off, _ := strconv.Atoi(a[2])
		n, _ := strconv.Atoi(a[3])
		b, err := os.ReadFile(p)
		if err != nil {
			return "err:open"
		}
		if off+n > len(b) {
			return "err:range"
		}
		b = append(b[:off:off], b[off+n:]...)
		if err := os.WriteFile(p, b, 0o644); err != nil {
			return "err:write"
		}
		return "ok"
	case "cpblk":
		// cpblk d file src dst len: len bytes at src are written over the bytes at dst (a duplicated / misdirected block)
		p := filepath.Join(s.dir(a[0]), a[1])
		o1, _ := strconv.Atoi(a[2])
		o2, _ := strconv.Atoi(a[3])
		n, _ := strconv.Atoi(a[4])
		b, err := os.ReadFile(p)
		if err != nil {
			return "err:open"
		}
		if o1+n > len(b) || o2+n > len(b) {
			return "err:range"
		}
		tmp := append([]byte(nil), b[o1:o1+n]...)
		copy(b[o2:o2+n], tmp)
		// the same inode is rewritten in place: a database that has the file open sees the damage
		f, err := os.OpenFile(p, os.O_WRONLY, 0)
		if err != nil {
			return "err:open"
		}
		_, err = f.WriteAt(b[o2:o2+n], int64(o2))
		f.Close()
		if err != nil {
			return "err:write"
		}
		return "ok"
	case "swapblk":
		// swapblk d file off1 off2 len: two non-overlapping byte ranges of equal length change places
		p := filepath.Join(s.dir(a[0]), a[1])
		o1, _ := strconv.Atoi(a[2])
		o2, _ := strconv.Atoi(a[3])
		n, _ := strconv.Atoi(a[4])
		b, err := os.ReadFile(p)
		if err != nil {
			return "err:open"
		}
		if o1+n > o2 || o2+n > len(b) {
			return "err:range"
		}
		tmp := append([]byte(nil), b[o1:o1+n]...)
		copy(b[o1:o1+n], b[o2:o2+n])
		copy(b[o2:o2+n], tmp)
		if err := os.WriteFile(p, b, 0o644); err != nil {
			return "err:write"
		}
		return "ok"
	case "rmfile":
		if err := os.Remove(filepath.Join(s.dir(a[0]), a[1])); err != nil {
			return "err:remove"
		}
		return "ok"
	case "cpdir":
		os.RemoveAll(s.dir(a[1]))
		if err := utils.CopyDir(s.dir(a[0]), s.dir(a[1]), []string{".lock"}); err != nil {
			return "err:copy"
		}
		return "ok"
	case "rmdir":
		os.RemoveAll(s.dir(a[0]))
		return "ok"
	}
	return "bad:unknown-op:" + op
}
