package main

import (
	"encoding/hex"
	"fmt"
	"io"
	"os"
	"strconv"

	"github.com/XiXi-2024/xixi-kv/fio"
)

// fio-level session: drives fio.FileIO / fio.MMap directly (C11 back-ends, C20).
// Protocol of lean/XixiKV/Drv/Fio.lean.
type fioFile struct {
	rw     fio.ReadWriter
	path   string
	io     int
	closed bool
}

func (s *session) execFio(op string, a []string) (out string) {
	defer func() {
		if r := recover(); r != nil {
			out = "fault"
		}
	}()
	if s.fios == nil {
		s.fios = map[string]*fioFile{}
	}
	name := a[0]
	if op == "fio.open" {
		iot, _ := strconv.Atoi(a[1])
		os.MkdirAll(s.dir("fio"), 0o755)
		p := s.dir("fio") + "/" + name
		if f := s.fios[name]; f != nil && !f.closed {
			return "?"
		}
		rw, err := fio.NewReadWriter(p, byte(iot))
		if err != nil {
			return "err:open"
		}
		s.fios[name] = &fioFile{rw: rw, path: p, io: iot}
		n, _ := rw.Size()
		return fmt.Sprintf("ok size=%d", n)
	}
	f := s.fios[name]
	if f == nil {
		return "err:no-file"
	}
	if op == "fio.phys" {
		st, err := os.Stat(f.path)
		if err != nil {
			return "phys -1"
		}
		return fmt.Sprintf("phys %d", st.Size())
	}
	if f.closed {
		return "err:closed"
	}
	switch op {
	case "fio.write":
		v, err := parseVal(a[1])
		if err != nil {
			return "bad:" + err.Error()
		}
		if _, err := f.rw.Write(v); err != nil {
			return "err:write"
		}
		return "ok"
	case "fio.read":
		off, _ := strconv.ParseInt(a[1], 10, 64)
		n, _ := strconv.Atoi(a[2])
		b := make([]byte, n)
		k, err := f.rw.Read(b, off)
		if err != nil && err != io.EOF {
			return "err:read"
		}
		if k == 0 {
			return "eof"
		}
		return fmt.Sprintf("r%d:%s", k, hex.EncodeToString(b[:k]))
	case "fio.size":
		n, _ := f.rw.Size()
		return fmt.Sprintf("size %d", n)
	case "fio.phys":
		st, err := os.Stat(f.path)
		if err != nil {
			return "phys -1"
		}
		return fmt.Sprintf("phys %d", st.Size())
	case "fio.sync":
		if err := f.rw.Sync(); err != nil {
			return "err:sync"
		}
		return "ok"
	case "fio.reset":
		m, ok := f.rw.(*fio.MMap)
		if !ok {
			return "?"
		}
		if err := m.ResetFileSize(); err != nil {
			return "err:reset"
		}
		return "ok"
	case "fio.trunc":
		n, _ := strconv.ParseInt(a[1], 10, 64)
		if err := f.rw.Truncate(n); err != nil {
			return "err:trunc"
		}
		return "ok"
	case "fio.close":
		err := f.rw.Close()
		f.closed = true
		if err != nil {
			return "err:close"
		}
		return "ok"
	}
	return "bad:unknown-op:" + op
}
