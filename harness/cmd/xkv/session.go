package main

import (
	"encoding/hex"
	"errors"
	"fmt"
	"hash/crc32"
	"io"
	"os"
	"path/filepath"
	"sort"
	"strconv"
	"strings"
	"time"

	kv "github.com/XiXi-2024/xixi-kv"
	"github.com/XiXi-2024/xixi-kv/datafile"
	"github.com/XiXi-2024/xixi-kv/datatype"
	"github.com/XiXi-2024/xixi-kv/fio"
	"github.com/XiXi-2024/xixi-kv/verifhook"
)

type session struct {
	base     string
	db       *kv.DB
	opts     kv.Options
	batch    *kv.Batch
	iters    map[string]*kv.Iterator
	dts      *datatype.DataTypeService
	dead     bool
	scribble bool   // reuse + overwrite caller buffers after each call
	kbuf     []byte // shared key buffer in scribble mode
	vbuf     []byte // shared value buffer in scribble mode
	returned [][]byte
	canaryK  []byte
	canaryV  []byte
	io       *ioLog
	df       *dfSession
	ixs      *ixSession
	fios     map[string]*fioFile
}

func newSession(base string) *session {
	return &session{base: base, iters: map[string]*kv.Iterator{}}
}

func (s *session) shutdown() {
	defer func() { recover() }()
	if s.db != nil && !s.dead {
		if s.batch != nil {
			s.batch = nil
		}
	}
}

func errClass(err error) string {
	if err == nil {
		return "ok"
	}
	switch {
	case errors.Is(err, kv.ErrKeyIsEmpty):
		return "err:keyempty"
	case errors.Is(err, kv.ErrKeyNotFound):
		return "notfound"
	case errors.Is(err, kv.ErrIndexUpdateFailed):
		return "err:indexupdate"
	case errors.Is(err, kv.ErrDataFileNotFound):
		return "err:filenotfound"
	case errors.Is(err, kv.ErrDataDirectoryCorrupted):
		return "err:dircorrupt"
	case errors.Is(err, kv.ErrBatchCommitted):
		return "err:committed"
	case errors.Is(err, kv.ErrMergeIsProgress):
		return "err:merging"
	case errors.Is(err, kv.ErrDatabaseIsUsing):
		return "err:inuse"
	case errors.Is(err, kv.ErrMergeRatioUnreached):
		return "err:ratio"
	case errors.Is(err, kv.ErrNoEnoughSpaceForMerge):
		return "err:nospace"
	case errors.Is(err, datafile.ErrIncompleteChunk):
		return "err:incomplete"
	case errors.Is(err, datafile.ErrInvalidCRC):
		return "err:crc"
	case errors.Is(err, datafile.ErrClosed):
		return "err:closed"
	case errors.Is(err, io.EOF):
		return "err:eof"
	case errors.Is(err, datatype.ErrWrongTypeOperation):
		return "err:wrongtype"
	}
	msg := err.Error()
	if strings.Contains(msg, "invalid crc") {
		return "err:crc"
	}
	if strings.Contains(msg, "must be greater than 0") || strings.Contains(msg, "BytesPerSync should not") ||
		strings.Contains(msg, "SyncStrategy should not") || strings.Contains(msg, "invalid merge ratio") ||
		strings.Contains(msg, "dir path is empty") {
		return "err:options" // checkOptions
	}
	if strings.Contains(msg, "merge abandoned") || strings.Contains(msg, "merge output") {
		return "err:mergeids"
	}
	return "err:other(" + strings.ReplaceAll(msg, " ", "_") + ")"
}

// value pattern shared with the Lean driver
func patByte(seed, i uint64) byte {
	return byte((seed*131 + i*i*7 + i*13 + (i >> 8)) & 0xff)
}

func patBytes(seed uint64, n int) []byte {
	b := make([]byte, n)
	for i := range b {
		b[i] = patByte(seed, uint64(i))
	}
	return b
}

func parseKey(t string) ([]byte, error) {
	if t == "-" {
		return []byte{}, nil
	}
	if t == "nil" {
		return nil, nil
	}
	return hex.DecodeString(t)
}

func parseVal(t string) ([]byte, error) {
	switch {
	case t == "-":
		return []byte{}, nil
	case t == "nil":
		return nil, nil
	case strings.HasPrefix(t, "x"):
		return hex.DecodeString(t[1:])
	case strings.HasPrefix(t, "p"):
		parts := strings.Split(t[1:], ":")
		if len(parts) != 2 {
			return nil, fmt.Errorf("bad pattern %q", t)
		}
		seed, err := strconv.ParseUint(parts[0], 10, 64)
		if err != nil {
			return nil, err
		}
		n, err := strconv.Atoi(parts[1])
		if err != nil {
			return nil, err
		}
		return patBytes(seed, n), nil
	}
	return nil, fmt.Errorf("bad value %q", t)
}

func fmtVal(v []byte) string {
	return fmt.Sprintf("v%d:%08x", len(v), crc32.ChecksumIEEE(v))
}

func fmtKey(k []byte) string {
	if len(k) == 0 {
		return "-"
	}
	return hex.EncodeToString(k)
}

// dir: the directory a protocol name stands for.  Names starting with "u." are handed to the engine as an UNCLEAN path
// (<base>/./<name>): the same directory, spelled the way a caller who configures "./data" spells it
func (s *session) dir(name string) string {
	if strings.HasPrefix(name, "u.") {
		return s.base + "/./" + name
	}
	// "t.": with a trailing separator, "v.": with a trailing "/." (the way shell completion and path joins leave them)
	if strings.HasPrefix(name, "t.") {
		return s.base + "/" + name + "/"
	}
	if strings.HasPrefix(name, "v.") {
		return s.base + "/" + name + "/."
	}
	return filepath.Join(s.base, name)
}

func parseOpts(dir string, f []string) (kv.Options, error) {
	// <fs> <sync> <bps> <idx> <io> <shards>
	o := kv.DefaultOptions
	o.DirPath = dir
	if len(f) < 6 {
		return o, fmt.Errorf("open needs 6 option fields")
	}
	fs, err := strconv.ParseInt(f[0], 10, 64)
	if err != nil {
		return o, err
	}
	o.DataFileSize = fs
	sy, _ := strconv.Atoi(f[1])
	o.SyncStrategy = kv.SyncStrategy(sy)
	bps, _ := strconv.ParseUint(f[2], 10, 64)
	o.BytesPerSync = uint(bps)
	idx, _ := strconv.Atoi(f[3])
	o.IndexType = int8(idx)
	iot, _ := strconv.Atoi(f[4])
	o.FileIOType = fio.FileIOType(iot)
	sh, _ := strconv.Atoi(f[5])
	o.ShardNum = sh
	o.DataFileMergeRatio = 0
	return o, nil
}

// keyArg / valArg apply scribble mode: all calls share one key and one value
// buffer that are overwritten after the call returns.
func (s *session) keyArg(k []byte) []byte {
	if !s.scribble || k == nil {
		return k
	}
	s.kbuf = append(s.kbuf[:0], k...)
	return s.kbuf[:len(k):len(k)]
}

func (s *session) valArg(v []byte) []byte {
	if !s.scribble || v == nil {
		return v
	}
	if cap(s.vbuf) < len(v) {
		s.vbuf = make([]byte, 0, len(v)*2+64)
	}
	s.vbuf = append(s.vbuf[:0], v...)
	return s.vbuf[:len(v):len(v)]
}

func (s *session) afterCall() {
	if !s.scribble {
		return
	}
	for i := range s.kbuf[:cap(s.kbuf)] {
		s.kbuf[:cap(s.kbuf)][i] = 0xEE
	}
	for i := range s.vbuf[:cap(s.vbuf)] {
		s.vbuf[:cap(s.vbuf)][i] = 0xDD
	}
}

func (s *session) exec(line string) (res string) {
	if s.dead {
		return "dead"
	}
	defer func() {
		if r := recover(); r != nil {
			s.dead = true
			res = "panic:" + panicClass(r)
		}
	}()
	f := strings.Fields(line)
	op := f[0]
	a := f[1:]
	switch op {
	case "open":
		if s.db != nil {
			return "bad:already-open"
		}
		o, err := parseOpts(s.dir(a[0]), a[1:])
		if err != nil {
			return "bad:" + err.Error()
		}
		db, err := kv.Open(o)
		if err != nil {
			return errClass(err)
		}
		s.db, s.opts = db, o
		return "ok"
	case "close":
		if s.db == nil {
			return "bad:not-open"
		}
		for id, it := range s.iters {
			it.Close()
			delete(s.iters, id)
		}
		err := s.db.Close()
		s.db = nil
		s.batch = nil
		return errClass(err)
	case "scribble":
		s.scribble = a[0] == "on"
		return "ok"
	case "checkret":
		// verify that slices returned earlier still hold what they held (C15)
		return s.checkReturned()
	}
	if strings.HasPrefix(op, "df.") {
		return s.execDF(op, a)
	}
	if strings.HasPrefix(op, "ix.") || strings.HasPrefix(op, "ixit.") {
		return s.execIX(op, a)
	}
	if strings.HasPrefix(op, "fio.") {
		return s.execFio(op, a)
	}
	if strings.HasPrefix(op, "dt.") {
		return s.execDT(op, a)
	}
	if op == "files" {
		return listDir(s.dir(a[0]))
	}
	if op == "sumdir" {
		// checksum of every data file of a (closed) directory
		ents, err := os.ReadDir(s.dir(a[0]))
		if err != nil {
			return "sumdir absent"
		}
		var parts []string
		for _, e := range ents {
			if strings.HasSuffix(e.Name(), ".data") {
				b, _ := os.ReadFile(filepath.Join(s.dir(a[0]), e.Name()))
				parts = append(parts, e.Name()+":"+fmtVal(b))
			}
		}
		sort.Strings(parts)
		return "sumdir " + strings.Join(parts, ",")
	}
	if op == "haslock" {
		if _, err := os.Stat(filepath.Join(s.dir(a[0]), ".lock")); err == nil {
			return "lock present"
		}
		return "lock absent"
	}
	if op == "corrupt" || op == "trunc" || op == "cutout" || op == "swapblk" || op == "cpblk" || op == "rmfile" || op == "cpdir" || op == "rmdir" {
		return s.execFS(op, a)
	}
	if s.db == nil {
		return "bad:not-open"
	}
	switch op {
	case "put":
		k, err := parseKey(a[0])
		if err != nil {
			return "bad:" + err.Error()
		}
		v, err := parseVal(a[1])
		if err != nil {
			return "bad:" + err.Error()
		}
		err = s.db.Put(s.keyArg(k), s.valArg(v))
		s.afterCall()
		return errClass(err)
	case "get":
		k, _ := parseKey(a[0])
		v, err := s.db.Get(s.keyArg(k))
		s.afterCall()
		if err != nil {
			return errClass(err)
		}
		return s.retVal(v)
	case "del":
		k, _ := parseKey(a[0])
		err := s.db.Delete(s.keyArg(k))
		s.afterCall()
		return errClass(err)
	case "sync":
		return errClass(s.db.Sync())
	case "stat":
		st := s.db.Stat()
		return fmt.Sprintf("stat keys=%d files=%d reclaim=%d disk=%d", st.KeyNum, st.DataFileNum, st.ReclaimableSize, st.DiskSize)
	case "keys":
		ks := s.db.ListKeys()
		parts := make([]string, len(ks))
		for i, k := range ks {
			parts[i] = fmtKey(k)
		}
		return "keys " + strings.Join(parts, ",")
	case "fold":
		var parts []string
		limit := -1
		if len(a) > 0 {
			limit, _ = strconv.Atoi(a[0])
		}
		err := s.db.Fold(func(k, v []byte) bool {
			parts = append(parts, fmtKey(k)+"="+fmtVal(v))
			return limit < 0 || len(parts) < limit
		})
		if err != nil {
			return errClass(err)
		}
		return "fold " + strings.Join(parts, ",")
	case "dump":
		return s.dump()
	case "scanstat":
		return s.scanStat()
	case "merge":
		// the order in which Merge visits the older files (Go map iteration) is an input of the model
		var order []string
		prev := verifhook.PointFn
		verifhook.PointFn = func(name, arg string) {
			if name == "merge.file" {
				order = append(order, arg)
			}
			if prev != nil {
				prev(name, arg)
			}
		}
		err := s.db.Merge()
		verifhook.PointFn = prev
		return errClass(err) + " order=" + strings.Join(order, ",")
	case "backup":
		return errClass(s.db.Backup(s.dir(a[0])))
	case "active":
		id, sz := s.db.VerifActive()
		return fmt.Sprintf("active %d %d", id, sz)
	case "pos":
		k, _ := parseKey(a[0])
		p := s.db.VerifPos(k)
		if p == nil {
			return "pos nil"
		}
		return fmt.Sprintf("pos %d %d %d %d", p.Fid, p.BlockID, p.Offset, p.Size)
	case "bnew":
		if s.batch != nil {
			return "bad:batch-open"
		}
		sy := len(a) > 0 && a[0] == "1"
		s.batch = s.db.NewBatch(kv.BatchOptions{Sync: sy})
		if len(a) > 1 {
			id, _ := strconv.ParseUint(a[1], 10, 64)
			s.batch.VerifSetBatchID(id)
		}
		return "ok"
	case "bput":
		if s.batch == nil {
			return "bad:no-batch"
		}
		k, _ := parseKey(a[0])
		v, err := parseVal(a[1])
		if err != nil {
			return "bad:" + err.Error()
		}
		err = s.batch.Put(s.keyArg(k), s.valArg(v))
		s.afterCall()
		return errClass(err)
	case "bget":
		if s.batch == nil {
			return "bad:no-batch"
		}
		k, _ := parseKey(a[0])
		v, err := s.batch.Get(s.keyArg(k))
		s.afterCall()
		if err != nil {
			return errClass(err)
		}
		return s.retVal(v)
	case "bdel":
		if s.batch == nil {
			return "bad:no-batch"
		}
		k, _ := parseKey(a[0])
		err := s.batch.Delete(s.keyArg(k))
		s.afterCall()
		return errClass(err)
	case "bcommit":
		if s.batch == nil {
			return "bad:no-batch"
		}
		err := s.batch.Commit()
		return errClass(err)
	case "bdrop":
		// forget the batch handle after a (successful or failed) commit
		s.batch = nil
		return "ok"
	case "it.new":
		pre, _ := parseKey(a[1])
		if len(pre) == 0 {
			pre = nil
		}
		s.iters[a[0]] = s.db.NewIterator(kv.IteratorOptions{Prefix: pre, Reverse: a[2] == "1"})
		return s.itState(a[0])
	case "it.rewind":
		s.iters[a[0]].Rewind()
		return s.itState(a[0])
	case "it.seek":
		k, _ := parseKey(a[1])
		s.iters[a[0]].Seek(k)
		return s.itState(a[0])
	case "it.next":
		s.iters[a[0]].Next()
		return s.itState(a[0])
	case "it.state":
		return s.itState(a[0])
	case "it.close":
		s.iters[a[0]].Close()
		delete(s.iters, a[0])
		return "ok"
	}
	return "bad:unknown-op:" + op
}

func (s *session) retVal(v []byte) string {
	r := fmtVal(v)
	if s.scribble && v != nil {
		cp := append([]byte(nil), v...)
		s.returned = append(s.returned, v, cp)
	}
	return r
}

func (s *session) checkReturned() string {
	bad := 0
	for i := 0; i+1 < len(s.returned); i += 2 {
		if string(s.returned[i]) != string(s.returned[i+1]) {
			bad++
		}
	}
	n := len(s.returned) / 2
	// scribble over everything that was returned, then forget it
	for i := 0; i+1 < len(s.returned); i += 2 {
		for j := range s.returned[i] {
			s.returned[i][j] = 0xCC
		}
	}
	s.returned = nil
	return fmt.Sprintf("returned checked=%d changed=%d", n, bad)
}

func (s *session) itState(id string) string {
	it := s.iters[id]
	if it == nil {
		return "bad:no-iter"
	}
	if !it.Valid() {
		return "it invalid"
	}
	k := it.Key()
	v, err := it.Value()
	if err != nil {
		return "it " + fmtKey(k) + " " + errClass(err)
	}
	return "it " + fmtKey(k) + " " + fmtVal(v)
}

func (s *session) dump() string {
	ks := s.db.ListKeys()
	parts := make([]string, 0, len(ks))
	for _, k := range ks {
		v, err := s.db.Get(k)
		if err != nil {
			parts = append(parts, fmtKey(k)+"="+errClass(err))
		} else {
			parts = append(parts, fmtKey(k)+"="+fmtVal(v))
		}
	}
	st := s.db.Stat()
	return fmt.Sprintf("dump n=%d %s", st.KeyNum, strings.Join(parts, ","))
}

func listDir(dir string) string {
	ents, err := os.ReadDir(dir)
	if err != nil {
		if os.IsNotExist(err) {
			return "files absent"
		}
		return "files err"
	}
	var parts []string
	for _, e := range ents {
		if e.Name() == ".lock" {
			continue
		}
		info, err := e.Info()
		if err != nil {
			continue
		}
		parts = append(parts, fmt.Sprintf("%s:%d", e.Name(), info.Size()))
	}
	sort.Strings(parts)
	return "files " + strings.Join(parts, ",")
}

func panicClass(r interface{}) string {
	msg := fmt.Sprint(r)
	switch {
	case strings.Contains(msg, "slice bounds out of range"):
		return "slicebounds"
	case strings.Contains(msg, "index out of range"):
		return "indexrange"
	case strings.Contains(msg, "nil pointer"):
		return "nilptr"
	case strings.Contains(msg, "makeslice"):
		return "makeslice"
	}
	return "other(" + strings.ReplaceAll(msg, " ", "_") + ")"
}

var _ = time.Now
