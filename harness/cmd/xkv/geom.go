package main

import (
	"bufio"
	"fmt"
	"os"

	"github.com/XiXi-2024/xixi-kv/datafile"
	"github.com/XiXi-2024/xixi-kv/fio"
)

// geomMain: for every input line "geom <o> <n>" print what the real writeToBuf reports for a
// payload of n bytes appended to a file whose writer state is (block 0, o bytes used):
// "<posBlock> <posOffset> <posSize> <nextBlock> <nextSize>".
func geomMain(a []string) {
	dir, err := os.MkdirTemp(a[0], "geom")
	if err != nil {
		fmt.Fprintln(os.Stderr, err)
		os.Exit(2)
	}
	defer os.RemoveAll(dir)
	df, err := datafile.OpenFile(dir, 0, datafile.DataFileSuffix, fio.StandardFIO)
	if err != nil {
		fmt.Fprintln(os.Stderr, err)
		os.Exit(2)
	}
	defer df.Close()
	in := bufio.NewReaderSize(os.Stdin, 1<<20)
	out := bufio.NewWriterSize(os.Stdout, 1<<20)
	defer out.Flush()
	for {
		var op string
		var o, n int
		if _, err := fmt.Fscan(in, &op, &o, &n); err != nil {
			break
		}
		pos, nb, ns := df.VerifGeom(0, uint32(o), n)
		fmt.Fprintf(out, "%d %d %d %d %d\n", pos.BlockID, pos.Offset, pos.Size, nb, ns)
	}
}
