package main

import (
	"fmt"
	"strconv"

	"github.com/XiXi-2024/xixi-kv/datafile"
	"github.com/XiXi-2024/xixi-kv/index"
)

// index-level session: drives index.ShardedIndex and its IndexIterator directly (C10, C14)
type ixSession struct {
	ix    *index.ShardedIndex
	iters map[string]*index.IndexIterator
}

func ixOld(p *datafile.DataPos) string {
	if p == nil {
		return "old=nil"
	}
	return fmt.Sprintf("old=%d", p.Offset)
}

func ixState(it *index.IndexIterator) string {
	if it == nil {
		return "bad:no-iter"
	}
	if !it.Valid() {
		return "it invalid"
	}
	return fmt.Sprintf("it %s %d", fmtKey(it.Key()), it.Value().Offset)
}

func (s *session) execIX(op string, a []string) string {
	if op == "ix.new" {
		// ix.new <type> <requested shards>  ->  ok cap=<actual number of shards>
		t, _ := strconv.Atoi(a[0])
		n, _ := strconv.Atoi(a[1])
		s.ixs = &ixSession{ix: index.NewShardedIndex(int8(t), n), iters: map[string]*index.IndexIterator{}}
		return fmt.Sprintf("ok cap=%d", s.ixs.ix.VerifCap())
	}
	if op == "ix.npot" {
		n, _ := strconv.Atoi(a[0])
		return strconv.Itoa(index.VerifNextPowerOfTwo(n))
	}
	x := s.ixs
	if x == nil {
		return "bad:no-index"
	}
	switch op {
	case "ix.put":
		k, _ := parseKey(a[0])
		n, _ := strconv.ParseUint(a[1], 10, 32)
		old := x.ix.Put(s.keyArg(k), &datafile.DataPos{Offset: uint32(n)})
		sh := x.ix.VerifShard(k)
		s.afterCall()
		return fmt.Sprintf("%s shard=%d", ixOld(old), sh)
	case "ix.get":
		k, _ := parseKey(a[0])
		p := x.ix.Get(k)
		if p == nil {
			return "nil"
		}
		return strconv.Itoa(int(p.Offset))
	case "ix.del":
		k, _ := parseKey(a[0])
		return ixOld(x.ix.Delete(k))
	case "ix.size":
		return fmt.Sprintf("size %d", x.ix.Size())
	case "ixit.new":
		x.iters[a[0]] = x.ix.Iterator(a[1] == "1")
		return ixState(x.iters[a[0]])
	case "ixit.rewind":
		x.iters[a[0]].Rewind()
		return ixState(x.iters[a[0]])
	case "ixit.next":
		x.iters[a[0]].Next()
		return ixState(x.iters[a[0]])
	case "ixit.seek":
		k, _ := parseKey(a[1])
		x.iters[a[0]].Seek(k)
		return ixState(x.iters[a[0]])
	case "ixit.state":
		return ixState(x.iters[a[0]])
	case "ixit.close":
		x.iters[a[0]].Close()
		delete(x.iters, a[0])
		return "ok"
	case "ix.npot":
		n, _ := strconv.Atoi(a[0])
		return strconv.Itoa(index.VerifNextPowerOfTwo(n))
	}
	return "bad:unknown-op:" + op
}
