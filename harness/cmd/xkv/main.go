// xkv drives the real xixi-kv engine through a one-line-in / one-line-out
// protocol.  The same input lines are fed to the Lean model driver and the two
// output streams are compared by bin/check.
package main

import (
	"bufio"
	"fmt"
	"os"
	"strings"
)

func main() {
	if len(os.Args) < 2 {
		fmt.Fprintln(os.Stderr, "usage: xkv <run|crash|sched|race|lock|df|geom|...> args")
		os.Exit(2)
	}
	switch os.Args[1] {
	case "run":
		// xkv run <basedir> [opsfile]   (ops from stdin when no file)
		base := os.Args[2]
		in := os.Stdin
		if len(os.Args) > 3 {
			f, err := os.Open(os.Args[3])
			if err != nil {
				fmt.Fprintln(os.Stderr, err)
				os.Exit(2)
			}
			in = f
		}
		runOps(base, in, os.Stdout)
	case "geom":
		geomMain(os.Args[2:])
	case "crash":
		crashMain(os.Args[2:])
	case "sched":
		schedMain(os.Args[2:])
	case "race":
		raceMain(os.Args[2:])
	case "lock":
		lockMain(os.Args[2:])
	case "batchvis":
		batchvisMain(os.Args[2:])
	case "collide":
		collideMain(os.Args[2:])
	default:
		fmt.Fprintln(os.Stderr, "unknown subcommand", os.Args[1])
		os.Exit(2)
	}
}

func runOps(base string, in *os.File, outf *os.File) {
	s := newSession(base)
	sc := bufio.NewScanner(in)
	sc.Buffer(make([]byte, 1<<20), 1<<26)
	out := bufio.NewWriter(outf)
	for sc.Scan() {
		line := strings.TrimSpace(sc.Text())
		if line == "" || strings.HasPrefix(line, "#") {
			continue
		}
		res := s.exec(line)
		out.WriteString(res)
		out.WriteByte('\n')
		out.Flush()
	}
	s.shutdown()
}
