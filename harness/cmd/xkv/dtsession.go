package main

import (
	"encoding/hex"
	"errors"
	"os"
	"strconv"
	"time"

	kv "github.com/XiXi-2024/xixi-kv"
	"github.com/XiXi-2024/xixi-kv/datatype"
)

// redis-layer session (C19): drives datatype.DataTypeService.  Replies follow the protocol of
// lean/XixiKV/Drv/Datatype.lean.

func dtVal(t string) []byte {
	if t == "nil" {
		return nil
	}
	if t == "-" {
		return []byte{}
	}
	b, _ := hex.DecodeString(t[1:])
	return b
}

func dtErr(err error) string {
	switch {
	case errors.Is(err, kv.ErrKeyIsEmpty):
		return "err:keyempty"
	case errors.Is(err, kv.ErrKeyNotFound):
		return "notfound"
	case errors.Is(err, datatype.ErrWrongTypeOperation):
		return "err:wrongtype"
	}
	return "err:other"
}

func dtBytes(v []byte, err error) string {
	if err != nil {
		return dtErr(err)
	}
	if v == nil {
		return "nil"
	}
	if len(v) == 0 {
		return "-"
	}
	return "x" + hex.EncodeToString(v)
}

func dtFlag(b bool, err error) string {
	if err != nil {
		return dtErr(err)
	}
	if b {
		return "1"
	}
	return "0"
}

func (s *session) dtOpen(a []string) string {
	o := kv.DefaultOptions
	o.DirPath = s.dir("dt")
	o.DataFileSize = 64 * 1024
	if len(a) >= 2 {
		idx, _ := strconv.Atoi(a[0])
		iot, _ := strconv.Atoi(a[1])
		o.IndexType = int8(idx)
		o.FileIOType = byte(iot)
	}
	d, err := datatype.NewDataTypeService(o)
	if err != nil {
		return errClass(err)
	}
	s.dts = d
	return "ok"
}

func (s *session) execDT(op string, a []string) (out string) {
	defer func() {
		if r := recover(); r != nil {
			out = "panic"
		}
	}()
	k := func(i int) []byte { b, _ := parseKey(a[i]); return b }
	switch op {
	case "dt.reset":
		if s.dts != nil {
			s.dts.Close()
		}
		os.RemoveAll(s.dir("dt"))
		return s.dtOpen(a)
	case "dt.restart":
		if s.dts == nil {
			return "bad:no-dt"
		}
		if err := s.dts.Close(); err != nil {
			return errClass(err)
		}
		return s.dtOpen(a)
	case "dt.now":
		return "ok"
	case "dt.close":
		if s.dts != nil {
			err := s.dts.Close()
			s.dts = nil
			return errClass(err)
		}
		return "ok"
	}
	d := s.dts
	if d == nil {
		return "bad:no-dt"
	}
	switch op {
	case "dt.set":
		var ttl time.Duration
		switch a[2] {
		case "live":
			ttl = time.Hour * 1000
		case "expired":
			ttl = 1
		}
		err := d.Set(k(0), dtVal(a[1]), ttl)
		time.Sleep(time.Microsecond)
		if err != nil {
			return dtErr(err)
		}
		return "ok"
	case "dt.get":
		return dtBytes(d.Get(k(0)))
	case "dt.del":
		if err := d.Del(k(0)); err != nil {
			return dtErr(err)
		}
		return "ok"
	case "dt.type":
		t, err := d.Type(k(0))
		if err != nil {
			return dtErr(err)
		}
		return strconv.Itoa(int(t))
	case "dt.hset":
		return dtFlag(d.HSet(k(0), k(1), dtVal(a[2])))
	case "dt.hget":
		return dtBytes(d.HGet(k(0), k(1)))
	case "dt.hdel":
		return dtFlag(d.HDel(k(0), k(1)))
	case "dt.sadd":
		return dtFlag(d.SAdd(k(0), k(1)))
	case "dt.sismember":
		return dtFlag(d.SIsMember(k(0), k(1)))
	case "dt.srem":
		return dtFlag(d.SRem(k(0), k(1)))
	case "dt.lpush":
		n, err := d.LPush(k(0), k(1))
		if err != nil {
			return dtErr(err)
		}
		return strconv.Itoa(int(n))
	case "dt.rpush":
		n, err := d.RPush(k(0), k(1))
		if err != nil {
			return dtErr(err)
		}
		return strconv.Itoa(int(n))
	case "dt.lpop":
		return dtBytes(d.LPop(k(0)))
	case "dt.rpop":
		return dtBytes(d.RPop(k(0)))
	case "dt.zadd":
		f, _ := strconv.ParseFloat(a[1], 64)
		return dtFlag(d.ZAdd(k(0), f, k(2)))
	case "dt.zscore":
		f, err := d.ZScore(k(0), k(1))
		if err != nil {
			return dtErr(err)
		}
		return strconv.FormatFloat(f, 'f', -1, 64)
	}
	return "bad:unknown-op:" + op
}
