package main

import (
	"bufio"
	"encoding/json"
	"fmt"
	"os"
	"path/filepath"
	"runtime"
	"strings"
	"time"

	"github.com/XiXi-2024/xixi-kv/verifhook"
)

// forced two-client schedules (C08, C09, C06-concurrent).
//
//	xkv sched <base>      scenarios as JSON lines on stdin, results as JSON lines on stdout
//
// A scenario: {"cfg": "<open options>", "setup": [ops], "a": "<op>", "point": "<hook point>", "nth": n,
//              "b": [ops], "after": [ops]}
// Client A runs op "a" and is paused at the n-th arrival at hook point "point"; while it is paused
// client B runs its ops one after the other; the harness observes whether B got through or is
// blocked on the DB mutex (goroutine wait state, with a timeout fallback), then resumes A, waits for
// both, runs "after", and finally dumps the live mapping, restarts and dumps again.

type scenario struct {
	Cfg   string   `json:"cfg"`
	Setup []string `json:"setup"`
	A     string   `json:"a"`
	Point string   `json:"point"`
	Nth   int      `json:"nth"`
	B     []string `json:"b"`
	After []string `json:"after"`
}

func blockedOnDBMutex() bool {
	buf := make([]byte, 1<<20)
	n := runtime.Stack(buf, true)
	s := string(buf[:n])
	for _, g := range strings.Split(s, "\n\n") {
		if !strings.Contains(g, "main.(*session).exec") {
			continue
		}
		first := g
		if i := strings.Index(g, "\n"); i > 0 {
			first = g[:i]
		}
		if strings.Contains(first, "sync.Mutex.Lock") || strings.Contains(first, "sync.RWMutex.Lock") ||
			strings.Contains(first, "sync.RWMutex.RLock") || strings.Contains(first, "semacquire") {
			return true
		}
	}
	return false
}

func schedMain(a []string) {
	base := a[0]
	in := bufio.NewScanner(os.Stdin)
	in.Buffer(make([]byte, 1<<20), 1<<26)
	out := bufio.NewWriter(os.Stdout)
	defer out.Flush()
	enc := json.NewEncoder(out)
	n := 0
	for in.Scan() {
		line := strings.TrimSpace(in.Text())
		if line == "" {
			continue
		}
		var sc scenario
		if err := json.Unmarshal([]byte(line), &sc); err != nil {
			fmt.Fprintln(os.Stderr, "bad scenario:", err)
			continue
		}
		n++
		dir := filepath.Join(base, fmt.Sprintf("s%d", n))
		os.MkdirAll(dir, 0o755)
		res := runScenario(dir, sc)
		res["scenario"] = n
		enc.Encode(res)
		out.Flush()
		os.RemoveAll(dir)
		os.RemoveAll(dir + "-merge")
	}
}

func runScenario(dir string, sc scenario) map[string]interface{} {
	res := map[string]interface{}{}
	// two sessions sharing one DB handle
	sa := newSession(dir)
	r := sa.exec("open d " + sc.Cfg)
	if r != "ok" {
		res["error"] = "open: " + r
		return res
	}
	sb := newSession(dir)
	sb.db = sa.db
	sb.opts = sa.opts
	for _, op := range sc.Setup {
		if r := sa.exec(op); strings.HasPrefix(r, "err") || strings.HasPrefix(r, "panic") {
			res["error"] = "setup " + op + ": " + r
		}
	}
	arrived := make(chan struct{}, 1)
	resume := make(chan struct{})
	hits := 0
	paused := false
	nth := sc.Nth
	if nth <= 0 {
		nth = 1
	}
	verifhook.PointFn = func(name, arg string) {
		if name != sc.Point || paused {
			return
		}
		hits++
		if hits == nth {
			paused = true
			arrived <- struct{}{}
			<-resume
		}
	}
	aDone := make(chan string, 1)
	go func() { aDone <- sa.exec(sc.A) }()
	reached := false
	var aRes string
	select {
	case <-arrived:
		reached = true
	case aRes = <-aDone:
	case <-time.After(5 * time.Second):
		res["error"] = "A neither reached the point nor returned"
	}
	res["reached"] = reached
	bRes := []string{}
	bStatus := "not-run"
	if reached {
		bDone := make(chan []string, 1)
		go func() {
			var rs []string
			for _, op := range sc.B {
				rs = append(rs, sb.exec(op))
			}
			bDone <- rs
		}()
		deadline := time.After(300 * time.Millisecond)
		tick := time.NewTicker(200 * time.Microsecond)
	wait:
		for {
			select {
			case bRes = <-bDone:
				bStatus = "ran"
				break wait
			case <-tick.C:
				if blockedOnDBMutex() {
					bStatus = "blocked"
					break wait
				}
			case <-deadline:
				bStatus = "timeout"
				break wait
			}
		}
		tick.Stop()
		close(resume)
		select {
		case aRes = <-aDone:
		case <-time.After(10 * time.Second):
			res["error"] = "A did not finish after resume (deadlock?)"
		}
		if bStatus != "ran" {
			select {
			case bRes = <-bDone:
			case <-time.After(10 * time.Second):
				res["error"] = "B did not finish (deadlock?)"
			}
		}
	} else {
		// the point was never reached: run B afterwards, sequentially
		for _, op := range sc.B {
			bRes = append(bRes, sb.exec(op))
		}
		bStatus = "sequential"
	}
	verifhook.PointFn = nil
	res["a"] = aRes
	res["b"] = bRes
	res["b_status"] = bStatus
	after := []string{}
	for _, op := range sc.After {
		after = append(after, sa.exec(op))
	}
	res["after"] = after
	res["live"] = sa.exec("dump")
	res["stat"] = sa.exec("stat")
	res["scanstat"] = sa.exec("scanstat")
	res["close"] = sa.exec("close")
	sb.db = nil
	r2 := sa.exec("open d " + sc.Cfg)
	res["reopen"] = r2
	if r2 == "ok" {
		res["restart"] = sa.exec("dump")
		res["restart_scan"] = sa.exec("scanstat")
		sa.exec("close")
		if sa.exec("open d "+sc.Cfg) == "ok" {
			res["restart2"] = sa.exec("dump")
			sa.exec("close")
		}
	}
	return res
}
