package main

import (
	"encoding/binary"
	"encoding/hex"
	"fmt"
	"math/bits"
	"strconv"

	"github.com/cespare/xxhash"
)

// xkv collide <seed> <n>: n pairs of distinct 16-byte keys with equal xxhash64 (the hash behind the
// shard choice of the index and behind the staging index of a batch).  xxhash64 of a 16-byte input is
// two invertible mixing steps followed by a bijective avalanche, so a partner can be computed.
const (
	xxP1 uint64 = 11400714785074694791
	xxP2 uint64 = 14029467366897019727
	xxP4 uint64 = 9650029242287828579
	xxP5 uint64 = 2870177450012600261
)

func xxRound0(k uint64) uint64 { return bits.RotateLeft64(k*xxP2, 31) * xxP1 }

func modInv(a uint64) uint64 { // inverse of an odd number modulo 2^64 (Newton)
	x := a
	for i := 0; i < 6; i++ {
		x *= 2 - a*x
	}
	return x
}

func xxRound0Inv(r uint64) uint64 { return bits.RotateLeft64(r*modInv(xxP1), -31) * modInv(xxP2) }

func xxStep(h, k uint64) uint64 { return bits.RotateLeft64(h^xxRound0(k), 27)*xxP1 + xxP4 }

func collideMain(a []string) {
	seed, _ := strconv.ParseUint(a[0], 10, 64)
	n, _ := strconv.Atoi(a[1])
	x := seed*0x9E3779B97F4A7C15 + 1
	next := func() uint64 { x ^= x << 13; x ^= x >> 7; x ^= x << 17; return x }
	for i := 0; i < n; i++ {
		ka := make([]byte, 16)
		kb := make([]byte, 16)
		a1, a2, b1 := next(), next(), next()
		h0 := xxP5 + 16
		b2 := xxRound0Inv(xxStep(h0, a1) ^ xxRound0(a2) ^ xxStep(h0, b1))
		binary.LittleEndian.PutUint64(ka[0:8], a1)
		binary.LittleEndian.PutUint64(ka[8:16], a2)
		binary.LittleEndian.PutUint64(kb[0:8], b1)
		binary.LittleEndian.PutUint64(kb[8:16], b2)
		if xxhash.Sum64(ka) != xxhash.Sum64(kb) || string(ka) == string(kb) {
			fmt.Println("bad:construction-failed")
			continue
		}
		fmt.Println(hex.EncodeToString(ka), hex.EncodeToString(kb))
	}
}
