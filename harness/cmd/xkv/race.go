package main

import (
	"bytes"
	"encoding/json"
	"fmt"
	"hash/crc32"
	"math/rand"
	"os"
	"path/filepath"
	"runtime"
	"strconv"
	"strings"
	"sync"
	"sync/atomic"
	"time"

	kv "github.com/XiXi-2024/xixi-kv"
)

// concurrent stress (C09 search role; C08 free-running history).  Built with -race for C09.
//
//	xkv race <base> <seconds> <goroutines> <indexType> <ioType> <seed> [mix]
//
// Every goroutine issues a random mix of Put/Get/Delete/ListKeys/Fold/iterators/Stat/Sync/batches/Merge
// on overlapping keys of one database with a small file size (rotations happen all the time).
// Output: one JSON object: counts per op, error classes, recovered panics, watchdog verdict.
func raceMain(a []string) {
	base := a[0]
	secs, _ := strconv.ParseFloat(a[1], 64)
	ng, _ := strconv.Atoi(a[2])
	idx, _ := strconv.Atoi(a[3])
	iot, _ := strconv.Atoi(a[4])
	seed, _ := strconv.ParseInt(a[5], 10, 64)
	if len(a) > 6 && a[6] == "hot" {
		hotMain(base, secs, ng, idx, iot, false)
		return
	}
	if len(a) > 6 && a[6] == "backup" {
		hotMain(base, secs, ng, idx, iot, true)
		return
	}
	dir := filepath.Join(base, "d")
	o := kv.DefaultOptions
	o.DirPath = dir
	o.DataFileSize = 16 * 1024
	o.IndexType = int8(idx)
	o.FileIOType = byte(iot)
	o.ShardNum = 4
	o.DataFileMergeRatio = 0
	db, err := kv.Open(o)
	if err != nil {
		fmt.Println(`{"error":"open failed"}`)
		os.Exit(1)
	}
	var mu sync.Mutex
	counts := map[string]int{}
	errs := map[string]int{}
	panics := map[string]int{}
	var progress int64
	stop := make(chan struct{})
	var wg sync.WaitGroup
	keys := make([][]byte, 24)
	for i := range keys {
		keys[i] = []byte(fmt.Sprintf("k%02d", i))
	}
	record := func(op string, err error) {
		mu.Lock()
		counts[op]++
		if err != nil {
			c := errClass(err)
			if c != "notfound" && c != "err:merging" && c != "err:mergeids" {
				errs[op+":"+c]++
			}
		}
		mu.Unlock()
		atomic.AddInt64(&progress, 1)
	}
	for g := 0; g < ng; g++ {
		wg.Add(1)
		go func(g int) {
			defer wg.Done()
			r := rand.New(rand.NewSource(seed*1000 + int64(g)))
			for {
				select {
				case <-stop:
					return
				default:
				}
				func() {
					defer func() {
						if p := recover(); p != nil {
							mu.Lock()
							panics[panicClass(p)]++
							mu.Unlock()
						}
					}()
					k := keys[r.Intn(len(keys))]
					x := r.Intn(100)
					switch {
					case x < 30:
						// every value starts with the key it was written for
						v := append(append([]byte{}, k...), patBytes(uint64(r.Intn(1000)), r.Intn(3000))...)
						record("put", db.Put(k, v))
					case x < 50:
						v, err := db.Get(k)
						if err == nil && (len(v) < len(k) || string(v[:len(k)]) != string(k)) {
							mu.Lock()
							errs["get:foreign-value"]++
							mu.Unlock()
						}
						record("get", err)
					case x < 62:
						record("del", db.Delete(k))
					case x < 68:
						ks := db.ListKeys()
						for _, kk := range ks {
							if kk == nil {
								mu.Lock()
								errs["listkeys:nil-key"]++
								mu.Unlock()
								break
							}
						}
						record("listkeys", nil)
					case x < 72:
						n := 0
						record("fold", db.Fold(func(k, v []byte) bool { n++; return n < 50 }))
					case x < 80:
						it := db.NewIterator(kv.IteratorOptions{Reverse: r.Intn(2) == 0})
						for i := 0; it.Valid() && i < 10; i++ {
							_ = it.Key()
							if _, err := it.Value(); err != nil {
								record("it.value", err)
							}
							it.Next()
						}
						it.Close()
						record("iterator", nil)
					case x < 85:
						_ = db.Stat()
						record("stat", nil)
					case x < 88:
						record("sync", db.Sync())
					case x < 97:
						b := db.NewBatch(kv.DefaultBatchOptions)
						if r.Intn(4) == 0 {
							// a batch larger than the data-file limit in which one key is staged again and again with growing
							// values: the mid-batch flush is triggered by a RE-put of a staged key, while the other clients
							// queue behind the batch's lock
							k1 := keys[r.Intn(len(keys))]
							for i := 0; i < 6; i++ {
								kk := k1
								if i%2 == 1 {
									kk = keys[r.Intn(len(keys))]
								}
								_ = b.Put(kk, append(append([]byte{}, kk...), patBytes(uint64(r.Intn(1000)), 3000+i*1500)...))
							}
						}
						for i := 0; i < 1+r.Intn(3); i++ {
							kk := keys[r.Intn(len(keys))]
							if r.Intn(3) == 0 {
								_ = b.Delete(kk)
							} else {
								_ = b.Put(kk, append(append([]byte{}, kk...), patBytes(uint64(r.Intn(1000)), r.Intn(500))...))
							}
						}
						record("batch", b.Commit())
					default:
						if g == 0 {
							record("merge", db.Merge())
						}
					}
				}()
			}
		}(g)
	}
	deadline := time.After(time.Duration(secs * float64(time.Second)))
	stuck := false
	last := int64(-1)
	tick := time.NewTicker(5 * time.Second)
	// every data file of an open database stays open: a long run ends early, well below the descriptor limit of the
	// process (an environment limit, not a property of the engine)
	files := time.NewTicker(100 * time.Millisecond)
	endedEarly := false
loop:
	for {
		select {
		case <-deadline:
			break loop
		case <-files.C:
			if dirEntries(dir) > maxStressFiles {
				endedEarly = true
				break loop
			}
		case <-tick.C:
			p := atomic.LoadInt64(&progress)
			if p == last {
				stuck = true
				break loop
			}
			last = p
		}
	}
	close(stop)
	done := make(chan struct{})
	go func() { wg.Wait(); close(done) }()
	select {
	case <-done:
	case <-time.After(20 * time.Second):
		stuck = true
	}
	out := map[string]interface{}{"counts": counts, "errors": errs, "panics": panics, "stuck": stuck, "ended_early": endedEarly}
	if stuck {
		buf := make([]byte, 1<<20)
		n := runtime.Stack(buf, true)
		st := string(buf[:n])
		if len(st) > 6000 {
			st = st[:6000]
		}
		out["stacks"] = st
	} else {
		// quiescent: live view vs restart (C08)
		s := newSession(base)
		s.db = db
		live := s.exec("dump")
		s.exec("close")
		o2 := strings.Join([]string{"16384", "0", "0", strconv.Itoa(idx), strconv.Itoa(iot), "4"}, " ")
		if s.exec("open d "+o2) == "ok" {
			out["restart_agrees"] = s.exec("dump") == live
			s.exec("close")
		} else {
			out["restart_agrees"] = false
		}
	}
	json.NewEncoder(os.Stdout).Encode(out)
}

// maxStressFiles: a stress run stops writing (ends early) once its data directory holds this many files; the open
// database keeps a descriptor per data file and the process limit is an environment limit (ulimit -n)
const maxStressFiles = 6000

func dirEntries(dir string) int {
	f, err := os.Open(dir)
	if err != nil {
		return 0
	}
	defer f.Close()
	names, _ := f.Readdirnames(-1)
	return len(names)
}

// hotMain: one writer of write-once keys with tiny data files (almost every Put rotates) and many
// readers fetching the last acknowledged key: every Get must return that key's own value (C08).
// With backups=true the data files are larger and the main goroutine takes a Backup every few milliseconds
// while the writer and the readers keep going (C20 "the source is unaffected and remains usable", C09).
func hotMain(base string, secs float64, ng, idx, iot int, backups bool) {
	o := kv.DefaultOptions
	o.DirPath = filepath.Join(base, "d")
	o.DataFileSize = 1024
	if backups {
		o.DataFileSize = 16 * 1024
	}
	o.IndexType = int8(idx)
	o.FileIOType = byte(iot)
	o.ShardNum = 4
	// a few LARGE write-once values (several blocks each), written by an earlier session with a large file size so that they
	// share ONE data file, which every reader fetches again and again: overlapping reads of DIFFERENT records of one older data
	// file from many goroutines (state shared per file or per read path shows up as a wrong byte or a checksum error)
	bigK := make([][]byte, 4)
	bigV := make([][]byte, 4)
	{
		o1 := o
		o1.DataFileSize = 1 << 20
		db1, err := kv.Open(o1)
		if err != nil {
			fmt.Println(`{"error":"open failed"}`)
			os.Exit(1)
		}
		for j := range bigK {
			bigK[j] = []byte(fmt.Sprintf("big-%d", j))
			bigV[j] = append(append([]byte{}, bigK[j]...), patBytes(uint64(9000+j), 20000+j*4111)...)
			if err := db1.Put(bigK[j], bigV[j]); err != nil {
				fmt.Println(`{"error":"put failed"}`)
				os.Exit(1)
			}
		}
		db1.Close()
	}
	db, err := kv.Open(o)
	if err != nil {
		fmt.Println(`{"error":"open failed"}`)
		os.Exit(1)
	}
	// ring of the most recently acknowledged keys: reader g fetches the g-th most recent one, so that
	// overlapping lookups concern DIFFERENT keys (shared state inside an index shard shows up)
	var ring [64]atomic.Value
	var acked int64
	var gets, bad int64
	var mu sync.Mutex
	errs := map[string]int{}
	stop := make(chan struct{})
	var wg sync.WaitGroup
	wg.Add(1)
	go func() {
		defer wg.Done()
		for i := 0; ; i++ {
			select {
			case <-stop:
				return
			default:
			}
			k := []byte(fmt.Sprintf("w-%07d", i))
			v := append(append([]byte{}, k...), patBytes(uint64(i), 300+i%400)...)
			if err := db.Put(k, v); err != nil {
				mu.Lock()
				errs["put:"+errClass(err)]++
				mu.Unlock()
				continue
			}
			n := atomic.LoadInt64(&acked)
			ring[n%64].Store(k)
			atomic.StoreInt64(&acked, n+1)
			if i > 3000 {
				i = 0
			}
		}
	}()
	for g := 0; g < ng; g++ {
		wg.Add(1)
		g := g
		go func() {
			defer wg.Done()
			var prevV []byte
			var prevSum uint32
			for it := 0; ; it++ {
				select {
				case <-stop:
					return
				default:
				}
				if it%2 == 1 {
					j := (it/2 + g) % len(bigK)
					v, err := db.Get(bigK[j])
					atomic.AddInt64(&gets, 1)
					if err != nil || !bytes.Equal(v, bigV[j]) {
						mu.Lock()
						if err != nil {
							errs["get-big:"+errClass(err)]++
						} else {
							errs["get-big:wrong-bytes"]++
						}
						mu.Unlock()
						atomic.AddInt64(&bad, 1)
					}
					continue
				}
				// the slice returned by the PREVIOUS Get must still hold what it held (a completed Get's result is the caller's)
				if prevV != nil && crc32.ChecksumIEEE(prevV) != prevSum {
					mu.Lock()
					errs["get:returned-slice-changed-later"]++
					mu.Unlock()
					atomic.AddInt64(&bad, 1)
				}
				n := atomic.LoadInt64(&acked)
				back := int64(g % 8)
				if n <= back {
					continue
				}
				k, _ := ring[(n-1-back)%64].Load().([]byte)
				if k == nil {
					continue
				}
				v, err := func() (v []byte, err error) {
					defer func() {
						if p := recover(); p != nil {
							err = fmt.Errorf("PANIC %v", p)
						}
					}()
					return db.Get(k)
				}()
				atomic.AddInt64(&gets, 1)
				if err != nil && strings.HasPrefix(err.Error(), "PANIC") {
					mu.Lock()
					errs["get:panic:"+strings.ReplaceAll(strings.SplitN(err.Error(), "[", 2)[0], " ", "_")]++
					mu.Unlock()
					atomic.AddInt64(&bad, 1)
				} else if err != nil {
					mu.Lock()
					errs["get:"+errClass(err)]++
					mu.Unlock()
					atomic.AddInt64(&bad, 1)
				} else if len(v) < len(k) || string(v[:len(k)]) != string(k) {
					mu.Lock()
					errs["get:foreign-value"]++
					mu.Unlock()
					atomic.AddInt64(&bad, 1)
				}
				if err == nil && len(v) >= len(k) && string(v[:len(k)]) == string(k) {
					// the whole value, not only its head: it is a function of the key
					if i, e := strconv.Atoi(string(k[2:])); e == nil && !bytes.Equal(v[len(k):], patBytes(uint64(i), 300+i%400)) {
						mu.Lock()
						errs["get:wrong-bytes"]++
						mu.Unlock()
						atomic.AddInt64(&bad, 1)
					}
				}
				if err == nil {
					prevV, prevSum = v, crc32.ChecksumIEEE(v)
				} else {
					prevV = nil
				}
			}
		}()
	}
	nb := int64(0)
	if backups {
		deadline := time.Now().Add(time.Duration(secs * float64(time.Second)))
		for time.Now().Before(deadline) && dirEntries(o.DirPath) <= maxStressFiles {
			bdir := filepath.Join(base, fmt.Sprintf("b%d", nb))
			if err := db.Backup(bdir); err != nil {
				mu.Lock()
				errs["backup:"+errClass(err)]++
				mu.Unlock()
			}
			nb++
			os.RemoveAll(bdir)
			time.Sleep(3 * time.Millisecond)
		}
	} else {
		deadline := time.Now().Add(time.Duration(secs * float64(time.Second)))
		for time.Now().Before(deadline) && dirEntries(o.DirPath) <= maxStressFiles {
			time.Sleep(50 * time.Millisecond)
		}
	}
	close(stop)
	wg.Wait()
	db.Close()
	json.NewEncoder(os.Stdout).Encode(map[string]interface{}{"counts": map[string]int64{"get": gets, "backup": nb}, "errors": errs, "panics": map[string]int{},
		"stuck": false, "restart_agrees": true})
}
