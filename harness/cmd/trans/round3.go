// Round 3 of the translator: what `(*DataReader).next`, `(*DataFile).zeroUntilEnd` and
// `(*DataFile).Truncate` need beyond rounds 1 and 2 (see NOTES.md, "Round 3").
//
//   - receiver fields through one more pointer (`reader.dataFile.ID`), bool and []byte receiver fields,
//     receiver fields that are ASSIGNED (integers: state fields whose final values are appended to the
//     result) or WRITTEN ([]byte: state field initialised with an abstract parameter = the content at entry)
//   - method calls on a struct the receiver points to (`reader.dataFile.Size()`)
//   - calls of translated functions that contain a loop (`zeroUntilEnd`), inside `if` conditions only: the
//     call is evaluated in front of the `if` (Ctl.call / Option.bind), `none` (fuel exhausted) propagates
//   - `for i, b := range <[]byte>` loops, also directly inside a `for` body: structural recursion on the
//     number of remaining elements, no fuel
//   - an `if` with a return on some path whose branches both continue: the continuation becomes a local
//     function (join point) that both branches call
//   - bool results, pointer results for which some return statement says `nil` (`Option T`)
//   - `x = append(x, e...)` on an append-only []byte local
package main

import (
	"fmt"
	"go/ast"
	"go/token"
	"go/types"
	"sort"
	"strings"
)

type round3 struct {
	recvMut     map[string]bool // receiver field paths the function assigns (pre-scan)
	recvWritten map[string]bool // []byte receiver field paths the function writes (found on first use)
	fileOwner   string          // the Go expression whose ReadWriter the abstract parameter `file` stands for
	hoist       *[]hoisted      // non-nil while the condition of an `if` with exits is translated
	ncv         int
	fallK       string // what the end of a statement list means in front of a join point (`k<i> st`)
	nk          int
	optRes      []bool // per Go result: a pointer for which some return says nil (Lean: Option)
	loopIdx     []int  // loop number of the i-th entry of tr.loops (a nested loop precedes its parent)
	views       map[types.Object][]*ast.Ident
	appendTgt   map[types.Object]bool // targets of `x = append(x, …)`
	truncated   bool                  // the function truncates the file (effect `truncate`)
}

type hoisted struct{ name, call string }

// ---- receiver fields -------------------------------------------------------------------------

// recvChain: e = recv.f1.….fn (n ≥ 1) where every fi is a field and every proper prefix is a struct or a
// pointer to a struct of this package
func (t *tr) recvChain(e ast.Expr) (path string, ord int, ok bool) {
	if t.recvObj == nil {
		return "", 0, false
	}
	sel, isSel := e.(*ast.SelectorExpr)
	if !isSel {
		return "", 0, false
	}
	fv, isVar := t.p.info.Uses[sel.Sel].(*types.Var)
	if !isVar || !fv.IsField() {
		return "", 0, false
	}
	// position of the field in the declaration of its struct
	idx := -1
	if xt := t.typeOfExpr(sel.X); xt != nil {
		xt = types.Unalias(xt)
		if p, isPtr := xt.(*types.Pointer); isPtr {
			xt = types.Unalias(p.Elem())
		}
		named, isNamed := xt.(*types.Named)
		if !isNamed || named.Obj().Pkg() != t.p.tpkg {
			return "", 0, false
		}
		if st, isStruct := named.Underlying().(*types.Struct); isStruct {
			for i := 0; i < st.NumFields(); i++ {
				if st.Field(i) == fv {
					idx = i
				}
			}
		}
	}
	if idx < 0 {
		return "", 0, false // promoted field of an embedded struct, …
	}
	if id, isId := sel.X.(*ast.Ident); isId {
		if t.p.info.Uses[id] != t.recvObj {
			return "", 0, false
		}
		return sel.Sel.Name, (idx + 1) * 1000, true
	}
	pp, po, pok := t.recvChain(sel.X)
	if !pok || po%1000 != 0 {
		return "", 0, false // (only one level of indirection: the order key has two components)
	}
	return pp + "." + sel.Sel.Name, po + idx + 1, true
}

func isStructPtr(ty types.Type) bool {
	if ty == nil {
		return false
	}
	ty = types.Unalias(ty)
	if p, ok := ty.(*types.Pointer); ok {
		ty = types.Unalias(p.Elem())
	}
	_, ok := ty.Underlying().(*types.Struct)
	return ok
}

// recvPath: a receiver field (possibly through pointers) of a leaf type (not a struct)
func (t *tr) recvPath(e ast.Expr) (string, int, bool) {
	path, ord, ok := t.recvChain(e)
	if !ok || isStructPtr(t.typeOfExpr(e)) {
		return "", 0, false
	}
	return path, ord, true
}

// recvPtrPath: a receiver field that is (a pointer to) a struct: the receiver of a method call, the owner
// of a ReadWriter
func (t *tr) recvPtrPath(e ast.Expr) (string, bool) {
	path, _, ok := t.recvChain(e)
	if !ok || !isStructPtr(t.typeOfExpr(e)) {
		return "", false
	}
	return path, true
}

// recvFieldExpr: the value of a receiver field as an expression
func (t *tr) recvFieldExpr(e ast.Expr, path string, ord int) (lx, kind) {
	k := t.kindOf(t.typeOfExpr(e), e)
	switch {
	case k.isInt():
		return lx{s: t.recvFieldOrd(path, k, ord), atom: true}, k
	case k.k == kBool:
		if t.r3.recvMut[path] {
			failAt(e, "assignment to the bool receiver field %s is outside the subset", src(e))
		}
		return lx{s: "(" + t.recvFieldOrd(path, k, ord) + " = true)", atom: true}, k
	case k.k == kBytes:
		if t.r3.recvMut[path] {
			failAt(e, "assignment to the []byte receiver field %s is outside the subset", src(e))
		}
		if sel, ok := e.(*ast.SelectorExpr); ok && t.written[t.p.info.Uses[sel.Sel]] {
			t.r3.recvWritten[path] = true
		}
		return lx{s: t.recvFieldOrd(path, k, ord), atom: true}, k
	}
	failAt(e, "receiver field %s of kind %s is outside the subset", src(e), k.goName())
	return lx{}, kind{}
}

// r3init: pre-scan (called from setup, after the receiver is known)
func (t *tr) r3init(fd *ast.FuncDecl) {
	t.r3.recvMut = map[string]bool{}
	t.r3.recvWritten = map[string]bool{}
	t.r3.views = map[types.Object][]*ast.Ident{}
	t.r3.appendTgt = map[types.Object]bool{}
	mark := func(l ast.Expr) {
		if path, _, ok := t.recvPath(ast.Unparen(l)); ok {
			t.r3.recvMut[path] = true
		}
	}
	ast.Inspect(fd.Body, func(n ast.Node) bool {
		switch v := n.(type) {
		case *ast.AssignStmt:
			for _, l := range v.Lhs {
				mark(l)
			}
			if id, _, ok := t.selfAppend(v); ok {
				t.r3.appendTgt[t.p.info.Uses[id]] = true
			}
		case *ast.IncDecStmt:
			mark(v.X)
		}
		return true
	})
}

// recvOuts: the assigned integer receiver fields in declaration order: Lean references, types, Go names
func (t *tr) recvOuts() (refs, tys, docs []string) {
	var ps []param
	seen := map[string]bool{}
	for _, p := range t.recvFields {
		if t.r3.recvMut[p.field] {
			if !p.k.isInt() {
				failAt(t.fd, "assigned receiver field %s of kind %s", p.goName, p.k.goName())
			}
			ps = append(ps, p)
			seen[p.field] = true
		}
	}
	for f := range t.r3.recvMut {
		if !seen[f] {
			failAt(t.fd, "internal: assigned receiver field %s was not translated", f)
		}
	}
	if len(ps) > 0 {
		// a struct pointer parameter could be the receiver itself (or the struct it points to)
		for _, p := range t.params {
			if p.k.k == kStruct {
				failAt(t.fd, "struct parameter %s in a function that assigns receiver fields (possible aliasing) is outside the subset", p.goName)
			}
		}
	}
	sort.SliceStable(ps, func(i, j int) bool { return ps[i].ord < ps[j].ord })
	for _, p := range ps {
		refs = append(refs, "st."+p.name)
		tys = append(tys, p.k.lean())
		docs = append(docs, p.goName)
	}
	return
}

// r3pure: nothing of round 3 makes the function unusable as a callee
func (t *tr) r3pure() bool {
	if len(t.r3.recvMut) > 0 || t.r3.truncated {
		return false
	}
	for _, p := range t.recvFields {
		if p.mut {
			return false
		}
	}
	for _, o := range t.r3.optRes {
		if o {
			return false
		}
	}
	return true
}

func (t *tr) usesFile() bool {
	for _, a := range t.abstract {
		if a.name == absFile.name {
			return true
		}
	}
	return false
}

// setFileOwner: all reads of one function must go to the same file: the ReadWriter of the receiver or of
// one struct the receiver points to (which the function cannot re-assign: struct-typed fields are not
// assignable in the subset)
func (t *tr) setFileOwner(e ast.Expr, at ast.Node) {
	ok := false
	if id, isId := ast.Unparen(e).(*ast.Ident); isId && t.recvObj != nil && t.p.info.Uses[id] == t.recvObj {
		ok = true
	} else if _, isPath := t.recvPtrPath(ast.Unparen(e)); isPath {
		ok = true
	}
	if !ok {
		failAt(at, "%s is neither the receiver nor a struct the receiver points to", src(e))
	}
	s := src(e)
	if t.r3.fileOwner != "" && t.r3.fileOwner != s {
		failAt(at, "reads from two files (%s and %s) in one function are outside the subset", t.r3.fileOwner, s)
	}
	t.r3.fileOwner = s
}

// ---- results ---------------------------------------------------------------------------------

func (t *tr) calleeKey(v *ast.CallExpr) string {
	var fobj *types.Func
	switch f := v.Fun.(type) {
	case *ast.Ident:
		fobj, _ = t.p.info.Uses[f].(*types.Func)
	case *ast.SelectorExpr:
		fobj, _ = t.p.info.Uses[f.Sel].(*types.Func)
	}
	if fobj == nil || fobj.Pkg() != t.p.tpkg {
		return ""
	}
	key := fobj.Name()
	if sig, ok := fobj.Type().(*types.Signature); ok && sig.Recv() != nil {
		rt := sig.Recv().Type()
		if ptr, ok := rt.(*types.Pointer); ok {
			rt = ptr.Elem()
		}
		if named, ok := types.Unalias(rt).(*types.Named); ok {
			key = named.Obj().Name() + "." + key
		}
	}
	return key
}

// r3results: which pointer results are nil-able; range loops and calls of functions with loops make the
// result an `Option` like a `for` loop does
func (t *tr) r3results() {
	fd := t.fd
	t.r3.optRes = make([]bool, len(t.results))
	var ptr []bool
	if fd.Type.Results != nil {
		for _, f := range fd.Type.Results.List {
			_, isPtr := types.Unalias(t.p.info.Types[f.Type].Type).(*types.Pointer)
			ptr = append(ptr, isPtr)
		}
	}
	ast.Inspect(fd.Body, func(n ast.Node) bool {
		switch v := n.(type) {
		case *ast.FuncLit:
			return false
		case *ast.RangeStmt:
			t.hasLoop = true
		case *ast.CallExpr:
			if fi := t.p.fns[t.calleeKey(v)]; fi != nil && fi.loopy {
				t.hasLoop = true
			}
		case *ast.ReturnStmt:
			if len(v.Results) == len(t.results) {
				for j, r := range v.Results {
					if t.results[j].k == kStruct && ptr[j] && t.isNil(r) {
						t.r3.optRes[j] = true
					}
				}
			}
		}
		return true
	})
}

// resultVal: the j-th value of a return statement
func (t *tr) resultVal(r ast.Expr, j int) string {
	want := t.results[j]
	if t.r3.optRes[j] {
		if t.isNil(r) {
			return "none"
		}
		return "some " + par(t.exprWant(r, want))
	}
	if want.k == kBool {
		x, k := t.expr(r)
		if k.k != kBool {
			failAt(r, "bool expected, found %s: %s", k.goName(), src(r))
		}
		switch x.s {
		case "True":
			return "true"
		case "False":
			return "false"
		}
		return "decide (" + x.s + ")"
	}
	return t.exprWant(r, want).s
}

// ---- calls of functions with loops -----------------------------------------------------------

func (t *tr) hoistCall(v *ast.CallExpr, key, callText string) lx {
	if t.r3.hoist == nil {
		failAt(v, "call of %s, which contains a loop, is only supported inside the condition of an `if` that contains a return / break / continue", key)
	}
	name := fmt.Sprintf("cv%d", t.r3.ncv)
	t.r3.ncv++
	*t.r3.hoist = append(*t.r3.hoist, hoisted{name, callText})
	return lx{s: name, atom: true}
}

// condHoisted: the condition of an `if` with exits.  Calls of translated functions with loops are
// evaluated first, in source order, and bound to variables; such callees have no effect on the caller's
// state (r3pure), so evaluating a call that Go's short-circuit evaluation would skip changes nothing
// but the fuel: a `none` (never a Go result) propagates to the caller's result.
func (t *tr) condHoisted(e ast.Expr, o *out, ind string) (lx, string) {
	var hs []hoisted
	t.r3.hoist = &hs
	c := t.cond(e)
	t.r3.hoist = nil
	for _, h := range hs {
		if t.inLoop {
			o.add(ind, "Ctl.call ("+h.call+") fun "+h.name+" =>")
		} else {
			o.add(ind, "Option.bind ("+h.call+") fun "+h.name+" =>")
		}
		ind += "  "
	}
	return c, ind
}

// joinPoint: `if c { A } else { B } ; rest` where A or B contains an exit but both can fall through:
//
//	let k<i> : St → T := fun st => rest
//	if c then A; k<i> st else B; k<i> st
func (t *tr) joinPoint(c lx, body, el, rest []ast.Stmt, o *out, ind string) {
	name := fmt.Sprintf("k%d", t.r3.nk)
	t.r3.nk++
	ty := "@FRT@"
	if t.inLoop {
		ty = "Ctl " + t.leanName + ".St (@RT@)"
	}
	o.add(ind, "let "+name+" : "+t.leanName+".St → "+ty+" := fun st =>")
	t.terminal(rest, o, ind+"  ", false) // its own end: whatever the end of the enclosing list means
	saved := t.r3.fallK
	t.r3.fallK = name + " st"
	o.add(ind, "if "+c.s+" then")
	t.terminal(body, o, ind+"  ", false)
	o.add(ind, "else")
	t.terminal(el, o, ind+"  ", false)
	t.r3.fallK = saved
}

// ---- range loops -----------------------------------------------------------------------------

// rangeLoop: `for k, v := range e { body }` over a []byte expression e (evaluated once):
//
//	<func>.body<i> : St → Ctl St R                          the body, after k and v were set
//	<func>.loop<i> (rng : ByteArray) : Nat → Nat → St → Option (St ⊕ R)
//	  | 0, _, st => some (.inl st)                           all elements done
//	  | fuel+1, ri, st => Ctl.step (body { st with k := ri, v := rng[ri] }) (loop rng fuel (ri+1))
//	… let rng := e;  Ctl.sub / Ctl.after (loop rng rng.size 0 st) fun st => <rest>
//
// (structural recursion on the number of remaining elements: no fuel from the table; `none` only when a
// call inside the body ran out of fuel)
func (t *tr) rangeLoop(v *ast.RangeStmt, o *out, ind string) {
	if v.Tok != token.DEFINE {
		failAt(v, "only `for k, v := range e` is in the subset")
	}
	bad := ""
	ast.Inspect(v.Body, func(n ast.Node) bool {
		switch x := n.(type) {
		case *ast.BranchStmt:
			if x.Label != nil || (x.Tok != token.BREAK && x.Tok != token.CONTINUE) {
				bad = "goto / labelled branch"
			}
		case *ast.ForStmt, *ast.RangeStmt:
			bad = "nested loop"
		case *ast.LabeledStmt:
			bad = "label"
		case *ast.SwitchStmt, *ast.TypeSwitchStmt, *ast.SelectStmt:
			bad = "switch/select"
		case *ast.DeferStmt:
			bad = "defer"
		}
		return bad == ""
	})
	if bad != "" {
		failAt(v, "%s inside a range loop body is outside the subset", bad)
	}
	idx := t.nloop
	t.nloop++
	t.pending = nil
	x := t.bytesExpr(v.X)
	t.noPending(v.X)
	for _, r := range t.aliasRoots(v.X) {
		if t.writesTo(v.Body, t.p.info.Uses[r]) {
			failAt(v, "the body of the range loop writes %s, over which it ranges", r.Name)
		}
	}
	var upds []string
	if id, ok := v.Key.(*ast.Ident); ok && id.Name != "_" {
		upds = append(upds, t.declare(id, kind{k: kInt})+" := (ri : Int)")
	} else if !ok && v.Key != nil {
		failAt(v.Key, "range key %s", src(v.Key))
	}
	if v.Value != nil {
		id, ok := v.Value.(*ast.Ident)
		if !ok {
			failAt(v.Value, "range value %s", src(v.Value))
		}
		if id.Name != "_" {
			upds = append(upds, t.declare(id, kind{k: kUint, bits: 8})+" := (rng.get! ri).toNat")
		}
	}
	stName := t.leanName + ".St"
	bodyName := fmt.Sprintf("%s.body%d", t.leanName, idx)
	loopName := fmt.Sprintf("%s.loop%d", t.leanName, idx)
	body := &out{}
	savedIn, savedK := t.inLoop, t.r3.fallK
	t.inLoop, t.r3.fallK = true, ""
	t.terminal(v.Body.List, body, "  ", false)
	t.inLoop, t.r3.fallK = savedIn, savedK
	st := "st"
	if len(upds) > 0 {
		st = "{ st with " + strings.Join(upds, ", ") + " }"
	}
	hdr := "for " + src(v.Key)
	if v.Value != nil {
		hdr += ", " + src(v.Value)
	}
	hdr += " := range " + src(v.X)
	lines := []string{
		"/-- body of loop " + fmt.Sprint(idx) + " of `" + t.fd.Name.Name + "` (`" + hdr + " { … }`), after the range variables were set -/",
		"def " + bodyName + " @PARAMS@(st : " + stName + ") : Ctl " + stName + " (@RT@) :=",
		strings.Join(body.lines, "\n"),
		"",
		"/-- loop " + fmt.Sprint(idx) + " of `" + t.fd.Name.Name + "`, a range loop over the bytes `rng`: `fuel` = number of remaining elements",
		"    (structural recursion, exact), `ri` = index of the current element -/",
		"def " + loopName + " @PARAMS@(rng : ByteArray) : Nat → Nat → " + stName + " → Option (" + stName + " ⊕ (@RT@))",
		"  | 0, _, st => some (.inl st)",
		"  | fuel+1, ri, st =>",
		"    Ctl.step (" + bodyName + " @ARGS@" + st + ") (" + loopName + " @ARGS@rng fuel (ri + 1))",
	}
	t.r3.loopIdx = append(t.r3.loopIdx, idx)
	t.loops = append(t.loops, strings.Join(lines, "\n"))
	o.add(ind, "let rng := "+x.s)
	after := "Ctl.after"
	if t.inLoop {
		after = "Ctl.sub"
	}
	o.add(ind, after+" ("+loopName+" @ARGS"+fmt.Sprint(idx)+"@rng rng.size 0 st) fun st =>")
}

// ---- append ----------------------------------------------------------------------------------

// selfAppend: `x = append(x, e...)` with the same identifier x on both sides
func (t *tr) selfAppend(v *ast.AssignStmt) (*ast.Ident, ast.Expr, bool) {
	if v.Tok != token.ASSIGN || len(v.Lhs) != 1 || len(v.Rhs) != 1 {
		return nil, nil, false
	}
	ce, ok := ast.Unparen(v.Rhs[0]).(*ast.CallExpr)
	if !ok {
		return nil, nil, false
	}
	fn, ok := ce.Fun.(*ast.Ident)
	if !ok || fn.Name != "append" {
		return nil, nil, false
	}
	if _, isBuiltin := t.p.info.Uses[fn].(*types.Builtin); !isBuiltin {
		return nil, nil, false
	}
	lhs, ok := v.Lhs[0].(*ast.Ident)
	if !ok || len(ce.Args) != 2 || ce.Ellipsis == token.NoPos {
		return nil, nil, false
	}
	a0, ok := ast.Unparen(ce.Args[0]).(*ast.Ident)
	if !ok || t.p.info.Uses[a0] == nil || t.p.info.Uses[a0] != t.p.info.Uses[lhs] {
		return nil, nil, false
	}
	return lhs, ce.Args[1], true
}

// appendStmt: x = append(x, e...) ↦ x := st.x ++ e, for a []byte local x that is append-only: declared
// without a value, otherwise only appended to, measured (len) and returned.  Then no other name can share
// its backing array and the (amortised, in-place) Go append is the value-level concatenation.
func (t *tr) appendStmt(v *ast.AssignStmt) (name, rhs string, ok bool) {
	lhs, arg, isApp := t.selfAppend(v)
	if !isApp {
		return "", "", false
	}
	obj := t.p.info.Uses[lhs]
	i, isLocal := t.localByObj[obj]
	if !isLocal || t.locals[i].k.k != kBytes || t.written[obj] {
		failAt(v, "append target %s is not an unwritten []byte local", lhs.Name)
	}
	t.checkAppendOnly(obj, lhs.Name)
	y := t.bytesExpr(arg)
	return t.locals[i].name, "st." + t.locals[i].name + " ++ " + opd(y), true
}

func (t *tr) checkAppendOnly(obj types.Object, name string) {
	var stack []ast.Node
	ast.Inspect(t.fd.Body, func(n ast.Node) bool {
		if n == nil {
			stack = stack[:len(stack)-1]
			return true
		}
		stack = append(stack, n)
		id, ok := n.(*ast.Ident)
		if !ok || (t.p.info.Uses[id] != obj && t.p.info.Defs[id] != obj) {
			return true
		}
		var parent ast.Node
		if len(stack) >= 2 {
			parent = stack[len(stack)-2]
		}
		switch p := parent.(type) {
		case *ast.ValueSpec:
			if len(p.Values) == 0 {
				return true // var x []byte
			}
		case *ast.AssignStmt:
			if l, _, ok := t.selfAppend(p); ok && l == id {
				return true
			}
		case *ast.CallExpr:
			if fn, ok := p.Fun.(*ast.Ident); ok {
				if _, isBuiltin := t.p.info.Uses[fn].(*types.Builtin); isBuiltin {
					if fn.Name == "len" {
						return true
					}
					if fn.Name == "append" && len(stack) >= 3 && len(p.Args) > 0 && ast.Unparen(p.Args[0]) == ast.Expr(id) {
						if as, ok := stack[len(stack)-3].(*ast.AssignStmt); ok {
							if _, _, ok := t.selfAppend(as); ok {
								return true
							}
						}
					}
				}
			}
		case *ast.ReturnStmt:
			return true
		}
		failAt(id, "the append target %s is used in a way that could alias it (only `var %s []byte`, `%s = append(%s, e...)`, len(%s) and `return … %s …` are in the subset)", name, name, name, name, name, name)
		return true
	})
}

// expandViews (called from checkAlias): a view of a view of a written buffer is a view of that buffer;
// an append target must not be aliased at all
func (t *tr) expandViews(lhs *ast.Ident, obj types.Object, roots []*ast.Ident) []*ast.Ident {
	var all []*ast.Ident
	for _, r := range roots {
		robj := t.p.info.Uses[r]
		if t.r3.appendTgt[robj] {
			failAt(lhs, "%s would share the backing array of the append target %s (aliasing is outside the subset)", lhs.Name, r.Name)
		}
		all = append(all, r)
		all = append(all, t.r3.views[robj]...)
	}
	var ws []*ast.Ident
	for _, r := range all {
		if t.written[t.p.info.Uses[r]] {
			ws = append(ws, r)
		}
	}
	if len(ws) > 0 && obj != nil {
		t.r3.views[obj] = ws
	}
	return all
}

// ---- effects ---------------------------------------------------------------------------------

// applyRead: the effect of `… M_RW.ReadWriter.Read(M_B[M_LO:M_HI], M_OFF)` — the read succeeds completely
func (t *tr) applyRead(b map[string]ast.Node, o *out, ind string, keepErr bool) {
	name, cur := t.writeTarget(b["M_B"].(ast.Expr))
	lo, hi := t.natArg(b["M_LO"].(ast.Expr)), t.natArg(b["M_HI"].(ast.Expr))
	offx, offk := t.expr(b["M_OFF"].(ast.Expr))
	if offk.k != kInt {
		failAt(b["M_OFF"], "effect read: offset of kind %s", offk.goName())
	}
	t.noPending(b["M_B"])
	if t.r3.truncated {
		failAt(b["M_B"], "a read after the file was truncated is outside the subset")
	}
	t.useAbstract(absFile)
	off := par(offx) + ".toNat"
	upd := name + " := putAt " + cur + " " + lo + " (file.extract " + off + " (" + off + " + (" + hi + " - " + lo + ")))"
	if keepErr {
		id, ok := b["M_ERR"].(*ast.Ident)
		if !ok {
			failAt(b["M_ERR"], "effect read: the error target is not an identifier")
		}
		var en string
		if t.p.info.Defs[id] != nil {
			en = t.declare(id, kind{k: kErr})
		} else {
			n, k, _, _ := t.lvalue(id)
			if k.k != kErr {
				failAt(id, "effect read: %s is not an error variable", id.Name)
			}
			en = n
		}
		upd += ", " + en + " := none"
	}
	o.add(ind, "let st : "+t.leanName+".St := { st with "+upd+" }")
}
